import GqlVerif.Proofs.C09Options
/-!
# C09 — codegen half of the `normalization` wire theorem

`normalization` only changes *names*: with every type name (item names, `RTy.path` leaves), every Rust identifier
of a string-enum variant, the derive lists, the serde path and the `pub` flag of aliases erased (`eraseItem`),
two contexts that agree on the schema, the query, the case functions and on `deprecation`, `otherVariant`,
`skipNone`, `externEnums` — but not necessarily on `normalization` (nor on the derive / placement options of
`C09Options`) — generate the same list of items, in the same order, or fail with the same error
(`normalization_only_renames`; core: `calc_erase`, the congruence of the four mutual `calc*` functions up to
`eraseItem` / `eraseField`).  `normalization_modRel` is the structured form: the modules are equal up to names chunk
by chunk, `Variables` / `ResponseData` sit at the same positions, and string enums at the same position are
`enumItem c e` / `enumItem c' e` for the same schema enum `e` (`calc_noEnum`: the `calc*` block emits no string
enum).  The one side condition, `IdStable`: no enum / scalar name is turned into, or
away from, the special name `ID` (the generator tests the *normalized* name against `"ID"` to decide whether a
field gets the `deserialize_with` ID helpers).
-/
namespace GqlVerif
namespace C09N
open Serde Codegen C09

/-! ## erasing names -/

def eraseTy : RTy → RTy
  | .path _ => .path ""
  | .opt t => .opt (eraseTy t)
  | .vec t => .vec (eraseTy t)
  | .box t => .box (eraseTy t)

/-- the named type at the bottom of a type expression -/
def tyLeaf : RTy → String
  | .path p => p
  | .opt t => tyLeaf t
  | .vec t => tyLeaf t
  | .box t => tyLeaf t

def eraseField (f : RField) : RField := { f with ty := eraseTy f.ty, deprecated := none }

def eraseVariant (v : RVariant) : RVariant := { v with payload := v.payload.map eraseTy }

/-- erase item names, the leaves of all types, the Rust identifiers of string-enum variants, derives, serde
    path, alias visibility.  Field / variant names, wire names, serde attributes, tags and the wire strings of
    the enum tables are kept. -/
def eraseItem : Item → Item
  | .struct _ _ _ fs => .struct "" [] none (fs.map eraseField)
  | .unitStruct _ _ _ => .unitStruct "" [] none
  | .tagged _ _ _ tag vs => .tagged "" [] none tag (vs.map eraseVariant)
  | .alias _ _ t => .alias "" false (eraseTy t)
  | .gqlEnum _ _ _ _ ser de => .gqlEnum "" [] "" [] (ser.map fun x => ("", x.2)) (de.map fun x => (x.1, ""))
  | .oneOf _ _ _ vs => .oneOf "" [] none (vs.map eraseVariant)
  | .defaults _ => .defaults []

/-! ## `decorate_type` -/

theorem decorateStep_erase {st st' : RTy × Bool} (h : eraseTy st.1 = eraseTy st'.1 ∧ st.2 = st'.2) (q : Qual) :
    ORel (fun a b : RTy × Bool => eraseTy a.1 = eraseTy b.1 ∧ a.2 = b.2) (decorateStep st q) (decorateStep st' q) := by
  obtain ⟨t, nn⟩ := st
  obtain ⟨t', nn'⟩ := st'
  obtain ⟨h1, h2⟩ := h
  simp only at h1 h2
  subst h2
  cases nn <;> cases q <;> simp only [decorateStep] <;>
    first | exact rfl | exact ORel.pure ⟨h1, rfl⟩ | exact ORel.pure ⟨by simp only [eraseTy, h1], rfl⟩

theorem foldlM_decorate_erase : ∀ (qs : List Qual) {st st' : RTy × Bool},
    (eraseTy st.1 = eraseTy st'.1 ∧ st.2 = st'.2) →
    ORel (fun a b : RTy × Bool => eraseTy a.1 = eraseTy b.1 ∧ a.2 = b.2) (qs.foldlM decorateStep st) (qs.foldlM decorateStep st')
  | [], _, _, h => by simp only [List.foldlM_nil]; exact ORel.pure h
  | q :: qs, _, _, h => by
    simp only [List.foldlM_cons]
    exact ORel.bind (decorateStep_erase h q) (fun a b hab => foldlM_decorate_erase qs hab)

theorem decorateType_erase {b b' : RTy} (h : eraseTy b = eraseTy b') (quals : List Qual) :
    ORel (fun t t' => eraseTy t = eraseTy t') (decorateType b quals) (decorateType b' quals) := by
  unfold decorateType
  apply ORel.bind (foldlM_decorate_erase quals.reverse (st := (b, false)) (st' := (b', false)) ⟨h, rfl⟩)
  intro a a' ha
  obtain ⟨t, nn⟩ := a
  obtain ⟨t', nn'⟩ := a'
  obtain ⟨h1, h2⟩ := ha
  simp only at h1 h2
  subst h2
  apply ORel.pure
  cases nn <;> simp [eraseTy, h1]

/-! ## fields and expanded types -/

/-- everything the `calc*` block reads, except `normalization` -/
structure CalcNorm (c c' : Ctx) : Prop where
  s : c'.s = c.s
  q : c'.q = c.q
  cs : c'.cs = c.cs
  otherVariant : c'.o.otherVariant = c.o.otherVariant
  skipNone : c'.o.skipNone = c.o.skipNone
  deprecation : c'.o.deprecation = c.o.deprecation

/-- the two normalizations agree on which enum / scalar names are (turned into) the special name `ID` -/
def IdStable (c c' : Ctx) : Prop :=
  ∀ n ∈ c.s.enums.map (·.name) ++ c.s.scalars,
    (c'.o.normalization.fieldType c'.cs n == "ID") = (c.o.normalization.fieldType c.cs n == "ID")

instance (c c' : Ctx) : Decidable (IdStable c c') := by unfold IdStable; infer_instance

theorem renderField_erase {c c' : Ctx} (h1 : c'.o.skipNone = c.o.skipNone) (h2 : c'.o.deprecation = c.o.deprecation)
    (g : Option String) (r ft ft' : String) (hid : (ft' == "ID") = (ft == "ID")) (quals : List Qual) (fl bx : Bool)
    (dep : Option (Option String)) :
    ORel (fun a b : Option RField => a.map eraseField = b.map eraseField)
      (renderField c g r ft quals fl bx dep) (renderField c' g r ft' quals fl bx dep) := by
  unfold renderField
  rw [h1, h2, hid]
  apply ORel.bind (decorateType_erase (b := .path ft) (b' := .path ft') rfl quals); intro t t' ht
  simp only
  split
  · exact ORel.pure rfl
  · apply ORel.pure
    simp only [Option.map_some, eraseField, Option.some.injEq, RField.mk.injEq, and_true, true_and]
    cases bx <;> simp [eraseTy, ht]

theorem renderType_erase (c c' : Ctx) (n : String) {fs fs' : List RField} (h : fs.map eraseField = fs'.map eraseField)
    (vs : List RVariant) : (renderType c n fs vs).map eraseItem = (renderType c' n fs' vs).map eraseItem := by
  have he : fs'.isEmpty = fs.isEmpty := by
    have := congrArg List.length h
    simp only [List.length_map] at this
    cases fs <;> cases fs' <;> simp_all
  unfold renderType
  rw [he]
  split
  · rfl
  · split
    · simp only [List.map_cons, List.map_nil, eraseItem, h]
    · simp only [List.map_cons, List.map_nil, eraseItem, List.map_append, h]

/-! ## the `calc*` block -/

theorem ORel.bind_same' {α β} {S : β → β → Prop} {x : Outcome α} {f g : α → Outcome β}
    (hfg : ∀ a, x = .ok a → ORel S (f a) (g a)) : ORel S (x >>= f) (x >>= g) := by
  cases x
  · exact rfl
  · exact hfg _ rfl

abbrev EI (a b : List Item) : Prop := a.map eraseItem = b.map eraseItem
abbrev EF (a b : List RField) : Prop := a.map eraseField = b.map eraseField
abbrev EPv (a b : List RVariant × List Item) : Prop := a.1 = b.1 ∧ EI a.2 b.2
abbrev ET (a b : List RField × List Item × List Item) : Prop := EF a.1 b.1 ∧ EI a.2.1 b.2.1 ∧ EI a.2.2 b.2.2
abbrev EPf (a b : List RField × List Item) : Prop := EF a.1 b.1 ∧ EI a.2 b.2
/-- as `ET`, with the aliased fragments (third component) equal: `aliasMember` reads their names -/
abbrev ET' (a b : List RField × List Item × List Item) : Prop := EF a.1 b.1 ∧ EI a.2.1 b.2.1 ∧ a.2.2 = b.2.2

theorem getEnum_mem {s : Schema} {i : Nat} {en : StoredEnum} (h : s.getEnum i = .ok en) : en.name ∈ s.enums.map (·.name) := by
  unfold Schema.getEnum at h
  split at h
  · rename_i o ho
    cases h
    exact List.mem_map.mpr ⟨_, List.mem_of_getElem? ho, rfl⟩
  · cases h

theorem getScalar_mem {s : Schema} {i : Nat} {sn : String} (h : s.getScalar i = .ok sn) : sn ∈ s.scalars := by
  unfold Schema.getScalar at h
  split at h
  · rename_i o ho
    cases h
    exact List.mem_of_getElem? ho
  · cases h

theorem optToList_erase {a b : Option RField} (h : a.map eraseField = b.map eraseField) :
    a.toList.map eraseField = b.toList.map eraseField := by
  cases a <;> cases b <;> simp_all

theorem calc_erase_strong {c c' : Ctx} (H : CalcNorm c c') (hid : IdStable c c') : ∀ fuel,
    (∀ name pfx t sels, ORel EI (calcSelection c fuel name pfx t sels) (calcSelection c' fuel name pfx t sels)) ∧
    (∀ name pfx vsels vts, ORel EPv (calcVariants c fuel name pfx vsels vts) (calcVariants c' fuel name pfx vsels vts)) ∧
    (∀ sname pfx vt vsels, ORel ET' (calcVariantSels c fuel sname pfx vt vsels) (calcVariantSels c' fuel sname pfx vt vsels)) ∧
    (∀ pfx t sels, ORel EPf (calcFields c fuel pfx t sels) (calcFields c' fuel pfx t sels)) := by
  have hrf := renderField_congr H.skipNone H.deprecation
  have ham := aliasMember_congr hrf H.cs
  intro fuel
  induction fuel with
  | zero =>
    refine ⟨?_, ?_, ?_, ?_⟩
    · intros; unfold calcSelection; exact rfl
    · intros; unfold calcVariants; exact rfl
    · intros; unfold calcVariantSels; exact rfl
    · intros; unfold calcFields; exact rfl
  | succ n ih =>
    obtain ⟨ihS, ihV, ihVS, ihF⟩ := ih
    refine ⟨?_, ?_, ?_, ?_⟩
    · intro name pfx t sels
      unfold calcSelection
      simp only [H.s, H.q, H.otherVariant]
      split
      · exact ORel.refl (R := EI) (fun _ => rfl) _
      · apply ORel.bind_same; intro variants
        cases variants with
        | none =>
          simp only [pure_bind]
          apply ORel.bind (ihF pfx t sels); intro a b hab
          apply ORel.pure
          simp only [EI, List.map_append, renderType_erase c c' name hab.1, hab.2]
        | some vts =>
          simp only [pure_bind]
          apply ORel.bind_same; intro vsels
          apply ORel.bind (ihV name pfx vsels vts); intro r r' hr
          apply ORel.bind (ihF pfx t sels); intro a b hab
          apply ORel.pure
          simp only [EI, List.map_append, renderType_erase c c' name hab.1, hab.2, hr.1, hr.2]
    · intro name pfx vsels vts
      cases vts with
      | nil => unfold calcVariants; exact ORel.pure ⟨rfl, rfl⟩
      | cons vt rest =>
        unfold calcVariants
        simp only [H.s, H.q, ham]
        apply ORel.bind_same; intro vname
        have hrest : ∀ (v : RVariant) (i i' : List Item), i.map eraseItem = i'.map eraseItem →
            ORel EPv
              (do let __x ← (Pure.pure (v, i) : Outcome _)
                  let __x_1 ← calcVariants c n name pfx vsels rest
                  Pure.pure (__x.fst :: __x_1.fst, __x.snd ++ __x_1.snd))
              (do let __x ← (Pure.pure (v, i') : Outcome _)
                  let __x_1 ← calcVariants c' n name pfx vsels rest
                  Pure.pure (__x.fst :: __x_1.fst, __x.snd ++ __x_1.snd)) := by
          intro v i i' hi
          simp only [pure_bind]
          apply ORel.bind (ihV name pfx vsels rest); intro a b hab
          exact ORel.pure ⟨by rw [hab.1], by simp only [EI, List.map_append, hab.2, hi]⟩
        generalize List.filter (fun v => v.typeId == vt) vsels = mine
        split
        · exact hrest _ _ _ rfl
        · split
          · exact hrest _ _ _ rfl
          · apply ORel.bind (ihVS _ pfx vt _); intro r r' hr
            obtain ⟨r1, r2, r3⟩ := r
            obtain ⟨r1', r2', r3'⟩ := r'
            obtain ⟨h1, h2, h3⟩ := hr
            simp only at h1 h2 h3
            subst h3
            have hmem : ∀ extra : List (List RField),
                (r1 ++ extra.flatten).map eraseField = (r1' ++ extra.flatten).map eraseField := fun extra => by
              rw [List.map_append, List.map_append, h1]
            -- the decision (`pushedAny c.q vt mine`, the aliases) is the same on both sides
            simp only []
            split
            · exact hrest _ _ _ (by simp only [List.map_cons, h2])
            · apply ORel.bind_same; intro extra
              exact hrest _ _ _ (by simp only [List.map_append, renderType_erase c c' _ (hmem extra), h2])
    · intro sname pfx vt vsels
      cases vsels with
      | nil => unfold calcVariantSels; exact ORel.pure ⟨rfl, rfl, rfl⟩
      | cons v rest =>
        cases v with
        | inline t sub =>
          unfold calcVariantSels
          simp only [H.s, H.q, H.cs]
          apply ORel.bind_same; intro tn
          split
          · apply ORel.bind_same; intro fr
            simp only [pure_bind]
            apply ORel.bind (ihVS sname pfx vt rest); intro a b hab
            exact ORel.pure ⟨by simp only [EF, List.map_append, hab.1], by simp only [EI, List.map_append, hab.2.1],
              by rw [hab.2.2]⟩
          · apply ORel.bind (ihF _ vt sub); intro x y hxy
            simp only [pure_bind]
            apply ORel.bind (ihVS sname pfx vt rest); intro a b hab
            exact ORel.pure ⟨by simp only [EF, List.map_append, hab.1, hxy.1],
              by simp only [EI, List.map_append, hab.2.1, hxy.2], by rw [hab.2.2]⟩
        | spread fid fr =>
          unfold calcVariantSels
          simp only [H.q, H.cs, hrf]
          apply ORel.bind_same; intro fld
          apply ORel.bind (ihVS sname pfx vt rest); intro a b hab
          exact ORel.pure ⟨by simp only [EF, List.map_append, hab.1], hab.2.1, hab.2.2⟩
    · intro pfx t sels
      cases sels with
      | nil => unfold calcFields; exact ORel.pure ⟨rfl, rfl⟩
      | cons sel rest =>
        have hcons : ∀ (fl fl' : Option RField) (i i' : List Item), fl.map eraseField = fl'.map eraseField →
            i.map eraseItem = i'.map eraseItem →
            ORel EPf
              (do let __x ← (Pure.pure (fl, i) : Outcome _)
                  let __x_1 ← calcFields c n pfx t rest
                  Pure.pure (__x.fst.toList ++ __x_1.fst, __x.snd ++ __x_1.snd))
              (do let __x ← (Pure.pure (fl', i') : Outcome _)
                  let __x_1 ← calcFields c' n pfx t rest
                  Pure.pure (__x.fst.toList ++ __x_1.fst, __x.snd ++ __x_1.snd)) := by
          intro fl fl' i i' hfl hi
          simp only [pure_bind]
          apply ORel.bind (ihF pfx t rest); intro a b hab
          exact ORel.pure ⟨by simp only [EF, List.map_append, hab.1, optToList_erase hfl],
            by simp only [EI, List.map_append, hab.2, hi]⟩
        cases sel with
        | field al fid sub =>
          unfold calcFields
          simp only [H.s, H.cs]
          apply ORel.bind_same; intro sf
          split
          · apply ORel.bind_same'; intro en hen
            have := hid en.name (List.mem_append_left _ (getEnum_mem hen))
            rw [H.cs] at this
            apply ORel.bind (renderField_erase H.skipNone H.deprecation _ _ _ _ this _ _ _ _); intro fl fl' hfl
            exact hcons _ _ _ _ hfl rfl
          · apply ORel.bind_same'; intro sn hsn
            have := hid sn (List.mem_append_right _ (getScalar_mem hsn))
            rw [H.cs] at this
            apply ORel.bind (renderField_erase H.skipNone H.deprecation _ _ _ _ this _ _ _ _); intro fl fl' hfl
            exact hcons _ _ _ _ hfl rfl
          · exact ORel.refl (R := EPf) (fun _ => ⟨rfl, rfl⟩) _
          · apply ORel.bind (renderField_erase H.skipNone H.deprecation _ _ _ _ rfl _ _ _ _); intro fl fl' hfl
            apply ORel.bind (ihS _ _ _ sub); intro i i' hi
            exact hcons _ _ _ _ hfl hi
        | spread fid =>
          unfold calcFields
          simp only [H.q, H.cs, hrf]
          apply ORel.bind_same; intro fr
          apply ORel.bind (ihF pfx t rest); intro a b hab
          split
          · exact ORel.pure ⟨hab.1, hab.2⟩
          · apply ORel.bind_same; intro fl
            exact ORel.pure ⟨by simp only [EF, List.map_append, hab.1], hab.2⟩
        | inline t' sub =>
          unfold calcFields
          exact ihF pfx t rest
        | typename =>
          unfold calcFields
          exact ihF pfx t rest

theorem calc_erase {c c' : Ctx} (H : CalcNorm c c') (hid : IdStable c c') : ∀ fuel,
    (∀ name pfx t sels, ORel EI (calcSelection c fuel name pfx t sels) (calcSelection c' fuel name pfx t sels)) ∧
    (∀ name pfx vsels vts, ORel EPv (calcVariants c fuel name pfx vsels vts) (calcVariants c' fuel name pfx vsels vts)) ∧
    (∀ sname pfx vt vsels, ORel ET (calcVariantSels c fuel sname pfx vt vsels) (calcVariantSels c' fuel sname pfx vt vsels)) ∧
    (∀ pfx t sels, ORel EPf (calcFields c fuel pfx t sels) (calcFields c' fuel pfx t sels)) := by
  intro fuel
  obtain ⟨h1, h2, h3, h4⟩ := calc_erase_strong H hid fuel
  exact ⟨h1, h2, fun sname pfx vt vsels =>
    (h3 sname pfx vt vsels).mono (fun a b hab => ⟨hab.1, hab.2.1, by rw [EI, hab.2.2]⟩), h4⟩

/-! ## the module level -/

/-- `c` and `c'` have the same schema, query and case functions and agree on `deprecation`, `otherVariant`,
    `skipNone`, `externEnums`; they may differ in **`normalization`** and in `responseDerives`,
    `variablesDerives`, `serdePath`, `visibility`, `queryFile`, `mode`, `operationName`, `structIdent`,
    `scalarsModule` -/
structure NormAgree (c c' : Ctx) : Prop extends CalcNorm c c' where
  externEnums : c'.o.externEnums = c.o.externEnums

/-- the hypothesis is satisfiable with the normalization (and the neutral options) changed -/
example (c : Ctx) (nz : Normalization) (rd vd sm : Option String) (sp : String) :
    NormAgree c { c with o := { c.o with normalization := nz, responseDerives := rd, variablesDerives := vd,
                                         scalarsModule := sm, serdePath := sp } } :=
  { s := rfl, q := rfl, cs := rfl, otherVariant := rfl, skipNone := rfl, deprecation := rfl, externEnums := rfl }

theorem scalarItems_erase {c c' : Ctx} (H : NormAgree c c') (u : UsedTypes) :
    ORel EI (scalarItems c u) (scalarItems c' u) := by
  unfold scalarItems
  simp only [H.s]
  apply ORel.bind_same; intro names
  apply ORel.pure
  simp only [EI, List.map_map]
  apply List.map_congr_left
  intro n _
  rfl

theorem enumItem_erase (c c' : Ctx) (e : StoredEnum) : eraseItem (enumItem c e) = eraseItem (enumItem c' e) := by
  simp only [enumItem, eraseItem, List.map_map, Function.comp_def]

theorem enumItems_erase {c c' : Ctx} (H : NormAgree c c') (u : UsedTypes) :
    ORel EI (enumItems c u) (enumItems c' u) := by
  unfold enumItems
  simp only [H.s, H.externEnums]
  apply ORel.bind_same; intro es
  apply ORel.pure
  simp only [EI, List.map_map]
  apply List.map_congr_left
  intro e _
  exact enumItem_erase c c' e

theorem decorateType_erase_path (a b : String) (quals : List Qual) :
    ORel (fun t t' => eraseTy t = eraseTy t') (decorateType (.path a) quals) (decorateType (.path b) quals) :=
  decorateType_erase (b := .path a) (b' := .path b) rfl quals

theorem inputFieldType_erase {c c' : Ctx} (H : NormAgree c c') (ty : FieldType) (quals : List Qual) :
    ORel (fun t t' => eraseTy t = eraseTy t') (inputFieldType c ty quals) (inputFieldType c' ty quals) := by
  unfold inputFieldType
  simp only [H.s, H.cs]
  apply ORel.bind_same; intro tn
  apply ORel.bind (decorateType_erase_path _ _ quals); intro t t' ht
  apply ORel.pure
  show eraseTy _ = eraseTy _
  repeat' split
  all_goals first | exact ht | simp only [eraseTy, ht]

theorem inputItem_erase {c c' : Ctx} (H : NormAgree c c') (i : StoredInput) :
    ORel (fun a b => eraseItem a = eraseItem b) (inputItem c i) (inputItem c' i) := by
  unfold inputItem
  simp only [H.cs, H.skipNone]
  split
  · refine ORel.bind (ORel.mapM eraseVariant (fun x => ?_) i.fields) (fun a b hab => ORel.pure (by simp only [eraseItem, hab]))
    apply ORel.bind (inputFieldType_erase H _ _); intro t t' ht
    exact ORel.pure (by simp only [eraseVariant, Option.map_some, ht])
  · refine ORel.bind (ORel.mapM eraseField (fun x => ?_) i.fields) (fun a b hab => ORel.pure (by simp only [eraseItem, hab]))
    apply ORel.bind (inputFieldType_erase H _ _); intro t t' ht
    exact ORel.pure (by simp only [eraseField, ht])

theorem variableType_erase {c c' : Ctx} (H : NormAgree c c') (v : RVariable) :
    ORel (fun t t' => eraseTy t = eraseTy t') (variableType c v) (variableType c' v) := by
  unfold variableType
  simp only [H.s, H.cs]
  apply ORel.bind_same; intro tn
  exact decorateType_erase_path _ _ _

theorem ORel.true_right {α} {x y : Outcome α} (h : ORel (fun _ _ => True) x y) (f : α → α) :
    ORel (fun _ _ => True) x (y >>= fun r => pure (f r)) := by
  cases x <;> cases y <;> simp_all [ORel, bind, Except.bind, pure, Except.pure]

theorem ORel.true_left {α} {x y : Outcome α} (h : ORel (fun _ _ => True) x y) (f : α → α) :
    ORel (fun _ _ => True) (x >>= fun r => pure (f r)) y := by
  cases x <;> cases y <;> simp_all [ORel, bind, Except.bind, pure, Except.pure]

theorem ORel.filterMapM_true {α β} {g g' : α → Outcome (Option β)} (h : ∀ x, ORel (fun _ _ => True) (g x) (g' x)) :
    ∀ xs : List α, ORel (fun _ _ => True) (xs.filterMapM g) (xs.filterMapM g')
  | [] => by simp only [List.filterMapM_nil]; exact ORel.pure trivial
  | x :: xs => by
    simp only [List.filterMapM_cons]
    apply ORel.bind (h x); intro a b _
    have ih := ORel.filterMapM_true h xs
    cases a <;> cases b <;> simp only
    · exact ih
    · exact ORel.true_right ih _
    · exact ORel.true_left ih _
    · exact ORel.true_left (ORel.true_right ih _) _

theorem variablesItems_erase {c c' : Ctx} (H : NormAgree c c') (op : Nat) :
    ORel EI (variablesItems c op) (variablesItems c' op) := by
  unfold variablesItems
  simp only [H.s, H.q, H.cs, H.skipNone]
  split
  · exact ORel.pure rfl
  · refine ORel.bind (ORel.mapM eraseField (fun v => ?_) _) (fun fs fs' hfs => ?_)
    · apply ORel.bind (variableType_erase H v); intro t t' ht
      exact ORel.pure (by simp only [eraseField, ht])
    · refine ORel.bind (R := fun _ _ => True) (ORel.filterMapM_true (fun v => ?_) _) (fun d d' _ => ?_)
      · cases v.default with
        | none => exact ORel.pure trivial
        | some dv =>
          simp only
          apply ORel.bind (variableType_erase H v); intro t t' _
          apply ORel.bind_same; intro _
          exact ORel.pure trivial
      · exact ORel.pure (by simp only [EI, List.map_cons, List.map_nil, eraseItem, hfs])

/-! ## string enums come only from `enumItem` -/

def isEnum : Item → Bool
  | .gqlEnum .. => true
  | _ => false

def NoEnum (l : List Item) : Prop := ∀ it ∈ l, isEnum it = false

theorem NoEnum.nil : NoEnum [] := fun _ h => by cases h

theorem NoEnum.append {a b : List Item} (ha : NoEnum a) (hb : NoEnum b) : NoEnum (a ++ b) := by
  intro it h
  rcases List.mem_append.mp h with h | h
  · exact ha it h
  · exact hb it h

theorem NoEnum.cons {a : Item} {b : List Item} (ha : isEnum a = false) (hb : NoEnum b) : NoEnum (a :: b) := by
  intro it h
  rcases List.mem_cons.mp h with rfl | h
  · exact ha
  · exact hb it h

/-- a property of the result, if there is one -/
def OAll {α} (P : α → Prop) : Outcome α → Prop
  | .ok a => P a
  | .error _ => True

theorem OAll.pure {α} {P : α → Prop} {a : α} (h : P a) : OAll P (Pure.pure a : Outcome α) := h

theorem OAll.bind {α β} {P : α → Prop} {Q : β → Prop} {x : Outcome α} {f : α → Outcome β}
    (hx : OAll P x) (hf : ∀ a, P a → OAll Q (f a)) : OAll Q (x >>= f) := by
  cases x
  · exact trivial
  · exact hf _ hx

theorem OAll.bind_any {α β} {Q : β → Prop} {x : Outcome α} {f : α → Outcome β}
    (hf : ∀ a, OAll Q (f a)) : OAll Q (x >>= f) := by
  cases x
  · exact trivial
  · exact hf _

theorem OAll.error {α} {P : α → Prop} (e : Err) : OAll P (.error e : Outcome α) := trivial

theorem OAll.of_ok {α} {P : α → Prop} {x : Outcome α} {a : α} (h : OAll P x) (hx : x = .ok a) : P a := by
  subst hx; exact h

theorem OAll.mapM {α β} {P : β → Prop} {g : α → Outcome β} (h : ∀ x, OAll P (g x)) :
    ∀ xs : List α, OAll (fun ys => ∀ y ∈ ys, P y) (xs.mapM g)
  | [] => by simp only [List.mapM_nil]; exact OAll.pure (fun _ h => by cases h)
  | x :: xs => by
    simp only [List.mapM_cons]
    apply OAll.bind (h x); intro a ha
    apply OAll.bind (OAll.mapM h xs); intro as has
    apply OAll.pure
    intro y hy
    rcases List.mem_cons.mp hy with rfl | hy
    · exact ha
    · exact has y hy

theorem renderType_noEnum (c : Ctx) (n : String) (fs : List RField) (vs : List RVariant) : NoEnum (renderType c n fs vs) := by
  unfold renderType
  split
  · exact NoEnum.cons rfl NoEnum.nil
  · split
    · exact NoEnum.cons rfl NoEnum.nil
    · exact NoEnum.cons rfl (NoEnum.cons rfl NoEnum.nil)

theorem calc_noEnum (c : Ctx) : ∀ fuel,
    (∀ name pfx t sels, OAll NoEnum (calcSelection c fuel name pfx t sels)) ∧
    (∀ name pfx vsels vts, OAll (fun r => NoEnum r.2) (calcVariants c fuel name pfx vsels vts)) ∧
    (∀ sname pfx vt vsels, OAll (fun r => NoEnum r.2.1 ∧ NoEnum r.2.2) (calcVariantSels c fuel sname pfx vt vsels)) ∧
    (∀ pfx t sels, OAll (fun r => NoEnum r.2) (calcFields c fuel pfx t sels)) := by
  intro fuel
  induction fuel with
  | zero =>
    refine ⟨?_, ?_, ?_, ?_⟩
    · intros; unfold calcSelection; exact trivial
    · intros; unfold calcVariants; exact trivial
    · intros; unfold calcVariantSels; exact trivial
    · intros; unfold calcFields; exact trivial
  | succ n ih =>
    obtain ⟨ihS, ihV, ihVS, ihF⟩ := ih
    refine ⟨?_, ?_, ?_, ?_⟩
    · intro name pfx t sels
      unfold calcSelection
      simp only
      split
      · apply OAll.bind_any; intro f
        exact OAll.pure (NoEnum.cons rfl NoEnum.nil)
      · apply OAll.bind_any; intro variants
        cases variants with
        | none =>
          simp only [pure_bind]
          apply OAll.bind (ihF pfx t sels); intro a ha
          exact OAll.pure (((renderType_noEnum c name _ _).append NoEnum.nil).append ha)
        | some vts =>
          simp only [pure_bind]
          apply OAll.bind_any; intro vsels
          apply OAll.bind (ihV name pfx vsels vts); intro r hr
          apply OAll.bind (ihF pfx t sels); intro a ha
          exact OAll.pure (((renderType_noEnum c name _ _).append hr).append ha)
    · intro name pfx vsels vts
      cases vts with
      | nil => unfold calcVariants; exact OAll.pure NoEnum.nil
      | cons vt rest =>
        unfold calcVariants
        simp only []
        apply OAll.bind_any; intro vname
        have hrest : ∀ (v : RVariant) (i : List Item), NoEnum i →
            OAll (fun r : List RVariant × List Item => NoEnum r.2)
              (do let __x ← (Pure.pure (v, i) : Outcome _)
                  let __x_1 ← calcVariants c n name pfx vsels rest
                  Pure.pure (__x.fst :: __x_1.fst, __x.snd ++ __x_1.snd)) := by
          intro v i hi
          simp only [pure_bind]
          apply OAll.bind (ihV name pfx vsels rest); intro a ha
          exact OAll.pure (hi.append ha)
        generalize List.filter (fun v => v.typeId == vt) vsels = mine
        split
        · exact hrest _ _ NoEnum.nil
        · split
          · exact hrest _ _ (NoEnum.cons rfl NoEnum.nil)
          · apply OAll.bind (ihVS _ pfx vt _); intro r hr
            obtain ⟨r1, r2, r3⟩ := r
            obtain ⟨h2, h3⟩ := hr
            simp only at h2 h3
            simp only []
            split
            · rename_i a _
              exact hrest _ _ (NoEnum.cons (h3 a (by simp)) h2)
            · apply OAll.bind_any; intro extra
              exact hrest _ _ ((renderType_noEnum c _ _ _).append h2)
    · intro sname pfx vt vsels
      cases vsels with
      | nil => unfold calcVariantSels; exact OAll.pure ⟨NoEnum.nil, NoEnum.nil⟩
      | cons v rest =>
        cases v with
        | inline t sub =>
          unfold calcVariantSels
          apply OAll.bind_any; intro tn
          simp only
          split
          · apply OAll.bind_any; intro fr
            simp only [pure_bind]
            apply OAll.bind (ihVS sname pfx vt rest); intro a ha
            exact OAll.pure ⟨NoEnum.nil.append ha.1, (NoEnum.cons rfl NoEnum.nil).append ha.2⟩
          · apply OAll.bind (ihF _ vt sub); intro x hx
            simp only [pure_bind]
            apply OAll.bind (ihVS sname pfx vt rest); intro a ha
            exact OAll.pure ⟨hx.append ha.1, NoEnum.nil.append ha.2⟩
        | spread fid fr =>
          unfold calcVariantSels
          apply OAll.bind_any; intro fld
          apply OAll.bind (ihVS sname pfx vt rest); intro a ha
          exact OAll.pure ha
    · intro pfx t sels
      cases sels with
      | nil => unfold calcFields; exact OAll.pure NoEnum.nil
      | cons sel rest =>
        have hcons : ∀ (fl : Option RField) (i : List Item), NoEnum i →
            OAll (fun r : List RField × List Item => NoEnum r.2)
              (do let __x ← (Pure.pure (fl, i) : Outcome _)
                  let __x_1 ← calcFields c n pfx t rest
                  Pure.pure (__x.fst.toList ++ __x_1.fst, __x.snd ++ __x_1.snd)) := by
          intro fl i hi
          simp only [pure_bind]
          apply OAll.bind (ihF pfx t rest); intro a ha
          exact OAll.pure (hi.append ha)
        cases sel with
        | field al fid sub =>
          unfold calcFields
          apply OAll.bind_any; intro sf
          simp only
          split
          · apply OAll.bind_any; intro en
            apply OAll.bind_any; intro fl
            exact hcons _ _ NoEnum.nil
          · apply OAll.bind_any; intro sn
            apply OAll.bind_any; intro fl
            exact hcons _ _ NoEnum.nil
          · exact trivial
          · apply OAll.bind_any; intro fl
            apply OAll.bind (ihS _ _ _ sub); intro i hi
            exact hcons _ _ hi
        | spread fid =>
          unfold calcFields
          apply OAll.bind_any; intro fr
          apply OAll.bind (ihF pfx t rest); intro a ha
          obtain ⟨fs, items⟩ := a
          simp only at ha ⊢
          split
          · exact OAll.pure ha
          · apply OAll.bind_any; intro fl
            exact OAll.pure ha
        | inline t' sub =>
          unfold calcFields
          exact ihF pfx t rest
        | typename =>
          unfold calcFields
          exact ihF pfx t rest

theorem scalarItems_noEnum (c : Ctx) (u : UsedTypes) : OAll NoEnum (scalarItems c u) := by
  unfold scalarItems
  simp only []
  apply OAll.bind_any; intro names
  apply OAll.pure
  intro it h
  obtain ⟨n, _, rfl⟩ := List.mem_map.mp h
  rfl

theorem inputItems_noEnum (c : Ctx) (u : UsedTypes) : OAll NoEnum (inputItems c u) := by
  unfold inputItems
  refine OAll.mapM (P := fun it => isEnum it = false) (fun x => ?_) _
  unfold inputItem
  simp only []
  split
  · apply OAll.bind_any; intro vs; exact OAll.pure rfl
  · apply OAll.bind_any; intro fs; exact OAll.pure rfl

theorem variablesItems_noEnum (c : Ctx) (op : Nat) : OAll NoEnum (variablesItems c op) := by
  unfold variablesItems
  simp only []
  split
  · exact OAll.pure (NoEnum.cons rfl NoEnum.nil)
  · apply OAll.bind_any; intro fs
    apply OAll.bind_any; intro dfl
    exact OAll.pure (NoEnum.cons rfl (NoEnum.cons rfl NoEnum.nil))

theorem fragmentItems_noEnum (c : Ctx) (fid : Nat) : OAll NoEnum (fragmentItems c fid) := by
  unfold fragmentItems
  apply OAll.bind_any; intro fr
  exact (calc_noEnum c _).1 _ _ _ _

theorem responseItems_noEnum (c : Ctx) (o : ROperation) : OAll NoEnum (responseItems c o) := by
  unfold responseItems
  exact (calc_noEnum c _).1 _ _ _ _

theorem noEnum_flatten {ls : List (List Item)} (h : ∀ l ∈ ls, NoEnum l) : NoEnum ls.flatten := by
  intro it hit
  obtain ⟨l, hl, hi⟩ := List.mem_flatten.mp hit
  exact h l hl it hi

theorem getEnum_mem' (s : Schema) (i : Nat) : OAll (· ∈ s.enums) (s.getEnum i) := by
  unfold Schema.getEnum
  split
  · rename_i o ho; exact OAll.pure (List.mem_of_getElem? ho)
  · exact trivial

/-- the enum items of the two modules are `enumItem c e` / `enumItem c' e` for the same enums `e` -/
theorem enumItems_from {c c' : Ctx} (hs : c'.s = c.s) (hx : c'.o.externEnums = c.o.externEnums) (u : UsedTypes)
    (en : List Item) (h : enumItems c u = .ok en) :
    ∃ es : List StoredEnum, (∀ e ∈ es, e ∈ c.s.enums) ∧ en = es.map (enumItem c) ∧
      enumItems c' u = .ok (es.map (enumItem c')) := by
  unfold enumItems at h ⊢
  simp only [hs, hx]
  obtain ⟨es, hes, h⟩ := bind_ok h
  cases h
  have hmem := (OAll.mapM (getEnum_mem' c.s) _).of_ok hes
  refine ⟨es.filter (fun e => !c.o.externEnums.contains e.name), fun e he => hmem e (List.mem_filter.mp he).1, rfl, ?_⟩
  rw [hes]; rfl

/-- at every position the two items are the enum items of the same enum, or the first one is not an enum -/
def EnumsFrom (c c' : Ctx) (a b : List Item) : Prop :=
  ∀ x ∈ a.zip b, (∃ e ∈ c.s.enums, x = (enumItem c e, enumItem c' e)) ∨ isEnum x.1 = false

theorem enumsFrom_append {c c' : Ctx} {a a' b b' : List Item} (hl : a.length = a'.length)
    (ha : EnumsFrom c c' a a') (hb : EnumsFrom c c' b b') : EnumsFrom c c' (a ++ b) (a' ++ b') := by
  intro x hx
  rw [List.zip_append hl] at hx
  rcases List.mem_append.mp hx with h | h
  · exact ha x h
  · exact hb x h

theorem enumsFrom_of_noEnum {c c' : Ctx} {a b : List Item} (ha : NoEnum a) : EnumsFrom c c' a b := by
  intro x hx
  obtain ⟨x1, x2⟩ := x
  exact Or.inr (ha x1 (List.of_mem_zip hx).1)

theorem enumsFrom_map {c c' : Ctx} {es : List StoredEnum} (h : ∀ e ∈ es, e ∈ c.s.enums) :
    EnumsFrom c c' (es.map (enumItem c)) (es.map (enumItem c')) := by
  intro x hx
  rw [List.zip_map'] at hx
  obtain ⟨e, he, rfl⟩ := List.mem_map.mp hx
  exact Or.inl ⟨e, h e he, rfl⟩

theorem ei_length {a b : List Item} (h : EI a b) : a.length = b.length := by
  simpa using congrArg List.length h

/-! ## where `Variables` and `ResponseData` sit -/

/-- the first item is named `n` -/
def HeadNamed (n : String) (l : List Item) : Prop := ∃ it rest, l = it :: rest ∧ it.name = n

theorem HeadNamed.append {n : String} {l : List Item} (h : HeadNamed n l) (l' : List Item) : HeadNamed n (l ++ l') := by
  obtain ⟨it, rest, rfl, hn⟩ := h
  exact ⟨it, rest ++ l', rfl, hn⟩

theorem renderType_head (c : Ctx) (n : String) (fs : List RField) (vs : List RVariant) : HeadNamed n (renderType c n fs vs) := by
  unfold renderType
  split
  · exact ⟨_, _, rfl, rfl⟩
  · split <;> exact ⟨_, _, rfl, rfl⟩

theorem calcSelection_head (c : Ctx) (fuel : Nat) (name pfx : String) (t : TypeId) (sels : List Sel) (items : List Item)
    (h : calcSelection c fuel name pfx t sels = .ok items) : HeadNamed name items := by
  cases fuel with
  | zero => unfold calcSelection at h; cases h
  | succ n =>
    unfold calcSelection at h
    simp only at h
    split at h
    · obtain ⟨f, _, h⟩ := bind_ok h
      cases h
      exact ⟨_, _, rfl, rfl⟩
    · obtain ⟨variants, _, h⟩ := bind_ok h
      cases variants with
      | none =>
        simp only [pure_bind] at h
        obtain ⟨rf, _, h⟩ := bind_ok h
        cases h
        exact ((renderType_head c name _ _).append _).append _
      | some vts =>
        simp only at h
        obtain ⟨vsels, _, h⟩ := bind_ok h
        obtain ⟨r, _, h⟩ := bind_ok h
        simp only [pure_bind] at h
        obtain ⟨rf, _, h⟩ := bind_ok h
        cases h
        exact ((renderType_head c name _ _).append _).append _

theorem variablesItems_head (c : Ctx) (op : Nat) (items : List Item) (h : variablesItems c op = .ok items) :
    HeadNamed "Variables" items := by
  unfold variablesItems at h
  simp only at h
  split at h
  · cases h; exact ⟨_, _, rfl, rfl⟩
  · obtain ⟨fs, _, h⟩ := bind_ok h
    obtain ⟨dfl, _, h⟩ := bind_ok h
    cases h
    exact ⟨_, _, rfl, rfl⟩

theorem ORel.bind' {α β} {R : α → α → Prop} {S : β → β → Prop} {x y : Outcome α} {f g : α → Outcome β}
    (hxy : ORel R x y) (hfg : ∀ a b, x = .ok a → y = .ok b → R a b → ORel S (f a) (g b)) : ORel S (x >>= f) (y >>= g) := by
  cases x <;> cases y <;> simp only [ORel] at hxy
  · subst hxy; exact rfl
  · exact hfg _ _ rfl rfl hxy

/-- the two modules are equal up to names chunk by chunk; the chunk of the variables starts with `Variables`,
    the last chunk with `ResponseData`; string enums at the same position come from the same schema enum -/
def ModRel (c c' : Ctx) (a b : List Item) : Prop :=
  ∃ pre pre' vars vars' mid mid' resp resp',
    a = pre ++ vars ++ mid ++ resp ∧ b = pre' ++ vars' ++ mid' ++ resp' ∧
    EI pre pre' ∧ EI vars vars' ∧ EI mid mid' ∧ EI resp resp' ∧
    HeadNamed "Variables" vars ∧ HeadNamed "Variables" vars' ∧
    HeadNamed "ResponseData" resp ∧ HeadNamed "ResponseData" resp' ∧ EnumsFrom c c' a b

theorem ModRel.ei {c c' : Ctx} {a b : List Item} (h : ModRel c c' a b) : EI a b := by
  obtain ⟨pre, pre', vars, vars', mid, mid', resp, resp', rfl, rfl, h1, h2, h3, h4, _⟩ := h
  simp only [EI, List.map_append] at *
  rw [h1, h2, h3, h4]

theorem normalization_modRel {c c' : Ctx} (H : NormAgree c c') (hid : IdStable c c') (op : Nat) :
    ORel (ModRel c c') (responseForQuery c op) (responseForQuery c' op) := by
  have hC := calc_erase H.toCalcNorm hid
  have hfrag : ∀ fid, ORel (fun a b : List Item => a.map eraseItem = b.map eraseItem) (fragmentItems c fid) (fragmentItems c' fid) := by
    intro fid
    unfold fragmentItems
    simp only [H.s, H.q, H.cs]
    apply ORel.bind_same; intro fr
    exact (hC _).1 _ _ _ _
  have hinput : ∀ u, ORel EI (inputItems c u) (inputItems c' u) := by
    intro u
    unfold inputItems
    simp only [H.s]
    exact ORel.mapM eraseItem (fun (x : StoredInput × Nat) => inputItem_erase H x.1) _
  have hresp : ∀ o, ORel EI (responseItems c o) (responseItems c' o) := by
    intro o
    unfold responseItems
    simp only [H.s, H.q, H.cs]
    exact (hC _).1 _ _ _ _
  unfold responseForQuery
  simp only [H.s, H.q]
  apply ORel.bind_same; intro u
  apply ORel.bind' (scalarItems_erase H u); intro sc sc' hsc0 _ hsc
  apply ORel.bind' (enumItems_erase H u); intro en en' hen0 hen0' hen
  apply ORel.bind' (ORel.mapM (List.map eraseItem) hfrag _); intro fr fr' hfr0 _ hfr
  apply ORel.bind' (hinput u); intro inp inp' hinp0 _ hinp
  apply ORel.bind' (variablesItems_erase H op); intro vs vs' hv hv' hvs
  apply ORel.bind_same; intro o
  apply ORel.bind' (hresp o); intro r r' hr hr' hrr
  apply ORel.pure
  have hpre : EI (builtinAliases ++ sc ++ en ++ inp) (builtinAliases ++ sc' ++ en' ++ inp') := by
    simp only [EI, List.map_append, hsc, hen, hinp]
  have hmid : EI fr.flatten fr'.flatten := by simp only [EI, List.map_flatten, hfr]
  refine ⟨builtinAliases ++ sc ++ en ++ inp, builtinAliases ++ sc' ++ en' ++ inp', vs, vs', fr.flatten, fr'.flatten, r, r',
    rfl, rfl, hpre, hvs, hmid, hrr, variablesItems_head c op vs hv, variablesItems_head c' op vs' hv', ?_, ?_, ?_⟩
  · unfold responseItems at hr; exact calcSelection_head _ _ _ _ _ _ _ hr
  · unfold responseItems at hr'; exact calcSelection_head _ _ _ _ _ _ _ hr'
  · obtain ⟨es, hes, rfl, hen'⟩ := enumItems_from H.s H.externEnums u en hen0
    rw [hen'] at hen0'
    cases hen0'
    have nsc : NoEnum sc := (scalarItems_noEnum c u).of_ok hsc0
    have ninp : NoEnum inp := (inputItems_noEnum c u).of_ok hinp0
    have nvs : NoEnum vs := (variablesItems_noEnum c op).of_ok hv
    have nfr : NoEnum fr.flatten :=
      noEnum_flatten ((OAll.mapM (fragmentItems_noEnum c) _).of_ok hfr0)
    have nr : NoEnum r := (responseItems_noEnum c o).of_ok hr
    have nb : NoEnum builtinAliases := by intro it h; simp only [builtinAliases, List.mem_cons, List.not_mem_nil, or_false] at h; rcases h with rfl | rfl | rfl | rfl <;> rfl
    have e1 : EnumsFrom c c' (builtinAliases ++ sc) (builtinAliases ++ sc') :=
      enumsFrom_of_noEnum (nb.append nsc)
    have l1 : (builtinAliases ++ sc).length = (builtinAliases ++ sc').length := by
      simp only [List.length_append, ei_length hsc]
    have e2 := enumsFrom_append l1 e1 (enumsFrom_map (c' := c') hes)
    have l2 : (builtinAliases ++ sc ++ es.map (enumItem c)).length = (builtinAliases ++ sc' ++ es.map (enumItem c')).length := by
      simp only [List.length_append, ei_length hsc, List.length_map]
    have e3 := enumsFrom_append l2 e2 (enumsFrom_of_noEnum (c := c) (c' := c') (b := inp') ninp)
    have e4 := enumsFrom_append (ei_length hpre) e3 (enumsFrom_of_noEnum (c := c) (c' := c') (b := vs') nvs)
    have l4 : (builtinAliases ++ sc ++ es.map (enumItem c) ++ inp ++ vs).length =
        (builtinAliases ++ sc' ++ es.map (enumItem c') ++ inp' ++ vs').length := by
      rw [List.length_append, List.length_append (bs := vs'), ei_length hpre, ei_length hvs]
    have e5 := enumsFrom_append l4 e4 (enumsFrom_of_noEnum (c := c) (c' := c') (b := fr'.flatten) nfr)
    have l5 : (builtinAliases ++ sc ++ es.map (enumItem c) ++ inp ++ vs ++ fr.flatten).length =
        (builtinAliases ++ sc' ++ es.map (enumItem c') ++ inp' ++ vs' ++ fr'.flatten).length := by
      rw [List.length_append, List.length_append (bs := fr'.flatten), l4, ei_length hmid]
    exact enumsFrom_append l5 e5 (enumsFrom_of_noEnum (c := c) (c' := c') (b := r') nr)

/-- **`normalization` only renames**: the two contexts generate the same items up to names (or fail with the
    same error) -/
theorem normalization_only_renames {c c' : Ctx} (H : NormAgree c c') (hid : IdStable c c') (op : Nat) :
    ORel EI (responseForQuery c op) (responseForQuery c' op) :=
  ORel.mono (fun _ _ h => h.ei) (normalization_modRel H hid op)

/-- spelled out: generation succeeds under `c` iff it does under `c'`, with items that are equal up to names -/
theorem normalization_only_renames_ok {c c' : Ctx} (H : NormAgree c c') (hid : IdStable c c') (op : Nat)
    (items : List Item) (h : responseForQuery c op = .ok items) :
    ∃ items', responseForQuery c' op = .ok items' ∧ items.map eraseItem = items'.map eraseItem := by
  have := normalization_only_renames H hid op
  rw [h] at this
  cases h' : responseForQuery c' op with
  | error err => rw [h'] at this; exact this.elim
  | ok items' => rw [h'] at this; exact ⟨items', rfl, this⟩

theorem normalization_same_error {c c' : Ctx} (H : NormAgree c c') (hid : IdStable c c') (op : Nat) (err : Err) :
    responseForQuery c op = .error err ↔ responseForQuery c' op = .error err := by
  have := normalization_only_renames H hid op
  cases h1 : responseForQuery c op <;> cases h2 : responseForQuery c' op <;> simp [h1, h2, ORel] at this ⊢
  rw [this]

end C09N
end GqlVerif
