import GqlVerif.Proofs.C01NestedGenXW
/-!
# `NestedGen2Op`, part J: agreement with `C01NestedGen*` (stage 1) on `NestedGenOp`

On an operation of `NestedGenOp` (stage 1) everything `nestedgen2_roundtrip` mentions is what `nestedgen_roundtrip` mentions: the exact
acceptance predicate (`conformsLooseA_eq_G`), the canonical form (`canonSelA_eq_G`), the side conditions
(`nestedGenKeysOk_eq_G`, `nestedGenSideOk_eq_G`, `absTagOk_eq_G`); the specification `conformsOpN` does not depend on the class.
`nestedgen_roundtrip_on_nestedAbsOp`: `nestedabs_roundtrip`, obtained from `nestedgen_roundtrip`.
-/
set_option linter.unusedSimpArgs false
set_option linter.unusedVariables false
set_option linter.unusedSectionVars false
set_option linter.unnecessarySimpa false

namespace GqlVerif
namespace C01NX
open Serde Spec C13 C03 Codegen C01 C01.E2E C01M C01N C01NA C01NG

section Agree
variable {ok : TypeId → Nat → Bool} {s : Schema} {q : Query} {o : Options}

/-! ## at a position of `NestedGenOp` -/

theorem payX_eq_G {sub : List Sel} (hnb : ∀ x ∈ sub, isBody x = false) (whole : Nat → Bool → Json → Bool) :
    payX whole s q o sub = payA whole q (strip sub) := by
  funext vt rest
  unfold payX
  rw [mineOf_any_body_false hnb, unbody_eq_self hnb]
  rfl

theorem looseAbsX_eq_G {sf : StoredField} {sub : List Sel} (h : absFieldG ok s q o sf sub = true)
    (whole : Nat → Bool → Json → Bool) (b : Bool) (v : Json) :
    looseAbsX whole s q o b sf sub v = looseAbsG whole s q o b sf sub v := by
  have hnb := absSubG_nobody (C01NG.absFieldG_parts h).2.2.2
  unfold looseAbsX looseAbsG
  congr 1
  funext j
  cases j <;> simp only [looseTagX, looseTagG, payX_eq_G hnb]

theorem canonAbsX_eq_G {sf : StoredField} {sub : List Sel} (h : absFieldG ok s q o sf sub = true)
    (cent : Nat → List (String × Json) → List (String × Json)) (v : Json) :
    canonAbsX cent s q o sf sub v = canonAbsG cent s q o sf sub v := by
  have hnb := absSubG_nobody (C01NG.absFieldG_parts h).2.2.2
  have hp : ∀ vt kvs, payCanonX cent s q o sub vt kvs = (memFrags q vt (strip sub)).flatMap (fun g => cent g kvs) := by
    intro vt kvs
    unfold payCanonX
    rw [mineOf_any_body_false hnb, unbody_eq_self hnb]
    rfl
  unfold canonAbsX canonAbsG
  congr 1
  funext j
  cases j with
  | obj kvs =>
    simp only [canonTagX, canonTagG, hp]
    cases hl : Json.lookup "__typename" kvs with
    | none => rfl
    | some jv =>
      cases jv with
      | str n =>
        simp only []
        cases hfd : List.find? (fun vt => objName s vt == n) (vtsOfTy s sf.ty.id) <;> rfl
      | _ => rfl
  | _ => rfl

/-! ## acceptance -/

mutual
  theorem looseFieldA_eq_G (whole : Nat → Bool → Json → Bool) (b : Bool) : ∀ (x : Sel) (p : TypeId) (v : Json),
      C01NG.aSel ok s q o p x = true → looseFieldA whole s q o b x v = C01NG.looseFieldA whole s q o b x v
    | .field a fid sub, p, v => by
      intro h
      have IH1 := looseOwnA_eq_G whole b sub
      have IH2 := looseArrA_eq_G whole b sub
      obtain ⟨sf, hsf⟩ := C01NG.aSel_field_some h
      by_cases hobj : ∃ i, sf.ty.id = .object i
      · obtain ⟨i, hid⟩ := hobj
        obtain ⟨_, _, _, hb⟩ := C01NG.aSel_obj hsf hid h
        rw [looseFieldA, C01NG.looseFieldA]
        simp only [hsf, hid]
        by_cases hsp : ∃ g, sub = [Sel.spread g]
        · obtain ⟨g, rfl⟩ := hsp; rfl
        · have hnl : ∀ g, sub ≠ [Sel.spread g] := fun g hg => hsp ⟨g, hg⟩
          rw [C01NG.aBody_not_lone hnl] at hb
          have e1 : ∀ kvs, looseOwnA whole s q o b sub kvs = C01NG.looseOwnA whole s q o b sub kvs :=
            fun kvs => IH1 (.object i) kvs hb
          have e2 : ∀ xs, looseArrA whole s q o b sub xs = C01NG.looseArrA whole s q o b sub xs :=
            fun xs => IH2 (.object i) xs hb
          cases s.objects[i]? with
          | none => rfl
          | some ob =>
            simp only []
            congr 1
            funext j
            cases j <;> simp only [e1, e2]
      · have hno : ∀ i, sf.ty.id ≠ .object i := fun i h => hobj ⟨i, h⟩
        rcases C01NG.aSel_nonobj hsf hno h with hs | ⟨hs, hnew⟩
        · rw [looseFieldA_old hsf hno hs, C01NG.looseFieldA_old hsf hno hs]
        · rw [looseFieldA_new hsf hno hs, C01NG.looseFieldA_new hsf hno hs, looseAbsX_eq_G hnew]
    | .spread g, _, _ => by intro _; simp [looseFieldA, C01NG.looseFieldA]
    | .inline _ _, _, _ => by intro _; simp [looseFieldA, C01NG.looseFieldA]
    | .typename, _, _ => by intro _; simp [looseFieldA, C01NG.looseFieldA]
  theorem looseOwnA_eq_G (whole : Nat → Bool → Json → Bool) (b : Bool) : ∀ (sels : List Sel) (p : TypeId)
      (kvs : List (String × Json)), C01NG.aSels ok s q o p sels = true →
      looseOwnA whole s q o b sels kvs = C01NG.looseOwnA whole s q o b sels kvs
    | [], _, _ => by intro _; simp [looseOwnA, C01NG.looseOwnA]
    | x :: xs, p, kvs => by
      intro h
      obtain ⟨hx, hxs⟩ := C01NG.aSels_cons h
      have ih := looseOwnA_eq_G whole b xs p kvs hxs
      cases x with
      | field a fid sub =>
        rw [looseOwnA.eq_2, C01NG.looseOwnA.eq_2, ih]
        cases hsf : s.fields[fid]? with
        | none => rfl
        | some sf =>
          simp only []
          cases Json.lookup (a.getD sf.name) kvs with
          | none => rfl
          | some v => simp only [looseFieldA_eq_G whole b (.field a fid sub) p v hx]
      | spread g => simpa [looseOwnA, C01NG.looseOwnA] using ih
      | inline t sub => simpa [looseOwnA, C01NG.looseOwnA] using ih
      | typename => simpa [looseOwnA, C01NG.looseOwnA] using ih
  theorem looseArrA_eq_G (whole : Nat → Bool → Json → Bool) (b : Bool) : ∀ (sels : List Sel) (p : TypeId)
      (vs : List Json), C01NG.aSels ok s q o p sels = true →
      looseArrA whole s q o b sels vs = C01NG.looseArrA whole s q o b sels vs
    | [], _, _ => by intro _; simp [looseArrA, C01NG.looseArrA]
    | x :: xs, p, vs => by
      intro h
      obtain ⟨hx, hxs⟩ := C01NG.aSels_cons h
      cases x with
      | field a fid sub =>
        cases vs with
        | nil => simp [looseArrA, C01NG.looseArrA]
        | cons v vs' =>
          rw [looseArrA.eq_3, C01NG.looseArrA.eq_3, looseFieldA_eq_G whole b (.field a fid sub) p v hx,
            looseArrA_eq_G whole b xs p vs' hxs]
      | spread g => simpa [looseArrA, C01NG.looseArrA] using looseArrA_eq_G whole b xs p vs hxs
      | inline t sub => simpa [looseArrA, C01NG.looseArrA] using looseArrA_eq_G whole b xs p vs hxs
      | typename => simpa [looseArrA, C01NG.looseArrA] using looseArrA_eq_G whole b xs p vs hxs
end

/-- **on `NestedAbsOp` the exact acceptance predicate is the one of `nestedabs_precise_iff`** -/
theorem conformsLooseA_eq_G (whole : Nat → Bool → Json → Bool) (b : Bool) (p : TypeId) (sels : List Sel) (j : Json)
    (h : C01NG.aBody ok s q o p sels = true) :
    conformsLooseA whole s q o b sels j = C01NG.conformsLooseA whole s q o b sels j := by
  by_cases hsp : ∃ g, sels = [Sel.spread g]
  · obtain ⟨g, rfl⟩ := hsp; rfl
  · have hnl : ∀ g, sels ≠ [Sel.spread g] := fun g hg => hsp ⟨g, hg⟩
    rw [C01NG.aBody_not_lone hnl] at h
    rw [conformsLooseA_not_lone hnl, C01NG.conformsLooseA_not_lone hnl]
    cases j <;> simp only [looseOwnA_eq_G whole b sels p _ h, looseArrA_eq_G whole b sels p _ h]

/-! ## canonical form -/

mutual
  theorem canonFieldA_eq_G (cent : Nat → List (String × Json) → List (String × Json)) : ∀ (x : Sel) (p : TypeId) (v : Json),
      C01NG.aSel ok s q o p x = true → canonFieldA cent s q o x v = C01NG.canonFieldA cent s q o x v
    | .field a fid sub, p, v => by
      intro h
      have IH := canonEntriesA_eq_G cent sub
      obtain ⟨sf, hsf⟩ := C01NG.aSel_field_some h
      by_cases hobj : ∃ i, sf.ty.id = .object i
      · obtain ⟨i, hid⟩ := hobj
        obtain ⟨_, _, _, hb⟩ := C01NG.aSel_obj hsf hid h
        rw [canonFieldA, C01NG.canonFieldA]
        simp only [hsf, hid]
        by_cases hsp : ∃ g, sub = [Sel.spread g]
        · obtain ⟨g, rfl⟩ := hsp; rfl
        · have hnl : ∀ g, sub ≠ [Sel.spread g] := fun g hg => hsp ⟨g, hg⟩
          rw [C01NG.aBody_not_lone hnl] at hb
          have e1 : ∀ kvs, canonEntriesA cent s q o sub kvs = C01NG.canonEntriesA cent s q o sub kvs :=
            fun kvs => IH (.object i) kvs hb
          rw [canonLambdaA, C01NG.canonLambdaA]
          congr 1
          funext j
          rw [canonSelA_not_lone hnl, C01NG.canonSelA_not_lone hnl]
          cases j <;> simp only [e1]
      · have hno : ∀ i, sf.ty.id ≠ .object i := fun i h => hobj ⟨i, h⟩
        rcases C01NG.aSel_nonobj hsf hno h with hs | ⟨hs, hnew⟩
        · rw [canonFieldA_old hsf hno hs, C01NG.canonFieldA_old hsf hno hs]
        · rw [canonFieldA_new hsf hno hs, C01NG.canonFieldA_new hsf hno hs, canonAbsX_eq_G hnew]
    | .spread g, _, _ => by intro _; simp [canonFieldA, C01NG.canonFieldA]
    | .inline _ _, _, _ => by intro _; simp [canonFieldA, C01NG.canonFieldA]
    | .typename, _, _ => by intro _; simp [canonFieldA, C01NG.canonFieldA]
  theorem canonEntriesA_eq_G (cent : Nat → List (String × Json) → List (String × Json)) : ∀ (sels : List Sel) (p : TypeId)
      (kvs : List (String × Json)), C01NG.aSels ok s q o p sels = true →
      canonEntriesA cent s q o sels kvs = C01NG.canonEntriesA cent s q o sels kvs
    | [], _, _ => by intro _; simp [canonEntriesA, C01NG.canonEntriesA]
    | x :: xs, p, kvs => by
      intro h
      obtain ⟨hx, hxs⟩ := C01NG.aSels_cons h
      have ih := canonEntriesA_eq_G cent xs p kvs hxs
      cases x with
      | field a fid sub =>
        rw [canonEntriesA.eq_2, C01NG.canonEntriesA.eq_2, ih]
        cases hsf : s.fields[fid]? with
        | none => rfl
        | some sf =>
          simp only []
          cases Json.lookup (a.getD sf.name) kvs with
          | none => rfl
          | some v => simp only [canonFieldA_eq_G cent (.field a fid sub) p v hx]
      | spread g => rw [canonEntriesA.eq_3, C01NG.canonEntriesA.eq_3, ih]
      | inline t sub => simpa [canonEntriesA, C01NG.canonEntriesA] using ih
      | typename => simpa [canonEntriesA, C01NG.canonEntriesA] using ih
end

/-- **on `NestedAbsOp` the canonical form is the one of `nestedabs_roundtrip`** -/
theorem canonSelA_eq_G (cent : Nat → List (String × Json) → List (String × Json)) (p : TypeId) (sels : List Sel) (j : Json)
    (h : C01NG.aBody ok s q o p sels = true) :
    canonSelA cent s q o sels j = C01NG.canonSelA cent s q o sels j := by
  by_cases hsp : ∃ g, sels = [Sel.spread g]
  · obtain ⟨g, rfl⟩ := hsp; rfl
  · have hnl : ∀ g, sels ≠ [Sel.spread g] := fun g hg => hsp ⟨g, hg⟩
    rw [C01NG.aBody_not_lone hnl] at h
    rw [canonSelA_not_lone hnl, C01NG.canonSelA_not_lone hnl]
    cases j <;> simp only [canonEntriesA_eq_G cent sels p _ h]

/-! ## side conditions -/

mutual
  /-- the spread fragments are the same list (unconditionally) -/
  theorem aSpreads_eq_G : ∀ (x : Sel), aSpreads s q o x = C01NG.aSpreads s q o x
    | .field a fid sub => by
      have IH := aSpreadss_eq_G sub
      rw [aSpreads, C01NG.aSpreads]
      cases s.fields[fid]? with
      | none => rfl
      | some sf =>
        simp only []
        cases sf.ty.id <;> simp only [IH]
    | .spread g => by simp [aSpreads, C01NG.aSpreads]
    | .inline _ _ => by simp [aSpreads, C01NG.aSpreads]
    | .typename => by simp [aSpreads, C01NG.aSpreads]
  theorem aSpreadss_eq_G : ∀ (sels : List Sel), aSpreadss s q o sels = C01NG.aSpreadss s q o sels
    | [] => rfl
    | x :: xs => by rw [aSpreadss, C01NG.aSpreadss, aSpreads_eq_G x, aSpreadss_eq_G xs]
end

mutual
  /-- the fragments selected at abstract positions, with the keys consumed there, are the same list (unconditionally) -/
  theorem aPays_eq_G : ∀ (x : Sel), aPays s q o x = C01NG.aPays s q o x
    | .field a fid sub => by
      have IH := aPayss_eq_G sub
      rw [aPays, C01NG.aPays]
      cases s.fields[fid]? with
      | none => rfl
      | some sf =>
        simp only []
        cases sf.ty.id <;> simp only [IH]
    | .spread g => by simp [aPays, C01NG.aPays]
    | .inline _ _ => by simp [aPays, C01NG.aPays]
    | .typename => by simp [aPays, C01NG.aPays]
  theorem aPayss_eq_G : ∀ (sels : List Sel), aPayss s q o sels = C01NG.aPayss s q o sels
    | [] => rfl
    | x :: xs => by rw [aPayss, C01NG.aPayss, aPays_eq_G x, aPayss_eq_G xs]
end

end Agree

mutual
  theorem sideOkSelA_eq_G {ok : TypeId → Nat → Bool} (KN : String → List String) (c : Ctx) : ∀ (x : Sel) (p : TypeId),
      C01NG.aSel ok c.s c.q c.o p x = true → sideOkSelA KN c x = C01NG.sideOkSelA KN c x
    | .field a fid sub, p => by
      intro h
      have IH := sideOkSelsA_eq_G (ok := ok) KN c sub
      obtain ⟨sf, hsf⟩ := C01NG.aSel_field_some h
      unfold sideOkSelA C01NG.sideOkSelA
      simp only [hsf, Option.map_some]
      by_cases hobj : ∃ i, sf.ty.id = .object i
      · obtain ⟨i, hid⟩ := hobj
        obtain ⟨_, _, _, hb⟩ := C01NG.aSel_obj hsf hid h
        simp only [hid]
        by_cases hsp : ∃ g, sub = [Sel.spread g]
        · obtain ⟨g, rfl⟩ := hsp; rfl
        · have hnl : ∀ g, sub ≠ [Sel.spread g] := fun g hg => hsp ⟨g, hg⟩
          rw [C01NG.aBody_not_lone hnl] at hb
          have e1 := IH _ hb
          split
          · exact absurd rfl (hnl _)
          · split
            · exact absurd rfl (hnl _)
            · rw [e1]
      · have hno : ∀ i, sf.ty.id ≠ .object i := fun i h => hobj ⟨i, h⟩
        have hnewfacts : ∀ (hnew : absFieldG ok c.s c.q c.o sf sub = true),
            unbody sub = sub ∧ ∀ vt, varSideOk c vt sub = EnumSpec.nodup (memRust c vt (strip sub)) := by
          intro hnew
          have hnb := absSubG_nobody (C01NG.absFieldG_parts hnew).2.2.2
          refine ⟨unbody_eq_self hnb, fun vt => ?_⟩
          unfold varSideOk
          rw [mineOf_any_body_false hnb, unbody_eq_self hnb]
          rfl
        rcases C01NG.aSel_nonobj hsf hno h with hs | ⟨hs, hnew⟩
        · cases hid : sf.ty.id with
          | object i => exact absurd hid (hno i)
          | scalar k => simp [hs]
          | «enum» k => simp [hs]
          | interface k => simp [hs]
          | union k => simp [hs]
          | input k => simp [hs]
        · obtain ⟨h1, h2⟩ := hnewfacts hnew
          cases hid : sf.ty.id with
          | object i => exact absurd hid (hno i)
          | scalar k => simp [hs, h2]
          | «enum» k => simp [hs, h2]
          | interface k => simp [hs, h2]
          | union k => simp [hs, h2]
          | input k => simp [hs, h2]
    | .spread g, _ => by intro _; simp [sideOkSelA, C01NG.sideOkSelA]
    | .inline _ _, _ => by intro _; simp [sideOkSelA, C01NG.sideOkSelA]
    | .typename, _ => by intro _; simp [sideOkSelA, C01NG.sideOkSelA]
  theorem sideOkSelsA_eq_G {ok : TypeId → Nat → Bool} (KN : String → List String) (c : Ctx) : ∀ (sels : List Sel)
      (p : TypeId), C01NG.aSels ok c.s c.q c.o p sels = true → sideOkSelsA KN c sels = C01NG.sideOkSelsA KN c sels
    | [], _ => by intro _; rfl
    | x :: xs, p => by
      intro h
      obtain ⟨hx, hxs⟩ := C01NG.aSels_cons h
      rw [sideOkSelsA, C01NG.sideOkSelsA, sideOkSelA_eq_G KN c x p hx, sideOkSelsA_eq_G KN c xs p hxs]
end

mutual
  theorem keysOkA_eq_G {ok : TypeId → Nat → Bool} (KN : String → List String) (c : Ctx) : ∀ (x : Sel) (p : TypeId),
      C01NG.aSel ok c.s c.q c.o p x = true → keysOkA KN c x = C01NG.keysOkA KN c x
    | .field a fid sub, p => by
      intro h
      have IH := keysOksA_eq_G (ok := ok) KN c sub
      obtain ⟨sf, hsf⟩ := C01NG.aSel_field_some h
      rw [keysOkA, C01NG.keysOkA]
      simp only [hsf, Option.map_some]
      by_cases hobj : ∃ i, sf.ty.id = .object i
      · obtain ⟨i, hid⟩ := hobj
        obtain ⟨_, _, _, hb⟩ := C01NG.aSel_obj hsf hid h
        simp only [hid]
        by_cases hsp : ∃ g, sub = [Sel.spread g]
        · obtain ⟨g, rfl⟩ := hsp
          simp [keysOksA, keysOkA, C01NG.keysOksA, C01NG.keysOkA]
        · have hnl : ∀ g, sub ≠ [Sel.spread g] := fun g hg => hsp ⟨g, hg⟩
          rw [C01NG.aBody_not_lone hnl] at hb
          rw [IH _ hb]
      · have hno : ∀ i, sf.ty.id ≠ .object i := fun i h => hobj ⟨i, h⟩
        rcases C01NG.aSel_nonobj hsf hno h with hs | ⟨hs, hnew⟩
        · cases hid : sf.ty.id with
          | object i => exact absurd hid (hno i)
          | scalar k => simp [hs]
          | «enum» k => simp [hs]
          | interface k => simp [hs]
          | union k => simp [hs]
          | input k => simp [hs]
        · have hnb := absSubG_nobody (C01NG.absFieldG_parts hnew).2.2.2
          have h3 : ∀ vt, varKeysOk KN c vt sub = EnumSpec.nodup (memKeys KN c vt (strip sub)) := by
            intro vt
            unfold varKeysOk
            rw [mineOf_any_body_false hnb, unbody_eq_self hnb]
            rfl
          cases hid : sf.ty.id with
          | object i => exact absurd hid (hno i)
          | scalar k => simp [hs, h3]
          | «enum» k => simp [hs, h3]
          | interface k => simp [hs, h3]
          | union k => simp [hs, h3]
          | input k => simp [hs, h3]
    | .spread g, _ => by intro _; simp [keysOkA, C01NG.keysOkA]
    | .inline _ _, _ => by intro _; simp [keysOkA, C01NG.keysOkA]
    | .typename, _ => by intro _; simp [keysOkA, C01NG.keysOkA]
  theorem keysOksA_eq_G {ok : TypeId → Nat → Bool} (KN : String → List String) (c : Ctx) : ∀ (sels : List Sel)
      (p : TypeId), C01NG.aSels ok c.s c.q c.o p sels = true → keysOksA KN c sels = C01NG.keysOksA KN c sels
    | [], _ => by intro _; rfl
    | x :: xs, p => by
      intro h
      obtain ⟨hx, hxs⟩ := C01NG.aSels_cons h
      rw [keysOksA, C01NG.keysOksA, keysOkA_eq_G KN c x p hx, keysOksA_eq_G KN c xs p hxs]
end

/-- a lone spread or not: the side conditions of a body of `NestedGenOp` -/
theorem body_agree_G {c : Ctx} {op : ROperation} (h : NestedGenOp c op = true) :
    (∀ KN, sideOkSelsA KN c op.sels = C01NG.sideOkSelsA KN c op.sels) ∧
      ∀ KN, keysOksA KN c op.sels = C01NG.keysOksA KN c op.sels := by
  obtain ⟨_, _, hb⟩ := C01NG.nestedGenOp_parts h
  by_cases hsp : ∃ g, op.sels = [Sel.spread g]
  · obtain ⟨g, hg⟩ := hsp
    rw [hg]
    refine ⟨fun KN => ?_, fun KN => ?_⟩
    · simp [sideOkSelsA, sideOkSelA, C01NG.sideOkSelsA, C01NG.sideOkSelA]
    · simp [keysOksA, keysOkA, C01NG.keysOksA, C01NG.keysOkA]
  · have hnl : ∀ g, op.sels ≠ [Sel.spread g] := fun g hg => hsp ⟨g, hg⟩
    rw [C01NG.aBody_not_lone hnl] at hb
    exact ⟨fun KN => sideOkSelsA_eq_G KN c _ _ hb, fun KN => keysOksA_eq_G KN c _ _ hb⟩

theorem nestedGen2KeysOk_eq_G (c : Ctx) (op : ROperation) (h : NestedGenOp c op = true) :
    nestedGen2KeysOk c op = nestedGenKeysOk c op := by
  unfold nestedGen2KeysOk nestedGenKeysOk
  rw [aSpreadss_eq_G, (body_agree_G h).2]

theorem nestedGen2SideOk_eq_G (c : Ctx) (op : ROperation) (h : NestedGenOp c op = true) :
    nestedGen2SideOk c op = nestedGenSideOk c op := by
  unfold nestedGen2SideOk nestedGenSideOk
  rw [aSpreadss_eq_G, (body_agree_G h).1]

/-- the same side condition, on every operation -/
theorem absTagOk_eq_G (c : Ctx) (op : ROperation) : absTagOk c op = C01NG.absTagOk c op := by
  unfold absTagOk C01NG.absTagOk
  rw [aPayss_eq_G]

/-- **on `NestedGenOp`, `nestedgen2_roundtrip` is `nestedgen_roundtrip`**: same hypotheses, same specification, same
    canonical form -/
theorem nestedgen2_roundtrip_on_nestedGenOp (c : Ctx) (opIdx : Nat) (op : ROperation) (items : List Item)
    (hop : c.q.operations[opIdx]? = some op) (ht : NestedGenOp c op = true) (hnd : fragNamesOk c = true)
    (hk : nestedGenKeysOk c op = true) (htag : C01NG.absTagOk c op = true) (hr : nestedGenSideOk c op = true)
    (hgen : responseForQuery c opIdx = .ok items) (hok : moduleOk c items = true)
    (j : Json) (hc : conformsOpN c op j = true) :
    Serde.roundtrip (moduleEnv c items) (.path "ResponseData") j =
      .ok (normJson (C01NG.canonSelA (centN c c.q.fragments.length) c.s c.q c.o op.sels j)) := by
  have h := nestedgen2_roundtrip c opIdx op items hop (nestedGen2Op_of_nestedGenOp c op ht) hnd
    (by rw [nestedGen2KeysOk_eq_G c op ht]; exact hk) (by rw [absTagOk_eq_G c op]; exact htag)
    (by rw [nestedGen2SideOk_eq_G c op ht]; exact hr) hgen hok j hc
  rw [h, canonSelA_eq_G _ _ _ _ (C01NG.nestedGenOp_parts ht).2.2]

/-- … and `nestedgen2_precise_iff` is `nestedgen_precise_iff` there -/
theorem conformsLooseA_eq_G_op (c : Ctx) (op : ROperation) (ht : NestedGenOp c op = true)
    (whole : Nat → Bool → Json → Bool) (b : Bool) (j : Json) :
    conformsLooseA whole c.s c.q c.o b op.sels j = C01NG.conformsLooseA whole c.s c.q c.o b op.sels j :=
  conformsLooseA_eq_G whole b _ _ j (C01NG.nestedGenOp_parts ht).2.2


/-- `NestedAbsOp ⊆ NestedGen2Op` -/
theorem nestedGen2Op_of_nestedAbsOp (c : Ctx) (op : ROperation) (h : NestedAbsOp c op = true) : NestedGen2Op c op = true :=
  nestedGen2Op_of_nestedGenOp c op (nestedGenOp_of_nestedAbsOp c op h)

/-- **on `NestedAbsOp`, `nestedgen2_roundtrip` is `nestedabs_roundtrip`** (P46): same hypotheses, same specification, same
    canonical form -/
theorem nestedgen2_roundtrip_on_nestedAbsOp (c : Ctx) (opIdx : Nat) (op : ROperation) (items : List Item)
    (hop : c.q.operations[opIdx]? = some op) (ht : NestedAbsOp c op = true) (hnd : fragNamesOk c = true)
    (hk : nestedAbsKeysOk c op = true) (htag : C01NA.absTagOk c op = true) (hr : nestedAbsSideOk c op = true)
    (hgen : responseForQuery c opIdx = .ok items) (hok : moduleOk c items = true)
    (j : Json) (hc : conformsOpN c op j = true) :
    Serde.roundtrip (moduleEnv c items) (.path "ResponseData") j =
      .ok (normJson (C01NA.canonSelA (centN c c.q.fragments.length) c.s c.q c.o op.sels j)) := by
  have hg := nestedGenOp_of_nestedAbsOp c op ht
  have h := nestedgen2_roundtrip_on_nestedGenOp c opIdx op items hop hg hnd
    (by rw [C01NG.nestedGenKeysOk_eq_A c op ht]; exact hk) (by rw [C01NG.absTagOk_eq_A c op ht]; exact htag)
    (by rw [C01NG.nestedGenSideOk_eq_A c op ht]; exact hr) hgen hok j hc
  rw [h, C01NG.canonSelA_eq_A _ _ _ _ (nestedAbsOp_parts ht).2.2]

/-- on `NestedAbsOp` the closed form of `nestedgen2_items_shape` is the one of `nestedabs_items_shape` -/
theorem bodyItemsA_eq_A2 (c : Ctx) (op : ROperation) (h : NestedAbsOp c op = true) (name pfx : String) :
    bodyItemsA c name pfx op.sels = C01NA.bodyItemsA c name pfx op.sels := by
  rw [bodyItemsA_eq_G c op (nestedGenOp_of_nestedAbsOp c op h), C01NG.bodyItemsA_eq_A c op h]

end C01NX
end GqlVerif
