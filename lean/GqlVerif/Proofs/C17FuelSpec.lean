import GqlVerif.Model.Valid
import GqlVerif.Props.C17
/-!
# C17 — fuel independence of the *specification-side* walks (`Valid.hasTypename`, `Valid.rootKeys`)

The two fuel-indexed walks of the C06 rule catalogue (`Model/Valid.lean`) follow fragment spreads
**without** a visited set.  On cyclic fragments the recursion is genuinely cut by the fuel, so fuel
independence is not a matter of a decreasing measure: it holds because a shortest witness path never
enters the same fragment name twice.

* `hasTypename_fuel_indep` — `∀ fuel ≥ ft.length + 1, hasTypename s ft t fuel sels = hasTypename s ft t (ft.length + 1) sels`
  (the fuel `validSel` / `validDef` pass), for every schema, fragment table (duplicate names, cycles,
  unknown names included), type and selection set; no hypothesis.
* `rootKeys_mem_fuel_indep` — the *set* of root keys is fuel independent above `(ft.length+1)·(d+1)+1`
  when `d` bounds the nesting depth of the fragment bodies and of the selection set (the *list* is not:
  `C17F.rootKeys_not_fuel_indep` in `C17Fuel.lean`); `eraseDups_length_one_iff`: the subscription rule only
  reads the set; `subscription_rule_fuel_indep`, `validDef_subscription_fuel_indep` — the verdict of the rule
  with exactly the fragment table, depth and fuel expression `Valid.validDoc` hands to `validDef`.

Method: the walk is monotone in the fuel (`ht_mono`, `rk_mono`); a guarded copy (`hG`, `rkG`: visited set of
fragment names) is below it (`hG_le`, `rkG_le`), and every positive answer of the unguarded walk at *any*
fuel is reproduced by the guarded one within its need (`ht_to_guarded`, `rk_to_guarded`: strong induction
on the fuel; a witness that re-enters a visited fragment is replayed with strictly less fuel).
-/
namespace GqlVerif
namespace C17F
open Valid

abbrev FT := List (String × String × List QSel)

theorem ht_mono (s : Schema) (ft : FT) (t : TypeId) :
    ∀ (fuel : Nat) (sels : List QSel), hasTypename s ft t fuel sels = true → hasTypename s ft t (fuel + 1) sels = true := by
  intro fuel
  induction fuel with
  | zero => intro sels h; simp [hasTypename] at h
  | succ n ih =>
    intro sels h
    rw [hasTypename] at h ⊢
    rw [List.any_eq_true] at h ⊢
    obtain ⟨x, hx, hfx⟩ := h
    refine ⟨x, hx, ?_⟩
    cases x with
    | field a name sub => exact hfx
    | inline on sub => exact hfx
    | spread n' =>
      simp only at hfx ⊢
      cases hf : findFrag ft n' with
      | none => simp [hf] at hfx
      | some p =>
        obtain ⟨on, fsels⟩ := p
        simp only [hf, Bool.and_eq_true] at hfx ⊢
        exact ⟨hfx.1, ih fsels hfx.2⟩

theorem ht_mono_le (s : Schema) (ft : FT) (t : TypeId) {fuel fuel' : Nat} (hle : fuel ≤ fuel') (sels : List QSel)
    (h : hasTypename s ft t fuel sels = true) : hasTypename s ft t fuel' sels = true := by
  induction hle with
  | refl => exact h
  | step _ ih => exact ht_mono s ft t _ sels ih

/-- the same search with a visited set of fragment names (proof device) -/
def hG (s : Schema) (ft : FT) (t : TypeId) : Nat → List String → List QSel → Bool
  | 0, _, _ => false
  | fuel+1, visited, sels =>
    sels.any fun
      | .field _ name _ => name == "__typename"
      | .spread n =>
        if visited.contains n then false else
        match findFrag ft n with
        | some (on, fsels) => s.findType on == some t && hG s ft t fuel (n :: visited) fsels
        | none => false
      | .inline _ _ => false

theorem hG_mono (s : Schema) (ft : FT) (t : TypeId) :
    ∀ (fuel : Nat) (visited : List String) (sels : List QSel),
      hG s ft t fuel visited sels = true → hG s ft t (fuel + 1) visited sels = true := by
  intro fuel
  induction fuel with
  | zero => intro v sels h; simp [hG] at h
  | succ n ih =>
    intro v sels h
    rw [hG] at h ⊢
    rw [List.any_eq_true] at h ⊢
    obtain ⟨x, hx, hfx⟩ := h
    refine ⟨x, hx, ?_⟩
    cases x with
    | field a name sub => exact hfx
    | inline on sub => exact hfx
    | spread n' =>
      cases hc : v.contains n' with
      | true =>
        have hm : n' ∈ v := by simpa using hc
        simp [hm] at hfx
      | false =>
        simp only [hc, Bool.false_eq_true, ↓reduceIte] at hfx ⊢
        cases hf : findFrag ft n' with
        | none => simp [hf] at hfx
        | some p =>
          obtain ⟨on, fsels⟩ := p
          simp only [hf, Bool.and_eq_true] at hfx ⊢
          exact ⟨hfx.1, ih _ fsels hfx.2⟩

theorem hG_mono_le (s : Schema) (ft : FT) (t : TypeId) {fuel fuel' : Nat} (hle : fuel ≤ fuel')
    (visited : List String) (sels : List QSel)
    (h : hG s ft t fuel visited sels = true) : hG s ft t fuel' visited sels = true := by
  induction hle with
  | refl => exact h
  | step _ ih => exact hG_mono s ft t _ visited sels ih

/-- the guarded search is below the unguarded one at the same fuel -/
theorem hG_le (s : Schema) (ft : FT) (t : TypeId) :
    ∀ (fuel : Nat) (visited : List String) (sels : List QSel),
      hG s ft t fuel visited sels = true → hasTypename s ft t fuel sels = true := by
  intro fuel
  induction fuel with
  | zero => intro v sels h; simp [hG] at h
  | succ n ih =>
    intro v sels h
    rw [hG] at h
    rw [hasTypename]
    rw [List.any_eq_true] at h ⊢
    obtain ⟨x, hx, hfx⟩ := h
    refine ⟨x, hx, ?_⟩
    cases x with
    | field a name sub => exact hfx
    | inline on sub => exact hfx
    | spread n' =>
      cases hc : v.contains n' with
      | true =>
        have hm : n' ∈ v := by simpa using hc
        simp [hm] at hfx
      | false =>
        simp only [hc, Bool.false_eq_true, ↓reduceIte] at hfx
        simp only
        cases hf : findFrag ft n' with
        | none => simp [hf] at hfx
        | some p =>
          obtain ⟨on, fsels⟩ := p
          simp only [hf, Bool.and_eq_true] at hfx ⊢
          exact ⟨hfx.1, ih _ fsels hfx.2⟩

/-- entries of the fragment table whose name has not been visited -/
def remN (ft : FT) (visited : List String) : Nat := ft.countP (fun e => !visited.contains e.1)

theorem findFrag_mem {ft : FT} {n : String} {p : String × List QSel} (h : findFrag ft n = some p) :
    ∃ e ∈ ft, e.1 = n := by
  unfold findFrag at h
  cases hf : ft.find? (·.1 == n) with
  | none => simp [hf] at h
  | some e =>
    exact ⟨e, List.mem_of_find?_eq_some hf, by simpa using List.find?_some hf⟩

theorem remN_decreases {ft : FT} {visited : List String} {n : String} {p : String × List QSel}
    (h : findFrag ft n = some p) (hv : visited.contains n = false) :
    remN ft (n :: visited) < remN ft visited := by
  obtain ⟨e, he, hen⟩ := findFrag_mem h
  unfold remN
  have hv' : n ∉ visited := by simpa using hv
  apply C17.countP_lt _ _ _ e he
  · simp [hen, hv']
  · simp [hen]
  · intro y hy
    simp only [List.contains_cons, Bool.not_eq_true', Bool.or_eq_false_iff] at hy
    simpa using hy.2

/-- every positive answer of the unguarded search, at any fuel, is reproduced by the guarded search within
    `#unvisited + 1` levels — or it went through a visited fragment, with strictly less fuel -/
theorem ht_to_guarded (s : Schema) (ft : FT) (t : TypeId) :
    ∀ (fuel : Nat) (visited : List String) (sels : List QSel), hasTypename s ft t fuel sels = true →
      hG s ft t (remN ft visited + 1) visited sels = true ∨
      ∃ m ∈ visited, ∃ f', f' < fuel ∧ ∃ on fsels, findFrag ft m = some (on, fsels) ∧
        (s.findType on == some t) = true ∧ hasTypename s ft t f' fsels = true := by
  intro fuel
  induction fuel using Nat.strongRecOn with
  | ind fuel IH =>
    intro visited sels h
    cases fuel with
    | zero => simp [hasTypename] at h
    | succ k =>
      have h0 := h
      rw [hasTypename, List.any_eq_true] at h
      obtain ⟨x, hx, hfx⟩ := h
      cases x with
      | inline on sub => simp at hfx
      | field a name sub =>
        left
        rw [hG, List.any_eq_true]
        exact ⟨_, hx, hfx⟩
      | spread n =>
        simp only at hfx
        cases hf : findFrag ft n with
        | none => simp [hf] at hfx
        | some p =>
          obtain ⟨on, fsels⟩ := p
          simp only [hf, Bool.and_eq_true] at hfx
          obtain ⟨hon, hbody⟩ := hfx
          cases hc : visited.contains n with
          | true =>
            right
            exact ⟨n, by simpa using hc, k, Nat.lt_succ_self k, on, fsels, hf, hon, hbody⟩
          | false =>
            rcases IH k (Nat.lt_succ_self k) (n :: visited) fsels hbody with hl | ⟨m, hm, f', hf', on', fsels', hfm, hon', hb'⟩
            · left
              rw [hG, List.any_eq_true]
              refine ⟨_, hx, ?_⟩
              simp only [hc, Bool.false_eq_true, ↓reduceIte, hf, Bool.and_eq_true]
              have hdec := remN_decreases hf hc
              exact ⟨hon, hG_mono_le s ft t (by omega) _ _ hl⟩
            · rcases List.mem_cons.mp hm with rfl | hm'
              · -- the witness re-entered `n`: the same selection set succeeds with less fuel
                rw [hf] at hfm
                cases hfm
                have hagain : hasTypename s ft t (f' + 1) sels = true := by
                  rw [hasTypename, List.any_eq_true]
                  refine ⟨_, hx, ?_⟩
                  simp only [hf, Bool.and_eq_true]
                  exact ⟨hon, hb'⟩
                rcases IH (f' + 1) (by omega) visited sels hagain with hl | ⟨m', hm'', f'', hf'', rest⟩
                · exact .inl hl
                · exact .inr ⟨m', hm'', f'', by omega, rest⟩
              · right
                exact ⟨m, hm', f', by omega, on', fsels', hfm, hon', hb'⟩

/-- **`Valid.hasTypename`**: above the fuel the specification passes (`#fragment-table entries + 1`) the
    verdict is fuel independent — for every schema, fragment table, type and selection set; no hypothesis -/
theorem hasTypename_fuel_indep (s : Schema) (ft : FT) (t : TypeId) (sels : List QSel) :
    ∀ fuel, ft.length + 1 ≤ fuel →
      hasTypename s ft t fuel sels = hasTypename s ft t (ft.length + 1) sels := by
  intro fuel hle
  have hrem : remN ft [] = ft.length := by simp [remN]
  cases h1 : hasTypename s ft t fuel sels with
  | true =>
    rcases ht_to_guarded s ft t fuel [] sels h1 with hg | ⟨m, hm, _⟩
    · rw [hrem] at hg
      exact (hG_le s ft t _ [] sels hg).symm
    · cases hm
  | false =>
    cases h2 : hasTypename s ft t (ft.length + 1) sels with
    | false => rfl
    | true => rw [ht_mono_le s ft t hle sels h2] at h1; cases h1

/-- the fuel does cut the recursion on cyclic fragments (the theorem is not a decreasing-measure fact):
    on `fragment F on I { ...F }` the search never finds `__typename` and descends as long as it has fuel -/
theorem hasTypename_cyclic_false :
    ∀ fuel, hasTypename {} [("F", "I", [.spread "F"])] (.interface 0) fuel [.spread "F"] = false := by
  intro fuel
  induction fuel with
  | zero => rfl
  | succ n _ => simp [hasTypename, findFrag, Schema.findType, namesGet]

/-- … and on `fragment F on I { ...F __typename }` (schema with `I` = interface 0) it answers `true` from
    fuel 2 on; `hasTypename_fuel_indep` applies (fuel `#fragments + 1 = 2`) -/
example : ∀ fuel, 2 ≤ fuel →
    hasTypename { names := [("I", .interface 0)] } [("F", "I", [.spread "F", .field none "__typename" []])]
      (.interface 0) fuel [.spread "F"] = true := by
  intro fuel h
  rw [hasTypename_fuel_indep _ [("F", "I", [.spread "F", .field none "__typename" []])] _ _ fuel (by simpa using h)]
  decide

/-! ## `Valid.rootKeys` (subscription rule of the specification; fuel `(#fragments+1)·(depth+1)+1`)

The key *list* is not fuel independent on cyclic fragments (`C17F.rootKeys_not_fuel_indep` in
`C17Fuel.lean`): without a visited set every extra level of fuel unrolls the cycle once more.  What
`Valid.validDef` looks at is `(rootKeys …).eraseDups.length == 1`, which depends on the **set** of keys
only (`eraseDups_length_one_iff`), and the set is fuel independent above the fuel the specification
passes (`rootKeys_mem_fuel_indep`), hence so is the verdict (`subscription_rule_fuel_indep`,
`validDef_subscription_fuel_indep`). -/

def rkStep (ft : FT) (fuel : Nat) : QSel → List String
  | .field alias name _ => [alias.getD name]
  | .spread n => match findFrag ft n with
    | some (_, fsels) => rootKeys ft fuel fsels
    | none => []
  | .inline _ sub => rootKeys ft fuel sub

theorem rk_succ (ft : FT) (fuel : Nat) (sels : List QSel) :
    rootKeys ft (fuel + 1) sels = sels.flatMap (rkStep ft fuel) := by
  rw [rootKeys]
  rfl

theorem rk_mono (ft : FT) (k : String) :
    ∀ (fuel : Nat) (sels : List QSel), k ∈ rootKeys ft fuel sels → k ∈ rootKeys ft (fuel + 1) sels := by
  intro fuel
  induction fuel with
  | zero => intro sels h; simp [rootKeys] at h
  | succ n ih =>
    intro sels h
    rw [rk_succ, List.mem_flatMap] at h ⊢
    obtain ⟨x, hx, hk⟩ := h
    refine ⟨x, hx, ?_⟩
    cases x with
    | field a name sub => exact hk
    | inline on sub => exact ih sub hk
    | spread n' =>
      simp only [rkStep] at hk ⊢
      cases hf : findFrag ft n' with
      | none => simp [hf] at hk
      | some p => simp only [hf] at hk ⊢; exact ih _ hk

theorem rk_mono_le (ft : FT) (k : String) {fuel fuel' : Nat} (hle : fuel ≤ fuel') (sels : List QSel)
    (h : k ∈ rootKeys ft fuel sels) : k ∈ rootKeys ft fuel' sels := by
  induction hle with
  | refl => exact h
  | step _ ih => exact rk_mono ft k _ sels ih

/-- `rootKeys` with a visited set of fragment names (proof device) -/
def rkG (ft : FT) : Nat → List String → List QSel → List String
  | 0, _, _ => []
  | fuel+1, visited, sels => sels.flatMap fun
    | .field alias name _ => [alias.getD name]
    | .spread n =>
      if visited.contains n then [] else
      match findFrag ft n with
      | some (_, fsels) => rkG ft fuel (n :: visited) fsels
      | none => []
    | .inline _ sub => rkG ft fuel visited sub

theorem rkG_mono (ft : FT) (k : String) :
    ∀ (fuel : Nat) (visited : List String) (sels : List QSel),
      k ∈ rkG ft fuel visited sels → k ∈ rkG ft (fuel + 1) visited sels := by
  intro fuel
  induction fuel with
  | zero => intro v sels h; simp [rkG] at h
  | succ n ih =>
    intro v sels h
    rw [rkG, List.mem_flatMap] at h ⊢
    obtain ⟨x, hx, hk⟩ := h
    refine ⟨x, hx, ?_⟩
    cases x with
    | field a name sub => exact hk
    | inline on sub => exact ih _ sub hk
    | spread n' =>
      cases hc : v.contains n' with
      | true =>
        have hm : n' ∈ v := by simpa using hc
        simp [hm] at hk
      | false =>
        simp only [hc, Bool.false_eq_true, ↓reduceIte] at hk ⊢
        cases hf : findFrag ft n' with
        | none => simp [hf] at hk
        | some p => simp only [hf] at hk ⊢; exact ih _ _ hk

theorem rkG_mono_le (ft : FT) (k : String) {fuel fuel' : Nat} (hle : fuel ≤ fuel')
    (visited : List String) (sels : List QSel) (h : k ∈ rkG ft fuel visited sels) :
    k ∈ rkG ft fuel' visited sels := by
  induction hle with
  | refl => exact h
  | step _ ih => exact rkG_mono ft k _ visited sels ih

theorem rkG_le (ft : FT) (k : String) :
    ∀ (fuel : Nat) (visited : List String) (sels : List QSel),
      k ∈ rkG ft fuel visited sels → k ∈ rootKeys ft fuel sels := by
  intro fuel
  induction fuel with
  | zero => intro v sels h; simp [rkG] at h
  | succ n ih =>
    intro v sels h
    rw [rkG, List.mem_flatMap] at h
    rw [rk_succ, List.mem_flatMap]
    obtain ⟨x, hx, hk⟩ := h
    refine ⟨x, hx, ?_⟩
    cases x with
    | field a name sub => exact hk
    | inline on sub => exact ih _ sub hk
    | spread n' =>
      cases hc : v.contains n' with
      | true =>
        have hm : n' ∈ v := by simpa using hc
        simp [hm] at hk
      | false =>
        simp only [hc, Bool.false_eq_true, ↓reduceIte] at hk
        simp only [rkStep]
        cases hf : findFrag ft n' with
        | none => simp [hf] at hk
        | some p => simp only [hf] at hk ⊢; exact ih _ _ hk

theorem qselDepth_le_of_mem {x : QSel} : ∀ {l : List QSel}, x ∈ l → qselDepth x ≤ qselsDepth l
  | [], h => by cases h
  | y :: ys, h => by
    rw [qselsDepth]
    rcases List.mem_cons.mp h with rfl | h
    · exact Nat.le_max_left _ _
    · exact Nat.le_trans (qselDepth_le_of_mem h) (Nat.le_max_right _ _)

theorem qselDepth_pos (x : QSel) : 1 ≤ qselDepth x := by
  cases x <;> simp [qselDepth]

theorem findFrag_mem' {ft : FT} {n : String} {p : String × List QSel} (h : findFrag ft n = some p) :
    ∃ e ∈ ft, e.1 = n ∧ e.2 = p := by
  unfold findFrag at h
  cases hf : ft.find? (·.1 == n) with
  | none => simp [hf] at h
  | some e =>
    refine ⟨e, List.mem_of_find?_eq_some hf, by simpa using List.find?_some hf, ?_⟩
    simpa [hf] using h

/-- what the guarded walk needs (minus one): depth of the set at hand plus a full body depth per entry
    of the fragment table that can still be entered -/
def needK (ft : FT) (d : Nat) (visited : List String) (sels : List QSel) : Nat :=
  qselsDepth sels + remN ft visited * (d + 1)

theorem rk_to_guarded (ft : FT) (d : Nat) (hd : ∀ e ∈ ft, qselsDepth e.2.2 ≤ d) (k : String) :
    ∀ (fuel : Nat) (visited : List String) (sels : List QSel), k ∈ rootKeys ft fuel sels →
      k ∈ rkG ft (needK ft d visited sels + 1) visited sels ∨
      ∃ m ∈ visited, ∃ f', f' < fuel ∧ ∃ on fsels, findFrag ft m = some (on, fsels) ∧
        k ∈ rootKeys ft f' fsels := by
  intro fuel
  induction fuel using Nat.strongRecOn with
  | ind fuel IH =>
    intro visited sels h
    cases fuel with
    | zero => simp [rootKeys] at h
    | succ j =>
      rw [rk_succ, List.mem_flatMap] at h
      obtain ⟨x, hx, hk⟩ := h
      have hxd := qselDepth_le_of_mem hx
      cases x with
      | field a name sub =>
        left
        rw [rkG, List.mem_flatMap]
        exact ⟨_, hx, hk⟩
      | inline on sub =>
        simp only [rkStep] at hk
        rw [qselDepth] at hxd
        rcases IH j (Nat.lt_succ_self j) visited sub hk with hl | ⟨m, hm, f', hf', rest⟩
        · left
          rw [rkG, List.mem_flatMap]
          refine ⟨_, hx, ?_⟩
          simp only
          exact rkG_mono_le ft k (by unfold needK; omega) _ _ hl
        · exact .inr ⟨m, hm, f', by omega, rest⟩
      | spread n =>
        simp only [rkStep] at hk
        rw [qselDepth] at hxd
        cases hf : findFrag ft n with
        | none => simp [hf] at hk
        | some p =>
          obtain ⟨on, fsels⟩ := p
          simp only [hf] at hk
          cases hc : visited.contains n with
          | true =>
            right
            exact ⟨n, by simpa using hc, j, Nat.lt_succ_self j, on, fsels, hf, hk⟩
          | false =>
            rcases IH j (Nat.lt_succ_self j) (n :: visited) fsels hk with hl | ⟨m, hm, f', hf', on', fsels', hfm, hb'⟩
            · left
              rw [rkG, List.mem_flatMap]
              refine ⟨_, hx, ?_⟩
              simp only [hc, Bool.false_eq_true, ↓reduceIte, hf]
              have hdec := remN_decreases hf hc
              obtain ⟨e, he, _, he2⟩ := findFrag_mem' hf
              have hbody : qselsDepth fsels ≤ d := by
                have := hd e he
                rw [he2] at this
                exact this
              have h3 := Nat.mul_le_mul_right (d + 1) (Nat.succ_le_of_lt hdec)
              rw [Nat.succ_mul] at h3
              exact rkG_mono_le ft k (by unfold needK; omega) _ _ hl
            · rcases List.mem_cons.mp hm with rfl | hm'
              · rw [hf] at hfm
                cases hfm
                have hagain : k ∈ rootKeys ft (f' + 1) sels := by
                  rw [rk_succ, List.mem_flatMap]
                  refine ⟨_, hx, ?_⟩
                  simp only [rkStep, hf]
                  exact hb'
                rcases IH (f' + 1) (by omega) visited sels hagain with hl | ⟨m', hm'', f'', hf'', rest⟩
                · exact .inl hl
                · exact .inr ⟨m', hm'', f'', by omega, rest⟩
              · exact .inr ⟨m, hm', f', by omega, on', fsels', hfm, hb'⟩

/-- **`Valid.rootKeys`, as a set**: above the fuel the specification passes, the *set* of root keys is
    fuel independent (the list is not: `rootKeys_not_fuel_indep`).  `d` bounds the nesting depth of the
    fragment bodies and of the selection set at hand (in `validDef`: `docDepth`). -/
theorem rootKeys_mem_fuel_indep (ft : FT) (d : Nat) (hd : ∀ e ∈ ft, qselsDepth e.2.2 ≤ d)
    (sels : List QSel) (hs : qselsDepth sels ≤ d) :
    ∀ fuel, (ft.length + 1) * (d + 1) + 1 ≤ fuel → ∀ k,
      k ∈ rootKeys ft fuel sels ↔ k ∈ rootKeys ft ((ft.length + 1) * (d + 1) + 1) sels := by
  intro fuel hle k
  constructor
  · intro h
    rcases rk_to_guarded ft d hd k fuel [] sels h with hg | ⟨m, hm, _⟩
    · have h1 := rkG_le ft k _ [] sels hg
      refine rk_mono_le ft k ?_ sels h1
      have hrem : remN ft [] = ft.length := by simp [remN]
      unfold needK
      rw [hrem, Nat.succ_mul]
      omega
    · cases hm
  · exact rk_mono_le ft k hle sels

theorem eraseDups_eq_nil_iff (l : List String) : l.eraseDups = [] ↔ l = [] := by
  cases l with
  | nil => simp
  | cons a as => simp [List.eraseDups_cons]

/-- `eraseDups.length == 1` says: exactly one distinct key — a property of the *set* of keys -/
theorem eraseDups_length_one_iff (l : List String) :
    (l.eraseDups.length == 1) = true ↔ ∃ a, a ∈ l ∧ ∀ b ∈ l, b = a := by
  cases l with
  | nil => simp
  | cons a as =>
    rw [List.eraseDups_cons]
    simp only [List.length_cons, beq_iff_eq, Nat.add_eq_right, List.length_eq_zero_iff, eraseDups_eq_nil_iff,
      List.filter_eq_nil_iff]
    constructor
    · intro h
      refine ⟨a, List.mem_cons_self, fun b hb => ?_⟩
      rcases List.mem_cons.mp hb with rfl | hb
      · rfl
      · have := h b hb
        simpa using this
    · rintro ⟨a', _, hall⟩ b hb
      have h1 := hall a List.mem_cons_self
      have h2 := hall b (List.mem_cons_of_mem _ hb)
      simp [h1, h2]

/-- **the subscription rule of the specification is fuel independent** above the fuel `validDef` passes -/
theorem subscription_rule_fuel_indep (ft : FT) (d : Nat) (hd : ∀ e ∈ ft, qselsDepth e.2.2 ≤ d)
    (sels : List QSel) (hs : qselsDepth sels ≤ d) :
    ∀ fuel, (ft.length + 1) * (d + 1) + 1 ≤ fuel →
      ((rootKeys ft fuel sels).eraseDups.length == 1) =
        ((rootKeys ft ((ft.length + 1) * (d + 1) + 1) sels).eraseDups.length == 1) := by
  intro fuel hle
  have hmem := rootKeys_mem_fuel_indep ft d hd sels hs fuel hle
  rw [Bool.eq_iff_iff, eraseDups_length_one_iff, eraseDups_length_one_iff]
  constructor
  · rintro ⟨a, ha, hall⟩
    exact ⟨a, (hmem a).mp ha, fun b hb => hall b ((hmem b).mpr hb)⟩
  · rintro ⟨a, ha, hall⟩
    exact ⟨a, (hmem a).mpr ha, fun b hb => hall b ((hmem b).mp hb)⟩

theorem le_foldl_max (l : List Nat) : ∀ (a x : Nat), (x ∈ l ∨ x ≤ a) → x ≤ l.foldl max a := by
  induction l with
  | nil => intro a x h; simpa using h
  | cons y ys ih =>
    intro a x h
    simp only [List.foldl_cons]
    apply ih
    simp only [List.mem_cons] at h
    rcases h with (rfl | h) | h
    · exact .inr (Nat.le_max_right _ _)
    · exact .inl h
    · exact .inr (Nat.le_trans h (Nat.le_max_left _ _))

/-- … with exactly the fuel expression, fragment table and depth `Valid.validDoc` hands to `validDef`:
    for every operation of the document -/
theorem validDef_subscription_fuel_indep (doc : QDoc) (kind : OpKind) (name : Option String)
    (vars : List VarDef) (sels : List QSel) (hop : QDef.op kind name vars sels ∈ doc) :
    ∀ fuel, ((fragTable doc).length + 1) * (docDepth doc + 1) + 1 ≤ fuel →
      ((rootKeys (fragTable doc) fuel sels).eraseDups.length == 1) =
        ((rootKeys (fragTable doc) (((fragTable doc).length + 1) * (docDepth doc + 1) + 1) sels).eraseDups.length == 1) := by
  apply subscription_rule_fuel_indep
  · intro e he
    unfold fragTable at he
    rw [List.mem_filterMap] at he
    obtain ⟨df, hdf, hde⟩ := he
    cases df with
    | frag n on fs =>
      simp only [Option.some.injEq] at hde
      subst hde
      unfold docDepth
      apply le_foldl_max
      left
      exact List.mem_map.mpr ⟨_, hdf, rfl⟩
    | op _ _ _ _ => simp at hde
    | selset _ => simp at hde
  · unfold docDepth
    apply le_foldl_max
    left
    exact List.mem_map.mpr ⟨_, hop, rfl⟩

end C17F
end GqlVerif
