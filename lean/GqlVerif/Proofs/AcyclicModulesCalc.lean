import GqlVerif.Proofs.SerdeFuelCodegen
/-!
# P27 part A (1/3) — where the input-free jumps of the `calc*` items lead

`Acyclic e d` (`SerdeFuelAcyclic`) asks for a rank decreasing along alias → target and struct → flattened member.  This
file proves, class-free, by the 4-fold mutual induction over `calcSelection` / `calcVariants` / `calcVariantSels` /
`calcFields` (as `SerdeFuel.calc_box`), what those jumps are for every item the block emits:

* an alias is `pub` and its target is the name of a fragment spread in the selections at hand (`Used`);
* a flattened member of a struct `n` is the name of such a fragment, or `n ++ "On"` with a `tagged` item of that name
  emitted next to the struct (`renderType`);
* the FIRST item of a `calcSelection` call (the one that carries the name the caller asked for — the only kind of item a
  jump can lead to) jumps only to fragments spread at the TOP level of its selection set, with the type condition of
  the struct — or, for a lone spread, to that fragment (`HeadOK`).

Definitions of the same-level spread relation on the resolved query are here too (`topSpreads`, `sameLevel`,
`jumpSpreads`, `SpreadRanked`, `SameLevelRanked`).
-/
namespace GqlVerif
namespace AcyclicM
open Codegen Serde SerdeFuel

/-! ## the same-level spread relation of a resolved query -/

/-- fragments spread at the top level of a selection set (not below a field, not inside an inline fragment) -/
def topSpreads : List Sel → List Nat
  | [] => []
  | .spread g :: rest => g :: topSpreads rest
  | .field _ _ _ :: rest => topSpreads rest
  | .inline _ _ :: rest => topSpreads rest
  | .typename :: rest => topSpreads rest

/-- fragments spread at the SAME LEVEL: at the top level of the selection set, or at the top level of one of its
    (top-level) inline fragments — never below a field -/
def sameLevel : List Sel → List Nat
  | [] => []
  | .spread g :: rest => g :: sameLevel rest
  | .inline _ sub :: rest => topSpreads sub ++ sameLevel rest
  | .field _ _ _ :: rest => sameLevel rest
  | .typename :: rest => sameLevel rest

theorem mem_topSpreads {g : Nat} : ∀ {sels : List Sel}, g ∈ topSpreads sels ↔ Sel.spread g ∈ sels
  | [] => by simp [topSpreads]
  | x :: rest => by
    cases x <;> simp [topSpreads, mem_topSpreads (sels := rest)]

theorem topSpreads_sub_sameLevel {g : Nat} : ∀ {sels : List Sel}, g ∈ topSpreads sels → g ∈ sameLevel sels
  | [], h => by simp [topSpreads] at h
  | x :: rest, h => by
    cases x with
    | spread g' =>
      simp only [topSpreads, List.mem_cons] at h
      simp only [sameLevel, List.mem_cons]
      exact h.imp id topSpreads_sub_sameLevel
    | field a b c =>
      simp only [topSpreads] at h
      simp only [sameLevel]; exact topSpreads_sub_sameLevel h
    | inline t sub =>
      simp only [topSpreads] at h
      simp only [sameLevel, List.mem_append]; exact .inr (topSpreads_sub_sameLevel h)
    | typename =>
      simp only [topSpreads] at h
      simp only [sameLevel]; exact topSpreads_sub_sameLevel h

/-- the fragments the FIRST item emitted for fragment `f` jumps to: a lone spread makes `f` a type alias of it; otherwise
    the struct `f` has one flattened member per top-level spread whose fragment has the type condition of `f`
    (`calcFields` skips the others, `calcSelection` turns them into variants) -/
def jumpSpreads (q : Query) (f : RFragment) : List Nat :=
  match f.sels with
  | [.spread g] => [g]
  | sels => (topSpreads sels).filter (fun g => match q.fragments[g]? with
      | some fg => decide (fg.on = f.on)
      | none => false)

theorem jumpSpreads_sub_top (q : Query) (f : RFragment) : ∀ g ∈ jumpSpreads q f, g ∈ topSpreads f.sels := by
  intro g hg
  unfold jumpSpreads at hg
  split at hg
  · rename_i g' heq
    simp only [List.mem_singleton] at hg
    subst hg
    rw [heq]; simp [topSpreads]
  · exact (List.mem_filter.mp hg).1

/-- `r` decreases along the jumps of the first items: the weakest rank condition the proof needs -/
def SpreadRanked (q : Query) (r : Nat → Nat) : Prop :=
  ∀ g f, q.fragments[g]? = some f → ∀ h ∈ jumpSpreads q f, r h < r g

/-- `r` decreases along every same-level spread `F → G` (`G` spread at the top level of `F`'s body or at the top level
    of an inline fragment of its body) -/
def SameLevelRanked (q : Query) (r : Nat → Nat) : Prop :=
  ∀ g f, q.fragments[g]? = some f → ∀ h ∈ sameLevel f.sels, r h < r g

theorem SameLevelRanked.spreadRanked {q : Query} {r : Nat → Nat} (h : SameLevelRanked q r) : SpreadRanked q r :=
  fun g f hf x hx => h g f hf x (topSpreads_sub_sameLevel (jumpSpreads_sub_top q f x hx))

/-! ## what an emitted item jumps to -/

def isTagged : Item → Bool
  | .tagged .. => true
  | _ => false

/-- `p` is the name of a fragment that is `Used` -/
def FragTarget (q : Query) (Used : Nat → Prop) (p : String) : Prop :=
  ∃ g fg, q.fragments[g]? = some fg ∧ Used g ∧ fg.name = p

/-- the `tagged` partner of a struct with variants -/
def OnPartner (L : List Item) (n p : String) : Prop :=
  p = n ++ "On" ∧ ∃ it' ∈ L, it'.name = n ++ "On" ∧ isTagged it' = true

/-- the jumps of one item (`L`: the items emitted with it) -/
def ItemOK (q : Query) (Used : Nat → Prop) (L : List Item) : Item → Prop
  | .alias _ pub t => pub = true ∧ FragTarget q Used (Scope.leaf t)
  | .struct n _ _ fs => ∀ f ∈ fs, f.flatten = true →
      FragTarget q Used (Scope.leaf f.ty) ∨ OnPartner L n (Scope.leaf f.ty)
  | _ => True

def LocalOK (q : Query) (Used : Nat → Prop) (L : List Item) : Prop := ∀ it ∈ L, ItemOK q Used L it

/-- a top-level spread of `sels` with the type condition `ty`, named `p` -/
def TopTarget (q : Query) (ty : TypeId) (sels : List Sel) (p : String) : Prop :=
  ∃ g fg, Sel.spread g ∈ sels ∧ q.fragments[g]? = some fg ∧ fg.on = ty ∧ fg.name = p

/-- the jumps of the first item of `calcSelection … ty sels` -/
def HeadOK (q : Query) (L : List Item) (ty : TypeId) (sels : List Sel) : Item → Prop
  | .alias _ pub t => pub = true ∧ ∃ g fg, sels = [.spread g] ∧ q.fragments[g]? = some fg ∧ fg.name = Scope.leaf t
  | .struct n _ _ fs => (∀ g, sels ≠ [Sel.spread g]) ∧ ∀ f ∈ fs, f.flatten = true →
      TopTarget q ty sels (Scope.leaf f.ty) ∨ OnPartner L n (Scope.leaf f.ty)
  | _ => True

theorem OnPartner.mono {L L' : List Item} {n p : String} (hs : ∀ x ∈ L, x ∈ L') (h : OnPartner L n p) :
    OnPartner L' n p := by
  obtain ⟨h1, it', h2, h3⟩ := h
  exact ⟨h1, it', hs _ h2, h3⟩

theorem ItemOK.mono {q : Query} {Used : Nat → Prop} {L L' : List Item} (hs : ∀ x ∈ L, x ∈ L') :
    ∀ {it : Item}, ItemOK q Used L it → ItemOK q Used L' it
  | .alias .., h => h
  | .struct .., h => fun f hf hfl => (h f hf hfl).imp id (OnPartner.mono hs)
  | .unitStruct .., _ => trivial
  | .tagged .., _ => trivial
  | .gqlEnum .., _ => trivial
  | .oneOf .., _ => trivial
  | .defaults .., _ => trivial

theorem HeadOK.mono {q : Query} {L L' : List Item} {ty : TypeId} {sels : List Sel} (hs : ∀ x ∈ L, x ∈ L') :
    ∀ {it : Item}, HeadOK q L ty sels it → HeadOK q L' ty sels it
  | .alias .., h => h
  | .struct .., h => ⟨h.1, fun f hf hfl => (h.2 f hf hfl).imp id (OnPartner.mono hs)⟩
  | .unitStruct .., _ => trivial
  | .tagged .., _ => trivial
  | .gqlEnum .., _ => trivial
  | .oneOf .., _ => trivial
  | .defaults .., _ => trivial

theorem LocalOK.nil {q : Query} {Used : Nat → Prop} : LocalOK q Used [] := fun _ h => by cases h

theorem LocalOK.append {q : Query} {Used : Nat → Prop} {A B : List Item} (ha : LocalOK q Used A)
    (hb : LocalOK q Used B) : LocalOK q Used (A ++ B) := by
  intro it hit
  rcases List.mem_append.mp hit with h | h
  · exact (ha it h).mono (fun x hx => List.mem_append_left _ hx)
  · exact (hb it h).mono (fun x hx => List.mem_append_right _ hx)

theorem aliasItem_itemOK {q : Query} {Used : Nat → Prop} (L : List Item) (n : String) (b : Bool) {g : Nat}
    {fg : RFragment} (hf : q.fragments[g]? = some fg) (hu : Used g) : ItemOK q Used L (aliasItem n fg.name b) := by
  cases b <;> exact ⟨rfl, g, fg, hf, hu, rfl⟩

theorem localOK_alias {q : Query} {Used : Nat → Prop} (n : String) (b : Bool) {g : Nat}
    {fg : RFragment} (hf : q.fragments[g]? = some fg) (hu : Used g) : LocalOK q Used [aliasItem n fg.name b] := by
  intro it hit
  simp only [List.mem_singleton] at hit
  subst hit
  exact aliasItem_itemOK _ n b hf hu

/-- the member `renderField` renders: its `flatten` flag and the leaf of its type -/
theorem renderField_flat {c : Ctx} {g : Option String} {r ft : String} {quals : List Qual} {fl bx : Bool}
    {dep : Option (Option String)} {o : Option RField}
    (h : renderField c g r ft quals fl bx dep = .ok o) : ∀ f ∈ o.toList, f.flatten = fl ∧ Scope.leaf f.ty = ft := by
  intro f hf
  refine ⟨?_, C02.renderField_leaf h f hf⟩
  unfold renderField at h
  obtain ⟨ty, _, h⟩ := C02.bind_ok h
  simp only [] at h
  split at h
  · simp only [pure, Except.pure, Except.ok.injEq] at h
    subst h; simp at hf
  · simp only [pure, Except.pure, Except.ok.injEq] at h
    subst h
    simp only [Option.toList_some, List.mem_singleton] at hf
    subst hf
    rfl

/-- `renderType`: the first item carries the name, the struct's extra flattened member is `name ++ "On"` with its
    `tagged` partner next to it -/
theorem renderType_spec (c : Ctx) (name : String) (fields : List RField) (variants : List RVariant) :
    ∃ hd tl, renderType c name fields variants = hd :: tl ∧ hd.name = name ∧
      (∀ it ∈ hd :: tl, ∀ n d sc fs, it = .struct n d sc fs → it = hd ∧ n = name ∧ ∀ f ∈ fs, f ∈ fields ∨
          OnPartner (hd :: tl) n (Scope.leaf f.ty)) ∧
      (∀ it ∈ hd :: tl, ∀ n pub t, it ≠ .alias n pub t) := by
  unfold renderType
  split
  · refine ⟨_, [], rfl, rfl, ?_, ?_⟩
    · intro it hit n d sc fs he
      simp only [List.mem_singleton] at hit
      subst hit; cases he
    · intro it hit n pub t he
      simp only [List.mem_singleton] at hit
      subst hit; cases he
  · split
    · refine ⟨_, [], rfl, rfl, ?_, ?_⟩
      · intro it hit n d sc fs he
        simp only [List.mem_singleton] at hit
        subst hit
        cases he
        exact ⟨rfl, rfl, fun f hf => .inl hf⟩
      · intro it hit n pub t he
        simp only [List.mem_singleton] at hit
        subst hit; cases he
    · refine ⟨_, [_], rfl, rfl, ?_, ?_⟩
      · intro it hit n d sc fs he
        simp only [List.mem_cons, List.not_mem_nil, or_false] at hit
        rcases hit with rfl | rfl
        · cases he
          refine ⟨rfl, rfl, fun f hf => ?_⟩
          rcases List.mem_append.mp hf with hf | hf
          · exact .inl hf
          · simp only [List.mem_singleton] at hf
            subst hf
            exact .inr ⟨rfl, _, List.mem_cons_of_mem _ List.mem_cons_self, rfl, rfl⟩
        · cases he
      · intro it hit n pub t he
        simp only [List.mem_cons, List.not_mem_nil, or_false] at hit
        rcases hit with rfl | rfl <;> cases he

theorem renderType_localOK {q : Query} {Used : Nat → Prop} (c : Ctx) (name : String) (fields : List RField)
    (variants : List RVariant) (hf : ∀ f ∈ fields, f.flatten = true → FragTarget q Used (Scope.leaf f.ty)) :
    LocalOK q Used (renderType c name fields variants) := by
  obtain ⟨hd, tl, heq, _, hst, hal⟩ := renderType_spec c name fields variants
  rw [heq]
  intro it hit
  cases it with
  | «alias» n pub t => exact absurd rfl (hal _ hit n pub t)
  | struct n d sc fs =>
    obtain ⟨_, _, hfs⟩ := hst _ hit n d sc fs rfl
    intro f hfm hfl
    rcases hfs f hfm with h | h
    · exact .inl (hf f h hfl)
    · exact .inr h
  | _ => trivial

theorem renderType_headOK {q : Query} (c : Ctx) (name : String) (fields : List RField) (variants : List RVariant)
    (ty : TypeId) (sels : List Sel) (hsp : ∀ g, sels ≠ [Sel.spread g])
    (hf : ∀ f ∈ fields, f.flatten = true → TopTarget q ty sels (Scope.leaf f.ty)) :
    ∃ hd tl, renderType c name fields variants = hd :: tl ∧ hd.name = name ∧ HeadOK q (hd :: tl) ty sels hd := by
  obtain ⟨hd, tl, heq, hn, hst, hal⟩ := renderType_spec c name fields variants
  refine ⟨hd, tl, heq, hn, ?_⟩
  cases hd with
  | «alias» n pub t => exact absurd rfl (hal _ List.mem_cons_self n pub t)
  | struct n d sc fs =>
    obtain ⟨_, _, hfs⟩ := hst _ List.mem_cons_self n d sc fs rfl
    refine ⟨hsp, fun f hfm hfl => ?_⟩
    rcases hfs f hfm with h | h
    · exact .inl (hf f h hfl)
    · exact .inr h
  | _ => trivial

/-! ## the variant selections -/

/-- the spreads of a variant selection are `Used` -/
def VOK (q : Query) (Used : Nat → Prop) : VariantSel → Prop
  | .inline _ sub => ∀ g, C02.Reach q sub (.spread g) → Used g
  | .spread g fg => q.fragments[g]? = some fg ∧ Used g

theorem reach_mono {q : Query} {a b : List Sel} (hs : ∀ x ∈ a, x ∈ b) {x : Sel} (h : C02.Reach q a x) :
    C02.Reach q b x := by
  cases h with
  | here hm => exact .here (hs _ hm)
  | field hm hr => exact .field (hs _ hm) hr
  | inline hm hr => exact .inline (hs _ hm) hr
  | spread hm hf hr => exact .spread (hs _ hm) hf hr

theorem variantSels_vok (q : Query) (Used : Nat → Prop) (ty : TypeId) : ∀ (sels : List Sel) (vsels : List VariantSel),
    sels.filterMapM (variantSelOf q ty) = .ok vsels → (∀ g, C02.Reach q sels (.spread g) → Used g) →
    ∀ v ∈ vsels, VOK q Used v
  | [], vsels, h, _ => by
    simp only [List.filterMapM_nil, pure, Except.pure, Except.ok.injEq] at h
    subst h; simp
  | x :: xs, vsels, h, hU => by
    rw [List.filterMapM_cons] at h
    obtain ⟨o, ho, h⟩ := C02.bind_ok h
    have hU' : ∀ g, C02.Reach q xs (.spread g) → Used g :=
      fun g hg => hU g (reach_mono (fun y hy => List.mem_cons_of_mem _ hy) hg)
    cases o with
    | none => exact variantSels_vok q Used ty xs vsels h hU'
    | some v =>
      simp only [] at h
      obtain ⟨r, hr, h⟩ := C02.bind_ok h
      simp only [pure, Except.pure, Except.ok.injEq] at h
      subst h
      intro w hw
      rcases List.mem_cons.mp hw with rfl | hw
      · cases x with
        | inline t' sub' =>
          simp only [variantSelOf, pure, Except.pure, Except.ok.injEq, Option.some.injEq] at ho
          subst ho
          exact fun g hg => hU g (.inline List.mem_cons_self hg)
        | spread g =>
          simp only [variantSelOf] at ho
          obtain ⟨fr, hfr, ho⟩ := C02.bind_ok ho
          simp only [pure, Except.pure, Except.ok.injEq] at ho
          split at ho
          · cases ho
          · simp only [Option.some.injEq] at ho
            subst ho
            exact ⟨C02.getFragment_ok hfr, hU g (.here List.mem_cons_self)⟩
        | field a b c' => simp [variantSelOf, pure, Except.pure] at ho
        | typename => simp [variantSelOf, pure, Except.pure] at ho
      · exact variantSels_vok q Used ty xs r hr hU' w hw

/-! ## the `calc*` block -/

section Calc
variable (c : Ctx) (Used : Nat → Prop)

def JStmt1 (fuel : Nat) : Prop := ∀ name pfx ty sels items,
  calcSelection c fuel name pfx ty sels = .ok items → (∀ g, C02.Reach c.q sels (.spread g) → Used g) →
  LocalOK c.q Used items ∧ ∃ hd tl, items = hd :: tl ∧ hd.name = name ∧ HeadOK c.q items ty sels hd
def JStmt2 (fuel : Nat) : Prop := ∀ name pfx vsels vts vs items,
  calcVariants c fuel name pfx vsels vts = .ok (vs, items) → (∀ v ∈ vsels, VOK c.q Used v) → LocalOK c.q Used items
def JStmt3 (fuel : Nat) : Prop := ∀ sname pfx vt mine fs items al,
  calcVariantSels c fuel sname pfx vt mine = .ok (fs, items, al) → (∀ v ∈ mine, VOK c.q Used v) →
  (∀ f ∈ fs, f.flatten = true → FragTarget c.q Used (Scope.leaf f.ty)) ∧ LocalOK c.q Used items ∧
  ∀ a ∈ al, ∃ tgt b, a = aliasItem sname tgt b ∧ FragTarget c.q Used tgt
def JStmt4 (fuel : Nat) : Prop := ∀ pfx ty sels fs items,
  calcFields c fuel pfx ty sels = .ok (fs, items) → (∀ g, C02.Reach c.q sels (.spread g) → Used g) →
  (∀ f ∈ fs, f.flatten = true → TopTarget c.q ty sels (Scope.leaf f.ty)) ∧ LocalOK c.q Used items

variable {c Used}

theorem TopTarget.cons {q : Query} {ty : TypeId} {x : Sel} {sels : List Sel} {p : String}
    (h : TopTarget q ty sels p) : TopTarget q ty (x :: sels) p := by
  obtain ⟨g, fg, h1, h2⟩ := h
  exact ⟨g, fg, List.mem_cons_of_mem _ h1, h2⟩

theorem fragTarget_of_top {q : Query} {ty : TypeId} {sels : List Sel} {p : String}
    (hU : ∀ g, C02.Reach q sels (.spread g) → Used g) (h : TopTarget q ty sels p) : FragTarget q Used p := by
  obtain ⟨g, fg, h1, h2, _, h4⟩ := h
  exact ⟨g, fg, h2, hU g (.here h1), h4⟩

theorem jstep4 (f : Nat) (H1 : JStmt1 c Used f) (H4 : JStmt4 c Used f) : JStmt4 c Used (f + 1) := by
  intro pfx ty sels fs items h hU
  cases sels with
  | nil =>
    rw [calcFields.eq_2 _ _ _ _ (by omega)] at h
    simp only [pure, Except.pure, Except.ok.injEq, Prod.mk.injEq] at h
    obtain ⟨rfl, rfl⟩ := h
    exact ⟨fun f hf => (by cases hf), LocalOK.nil⟩
  | cons x rest =>
    have hU' : ∀ g, C02.Reach c.q rest (.spread g) → Used g :=
      fun g hg => hU g (reach_mono (fun y hy => List.mem_cons_of_mem _ hy) hg)
    cases x with
    | field a fid sub =>
      obtain ⟨sf, fld, its, fs', items', _, hr, rfl, rfl, hstep⟩ := C02.calcFields_field_ok h
      have ⟨ih1, ih2⟩ := H4 pfx ty rest fs' items' hr hU'
      have key : (∀ f ∈ fld.toList, f.flatten = false) ∧ LocalOK c.q Used its := by
        rcases hstep with ⟨e, en, _, _, rfl, hfld⟩ | ⟨k, sn, _, _, rfl, hfld⟩ | ⟨_, _, _, hfld, hits⟩
        · exact ⟨fun f hf => (renderField_flat hfld f hf).1, LocalOK.nil⟩
        · exact ⟨fun f hf => (renderField_flat hfld f hf).1, LocalOK.nil⟩
        · exact ⟨fun f hf => (renderField_flat hfld f hf).1,
            (H1 _ _ _ _ _ hits (fun g hg => hU g (.field List.mem_cons_self hg))).1⟩
      refine ⟨fun f hf hfl => ?_, key.2.append ih2⟩
      rcases List.mem_append.mp hf with hf | hf
      · rw [key.1 f hf] at hfl; cases hfl
      · exact (ih1 f hf hfl).cons
    | spread g =>
      obtain ⟨fr, fs', hfr, hr, hfs⟩ := C02.calcFields_spread_ok h
      have ⟨ih1, ih2⟩ := H4 pfx ty rest fs' items hr hU'
      refine ⟨fun f hf hfl => ?_, ih2⟩
      rcases hfs with ⟨_, rfl⟩ | ⟨hon, fld, hfld, rfl⟩
      · exact (ih1 f hf hfl).cons
      · rcases List.mem_append.mp hf with hf | hf
        · refine ⟨g, fr, List.mem_cons_self, hfr, ?_, ((renderField_flat hfld f hf).2).symm⟩
          simpa using hon
        · exact (ih1 f hf hfl).cons
    | inline t sub =>
      rw [calcFields.eq_5 _ _ _ _ _ _ (by simp) (by simp)] at h
      have ⟨ih1, ih2⟩ := H4 pfx ty rest fs items h hU'
      exact ⟨fun f hf hfl => (ih1 f hf hfl).cons, ih2⟩
    | typename =>
      rw [calcFields.eq_5 _ _ _ _ _ _ (by simp) (by simp)] at h
      have ⟨ih1, ih2⟩ := H4 pfx ty rest fs items h hU'
      exact ⟨fun f hf hfl => (ih1 f hf hfl).cons, ih2⟩

theorem jstep3 (f : Nat) (H3 : JStmt3 c Used f) (H4 : JStmt4 c Used f) : JStmt3 c Used (f + 1) := by
  intro sname pfx vt mine fs items al h hV
  cases mine with
  | nil =>
    rw [calcVariantSels.eq_2 _ _ _ _ _ (by omega)] at h
    simp only [pure, Except.pure, Except.ok.injEq, Prod.mk.injEq] at h
    obtain ⟨rfl, rfl, rfl⟩ := h
    exact ⟨fun f hf => (by cases hf), LocalOK.nil, fun a ha => (by cases ha)⟩
  | cons x rest =>
    have hV' : ∀ v ∈ rest, VOK c.q Used v := fun v hv => hV v (List.mem_cons_of_mem _ hv)
    cases x with
    | inline t sub =>
      obtain ⟨tn, fs0, items0, al0, fs', items', al', _, hr, rfl, rfl, rfl, hstep⟩ := C02.calcVariantSels_inline_ok h
      have ⟨ih1, ih2, ih3⟩ := H3 sname pfx vt rest fs' items' al' hr hV'
      have hsub : ∀ g, C02.Reach c.q sub (.spread g) → Used g := hV _ List.mem_cons_self
      have key : (∀ f ∈ fs0, f.flatten = true → FragTarget c.q Used (Scope.leaf f.ty)) ∧ LocalOK c.q Used items0 ∧
          ∀ a ∈ al0, ∃ tgt b, a = aliasItem sname tgt b ∧ FragTarget c.q Used tgt := by
        rcases hstep with ⟨g, fr, rfl, hfr, rfl, rfl, rfl⟩ | ⟨_, hfl, rfl⟩
        · refine ⟨fun f hf => (by cases hf), LocalOK.nil, fun a ha => ?_⟩
          simp only [List.mem_singleton] at ha
          exact ⟨fr.name, _, ha, g, fr, hfr, hsub g (.here List.mem_cons_self), rfl⟩
        · have ⟨k1, k2⟩ := H4 _ _ _ _ _ hfl hsub
          exact ⟨fun f hf hfl' => fragTarget_of_top hsub (k1 f hf hfl'), k2, fun a ha => (by cases ha)⟩
      exact ⟨fun f hf => (List.mem_append.mp hf).elim (key.1 f) (ih1 f), key.2.1.append ih2,
        fun a ha => (List.mem_append.mp ha).elim (key.2.2 a) (ih3 a)⟩
    | spread g fr =>
      obtain ⟨fld, fs', hfld, hr, rfl⟩ := C02.calcVariantSels_spread_ok h
      have ⟨ih1, ih2, ih3⟩ := H3 sname pfx vt rest fs' items al hr hV'
      have hg : c.q.fragments[g]? = some fr ∧ Used g := hV _ List.mem_cons_self
      refine ⟨fun f hf hfl => ?_, ih2, ih3⟩
      rcases List.mem_append.mp hf with hf | hf
      · exact ⟨g, fr, hg.1, hg.2, ((renderField_flat hfld f hf).2).symm⟩
      · exact ih1 f hf hfl

theorem jstep2 (f : Nat) (H2 : JStmt2 c Used f) (H3 : JStmt3 c Used f) : JStmt2 c Used (f + 1) := by
  intro name pfx vsels vts vs items h hV
  cases vts with
  | nil =>
    rw [calcVariants.eq_2 _ _ _ _ _ (by omega)] at h
    simp only [pure, Except.pure, Except.ok.injEq, Prod.mk.injEq] at h
    obtain ⟨rfl, rfl⟩ := h
    exact LocalOK.nil
  | cons vt rest =>
    obtain ⟨vname, thisV, thisItems, vs', items', _, hr, rfl, rfl, hstep⟩ := C02.calcVariants_ok h
    have ih := H2 name pfx vsels rest vs' items' hr hV
    have hmine : ∀ v ∈ vsels.filter (fun v => v.typeId == vt), VOK c.q Used v :=
      fun v hv => hV v (List.mem_filter.mp hv).1
    have key : LocalOK c.q Used thisItems := by
      rcases hstep with ⟨_, _, rfl⟩ | ⟨_, _, hstep⟩
      · exact LocalOK.nil
      · rcases hstep with ⟨g, fr, hm, rfl⟩ | ⟨r, hr0, hstep⟩
        · have hg : c.q.fragments[g]? = some fr ∧ Used g := hmine (.spread g fr) (by rw [hm]; exact List.mem_cons_self)
          exact localOK_alias _ _ hg.1 hg.2
        · obtain ⟨r1, r2, r3⟩ := H3 _ _ _ _ r.1 r.2.1 r.2.2 hr0 hmine
          rcases hstep with ⟨a, _, hal, rfl⟩ | ⟨_, extra, hex, rfl⟩
          · obtain ⟨tgt, b, rfl, g, fg, hfg, hu, rfl⟩ := r3 a (by rw [hal]; exact List.mem_cons_self)
            exact (localOK_alias _ b hfg hu).append r2
          · refine (renderType_localOK c _ _ _ (fun f hf hfl => ?_)).append r2
            rcases List.mem_append.mp hf with hf | hf
            · exact r1 f hf hfl
            · exact C02.aliasMembers_leaf hex (P := FragTarget c.q Used) r3 f hf
    exact key.append ih

theorem jstep1 (f : Nat) (H2 : JStmt2 c Used f) (H4 : JStmt4 c Used f) : JStmt1 c Used (f + 1) := by
  intro name pfx ty sels items h hU
  by_cases hs : ∃ g, sels = [Sel.spread g]
  · obtain ⟨g, rfl⟩ := hs
    obtain ⟨fr, hfr, rfl⟩ := C02.calcSelection_single_ok h
    refine ⟨localOK_alias _ _ hfr (hU g (.here List.mem_cons_self)), _, [], rfl, ?_, ?_⟩
    · cases fragmentIsRecursive c.q g <;> rfl
    · cases fragmentIsRecursive c.q g <;> exact ⟨rfl, g, fr, rfl, hfr, rfl⟩
  · have hsp : ∀ g, sels ≠ [Sel.spread g] := fun g hg => hs ⟨g, hg⟩
    obtain ⟨rv, vi, rf, fi, hvp, hfl, rfl⟩ := C02.calcSelection_ok hsp h
    have ⟨f1, f2⟩ := H4 _ _ _ _ _ hfl hU
    have hv : LocalOK c.q Used vi := by
      rcases hvp with ⟨_, _, rfl⟩ | ⟨vts, vsels, r, _, hvs, hr, _, rfl⟩
      · exact LocalOK.nil
      · exact H2 _ _ _ _ r.1 r.2 hr (variantSels_vok c.q Used ty sels vsels hvs hU)
    refine ⟨((renderType_localOK c name rf rv (fun f hf hfl' => fragTarget_of_top hU (f1 f hf hfl'))).append hv).append f2,
      ?_⟩
    obtain ⟨hd, tl, heq, hn, hh⟩ := renderType_headOK (q := c.q) c name rf rv ty sels hsp f1
    refine ⟨hd, tl ++ vi ++ fi, by rw [heq]; simp, hn, ?_⟩
    rw [heq]
    refine hh.mono (fun x hx => ?_)
    simp only [List.append_assoc, List.cons_append, List.mem_cons, List.mem_append] at hx ⊢
    rcases hx with hx | hx
    · exact .inl hx
    · exact .inr (.inl hx)

/-- **the jumps of every item of any `calc*` call** -/
theorem calc_jumps : ∀ fuel, JStmt1 c Used fuel ∧ JStmt2 c Used fuel ∧ JStmt3 c Used fuel ∧ JStmt4 c Used fuel := by
  intro fuel
  induction fuel with
  | zero =>
    refine ⟨?_, ?_, ?_, ?_⟩
    · intro _ _ _ _ _ h; rw [calcSelection.eq_1] at h; cases h
    · intro _ _ _ _ _ _ h; rw [calcVariants.eq_1] at h; cases h
    · intro _ _ _ _ _ _ _ h; rw [calcVariantSels.eq_1] at h; cases h
    · intro _ _ _ _ _ h; rw [calcFields.eq_1] at h; cases h
  | succ f ih =>
    obtain ⟨H1, H2, H3, H4⟩ := ih
    exact ⟨jstep1 f H2 H4, jstep2 f H2 H3, jstep3 f H3 H4, jstep4 f H1 H4⟩

end Calc

end AcyclicM
end GqlVerif
