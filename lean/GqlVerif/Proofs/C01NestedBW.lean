import GqlVerif.Proofs.C01NestedBI
/-!
# `NestedBOp`, part W: the instance of the task, hypotheses evaluated

Schema `ngSchema` (`C01NestedGenW`);

    fragment Inner on Dog { tricks }
    fragment Outer on Dog { age ...Inner }
    fragment AnimalName on Animal { __typename name }
    query Q { animal { __typename ...AnimalName ... on Dog { barks } ...Outer } }

* the operation is in `NestedBOp`, not in `NestedGen2Op` (nor in `VariantSpreadOp`);
* the emitted types: `struct Qanimal { #[serde(flatten)] AnimalName, #[serde(flatten)] on: QanimalOn }`,
  `enum QanimalOn { Dog(QanimalOnDog), Cat }` tagged by `__typename`, `struct QanimalOnDog { barks, #[serde(flatten)] Outer }`,
  `struct AnimalName { name, #[serde(flatten)] on: AnimalNameOn }`, `enum AnimalNameOn { Dog, Cat }`;
* every hypothesis of `nestedb_roundtrip` by `decide +kernel`; the concrete round trip (the shared `__typename` is written by
  `AnimalName` and by `QanimalOn`; `normJson` keeps one);
* `nestedb_b_overlap_needed`: the key condition of `bOk` (no field key of a (b)-fragment is an interface-level field key of the
  position) is necessary — a conforming response the emitted types reject;
* `nestedb_disj_not_needed`: the key condition against the variants' keys (`nestedBDisjOk`) is not a hypothesis, and not needed;
* `nestedb_rust_names_needed`: the Rust-name condition of `nestedBSideOk` on the members of the (b)-spreads is necessary — a
  conforming, accepted response that is not written back.
-/
set_option linter.unusedSimpArgs false
set_option linter.unusedVariables false
set_option linter.unusedSectionVars false
set_option linter.unnecessarySimpa false

namespace GqlVerif
namespace C01NB
open Serde Spec C13 C03 Codegen C01 C01.E2E C01M C01N C01NA C01NG C01NX

/-- `fragment Inner on Dog { tricks }`, `fragment Outer on Dog { age ...Inner }`, `fragment AnimalName on Animal { __typename name }` -/
def nbQuery (animal : List Sel) : Query :=
  { operations := [ngOp animal]
    fragments := [{ name := "Inner", on := .object 1, sels := [.field none 4 []] },
                  { name := "Outer", on := .object 1, sels := [ngAge, .spread 0] },
                  { name := "AnimalName", on := .interface 0, sels := [.typename, .field none 1 []] }] }

def nbCtx (animal : List Sel) : Ctx := { s := ngSchema, q := nbQuery animal, o := {}, cs := ⟨id, id⟩ }

/-- `animal { __typename ...AnimalName ... on Dog { barks } ...Outer }` -/
def nbAnimal : List Sel := [.typename, .spread 2, .inline (.object 1) [.field none 2 []], .spread 1]

abbrev CB : Ctx := nbCtx nbAnimal
abbrev OB : ROperation := ngOp nbAnimal

def nbItems : List Item := okOr (responseForQuery CB 0)

theorem nb_gen : responseForQuery CB 0 = .ok nbItems := gen_of_isOk (by decide +kernel)
theorem nb_class : NestedBOp CB OB = true := by decide +kernel
theorem nb_not_X : NestedGen2Op CB OB = false := by decide +kernel
theorem nb_not_S : VariantSpreadOp CB OB = false := by decide +kernel

theorem nb_names : fragNamesOk CB = true := by decide +kernel
theorem nb_keys : nestedBKeysOk CB OB = true := by decide +kernel
theorem nb_tag : absTagOk CB OB = true := by decide +kernel
theorem nb_ok : moduleOk CB nbItems = true := by decide +kernel
theorem nb_side : nestedBSideOk CB OB = true := by decide +kernel

/-- `nestedb_items_shape` on the instance -/
theorem nb_items : responseItems CB OB = .ok (bodyItemsA CB "ResponseData" "Q" OB.sels) :=
  nestedb_items_shape _ _ (by simp [nbCtx, nbQuery]) nb_class

/-- the emitted types -/
theorem nb_items_shape :
    ((moduleEnv CB nbItems).find "Qanimal" ==
      some (.struct "Qanimal" ["Deserialize"] (some "::serde")
        [{ rust := "AnimalName", ty := .path "AnimalName", flatten := true },
         { rust := "on", ty := .path "QanimalOn", flatten := true }])) &&
    ((moduleEnv CB nbItems).find "QanimalOn" ==
      some (.tagged "QanimalOn" ["Deserialize"] (some "::serde") "__typename"
        [{ name := "Dog", payload := some (.path "QanimalOnDog") }, { name := "Cat" }])) &&
    ((moduleEnv CB nbItems).find "QanimalOnDog" ==
      some (.struct "QanimalOnDog" ["Deserialize"] (some "::serde")
        [{ rust := "barks", ty := .opt (.path "Boolean") },
         { rust := "Outer", ty := .path "Outer", flatten := true }])) &&
    ((moduleEnv CB nbItems).find "AnimalName" ==
      some (.struct "AnimalName" ["Deserialize"] (some "::serde")
        [{ rust := "name", ty := .path "String" },
         { rust := "on", ty := .path "AnimalNameOn", flatten := true }])) &&
    ((moduleEnv CB nbItems).find "AnimalNameOn" ==
      some (.tagged "AnimalNameOn" ["Deserialize"] (some "::serde") "__typename"
        [{ name := "Dog" }, { name := "Cat" }])) = true := by
  decide +kernel

def nbJson : Json :=
  .obj [("animal", .obj [("tricks", .int 3), ("__typename", .str "Dog"), ("barks", .bool true), ("name", .str "Rex"),
    ("age", .int 7)])]

def nbJsonCat : Json :=
  .obj [("animal", .obj [("name", .str "Tom"), ("__typename", .str "Cat")])]

macro "confB_eval" : tactic => `(tactic|
  simp [conformsOpN, nbCtx, ngOp, nbQuery, ngAge, expandSelsW, expandSelW, exN, expandSel, expandSels, conformsV, confSelsV,
    confSelV, keysSelsV, keysSelV,
    fragApplies, rtName, ngSchema, Json.lookup, accepts, acceptsNN, gtyOf, scalarOk, floatOk, stringOk, boolOk, intOk, i64Ok,
    Json.isNull, EnumSpec.nodup, List.range, List.range.loop, conformsAt, Schema.implementors, List.zipIdx])

set_option maxRecDepth 8000 in
theorem nb_conforms : conformsOpN CB OB nbJson = true := by
  simp only [CB, OB, nbAnimal, nbJson]; confB_eval
set_option maxRecDepth 8000 in
theorem nb_conforms_cat : conformsOpN CB OB nbJsonCat = true := by
  simp only [CB, OB, nbAnimal, nbJsonCat]; confB_eval

/-- C03 on the module: what `ResponseData` accepts, exactly -/
theorem nb_precise (j : Json) :
    okB (Serde.de (moduleEnv CB nbItems) (.path "ResponseData") j) =
      conformsLooseA (wholeN CB 3) ngSchema (nbQuery nbAnimal) {} false OB.sels j :=
  nestedb_precise_iff CB 0 OB nbItems rfl nb_class nb_names nb_keys nb_gen nb_ok j

/-- `nestedb_accepts` on the instance -/
theorem nb_accepts : ∃ v, Serde.de (moduleEnv CB nbItems) (.path "ResponseData") nbJson = .ok v :=
  nestedb_accepts CB 0 OB nbItems rfl nb_class nb_names nb_keys nb_tag nb_gen nb_ok nbJson nb_conforms

/-- **the concrete round trip**, by evaluation of the model: `Qanimal` writes the entries of `AnimalName` (`name` and its own
    `__typename`), the flattened tagged enum the tag entry (merged by `serde_json::to_value` with the one of `AnimalName`: the
    key keeps its first position), the variant struct its own field `barks`, then `Outer`'s entry `age`, then `Inner`'s entry
    `tricks` -/
theorem nb_roundtrip_eval :
    (match Serde.roundtrip (moduleEnv CB nbItems) (.path "ResponseData") nbJson with
     | .ok (.obj [("animal", .obj [("name", .str "Rex"), ("__typename", .str "Dog"), ("barks", .bool true),
         ("age", .int 7), ("tricks", .int 3)])]) => true
     | _ => false) = true := by decide +kernel

theorem nb_roundtrip_eval_cat :
    (match Serde.roundtrip (moduleEnv CB nbItems) (.path "ResponseData") nbJsonCat with
     | .ok (.obj [("animal", .obj [("name", .str "Tom"), ("__typename", .str "Cat")])]) => true
     | _ => false) = true := by decide +kernel

/-- `nestedb_roundtrip` on the instance, the canonical form still symbolic -/
theorem nb_roundtrip_canon :
    Serde.roundtrip (moduleEnv CB nbItems) (.path "ResponseData") nbJson =
      .ok (normJson (canonSelA (centN CB 3) ngSchema (nbQuery nbAnimal) {} OB.sels nbJson)) :=
  nestedb_roundtrip CB 0 OB nbItems rfl nb_class nb_names nb_keys nb_tag nb_side nb_gen nb_ok nbJson nb_conforms

/-- … hence the canonical form of `nestedb_roundtrip` is the value the model computes -/
theorem nb_canon_value :
    (match (Except.ok (normJson (canonSelA (centN CB 3) ngSchema (nbQuery nbAnimal) {} OB.sels nbJson)) : D Json) with
     | .ok (.obj [("animal", .obj [("name", .str "Rex"), ("__typename", .str "Dog"), ("barks", .bool true),
         ("age", .int 7), ("tricks", .int 3)])]) => true
     | _ => false) = true := by
  rw [← nb_roundtrip_canon]; exact nb_roundtrip_eval

/-! ## necessity of the key condition of `bOk`

    query Q { animal { __typename name ...AnimalName } }

`Qanimal` consumes the entry `name`; the flattened member `AnimalName { name, … }` never sees it. -/

def nzAnimal : List Sel := [.typename, .field none 1 [], .spread 2]
abbrev CZ : Ctx := nbCtx nzAnimal
abbrev OZ : ROperation := ngOp nzAnimal
def nzItems : List Item := okOr (responseForQuery CZ 0)
theorem nz_gen : responseForQuery CZ 0 = .ok nzItems := gen_of_isOk (by decide +kernel)
/-- not in the class: the (b)-fragment reads the key of an interface-level field of the position -/
theorem nz_class : NestedBOp CZ OZ = false := by decide +kernel
def nzJson : Json := .obj [("animal", .obj [("__typename", .str "Dog"), ("name", .str "Rex")])]

set_option maxRecDepth 8000 in
theorem nz_conforms : conformsOpN CZ OZ nzJson = true := by
  simp only [CZ, OZ, nzAnimal, nzJson]; confB_eval

/-- the response conforms, the module is generated, and the emitted `ResponseData` rejects the response -/
theorem nestedb_b_overlap_needed :
    conformsOpN CZ OZ nzJson = true ∧ moduleOk CZ nzItems = true ∧
      okB (Serde.de (moduleEnv CZ nzItems) (.path "ResponseData") nzJson) = false :=
  ⟨nz_conforms, by decide +kernel, by decide +kernel⟩

/-! ## necessity of the Rust-name condition of `nestedBSideOk` (`rustNamesB … ++ ["on"]` pairwise distinct)

    fragment on on Animal { __typename name }
    query Q { animal { __typename ...on ...Outer } }

the member of the (b)-spread is named `on`, as the flattened tagged enum: every other hypothesis of `nestedb_roundtrip` holds, the
response conforms and is accepted, and the value read is not written back (the serializer finds the wrong member). -/

def nrQuery (animal : List Sel) : Query :=
  { operations := [ngOp animal]
    fragments := [{ name := "Inner", on := .object 1, sels := [.field none 4 []] },
                  { name := "Outer", on := .object 1, sels := [ngAge, .spread 0] },
                  { name := "on", on := .interface 0, sels := [.typename, .field none 1 []] }] }
def nrCtx (animal : List Sel) : Ctx := { s := ngSchema, q := nrQuery animal, o := {}, cs := ⟨id, id⟩ }
def nrAnimal : List Sel := [.typename, .spread 2, .spread 1]
abbrev CR : Ctx := nrCtx nrAnimal
abbrev OR : ROperation := ngOp nrAnimal
def nrItems : List Item := okOr (responseForQuery CR 0)
theorem nr_gen : responseForQuery CR 0 = .ok nrItems := gen_of_isOk (by decide +kernel)
def nrJson : Json := .obj [("animal", .obj [("__typename", .str "Cat"), ("name", .str "Tom")])]

set_option maxRecDepth 8000 in
theorem nr_conforms : conformsOpN CR OR nrJson = true := by
  simp only [CR, OR, nrAnimal, nrJson]
  simp [conformsOpN, nrCtx, ngOp, nrQuery, ngAge, expandSelsW, expandSelW, exN, expandSel, expandSels, conformsV, confSelsV,
    confSelV, keysSelsV, keysSelV,
    fragApplies, rtName, ngSchema, Json.lookup, accepts, acceptsNN, gtyOf, scalarOk, floatOk, stringOk, boolOk, intOk, i64Ok,
    Json.isNull, EnumSpec.nodup, List.range, List.range.loop, conformsAt, Schema.implementors, List.zipIdx]

theorem nestedb_rust_names_needed :
    NestedBOp CR OR = true ∧ fragNamesOk CR = true ∧ nestedBKeysOk CR OR = true ∧ absTagOk CR OR = true ∧
      moduleOk CR nrItems = true ∧ nestedBSideOk CR OR = false ∧ conformsOpN CR OR nrJson = true ∧
      (match Serde.roundtrip (moduleEnv CR nrItems) (.path "ResponseData") nrJson with
       | .ok _ => false
       | .error _ => true) = true :=
  ⟨by decide +kernel, by decide +kernel, by decide +kernel, by decide +kernel, by decide +kernel, by decide +kernel,
    nr_conforms, by decide +kernel⟩

/-! ## the key condition against the variants' keys (`nestedBDisjOk`) is not needed

    query Q { animal { __typename ...AnimalName ... on Dog { name } } }

`name` is read by the member `AnimalName` and by the variant struct `QanimalOnDog` (both flattened members of `Qanimal` borrow);
every hypothesis of `nestedb_roundtrip` holds, `nestedBDisjOk` does not; the serializer writes `name` twice, `normJson` keeps one. -/

theorem nb_disj : nestedBDisjOk CB OB = true := by decide +kernel

def nsAnimal : List Sel := [.typename, .spread 2, .inline (.object 1) [.field none 1 []]]
abbrev CS : Ctx := nbCtx nsAnimal
abbrev OS : ROperation := ngOp nsAnimal
def nsItems : List Item := okOr (responseForQuery CS 0)
theorem ns_gen : responseForQuery CS 0 = .ok nsItems := gen_of_isOk (by decide +kernel)
def nsJson : Json := .obj [("animal", .obj [("__typename", .str "Dog"), ("name", .str "Rex")])]

set_option maxRecDepth 8000 in
theorem ns_conforms : conformsOpN CS OS nsJson = true := by
  simp only [CS, OS, nsAnimal, nsJson]; confB_eval

theorem nestedb_disj_not_needed :
    NestedBOp CS OS = true ∧ nestedBDisjOk CS OS = false ∧
      Serde.roundtrip (moduleEnv CS nsItems) (.path "ResponseData") nsJson =
        .ok (normJson (canonSelA (centN CS 3) ngSchema (nbQuery nsAnimal) {} OS.sels nsJson)) ∧
      (match Serde.roundtrip (moduleEnv CS nsItems) (.path "ResponseData") nsJson with
       | .ok (.obj [("animal", .obj [("name", .str "Rex"), ("__typename", .str "Dog")])]) => true
       | _ => false) = true :=
  ⟨by decide +kernel, by decide +kernel,
    nestedb_roundtrip CS 0 OS nsItems rfl (by decide +kernel) (by decide +kernel) (by decide +kernel) (by decide +kernel)
      (by decide +kernel) ns_gen (by decide +kernel) nsJson ns_conforms,
    by decide +kernel⟩

end C01NB
end GqlVerif
