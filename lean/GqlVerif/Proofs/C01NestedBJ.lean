import GqlVerif.Proofs.C01NestedBW
/-!
# `NestedBOp`, part J: `NestedGen2Op ⊆ NestedBOp`; agreement with `C01NestedGenX*` on `NestedGen2Op`

At a position of `NestedGen2Op` there is no (b)-spread (`noB_of_absSubX`: every spread there is of a fragment on a possible type),
so `unB sub = sub`, `bSels sub = []` and everything `nestedb_roundtrip` mentions is what `nestedgen2_roundtrip` mentions: the closed
form of the items (`bodyItemsA_eq_X`), the exact acceptance predicate (`conformsLooseA_eq_X`), the canonical form
(`canonSelA_eq_X`), the side conditions (`nestedBKeysOk_eq_X`, `absTagOk_eq_X`, `nestedBSideOk_eq_X`).
-/
set_option linter.unusedSimpArgs false
set_option linter.unusedVariables false
set_option linter.unusedSectionVars false
set_option linter.unnecessarySimpa false

namespace GqlVerif
namespace C01NB
open Serde Spec C13 C03 Codegen C01 C01.E2E C01M C01N C01NA C01NG C01NX

/-! ## a position of `NestedGen2Op` has no (b)-spread -/

section Core
variable {ok : TypeId → Nat → Bool} {s : Schema} {q : Query} {o : Options}

theorem noB_of_absSubX (hok : OkSpec q ok) {ty : TypeId} (hty : absHyp s ty) {sub : List Sel}
    (h : absSubX ok s q o ty sub = true) : ∀ x ∈ sub, isBSpread q ty x = false := by
  intro x hx
  cases hb : isBSpread q ty x with
  | false => rfl
  | true =>
    obtain ⟨g, f, rfl, hf, hon⟩ := isBSpread_spread hb
    obtain ⟨f', hf', hne⟩ := (absSubX_parts h).spread hok hty hx
    rw [hf] at hf'; cases hf'
    exact absurd hon hne

theorem noB_of_absFieldX (hok : OkSpec q ok) {sf : StoredField} {sub : List Sel}
    (h : absFieldX ok s q o sf sub = true) : ∀ x ∈ sub, isBSpread q sf.ty.id x = false := by
  obtain ⟨_, _, hty, hsub⟩ := absFieldX_parts h
  exact noB_of_absSubX hok hty hsub

theorem bSels_eq_nil {ty : TypeId} {sub : List Sel} (hnb : ∀ x ∈ sub, isBSpread q ty x = false) : bSels q ty sub = [] := by
  unfold bSels
  rw [List.filter_eq_nil_iff]
  intro x hx
  simp [hnb x hx]

theorem absSubB_of_absSubX (hok : OkSpec q ok) {ty : TypeId} (hty : absHyp s ty) {sub : List Sel}
    (h : absSubX ok s q o ty sub = true) : absSubB ok s q o ty sub = true := by
  have hnb := noB_of_absSubX hok hty h
  simp only [absSubB, Bool.and_eq_true, List.all_eq_true]
  refine ⟨by rw [unB_eq_self hnb]; exact h, fun x hx => ?_⟩
  cases x with
  | spread g => simp [bOk, hnb _ hx]
  | field a fid sub' => rfl
  | inline t sub' => rfl
  | typename => rfl

theorem absFieldB_of_absFieldX (hok : OkSpec q ok) {sf : StoredField} {sub : List Sel}
    (h : absFieldX ok s q o sf sub = true) : absFieldB ok s q o sf sub = true := by
  simp only [absFieldX, Bool.and_eq_true] at h
  simp only [absFieldB, Bool.and_eq_true]
  exact ⟨h.1, absSubB_of_absSubX hok (absTyOk_absHyp h.1.2) h.2⟩

theorem fieldsB_eq_fieldsOfV (c : Ctx) (pfx : String) {ty : TypeId} : ∀ {sub : List Sel},
    (∀ x ∈ sub, isBSpread c.q ty x = false) → fieldsB c pfx ty sub = fieldsOfV c pfx sub
  | [], _ => rfl
  | x :: xs, hnb => by
    have ih := fieldsB_eq_fieldsOfV c pfx (ty := ty) (fun y hy => hnb y (List.mem_cons_of_mem _ hy))
    have hx : fieldOfSelB c pfx ty x = fieldOfSelV c pfx x := by
      cases x with
      | spread g =>
        have := hnb _ (List.mem_cons_self)
        cases hf : c.q.fragments[g]? with
        | none => simp [fieldOfSelB, fieldOfSelV, hf]
        | some f =>
          simp only [isBSpread, hf] at this
          simp [fieldOfSelB, fieldOfSelV, hf, this]
      | field a fid sub' => rfl
      | inline t sub' => rfl
      | typename => rfl
    unfold fieldsB fieldsOfV at ih ⊢
    rw [List.filterMap_cons, List.filterMap_cons, ih, hx]

theorem absItemsB_eq_X {c : Ctx} {ty : TypeId} {sub : List Sel} (hnb : ∀ x ∈ sub, isBSpread c.q ty x = false)
    (name pfx : String) : absItemsB c name pfx ty sub = absItemsX c name pfx ty sub := by
  unfold absItemsB absItemsX
  rw [unB_eq_self hnb, fieldsB_eq_fieldsOfV c pfx hnb]

theorem looseAbsB_eq_X {sf : StoredField} {sub : List Sel} (hnb : ∀ x ∈ sub, isBSpread q sf.ty.id x = false)
    (whole : Nat → Bool → Json → Bool) (b : Bool) (v : Json) :
    looseAbsB whole s q o b sf sub v = looseAbsX whole s q o b sf sub v := by
  unfold looseAbsB looseAbsX
  congr 1
  funext j
  cases j <;> simp [looseTagB, looseTagX, bSels_eq_nil hnb, unB_eq_self hnb, looseMemB]

theorem canonEntriesS_ownSels (skip : Bool) (kvs : List (String × Json)) : ∀ (sub : List Sel),
    canonEntriesS s q skip (C01NG.ownSels sub) kvs = canonEntriesS s q skip sub kvs
  | [] => rfl
  | x :: xs => by
    have ih := canonEntriesS_ownSels skip kvs xs
    cases x with
    | field a fid sub' => rw [C01NG.ownSels_cons_field, canonEntriesS.eq_2, canonEntriesS.eq_2, ih]
    | spread g => rw [C01NG.ownSels_cons_other rfl, ih]; simp [canonEntriesS]
    | inline t sub' => rw [C01NG.ownSels_cons_other rfl, ih]; simp [canonEntriesS]
    | typename => rw [C01NG.ownSels_cons_other rfl, ih]; simp [canonEntriesS]

theorem canonEntriesBD_eq_X {ty : TypeId} {sub : List Sel} (hnb : ∀ x ∈ sub, isBSpread q ty x = false)
    (hl : ∀ x ∈ sub, leafSel s q o x = true) (skip : Bool) (rest kvs : List (String × Json)) :
    canonEntriesBD s q skip ty rest sub kvs = canonEntriesS s q skip (C01NG.ownSels sub) kvs := by
  rw [canonEntriesS_ownSels]
  apply canonEntriesBD_eq
  · simp only [noBAt, Bool.not_eq_true', List.any_eq_false]
    intro x hx
    simp [hnb x hx]
  · intro a fid sub' hx v
    have hlf := hl _ hx
    obtain ⟨_, _, _, _, hnil, _⟩ := leafSel_field hlf
    subst hnil
    have hs : sSel s q o true (.field a fid []) = true := by
      simp only [leafSel, Bool.and_eq_true] at hlf
      exact hlf.1
    exact (canonD_noB_sel s q o skip _ true hs (noBSel_leaf hlf)).1 v

theorem canonAbsB_eq_X {sf : StoredField} {sub : List Sel} (hnb : ∀ x ∈ sub, isBSpread q sf.ty.id x = false)
    (hl : ∀ x ∈ sub, leafSel s q o x = true)
    (cent : Nat → List (String × Json) → List (String × Json)) (v : Json) :
    canonAbsB cent s q o sf sub v = canonAbsX cent s q o sf sub v := by
  unfold canonAbsB canonAbsX
  congr 1
  funext j
  cases j with
  | obj kvs =>
    simp only [canonTagB, canonTagX, unB_eq_self hnb, canonEntriesBD_eq_X hnb hl]
    rfl
  | _ => rfl

end Core

mutual
  theorem aSel_of_X {ok : TypeId → Nat → Bool} (s : Schema) (q : Query) (o : Options) (hok : OkSpec q ok) : ∀ (x : Sel) (p : TypeId),
      C01NX.aSel ok s q o p x = true → aSel ok s q o p x = true
    | .field a fid sub, p => by
      intro h
      have IH := aSels_of_X (ok := ok) s q o hok sub
      obtain ⟨sf, hsf⟩ := C01NX.aSel_field_some h
      by_cases hobj : ∃ i, sf.ty.id = .object i
      · obtain ⟨i, hid⟩ := hobj
        obtain ⟨hw, hdep, ho, hb⟩ := C01NX.aSel_obj hsf hid h
        rw [aSel]
        simp only [hsf, hid, hw, hdep, ho, Bool.not_false, Bool.and_self, Bool.true_and]
        by_cases hsp : ∃ g, sub = [Sel.spread g]
        · obtain ⟨g, rfl⟩ := hsp; exact hb
        · have hnl : ∀ g, sub ≠ [Sel.spread g] := fun g hg => hsp ⟨g, hg⟩
          rw [C01NX.aBody_not_lone hnl] at hb
          split
          · exact absurd rfl (hnl _)
          · exact IH _ hb
      · have hno : ∀ i, sf.ty.id ≠ .object i := fun i h => hobj ⟨i, h⟩
        have hs : (sSel s q o false (.field a fid sub) || absFieldB ok s q o sf sub) = true := by
          rcases C01NX.aSel_nonobj hsf hno h with hs | ⟨_, hnew⟩
          · rw [hs]; rfl
          · rw [absFieldB_of_absFieldX hok hnew]; simp
        rw [aSel]
        simp only [hsf]
        cases hid : sf.ty.id with
        | object i => exact absurd hid (hno i)
        | scalar k => simpa using hs
        | «enum» k => simpa using hs
        | interface k => simpa using hs
        | union k => simpa using hs
        | input k => simpa using hs
    | .spread g, p => by intro h; rw [C01NX.aSel] at h; rw [aSel]; exact h
    | .inline _ _, _ => by intro h; simp [C01NX.aSel] at h
    | .typename, _ => by intro _; simp [aSel]
  theorem aSels_of_X {ok : TypeId → Nat → Bool} (s : Schema) (q : Query) (o : Options) (hok : OkSpec q ok) : ∀ (sels : List Sel) (p : TypeId),
      C01NX.aSels ok s q o p sels = true → aSels ok s q o p sels = true
    | [], _ => by intro _; rfl
    | x :: xs, p => by
      intro h
      obtain ⟨hx, hxs⟩ := C01NX.aSels_cons h
      rw [aSels, aSel_of_X s q o hok x p hx, aSels_of_X s q o hok xs p hxs]; rfl
end

theorem aBody_of_X {ok : TypeId → Nat → Bool} {s : Schema} {q : Query} {o : Options} {p : TypeId} {sels : List Sel}
    (hok : OkSpec q ok) (h : C01NX.aBody ok s q o p sels = true) : aBody ok s q o p sels = true := by
  by_cases hsp : ∃ g, sels = [Sel.spread g]
  · obtain ⟨g, rfl⟩ := hsp; exact h
  · have hnl : ∀ g, sels ≠ [Sel.spread g] := fun g hg => hsp ⟨g, hg⟩
    rw [C01NX.aBody_not_lone hnl] at h
    rw [aBody_not_lone hnl]
    exact aSels_of_X s q o hok sels p h

/-- **`NestedGen2Op ⊆ NestedBOp`** -/
theorem nestedBOp_of_nestedGen2Op (c : Ctx) (op : ROperation) (h : NestedGen2Op c op = true) : NestedBOp c op = true := by
  obtain ⟨hn, ho, hb⟩ := nestedGen2Op_parts h
  simp only [NestedBOp, Bool.and_eq_true, beq_iff_eq]
  exact ⟨⟨hn, ho⟩, aBody_of_X (fragOkN_spec c.s c.q c.o _) hb⟩

mutual
  theorem itemsA_eq_X {ok : TypeId → Nat → Bool} (c : Ctx) (hok : OkSpec c.q ok) : ∀ (x : Sel) (p : TypeId) (pfx : String),
      C01NX.aSel ok c.s c.q c.o p x = true → itemsA c pfx x = C01NX.itemsA c pfx x
    | .field a fid sub, p, pfx => by
      intro h
      have IH := itemsAs_eq_X (ok := ok) c hok sub
      obtain ⟨sf, hsf⟩ := C01NX.aSel_field_some h
      by_cases hobj : ∃ i, sf.ty.id = .object i
      · obtain ⟨i, hid⟩ := hobj
        obtain ⟨_, _, _, hb⟩ := C01NX.aSel_obj hsf hid h
        rw [itemsA, C01NX.itemsA]
        simp only [hsf, hid]
        by_cases hsp : ∃ g, sub = [Sel.spread g]
        · obtain ⟨g, rfl⟩ := hsp; rfl
        · have hnl : ∀ g, sub ≠ [Sel.spread g] := fun g hg => hsp ⟨g, hg⟩
          rw [C01NX.aBody_not_lone hnl] at hb
          have e1 := IH (.object i) (pfx ++ c.cs.camel (a.getD sf.name)) hb
          split
          · exact absurd rfl (hnl _)
          · split
            · exact absurd rfl (hnl _)
            · rw [e1]
      · have hno : ∀ i, sf.ty.id ≠ .object i := fun i h => hobj ⟨i, h⟩
        rcases C01NX.aSel_nonobj hsf hno h with hs | ⟨hs, hnew⟩
        · rw [itemsA_old c pfx a fid sub sf hsf hno hs, C01NX.itemsA_old c pfx a fid sub sf hsf hno hs]
        · rw [itemsA_new c pfx a fid sub sf hsf hno hs, C01NX.itemsA_new c pfx a fid sub sf hsf hno hs]
          exact absItemsB_eq_X (noB_of_absFieldX hok hnew) _ _
    | .spread g, _, _ => by intro _; simp [itemsA, C01NX.itemsA]
    | .inline _ _, _, _ => by intro _; simp [itemsA, C01NX.itemsA]
    | .typename, _, _ => by intro _; simp [itemsA, C01NX.itemsA]
  theorem itemsAs_eq_X {ok : TypeId → Nat → Bool} (c : Ctx) (hok : OkSpec c.q ok) : ∀ (sels : List Sel) (p : TypeId) (pfx : String),
      C01NX.aSels ok c.s c.q c.o p sels = true → itemsAs c pfx sels = C01NX.itemsAs c pfx sels
    | [], _, _ => by intro _; rfl
    | x :: xs, p, pfx => by
      intro h
      obtain ⟨hx, hxs⟩ := C01NX.aSels_cons h
      rw [itemsAs, C01NX.itemsAs, itemsA_eq_X c hok x p pfx hx, itemsAs_eq_X c hok xs p pfx hxs]
end

/-- on `NestedGen2Op` the closed form is the one of `nestedgen2_items_shape` -/
theorem bodyItemsA_eq_X (c : Ctx) (op : ROperation) (h : NestedGen2Op c op = true) (name pfx : String) :
    bodyItemsA c name pfx op.sels = C01NX.bodyItemsA c name pfx op.sels := by
  obtain ⟨_, _, hb⟩ := nestedGen2Op_parts h
  by_cases hsp : ∃ g, op.sels = [Sel.spread g]
  · obtain ⟨g, hg⟩ := hsp; rw [hg]; rfl
  · have hnl : ∀ g, op.sels ≠ [Sel.spread g] := fun g hg => hsp ⟨g, hg⟩
    rw [C01NX.aBody_not_lone hnl] at hb
    rw [bodyItemsA_not_lone c name pfx hnl, C01NX.bodyItemsA_not_lone c name pfx hnl, itemsAs_eq_X c (fragOkN_spec c.s c.q c.o _) op.sels _ pfx hb]


section Agree
variable {ok : TypeId → Nat → Bool} {s : Schema} {q : Query} {o : Options} (hok : OkSpec q ok)
include hok

/-! ## acceptance -/

mutual
  theorem looseFieldA_eq_X (whole : Nat → Bool → Json → Bool) (b : Bool) : ∀ (x : Sel) (p : TypeId) (v : Json),
      C01NX.aSel ok s q o p x = true → looseFieldA whole s q o b x v = C01NX.looseFieldA whole s q o b x v
    | .field a fid sub, p, v => by
      intro h
      have IH1 := looseOwnA_eq_X whole b sub
      have IH2 := looseArrA_eq_X whole b sub
      obtain ⟨sf, hsf⟩ := C01NX.aSel_field_some h
      by_cases hobj : ∃ i, sf.ty.id = .object i
      · obtain ⟨i, hid⟩ := hobj
        obtain ⟨_, _, _, hb⟩ := C01NX.aSel_obj hsf hid h
        rw [looseFieldA, C01NX.looseFieldA]
        simp only [hsf, hid]
        by_cases hsp : ∃ g, sub = [Sel.spread g]
        · obtain ⟨g, rfl⟩ := hsp; rfl
        · have hnl : ∀ g, sub ≠ [Sel.spread g] := fun g hg => hsp ⟨g, hg⟩
          rw [C01NX.aBody_not_lone hnl] at hb
          have e1 : ∀ kvs, looseOwnA whole s q o b sub kvs = C01NX.looseOwnA whole s q o b sub kvs :=
            fun kvs => IH1 (.object i) kvs hb
          have e2 : ∀ xs, looseArrA whole s q o b sub xs = C01NX.looseArrA whole s q o b sub xs :=
            fun xs => IH2 (.object i) xs hb
          cases s.objects[i]? with
          | none => rfl
          | some ob =>
            simp only []
            congr 1
            funext j
            cases j <;> simp only [e1, e2]
      · have hno : ∀ i, sf.ty.id ≠ .object i := fun i h => hobj ⟨i, h⟩
        rcases C01NX.aSel_nonobj hsf hno h with hs | ⟨hs, hnew⟩
        · rw [looseFieldA_old hsf hno hs, C01NX.looseFieldA_old hsf hno hs]
        · rw [looseFieldA_new hsf hno hs, C01NX.looseFieldA_new hsf hno hs, looseAbsB_eq_X (noB_of_absFieldX hok hnew)]
    | .spread g, _, _ => by intro _; simp [looseFieldA, C01NX.looseFieldA]
    | .inline _ _, _, _ => by intro _; simp [looseFieldA, C01NX.looseFieldA]
    | .typename, _, _ => by intro _; simp [looseFieldA, C01NX.looseFieldA]
  theorem looseOwnA_eq_X (whole : Nat → Bool → Json → Bool) (b : Bool) : ∀ (sels : List Sel) (p : TypeId)
      (kvs : List (String × Json)), C01NX.aSels ok s q o p sels = true →
      looseOwnA whole s q o b sels kvs = C01NX.looseOwnA whole s q o b sels kvs
    | [], _, _ => by intro _; simp [looseOwnA, C01NX.looseOwnA]
    | x :: xs, p, kvs => by
      intro h
      obtain ⟨hx, hxs⟩ := C01NX.aSels_cons h
      have ih := looseOwnA_eq_X whole b xs p kvs hxs
      cases x with
      | field a fid sub =>
        rw [looseOwnA.eq_2, C01NX.looseOwnA.eq_2, ih]
        cases hsf : s.fields[fid]? with
        | none => rfl
        | some sf =>
          simp only []
          cases Json.lookup (a.getD sf.name) kvs with
          | none => rfl
          | some v => simp only [looseFieldA_eq_X whole b (.field a fid sub) p v hx]
      | spread g => simpa [looseOwnA, C01NX.looseOwnA] using ih
      | inline t sub => simpa [looseOwnA, C01NX.looseOwnA] using ih
      | typename => simpa [looseOwnA, C01NX.looseOwnA] using ih
  theorem looseArrA_eq_X (whole : Nat → Bool → Json → Bool) (b : Bool) : ∀ (sels : List Sel) (p : TypeId)
      (vs : List Json), C01NX.aSels ok s q o p sels = true →
      looseArrA whole s q o b sels vs = C01NX.looseArrA whole s q o b sels vs
    | [], _, _ => by intro _; simp [looseArrA, C01NX.looseArrA]
    | x :: xs, p, vs => by
      intro h
      obtain ⟨hx, hxs⟩ := C01NX.aSels_cons h
      cases x with
      | field a fid sub =>
        cases vs with
        | nil => simp [looseArrA, C01NX.looseArrA]
        | cons v vs' =>
          rw [looseArrA.eq_3, C01NX.looseArrA.eq_3, looseFieldA_eq_X whole b (.field a fid sub) p v hx,
            looseArrA_eq_X whole b xs p vs' hxs]
      | spread g => simpa [looseArrA, C01NX.looseArrA] using looseArrA_eq_X whole b xs p vs hxs
      | inline t sub => simpa [looseArrA, C01NX.looseArrA] using looseArrA_eq_X whole b xs p vs hxs
      | typename => simpa [looseArrA, C01NX.looseArrA] using looseArrA_eq_X whole b xs p vs hxs
end

/-- **on `NestedAbsOp` the exact acceptance predicate is the one of `nestedabs_precise_iff`** -/
theorem conformsLooseA_eq_X (whole : Nat → Bool → Json → Bool) (b : Bool) (p : TypeId) (sels : List Sel) (j : Json)
    (h : C01NX.aBody ok s q o p sels = true) :
    conformsLooseA whole s q o b sels j = C01NX.conformsLooseA whole s q o b sels j := by
  by_cases hsp : ∃ g, sels = [Sel.spread g]
  · obtain ⟨g, rfl⟩ := hsp; rfl
  · have hnl : ∀ g, sels ≠ [Sel.spread g] := fun g hg => hsp ⟨g, hg⟩
    rw [C01NX.aBody_not_lone hnl] at h
    rw [conformsLooseA_not_lone hnl, C01NX.conformsLooseA_not_lone hnl]
    cases j <;> simp only [looseOwnA_eq_X hok whole b sels p _ h, looseArrA_eq_X hok whole b sels p _ h]

/-! ## canonical form -/

mutual
  theorem canonFieldA_eq_X (cent : Nat → List (String × Json) → List (String × Json)) : ∀ (x : Sel) (p : TypeId) (v : Json),
      C01NX.aSel ok s q o p x = true → canonFieldA cent s q o x v = C01NX.canonFieldA cent s q o x v
    | .field a fid sub, p, v => by
      intro h
      have IH := canonEntriesA_eq_X cent sub
      obtain ⟨sf, hsf⟩ := C01NX.aSel_field_some h
      by_cases hobj : ∃ i, sf.ty.id = .object i
      · obtain ⟨i, hid⟩ := hobj
        obtain ⟨_, _, _, hb⟩ := C01NX.aSel_obj hsf hid h
        rw [canonFieldA, C01NX.canonFieldA]
        simp only [hsf, hid]
        by_cases hsp : ∃ g, sub = [Sel.spread g]
        · obtain ⟨g, rfl⟩ := hsp; rfl
        · have hnl : ∀ g, sub ≠ [Sel.spread g] := fun g hg => hsp ⟨g, hg⟩
          rw [C01NX.aBody_not_lone hnl] at hb
          have e1 : ∀ kvs, canonEntriesA cent s q o sub kvs = C01NX.canonEntriesA cent s q o sub kvs :=
            fun kvs => IH (.object i) kvs hb
          rw [canonLambdaA, C01NX.canonLambdaA]
          congr 1
          funext j
          rw [canonSelA_not_lone hnl, C01NX.canonSelA_not_lone hnl]
          cases j <;> simp only [e1]
      · have hno : ∀ i, sf.ty.id ≠ .object i := fun i h => hobj ⟨i, h⟩
        rcases C01NX.aSel_nonobj hsf hno h with hs | ⟨hs, hnew⟩
        · rw [canonFieldA_old hsf hno hs, C01NX.canonFieldA_old hsf hno hs]
        · rw [canonFieldA_new hsf hno hs, C01NX.canonFieldA_new hsf hno hs,
            canonAbsB_eq_X (noB_of_absFieldX hok hnew) (absSubX_parts (absFieldX_parts hnew).2.2.2).leaf]
    | .spread g, _, _ => by intro _; simp [canonFieldA, C01NX.canonFieldA]
    | .inline _ _, _, _ => by intro _; simp [canonFieldA, C01NX.canonFieldA]
    | .typename, _, _ => by intro _; simp [canonFieldA, C01NX.canonFieldA]
  theorem canonEntriesA_eq_X (cent : Nat → List (String × Json) → List (String × Json)) : ∀ (sels : List Sel) (p : TypeId)
      (kvs : List (String × Json)), C01NX.aSels ok s q o p sels = true →
      canonEntriesA cent s q o sels kvs = C01NX.canonEntriesA cent s q o sels kvs
    | [], _, _ => by intro _; simp [canonEntriesA, C01NX.canonEntriesA]
    | x :: xs, p, kvs => by
      intro h
      obtain ⟨hx, hxs⟩ := C01NX.aSels_cons h
      have ih := canonEntriesA_eq_X cent xs p kvs hxs
      cases x with
      | field a fid sub =>
        rw [canonEntriesA.eq_2, C01NX.canonEntriesA.eq_2, ih]
        cases hsf : s.fields[fid]? with
        | none => rfl
        | some sf =>
          simp only []
          cases Json.lookup (a.getD sf.name) kvs with
          | none => rfl
          | some v => simp only [canonFieldA_eq_X cent (.field a fid sub) p v hx]
      | spread g => rw [canonEntriesA.eq_3, C01NX.canonEntriesA.eq_3, ih]
      | inline t sub => simpa [canonEntriesA, C01NX.canonEntriesA] using ih
      | typename => simpa [canonEntriesA, C01NX.canonEntriesA] using ih
end

/-- **on `NestedAbsOp` the canonical form is the one of `nestedabs_roundtrip`** -/
theorem canonSelA_eq_X (cent : Nat → List (String × Json) → List (String × Json)) (p : TypeId) (sels : List Sel) (j : Json)
    (h : C01NX.aBody ok s q o p sels = true) :
    canonSelA cent s q o sels j = C01NX.canonSelA cent s q o sels j := by
  by_cases hsp : ∃ g, sels = [Sel.spread g]
  · obtain ⟨g, rfl⟩ := hsp; rfl
  · have hnl : ∀ g, sels ≠ [Sel.spread g] := fun g hg => hsp ⟨g, hg⟩
    rw [C01NX.aBody_not_lone hnl] at h
    rw [canonSelA_not_lone hnl, C01NX.canonSelA_not_lone hnl]
    cases j <;> simp only [canonEntriesA_eq_X hok cent sels p _ h]


/-! ## side conditions -/

mutual
  /-- the spread fragments are the same list -/
  theorem aSpreads_eq_X : ∀ (x : Sel) (p : TypeId), C01NX.aSel ok s q o p x = true →
      aSpreads s q o x = C01NX.aSpreads s q o x
    | .field a fid sub, p => by
      intro h
      have IH := aSpreadss_eq_X sub
      obtain ⟨sf, hsf⟩ := C01NX.aSel_field_some h
      rw [aSpreads, C01NX.aSpreads]
      simp only [hsf]
      by_cases hobj : ∃ i, sf.ty.id = .object i
      · obtain ⟨i, hid⟩ := hobj
        obtain ⟨_, _, _, hb⟩ := C01NX.aSel_obj hsf hid h
        simp only [hid]
        by_cases hsp : ∃ g, sub = [Sel.spread g]
        · obtain ⟨g, rfl⟩ := hsp
          simp [aSpreadss, aSpreads, C01NX.aSpreadss, C01NX.aSpreads]
        · have hnl : ∀ g, sub ≠ [Sel.spread g] := fun g hg => hsp ⟨g, hg⟩
          rw [C01NX.aBody_not_lone hnl] at hb
          exact IH _ hb
      · have hno : ∀ i, sf.ty.id ≠ .object i := fun i h => hobj ⟨i, h⟩
        rcases C01NX.aSel_nonobj hsf hno h with hs | ⟨hs, hnew⟩
        · cases hid : sf.ty.id with
          | object i => exact absurd hid (hno i)
          | scalar k => simp [hs]
          | «enum» k => simp [hs]
          | interface k => simp [hs]
          | union k => simp [hs]
          | input k => simp [hs]
        · have hu := unB_eq_self (noB_of_absFieldX hok hnew)
          cases hid : sf.ty.id with
          | object i => exact absurd hid (hno i)
          | scalar k => rw [hid] at hu; simp [hs, hu]
          | «enum» k => rw [hid] at hu; simp [hs, hu]
          | interface k => rw [hid] at hu; simp [hs, hu]
          | union k => rw [hid] at hu; simp [hs, hu]
          | input k => rw [hid] at hu; simp [hs, hu]
    | .spread g, _ => by intro _; simp [aSpreads, C01NX.aSpreads]
    | .inline _ _, _ => by intro _; simp [aSpreads, C01NX.aSpreads]
    | .typename, _ => by intro _; simp [aSpreads, C01NX.aSpreads]
  theorem aSpreadss_eq_X : ∀ (sels : List Sel) (p : TypeId), C01NX.aSels ok s q o p sels = true →
      aSpreadss s q o sels = C01NX.aSpreadss s q o sels
    | [], _ => by intro _; rfl
    | x :: xs, p => by
      intro h
      obtain ⟨hx, hxs⟩ := C01NX.aSels_cons h
      rw [aSpreadss, C01NX.aSpreadss, aSpreads_eq_X x p hx, aSpreadss_eq_X xs p hxs]
end

mutual
  /-- the fragments selected at abstract positions, with the keys consumed there, are the same list -/
  theorem aPays_eq_X : ∀ (x : Sel) (p : TypeId), C01NX.aSel ok s q o p x = true →
      aPays s q o x = C01NX.aPays s q o x
    | .field a fid sub, p => by
      intro h
      have IH := aPayss_eq_X sub
      obtain ⟨sf, hsf⟩ := C01NX.aSel_field_some h
      rw [aPays, C01NX.aPays]
      simp only [hsf]
      by_cases hobj : ∃ i, sf.ty.id = .object i
      · obtain ⟨i, hid⟩ := hobj
        obtain ⟨_, _, _, hb⟩ := C01NX.aSel_obj hsf hid h
        simp only [hid]
        by_cases hsp : ∃ g, sub = [Sel.spread g]
        · obtain ⟨g, rfl⟩ := hsp
          simp [aPayss, aPays, C01NX.aPayss, C01NX.aPays]
        · have hnl : ∀ g, sub ≠ [Sel.spread g] := fun g hg => hsp ⟨g, hg⟩
          rw [C01NX.aBody_not_lone hnl] at hb
          exact IH _ hb
      · have hno : ∀ i, sf.ty.id ≠ .object i := fun i h => hobj ⟨i, h⟩
        rcases C01NX.aSel_nonobj hsf hno h with hs | ⟨hs, hnew⟩
        · cases hid : sf.ty.id with
          | object i => exact absurd hid (hno i)
          | scalar k => simp [hs]
          | «enum» k => simp [hs]
          | interface k => simp [hs]
          | union k => simp [hs]
          | input k => simp [hs]
        · have hu := unB_eq_self (noB_of_absFieldX hok hnew)
          cases hid : sf.ty.id with
          | object i => exact absurd hid (hno i)
          | scalar k => rw [hid] at hu; simp [hs, hu]
          | «enum» k => rw [hid] at hu; simp [hs, hu]
          | interface k => rw [hid] at hu; simp [hs, hu]
          | union k => rw [hid] at hu; simp [hs, hu]
          | input k => rw [hid] at hu; simp [hs, hu]
    | .spread g, _ => by intro _; simp [aPays, C01NX.aPays]
    | .inline _ _, _ => by intro _; simp [aPays, C01NX.aPays]
    | .typename, _ => by intro _; simp [aPays, C01NX.aPays]
  theorem aPayss_eq_X : ∀ (sels : List Sel) (p : TypeId), C01NX.aSels ok s q o p sels = true →
      aPayss s q o sels = C01NX.aPayss s q o sels
    | [], _ => by intro _; rfl
    | x :: xs, p => by
      intro h
      obtain ⟨hx, hxs⟩ := C01NX.aSels_cons h
      rw [aPayss, C01NX.aPayss, aPays_eq_X x p hx, aPayss_eq_X xs p hxs]
end

end Agree

theorem rustNamesB_noB (c : Ctx) {ty : TypeId} : ∀ {sub : List Sel}, (∀ x ∈ sub, isBSpread c.q ty x = false) →
    rustNamesB c ty sub = rustNames c (C01NG.ownSels sub)
  | [], _ => rfl
  | x :: xs, hnb => by
    have ih := rustNamesB_noB c (ty := ty) (fun y hy => hnb y (List.mem_cons_of_mem _ hy))
    unfold rustNamesB rustNames at ih ⊢
    rw [List.filterMap_cons]
    cases x with
    | field a fid sub' =>
      rw [C01NG.ownSels_cons_field, List.filterMap_cons, ih]; rfl
    | spread g =>
      have := hnb _ (List.mem_cons_self)
      rw [C01NG.ownSels_cons_other rfl, ih]
      cases hf : c.q.fragments[g]? with
      | none => simp [rustNameB, hf]
      | some f =>
        simp only [isBSpread, hf] at this
        simp [rustNameB, hf, this]
    | inline t sub' => rw [C01NG.ownSels_cons_other rfl, ih]; rfl
    | typename => rw [C01NG.ownSels_cons_other rfl, ih]; rfl

mutual
  theorem sideOkSelA_eq_X {ok : TypeId → Nat → Bool} (KN : String → List String) (c : Ctx) (hok : OkSpec c.q ok) :
      ∀ (x : Sel) (p : TypeId),
      C01NX.aSel ok c.s c.q c.o p x = true → sideOkSelA KN c x = C01NX.sideOkSelA KN c x
    | .field a fid sub, p => by
      intro h
      have IH := sideOkSelsA_eq_X (ok := ok) KN c hok sub
      obtain ⟨sf, hsf⟩ := C01NX.aSel_field_some h
      unfold sideOkSelA C01NX.sideOkSelA
      simp only [hsf, Option.map_some]
      by_cases hobj : ∃ i, sf.ty.id = .object i
      · obtain ⟨i, hid⟩ := hobj
        obtain ⟨_, _, _, hb⟩ := C01NX.aSel_obj hsf hid h
        simp only [hid]
        by_cases hsp : ∃ g, sub = [Sel.spread g]
        · obtain ⟨g, rfl⟩ := hsp; rfl
        · have hnl : ∀ g, sub ≠ [Sel.spread g] := fun g hg => hsp ⟨g, hg⟩
          rw [C01NX.aBody_not_lone hnl] at hb
          have e1 := IH _ hb
          split
          · exact absurd rfl (hnl _)
          · split
            · exact absurd rfl (hnl _)
            · rw [e1]
      · have hno : ∀ i, sf.ty.id ≠ .object i := fun i h => hobj ⟨i, h⟩
        rcases C01NX.aSel_nonobj hsf hno h with hs | ⟨hs, hnew⟩
        · cases hid : sf.ty.id with
          | object i => exact absurd hid (hno i)
          | scalar k => simp [hs]
          | «enum» k => simp [hs]
          | interface k => simp [hs]
          | union k => simp [hs]
          | input k => simp [hs]
        · have hnb := noB_of_absFieldX hok hnew
          have hu := unB_eq_self hnb
          have hbn := bSels_eq_nil hnb
          have hrn := rustNamesB_noB c hnb
          cases hid : sf.ty.id with
          | object i => exact absurd hid (hno i)
          | scalar k => rw [hid] at hu hbn hrn; simp [hs, hu, hbn, hrn, bDisjOk]
          | «enum» k => rw [hid] at hu hbn hrn; simp [hs, hu, hbn, hrn, bDisjOk]
          | interface k => rw [hid] at hu hbn hrn; simp [hs, hu, hbn, hrn, bDisjOk]
          | union k => rw [hid] at hu hbn hrn; simp [hs, hu, hbn, hrn, bDisjOk]
          | input k => rw [hid] at hu hbn hrn; simp [hs, hu, hbn, hrn, bDisjOk]
    | .spread g, _ => by intro _; simp [sideOkSelA, C01NX.sideOkSelA]
    | .inline _ _, _ => by intro _; simp [sideOkSelA, C01NX.sideOkSelA]
    | .typename, _ => by intro _; simp [sideOkSelA, C01NX.sideOkSelA]
  theorem sideOkSelsA_eq_X {ok : TypeId → Nat → Bool} (KN : String → List String) (c : Ctx) (hok : OkSpec c.q ok) :
      ∀ (sels : List Sel)
      (p : TypeId), C01NX.aSels ok c.s c.q c.o p sels = true → sideOkSelsA KN c sels = C01NX.sideOkSelsA KN c sels
    | [], _ => by intro _; rfl
    | x :: xs, p => by
      intro h
      obtain ⟨hx, hxs⟩ := C01NX.aSels_cons h
      rw [sideOkSelsA, C01NX.sideOkSelsA, sideOkSelA_eq_X KN c hok x p hx, sideOkSelsA_eq_X KN c hok xs p hxs]
end

mutual
  theorem keysOkA_eq_X {ok : TypeId → Nat → Bool} (KN : String → List String) (c : Ctx) (hok : OkSpec c.q ok) :
      ∀ (x : Sel) (p : TypeId),
      C01NX.aSel ok c.s c.q c.o p x = true → keysOkA KN c x = C01NX.keysOkA KN c x
    | .field a fid sub, p => by
      intro h
      have IH := keysOksA_eq_X (ok := ok) KN c hok sub
      obtain ⟨sf, hsf⟩ := C01NX.aSel_field_some h
      rw [keysOkA, C01NX.keysOkA]
      simp only [hsf, Option.map_some]
      by_cases hobj : ∃ i, sf.ty.id = .object i
      · obtain ⟨i, hid⟩ := hobj
        obtain ⟨_, _, _, hb⟩ := C01NX.aSel_obj hsf hid h
        simp only [hid]
        by_cases hsp : ∃ g, sub = [Sel.spread g]
        · obtain ⟨g, rfl⟩ := hsp
          simp [keysOksA, keysOkA, C01NX.keysOksA, C01NX.keysOkA]
        · have hnl : ∀ g, sub ≠ [Sel.spread g] := fun g hg => hsp ⟨g, hg⟩
          rw [C01NX.aBody_not_lone hnl] at hb
          rw [IH _ hb]
      · have hno : ∀ i, sf.ty.id ≠ .object i := fun i h => hobj ⟨i, h⟩
        rcases C01NX.aSel_nonobj hsf hno h with hs | ⟨hs, hnew⟩
        · cases hid : sf.ty.id with
          | object i => exact absurd hid (hno i)
          | scalar k => simp [hs]
          | «enum» k => simp [hs]
          | interface k => simp [hs]
          | union k => simp [hs]
          | input k => simp [hs]
        · have hu := unB_eq_self (noB_of_absFieldX hok hnew)
          cases hid : sf.ty.id with
          | object i => exact absurd hid (hno i)
          | scalar k => rw [hid] at hu; simp [hs, hu]
          | «enum» k => rw [hid] at hu; simp [hs, hu]
          | interface k => rw [hid] at hu; simp [hs, hu]
          | union k => rw [hid] at hu; simp [hs, hu]
          | input k => rw [hid] at hu; simp [hs, hu]
    | .spread g, _ => by intro _; simp [keysOkA, C01NX.keysOkA]
    | .inline _ _, _ => by intro _; simp [keysOkA, C01NX.keysOkA]
    | .typename, _ => by intro _; simp [keysOkA, C01NX.keysOkA]
  theorem keysOksA_eq_X {ok : TypeId → Nat → Bool} (KN : String → List String) (c : Ctx) (hok : OkSpec c.q ok) :
      ∀ (sels : List Sel)
      (p : TypeId), C01NX.aSels ok c.s c.q c.o p sels = true → keysOksA KN c sels = C01NX.keysOksA KN c sels
    | [], _ => by intro _; rfl
    | x :: xs, p => by
      intro h
      obtain ⟨hx, hxs⟩ := C01NX.aSels_cons h
      rw [keysOksA, C01NX.keysOksA, keysOkA_eq_X KN c hok x p hx, keysOksA_eq_X KN c hok xs p hxs]
end

/-- a lone spread or not: the side conditions of a body of `NestedGen2Op` -/
theorem body_agree_X {c : Ctx} {op : ROperation} (h : NestedGen2Op c op = true) :
    (∀ KN, sideOkSelsA KN c op.sels = C01NX.sideOkSelsA KN c op.sels) ∧
      (∀ KN, keysOksA KN c op.sels = C01NX.keysOksA KN c op.sels) ∧
      aSpreadss c.s c.q c.o op.sels = C01NX.aSpreadss c.s c.q c.o op.sels ∧
      aPayss c.s c.q c.o op.sels = C01NX.aPayss c.s c.q c.o op.sels := by
  obtain ⟨_, _, hb⟩ := C01NX.nestedGen2Op_parts h
  have hok := fragOkN_spec c.s c.q c.o c.q.fragments.length
  by_cases hsp : ∃ g, op.sels = [Sel.spread g]
  · obtain ⟨g, hg⟩ := hsp
    rw [hg]
    refine ⟨fun KN => ?_, fun KN => ?_, ?_, ?_⟩
    · simp [sideOkSelsA, sideOkSelA, C01NX.sideOkSelsA, C01NX.sideOkSelA]
    · simp [keysOksA, keysOkA, C01NX.keysOksA, C01NX.keysOkA]
    · simp [aSpreadss, aSpreads, C01NX.aSpreadss, C01NX.aSpreads]
    · simp [aPayss, aPays, C01NX.aPayss, C01NX.aPays]
  · have hnl : ∀ g, op.sels ≠ [Sel.spread g] := fun g hg => hsp ⟨g, hg⟩
    rw [C01NX.aBody_not_lone hnl] at hb
    exact ⟨fun KN => sideOkSelsA_eq_X KN c hok _ _ hb, fun KN => keysOksA_eq_X KN c hok _ _ hb,
      aSpreadss_eq_X hok _ _ hb, aPayss_eq_X hok _ _ hb⟩

theorem nestedBKeysOk_eq_X (c : Ctx) (op : ROperation) (h : NestedGen2Op c op = true) :
    nestedBKeysOk c op = nestedGen2KeysOk c op := by
  unfold nestedBKeysOk nestedGen2KeysOk
  rw [(body_agree_X h).2.2.1, (body_agree_X h).2.1]

theorem nestedBSideOk_eq_X (c : Ctx) (op : ROperation) (h : NestedGen2Op c op = true) :
    nestedBSideOk c op = nestedGen2SideOk c op := by
  unfold nestedBSideOk nestedGen2SideOk
  rw [(body_agree_X h).2.2.1, (body_agree_X h).1]

theorem absTagOk_eq_X (c : Ctx) (op : ROperation) (h : NestedGen2Op c op = true) :
    absTagOk c op = C01NX.absTagOk c op := by
  unfold absTagOk C01NX.absTagOk
  rw [(body_agree_X h).2.2.2]

/-- **on `NestedGen2Op`, `nestedb_roundtrip` is `nestedgen2_roundtrip`**: same hypotheses, same specification, same
    canonical form -/
theorem nestedb_roundtrip_on_nestedGen2Op (c : Ctx) (opIdx : Nat) (op : ROperation) (items : List Item)
    (hop : c.q.operations[opIdx]? = some op) (ht : NestedGen2Op c op = true) (hnd : fragNamesOk c = true)
    (hk : nestedGen2KeysOk c op = true) (htag : C01NX.absTagOk c op = true) (hr : nestedGen2SideOk c op = true)
    (hgen : responseForQuery c opIdx = .ok items) (hok : moduleOk c items = true)
    (j : Json) (hc : conformsOpN c op j = true) :
    Serde.roundtrip (moduleEnv c items) (.path "ResponseData") j =
      .ok (normJson (C01NX.canonSelA (centN c c.q.fragments.length) c.s c.q c.o op.sels j)) := by
  have h := nestedb_roundtrip c opIdx op items hop (nestedBOp_of_nestedGen2Op c op ht) hnd
    (by rw [nestedBKeysOk_eq_X c op ht]; exact hk) (by rw [absTagOk_eq_X c op ht]; exact htag)
    (by rw [nestedBSideOk_eq_X c op ht]; exact hr) hgen hok j hc
  rw [h, canonSelA_eq_X (fragOkN_spec c.s c.q c.o _) _ _ _ _ (C01NX.nestedGen2Op_parts ht).2.2]

/-- … and `nestedb_precise_iff` is `nestedgen2_precise_iff` there -/
theorem conformsLooseA_eq_X_op (c : Ctx) (op : ROperation) (ht : NestedGen2Op c op = true)
    (whole : Nat → Bool → Json → Bool) (b : Bool) (j : Json) :
    conformsLooseA whole c.s c.q c.o b op.sels j = C01NX.conformsLooseA whole c.s c.q c.o b op.sels j :=
  conformsLooseA_eq_X (fragOkN_spec c.s c.q c.o _) whole b _ _ j (C01NX.nestedGen2Op_parts ht).2.2

end C01NB
end GqlVerif
