import GqlVerif.Proofs.C04RustCoercion
import GqlVerif.Proofs.C04RustExamples
/-!
# C04 — list input coercion: the witness and a worked instance

* `validCB` / `varsValidCB` — an executable (sound) checker for the coercing validity `ValidC`, used for the examples.
* the instance: the schema of `C04RustExamples.lean` (`page_input`, `sort_order`, `date_time`) with
  `query Q($ids: [Int], $grid: [[Int!]], $page: page_input) { x }`, generated under `none` (`cxC₀ = noNorm cxC₁`) and
  under `rust` (`cxC₁`); all hypotheses evaluated (`cx_hyps`, `cx_side`).
* **`coerced_not_expressible`**: `{"ids": 7}` — valid with coercion, not valid without, not written by any `Variables`
  value, rejected by `from_value`; `coerceVars` of it is `{"ids": [7]}`, which is expressible and read back.
* `cx_expressible`, `cx_expressible_rust`: `valid_mod_coercion_expressible` (and its `rust` form) on an assignment with a
  bare value at a variable, inside a nested list and inside an input object.
-/
namespace GqlVerif
namespace C04R
open Serde Codegen C09 C09N C04S C13
open C01.E2E (noNorm)

/-! ## an executable checker for `ValidC` (sound) -/

def validCB (L : Leaves) (s : Schema) : Nat → TypeId → Bool → GTy → Json → Bool
  | 0, _, _, _, _ => false
  | f + 1, id, b, t, j =>
    match t with
    | .nonNull t' => validCB L s f id true t' j
    | .list t' =>
      (!b && j.isNull) || (match j with
        | .arr xs => xs.all (validCB L s f id false t')
        | .null => false
        | j' => validCB L s f id false t' j')
    | .named _ => (!b && j.isNull) || namedB L s (validCB L s f) id j

theorem validCB_sound (L : Leaves) (s : Schema) : ∀ (f : Nat) (id : TypeId) (b : Bool) (t : GTy) (j : Json),
    validCB L s f id b t j = true → ValidC L s id b t j := by
  intro f
  induction f with
  | zero => intro id b t j h; simp [validCB] at h
  | succ f ih =>
    intro id b t j h
    unfold validCB at h
    cases t with
    | nonNull t' => exact .bang (ih id true t' j h)
    | list t' =>
      simp only [Bool.or_eq_true, Bool.and_eq_true, Bool.not_eq_true'] at h
      have hlist : ValidC L s id true (.list t') j → ValidC L s id b (.list t') j := by
        intro hv
        cases b
        · exact .some rfl hv
        · exact hv
      rcases h with ⟨hb, hn⟩ | h
      · subst hb; rw [C01.isNull_eq j hn]; exact .null rfl
      · cases j with
        | arr xs =>
          simp only at h
          exact hlist (.list (fun x hx => ih id false t' x (List.all_eq_true.mp h x hx)))
        | null => simp at h
        | bool v => exact hlist (.wrap (by simp) (by simp) (ih _ _ _ _ h))
        | int v => exact hlist (.wrap (by simp) (by simp) (ih _ _ _ _ h))
        | num v => exact hlist (.wrap (by simp) (by simp) (ih _ _ _ _ h))
        | str v => exact hlist (.wrap (by simp) (by simp) (ih _ _ _ _ h))
        | obj v => exact hlist (.wrap (by simp) (by simp) (ih _ _ _ _ h))
    | named nm =>
      simp only [Bool.or_eq_true, Bool.and_eq_true, Bool.not_eq_true'] at h
      have hnamed : namedB L s (validCB L s f) id j = true → ValidC L s id true (.named nm) j := by
        intro hn
        unfold namedB at hn
        cases id with
        | scalar k =>
          simp only at hn
          cases hk : s.scalars[k]? with
          | none => simp [hk] at hn
          | some n => simp only [hk] at hn; exact .scalar hk hn
        | «enum» k =>
          simp only at hn
          cases hk : s.enums[k]? with
          | none => simp [hk] at hn
          | some en =>
            cases j <;> simp only [hk, Bool.false_eq_true] at hn
            simp only [Bool.or_eq_true, List.contains_iff_mem] at hn
            exact .enum hk hn
        | input k =>
          simp only at hn
          cases hk : s.inputs[k]? with
          | none => simp [hk] at hn
          | some i =>
            cases j <;> simp only [hk, Bool.false_eq_true] at hn
            rename_i kvs
            cases hone : i.isOneOf
            · simp only [hone, Bool.false_eq_true, ↓reduceIte, Bool.and_eq_true, List.all_eq_true,
                List.contains_iff_mem] at hn
              obtain ⟨⟨h1, h2⟩, h3⟩ := hn
              refine .object hk hone (C01.nodup_iff'.mp h1) h2 ?_ ?_
              · intro p hp hl
                have := h3 p hp
                simp only [hl, Bool.not_eq_true'] at this
                exact this
              · intro p hp v hl
                have := h3 p hp
                simp only [hl] at this
                exact ih _ _ _ _ this
            · simp only [hone, ↓reduceIte] at hn
              match kvs, hn with
              | [(key, v)], hn =>
                simp only at hn
                cases hf : i.fields.find? (·.1 == key) with
                | none => simp [hf] at hn
                | some p =>
                  simp only [hf] at hn
                  have hpk : p.1 = key := by simpa using List.find?_some hf
                  subst hpk
                  exact .oneOf hk hone (List.mem_of_find?_eq_some hf) (ih _ _ _ _ hn)
        | object k => simp at hn
        | interface k => simp at hn
        | union k => simp at hn
      rcases h with ⟨hb, hn⟩ | h
      · subst hb; rw [C01.isNull_eq j hn]; exact .null rfl
      · cases b
        · exact .some rfl (hnamed h)
        · exact hnamed h

def varsValidCB (L : Leaves) (c : Ctx) (op : Nat) (fuel : Nat) (kvs : List (String × Json)) : Bool :=
  EnumSpec.nodup (keys kvs) && (keys kvs).all (fun key => ((varFields c op).map (·.1)).contains key) &&
  (varFields c op).all (fun p => match Json.lookup p.1 kvs with
    | none => !isNN (gty p.2)
    | some v => validCB L c.s fuel p.2.id false (gty p.2) v)

theorem varsValidCB_sound (L : Leaves) (c : Ctx) (op : Nat) (fuel : Nat) (kvs : List (String × Json))
    (h : varsValidCB L c op fuel kvs = true) : VarsValidC L c op kvs := by
  simp only [varsValidCB, Bool.and_eq_true, List.all_eq_true, List.contains_iff_mem] at h
  obtain ⟨⟨h1, h2⟩, h3⟩ := h
  refine ⟨C01.nodup_iff'.mp h1, h2, ?_, ?_⟩
  · intro p hp hl
    have := h3 p hp
    simp only [hl, Bool.not_eq_true'] at this
    exact this
  · intro p hp v hl
    have := h3 p hp
    simp only [hl] at this
    exact validCB_sound L c.s _ _ _ _ _ this

/-! ## the instance -/

/-- `query Q($ids: [Int], $grid: [[Int!]], $page: page_input) { x }` -/
def cxQuery : Query :=
  { operations := [{ name := "Q", kind := .query, objectId := 0, sels := [.field none 0 []] }],
    variables := [{ opIdx := 0, name := "ids", default := none, ty := { id := .scalar 2, quals := [.list] } },
                  { opIdx := 0, name := "grid", default := none,
                    ty := { id := .scalar 2, quals := [.list, .list, .required] } },
                  { opIdx := 0, name := "page", default := none, ty := { id := .input 0, quals := [] } }] }

/-- `normalization = rust`; `cxC₀` is the same context with `normalization = none` -/
def cxC₁ : Ctx := { s := rxSchema, q := cxQuery, o := { normalization := .rust }, cs := { snake := id, camel := tblCamel rxTbl } }
def cxC₀ : Ctx := noNorm cxC₁

def cxItems₀ : List Item := itemsOf cxC₀
def cxItems₁ : List Item := itemsOf cxC₁

set_option maxRecDepth 100000 in
theorem cx_gen₀ : responseForQuery cxC₀ 0 = .ok cxItems₀ := itemsOf_ok (by decide +kernel)

set_option maxRecDepth 100000 in
theorem cx_side : RustSideV cxC₀ cxC₁ 0 cxItems₀ cxItems₁ :=
  RustSideV.of_noNorm (by decide +kernel) cx_gen₀ (itemsOf_ok (by decide +kernel))
    (by decide +kernel) (by decide +kernel) (by decide +kernel)

set_option maxRecDepth 100000 in
/-- the hypotheses of the `none` theorems hold of `cxC₀` and its module -/
theorem cx_hyps :
    cxC₀.o.normalization = .none ∧
    (∀ i ∈ cxC₀.s.inputs, keywordReplace i.name = i.name) ∧
    (∀ n ∈ cxC₀.s.scalars, keywordReplace n = n) ∧
    (∀ e ∈ cxC₀.s.enums, keywordReplace e.name = e.name) ∧
    C02.OutputOnly cxC₀.s cxC₀.q = true ∧ C02.InputFieldsRelevant cxC₀.s = true ∧
    (∀ v ∈ cxC₀.q.opVariables 0, C02.Relevant v.ty.id) ∧
    (Scope.defines cxItems₀).Nodup ∧ (∀ it ∈ cxItems₀, (C02.memberIdents it).Nodup) ∧
    (∀ it ∈ cxItems₀, C01.notPrim it.name) ∧ ExternsFree cxC₀ cxItems₀ ∧ cxC₀.q.opVariables 0 ≠ [] := by
  refine ⟨rfl, rx_hyps.1, rx_hyps.2.1, rx_hyps.2.2.1,
    (by decide : C02.OutputOnly rxSchema cxQuery = true), (by decide : C02.InputFieldsRelevant rxSchema = true),
    ?_, ?_, ?_, ?_, ?_, by decide⟩
  · intro v hv
    have : v.ty.id = .scalar 2 ∨ v.ty.id = .input 0 := by
      simp only [cxC₀, noNorm, cxC₁, cxQuery, Query.opVariables, List.filter_cons, List.filter_nil] at hv
      simp at hv
      rcases hv with rfl | rfl | rfl <;> simp
    rcases this with h | h <;> rw [h] <;> trivial
  · decide +kernel
  · decide +kernel
  · decide +kernel
  · unfold ExternsFree
    decide +kernel

/-! ## the witness -/

/-- the declared variable `$ids: [Int]` -/
def cxIds : String × FieldType := ("ids", { id := .scalar 2, quals := [.list] })

theorem cxIds_mem : cxIds ∈ varFields cxC₀ 0 := by decide

set_option maxRecDepth 100000 in
/-- **`coerced_not_expressible`**.  For `query Q($ids: [Int], …)`, the coerced spelling `{"ids": 7}`
    1. is a valid assignment by the specification **with** list input coercion,
    2. is not valid without it,
    3. is not what `to_value` writes for any value of the generated `Variables` type (`ser_list_is_list`: a `Vec` is
       always written as an array),
    4. is rejected by `from_value` at `Variables`;
    5. `coerceVars` of it is the canonical spelling `{"ids": [7]}`,
    6. which is the serialization (explicit `null`s for the other two variables) of a `Variables` value, and is read
       back as that value. -/
theorem coerced_not_expressible :
    VarsValidC Leaves.graphql cxC₀ 0 [("ids", .int 7)] ∧
    ¬ VarsValid Leaves.graphql cxC₀ 0 [("ids", .int 7)] ∧
    (¬ ∃ x, HasTy (moduleEnv cxC₀ cxItems₀) (.path "Variables") x ∧
      Serde.ser (moduleEnv cxC₀ cxItems₀) (.path "Variables") x = .ok (.obj [("ids", .int 7)])) ∧
    (match Serde.de (moduleEnv cxC₀ cxItems₀) (.path "Variables") (.obj [("ids", .int 7)]) with
     | .ok _ => false
     | .error _ => true) = true ∧
    coerceVars cxC₀ 0 [("ids", .int 7)] = [("ids", .arr [.int 7])] ∧
    ∃ x, HasTy (moduleEnv cxC₀ cxItems₀) (.path "Variables") x ∧
      Serde.ser (moduleEnv cxC₀ cxItems₀) (.path "Variables") x =
        .ok (.obj [("ids", .arr [.int 7]), ("grid", .null), ("page", .null)]) ∧
      Serde.de (moduleEnv cxC₀ cxItems₀) (.path "Variables") (.obj [("ids", .arr [.int 7])]) = .ok x := by
  obtain ⟨h1, h2, h3, h4, h5, h6, h7, h8, h9, h10, h11, h12⟩ := cx_hyps
  have hC : VarsValidC Leaves.graphql cxC₀ 0 [("ids", .int 7)] := varsValidCB_sound _ _ _ 20 _ (by decide +kernel)
  have hco : coerceVars cxC₀ 0 [("ids", .int 7)] = [("ids", .arr [.int 7])] := by
    simp [coerceVars, coerceKvs, varFields, cxC₀, noNorm, cxC₁, cxQuery, Query.opVariables, coerce, wrapTy, gty, ofQuals]
  refine ⟨hC, ?_, ?_, by decide +kernel, hco, ?_⟩
  · intro hv
    rcases valid_list_shape (hv.valid cxIds cxIds_mem (.int 7) rfl) rfl with h0 | ⟨xs, h0⟩ <;> cases h0
  · exact bare_value_not_expressible cxC₀ 0 cxItems₀ h1 h2 h3 h4 h5 h6 h7 h8 h9 h10 h11 cx_gen₀ h12 _ cxIds cxIds_mem rfl
      (.int 7) rfl (by simp) (by simp)
  · obtain ⟨x, hx, hs, hd⟩ := valid_mod_coercion_expressible Leaves.graphqlStrIds cxC₀ 0 cxItems₀ h1 h2 h3 h4 h5 h6 h7 h8
      h9 h10 h11 int32_sub_i64 cx_gen₀ h12 [("ids", .int 7)] (varsValidCB_sound _ _ _ 20 _ (by decide +kernel))
    rw [hco] at hs hd
    exact ⟨x, hx, hs, hd (fun _ => rfl)⟩

/-! ## a larger assignment -/

/-- `{"grid": [1, [2, 3]], "ids": 7, "page": {"order": "asc", "ids": "a"}}`: a bare value at a variable, inside a
    nested list, and inside an input object -/
def cxKvs : List (String × Json) :=
  [("grid", .arr [.int 1, .arr [.int 2, .int 3]]), ("ids", .int 7),
   ("page", .obj [("order", .str "asc"), ("ids", .str "a")])]

/-- its coerced spelling `{"grid": [[1], [2, 3]], "ids": [7], "page": {"order": "asc", "ids": ["a"]}}` -/
def cxCoerced : List (String × Json) :=
  [("grid", .arr [.arr [.int 1], .arr [.int 2, .int 3]]), ("ids", .arr [.int 7]),
   ("page", .obj [("order", .str "asc"), ("ids", .arr [.str "a"])])]

theorem cx_coerced : coerceVars cxC₀ 0 cxKvs = cxCoerced := by
  simp [coerceVars, coerceKvs, coerceList, varFields, cxC₀, noNorm, cxC₁, cxQuery, cxKvs, cxCoerced, Query.opVariables,
    coerce, wrapTy, gty, ofQuals, elemTy, inputOf, rxSchema]

set_option maxRecDepth 100000 in
theorem cxKvs_validC : VarsValidC Leaves.graphqlStrIds cxC₀ 0 cxKvs ∧ ¬ VarsValid Leaves.graphqlStrIds cxC₀ 0 cxKvs := by
  refine ⟨varsValidCB_sound _ _ _ 20 _ (by decide +kernel), fun hv => ?_⟩
  rcases valid_list_shape (hv.valid cxIds cxIds_mem (.int 7) rfl) rfl with h0 | ⟨xs, h0⟩ <;> cases h0

/-- what the generated types write for it: declaration order, explicit `null`s -/
def cxCanon : Json :=
  .obj [("ids", .arr [.int 7]), ("grid", .arr [.arr [.int 1], .arr [.int 2, .int 3]]),
        ("page", .obj [("first", .null), ("after", .null), ("order", .str "asc"), ("since", .null),
                       ("ids", .arr [.str "a"]), ("next", .null)])]

theorem cx_canon : canonVars cxC₀ 0 cxCoerced = cxCanon := by rfl

/-- **`valid_mod_coercion_expressible` on the instance** (`none` module) -/
theorem cx_expressible : ∃ x, HasTy (moduleEnv cxC₀ cxItems₀) (.path "Variables") x ∧
    Serde.ser (moduleEnv cxC₀ cxItems₀) (.path "Variables") x = .ok cxCanon ∧
    Serde.de (moduleEnv cxC₀ cxItems₀) (.path "Variables") (.obj cxCoerced) = .ok x := by
  obtain ⟨h1, h2, h3, h4, h5, h6, h7, h8, h9, h10, h11, h12⟩ := cx_hyps
  obtain ⟨x, hx, hs, hd⟩ := valid_mod_coercion_expressible Leaves.graphqlStrIds cxC₀ 0 cxItems₀ h1 h2 h3 h4 h5 h6 h7 h8
    h9 h10 h11 int32_sub_i64 cx_gen₀ h12 cxKvs cxKvs_validC.1
  rw [cx_coerced] at hs hd
  rw [cx_canon] at hs
  exact ⟨x, hx, hs, hd (fun _ => rfl)⟩

/-- **`valid_mod_coercion_expressible_rust` on the instance** (`rust` module: `PageInput`, `SortOrder::Asc`) -/
theorem cx_expressible_rust : ∃ x, HasTy (moduleEnvN cxC₁ cxItems₁) (.path "Variables") x ∧
    Serde.ser (moduleEnvN cxC₁ cxItems₁) (.path "Variables") x = .ok cxCanon ∧
    Serde.de (moduleEnvN cxC₁ cxItems₁) (.path "Variables") (.obj cxCoerced) = .ok x := by
  obtain ⟨h1, h2, h3, h4, h5, h6, h7, h8, h9, h10, h11, h12⟩ := cx_hyps
  obtain ⟨x, hx, hs, hd⟩ := valid_mod_coercion_expressible_rust Leaves.graphqlStrIds cx_side h1 h2 h3 h4 h5 h6 h7 h8
    h9 h10 h11 int32_sub_i64 h12 cxKvs cxKvs_validC.1
  rw [cx_coerced] at hs hd
  rw [cx_canon] at hs
  exact ⟨x, hx, hs, hd (fun _ => rfl)⟩

set_option maxRecDepth 100000 in
/-- the model's own `from_value` / `to_value` agree, in both modules: the bare spelling is rejected, the coerced one is
    read and written back as the canonical object -/
example :
    (match Serde.de (moduleEnvN cxC₁ cxItems₁) (.path "Variables") (.obj cxKvs) with
     | .ok _ => false
     | .error _ => true) = true ∧
    (match Serde.de (moduleEnvN cxC₁ cxItems₁) (.path "Variables") (.obj cxCoerced) with
     | .ok x => (match Serde.ser (moduleEnvN cxC₁ cxItems₁) (.path "Variables") x with
       | .ok j => jsonEqB j cxCanon
       | .error _ => false)
     | .error _ => false) = true ∧
    (match Serde.de (moduleEnv cxC₀ cxItems₀) (.path "Variables") (.obj cxKvs) with
     | .ok _ => false
     | .error _ => true) = true := ⟨by decide +kernel, by decide +kernel, by decide +kernel⟩

/-- `ValWF` (what `hasTy_rename` needs of the two modules) holds of the instance — derived, not assumed -/
example : ValWF (moduleEnv cxC₀ cxItems₀) ∧ ValWF (moduleEnvN cxC₁ cxItems₁) :=
  (cx_side.env cx_hyps.2.2.2.2.2.2.2.2.1).2.2

end C04R
end GqlVerif
