import GqlVerif.Proofs.C01NestedG
/-!
# C01 end to end (`NestedOp`), part H: losslessness (generic environment, parametric)

* `canonSelN cent s q skip sels j` — the allowed differences: as `canonSelM`, but **at the position of a spread the entries
  the fragment struct writes** (`cent g kvs`, defined by recursion on the rank in part I); a lone spread: the fragment's
  own canonical form `cwhole cent g`;
* `FragRT e c ex cent KN g` — what the theorems need of a spread fragment: its struct, read from a conforming object from
  which entries with keys outside `KN` may have been removed, is written back as `cent g kvs`;
* `rtStructN`, `rtBodyN`, mutual `rtSelN` / `rtSelsN`, **`bodyN_lossless`** — round trip of the emitted types, for every
  large enough fuel (reading: `deStructN_finds` of part G; writing: `ser_flat` of `C01AbstractI`, which never needed plain
  members; fields of scalar / enum / interface / union type: `rtSelD` of `C01VariantSpreadE`).

Additional decidable side condition: `rustOkSelsN` (Rust field names — own fields, flattened members — pairwise distinct
in every struct at object positions; `rustOkSelD` elsewhere).
-/
set_option linter.unusedSimpArgs false
set_option linter.unusedVariables false
set_option linter.unusedSectionVars false
set_option linter.unnecessarySimpa false

namespace GqlVerif
namespace C01N
open Serde Spec C13 C03 Codegen C01 C01.E2E C01M

/-! ## the allowed differences -/

/-- the canonical form of the struct of the fragment `g` -/
def cwhole (cent : Nat → List (String × Json) → List (String × Json)) (g : Nat) : Json → Json
  | .obj kvs => .obj (cent g kvs)
  | j => j

mutual
  def canonFieldN (cent : Nat → List (String × Json) → List (String × Json)) (s : Schema) (q : Query) (skip : Bool) :
      Sel → Json → Json
    | .field a fid sub, v =>
      match s.fields[fid]? with
      | none => v
      | some sf =>
        match sf.ty.id with
        | .object _ => canon (fun j =>
            match sub with
            | [.spread g] => cwhole cent g j
            | _ => match j with
              | .obj kvs => .obj (canonEntriesN cent s q skip sub kvs)
              | j => j) (gtyOf sf.ty.quals) v
        | _ => canonFieldD s q skip (.field a fid sub) v
    | _, v => v
  /-- own entries and, **at the position of each spread**, the entries the fragment struct writes, in selection order -/
  def canonEntriesN (cent : Nat → List (String × Json) → List (String × Json)) (s : Schema) (q : Query) (skip : Bool) :
      List Sel → List (String × Json) → List (String × Json)
    | [], _ => []
    | .field a fid sub :: xs, kvs =>
      (match s.fields[fid]? with
       | none => []
       | some sf =>
         match Json.lookup (a.getD sf.name) kvs with
         | some v =>
           if skip && skipQ sf.ty.quals && v.isNull then []
           else [(a.getD sf.name, canonFieldN cent s q skip (.field a fid sub) v)]
         | none => if skip && skipQ sf.ty.quals then [] else [(a.getD sf.name, Json.null)]) ++
        canonEntriesN cent s q skip xs kvs
    | .spread g :: xs, kvs => cent g kvs ++ canonEntriesN cent s q skip xs kvs
    | _ :: xs, kvs => canonEntriesN cent s q skip xs kvs
end

/-- **`canonSelN`**: what the serializer writes for a conforming response `j` (before `serde_json::to_value` merges
    repeated keys) -/
def canonSelN (cent : Nat → List (String × Json) → List (String × Json)) (s : Schema) (q : Query) (skip : Bool)
    (sels : List Sel) (j : Json) : Json :=
  match sels with
  | [.spread g] => cwhole cent g j
  | _ => match j with
    | .obj kvs => .obj (canonEntriesN cent s q skip sels kvs)
    | j => j

theorem canonLambdaN (cent : Nat → List (String × Json) → List (String × Json)) (s : Schema) (q : Query) (skip : Bool)
    (sub : List Sel) :
    (fun j =>
      match sub with
      | [.spread g] => cwhole cent g j
      | _ => match j with
        | .obj kvs => .obj (canonEntriesN cent s q skip sub kvs)
        | j => j) = canonSelN cent s q skip sub := by
  funext j; unfold canonSelN; rfl

theorem canonSelN_not_lone {cent : Nat → List (String × Json) → List (String × Json)} {s : Schema} {q : Query}
    {skip : Bool} {sels : List Sel} (h : ∀ g, sels ≠ [Sel.spread g]) (j : Json) :
    canonSelN cent s q skip sels j =
      (match j with | .obj kvs => .obj (canonEntriesN cent s q skip sels kvs) | j => j) := by
  unfold canonSelN
  split
  · exact absurd rfl (h _)
  · rfl

theorem canonFieldN_nonobj {cent : Nat → List (String × Json) → List (String × Json)} {s : Schema} {q : Query}
    {skip : Bool} {a : Option String} {fid : Nat}
    {sub : List Sel} {sf : StoredField} (hsf : s.fields[fid]? = some sf) (hno : ∀ i, sf.ty.id ≠ .object i) (v : Json) :
    canonFieldN cent s q skip (.field a fid sub) v = canonFieldD s q skip (.field a fid sub) v := by
  rw [canonFieldN]
  simp only [hsf]

/-! ## Rust field names -/

mutual
  def rustOkSelN (c : Ctx) : Sel → Bool
    | .field a fid sub =>
      (match (c.s.fields[fid]?).map (fun sf => sf.ty.id) with
       | some (TypeId.object _) =>
         (match sub with
          | [.spread _] => true
          | _ => EnumSpec.nodup (rustNamesF c sub) && rustOkSelsN c sub)
       | _ => rustOkSelD c (.field a fid sub))
    | _ => true
  def rustOkSelsN (c : Ctx) : List Sel → Bool
    | [] => true
    | x :: xs => rustOkSelN c x && rustOkSelsN c xs
end

theorem rustOkSelsN_mem {c : Ctx} : ∀ {sels : List Sel}, rustOkSelsN c sels = true →
    ∀ x ∈ sels, rustOkSelN c x = true
  | [], _, _, hx => by simp at hx
  | y :: ys, h, x, hx => by
    rw [rustOkSelsN, Bool.and_eq_true] at h
    rcases List.mem_cons.mp hx with rfl | hx'
    · exact h.1
    · exact rustOkSelsN_mem h.2 x hx'

theorem keysOksN_mem {KN : String → List String} {c : Ctx} : ∀ {sels : List Sel}, keysOksN KN c sels = true →
    ∀ x ∈ sels, keysOkN KN c x = true
  | [], _, _, hx => by simp at hx
  | y :: ys, h, x, hx => by
    rw [keysOksN, Bool.and_eq_true] at h
    rcases List.mem_cons.mp hx with rfl | hx'
    · exact h.1
    · exact keysOksN_mem h.2 x hx'

theorem rustOkSelN_obj {c : Ctx} {a : Option String} {fid : Nat} {sub : List Sel} {sf : StoredField} {i : Nat}
    (hsf : c.s.fields[fid]? = some sf) (hid : sf.ty.id = .object i) (hnl : ∀ g, sub ≠ [Sel.spread g])
    (h : rustOkSelN c (.field a fid sub) = true) :
    rustOkSelsN c sub = true ∧ EnumSpec.nodup (rustNamesF c sub) = true := by
  unfold rustOkSelN at h
  simp only [hsf, hid, Option.map_some] at h
  have : (EnumSpec.nodup (rustNamesF c sub) && rustOkSelsN c sub) = true := by
    revert h
    exact id
  rw [Bool.and_eq_true] at this
  exact ⟨this.2, this.1⟩

theorem rustOkSelN_nonobj {c : Ctx} {a : Option String} {fid : Nat} {sub : List Sel} {sf : StoredField}
    (hsf : c.s.fields[fid]? = some sf) (hno : ∀ i, sf.ty.id ≠ .object i) (h : rustOkSelN c (.field a fid sub) = true) :
    rustOkSelD c (.field a fid sub) = true := by
  unfold rustOkSelN at h
  simp only [hsf, Option.map_some] at h
  cases hid : sf.ty.id with
  | object i => exact absurd hid (hno i)
  | scalar k => simpa only [hid] using h
  | «enum» k => simpa only [hid] using h
  | interface k => simpa only [hid] using h
  | union k => simpa only [hid] using h
  | input k => simpa only [hid] using h

theorem expandSelsW_mem (ex : Nat → Sel) : ∀ {sels : List Sel} {x : Sel}, x ∈ sels → expandSelW ex x ∈ expandSelsW ex sels
  | [], _, h => by simp at h
  | y :: ys, x, h => by
    rw [expandSelsW]
    rcases List.mem_cons.mp h with rfl | h'
    · simp
    · exact List.mem_cons_of_mem _ (expandSelsW_mem ex h')

theorem fieldKeys_sublist_expKeysN (KN : String → List String) (c : Ctx) : ∀ (sels : List Sel),
    (fieldKeys c.s sels).Sublist (expKeysN KN c sels)
  | [] => by simp [fieldKeys, expKeysN]
  | x :: xs => by
    have ih := fieldKeys_sublist_expKeysN KN c xs
    cases x with
    | field a fid sub =>
      simp only [fieldKeys, List.filterMap_cons, fieldKey, expKeysN] at ih ⊢
      cases hsf : c.s.fields[fid]? with
      | none => simpa [hsf] using ih
      | some sf => simpa [hsf] using ih
    | spread g =>
      simp only [fieldKeys, List.filterMap_cons, fieldKey, expKeysN] at ih ⊢
      exact List.sublist_append_of_sublist_right ih
    | inline t sub => simpa [fieldKeys, List.filterMap_cons, fieldKey, expKeysN] using ih
    | typename => simpa [fieldKeys, List.filterMap_cons, fieldKey, expKeysN] using ih

/-- the canonical form of the value of the own field whose wire name is `f.wire` -/
def fcanonOfN (cent : Nat → List (String × Json) → List (String × Json)) (s : Schema) (q : Query) (skip : Bool)
    (sels : List Sel) (f : RField) (v : Json) : Json :=
  match sels.find? (fun x => fieldKey s x == some f.wire) with
  | some x => canonFieldN cent s q skip x v
  | none => v

/-- **what the theorems need of a spread fragment, for the round trip** -/
structure FragRT (e : Env) (c : Ctx) (ex : Nat → Sel) (cent : Nat → List (String × Json) → List (String × Json))
    (KN : String → List String) (g : Nat) : Prop where
  rt : ∃ N, ∀ fd fs, N ≤ fd → N ≤ fs → ∀ b i kvs (L : List String) v, fragOn c.q g = .object i →
    (kvs.map (·.1)).Nodup → (∀ k ∈ L, k ∉ KN (fragName c g)) → confSelV c.s i (ex g) kvs = true →
    dePath e b fd (fragName c g) (.obj (kvs.filter (fun kv => !L.contains kv.1))) = .ok v →
    serPath e fs (fragName c g) v = .ok (.obj (cent g kvs))

section RTN
variable (e : Env) (c : Ctx) (ok : TypeId → Nat → Bool) (whole : Nat → Bool → Json → Bool) (KN : String → List String)
  (fenv : Nat → Prop) (ex : Nat → Sel) (cent : Nat → List (String × Json) → List (String × Json))

section Fields2
variable {ok} {c} (hok : OkSpec c.q ok)

include hok in
theorem rust_fieldsOfN (pfx : String) (p : TypeId) : ∀ (sels : List Sel), nSels ok c.s c.q c.o p sels = true →
    (fieldsOfF c pfx sels).map (·.rust) = rustNamesF c sels
  | [], _ => rfl
  | x :: xs, ht => by
    obtain ⟨hx, hxs⟩ := nSels_cons ht
    have ih := rust_fieldsOfN pfx p xs hxs
    rw [fieldsOfF_cons, List.map_append, ih]
    cases x with
    | field a fid sub =>
      obtain ⟨sf, ft, hsf, _, hf, _⟩ := fieldOfSelV_n pfx p a fid sub hx
      rw [fieldOfSelF_field, hf]
      simp [rustNamesF, List.filterMap_cons, rustNameF, rustName, hsf, fieldOf]
    | spread g =>
      have hokg : ok p g = true := by simpa [nSel] using hx
      obtain ⟨fr, hfr, _⟩ := hok _ _ hokg
      simp [fieldOfSelF, hfr, spreadField, rustNamesF, List.filterMap_cons, rustNameF, fragName]
    | inline t sub => simp [nSel] at hx
    | typename => simp [fieldOfSelF, fieldOfSelV, rustNamesF, List.filterMap_cons, rustNameF, rustName]

theorem mem_fieldsOfV_n {pfx : String} {p : TypeId} {sels : List Sel} {f : RField}
    (hf : f ∈ fieldsOfV c pfx sels) (ht : nSels ok c.s c.q c.o p sels = true) :
    ∃ a fid sub sf ft, Sel.field a fid sub ∈ sels ∧ c.s.fields[fid]? = some sf ∧
      fieldOfSelV c pfx (.field a fid sub) = some f ∧
      f = fieldOf c (a.getD sf.name) ft sf.ty.quals sf.deprecation ∧ wfQuals sf.ty.quals = true := by
  obtain ⟨x, hx, hfx⟩ := List.mem_filterMap.mp hf
  cases x with
  | field a fid sub =>
    obtain ⟨sf, ft, hsf, _, hf', hw⟩ := fieldOfSelV_n pfx p a fid sub (nSels_mem ht _ hx)
    rw [hf'] at hfx
    exact ⟨a, fid, sub, sf, ft, hx, hsf, by rw [hf', hfx], (Option.some.inj hfx).symm, hw⟩
  | spread g => cases hfx
  | inline t sub => cases hfx
  | typename => cases hfx

include hok in
theorem mem_fieldsOfN_flatten {pfx : String} {p : TypeId} : ∀ {sels : List Sel} {g : RField},
    g ∈ fieldsOfF c pfx sels → nSels ok c.s c.q c.o p sels = true → g.flatten = true →
    ∃ gid fr, Sel.spread gid ∈ sels ∧ c.q.fragments[gid]? = some fr ∧ g = spreadField c fr
  | [], g, hg, _, _ => by simp [fieldsOfF] at hg
  | x :: xs, g, hg, ht, hfl => by
    obtain ⟨hx, hxs⟩ := nSels_cons ht
    rw [fieldsOfF_cons, List.mem_append] at hg
    rcases hg with hg | hg
    · cases x with
      | field a fid sub =>
        obtain ⟨sf, ft, _, _, hf, _⟩ := fieldOfSelV_n pfx p a fid sub hx
        rw [fieldOfSelF_field, hf] at hg
        simp only [Option.toList, List.mem_singleton] at hg
        subst hg; simp [fieldOf] at hfl
      | spread gid =>
        have hokg : ok p gid = true := by simpa [nSel] using hx
        obtain ⟨fr, hfr, _⟩ := hok _ _ hokg
        simp only [fieldOfSelF, hfr, Option.map_some, Option.toList, List.mem_singleton] at hg
        exact ⟨gid, fr, by simp, hfr, hg⟩
      | inline t sub => simp [nSel] at hx
      | typename => simp [fieldOfSelF, fieldOfSelV] at hg
    · obtain ⟨gid, fr, h1, h2, h3⟩ := mem_fieldsOfN_flatten hg hxs hfl
      exact ⟨gid, fr, List.mem_cons_of_mem _ h1, h2, h3⟩

include hok in
/-- the entries the struct writes are `canonEntriesN` (the struct was read from `kvs'`, which agrees with `kvs` on the own
    keys) -/
theorem flatMap_entriesN_canon (cent : Nat → List (String × Json) → List (String × Json)) (pfx : String) (p : TypeId)
    (fc : RField → Json → Json) (mc : RField → List (String × Json)) (kvs' kvs : List (String × Json)) :
    ∀ (sels : List Sel), nSels ok c.s c.q c.o p sels = true →
    (∀ k ∈ fieldKeys c.s sels, Json.lookup k kvs' = Json.lookup k kvs) →
    (∀ a fid sub, Sel.field a fid sub ∈ sels → ∀ f, fieldOfSelV c pfx (.field a fid sub) = some f →
      ∀ v, fc f v = canonFieldN cent c.s c.q c.o.skipNone (.field a fid sub) v) →
    (∀ g fr, Sel.spread g ∈ sels → c.q.fragments[g]? = some fr → mc (spreadField c fr) = cent g kvs) →
    (fieldsOfF c pfx sels).flatMap (entriesF fc mc kvs') = canonEntriesN cent c.s c.q c.o.skipNone sels kvs
  | [], _, _, _, _ => by simp [fieldsOfF, canonEntriesN]
  | x :: xs, ht, hlk, hfc, hmc => by
    obtain ⟨hx, hxs⟩ := nSels_cons ht
    have ih := flatMap_entriesN_canon cent pfx p fc mc kvs' kvs xs hxs
      (fun k hk => hlk k (by
        simp only [fieldKeys, List.filterMap_cons] at hk ⊢
        cases fieldKey c.s x <;> simp [hk]))
      (fun a fid sub hm => hfc a fid sub (List.mem_cons_of_mem _ hm))
      (fun g fr hm => hmc g fr (List.mem_cons_of_mem _ hm))
    rw [fieldsOfF_cons, List.flatMap_append, ih]
    cases x with
    | field a fid sub =>
      obtain ⟨sf, ft, hsf, _, hf, _⟩ := fieldOfSelV_n pfx p a fid sub hx
      rw [fieldOfSelF_field, hf, canonEntriesN.eq_2]
      simp only [Option.toList, List.flatMap_cons, List.flatMap_nil, List.append_nil, entriesF, fieldOf,
        Bool.false_eq_true, ↓reduceIte]
      have := expectOut_cons fc (fieldOf c (a.getD sf.name) ft sf.ty.quals sf.deprecation) [] kvs'
      simp only [fieldOf] at this
      rw [this]
      simp only [hsf, expectOut, List.filterMap_nil, List.append_nil]
      have hw := fieldOf_wire c (a.getD sf.name) ft sf.ty.quals sf.deprecation
      simp only [fieldOf] at hw
      simp only [hw, Bool.and_assoc]
      have hfc' := hfc a fid sub (by simp) _ hf
      simp only [fieldOf] at hfc'
      rw [hlk (a.getD sf.name) (by simp [fieldKeys, fieldKey, hsf])]
      cases Json.lookup (a.getD sf.name) kvs with
      | none => rfl
      | some v => simp only [hfc' v]
    | spread g =>
      have hokg : ok p g = true := by simpa [nSel] using hx
      obtain ⟨fr, hfr, _⟩ := hok _ _ hokg
      rw [canonEntriesN.eq_3]
      simp [fieldOfSelF, hfr, entriesF, spreadField, hmc g fr (by simp) hfr]
      rw [← hmc g fr (by simp) hfr]; rfl
    | inline t sub => simp [nSel] at hx
    | typename => simp [fieldOfSelF, fieldOfSelV, canonEntriesN]

end Fields2

variable (hok : OkSpec c.q ok) (hfa : ∀ p g, ok p g = true → fenv g → FragAcc e c whole KN g)
  (hfr : ∀ p g, ok p g = true → fenv g → FragRT e c ex cent KN g)
  (hexA : ∀ g, FragOkAny c.s c.q c.o g → ex g = expandSel c.q (.spread g))

include hok hfr in
/-- the round trips of the spread fragments of a selection set, with one bound on the fuel -/
theorem rtMemN (pfx : String) (i : Nat) : ∀ (sels : List Sel), nSels ok c.s c.q c.o (.object i) sels = true →
    envSelsN fenv e c pfx sels → ∃ N, ∀ g, Sel.spread g ∈ sels → ∀ fd fs, N ≤ fd → N ≤ fs →
      ∀ b kvs (L : List String) v, (kvs.map (·.1)).Nodup → (∀ k ∈ L, k ∉ KN (fragName c g)) →
      confSelV c.s i (ex g) kvs = true →
      dePath e b fd (fragName c g) (.obj (kvs.filter (fun kv => !L.contains kv.1))) = .ok v →
      serPath e fs (fragName c g) v = .ok (.obj (cent g kvs))
  | [], _, _ => ⟨0, fun g hg => by simp at hg⟩
  | x :: xs, ht, henv => by
    obtain ⟨hx, hxs⟩ := nSels_cons ht
    rw [envSelsN] at henv
    obtain ⟨N, ih⟩ := rtMemN pfx i xs hxs henv.2
    cases x with
    | spread g =>
      have hokg : ok (.object i) g = true := by simpa [nSel] using hx
      obtain ⟨fr, hfrg, hon, _, _⟩ := hok _ _ hokg
      have hfon : fragOn c.q g = .object i := by simp [fragOn, hfrg, hon]
      have hfg : fenv g := by have := henv.1; rwa [envSelN] at this
      obtain ⟨Ng, hrt⟩ := (hfr _ g hokg hfg).rt
      refine ⟨max N Ng, fun g' hg' fd fs hfd hfs b kvs L v hnd hL hc hd => ?_⟩
      rcases List.mem_cons.mp hg' with heq | hg''
      · cases heq
        exact hrt fd fs (by omega) (by omega) b i kvs L v hfon hnd hL hc hd
      · exact ih g' hg'' fd fs (by omega) (by omega) b kvs L v hnd hL hc hd
    | field a fid sub =>
      refine ⟨N, fun g' hg' => ?_⟩
      rcases List.mem_cons.mp hg' with heq | hg''
      · cases heq
      · exact ih g' hg''
    | inline t sub => simp [nSel] at hx
    | typename =>
      refine ⟨N, fun g' hg' => ?_⟩
      rcases List.mem_cons.mp hg' with heq | hg''
      · cases heq
      · exact ih g' hg''

def RTSelN (pfx : String) (x : Sel) : Prop :=
  ∀ p, nSel ok c.s c.q c.o p x = true → envSelN fenv e c pfx x → keysOkN KN c x = true → rustOkSelN c x = true →
    ∀ f, fieldOfSelV c pfx x = some f → ∃ N, ∀ b fd fs, N ≤ fd → N ≤ fs →
      ∀ v y, strictFieldV c.s (expandSelW ex x) v = true → deFieldWith (dePath e b fd) f v = .ok y →
        serTyWith (serPath e fs) f.ty y = .ok (canonFieldN cent c.s c.q c.o.skipNone x v)

def RTSelsN (pfx : String) (sels : List Sel) : Prop :=
  ∀ p, nSels ok c.s c.q c.o p sels = true → envSelsN fenv e c pfx sels → keysOksN KN c sels = true →
    rustOkSelsN c sels = true → ∃ N, ∀ x ∈ sels, ∀ f, fieldOfSelV c pfx x = some f → ∀ b fd fs, N ≤ fd → N ≤ fs →
      ∀ v y, strictFieldV c.s (expandSelW ex x) v = true → deFieldWith (dePath e b fd) f v = .ok y →
        serTyWith (serPath e fs) f.ty y = .ok (canonFieldN cent c.s c.q c.o.skipNone x v)

include hok hfa hfr in
/-- **round trip of the struct of an object-level selection set with spreads of fragments of the class** -/
theorem rtStructN (pfx name : String) (i : Nat) (sels : List Sel) (H : RTSelsN e c ok KN fenv ex cent pfx sels)
    (ht : nSels ok c.s c.q c.o (.object i) sels = true) (henv : envSelsN fenv e c pfx sels)
    (hko : keysOksN KN c sels = true) (hkeys : EnumSpec.nodup (expKeysN KN c sels) = true)
    (hro : rustOkSelsN c sels = true) (hrn : EnumSpec.nodup (rustNamesF c sels) = true)
    (hs : StructEnv e name (fieldsOfF c pfx sels)) :
    ∃ N, ∀ b fd fs, N ≤ fd → N ≤ fs → ∀ kvs (L0 : List String) v, (kvs.map (·.1)).Nodup →
      (∀ k ∈ L0, k ∉ expKeysN KN c sels) → confSelsV c.s i (expandSelsW ex sels) kvs = true →
      dePath e b fd name (.obj (kvs.filter (fun kv => !L0.contains kv.1))) = .ok v →
      serPath e fs name v = .ok (.obj (canonEntriesN cent c.s c.q c.o.skipNone sels kvs)) := by
  obtain ⟨hp, _, n, d, cr, hfind⟩ := hs
  obtain ⟨N0, H0⟩ := H (.object i) ht henv hko hro
  obtain ⟨N1, H1⟩ := accMemN e c ok whole KN fenv hok hfa pfx (.object i) sels ht henv
  obtain ⟨N2, H2⟩ := rtMemN e c ok KN fenv ex cent hok hfr pfx i sels ht henv
  refine ⟨max (max N0 N1) N2 + 2, fun b fd fs hfd hfs kvs L0 v hnd hL0 hconf hd => ?_⟩
  obtain ⟨fuel, rfl⟩ : ∃ k, fd = k + 2 := ⟨fd - 2, by omega⟩
  obtain ⟨fs', rfl⟩ : ∃ k, fs = k + 2 := ⟨fs - 2, by omega⟩
  have hnd' : ((kvs.filter (fun kv => !L0.contains kv.1)).map (·.1)).Nodup :=
    ((List.filter_sublist).map _).nodup hnd
  have hcnt := countKey_le_one_of_nodup hnd'
  obtain ⟨_, _, h3, h4⟩ := flat_hypsN hok KN pfx (.object i) sels ht (nodup_iff'.mp hkeys)
  have hrust : ((fieldsOfF c pfx sels).map (·.rust)).Nodup := by
    rw [rust_fieldsOfN hok pfx _ sels ht]; exact nodup_iff'.mp hrn
  obtain ⟨M1, _⟩ := H1 fuel (by omega)
  have hfk : (fieldKeys c.s sels).Nodup := (fieldKeys_sublist_expKeysN KN c sels).nodup (nodup_iff'.mp hkeys)
  have hlk : ∀ k ∈ fieldKeys c.s sels,
      Json.lookup k (kvs.filter (fun kv => !L0.contains kv.1)) = Json.lookup k kvs := by
    intro k hk
    exact lookup_filter (fun kv => !L0.contains kv.1) k
      (keep_notin L0 (fun hkL => hL0 k hkL (fieldKeys_sub_expKeysN KN c sels k hk))) kvs
  rw [dePath_struct e b (fuel + 1) name n d cr _ hp hfind, deStruct_obj] at hd
  obtain ⟨vals, rfl, hownf, hmemf⟩ := deStructN_finds e fuel _ _ _ (kOf KN) hcnt hrust
    (fun g hg hf => (M1 g hg hf).1) (fun g hg hf => (M1 g hg hf).2.1) (fun g hg hf k hk hkK => h3 g hg hf k hkK hk) h4 v hd
  -- the members
  have hmemrt : ∀ gid fr, Sel.spread gid ∈ sels → c.q.fragments[gid]? = some fr →
      ∃ x, vals.find? (·.1 == (spreadField c fr).rust) = some ((spreadField c fr).rust, x) ∧
        serTyWith (serPath e (fs' + 1)) (spreadField c fr).ty x = .ok (.obj (cent gid kvs)) := by
    intro gid fr hm hfrg
    have hname : fragName c gid = fr.name := by simp [fragName, hfrg]
    have hgmem : spreadField c fr ∈ fieldsOfF c pfx sels :=
      List.mem_filterMap.mpr ⟨_, hm, by simp [fieldOfSelF, hfrg]⟩
    obtain ⟨L', x, hL', hval, hfindg⟩ := hmemf _ hgmem rfl
    obtain ⟨⟨q, n', d', c', hty, hnp, hfindq⟩, _, _⟩ := M1 _ hgmem rfl
    have hq : q = fr.name := by
      have : RTy.path fr.name = RTy.path q := hty
      injection this with h; exact h.symm
    subst hq
    rw [memberVal_eq_dePath e fuel _ fr.name n' d' c' hty hnp hfindq, filter_not_append] at hval
    refine ⟨x, hfindg, ?_⟩
    have hconfg : confSelV c.s i (ex gid) kvs = true := by
      have := confSelsV_mem hconf _ (expandSelsW_mem ex hm)
      simpa [expandSelW] using this
    have := H2 gid hm (fuel + 1) (fs' + 1) (by omega) (by omega) true kvs (L0 ++ L') x hnd
      (by
        intro k hk hkK
        rcases List.mem_append.mp hk with hk | hk
        · exact hL0 k hk (spreadKeys_sub_expKeysN KN c sels gid hm k hkK)
        · rw [hname] at hkK; exact hL' k hk hkK)
      hconfg (by rw [hname]; exact hval)
    rw [hname] at this
    exact this
  -- the entries a member writes, as a function of the member
  let mc : RField → List (String × Json) := fun g =>
    match vals.find? (·.1 == g.rust) with
    | some (_, x) => (match serTyWith (serPath e (fs' + 1)) g.ty x with | .ok (.obj o) => o | _ => [])
    | none => []
  have hmc : ∀ gid fr, Sel.spread gid ∈ sels → c.q.fragments[gid]? = some fr →
      mc (spreadField c fr) = cent gid kvs := by
    intro gid fr hm hfrg
    obtain ⟨x, hf, hser⟩ := hmemrt gid fr hm hfrg
    simp only [mc, hf, hser]
  rw [serPath_struct e (fs' + 1) name n d cr _ hfind,
    ser_flat (dePath e b (fuel + 1)) (serPath e (fs' + 1)) (fcanonOfN cent c.s c.q c.o.skipNone sels) mc _ vals
      (fieldsOfF c pfx sels) hownf ?_ ?_ ?_ ?_]
  · rw [flatMap_entriesN_canon hok cent pfx (.object i) _ mc _ kvs sels ht hlk ?_ hmc]
    · rfl
    · intro a fid sub hx f hfx v
      obtain ⟨sf, ft, hsf, _, hf', _⟩ := fieldOfSelV_n pfx _ a fid sub (nSels_mem ht _ hx)
      rw [hf'] at hfx
      cases hfx
      unfold fcanonOfN
      rw [fieldOf_wire, find_fieldKey c.s _ sels hfk _ hx (by simp [fieldKey, hsf])]
  · intro f hf hfl j x hl hdx
    have hfV : f ∈ fieldsOfV c pfx sels := by
      rw [← own_fieldsOfN hok pfx _ sels ht]; exact List.mem_filter.mpr ⟨hf, by simp [hfl]⟩
    obtain ⟨a, fid, sub, sf, ft, hx, hsf, hfx, rfl, _⟩ := mem_fieldsOfV_n hfV ht
    rw [fieldOf_wire] at hl
    rw [hlk _ (by
      have : fieldKey c.s (.field a fid sub) = some (a.getD sf.name) := by simp [fieldKey, hsf]
      exact List.mem_filterMap.mpr ⟨_, hx, this⟩)] at hl
    have hst : strictFieldV c.s (expandSelW ex (.field a fid sub)) j = true := by
      have := confSelsV_mem hconf _ (expandSelsW_mem ex hx)
      rw [expandSelW, confSelV_field] at this
      rw [expandSelW]
      simpa [hsf, hl] using this
    have hfc : fcanonOfN cent c.s c.q c.o.skipNone sels (fieldOf c (a.getD sf.name) ft sf.ty.quals sf.deprecation) j =
        canonFieldN cent c.s c.q c.o.skipNone (.field a fid sub) j := by
      unfold fcanonOfN
      rw [fieldOf_wire, find_fieldKey c.s _ sels hfk _ hx (by simp [fieldKey, hsf])]
    rw [hfc]
    exact H0 _ hx _ hfx b (fuel + 1) (fs' + 1) (by omega) (by omega) j x hst hdx
  · intro f hf hfl hskip j x _ hdx
    have hfV : f ∈ fieldsOfV c pfx sels := by
      rw [← own_fieldsOfN hok pfx _ sels ht]; exact List.mem_filter.mpr ⟨hf, by simp [hfl]⟩
    obtain ⟨a, fid, sub, sf, ft, _, _, _, rfl, _⟩ := mem_fieldsOfV_n hfV ht
    refine field_unit_iff _ _ (.inr ?_) j x hdx
    rw [fieldOf_skipNone, Bool.and_eq_true] at hskip
    exact (isOption_rustOf ft sf.ty.quals).trans (skipQ_nullable hskip.2)
  · intro f hf hfl hdef
    have hfV : f ∈ fieldsOfV c pfx sels := by
      rw [← own_fieldsOfN hok pfx _ sels ht]; exact List.mem_filter.mpr ⟨hf, by simp [hfl]⟩
    obtain ⟨a, fid, sub, sf, ft, _, _, _, rfl, _⟩ := mem_fieldsOfV_n hfV ht
    have : (decide (ft = "ID") && nullableQ sf.ty.quals) = true := hdef
    rw [Bool.and_eq_true] at this
    exact (isOption_rustOf ft sf.ty.quals).trans this.2
  · intro g hg hfl
    obtain ⟨gid, fr, hm, hfrg, rfl⟩ := mem_fieldsOfN_flatten hok hg ht hfl
    obtain ⟨x, hf, hser⟩ := hmemrt gid fr hm hfrg
    exact ⟨x, hf, by rw [hser, hmc gid fr hm hfrg]⟩

include hok hfa hfr in
/-- round trip of the type emitted for an object-level selection set, from the round trips of its fields -/
theorem rtBodyN (pfx name : String) (i : Nat) (sels : List Sel) (H : RTSelsN e c ok KN fenv ex cent pfx sels)
    (ht : nBody ok c.s c.q c.o (.object i) sels = true) (henv : BodyEnvN fenv e c name pfx sels)
    (hko : keysOksN KN c sels = true) (hkeys : EnumSpec.nodup (expKeysN KN c sels) = true)
    (hro : rustOkSelsN c sels = true) (hrn : EnumSpec.nodup (rustNamesF c sels) = true) :
    ∃ N, ∀ b fd fs, N ≤ fd → N ≤ fs → ∀ j v, conformsV c.s i (expandSelsW ex sels) j = true →
      dePath e b fd name j = .ok v → serPath e fs name v = .ok (canonSelN cent c.s c.q c.o.skipNone sels j) := by
  by_cases hsp : ∃ g, sels = [Sel.spread g]
  · obtain ⟨g, rfl⟩ := hsp
    unfold BodyEnvN at henv
    simp only at henv
    have hokg : ok (.object i) g = true := ht
    obtain ⟨fr, hfrg, hon, _, _⟩ := hok _ _ hokg
    have hfon : fragOn c.q g = .object i := by simp [fragOn, hfrg, hon]
    obtain ⟨Ng, hrt⟩ := (hfr _ g hokg henv.2).rt
    obtain ⟨hp, _, n, pub, hfind⟩ := henv.1
    refine ⟨Ng + 2, fun b fd fs hfd hfs j v hc hd => ?_⟩
    obtain ⟨fd', rfl⟩ : ∃ k, fd = k + 1 := ⟨fd - 1, by omega⟩
    obtain ⟨fs', rfl⟩ : ∃ k, fs = k + 2 := ⟨fs - 2, by omega⟩
    have hd' : dePath e b fd' (fragName c g) j = .ok v := by
      rw [dePath] at hd; simpa only [dePrim_none hp, hfind, deTyWith] using hd
    rw [serPath_alias e name (fragName c g) n pub hfind]
    cases j with
    | obj kvs =>
      simp only [expandSelsW, expandSelW, conformsV, confSelsV, Bool.and_true, Bool.and_eq_true] at hc
      rw [← filter_not_nil kvs] at hd'
      simp only [canonSelN, cwhole]
      exact hrt fd' (fs' + 1) (by omega) (by omega) b i kvs [] v hfon (nodup_iff'.mp hc.1.1) (by simp) hc.2 hd'
    | null => simp [conformsV] at hc
    | bool _ => simp [conformsV] at hc
    | int _ => simp [conformsV] at hc
    | num _ => simp [conformsV] at hc
    | str _ => simp [conformsV] at hc
    | arr _ => simp [conformsV] at hc
  · have hnl : ∀ g, sels ≠ [Sel.spread g] := fun g hg => hsp ⟨g, hg⟩
    have henv' := bodyEnvN_not_lone hnl henv
    rw [nBody_not_lone hnl] at ht
    obtain ⟨N, hN⟩ := rtStructN e c ok whole KN fenv ex cent hok hfa hfr pfx name i sels H ht henv'.2 hko hkeys hro hrn
      henv'.1
    refine ⟨N, fun b fd fs hfd hfs j v hc hd => ?_⟩
    rw [canonSelN_not_lone hnl]
    cases j with
    | obj kvs =>
      simp only [conformsV, Bool.and_eq_true] at hc
      rw [← filter_not_nil kvs] at hd
      exact hN b fd fs hfd hfs kvs [] v (nodup_iff'.mp hc.1.1) (by simp) hc.2 hd
    | null => simp [conformsV] at hc
    | bool _ => simp [conformsV] at hc
    | int _ => simp [conformsV] at hc
    | num _ => simp [conformsV] at hc
    | str _ => simp [conformsV] at hc
    | arr _ => simp [conformsV] at hc

mutual
  theorem rtSelN : ∀ (x : Sel) (pfx : String), OkSpec c.q ok →
      (∀ p g, ok p g = true → fenv g → FragAcc e c whole KN g) →
      (∀ p g, ok p g = true → fenv g → FragRT e c ex cent KN g) →
      (∀ g, FragOkAny c.s c.q c.o g → ex g = expandSel c.q (.spread g)) → RTSelN e c ok KN fenv ex cent pfx x
    | .field a fid sub, pfx => by
      intro hok hfa hfr hexA p ht henv hko hro f hf
      have IH := rtSelsN sub
      obtain ⟨sf, ft, hsf, _, hf', hw⟩ := fieldOfSelV_n pfx p a fid sub ht
      by_cases hobj : ∃ i, sf.ty.id = .object i
      · obtain ⟨i, hid⟩ := hobj
        have hwf : wf (gtyOf sf.ty.quals) = true := by rw [wf_gtyOf]; exact hw
        obtain ⟨_, _, _, hbody⟩ := nSel_obj hsf hid ht
        have henvB := envSelN_obj hsf hid henv
        have hko := keysOkN_obj hsf hid hko
        simp only [fieldOfSelV, hsf, leafNameV, hid, Option.some.injEq] at hf
        subst hf
        have hID : pfx ++ c.cs.camel (a.getD sf.name) ≠ "ID" := by
          unfold BodyEnvN at henvB
          split at henvB
          · exact henvB.1.2.1
          · exact henvB.1.2.1
        have hleaf : ∃ N, ∀ b fd fs, N ≤ fd → N ≤ fs → ∀ j w,
            conformsV c.s i (expandSelsW ex sub) j = true →
            dePath e b fd (pfx ++ c.cs.camel (a.getD sf.name)) j = .ok w →
            serPath e fs (pfx ++ c.cs.camel (a.getD sf.name)) w =
              .ok (canonSelN cent c.s c.q c.o.skipNone sub j) := by
          by_cases hsp : ∃ g, sub = [Sel.spread g]
          · obtain ⟨g, rfl⟩ := hsp
            exact rtBodyN e c ok whole KN fenv ex cent hok hfa hfr _ _ i [Sel.spread g]
              (fun _ _ _ _ _ => ⟨0, fun x hx f hf => by
                simp only [List.mem_singleton] at hx; subst hx; cases hf⟩)
              hbody henvB (by simp [keysOksN, keysOkN]) (by
                have : expKeysN KN c [Sel.spread g] = KN (fragName c g) := by simp [expKeysN]
                rw [this]; exact hko.1 ▸ (by simp [expKeysN])) (by simp [rustOkSelsN, rustOkSelN])
              (by simp [rustNamesF, rustNameF, EnumSpec.nodup])
          · have hnl : ∀ g, sub ≠ [Sel.spread g] := fun g hg => hsp ⟨g, hg⟩
            have hroB := rustOkSelN_obj hsf hid hnl hro
            exact rtBodyN e c ok whole KN fenv ex cent hok hfa hfr _ _ i sub (IH _ hok hfa hfr hexA) hbody henvB hko.2
              hko.1 hroB.1 hroB.2
        obtain ⟨N, hN⟩ := hleaf
        refine ⟨N, fun b fd fs hfd hfs v y hst hd => ?_⟩
        simp only [expandSelW, strictFieldV] at hst
        rw [canonFieldN]
        simp only [hsf, hid] at hst ⊢
        rw [canonLambdaN]
        rw [deField_plain _ _ _ _ hID] at hd
        refine (leaf_roundtrip_on (dePath e b fd) (serPath e fs) _
          (conformsAt c.s (.object i) (expandSelsW ex sub)) (canonSelN cent c.s c.q c.o.skipNone sub) ?_ _ hwf).2 v y hst hd
        intro j w hc hdw
        simp only [conformsAt, List.any_eq_true, List.mem_range, Bool.and_eq_true, fragApplies, beq_iff_eq] at hc
        obtain ⟨rt, _, hrt, hcv⟩ := hc
        subst hrt
        exact hN b fd fs hfd hfs j w hcv hdw
      · have hno : ∀ i, sf.ty.id ≠ .object i := fun i h => hobj ⟨i, h⟩
        have hs := nSel_nonobj hsf hno ht
        refine ⟨2 * depthF c.q (.field a fid sub) + 1, fun b fd fs hfd hfs v y hst hd => ?_⟩
        rw [canonFieldN_nonobj hsf hno]
        have hexp : expandSelW ex (.field a fid sub) = expandSel c.q (.field a fid sub) :=
          expandSelW_congr c.q ex _ (fun g hg => hexA g (fragOk_of_spreadIdS c.s c.q c.o _ false hs g hg (by simp)))
        rw [hexp] at hst
        exact rtSelD e c _ pfx false hs (envSelN_nonobj hsf hno henv)
          (rustOkSelN_nonobj hsf hno hro) f hf b fd fs hfd (by omega) v y hst hd
    | .spread g, pfx => by intro _ _ _ _ _ _ _ _ _ f hf; cases hf
    | .inline t sub, pfx => by intro _ _ _ _ _ _ _ _ _ f hf; cases hf
    | .typename, pfx => by intro _ _ _ _ _ _ _ _ _ f hf; cases hf
  theorem rtSelsN : ∀ (sels : List Sel) (pfx : String), OkSpec c.q ok →
      (∀ p g, ok p g = true → fenv g → FragAcc e c whole KN g) →
      (∀ p g, ok p g = true → fenv g → FragRT e c ex cent KN g) →
      (∀ g, FragOkAny c.s c.q c.o g → ex g = expandSel c.q (.spread g)) → RTSelsN e c ok KN fenv ex cent pfx sels
    | [], _ => by
      intro _ _ _ _ _ _ _ _ _
      exact ⟨0, fun x hx => by simp at hx⟩
    | y :: ys, pfx => by
      intro hok hfa hfr hexA p ht henv hko hro
      obtain ⟨hy, hys⟩ := nSels_cons ht
      rw [envSelsN] at henv
      rw [keysOksN, Bool.and_eq_true] at hko
      rw [rustOkSelsN, Bool.and_eq_true] at hro
      obtain ⟨N2, I2⟩ := rtSelsN ys pfx hok hfa hfr hexA p hys henv.2 hko.2 hro.2
      have IY := rtSelN y pfx hok hfa hfr hexA p hy henv.1 hko.1 hro.1
      cases hfy : fieldOfSelV c pfx y with
      | none =>
        refine ⟨N2, fun x hx f hf => ?_⟩
        rcases List.mem_cons.mp hx with heq | hx'
        · rw [heq, hfy] at hf; cases hf
        · exact I2 x hx' f hf
      | some fy =>
        obtain ⟨N1, I1⟩ := IY fy hfy
        refine ⟨max N1 N2, fun x hx f hf b fd fs hfd hfs => ?_⟩
        rcases List.mem_cons.mp hx with heq | hx'
        · subst heq
          rw [hfy] at hf; cases hf
          exact I1 b fd fs (by omega) (by omega)
        · exact I2 x hx' f hf b fd fs (by omega) (by omega)
end

include hok hfa hfr hexA in
/-- **round trip of the type emitted for an object-level selection set of `NestedOp`** (from some fuel on) -/
theorem bodyN_lossless (pfx name : String) (i : Nat) (sels : List Sel)
    (ht : nBody ok c.s c.q c.o (.object i) sels = true) (henv : BodyEnvN fenv e c name pfx sels)
    (hko : keysOksN KN c sels = true) (hkeys : EnumSpec.nodup (expKeysN KN c sels) = true)
    (hro : rustOkSelsN c sels = true) (hrn : EnumSpec.nodup (rustNamesF c sels) = true) :
    ∃ N, ∀ b fd fs, N ≤ fd → N ≤ fs → ∀ j v, conformsV c.s i (expandSelsW ex sels) j = true →
      dePath e b fd name j = .ok v → serPath e fs name v = .ok (canonSelN cent c.s c.q c.o.skipNone sels j) :=
  rtBodyN e c ok whole KN fenv ex cent hok hfa hfr pfx name i sels
    (rtSelsN e c ok whole KN fenv ex cent sels pfx hok hfa hfr hexA) ht henv hko hkeys hro hrn

end RTN

end C01N
end GqlVerif
