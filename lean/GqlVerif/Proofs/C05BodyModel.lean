import GqlVerif.Proofs.C05Body
/-!
# C05 — `build_query`, as an item of the emitted module (review finding 9)

`Proofs/C05Body.lean` proves `body_members` / `body_keys` by `rfl` over `C05Body.buildQuery`, a function written in that
proof file: the model's `Module` has the two constants (`operationName`, `query`) but no representation of the
`impl GraphQLQuery for … { fn build_query … }` block that uses them.

**Proposed model-level definitions** (all in this file; nothing in `Model/` is edited — they are meant to move to
`Model/Rust.lean` / `Model/Codegen.lean`, see the end of the header):

* `ImplQuery` — IR of the emitted impl block (`generated_module.rs:103-115`): the type it is for, the two associated
  types, and the `QueryBody { … }` struct literal of `build_query` as a list *Rust member name ↦ expression*, an
  expression being the function parameter or a path `module::CONST`;
* `Module.consts` — the `pub const`s of the module (`generated_module.rs:95-96`), from the `Module` fields the model
  already has;
* `Module.implQuery` — the impl block `GeneratedModule::to_token_stream` emits next to the module, as a function of the
  `Module` record (`modName`, `implFor`);
* `ImplQuery.buildQuery` — the value of the struct literal: each member expression is **looked up** (parameter by
  name, constant by module path and name in `Module.consts`); `none` = rustc would reject the literal (unknown
  path, a member missing, a string where the variables belong).

**Theorems** — about `Envelope.serQueryBody` (model) applied to what `generatedModule` / `generate` (model) emit:

* `impl_of_generatedModule` — the emitted impl block, field by field;
* `buildQuery_of_module` — evaluating it gives `{ variables, query := M.query, operationName := M.operationName }`
  (= `C05Body.buildQuery M v`: the hand-written function is the evaluation of the emitted item);
* `body_members`, `body_keys` — re-proved through the IR;
* `body_of_generatedModule`, `request_body_of_generate` — composed with `generatedModule` and `generate`;
* `wire_body_of_generate` — composed further with `Serde.ser` of the module's own `Variables` item;
* `buildQuery_needs_consts`, `buildQuery_needs_member` — the evaluation is not vacuous: another module name, or a
  literal without `operation_name`, has no value.
-/
namespace GqlVerif

/-! ## proposed additions to the model -/

/-- a path `module::NAME` in the emitted token stream -/
structure ConstRef where
  module : String
  name : String
  deriving Repr, DecidableEq, Inhabited

/-- the right-hand side of one member of the `QueryBody { … }` literal -/
inductive BodyExpr where
  /-- a local of `build_query` (the shorthand member `variables` is `variables: variables`) -/
  | local (name : String)
  /-- `#module_name::QUERY`, `#module_name::OPERATION_NAME` -/
  | const (r : ConstRef)
  deriving Repr, DecidableEq, Inhabited

/-- `impl graphql_client::GraphQLQuery for #operation_name_ident { … }` (`generated_module.rs:103-115`) -/
structure ImplQuery where
  /-- `#operation_name_ident` -/
  implFor : String
  /-- `type Variables = #module_name::Variables;` -/
  variablesTy : ConstRef
  /-- `type ResponseData = #module_name::ResponseData;` -/
  responseTy : ConstRef
  /-- the parameters of `fn build_query` -/
  params : List String
  /-- the members of the returned `graphql_client::QueryBody { … }` literal, Rust member name ↦ expression, in
  the order written -/
  body : List (String × BodyExpr)
  deriving Repr, DecidableEq, Inhabited

namespace ConstRef
def toSexp (r : ConstRef) : Sexp := .list [.str r.module, .str r.name]
end ConstRef

namespace BodyExpr
def toSexp : BodyExpr → Sexp
  | .local n => .list [.atom "local", .str n]
  | .const r => .list [.atom "const", r.toSexp]
end BodyExpr

namespace ImplQuery
/-- comparison format, in the style of `Module.toSexp` (for the harness, which can read the same IR off the real
token stream with `syn`) -/
def toSexp (i : ImplQuery) : Sexp :=
  .list [.atom "impl-query", .str i.implFor, i.variablesTy.toSexp, i.responseTy.toSexp, strsSexp i.params,
         .list (i.body.map fun (n, e) => .list [.str n, e.toSexp])]
end ImplQuery

namespace Module

/-- `pub const OPERATION_NAME: &str = #operation_name; pub const QUERY: &str = #query_string;`
(`generated_module.rs:95-96`), name ↦ value.  (`__QUERY_WORKAROUND`, present in derive mode, is private and its
value is the file content `include_str!` finds at compile time: not a `Module` field, not used by `build_query`.) -/
def consts (M : Module) : List (String × String) :=
  [("OPERATION_NAME", M.operationName), ("QUERY", M.query)]

/-- the impl block emitted after the module (`generated_module.rs:103-115`) -/
def implQuery (M : Module) : ImplQuery :=
  { implFor := M.implFor,
    variablesTy := ⟨M.modName, "Variables"⟩,
    responseTy := ⟨M.modName, "ResponseData"⟩,
    params := ["variables"],
    body := [("variables", .local "variables"),
             ("query", .const ⟨M.modName, "QUERY"⟩),
             ("operation_name", .const ⟨M.modName, "OPERATION_NAME"⟩)] }

/-- name resolution of `module::NAME` against the one module the token stream declares next to the impl -/
def resolveConst (M : Module) (r : ConstRef) : Option String :=
  if r.module = M.modName then M.consts.lookup r.name else none

end Module

namespace ImplQuery

/-- a member expression of type `&'static str` -/
def evalStr (M : Module) : BodyExpr → Option String
  | .const r => M.resolveConst r
  | .local _ => none

/-- a member expression of type `Self::Variables`; `vars` is what the argument serialises to -/
def evalVars (I : ImplQuery) (vars : Json) : BodyExpr → Option Json
  | .local n => if n ∈ I.params then some vars else none
  | .const _ => none

/-- **the value `build_query(variables)` returns**: the struct literal, member by member -/
def buildQuery (I : ImplQuery) (M : Module) (vars : Json) : Option Envelope.QueryBody := do
  let v ← (I.body.lookup "variables").bind (I.evalVars vars)
  let q ← (I.body.lookup "query").bind (evalStr M)
  let n ← (I.body.lookup "operation_name").bind (evalStr M)
  pure { variables := v, query := q, operationName := n }

end ImplQuery

/-- **`to_value(Q::build_query(variables))`** for a generated module: the module's own impl block, evaluated against
the module's own constants, serialised by the derive of `QueryBody` (`Envelope.serQueryBody`, with its
`rename = "operationName"`) -/
def Module.requestBody (M : Module) (vars : Json) : Option Json :=
  (M.implQuery.buildQuery M vars).map Envelope.serQueryBody

/-! ## theorems -/

namespace C05BodyModel
open Codegen

/-- evaluating the emitted impl block against the module it is emitted with: the variables, the module's `QUERY`,
the module's `OPERATION_NAME` — i.e. the hand-written `C05Body.buildQuery` **is** the emitted item's value -/
theorem buildQuery_of_module (M : Module) (v : Json) :
    M.implQuery.buildQuery M v = some { variables := v, query := M.query, operationName := M.operationName } ∧
    M.implQuery.buildQuery M v = some (C05Body.buildQuery M v) := by
  have h : M.implQuery.buildQuery M v = some { variables := v, query := M.query, operationName := M.operationName } := by
    simp [ImplQuery.buildQuery, Module.implQuery, ImplQuery.evalVars, ImplQuery.evalStr, Module.resolveConst,
      Module.consts, List.lookup, bind, Option.bind]
  exact ⟨h, h⟩

/-- **the body, exactly** (through the emitted impl block): an object with the three members `variables`, `query`,
`operationName`, in this order, holding the variables, the module's `QUERY` and the module's `OPERATION_NAME` -/
theorem body_members (M : Module) (v : Json) :
    M.requestBody v = some (.obj [("variables", v), ("query", .str M.query), ("operationName", .str M.operationName)]) := by
  unfold Module.requestBody
  rw [(buildQuery_of_module M v).1]
  rfl

/-- the same, member by member: the key list, and what a reader finds under each key -/
theorem body_keys (M : Module) (v : Json) :
    ∃ kvs, M.requestBody v = some (.obj kvs) ∧
      kvs.map (·.1) = ["variables", "query", "operationName"] ∧
      Json.lookup "variables" kvs = some v ∧
      Json.lookup "query" kvs = some (.str M.query) ∧
      Json.lookup "operationName" kvs = some (.str M.operationName) ∧
      ∀ k, k ≠ "variables" → k ≠ "query" → k ≠ "operationName" → Json.lookup k kvs = none := by
  refine ⟨_, body_members M v, rfl, rfl, rfl, rfl, ?_⟩
  intro k h1 h2 h3
  have e1 : ("variables" == k) = false := by simpa using fun h => h1 h.symm
  have e2 : ("query" == k) = false := by simpa using fun h => h2 h.symm
  have e3 : ("operationName" == k) = false := by simpa using fun h => h3 h.symm
  simp [Json.lookup, e1, e2, e3]

/-- the fields of a module `generatedModule` returns, all of them -/
theorem generatedModule_fields (c : Ctx) (text operation : String) (M : Module)
    (h : generatedModule c text operation = .ok M) :
    M.modName = c.cs.snake operation ∧ M.implFor = c.o.normalization.operation c.cs operation ∧
      M.operationName = operation ∧ M.query = text ∧ M.vis = c.o.visibility ∧ M.queryInclude = c.o.queryFile ∧
      M.useSerde = c.o.serdePath ∧
      M.structDecl = (if c.o.mode == .cli then some (c.o.normalization.operation c.cs operation) else none) := by
  unfold generatedModule at h
  simp only [bind, Except.bind] at h
  cases hs : selectOperation c (c.o.normalization.operation c.cs operation) with
  | none => simp [hs, fail'] at h
  | some root =>
    simp only [hs, pure, Except.pure] at h
    cases hr : responseForQuery c root with
    | error e => simp [hr] at h
    | ok items =>
      simp only [hr, Except.ok.injEq] at h
      subst h
      exact ⟨rfl, rfl, rfl, rfl, rfl, rfl, rfl, rfl⟩

/-- **the impl block `generatedModule` emits for `operation`**: for the (normalized) operation identifier; the
associated types and both constants are taken from the module `to_snake_case(operation)`; `build_query` fills the
three members of `QueryBody` from its parameter and from that module's `QUERY` and `OPERATION_NAME` -/
theorem impl_of_generatedModule (c : Ctx) (text operation : String) (M : Module)
    (h : generatedModule c text operation = .ok M) :
    M.implQuery =
      { implFor := c.o.normalization.operation c.cs operation,
        variablesTy := ⟨c.cs.snake operation, "Variables"⟩,
        responseTy := ⟨c.cs.snake operation, "ResponseData"⟩,
        params := ["variables"],
        body := [("variables", .local "variables"),
                 ("query", .const ⟨c.cs.snake operation, "QUERY"⟩),
                 ("operation_name", .const ⟨c.cs.snake operation, "OPERATION_NAME"⟩)] } ∧
    M.consts = [("OPERATION_NAME", operation), ("QUERY", text)] := by
  obtain ⟨h1, h2, h3, h4, _⟩ := generatedModule_fields c text operation M h
  simp only [Module.implQuery, Module.consts, h1, h2, h3, h4, and_self]

/-- **`generatedModule` to the wire**: the request body of the module generated for `operation` from the document
`text` has the three members, the text verbatim and the operation name as passed in (not normalized) -/
theorem body_of_generatedModule (c : Ctx) (text operation : String) (M : Module) (v : Json)
    (h : generatedModule c text operation = .ok M) :
    M.requestBody v = some (.obj [("variables", v), ("query", .str text), ("operationName", .str operation)]) := by
  obtain ⟨_, _, h3, h4, _⟩ := generatedModule_fields c text operation M h
  rw [body_members, h3, h4]

/-- **end to end**: what a caller of `build_query` puts on the wire for a module produced by `generate` -/
theorem request_body_of_generate (s : Schema) (cs : CaseFns) (o : Options) (text : String) (doc : QDoc)
    (ms : List Module) (M : Module) (v : Json) (h : generate s cs o text doc = .ok ms) (hM : M ∈ ms) :
    ∃ n, n ∈ Valid.opNames doc ∧ M.operationName = n ∧
      (∃ kind vars sels, QDef.op kind (some n) vars sels ∈ doc) ∧
      M.requestBody v = some (.obj [("variables", v), ("query", .str text), ("operationName", .str n)]) := by
  obtain ⟨htext, _, i, _, _, _, _, hith, hdef, _⟩ := C05Body.body_of_generate s cs o text doc ms M h hM
  exact ⟨M.operationName, List.mem_of_getElem? hith, rfl, hdef, by rw [body_members, htext]⟩

/-- the full request of a generated module for a value `val` of its own `Variables` type: serialise the value with
the serde model in the environment of the module's items, then `build_query`, then the derive of `QueryBody` -/
def wireBody (M : Module) (val : Val) : Serde.D (Option Json) := do
  let j ← Serde.ser { items := M.items } (.path "Variables") val
  pure (M.requestBody j)

/-- **the whole request, composed**: for a module of `generate` and a `Variables` value that serialises to `j`, the
body is `{variables: j, query: <the document, verbatim>, operationName: <an operation the document defines>}` — what
`j` is (its key list) is the subject of `C04Keys.variables_keys*`, which apply to the same `Serde.ser` call -/
theorem wire_body_of_generate (s : Schema) (cs : CaseFns) (o : Options) (text : String) (doc : QDoc)
    (ms : List Module) (M : Module) (val : Val) (j : Json)
    (h : generate s cs o text doc = .ok ms) (hM : M ∈ ms)
    (hj : Serde.ser { items := M.items } (.path "Variables") val = .ok j) :
    ∃ n, n ∈ Valid.opNames doc ∧
      wireBody M val = .ok (some (.obj [("variables", j), ("query", .str text), ("operationName", .str n)])) := by
  obtain ⟨n, hn, _, _, hb⟩ := request_body_of_generate s cs o text doc ms M j h hM
  exact ⟨n, hn, by simp [wireBody, hj, hb, bind, Except.bind, pure, Except.pure]⟩

/-! ### the evaluation is not vacuous -/

/-- the constants are looked up in the module: the same impl block next to a module with another name does not
compile (no value) -/
theorem buildQuery_needs_consts (M : Module) (v : Json) (other : String) (h : other ≠ M.modName) :
    M.implQuery.buildQuery { M with modName := other } v = none := by
  have h' : ¬ M.modName = other := fun e => h e.symm
  simp [ImplQuery.buildQuery, Module.implQuery, ImplQuery.evalVars, ImplQuery.evalStr, Module.resolveConst,
    List.lookup, bind, Option.bind, h']

/-- … and every member of `QueryBody` has to be written -/
theorem buildQuery_needs_member (M : Module) (v : Json) :
    ({ M.implQuery with body := M.implQuery.body.take 2 } : ImplQuery).buildQuery M v = none := by
  simp [ImplQuery.buildQuery, Module.implQuery, ImplQuery.evalVars, ImplQuery.evalStr, Module.resolveConst,
    Module.consts, List.lookup, bind, Option.bind]

/-- on a module the model generates (the `getA` / `GetA` document of `C05Body.clash_witness`, default options):
the emitted impl block and the constants it refers to, computed (the body then follows by `body_members`) -/
example :
    (match Sdl.fromSdl C05Body.clashSdl with
     | .ok s =>
       match generate s C05Body.clashCs {} "TEXT" C05Body.clashDoc with
       | .ok [m0, _] =>
         decide (m0.implQuery =
           { implFor := "getA", variablesTy := ⟨"get_a", "Variables"⟩, responseTy := ⟨"get_a", "ResponseData"⟩,
             params := ["variables"],
             body := [("variables", .local "variables"), ("query", .const ⟨"get_a", "QUERY"⟩),
                      ("operation_name", .const ⟨"get_a", "OPERATION_NAME"⟩)] }) &&
         decide (m0.consts = [("OPERATION_NAME", "getA"), ("QUERY", "TEXT")])
       | _ => false
     | .error _ => false) = true := by decide +kernel

end C05BodyModel
end GqlVerif
