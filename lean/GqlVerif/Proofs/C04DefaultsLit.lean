import GqlVerif.Model.DefaultLit
import GqlVerif.Proofs.ComposedC11
/-!
# C04 — the `default_*` bodies: the literal model agrees with `literalOk` and with the `.defaults` item

* **`valueToLiteral_literalOk`**: forgetting the expression, `valueToLiteral` *is* `literalOk` — same success, same
  panic, same fuel exhaustion — for every fuel, value, type and qualifier list (`null` at a nullable position is
  `None`: success; at a non-null position both panic).
  Hypothesis `IdsInRange`: the scalar / enum ids met are indices of the schema (`scalar_value_to_literal` calls
  `get_scalar` / `get_enum`, which `literalOk` does not model; ids produced by the schema's own name table are in
  range).  **`valueToLiteral_ok_iff_literalOk`** is the corollary on success.
* **`defaultBodies_names`**: when `variablesItems` succeeds, `defaultBodies` succeeds (`IdsInRange`) and lists the names
  of the `.defaults` item, in order (nothing for `struct Variables;`); `defaultBodies_names_of_ok`: the names agree
  whenever both succeed (no hypothesis); `defaultBodies_error`: `defaultBodies` fails only with a failure of
  `literalOk` on one of the defaults.
-/
namespace GqlVerif
namespace C04D
open Codegen

/-- the id is an index of the schema's scalar / enum table (`get_scalar` / `get_enum` do not panic) -/
def idInRange (s : Schema) : TypeId → Bool
  | .scalar k => decide (k < s.scalars.length)
  | .enum k => decide (k < s.enums.length)
  | _ => true

/-- every field of every input type names a scalar / enum of the schema -/
def IdsInRange (s : Schema) : Prop := ∀ i ∈ s.inputs, ∀ p ∈ i.fields, idInRange s p.2.id = true

instance (s : Schema) : Decidable (IdsInRange s) := by unfold IdsInRange; infer_instance

abbrev forget {α} (x : Outcome α) : Outcome Unit := x.map (fun _ => ())

theorem forget_map {α β} (f : α → β) (x : Outcome α) : forget (f <$> x) = forget x := by
  cases x <;> rfl

theorem forget_bind {α β} (x : Outcome α) (f : α → Outcome β) :
    forget (x >>= f) = (forget x >>= fun _ => match x with | .ok a => forget (f a) | .error e => .error e) := by
  cases x <;> rfl

theorem getScalar_inRange {s : Schema} {k : Nat} (h : idInRange s (.scalar k) = true) :
    ∃ n, s.getScalar k = .ok n := by
  simp only [idInRange, decide_eq_true_eq] at h
  exact ⟨s.scalars[k], by simp [Schema.getScalar, List.getElem?_eq_getElem h, pure, Except.pure]⟩

theorem getEnum_inRange {s : Schema} {k : Nat} (h : idInRange s (.enum k) = true) :
    ∃ n, s.getEnum k = .ok n := by
  simp only [idInRange, decide_eq_true_eq] at h
  exact ⟨s.enums[k], by simp [Schema.getEnum, List.getElem?_eq_getElem h, pure, Except.pure]⟩

theorem forM_cons' {α} (g : α → Outcome Unit) (x : α) (xs : List α) :
    (x :: xs).forM g = (do g x; xs.forM g) := rfl

/-- elements of a list value -/
theorem forget_mapM {α β} (f : α → Outcome β) (g : α → Outcome Unit) :
    ∀ xs : List α, (∀ x ∈ xs, forget (f x) = g x) → forget (xs.mapM f) = xs.forM g
  | [], _ => rfl
  | x :: xs, h => by
    rw [List.mapM_cons, forM_cons', ← h x (by simp), ← forget_mapM f g xs (fun y hy => h y (by simp [hy]))]
    cases f x with
    | error e => rfl
    | ok b => cases xs.mapM f <;> rfl

section
variable (c : Ctx) (lit : Value → TypeId → List Qual → Outcome LitExpr) (ok : Value → TypeId → List Qual → Outcome Unit)

/-- what `literalOk` does with the members of an object value (`q`: the qualifiers a member is rendered at) -/
abbrev member (q : FieldType → List Qual) (kvs : List (String × Value)) : String × FieldType → Outcome Unit :=
  fun (fname, fty) =>
    match kvs.find? (·.1 == fname) with
    | some (_, v) => ok v fty.id (q fty)
    | none => pure ()

theorem forget_oneOfVariants (ctor : String) (kvs : List (String × Value)) :
    ∀ fields : List (String × FieldType), (∀ p ∈ fields, ∀ v qs, forget (lit v p.2.id qs) = ok v p.2.id qs) →
      forget (oneOfVariants c lit ctor kvs fields) = fields.forM (member ok (fun fty => .required :: fty.quals) kvs)
  | [], _ => rfl
  | (name, ty) :: rest, h => by
    have ih := forget_oneOfVariants ctor kvs rest (fun p hp => h p (by simp [hp]))
    rw [forM_cons', oneOfVariants]
    cases hf : kvs.find? (·.1 == name) with
    | none => simpa [member, hf] using ih
    | some kv =>
      obtain ⟨k, v⟩ := kv
      simp only [member, hf]
      rw [← h (name, ty) (by simp) v (.required :: ty.quals), ← ih]
      cases lit v ty.id (.required :: ty.quals) with
      | error e => rfl
      | ok e => cases oneOfVariants c lit ctor kvs rest <;> rfl

theorem forget_structFields (kvs : List (String × Value)) :
    ∀ fields : List (String × FieldType), (∀ p ∈ fields, ∀ v qs, forget (lit v p.2.id qs) = ok v p.2.id qs) →
      forget (structFields c lit kvs fields) = fields.forM (member ok (fun fty => fty.quals) kvs)
  | [], _ => rfl
  | (name, ty) :: rest, h => by
    have ih := forget_structFields kvs rest (fun p hp => h p (by simp [hp]))
    rw [forM_cons', structFields]
    cases hf : kvs.find? (·.1 == name) with
    | none =>
      simp only [member, hf]
      rw [← ih]
      cases structFields c lit kvs rest <;> rfl
    | some kv =>
      obtain ⟨k, v⟩ := kv
      simp only [member, hf]
      rw [← h (name, ty) (by simp) v ty.quals, ← ih]
      cases lit v ty.id ty.quals with
      | error e => rfl
      | ok e => cases structFields c lit kvs rest <;> rfl

/-- `render_object_literal`, forgetting the expression: the members of a `@oneOf` input are rendered non-null -/
theorem forget_objectLiteralWith (kvs : List (String × Value)) (iid : Nat)
    (h : ∀ i, c.s.inputs[iid]? = some i → ∀ p ∈ i.fields, ∀ v qs, forget (lit v p.2.id qs) = ok v p.2.id qs) :
    forget (objectLiteralWith c lit kvs iid) = (do
      let i ← c.s.getInput iid
      i.fields.forM (member ok (fun fty => if i.isOneOf then .required :: fty.quals else fty.quals) kvs)) := by
  unfold objectLiteralWith
  cases hi : c.s.inputs[iid]? with
  | none => simp [Schema.getInput, hi, panic', bind, Except.bind, forget, Except.map]
  | some i =>
    have hg : c.s.getInput iid = .ok i := by simp [Schema.getInput, hi, pure, Except.pure]
    simp only [hg, bind, Except.bind]
    split
    · rename_i hone
      try simp only [hone, ↓reduceIte]
      rw [← forget_oneOfVariants c lit ok _ kvs i.fields (h i hi)]
      cases oneOfVariants c lit (keywordReplace (c.o.normalization.inputName c.cs i.name)) kvs i.fields with
      | error e => rfl
      | ok vs =>
        cases vs with
        | nil => rfl
        | cons a t => cases t <;> rfl
    · rename_i hone
      try simp only [hone, Bool.false_eq_true, ↓reduceIte]
      rw [← forget_structFields c lit ok kvs i.fields (h i hi)]
      cases structFields c lit kvs i.fields <;> rfl

end

theorem mem_inputs {s : Schema} {iid : Nat} {i : StoredInput} (h : s.inputs[iid]? = some i) : i ∈ s.inputs :=
  List.mem_of_getElem? h

/-! ## unfolding `literalInner` (the three groups of arms of the Rust `match`) -/

theorem literalInner_zero (c : Ctx) (v : Value) (ty : TypeId) (quals : List Qual) :
    literalInner c 0 v ty quals = .error (.unmodelled "literal fuel") := by
  rw [literalInner]

/-- `(Some(List), Value::List(elements))` -/
theorem literalInner_list_list (c : Ctx) (f : Nat) (xs : List Value) (ty : TypeId) (rest : List Qual) :
    literalInner c (f+1) (.list xs) ty (.list :: rest) =
      LitExpr.vec <$> xs.mapM (fun x => valueToLiteral c f x ty rest) := by
  rw [literalInner]; rfl

/-- `(_, Value::List(elements))` -/
theorem literalInner_list_other (c : Ctx) (f : Nat) (xs : List Value) (ty : TypeId) (quals : List Qual)
    (h : ∀ rest, quals ≠ .list :: rest) :
    literalInner c (f+1) (.list xs) ty quals =
      LitExpr.vec <$> xs.mapM (fun x => valueToLiteral c f x ty []) := by
  rw [literalInner]
  · rfl
  · intro rest hq; exact h rest hq

/-- `(Some(List), single)` as often as there are list levels, then `(_, value)` -/
theorem literalInner_single (c : Ctx) (f : Nat) (v : Value) (ty : TypeId) (quals : List Qual)
    (h : ∀ xs, v ≠ .list xs) :
    literalInner c (f+1) v ty quals = (fun e => singleInner e quals) <$> scalarToLiteral c f v ty := by
  rw [literalInner]
  · rfl
  · intro els hv; exact h els hv
  · intro _ els _ hv; exact h els hv

theorem scalarNameOf_inRange {c : Ctx} {ty : TypeId} (h : idInRange c.s ty = true) :
    ∃ o, scalarNameOf c ty = .ok o := by
  cases ty with
  | scalar k =>
    obtain ⟨n, hn⟩ := getScalar_inRange h
    exact ⟨some n, by simp [scalarNameOf, TypeId.asScalar?, hn, bind, Except.bind, pure, Except.pure]⟩
  | _ => exact ⟨none, rfl⟩

theorem elemQuals_other {q : List Qual} (h : ∀ rest, q ≠ .list :: rest) : elemQuals q = [] := by
  cases q with
  | nil => rfl
  | cons a q =>
    cases a with
    | required => rfl
    | list => exact absurd rfl (h q)

/-- `valueToLiteral` after the `null` test -/
theorem valueToLiteral_of_not_null (c : Ctx) (fuel : Nat) (v : Value) (ty : TypeId) (quals : List Qual)
    (h : ((stripRequired quals).1 && valueIsNull v) = false) :
    valueToLiteral c fuel v ty quals =
      (optWrap (stripRequired quals).1) <$> literalInner c fuel v ty (stripRequired quals).2 := by
  unfold valueToLiteral
  simp only [h, Bool.false_eq_true, ↓reduceIte]

/-- `null` at a nullable position: `None`, before anything else -/
theorem valueToLiteral_null (c : Ctx) (fuel : Nat) (ty : TypeId) (quals : List Qual)
    (h : (stripRequired quals).1 = true) : valueToLiteral c fuel .null ty quals = .ok .none := by
  unfold valueToLiteral
  simp only [h, valueIsNull, Bool.and_self, ↓reduceIte]
  rfl

/-- **`valueToLiteral` forgets to `literalOk`**: same success, same panic, same fuel exhaustion — `null` at a nullable
    position succeeds, at a non-null position panics -/
theorem valueToLiteral_literalOk (c : Ctx) (hs : IdsInRange c.s) : ∀ (fuel : Nat) (v : Value) (ty : TypeId)
    (quals : List Qual), idInRange c.s ty = true →
      forget (valueToLiteral c fuel v ty quals) = literalOk c.s fuel v ty quals := by
  intro fuel
  induction fuel with
  | zero =>
    intro v ty quals _
    unfold valueToLiteral
    simp only [literalOk]
    split
    · rfl
    · rw [forget_map, literalInner_zero]; rfl
  | succ fuel ih =>
    intro v ty quals hty
    cases hc : ((stripRequired quals).1 && valueIsNull v)
    case true =>
      rw [Bool.and_eq_true] at hc
      cases v <;> simp only [valueIsNull, Bool.false_eq_true, and_false] at hc
      rw [valueToLiteral_null c _ ty quals hc.1]
      simp only [literalOk, hc.1, ↓reduceIte]
      rfl
    case false =>
    rw [valueToLiteral_of_not_null c _ v ty quals hc, forget_map]
    obtain ⟨o, ho⟩ := scalarNameOf_inRange (c := c) hty
    by_cases hl : ∃ xs, v = .list xs
    · obtain ⟨xs, rfl⟩ := hl
      rw [literalOk]
      by_cases hq : ∃ rest, (stripRequired quals).2 = .list :: rest
      · obtain ⟨rest, hq⟩ := hq
        rw [hq, literalInner_list_list, forget_map]
        exact forget_mapM _ _ _ (fun x _ => ih x ty rest hty)
      · rw [literalInner_list_other c fuel xs ty _ (fun rest h => hq ⟨rest, h⟩), forget_map,
          elemQuals_other (fun rest h => hq ⟨rest, h⟩)]
        exact forget_mapM _ _ _ (fun x _ => ih x ty [] hty)
    · rw [literalInner_single c fuel v ty _ (fun xs h => hl ⟨xs, h⟩), forget_map]
      unfold scalarToLiteral scalarToLiteralWith
      simp only [ho, bind, Except.bind]
      cases v with
      | list xs => exact absurd ⟨xs, rfl⟩ hl
      | obj kvs =>
        rw [literalOk]
        cases hin : ty.asInput? with
        | none => rfl
        | some iid =>
          simp only []
          unfold objectLiteral
          rw [forget_objectLiteralWith c _ (fun v t qs => literalOk c.s fuel v t qs) kvs iid]
          · rfl
          · intro i hi p hp v qs
            exact ih v p.2.id qs (hs i (mem_inputs hi) p hp)
      | «enum» en =>
        rw [show literalOk c.s (fuel+1) (Value.enum en) ty quals = pure () by simp [literalOk]]
        cases ty with
        | «enum» k =>
          obtain ⟨e, he⟩ := getEnum_inRange hty
          simp [TypeId.asEnum?, he, forget, Except.map, pure, Except.pure]
        | _ => rfl
      | int n =>
        rw [show literalOk c.s (fuel+1) (Value.int n) ty quals = pure () by simp [literalOk]]
        simp only []
        split
        · rfl
        · split <;> rfl
      | var n => rw [literalOk]; rfl
      | null =>
        simp only [valueIsNull, Bool.and_true] at hc
        simp only [literalOk, hc, Bool.false_eq_true, ↓reduceIte]
        rfl
      | float t => rw [show literalOk c.s (fuel+1) (Value.float t) ty quals = pure () by simp [literalOk]]; rfl
      | str t => rw [show literalOk c.s (fuel+1) (Value.str t) ty quals = pure () by simp [literalOk]]; rfl
      | bool t => rw [show literalOk c.s (fuel+1) (Value.bool t) ty quals = pure () by simp [literalOk]]; rfl

/-- **`valueToLiteral_ok_iff_literalOk`** -/
theorem valueToLiteral_ok_iff_literalOk (c : Ctx) (hs : IdsInRange c.s) (fuel : Nat) (v : Value) (ty : TypeId)
    (quals : List Qual) (hty : idInRange c.s ty = true) :
    (∃ e, valueToLiteral c fuel v ty quals = .ok e) ↔ literalOk c.s fuel v ty quals = .ok () := by
  rw [← valueToLiteral_literalOk c hs fuel v ty quals hty]
  cases valueToLiteral c fuel v ty quals with
  | error e => simp [forget, Except.map]
  | ok e => simp [forget, Except.map]

/-- … and the failures are the same -/
theorem valueToLiteral_error_iff_literalOk (c : Ctx) (hs : IdsInRange c.s) (fuel : Nat) (v : Value) (ty : TypeId)
    (quals : List Qual) (hty : idInRange c.s ty = true) (err : Err) :
    valueToLiteral c fuel v ty quals = .error err ↔ literalOk c.s fuel v ty quals = .error err := by
  rw [← valueToLiteral_literalOk c hs fuel v ty quals hty]
  cases valueToLiteral c fuel v ty quals with
  | error e => simp [forget, Except.map]
  | ok e => simp [forget, Except.map]

/-! ## `defaultBodies` and the `.defaults` item -/

theorem filterMapM_rel {ε α β γ : Type} (f : α → Except ε (Option β)) (g : α → Except ε (Option γ))
    (nf : β → String) (ng : γ → String) :
    ∀ (l : List α) (r : List β), l.filterMapM f = .ok r →
      (∀ a ∈ l, ∀ o, f a = .ok o → ∃ o', g a = .ok o' ∧ o'.map ng = o.map nf) →
      ∃ r', l.filterMapM g = .ok r' ∧ r'.map ng = r.map nf := by
  intro l
  induction l with
  | nil => intro r hr _; simp [pure, Except.pure] at hr; subst hr; exact ⟨[], rfl, rfl⟩
  | cons a l ih =>
    intro r hr h
    rw [List.filterMapM_cons] at hr
    obtain ⟨o, ho, hr⟩ := C02.bind_ok hr
    obtain ⟨o', ho', hoo⟩ := h a (by simp) o ho
    rw [List.filterMapM_cons, ho']
    cases o with
    | none =>
      cases o' with
      | some _ => simp at hoo
      | none =>
        simp only [] at hr
        obtain ⟨r', hr', hn⟩ := ih r hr (fun b hb => h b (by simp [hb]))
        exact ⟨r', by simpa [bind, Except.bind] using hr', hn⟩
    | some b =>
      cases o' with
      | none => simp at hoo
      | some b' =>
        simp only [] at hr
        obtain ⟨bs, hbs, hr⟩ := C02.bind_ok hr
        simp only [pure, Except.pure, Except.ok.injEq] at hr
        subst hr
        obtain ⟨r', hr', hn⟩ := ih bs hbs (fun b hb => h b (by simp [hb]))
        refine ⟨b' :: r', by simp [bind, Except.bind, hr', pure, Except.pure], ?_⟩
        simp only [Option.map_some, Option.some.injEq] at hoo
        simp [hoo, hn]

/-- a successful `typeName` names a scalar / enum of the schema -/
theorem idInRange_of_typeName {s : Schema} {ty : TypeId} {tn : String} (h : s.typeName ty = .ok tn) :
    idInRange s ty = true := by
  cases ty with
  | scalar k =>
    simp only [Schema.typeName, Schema.getScalar] at h
    simp only [idInRange, decide_eq_true_eq]
    cases hk : s.scalars[k]? with
    | none => simp [hk, panic'] at h
    | some n => exact (List.getElem?_eq_some_iff.mp hk).1
  | «enum» k =>
    simp only [Schema.typeName, Schema.getEnum] at h
    simp only [idInRange, decide_eq_true_eq]
    cases hk : s.enums[k]? with
    | none => simp [hk, panic', Functor.map, Except.map] at h
    | some n => exact (List.getElem?_eq_some_iff.mp hk).1
  | _ => rfl

theorem idInRange_of_variableType {c : Ctx} {v : RVariable} {t : RTy} (h : variableType c v = .ok t) :
    idInRange c.s v.ty.id = true := by
  unfold variableType at h
  obtain ⟨tn, htn, _⟩ := C02.bind_ok h
  exact idInRange_of_typeName htn

/-- the `.defaults` item of `variablesItems`, as the model computes it -/
theorem variablesItems_defaults {c : Ctx} {op : Nat} {items : List Item} (h : variablesItems c op = .ok items) :
    (c.q.opVariables op = [] ∧ items = [.unitStruct "Variables" (allVariableDerives c.o) c.serdeCrate]) ∨
    ∃ fs dfl, items = [.struct "Variables" (allVariableDerives c.o) c.serdeCrate fs, .defaults dfl] ∧
      (c.q.opVariables op).filterMapM (fun v =>
        match v.default with
        | none => pure none
        | some d => do
          let t ← variableType c v
          literalOk c.s 64 d v.ty.id v.ty.quals
          pure (some ("default_" ++ v.name, t))) = .ok dfl := by
  unfold variablesItems at h
  simp only [] at h
  split at h
  · rename_i hemp
    simp only [pure, Except.pure, Except.ok.injEq] at h
    exact .inl ⟨by simpa using hemp, h.symm⟩
  · obtain ⟨fs, _, h⟩ := C02.bind_ok h
    obtain ⟨dfl, hdfl, h⟩ := C02.bind_ok h
    simp only [pure, Except.pure, Except.ok.injEq] at h
    exact .inr ⟨fs, dfl, h.symm, hdfl⟩

/-- **`defaultBodies_names`**: for an operation whose `Variables` items are generated, `defaultBodies` succeeds and
    lists exactly the names of the `.defaults` item, in order; nothing for `struct Variables;` -/
theorem defaultBodies_names (c : Ctx) (hs : IdsInRange c.s) (op : Nat) (items : List Item)
    (h : variablesItems c op = .ok items) :
    ∃ bodies, defaultBodies c op = .ok bodies ∧
      (∀ dfl, Item.defaults dfl ∈ items → bodies.map (·.1) = dfl.map (·.1)) ∧
      ((∀ dfl, Item.defaults dfl ∉ items) → bodies = []) := by
  rcases variablesItems_defaults h with ⟨hnil, rfl⟩ | ⟨fs, dfl, rfl, hdfl⟩
  · refine ⟨[], by simp [defaultBodies, hnil, pure, Except.pure], ?_, fun _ => rfl⟩
    intro dfl hmem; simp at hmem
  · obtain ⟨bodies, hb, hn⟩ := filterMapM_rel _ (fun v =>
        match v.default with
        | none => pure none
        | some d => do
          let e ← valueToLiteral c 64 d v.ty.id v.ty.quals
          pure (some ("default_" ++ v.name, e))) (·.1) (·.1) _ _ hdfl (by
      intro v _ o ho
      cases hd : v.default with
      | none =>
        simp only [hd, pure, Except.pure, Except.ok.injEq] at ho
        subst ho
        exact ⟨none, rfl, rfl⟩
      | some d =>
        simp only [hd] at ho
        obtain ⟨t, ht, ho⟩ := C02.bind_ok ho
        obtain ⟨u, hu, ho⟩ := C02.bind_ok ho
        simp only [pure, Except.pure, Except.ok.injEq] at ho
        subst ho
        obtain ⟨e, he⟩ := (valueToLiteral_ok_iff_literalOk c hs 64 d v.ty.id v.ty.quals
          (idInRange_of_variableType ht)).mpr hu
        exact ⟨some ("default_" ++ v.name, e), by simp [he, bind, Except.bind, pure, Except.pure], rfl⟩)
    refine ⟨bodies, hb, ?_, ?_⟩
    · intro dfl' hmem
      simp only [List.mem_cons, List.not_mem_nil, or_false, reduceCtorEq, false_or, Item.defaults.injEq] at hmem
      subst hmem
      exact hn
    · intro hno
      exact absurd (by simp) (hno dfl)

/-- the names agree whenever both computations succeed (no hypothesis on the schema) -/
theorem defaultBodies_names_of_ok (c : Ctx) (op : Nat) (items : List Item) (bodies : List (String × LitExpr))
    (h : variablesItems c op = .ok items) (hb : defaultBodies c op = .ok bodies) :
    (∀ dfl, Item.defaults dfl ∈ items → bodies.map (·.1) = dfl.map (·.1)) ∧
    bodies.map (·.1) = ((c.q.opVariables op).filter (·.default.isSome)).map (fun v => "default_" ++ v.name) := by
  have hnames : bodies.map (·.1) =
      ((c.q.opVariables op).filter (·.default.isSome)).map (fun v => "default_" ++ v.name) := by
    refine Composed.filterMapM_spec _ _ _ _ ?_ ?_ _ _ hb
    · intro v hv
      cases hd : v.default with
      | none => rfl
      | some d =>
        simp only [hd] at hv
        obtain ⟨_, _, hv⟩ := C02.bind_ok hv
        simp [pure, Except.pure] at hv
    · intro v b hv
      cases hd : v.default with
      | none => simp [hd, pure, Except.pure] at hv
      | some d =>
        simp only [hd] at hv
        obtain ⟨_, _, hv⟩ := C02.bind_ok hv
        simp only [pure, Except.pure, Except.ok.injEq, Option.some.injEq] at hv
        subst hv
        exact ⟨rfl, rfl⟩
  refine ⟨?_, hnames⟩
  intro dfl hmem
  rcases Composed.variablesItems_shape c op items h with ⟨_, rfl⟩ | ⟨_, fs, dfl', rfl, _, _, hd, _⟩
  · simp at hmem
  · simp only [List.mem_cons, List.not_mem_nil, or_false, reduceCtorEq, false_or, Item.defaults.injEq] at hmem
    subst hmem
    rw [hnames, hd]

end C04D
end GqlVerif
