import GqlVerif.Proofs.C01EndToEnd
/-!
# C01 / C03 end to end for abstract positions, part A: specification, class `VariantOp`, closed form

Extends `C01EndToEndA` (class `TreeOp`) by selection sets on *interface / union* typed fields of the form
`{ __typename <fields of the interface>* (... on T { selection })* }`.

* `conformsV s rt sels j` — the **specification** with runtime types, written from the GraphQL spec
  (§6.4.2 ExecuteSelectionSet, §6.4.3 CollectFields with `DoesFragmentTypeApply`, §6.4.4 CompleteValue with
  `ResolveAbstractType`): `j` is the response object of the selection set `sels` executed on an object whose
  runtime type is the object type number `rt`.  An inline fragment contributes its fields exactly when its
  type condition applies to `rt` (`fragApplies`); at a field of composite type the value is the response
  object of the sub-selection for *some* object type that is a possible type of the field's type.
  (Valid, like `conformsSel`, for selection sets whose collected response keys are pairwise distinct — no
  field merging is needed inside the class.)
* `VariantOp c op` — the class (decidable).  `vSel` / `vSels` the selection tree, `absOk` the conditions at an
  abstract position; among them **no response key both at the interface level and inside an inline
  fragment** — necessary: `C01.overlap_loses_key` (known finding `C01-overlap`).
* `itemsV` / `fieldsOfV` / `variantsV` — closed form of the emitted items.
* `variant_items_shape` — `responseItems c op = .ok (structItemsV …)` for every operation of the class.
-/
set_option linter.unusedSimpArgs false
set_option linter.unusedVariables false

namespace GqlVerif
namespace C01
namespace E2E
open Serde Spec C13 C03 Codegen

/-! ## the specification (GraphQL spec §6.4) -/

/-- `DoesFragmentTypeApply(objectType, fragmentType)` (§6.4.3): the fragment's type condition is the object
    type itself, an interface it implements, or a union it is a member of -/
def fragApplies (s : Schema) (rt : Nat) : TypeId → Bool
  | .object i => i == rt
  | .interface k => (match s.objects[rt]? with | some o => o.implements.contains k | none => false)
  | .union u => (match s.unions[u]? with | some un => un.variants.contains (.object rt) | none => false)
  | _ => false

/-- the name of the object type number `rt` (what `__typename` resolves to) -/
def rtName (s : Schema) (rt : Nat) : String :=
  match s.objects[rt]? with
  | some o => o.name
  | none => ""

mutual
  /-- the response keys `CollectFields(rt, sels)` groups by -/
  def keysSelV (s : Schema) (rt : Nat) : Sel → List String
    | .field a fid _ => (match s.fields[fid]? with | some sf => [a.getD sf.name] | none => [])
    | .typename => ["__typename"]
    | .inline t sub => if fragApplies s rt t then keysSelsV s rt sub else []
    | .spread _ => []
  def keysSelsV (s : Schema) (rt : Nat) : List Sel → List String
    | [] => []
    | x :: xs => keysSelV s rt x ++ keysSelsV s rt xs
end

mutual
  /-- what the response object of an object of runtime type `rt` must carry for one selection -/
  def confSelV (s : Schema) (rt : Nat) : Sel → List (String × Json) → Bool
    | .field a fid sub, kvs =>
      match s.fields[fid]? with
      | none => false
      | some sf =>
        match Json.lookup (a.getD sf.name) kvs with
        | none => false
        | some v =>
          match sf.ty.id with
          | .scalar k => (match s.scalars[k]? with
            | some n => accepts (scalarOk n) (gtyOf sf.ty.quals) v
            | none => false)
          | .enum k => (match s.enums[k]? with
            | some _ => accepts stringOk (gtyOf sf.ty.quals) v
            | none => false)
          | .input _ => false
          | t =>
            -- composite type: the value is the response object of `sub` for some object type `rt'` that is
            -- a possible type of `t` (`ResolveAbstractType`; for an object type: that type)
            accepts (fun j => match j with
              | .obj kvs' => (List.range s.objects.length).any (fun rt' => fragApplies s rt' t &&
                  EnumSpec.nodup (kvs'.map (·.1)) && kvs'.all (fun kv => (keysSelsV s rt' sub).contains kv.1) &&
                  confSelsV s rt' sub kvs')
              | _ => false) (gtyOf sf.ty.quals) v
    | .typename, kvs => (match Json.lookup "__typename" kvs with | some (.str n) => n == rtName s rt | _ => false)
    | .inline t sub, kvs => !fragApplies s rt t || confSelsV s rt sub kvs
    | .spread _, _ => false
  def confSelsV (s : Schema) (rt : Nat) : List Sel → List (String × Json) → Bool
    | [], _ => true
    | x :: xs, kvs => confSelV s rt x kvs && confSelsV s rt xs kvs
end

/-- **the specification**: `j` is the response object of `sels` on an object of runtime type `rt` -/
def conformsV (s : Schema) (rt : Nat) (sels : List Sel) : Json → Bool
  | .obj kvs => EnumSpec.nodup (kvs.map (·.1)) && kvs.all (fun kv => (keysSelsV s rt sels).contains kv.1) &&
      confSelsV s rt sels kvs
  | _ => false

/-- the response object of `sub` at a position of composite type `t` -/
def conformsAt (s : Schema) (t : TypeId) (sub : List Sel) (j : Json) : Bool :=
  (List.range s.objects.length).any (fun rt' => fragApplies s rt' t && conformsV s rt' sub j)

/-! ## the class -/

/-- the possible types of an abstract type as the generator enumerates them (pure form of `variantsOf`) -/
def vtsOfTy (s : Schema) : TypeId → List TypeId
  | .interface k => (s.implementors k).map .object
  | .union u => (match s.unions[u]? with | some un => un.variants | none => [])
  | _ => []

/-- the name of an object type id (`""` otherwise) -/
def objName (s : Schema) : TypeId → String
  | .object i => rtName s i
  | _ => ""

def isTypename : Sel → Bool
  | .typename => true
  | _ => false

def isFieldSel : Sel → Bool
  | .field .. => true
  | _ => false

def inlineTy : Sel → Option TypeId
  | .inline t _ => some t
  | _ => none

/-- response keys of the `.field` selections -/
def fieldKey (s : Schema) : Sel → Option String
  | .field a fid _ => (s.fields[fid]?).map (fun sf => a.getD sf.name)
  | _ => none

def fieldKeys (s : Schema) (sels : List Sel) : List String := sels.filterMap (fieldKey s)

/-- the names of the variants of the emitted `__typename`-tagged enum -/
def variantNames (s : Schema) (o : Options) (ty : TypeId) : List String :=
  (vtsOfTy s ty).map (objName s) ++ (if o.otherVariant then ["Unknown"] else [])

/-- conditions at an abstract position of type `ty` with sub-selection `sub` (all decidable):
    `__typename` is selected; the interface-level response keys are pairwise distinct; the possible types are
    object types that exist, there is at least one variant, variant names pairwise distinct; every inline
    fragment is on a possible type, at most one per type; and **no field key of an inline fragment is also
    an interface-level response key** (the known finding `C01-overlap`, see `overlap_loses_key`) -/
def absOk (s : Schema) (o : Options) (ty : TypeId) (sub : List Sel) : Bool :=
  sub.any isTypename &&
  EnumSpec.nodup (respKeys s sub) &&
  (vtsOfTy s ty).all (fun t => match t with | .object i => (s.objects[i]?).isSome | _ => false) &&
  !(variantNames s o ty).isEmpty &&
  EnumSpec.nodup (variantNames s o ty) &&
  (sub.filterMap inlineTy).all (fun t => (vtsOfTy s ty).contains t) &&
  decide ((sub.filterMap inlineTy).Nodup) &&
  sub.all (fun x => match x with
    | .inline _ isub => (fieldKeys s isub).all (fun k => !(respKeys s sub).contains k)
    | _ => true)

mutual
  /-- one selection of the class; `abs`: the selection set it belongs to is on an abstract type (there,
      inline fragments on object types are allowed) -/
  def vSel (s : Schema) (o : Options) : Bool → Sel → Bool
    | _, .field _ fid sub =>
      match s.fields[fid]? with
      | none => false
      | some sf =>
        wfQuals sf.ty.quals && !(sf.deprecation.isSome && o.deprecation == .deny) &&
        (match sf.ty.id with
         | .scalar k => (s.scalars[k]?).isSome && sub.isEmpty
         | .enum k => (s.enums[k]?).isSome && sub.isEmpty
         | .object i => (s.objects[i]?).isSome && vSels s o false sub && EnumSpec.nodup (respKeys s sub)
         | .interface k => (s.interfaces[k]?).isSome && vSels s o true sub && absOk s o (.interface k) sub
         | .union u => (s.unions[u]?).isSome && vSels s o true sub && absOk s o (.union u) sub
         | .input _ => false)
    | _, .typename => true
    | abs, .inline t sub =>
      abs && (match t with | .object i => (s.objects[i]?).isSome | _ => false) &&
        vSels s o false sub && EnumSpec.nodup (respKeys s sub)
    | _, .spread _ => false
  def vSels (s : Schema) (o : Options) : Bool → List Sel → Bool
    | _, [] => true
    | abs, x :: xs => vSel s o abs x && vSels s o abs xs
end

/-- **the class** (decidable): normalization `none`, the root object exists, the selection tree is in the
    class, root response keys pairwise distinct -/
def VariantOp (c : Ctx) (op : ROperation) : Bool :=
  c.o.normalization == .none && (c.s.objects[op.objectId]?).isSome &&
  vSels c.s c.o false op.sels && EnumSpec.nodup (respKeys c.s op.sels)

/-! ## closed form of the emitted items -/

/-- the type name at the leaf of a field's Rust type (path rule for every composite type) -/
def leafNameV (c : Ctx) (pfx g : String) : TypeId → Option String
  | .scalar k => c.s.scalars[k]?
  | .enum k => (c.s.enums[k]?).map (·.name)
  | .input _ => none
  | _ => some (pfx ++ c.cs.camel g)

def fieldOfSelV (c : Ctx) (pfx : String) : Sel → Option RField
  | .field a fid _ =>
    match c.s.fields[fid]? with
    | none => none
    | some sf =>
      match leafNameV c pfx (a.getD sf.name) sf.ty.id with
      | none => none
      | some ft => some (fieldOf c (a.getD sf.name) ft sf.ty.quals sf.deprecation)
  | _ => none

def fieldsOfV (c : Ctx) (pfx : String) (sels : List Sel) : List RField := sels.filterMap (fieldOfSelV c pfx)

/-- the variant of the tagged enum for the possible type `vt`: a newtype variant around the struct
    `pfx ++ "On" ++ name` when `sub` has an inline fragment on `vt`, a unit variant otherwise -/
def variantOf (c : Ctx) (pfx : String) (sub : List Sel) (vt : TypeId) : RVariant :=
  if (sub.filterMap inlineTy).contains vt then
    { name := objName c.s vt, payload := some (.path (pfx ++ "On" ++ objName c.s vt)) }
  else { name := objName c.s vt }

def otherVariants (o : Options) : List RVariant :=
  if o.otherVariant then [{ name := "Unknown", other := true }] else []

def variantsV (c : Ctx) (pfx : String) (ty : TypeId) (sub : List Sel) : List RVariant :=
  (vtsOfTy c.s ty).map (variantOf c pfx sub) ++ otherVariants c.o

mutual
  def itemsV (c : Ctx) (pfx : String) : Sel → List Item
    | .field a fid sub =>
      match c.s.fields[fid]? with
      | none => []
      | some sf =>
        match sf.ty.id with
        | .object _ =>
          .struct (pfx ++ c.cs.camel (a.getD sf.name)) c.respDerives c.serdeCrate
              (fieldsOfV c (pfx ++ c.cs.camel (a.getD sf.name)) sub) ::
            itemsVs c (pfx ++ c.cs.camel (a.getD sf.name)) sub
        | .interface k =>
          renderType c (pfx ++ c.cs.camel (a.getD sf.name)) (fieldsOfV c (pfx ++ c.cs.camel (a.getD sf.name)) sub)
              (variantsV c (pfx ++ c.cs.camel (a.getD sf.name)) (.interface k) sub) ++
            (vtsOfTy c.s (.interface k)).flatMap (fun vt => inlItems c (pfx ++ c.cs.camel (a.getD sf.name)) vt sub) ++
            itemsVs c (pfx ++ c.cs.camel (a.getD sf.name)) sub
        | .union u =>
          renderType c (pfx ++ c.cs.camel (a.getD sf.name)) (fieldsOfV c (pfx ++ c.cs.camel (a.getD sf.name)) sub)
              (variantsV c (pfx ++ c.cs.camel (a.getD sf.name)) (.union u) sub) ++
            (vtsOfTy c.s (.union u)).flatMap (fun vt => inlItems c (pfx ++ c.cs.camel (a.getD sf.name)) vt sub) ++
            itemsVs c (pfx ++ c.cs.camel (a.getD sf.name)) sub
        | _ => []
    | _ => []
  def itemsVs (c : Ctx) (pfx : String) : List Sel → List Item
    | [] => []
    | x :: xs => itemsV c pfx x ++ itemsVs c pfx xs
  /-- the variant struct (and its nested items) of an inline fragment on `vt` -/
  def inlItem (c : Ctx) (pfx : String) (vt : TypeId) : Sel → List Item
    | .inline t isub =>
      if t == vt then
        .struct (pfx ++ "On" ++ objName c.s vt) c.respDerives c.serdeCrate
            (fieldsOfV c (pfx ++ "On" ++ c.cs.camel (objName c.s t)) isub) ::
          itemsVs c (pfx ++ "On" ++ c.cs.camel (objName c.s t)) isub
      else []
    | _ => []
  def inlItems (c : Ctx) (pfx : String) (vt : TypeId) : List Sel → List Item
    | [] => []
    | x :: xs => inlItem c pfx vt x ++ inlItems c pfx vt xs
end

/-- **closed form**: the struct `name` of the (object-level) selection set, followed by the items of its nested
    selection sets (depth first, in selection order; at an abstract position: the struct / tagged enum,
    then the variant structs in variant order, then the items of the interface-level fields) -/
def structItemsV (c : Ctx) (name pfx : String) (sels : List Sel) : List Item :=
  .struct name c.respDerives c.serdeCrate (fieldsOfV c pfx sels) :: itemsVs c pfx sels

/-- closed form at an abstract position -/
def absItemsV (c : Ctx) (name pfx : String) (ty : TypeId) (sels : List Sel) : List Item :=
  renderType c name (fieldsOfV c pfx sels) (variantsV c pfx ty sels) ++
    (vtsOfTy c.s ty).flatMap (fun vt => inlItems c pfx vt sels) ++ itemsVs c pfx sels


/-! ## Theorem 1 -/

theorem vSels_cons {s : Schema} {o : Options} {abs : Bool} {x : Sel} {xs : List Sel}
    (h : vSels s o abs (x :: xs) = true) : vSel s o abs x = true ∧ vSels s o abs xs = true := by
  simpa [vSels] using h

theorem vSels_mem {s : Schema} {o : Options} {abs : Bool} : ∀ {sels : List Sel}, vSels s o abs sels = true →
    ∀ x ∈ sels, vSel s o abs x = true
  | [], _, _, hx => by simp at hx
  | y :: ys, h, x, hx => by
    obtain ⟨h1, h2⟩ := vSels_cons h
    rcases List.mem_cons.mp hx with rfl | hx'
    · exact h1
    · exact vSels_mem h2 x hx'

/-- the inline fragments of a selection set, as `VariantSel`s -/
def vselOf : Sel → Option VariantSel
  | .inline t sub => some (.inline t sub)
  | _ => none

def vselsOf (sels : List Sel) : List VariantSel := sels.filterMap vselOf

theorem no_spread_of_vSels {s : Schema} {o : Options} {abs : Bool} : ∀ {sels : List Sel}, vSels s o abs sels = true →
    ∀ g, Sel.spread g ∉ sels
  | [], _, g, h => by simp at h
  | x :: xs, h, g, hm => by
    obtain ⟨hx, hxs⟩ := vSels_cons h
    rcases List.mem_cons.mp hm with rfl | hm'
    · simp [vSel] at hx
    · exact no_spread_of_vSels hxs g hm'

theorem filterMapM_variantSel (q : Query) (ty : TypeId) : ∀ (sels : List Sel), (∀ g, Sel.spread g ∉ sels) →
    sels.filterMapM (variantSelOf q ty) = .ok (vselsOf sels)
  | [], _ => rfl
  | x :: xs, h => by
    have ih := filterMapM_variantSel q ty xs (fun g hm => h g (List.mem_cons_of_mem _ hm))
    rw [List.filterMapM_cons]
    cases x with
    | field a fid sub => simp [variantSelOf, ih, vselsOf, vselOf, List.filterMap_cons, bind, Except.bind, pure, Except.pure]
    | inline t sub => simp [variantSelOf, ih, vselsOf, vselOf, List.filterMap_cons, bind, Except.bind, pure, Except.pure]
    | spread g => exact absurd (List.mem_cons_self) (h g)
    | typename => simp [variantSelOf, ih, vselsOf, vselOf, List.filterMap_cons, bind, Except.bind, pure, Except.pure]


theorem typeName_obj {s : Schema} {i : Nat} (h : (s.objects[i]?).isSome = true) :
    s.typeName (.object i) = .ok (objName s (.object i)) := by
  cases ho : s.objects[i]? with
  | none => simp [ho] at h
  | some o => simp [Schema.typeName, Schema.getObject, ho, objName, rtName, pure, Except.pure, Functor.map, Except.map]

theorem variantsOf_abs {s : Schema} {ty : TypeId}
    (h : match ty with | .interface _ => True | .union u => (s.unions[u]?).isSome = true | _ => False) :
    variantsOf s ty = .ok (some (vtsOfTy s ty)) := by
  cases ty with
  | interface k => rfl
  | union u =>
    simp only at h
    cases hu : s.unions[u]? with
    | none => simp [hu] at h
    | some un => simp [variantsOf, Schema.getUnion, hu, vtsOfTy, bind, Except.bind, pure, Except.pure]
  | object i => exact h.elim
  | scalar i => exact h.elim
  | «enum» i => exact h.elim
  | input i => exact h.elim

/-- with at most one inline fragment per type: the selections attached to the variant `vt` -/
theorem filter_vsels (c : Ctx) (pfx : String) (vt : TypeId) : ∀ (sels : List Sel), (sels.filterMap inlineTy).Nodup →
    (vt ∉ sels.filterMap inlineTy →
      (vselsOf sels).filter (fun v => v.typeId == vt) = [] ∧ inlItems c pfx vt sels = []) ∧
    (vt ∈ sels.filterMap inlineTy → ∃ isub, Sel.inline vt isub ∈ sels ∧
      (vselsOf sels).filter (fun v => v.typeId == vt) = [.inline vt isub] ∧
      inlItems c pfx vt sels = inlItem c pfx vt (.inline vt isub))
  | [], _ => by simp [vselsOf, inlItems]
  | x :: xs, hnd => by
    cases x with
    | inline t sub =>
      simp only [List.filterMap_cons, inlineTy, List.nodup_cons] at hnd
      have ih := filter_vsels c pfx vt xs hnd.2
      by_cases htv : t = vt
      · subst htv
        obtain ⟨h1, h2⟩ := ih.1 hnd.1
        refine ⟨fun hn => absurd (by simp [inlineTy]) hn, fun _ => ⟨sub, by simp, ?_, ?_⟩⟩
        · have e : vselsOf (Sel.inline t sub :: xs) = .inline t sub :: vselsOf xs := rfl
          rw [e, List.filter_cons, h1]; simp [VariantSel.typeId]
        · rw [inlItems, h2, List.append_nil]
      · have hne : (t == vt) = false := by simpa using htv
        have hi : inlItem c pfx vt (.inline t sub) = [] := by simp [inlItem, hne]
        constructor
        · intro hn
          have hn' : vt ∉ xs.filterMap inlineTy := fun hm => hn (by simp [List.filterMap_cons, inlineTy, hm])
          obtain ⟨h1, h2⟩ := ih.1 hn'
          have e : vselsOf (Sel.inline t sub :: xs) = .inline t sub :: vselsOf xs := rfl
          refine ⟨by rw [e, List.filter_cons, h1]; simp [VariantSel.typeId, hne], ?_⟩
          rw [inlItems, hi, h2]; rfl
        · intro hm
          have hm' : vt ∈ xs.filterMap inlineTy := by
            simp only [List.filterMap_cons, inlineTy, List.mem_cons] at hm
            rcases hm with rfl | hm
            · exact absurd rfl htv
            · exact hm
          obtain ⟨isub, h0, h1, h2⟩ := ih.2 hm'
          have e : vselsOf (Sel.inline t sub :: xs) = .inline t sub :: vselsOf xs := rfl
          refine ⟨isub, List.mem_cons_of_mem _ h0,
            by rw [e, List.filter_cons, h1]; simp [VariantSel.typeId, hne], ?_⟩
          rw [inlItems, hi, h2]; rfl
    | field a fid sub =>
      have e1 : (Sel.field a fid sub :: xs).filterMap inlineTy = xs.filterMap inlineTy := by simp [List.filterMap_cons, inlineTy]
      have e2 : vselsOf (Sel.field a fid sub :: xs) = vselsOf xs := by simp [vselsOf, List.filterMap_cons, vselOf]
      have e3 : inlItems c pfx vt (Sel.field a fid sub :: xs) = inlItems c pfx vt xs := by simp [inlItems, inlItem]
      rw [e1] at hnd ⊢
      rw [e2, e3]
      obtain ⟨h1, h2⟩ := filter_vsels c pfx vt xs hnd
      exact ⟨h1, fun hm => by obtain ⟨isub, h0, h⟩ := h2 hm; exact ⟨isub, List.mem_cons_of_mem _ h0, h⟩⟩
    | spread g =>
      have e1 : (Sel.spread g :: xs).filterMap inlineTy = xs.filterMap inlineTy := by simp [List.filterMap_cons, inlineTy]
      have e2 : vselsOf (Sel.spread g :: xs) = vselsOf xs := by simp [vselsOf, List.filterMap_cons, vselOf]
      have e3 : inlItems c pfx vt (Sel.spread g :: xs) = inlItems c pfx vt xs := by simp [inlItems, inlItem]
      rw [e1] at hnd ⊢
      rw [e2, e3]
      obtain ⟨h1, h2⟩ := filter_vsels c pfx vt xs hnd
      exact ⟨h1, fun hm => by obtain ⟨isub, h0, h⟩ := h2 hm; exact ⟨isub, List.mem_cons_of_mem _ h0, h⟩⟩
    | typename =>
      have e1 : (Sel.typename :: xs).filterMap inlineTy = xs.filterMap inlineTy := by simp [List.filterMap_cons, inlineTy]
      have e2 : vselsOf (Sel.typename :: xs) = vselsOf xs := by simp [vselsOf, List.filterMap_cons, vselOf]
      have e3 : inlItems c pfx vt (Sel.typename :: xs) = inlItems c pfx vt xs := by simp [inlItems, inlItem]
      rw [e1] at hnd ⊢
      rw [e2, e3]
      obtain ⟨h1, h2⟩ := filter_vsels c pfx vt xs hnd
      exact ⟨h1, fun hm => by obtain ⟨isub, h0, h⟩ := h2 hm; exact ⟨isub, List.mem_cons_of_mem _ h0, h⟩⟩


/-- what `vSel` says about a field of abstract type -/
def absHyp (s : Schema) (ty : TypeId) : Prop :=
  match ty with
  | .interface k => (s.interfaces[k]?).isSome = true
  | .union u => (s.unions[u]?).isSome = true
  | _ => False

theorem absOk_parts {s : Schema} {o : Options} {ty : TypeId} {sub : List Sel} (h : absOk s o ty sub = true) :
    sub.any isTypename = true ∧ EnumSpec.nodup (respKeys s sub) = true ∧
    (∀ t ∈ vtsOfTy s ty, ∃ i, t = .object i ∧ (s.objects[i]?).isSome = true) ∧
    (variantNames s o ty) ≠ [] ∧ (variantNames s o ty).Nodup ∧
    (∀ t ∈ sub.filterMap inlineTy, t ∈ vtsOfTy s ty) ∧ (sub.filterMap inlineTy).Nodup ∧
    (∀ t isub, Sel.inline t isub ∈ sub → ∀ k ∈ fieldKeys s isub, k ∉ respKeys s sub) := by
  simp only [absOk, Bool.and_eq_true, List.all_eq_true, decide_eq_true_eq, Bool.not_eq_true',
    List.isEmpty_eq_false_iff, List.contains_iff_mem] at h
  obtain ⟨⟨⟨⟨⟨⟨⟨h1, h2⟩, h3⟩, h4⟩, h5⟩, h6⟩, h7⟩, h8⟩ := h
  refine ⟨h1, h2, ?_, h4, nodup_iff'.mp h5, h6, h7, ?_⟩
  · intro t ht
    have := h3 t ht
    cases t <;> simp only [Bool.false_eq_true] at this
    exact ⟨_, rfl, this⟩
  · intro t isub hm k hk
    have := h8 _ hm
    simp only [List.all_eq_true] at this
    simpa using this k hk

section CalcV
variable (c : Ctx) (hn : c.o.normalization = .none) (N M : Nat)

def InlB (e : Nat) (sels : List Sel) : Prop :=
  ∀ t sub, Sel.inline t sub ∈ sels → selsDepth sub ≤ e ∧ selsSize sub ≤ N

def V1o (fuel : Nat) : Prop := ∀ name pfx i sels e, selsDepth sels ≤ e → selsSize sels ≤ N →
  C02.Sb N M e ≤ fuel → vSels c.s c.o false sels = true →
  calcSelection c fuel name pfx (.object i) sels = .ok (structItemsV c name pfx sels)
def V1a (fuel : Nat) : Prop := ∀ name pfx ty sels e, selsDepth sels ≤ e → selsSize sels ≤ N →
  C02.Sb N M e ≤ fuel → absHyp c.s ty → vSels c.s c.o true sels = true → absOk c.s c.o ty sels = true →
  calcSelection c fuel name pfx ty sels = .ok (absItemsV c name pfx ty sels)
def V2 (fuel : Nat) : Prop := ∀ name pfx sels vts e, InlB N e sels →
  vts.length + 1 + sels.length + 1 + C02.Fneed N M e N ≤ fuel →
  vSels c.s c.o true sels = true → (sels.filterMap inlineTy).Nodup →
  (∀ t ∈ vts, ∃ i, t = .object i ∧ (c.s.objects[i]?).isSome = true) →
  calcVariants c fuel name pfx (vselsOf sels) vts =
    .ok (vts.map (variantOf c pfx sels), vts.flatMap (fun vt => inlItems c pfx vt sels))
def V3 (fuel : Nat) : Prop := ∀ sname pfx vt t sub e, selsDepth sub ≤ e → selsSize sub ≤ N →
  1 + 1 + C02.Fneed N M e N ≤ fuel → vSels c.s c.o false sub = true →
  (∃ i, t = .object i ∧ (c.s.objects[i]?).isSome = true) →
  calcVariantSels c fuel sname pfx vt [.inline t sub] =
    .ok (fieldsOfV c (pfx ++ "On" ++ c.cs.camel (objName c.s t)) sub,
         itemsVs c (pfx ++ "On" ++ c.cs.camel (objName c.s t)) sub, [])
def V4 (fuel : Nat) : Prop := ∀ pfx ty sels e abs, selsDepth sels ≤ e → selsSize sels ≤ N →
  C02.Fneed N M e sels.length ≤ fuel → vSels c.s c.o abs sels = true →
  calcFields c fuel pfx ty sels = .ok (fieldsOfV c pfx sels, itemsVs c pfx sels)

theorem not_lone_spread {s : Schema} {o : Options} {abs : Bool} {sels : List Sel} (h : vSels s o abs sels = true) :
    ∀ g, sels = [Sel.spread g] → False := by
  intro g hg; subst hg; simp [vSels, vSel] at h

theorem stepV1o (f : Nat) (H4 : V4 c N M f) : V1o c N M (f + 1) := by
  intro name pfx i sels e hD hS hF ht
  rw [calcSelection.eq_3 _ _ _ _ _ _ (not_lone_spread ht)]
  have hv : variantsOf c.s (.object i) = .ok none := rfl
  have hL := C02.length_le_selsSize sels
  have hfields := H4 pfx (.object i) sels e false hD hS (by
    cases e with
    | zero => simp only [C02.Fneed]; unfold C02.Sb at hF; omega
    | succ e' => simp only [C02.Fneed]; rw [C02.Sb_succ] at hF; omega) ht
  simp only [hv, bind, Except.bind, pure, Except.pure, hfields]
  simp [renderType, structItemsV]

include hn in
theorem stepV4 (f : Nat) (H1o : V1o c N M f) (H1a : V1a c N M f) (H4 : V4 c N M f) : V4 c N M (f + 1) := by
  intro pfx ty sels e abs hD hS hF ht
  cases sels with
  | nil => rw [calcFields.eq_2 _ _ _ _ (by omega)]; rfl
  | cons x rest =>
    cases e with
    | zero => have := C02.selsDepth_cons_pos x rest; omega
    | succ e =>
      obtain ⟨hx, hrest⟩ := vSels_cons ht
      rw [selsDepth.eq_2] at hD
      rw [selsSize.eq_2] at hS
      simp only [C02.Fneed, List.length_cons] at hF
      have hR := H4 pfx ty rest (e + 1) abs (by omega) (by omega) (by simp only [C02.Fneed]; omega) hrest
      cases x with
      | field a fid sub =>
        rw [selDepth.eq_1] at hD
        rw [selSize.eq_1] at hS
        rw [calcFields.eq_3]
        rw [vSel] at hx
        cases hsf : c.s.fields[fid]? with
        | none => simp [hsf] at hx
        | some sf =>
          simp only [hsf, Bool.and_eq_true] at hx
          obtain ⟨⟨hw, hdep⟩, hty⟩ := hx
          have hdep' : (sf.deprecation.isSome && c.o.deprecation == .deny) = false := by
            cases hd : (sf.deprecation.isSome && c.o.deprecation == .deny) with
            | false => rfl
            | true => simp [hd] at hdep
          simp only [getField_of hsf, bind, Except.bind]
          cases hid : sf.ty.id with
          | scalar k =>
            simp only [hid, Bool.and_eq_true] at hty
            cases hk : c.s.scalars[k]? with
            | none => simp [hk] at hty
            | some sn =>
              simp only [getScalar_of hk, hn, C02.fieldType_none, renderField_tree c _ _ _ _ hw hdep', hR,
                pure, Except.pure]
              simp [fieldsOfV, itemsVs, itemsV, fieldOfSelV, hsf, hid, leafNameV, hk]
          | «enum» k =>
            simp only [hid, Bool.and_eq_true] at hty
            cases hk : c.s.enums[k]? with
            | none => simp [hk] at hty
            | some en =>
              simp only [getEnum_of hk, hn, C02.fieldType_none, renderField_tree c _ _ _ _ hw hdep', hR,
                pure, Except.pure]
              simp [fieldsOfV, itemsVs, itemsV, fieldOfSelV, hsf, hid, leafNameV, hk]
          | object i =>
            simp only [hid, Bool.and_eq_true] at hty
            have hS' := H1o (pfx ++ c.cs.camel (a.getD sf.name)) (pfx ++ c.cs.camel (a.getD sf.name)) i sub e
              (by omega) (by omega) (by omega) hty.1.2
            simp only [renderField_tree c _ _ _ _ hw hdep', hS', hR, pure, Except.pure]
            simp [fieldsOfV, itemsVs, itemsV, fieldOfSelV, hsf, hid, leafNameV, structItemsV]
          | interface k =>
            simp only [hid, Bool.and_eq_true] at hty
            have hS' := H1a (pfx ++ c.cs.camel (a.getD sf.name)) (pfx ++ c.cs.camel (a.getD sf.name)) (.interface k) sub e
              (by omega) (by omega) (by omega) hty.1.1 hty.1.2 hty.2
            simp only [renderField_tree c _ _ _ _ hw hdep', hS', hR, pure, Except.pure]
            simp [fieldsOfV, itemsVs, itemsV, fieldOfSelV, hsf, hid, leafNameV, absItemsV]
          | union k =>
            simp only [hid, Bool.and_eq_true] at hty
            have hS' := H1a (pfx ++ c.cs.camel (a.getD sf.name)) (pfx ++ c.cs.camel (a.getD sf.name)) (.union k) sub e
              (by omega) (by omega) (by omega) hty.1.1 hty.1.2 hty.2
            simp only [renderField_tree c _ _ _ _ hw hdep', hS', hR, pure, Except.pure]
            simp [fieldsOfV, itemsVs, itemsV, fieldOfSelV, hsf, hid, leafNameV, absItemsV]
          | input k => simp [hid] at hty
      | spread g => simp [vSel] at hx
      | inline t sub =>
        rw [calcFields.eq_5 _ _ _ _ _ _ (by simp) (by simp), hR]
        have h1 : fieldOfSelV c pfx (.inline t sub) = none := rfl
        have h2 : itemsV c pfx (.inline t sub) = [] := by simp [itemsV]
        simp [fieldsOfV, itemsVs, h1, h2]
      | typename =>
        rw [calcFields.eq_5 _ _ _ _ _ _ (by simp) (by simp), hR]
        have h1 : fieldOfSelV c pfx .typename = none := rfl
        have h2 : itemsV c pfx .typename = [] := by simp [itemsV]
        simp [fieldsOfV, itemsVs, h1, h2]

theorem stepV3 (f : Nat) (H4 : V4 c N M f) : V3 c N M (f + 1) := by
  intro sname pfx vt t sub e hD hS hF ht hobj
  obtain ⟨i, rfl, hi⟩ := hobj
  have hpos := C02.Fneed_pos N M e N
  rw [calcVariantSels.eq_4 _ _ _ _ _ _ _ _ (not_lone_spread ht)]
  have hfields := H4 (pfx ++ "On" ++ c.cs.camel (objName c.s (.object i))) vt sub e false hD hS (by
    have := C02.Fneed_mono N M e (Nat.le_trans (C02.length_le_selsSize sub) hS)
    omega) ht
  rw [calcVariantSels.eq_2 _ _ _ _ _ (by omega)]
  simp only [typeName_obj hi, bind, Except.bind, pure, Except.pure, hfields]
  simp

theorem renderType_novariants (name : String) (fs : List RField) :
    renderType c name fs [] = [.struct name c.respDerives c.serdeCrate fs] := by
  simp [renderType]

theorem stepV2 (f : Nat) (H2 : V2 c N M f) (H3 : V3 c N M f) : V2 c N M (f + 1) := by
  intro name pfx sels vts e hI hF ht hnd hobj
  cases vts with
  | nil => rw [calcVariants.eq_2 _ _ _ _ _ (by omega)]; rfl
  | cons vt rest =>
    simp only [List.length_cons] at hF
    have hrest := H2 name pfx sels rest e hI (by omega) ht hnd (fun t h => hobj t (List.mem_cons_of_mem _ h))
    obtain ⟨i, rfl, hi⟩ := hobj vt (by simp)
    rw [calcVariants.eq_3]
    simp only [typeName_obj hi, bind, Except.bind]
    obtain ⟨hno, hyes⟩ := filter_vsels c pfx (.object i) sels hnd
    by_cases hm : TypeId.object i ∈ sels.filterMap inlineTy
    · obtain ⟨isub, hmem, hfil, hitems⟩ := hyes hm
      obtain ⟨hd, hs⟩ := hI _ _ hmem
      have hsub : vSels c.s c.o false isub = true := by
        have := vSels_mem ht _ hmem
        simp only [vSel, Bool.and_eq_true] at this
        exact this.1.2
      have h3 := H3 (pfx ++ "On" ++ objName c.s (.object i)) pfx (.object i) (.object i) isub e hd hs (by omega) hsub
        ⟨i, rfl, hi⟩
      simp only [hfil, h3, hrest, pure, Except.pure, renderType_novariants]
      simp [variantOf, hm, List.flatMap_cons, hitems, inlItem, pure, Except.pure]
    · obtain ⟨hfil, hitems⟩ := hno hm
      simp only [hfil, hrest, pure, Except.pure]
      simp [variantOf, hm, List.flatMap_cons, hitems]

theorem stepV1a (hM : ∀ ty vts, variantsOf c.s ty = .ok (some vts) → vts.length ≤ M)
    (f : Nat) (H2 : V2 c N M f) (H4 : V4 c N M f) : V1a c N M (f + 1) := by
  intro name pfx ty sels e hD hS hF hty ht hok
  rw [calcSelection.eq_3 _ _ _ _ _ _ (not_lone_spread ht)]
  have hv : variantsOf c.s ty = .ok (some (vtsOfTy c.s ty)) := by
    apply variantsOf_abs
    cases ty <;> simp only [absHyp] at hty ⊢ <;> first | trivial | exact hty
  obtain ⟨_, _, hobj, _, _, _, hnd, _⟩ := absOk_parts hok
  have hL := C02.length_le_selsSize sels
  have hvl := hM ty _ hv
  have hfields := H4 pfx ty sels e true hD hS (by
    cases e with
    | zero => simp only [C02.Fneed]; unfold C02.Sb at hF; omega
    | succ e' => simp only [C02.Fneed]; rw [C02.Sb_succ] at hF; omega) ht
  have hvar : calcVariants c f name pfx (vselsOf sels) (vtsOfTy c.s ty) =
      .ok ((vtsOfTy c.s ty).map (variantOf c pfx sels), (vtsOfTy c.s ty).flatMap (fun vt => inlItems c pfx vt sels)) := by
    cases e with
    | zero =>
      have : sels = [] := by
        cases sels with
        | nil => rfl
        | cons x xs => have := C02.selsDepth_cons_pos x xs; omega
      subst this
      apply H2 name pfx [] _ 0 (fun t sub hm => by simp at hm) _ ht hnd hobj
      simp only [C02.Fneed, List.length_nil]; unfold C02.Sb at hF; omega
    | succ e' =>
      have hI : InlB N e' sels := by
        intro t sub hm
        have h1 := C02.selDepth_le_of_mem hm
        have h2 := C02.selSize_le_of_mem hm
        rw [selDepth.eq_2] at h1
        rw [selSize.eq_2] at h2
        omega
      apply H2 name pfx sels _ e' hI _ ht hnd hobj
      cases e' with
      | zero => simp only [C02.Fneed]; rw [C02.Sb_succ] at hF; unfold C02.Sb at hF; omega
      | succ e'' => simp only [C02.Fneed]; rw [C02.Sb_succ, C02.Sb_succ] at hF; omega
  simp only [hv, bind, Except.bind, pure, Except.pure, filterMapM_variantSel c.q ty sels (no_spread_of_vSels ht),
    hvar, hfields]
  simp [absItemsV, variantsV, otherVariants]

include hn in
theorem calc_variant (hM : ∀ ty vts, variantsOf c.s ty = .ok (some vts) → vts.length ≤ M) :
    ∀ fuel, V1o c N M fuel ∧ V1a c N M fuel ∧ V2 c N M fuel ∧ V3 c N M fuel ∧ V4 c N M fuel := by
  intro fuel
  induction fuel with
  | zero =>
    refine ⟨?_, ?_, ?_, ?_, ?_⟩
    · intro _ _ _ _ e _ _ h; unfold C02.Sb at h; omega
    · intro _ _ _ _ e _ _ h; unfold C02.Sb at h; omega
    · intro _ _ _ _ e _ h; omega
    · intro _ _ _ _ _ e _ _ h; omega
    · intro _ _ sels e _ _ _ h; have := C02.Fneed_pos N M e sels.length; omega
  | succ f ih =>
    obtain ⟨H1o, H1a, H2, H3, H4⟩ := ih
    exact ⟨stepV1o c N M f H4, stepV1a c N M hM f H2 H4, stepV2 c N M f H2 H3, stepV3 c N M f H4,
      stepV4 c hn N M f H1o H1a H4⟩

end CalcV

theorem variantOp_parts {c : Ctx} {op : ROperation} (h : VariantOp c op = true) :
    c.o.normalization = .none ∧ (c.s.objects[op.objectId]?).isSome = true ∧
      vSels c.s c.o false op.sels = true ∧ EnumSpec.nodup (respKeys c.s op.sels) = true := by
  simp only [VariantOp, Bool.and_eq_true, beq_iff_eq] at h
  exact ⟨h.1.1.1, h.1.1.2, h.1.2, h.2⟩

/-- `calcFuel` suffices for every selection set that is the body of an operation -/
theorem calcFuel_Sb (c : Ctx) :
    C02.Sb (C02.totalSize c.q) (c.s.objects.length + C02.maxUnion c.s) (C02.maxDepth c.q) ≤ calcFuel c.s c.q := by
  rw [C02.calcFuel_eq, C02.walkFuel_eq]
  unfold C02.Sb
  obtain ⟨K, hK⟩ : ∃ K, K = C02.totalSize c.q + c.s.objects.length + C02.maxUnion c.s + 4 := ⟨_, rfl⟩
  have e1 : C02.totalSize c.q + (c.s.objects.length + C02.maxUnion c.s) + 4 = K := by omega
  rw [e1, ← hK]
  have h1 : C02.maxDepth c.q + 3 ≤ (c.q.fragments.length + 1) * (C02.maxDepth c.q + 2) + 1 := by
    rw [Nat.succ_mul]; omega
  have h2 := Nat.mul_le_mul_right K h1
  rw [Nat.add_mul] at h2
  omega

/-- **Theorem 1 (`variant_items_shape`).**  For an operation of the class `VariantOp` the response items are,
    in closed form: one struct per object-level selection set; at an abstract position the struct with the
    interface-level fields and the flattened `on` member plus the `__typename`-tagged enum (or the tagged enum
    alone), one variant per possible type, one variant struct per inline fragment. -/
theorem variant_items_shape (c : Ctx) (op : ROperation) (hop : op ∈ c.q.operations) (ht : VariantOp c op = true) :
    responseItems c op = .ok (structItemsV c "ResponseData" (c.cs.camel op.name) op.sels) := by
  obtain ⟨hn, _, hsels, _⟩ := variantOp_parts ht
  have H := (calc_variant c hn (C02.totalSize c.q) (c.s.objects.length + C02.maxUnion c.s)
    (C02.variants_length_le c.s) (calcFuel c.s c.q)).1
  apply H _ _ _ _ (C02.maxDepth c.q) (C02.op_depth_le c.q op hop) _ (calcFuel_Sb c) hsels
  apply C02.le_foldl_add
  left
  simp only [List.mem_append, List.mem_map]
  exact .inr ⟨op, hop, rfl⟩

end E2E
end C01
end GqlVerif
