import GqlVerif.Model.Codegen
import GqlVerif.Model.Serde
import Mathlib.Logic.Relation
/-!
# C12 — recursive input types and fragments get finite-size Rust types

An indirection (`Box`) is inserted on every cycle that does not already pass through a list.
All statements are about the model's own functions (`Codegen.containsWithoutIndirection`,
`inputIsRecursive`, `inputFieldType`, `reachesFragment`, `fragmentIsRecursive`, `renderField`,
`Serde.deTyWith` / `serTyWith` / `deFlat`), for every schema / query, no size bound.

Input types (graph: `direct s a b` = input `a` has a non-list field of input type `b`)
* `inputIsRecursive_sound`     : flagged ⇒ on a `direct` cycle
* `inputIsRecursive_complete`  : `InputsWf s` ⇒ on a `direct` cycle ⇒ flagged (fuel `#inputs+1` suffices);
  `inputIsRecursive_complete'` needs only `NamesDistinct s`; `exDup` shows that hypothesis is necessary
* `boxed_acyclic`              : the edges left by-value after boxing form no cycle
* `box_iff_target_recursive`, `inputFieldType_shape`, `box_iff_on_cycle` : where `inputFieldType` puts `Box`
* `box_transparent`            : `Box` is invisible to (de)serialization

Fragments (graph: `spreadsTo q a b` = `...b` occurs at any depth in fragment `a`)
* `fragmentIsRecursive_sound` / `_complete` / `_iff` (no hypothesis; `walkFuel q` shown sufficient via
  `rf_complete_of_fuel` + `walkFuel_sufficient`)
* `fragment_boxed_acyclic`, `fragment_boxed_acyclic'`, `renderField_box_iff`, `aliasItem_box_iff`
-/
namespace GqlVerif
namespace C12Graph
open Codegen
open Relation (TransGen)

/-! ## generic helpers -/

theorem countP_lt {α} (p p' : α → Bool) (l : List α) (x : α) (hx : x ∈ l) (hp : p x = true)
    (hp' : p' x = false) (himp : ∀ y, p' y = true → p y = true) :
    l.countP p' < l.countP p := by
  induction l with
  | nil => simp at hx
  | cons a l ih =>
    simp only [List.countP_cons]
    simp only [List.mem_cons] at hx
    have hle : l.countP p' ≤ l.countP p := List.countP_mono_left (fun y _ => himp y)
    rcases hx with rfl | hx
    · simp [hp, hp']; omega
    · have := ih hx
      cases hb : p' a
      · simp; omega
      · simp [himp a hb]; omega

theorem transGen_mono {α} {r p : α → α → Prop} (h : ∀ a b, r a b → p a b) {a b : α}
    (hab : TransGen r a b) : TransGen p a b := by
  induction hab with
  | single hd => exact TransGen.single (h _ _ hd)
  | tail _ hd ih => exact TransGen.tail ih (h _ _ hd)

/-! ## input types: the graph -/

/-- input `a` has a field of input type `b` that is not behind a list -/
def direct (s : Schema) (a b : Nat) : Prop :=
  ∃ inp, s.inputs[a]? = some inp ∧ ∃ f ∈ inp.fields, f.2.id = .input b ∧ f.2.isIndirected = false

def OnDirectCycle (s : Schema) (t : Nat) : Prop := TransGen (direct s) t t

/-- the edges that stay by-value after boxing -/
def byValue (s : Schema) (a b : Nat) : Prop := direct s a b ∧ inputIsRecursive s b = false

def inputsWf (s : Schema) : Bool :=
  decide ((s.inputs.map (·.name)).Nodup) &&
  s.inputs.all (fun inp => inp.fields.all (fun f =>
    match f.2.id.asInput? with
    | some i => decide (i < s.inputs.length)
    | none => true))

/-- input type names are pairwise distinct and every `TypeId.input i` in a field is in range -/
def InputsWf (s : Schema) : Prop := inputsWf s = true
instance (s : Schema) : Decidable (InputsWf s) := inferInstanceAs (Decidable (_ = true))

theorem asInput?_eq_some {t : TypeId} {i : Nat} : t.asInput? = some i ↔ t = .input i := by
  cases t <;> simp [TypeId.asInput?]

/-- the part of `InputsWf` that completeness really needs: the visited set is keyed by *name* -/
def NamesDistinct (s : Schema) : Prop := (s.inputs.map (·.name)).Nodup
instance (s : Schema) : Decidable (NamesDistinct s) := inferInstanceAs (Decidable (List.Nodup _))

theorem InputsWf.nodup {s : Schema} (h : InputsWf s) : NamesDistinct s := by
  simp only [InputsWf, inputsWf, Bool.and_eq_true, decide_eq_true_eq] at h
  exact h.1

theorem InputsWf.range {s : Schema} (h : InputsWf s) {a : Nat} {inp : StoredInput}
    (ha : s.inputs[a]? = some inp) {f : String × FieldType} (hf : f ∈ inp.fields) {b : Nat}
    (hb : f.2.id = .input b) : b < s.inputs.length := by
  simp only [InputsWf, inputsWf, Bool.and_eq_true, List.all_eq_true] at h
  have := h.2 inp (List.mem_of_getElem? ha) f hf
  rw [asInput?_eq_some.mpr hb] at this
  simpa using this

theorem NamesDistinct.name_inj {s : Schema} (hnd : NamesDistinct s) {x y : Nat} {ix iy : StoredInput}
    (hx : s.inputs[x]? = some ix) (hy : s.inputs[y]? = some iy) (hn : ix.name = iy.name) : x = y := by
  unfold NamesDistinct at hnd
  rw [List.nodup_iff_pairwise_ne, List.pairwise_iff_getElem] at hnd
  obtain ⟨hxl, hxe⟩ := List.getElem?_eq_some_iff.mp hx
  obtain ⟨hyl, hye⟩ := List.getElem?_eq_some_iff.mp hy
  rcases Nat.lt_trichotomy x y with hlt | heq | hgt
  · exact (hnd x y (by simpa using hxl) (by simpa using hyl) hlt (by simp [hxe, hye, hn])).elim
  · exact heq
  · exact (hnd y x (by simpa using hyl) (by simpa using hxl) hgt (by simp [hxe, hye, hn])).elim

/-! ## the model function as a fold of a named step -/

def cwiStep (s : Schema) (target fuel : Nat) (acc : Bool × List String) (f : String × FieldType) :
    Bool × List String :=
  if acc.1 then acc else
  if f.2.isIndirected then acc else
  match f.2.id.asInput? with
  | none => acc
  | some fid =>
    if fid == target then (true, acc.2) else
    match s.inputs[fid]? with
    | none => acc
    | some i =>
      if acc.2.contains i.name then acc
      else containsWithoutIndirection s target fuel acc.2 i

theorem cwi_succ (s : Schema) (target fuel : Nat) (visited : List String) (input : StoredInput) :
    containsWithoutIndirection s target (fuel+1) visited input
      = input.fields.foldl (cwiStep s target fuel) (false, input.name :: visited) := by
  rw [containsWithoutIndirection]
  rfl

/-! ## soundness -/

theorem cwiStep_sound (s : Schema) (target fuel a : Nat) (inp : StoredInput)
    (ha : s.inputs[a]? = some inp)
    (ih : ∀ visited b i, s.inputs[b]? = some i →
      (containsWithoutIndirection s target fuel visited i).1 = true → TransGen (direct s) b target)
    (acc : Bool × List String) (f : String × FieldType) (hf : f ∈ inp.fields)
    (h : (cwiStep s target fuel acc f).1 = true) :
    acc.1 = true ∨ TransGen (direct s) a target := by
  unfold cwiStep at h
  split at h
  · left; assumption
  · split at h
    · left; exact h
    · rename_i hind
      split at h
      · left; exact h
      · rename_i fid hfid
        have hid := asInput?_eq_some.mp hfid
        have hdir : direct s a fid := ⟨inp, ha, f, hf, hid, by simpa using hind⟩
        split at h
        · rename_i heq
          have : fid = target := by simpa using heq
          right; exact this ▸ TransGen.single hdir
        · split at h
          · left; exact h
          · rename_i i hi
            split at h
            · left; exact h
            · right; exact TransGen.head hdir (ih _ fid i hi h)

theorem cwiFold_sound (s : Schema) (target fuel a : Nat) (inp : StoredInput)
    (ha : s.inputs[a]? = some inp)
    (ih : ∀ visited b i, s.inputs[b]? = some i →
      (containsWithoutIndirection s target fuel visited i).1 = true → TransGen (direct s) b target) :
    ∀ (fs : List (String × FieldType)) (acc : Bool × List String), (∀ f ∈ fs, f ∈ inp.fields) →
      (fs.foldl (cwiStep s target fuel) acc).1 = true → acc.1 = true ∨ TransGen (direct s) a target := by
  intro fs
  induction fs with
  | nil => intro acc _ h; left; simpa using h
  | cons f fs ihfs =>
    intro acc hsub h
    simp only [List.foldl_cons] at h
    rcases ihfs _ (fun g hg => hsub g (by simp [hg])) h with h1 | h2
    · exact cwiStep_sound s target fuel a inp ha ih acc f (hsub f (by simp)) h1
    · right; exact h2

theorem cwi_sound (s : Schema) (target : Nat) :
    ∀ (fuel : Nat) (visited : List String) (a : Nat) (inp : StoredInput), s.inputs[a]? = some inp →
      (containsWithoutIndirection s target fuel visited inp).1 = true → TransGen (direct s) a target := by
  intro fuel
  induction fuel with
  | zero => intro visited a inp _ h; simp [containsWithoutIndirection] at h
  | succ n ih =>
    intro visited a inp ha h
    rw [cwi_succ] at h
    rcases cwiFold_sound s target n a inp ha ih inp.fields _ (fun _ h => h) h with h1 | h2
    · simp at h1
    · exact h2

/-- **2.** a type flagged recursive lies on a cycle of non-list input-object fields -/
theorem inputIsRecursive_sound (s : Schema) (t : Nat) (h : inputIsRecursive s t = true) :
    OnDirectCycle s t := by
  unfold inputIsRecursive at h
  split at h
  · simp at h
  · rename_i i hi
    exact cwi_sound s t _ [] t i hi h

/-! ## completeness -/

/-- input types whose name has not been visited yet -/
def remaining (s : Schema) (visited : List String) : Nat :=
  s.inputs.countP (fun i => !visited.contains i.name)

theorem remaining_mono (s : Schema) {v v' : List String} (h : ∀ n ∈ v, n ∈ v') :
    remaining s v' ≤ remaining s v := by
  unfold remaining
  apply List.countP_mono_left
  intro x _ hx
  simp only [Bool.not_eq_true', List.contains_eq_mem, decide_eq_false_iff_not] at hx ⊢
  exact fun hm => hx (h _ hm)

theorem remaining_decreases (s : Schema) (visited : List String) (a : Nat) (inp : StoredInput)
    (ha : s.inputs[a]? = some inp) (hv : inp.name ∉ visited) :
    remaining s (inp.name :: visited) < remaining s visited := by
  unfold remaining
  apply countP_lt _ _ _ inp (List.mem_of_getElem? ha)
  · simpa using hv
  · simp
  · intro y hy
    simp only [List.contains_cons, Bool.not_eq_true', Bool.or_eq_false_iff] at hy
    simpa using hy.2

theorem remaining_nil (s : Schema) : remaining s [] = s.inputs.length := by
  unfold remaining
  simp

/-- every direct successor of `x` is not the target and has been visited -/
def Closed (s : Schema) (target : Nat) (V : List String) (x : Nat) : Prop :=
  ∀ y, direct s x y → y ≠ target ∧ ∀ iy, s.inputs[y]? = some iy → iy.name ∈ V

theorem Closed.mono {s : Schema} {target : Nat} {V V' : List String} {x : Nat}
    (h : Closed s target V x) (hsub : ∀ n ∈ V, n ∈ V') : Closed s target V' x := by
  intro y hy
  obtain ⟨h1, h2⟩ := h y hy
  exact ⟨h1, fun iy hiy => hsub _ (h2 iy hiy)⟩

/-- what one call of the DFS guarantees -/
def CwiSpec (s : Schema) (target fuel : Nat) : Prop :=
  ∀ (visited : List String) (a : Nat) (inp : StoredInput), s.inputs[a]? = some inp →
    inp.name ∉ visited → remaining s visited < fuel →
    (∀ n ∈ visited, n ∈ (containsWithoutIndirection s target fuel visited inp).2) ∧
    inp.name ∈ (containsWithoutIndirection s target fuel visited inp).2 ∧
    ((containsWithoutIndirection s target fuel visited inp).1 = false →
      ∀ x ix, s.inputs[x]? = some ix →
        ix.name ∈ (containsWithoutIndirection s target fuel visited inp).2 → ix.name ∉ visited →
        Closed s target (containsWithoutIndirection s target fuel visited inp).2 x)

/-- what one step of the field loop guarantees -/
structure StepSpec (s : Schema) (target : Nat) (acc acc' : Bool × List String) (f : String × FieldType) :
    Prop where
  sub : ∀ n ∈ acc.2, n ∈ acc'.2
  ok : acc'.1 = false → acc.1 = false ∧
    (f.2.isIndirected = false → ∀ y, f.2.id = .input y →
      y ≠ target ∧ ∀ iy, s.inputs[y]? = some iy → iy.name ∈ acc'.2) ∧
    (∀ x ix, s.inputs[x]? = some ix → ix.name ∈ acc'.2 → ix.name ∉ acc.2 → Closed s target acc'.2 x)

theorem cwiStep_spec (s : Schema) (target fuel : Nat) (ih : CwiSpec s target fuel)
    (acc : Bool × List String) (f : String × FieldType)
    (hfuel : remaining s acc.2 < fuel) :
    StepSpec s target acc (cwiStep s target fuel acc f) f := by
  have triv : ∀ (P : Prop), (acc.1 = false → (f.2.isIndirected = false → ∀ y, f.2.id = .input y →
      y ≠ target ∧ ∀ iy, s.inputs[y]? = some iy → iy.name ∈ acc.2)) →
      StepSpec s target acc acc f := by
    intro _ h
    exact ⟨fun _ h => h, fun h1 => ⟨h1, h h1, fun x ix _ h2 h3 => absurd h2 h3⟩⟩
  unfold cwiStep
  split
  · rename_i h1
    exact triv True (fun h => by simp [h] at h1)
  · rename_i hacc0
    split
    · rename_i hind
      exact triv True (fun _ h => by simp [h] at hind)
    · split
      · rename_i hnone
        refine triv True (fun _ _ y hy => ?_)
        rw [asInput?_eq_some.mpr hy] at hnone
        simp at hnone
      · rename_i fid hfid
        have hid := asInput?_eq_some.mp hfid
        split
        · exact ⟨fun _ h => h, fun h => by simp at h⟩
        · rename_i hne
          have hne' : fid ≠ target := by simpa using hne
          split
          · rename_i hnone
            refine triv True (fun _ _ y hy => ?_)
            have : y = fid := by rw [hid] at hy; injection hy with hy; exact hy.symm
            subst this
            exact ⟨hne', fun iy hiy => by rw [hnone] at hiy; cases hiy⟩
          · rename_i i hi
            split
            · rename_i hc
              refine triv True (fun _ _ y hy => ?_)
              have : y = fid := by rw [hid] at hy; injection hy with hy; exact hy.symm
              subst this
              refine ⟨hne', fun iy hiy => ?_⟩
              rw [hi] at hiy; injection hiy with hiy; subst hiy
              simpa using hc
            · rename_i hc
              have hc' : i.name ∉ acc.2 := by simpa using hc
              obtain ⟨h1, h2, h3⟩ := ih acc.2 fid i hi hc' hfuel
              refine ⟨h1, fun hfalse => ⟨?_, ?_, h3 hfalse⟩⟩
              · simpa using hacc0
              · intro _ y hy
                have : y = fid := by rw [hid] at hy; injection hy with hy; exact hy.symm
                subst this
                refine ⟨hne', fun iy hiy => ?_⟩
                rw [hi] at hiy; injection hiy with hiy; subst hiy
                exact h2

theorem cwiFold_spec (s : Schema) (target fuel : Nat) (ih : CwiSpec s target fuel) :
    ∀ (fs : List (String × FieldType)) (acc : Bool × List String),
      remaining s acc.2 < fuel →
      (∀ n ∈ acc.2, n ∈ (fs.foldl (cwiStep s target fuel) acc).2) ∧
      ((fs.foldl (cwiStep s target fuel) acc).1 = false → acc.1 = false ∧
        (∀ f ∈ fs, f.2.isIndirected = false → ∀ y, f.2.id = .input y →
          y ≠ target ∧ ∀ iy, s.inputs[y]? = some iy → iy.name ∈ (fs.foldl (cwiStep s target fuel) acc).2) ∧
        (∀ x ix, s.inputs[x]? = some ix → ix.name ∈ (fs.foldl (cwiStep s target fuel) acc).2 →
          ix.name ∉ acc.2 → Closed s target (fs.foldl (cwiStep s target fuel) acc).2 x)) := by
  intro fs
  induction fs with
  | nil =>
    intro acc _
    simp only [List.foldl_nil]
    exact ⟨fun _ h => h, fun h => ⟨h, by simp, fun x ix _ h2 h3 => absurd h2 h3⟩⟩
  | cons f fs ihfs =>
    intro acc hfuel
    simp only [List.foldl_cons]
    have hstep := cwiStep_spec s target fuel ih acc f hfuel
    have hfuel' : remaining s (cwiStep s target fuel acc f).2 < fuel :=
      Nat.lt_of_le_of_lt (remaining_mono s hstep.sub) hfuel
    obtain ⟨hsub, hrest⟩ := ihfs (cwiStep s target fuel acc f) hfuel'
    refine ⟨fun n hn => hsub n (hstep.sub n hn), fun hfalse => ?_⟩
    obtain ⟨h1, h2, h3⟩ := hrest hfalse
    obtain ⟨s1, s2, s3⟩ := hstep.ok h1
    refine ⟨s1, ?_, ?_⟩
    · intro g hg hind y hy
      rcases List.mem_cons.mp hg with rfl | hg
      · obtain ⟨a1, a2⟩ := s2 hind y hy
        exact ⟨a1, fun iy hiy => hsub _ (a2 iy hiy)⟩
      · exact h2 g hg hind y hy
    · intro x ix hx hin hnot
      by_cases hmid : ix.name ∈ (cwiStep s target fuel acc f).2
      · exact (s3 x ix hx hmid hnot).mono hsub
      · exact h3 x ix hx hin hmid

theorem cwi_spec (s : Schema) (hwf : NamesDistinct s) (target : Nat) : ∀ fuel, CwiSpec s target fuel := by
  intro fuel
  induction fuel with
  | zero => intro _ _ _ _ _ h; omega
  | succ n ih =>
    intro visited a inp ha hv hfuel
    rw [cwi_succ]
    have hdec := remaining_decreases s visited a inp ha hv
    obtain ⟨hsub, hrest⟩ := cwiFold_spec s target n ih inp.fields (false, inp.name :: visited)
      (by show remaining s (inp.name :: visited) < n; omega)
    refine ⟨fun m hm => hsub m (by simp [hm]), hsub _ (by simp), fun hfalse => ?_⟩
    obtain ⟨_, h2, h3⟩ := hrest hfalse
    intro x ix hx hin hnot
    by_cases hname : ix.name = inp.name
    · have hxa : x = a := hwf.name_inj hx ha hname
      subst hxa
      intro y ⟨inp', hinp', f, hf, hid, hind⟩
      have : inp' = inp := by rw [ha] at hinp'; injection hinp' with h; exact h.symm
      subst this
      exact h2 f hf hind y hid
    · exact h3 x ix hx hin (by simp [hname, hnot])

/-- **3.** (only distinctness of the names is needed; dangling ids cannot lie on a cycle) -/
theorem inputIsRecursive_complete' (s : Schema) (t : Nat) (hwf : NamesDistinct s) (h : OnDirectCycle s t) :
    inputIsRecursive s t = true := by
  unfold inputIsRecursive
  split
  · rename_i hnone
    have : ∃ y, direct s t y := by
      unfold OnDirectCycle at h
      rcases TransGen.head'_iff.mp h with ⟨y, hy, _⟩
      exact ⟨y, hy⟩
    obtain ⟨y, inp, hinp, _⟩ := this
    rw [hnone] at hinp; simp at hinp
  · rename_i i hi
    cases hres : (containsWithoutIndirection s t (s.inputs.length + 1) [] i).1
    · exfalso
      obtain ⟨_, hmem, hclosed⟩ := cwi_spec s hwf t (s.inputs.length + 1) [] t i hi (by simp)
        (by rw [remaining_nil]; omega)
      have hcl := hclosed hres
      have key : ∀ y, TransGen (direct s) t y → y ≠ t ∧ ∀ iy, s.inputs[y]? = some iy →
          iy.name ∈ (containsWithoutIndirection s t (s.inputs.length + 1) [] i).2 := by
        intro y hy
        induction hy with
        | single hd => exact hcl t i hi hmem (by simp) _ hd
        | tail _ hd ihy =>
          have ⟨ib, hb1, _⟩ := hd
          exact hcl _ ib hb1 (ihy.2 ib hb1) (by simp) _ hd
      exact (key t h).1 rfl
    · rfl

/-- **3.** the DFS with the shared visited set finds every cycle; fuel `#inputs + 1` suffices -/
theorem inputIsRecursive_complete (s : Schema) (t : Nat) (hwf : InputsWf s) (h : OnDirectCycle s t) :
    inputIsRecursive s t = true :=
  inputIsRecursive_complete' s t hwf.nodup h

theorem inputIsRecursive_iff (s : Schema) (t : Nat) (hwf : InputsWf s) :
    inputIsRecursive s t = true ↔ OnDirectCycle s t :=
  ⟨inputIsRecursive_sound s t, inputIsRecursive_complete s t hwf⟩

theorem boxed_acyclic' (s : Schema) (hwf : NamesDistinct s) : ¬ ∃ t, TransGen (byValue s) t t := by
  rintro ⟨t, h⟩
  have hcyc : OnDirectCycle s t := transGen_mono (fun _ _ h => h.1) h
  have hrec := inputIsRecursive_complete' s t hwf hcyc
  rcases TransGen.tail'_iff.mp h with ⟨c, _, hc⟩
  rw [hc.2] at hrec
  simp at hrec

/-- **4.** after boxing, no by-value cycle remains -/
theorem boxed_acyclic (s : Schema) (hwf : InputsWf s) : ¬ ∃ t, TransGen (byValue s) t t :=
  boxed_acyclic' s hwf.nodup

/-! ## 5. where the `Box` goes -/

def isBox : RTy → Bool
  | .box _ => true
  | _ => false

theorem isBox_iff (r : RTy) : isBox r = true ↔ ∃ t, r = .box t := by
  cases r <;> simp [isBox]

theorem decorateStep_not_box (st st' : RTy × Bool) (q : Qual) (h : decorateStep st q = .ok st')
    (hb : isBox st.1 = false) : isBox st'.1 = false := by
  obtain ⟨t, nn⟩ := st
  cases nn <;> cases q <;> simp [decorateStep, pure, Except.pure, panic'] at h <;> subst h <;> simp_all [isBox]

theorem decorateFold_not_box : ∀ (l : List Qual) (st st' : RTy × Bool),
    l.foldlM decorateStep st = .ok st' → isBox st.1 = false → isBox st'.1 = false := by
  intro l
  induction l with
  | nil => intro st st' h hb; simp [pure, Except.pure] at h; subst h; exact hb
  | cons q l ih =>
    intro st st' h hb
    rw [List.foldlM_cons] at h
    cases hq : decorateStep st q with
    | error e => rw [hq] at h; simp [bind, Except.bind] at h
    | ok st1 =>
      rw [hq] at h
      exact ih st1 st' h (decorateStep_not_box st st1 q hq hb)

/-- `decorate_type` never produces a `Box` at the top -/
theorem decorateType_not_box (base : RTy) (quals : List Qual) (t : RTy)
    (h : decorateType base quals = .ok t) (hb : isBox base = false) : isBox t = false := by
  unfold decorateType at h
  cases hf : quals.reverse.foldlM decorateStep (base, false) with
  | error e => rw [hf] at h; simp [bind, Except.bind] at h
  | ok st =>
    rw [hf] at h
    obtain ⟨t', nn⟩ := st
    have := decorateFold_not_box _ _ _ hf hb
    simp [bind, Except.bind, pure, Except.pure] at h
    subst h
    cases nn <;> simp_all [isBox]

/-- is the target of this field a recursive input type? -/
def targetRecursive (s : Schema) (ty : FieldType) : Bool :=
  match ty.id.asInput? with
  | some iid => inputIsRecursive s iid
  | none => false

theorem targetRecursive_iff (s : Schema) (ty : FieldType) :
    targetRecursive s ty = true ↔ ∃ iid, ty.id = .input iid ∧ inputIsRecursive s iid = true := by
  unfold targetRecursive
  split
  · rename_i iid h
    have := asInput?_eq_some.mp h
    constructor
    · intro hr; exact ⟨iid, this, hr⟩
    · rintro ⟨j, hj, hr⟩
      rw [this] at hj; injection hj with hj; subst hj; exact hr
  · rename_i h
    constructor
    · intro h; simp at h
    · rintro ⟨j, hj, _⟩
      rw [asInput?_eq_some.mpr hj] at h; simp at h

/-- the exact shape of `inputFieldType`'s result: the decorated type, boxed iff the target recurses -/
theorem inputFieldType_shape (c : Ctx) (ty : FieldType) (quals : List Qual) (r : RTy)
    (h : inputFieldType c ty quals = .ok r) :
    ∃ tn t, c.s.typeName ty.id = .ok tn ∧
      decorateType (.path (c.o.normalization.fieldType c.cs tn)) quals = .ok t ∧ isBox t = false ∧
      r = if targetRecursive c.s ty then .box t else t := by
  unfold inputFieldType at h
  cases htn : c.s.typeName ty.id with
  | error e => rw [htn] at h; simp [bind, Except.bind] at h
  | ok tn =>
    rw [htn] at h
    cases hd : decorateType (.path (c.o.normalization.fieldType c.cs tn)) quals with
    | error e => simp [bind, Except.bind, hd] at h
    | ok t =>
      simp only [bind, Except.bind, hd, pure, Except.pure] at h
      injection h with h
      exact ⟨tn, t, rfl, hd, decorateType_not_box _ _ _ hd rfl, h.symm⟩

/-- **5.** `inputFieldType` returns `Box<…>` exactly when the target is a recursive input type -/
theorem box_iff_target_recursive (c : Ctx) (ty : FieldType) (quals : List Qual) (r : RTy)
    (h : inputFieldType c ty quals = .ok r) :
    (∃ t, r = .box t) ↔ ∃ iid, ty.id = .input iid ∧ inputIsRecursive c.s iid = true := by
  obtain ⟨tn, t, _, _, hnb, hr⟩ := inputFieldType_shape c ty quals r h
  rw [← targetRecursive_iff, ← isBox_iff, hr]
  cases targetRecursive c.s ty
  · simp [hnb]
  · simp [isBox]

/-- … and, under well-formedness, exactly when the target lies on a cycle of non-list fields -/
theorem box_iff_on_cycle (c : Ctx) (hwf : InputsWf c.s) (ty : FieldType) (quals : List Qual) (r : RTy)
    (h : inputFieldType c ty quals = .ok r) :
    (∃ t, r = .box t) ↔ ∃ iid, ty.id = .input iid ∧ OnDirectCycle c.s iid := by
  rw [box_iff_target_recursive c ty quals r h]
  constructor
  · rintro ⟨i, h1, h2⟩; exact ⟨i, h1, inputIsRecursive_sound _ _ h2⟩
  · rintro ⟨i, h1, h2⟩; exact ⟨i, h1, inputIsRecursive_complete _ _ hwf h2⟩

/-! ## 7. the indirection is invisible in JSON -/

theorem box_transparent_de (path : String → Json → Serde.D Val) (t : RTy) (j : Json) :
    Serde.deTyWith path (.box t) j = Serde.deTyWith path t j := by
  rw [Serde.deTyWith]

theorem box_transparent_ser (path : String → Val → Serde.D Json) (t : RTy) (v : Val) :
    Serde.serTyWith path (.box t) v = Serde.serTyWith path t v := by
  rw [Serde.serTyWith]

theorem box_transparent_flat (e : Env) (fuel : Nat) (t : RTy) (buf : Serde.Buf) :
    Serde.deFlat e (fuel+1) (.box t) buf = Serde.deFlat e fuel t buf := by
  rw [Serde.deFlat]

theorem box_transparent (pathD : String → Json → Serde.D Val) (pathS : String → Val → Serde.D Json)
    (e : Env) (fuel : Nat) (t : RTy) (j : Json) (v : Val) (buf : Serde.Buf) :
    Serde.deTyWith pathD (.box t) j = Serde.deTyWith pathD t j ∧
    Serde.serTyWith pathS (.box t) v = Serde.serTyWith pathS t v ∧
    Serde.deFlat e (fuel+1) (.box t) buf = Serde.deFlat e fuel t buf :=
  ⟨box_transparent_de _ _ _, box_transparent_ser _ _ _, box_transparent_flat _ _ _ _⟩


/-! ## examples (inputs) -/

/-- `A { b: B! }`, `B { c: [C!] }`, `C { a: A }`: the 3-cycle passes through a list -/
def ex3 : Schema :=
  { inputs := [ { name := "A", fields := [("b", { id := .input 1, quals := [.required] })], isOneOf := false },
                { name := "B", fields := [("c", { id := .input 2, quals := [.list, .required] })], isOneOf := false },
                { name := "C", fields := [("a", { id := .input 0, quals := [] })], isOneOf := false } ] }

example : InputsWf ex3 := by decide
example : inputIsRecursive ex3 0 = false ∧ inputIsRecursive ex3 1 = false ∧ inputIsRecursive ex3 2 = false := by
  decide

/-- `A { b: B! }`, `B { a: A, n: Int }`: a 2-cycle of plain edges -/
def ex2 : Schema :=
  { scalars := ["Int"],
    inputs := [ { name := "A", fields := [("b", { id := .input 1, quals := [.required] })], isOneOf := false },
                { name := "B", fields := [("a", { id := .input 0, quals := [] }),
                                          ("n", { id := .scalar 0, quals := [] })], isOneOf := false } ] }

example : InputsWf ex2 := by decide
example : inputIsRecursive ex2 0 = true ∧ inputIsRecursive ex2 1 = true := by decide
example : OnDirectCycle ex2 0 := inputIsRecursive_sound ex2 0 (by decide)
example : ¬ OnDirectCycle ex3 0 := fun h => by
  have := inputIsRecursive_complete ex3 0 (by decide) h
  revert this; decide

/-- a type *below* a cycle is not boxed, a type *on* it is: `R { a: A! }` only points into the cycle -/
def ex2' : Schema := { ex2 with inputs := ex2.inputs ++
  [{ name := "R", fields := [("a", { id := .input 0, quals := [.required] })], isOneOf := false }] }

example : InputsWf ex2' := by decide
example : inputIsRecursive ex2' 2 = false ∧ inputIsRecursive ex2' 0 = true := by decide

/-- the well-formedness hypothesis is needed: the visited set is keyed by name, so with two input
    types of the same name the DFS misses the cycle `0 → 1 → 0` -/
def exDup : Schema :=
  { inputs := [ { name := "A", fields := [("x", { id := .input 1, quals := [] })], isOneOf := false },
                { name := "A", fields := [("y", { id := .input 0, quals := [] })], isOneOf := false } ] }

example : ¬ NamesDistinct exDup := by decide
example : inputIsRecursive exDup 0 = false := by decide
example : OnDirectCycle exDup 0 :=
  TransGen.tail
    (TransGen.single ⟨_, rfl, ("x", { id := .input 1, quals := [] }), List.mem_singleton.mpr rfl, rfl, rfl⟩)
    ⟨_, rfl, ("y", { id := .input 0, quals := [] }), List.mem_singleton.mpr rfl, rfl, rfl⟩

/-- a context over a given schema (identity case functions, default options) -/
def exCtx (s : Schema) : Ctx := { s := s, q := {}, o := {}, cs := { snake := id, camel := id } }

example : inputFieldType (exCtx ex2) { id := .input 1, quals := [.required] } [.required]
    = .ok (.box (.path "B")) := rfl
example : inputFieldType (exCtx ex3) { id := .input 1, quals := [.required] } [.required]
    = .ok (.path "B") := rfl
example : inputFieldType (exCtx ex3) { id := .input 2, quals := [.list, .required] } [.list, .required]
    = .ok (.opt (.vec (.path "C"))) := rfl

/-! ## 6. fragments -/

/-- a `...b` spread occurs somewhere (any depth, under fields and inline fragments) in the selection set -/
inductive SpreadsIn : List Sel → Nat → Prop
  | here {sels : List Sel} {b : Nat} : Sel.spread b ∈ sels → SpreadsIn sels b
  | field {sels : List Sel} {al : Option String} {fid : Nat} {sub : List Sel} {b : Nat} :
      Sel.field al fid sub ∈ sels → SpreadsIn sub b → SpreadsIn sels b
  | inline {sels : List Sel} {t : TypeId} {sub : List Sel} {b : Nat} :
      Sel.inline t sub ∈ sels → SpreadsIn sub b → SpreadsIn sels b

/-- fragment `a`'s selection set contains a spread of fragment `b` -/
def spreadsTo (q : Query) (a b : Nat) : Prop := ∃ f, q.fragments[a]? = some f ∧ SpreadsIn f.sels b

def OnSpreadCycle (q : Query) (f : Nat) : Prop := TransGen (spreadsTo q) f f

theorem SpreadsIn.of_mem {sel : Sel} {sels : List Sel} {b : Nat} (hm : sel ∈ sels)
    (h : SpreadsIn [sel] b) : SpreadsIn sels b := by
  cases h with
  | here h => rw [List.mem_singleton] at h; exact .here (h ▸ hm)
  | field h hs => rw [List.mem_singleton] at h; exact .field (h ▸ hm) hs
  | inline h hs => rw [List.mem_singleton] at h; exact .inline (h ▸ hm) hs

theorem SpreadsIn.exists_mem {sels : List Sel} {b : Nat} (h : SpreadsIn sels b) :
    ∃ sel ∈ sels, SpreadsIn [sel] b := by
  cases h with
  | here h => exact ⟨_, h, .here (List.mem_singleton.mpr rfl)⟩
  | field h hs => exact ⟨_, h, .field (List.mem_singleton.mpr rfl) hs⟩
  | inline h hs => exact ⟨_, h, .inline (List.mem_singleton.mpr rfl) hs⟩

theorem spreadsIn_spread {fid b : Nat} (h : SpreadsIn [Sel.spread fid] b) : b = fid := by
  cases h with
  | here h => rw [List.mem_singleton] at h; injection h
  | field h _ => rw [List.mem_singleton] at h; cases h
  | inline h _ => rw [List.mem_singleton] at h; cases h

theorem spreadsIn_field {al : Option String} {fid : Nat} {sub : List Sel} {b : Nat}
    (h : SpreadsIn [Sel.field al fid sub] b) : SpreadsIn sub b := by
  cases h with
  | here h => rw [List.mem_singleton] at h; cases h
  | field h hs => rw [List.mem_singleton] at h; injection h with _ _ h3; exact h3 ▸ hs
  | inline h _ => rw [List.mem_singleton] at h; cases h

theorem spreadsIn_inline {t : TypeId} {sub : List Sel} {b : Nat}
    (h : SpreadsIn [Sel.inline t sub] b) : SpreadsIn sub b := by
  cases h with
  | here h => rw [List.mem_singleton] at h; cases h
  | field h _ => rw [List.mem_singleton] at h; cases h
  | inline h hs => rw [List.mem_singleton] at h; injection h with _ h2; exact h2 ▸ hs

theorem spreadsIn_typename {b : Nat} (h : SpreadsIn [Sel.typename] b) : False := by
  cases h with
  | here h => rw [List.mem_singleton] at h; cases h
  | field h _ => rw [List.mem_singleton] at h; cases h
  | inline h _ => rw [List.mem_singleton] at h; cases h

/-! ### the model function as a fold of a named step -/

def rfStep (q : Query) (target fuel : Nat) (acc : Bool × List Nat) (sel : Sel) : Bool × List Nat :=
  if acc.1 then acc else
  match sel with
  | .spread fid =>
    if fid == target then (true, acc.2)
    else if acc.2.contains fid then acc
    else match q.fragments[fid]? with
      | none => acc
      | some f => reachesFragment q target fuel (fid :: acc.2) f.sels
  | .field _ _ sub => reachesFragment q target fuel acc.2 sub
  | .inline _ sub => reachesFragment q target fuel acc.2 sub
  | .typename => acc

theorem rf_succ (q : Query) (target fuel : Nat) (visited : List Nat) (sels : List Sel) :
    reachesFragment q target (fuel+1) visited sels
      = sels.foldl (rfStep q target fuel) (false, visited) := by
  rw [reachesFragment]
  rfl

/-! ### soundness -/

/-- some spread below `sels` is, or transitively reaches, `target` -/
def Reach (q : Query) (sels : List Sel) (target : Nat) : Prop :=
  ∃ y, SpreadsIn sels y ∧ (y = target ∨ TransGen (spreadsTo q) y target)

theorem rfStep_sound (q : Query) (target fuel : Nat)
    (ih : ∀ visited sels, (reachesFragment q target fuel visited sels).1 = true → Reach q sels target)
    (acc : Bool × List Nat) (sel : Sel) (h : (rfStep q target fuel acc sel).1 = true) :
    acc.1 = true ∨ Reach q [sel] target := by
  unfold rfStep at h
  split at h
  · left; assumption
  · split at h
    · rename_i fid
      split at h
      · rename_i heq
        have : fid = target := by simpa using heq
        right; exact ⟨fid, .here (List.mem_singleton.mpr rfl), Or.inl this⟩
      · split at h
        · left; exact h
        · split at h
          · left; exact h
          · rename_i f hf
            right
            obtain ⟨y, hy, hyt⟩ := ih _ _ h
            have hst : spreadsTo q fid y := ⟨f, hf, hy⟩
            refine ⟨fid, .here (List.mem_singleton.mpr rfl), Or.inr ?_⟩
            rcases hyt with rfl | hyt
            · exact TransGen.single hst
            · exact TransGen.head hst hyt
    · right
      obtain ⟨y, hy, hyt⟩ := ih _ _ h
      exact ⟨y, .field (List.mem_singleton.mpr rfl) hy, hyt⟩
    · right
      obtain ⟨y, hy, hyt⟩ := ih _ _ h
      exact ⟨y, .inline (List.mem_singleton.mpr rfl) hy, hyt⟩
    · left; exact h

theorem rfFold_sound (q : Query) (target fuel : Nat)
    (ih : ∀ visited sels, (reachesFragment q target fuel visited sels).1 = true → Reach q sels target) :
    ∀ (l : List Sel) (acc : Bool × List Nat), (l.foldl (rfStep q target fuel) acc).1 = true →
      acc.1 = true ∨ ∃ sel ∈ l, Reach q [sel] target := by
  intro l
  induction l with
  | nil => intro acc h; left; simpa using h
  | cons x l ihl =>
    intro acc h
    simp only [List.foldl_cons] at h
    rcases ihl _ h with h1 | ⟨sel, hm, hr⟩
    · rcases rfStep_sound q target fuel ih acc x h1 with h2 | h2
      · left; exact h2
      · right; exact ⟨x, by simp, h2⟩
    · right; exact ⟨sel, by simp [hm], hr⟩

theorem rf_sound (q : Query) (target : Nat) :
    ∀ (fuel : Nat) (visited : List Nat) (sels : List Sel),
      (reachesFragment q target fuel visited sels).1 = true → Reach q sels target := by
  intro fuel
  induction fuel with
  | zero => intro visited sels h; simp [reachesFragment] at h
  | succ n ih =>
    intro visited sels h
    rw [rf_succ] at h
    rcases rfFold_sound q target n ih sels _ h with h1 | ⟨sel, hm, y, hy, hyt⟩
    · simp at h1
    · exact ⟨y, hy.of_mem hm, hyt⟩

/-- **6a.** a fragment flagged recursive reaches itself through spreads -/
theorem fragmentIsRecursive_sound (q : Query) (f : Nat) (h : fragmentIsRecursive q f = true) :
    OnSpreadCycle q f := by
  unfold fragmentIsRecursive at h
  split at h
  · simp at h
  · rename_i fr hfr
    obtain ⟨y, hy, hyt⟩ := rf_sound q f _ _ _ h
    have hst : spreadsTo q f y := ⟨fr, hfr, hy⟩
    rcases hyt with rfl | hyt
    · exact TransGen.single hst
    · exact TransGen.head hst hyt

/-! ### completeness -/

theorem selDepth_le_selsDepth {sel : Sel} {sels : List Sel} (h : sel ∈ sels) :
    selDepth sel ≤ selsDepth sels := by
  induction sels with
  | nil => simp at h
  | cons x xs ih =>
    rw [selsDepth]
    rcases List.mem_cons.mp h with rfl | h
    · omega
    · have := ih h; omega

/-- fragments not yet visited -/
def remainingF (q : Query) (visited : List Nat) : Nat :=
  (List.range q.fragments.length).countP (fun i => !visited.contains i)

theorem remainingF_mono (q : Query) {v v' : List Nat} (h : ∀ n ∈ v, n ∈ v') :
    remainingF q v' ≤ remainingF q v := by
  unfold remainingF
  apply List.countP_mono_left
  intro x _ hx
  simp only [Bool.not_eq_true', List.contains_eq_mem, decide_eq_false_iff_not] at hx ⊢
  exact fun hm => hx (h _ hm)

theorem remainingF_decreases (q : Query) (visited : List Nat) (fid : Nat)
    (hf : fid < q.fragments.length) (hv : fid ∉ visited) :
    remainingF q (fid :: visited) < remainingF q visited := by
  unfold remainingF
  apply countP_lt _ _ _ fid (by simpa using hf)
  · simpa using hv
  · simp
  · intro y hy
    simp only [List.contains_cons, Bool.not_eq_true', Bool.or_eq_false_iff] at hy
    simpa using hy.2

theorem remainingF_nil (q : Query) : remainingF q [] = q.fragments.length := by
  unfold remainingF
  simp

/-- every spread below `sels` is not the target and (if it names a fragment) has been visited -/
def Covers (q : Query) (target : Nat) (V : List Nat) (sels : List Sel) : Prop :=
  ∀ y, SpreadsIn sels y → y ≠ target ∧ (y < q.fragments.length → y ∈ V)

def ClosedF (q : Query) (target : Nat) (V : List Nat) (x : Nat) : Prop :=
  ∀ y, spreadsTo q x y → y ≠ target ∧ (y < q.fragments.length → y ∈ V)

theorem Covers.mono {q : Query} {target : Nat} {V V' : List Nat} {sels : List Sel}
    (h : Covers q target V sels) (hsub : ∀ n ∈ V, n ∈ V') : Covers q target V' sels :=
  fun y hy => ⟨(h y hy).1, fun hl => hsub _ ((h y hy).2 hl)⟩

theorem ClosedF.mono {q : Query} {target : Nat} {V V' : List Nat} {x : Nat}
    (h : ClosedF q target V x) (hsub : ∀ n ∈ V, n ∈ V') : ClosedF q target V' x :=
  fun y hy => ⟨(h y hy).1, fun hl => hsub _ ((h y hy).2 hl)⟩

/-- what one call of the walk guarantees, when `D` bounds the depth of every fragment body -/
def RfSpec (q : Query) (target D fuel : Nat) : Prop :=
  ∀ (visited : List Nat) (sels : List Sel), remainingF q visited * (D + 1) + selsDepth sels < fuel →
    (∀ n ∈ visited, n ∈ (reachesFragment q target fuel visited sels).2) ∧
    ((reachesFragment q target fuel visited sels).1 = false →
      Covers q target (reachesFragment q target fuel visited sels).2 sels ∧
      ∀ x ∈ (reachesFragment q target fuel visited sels).2, x ∉ visited →
        ClosedF q target (reachesFragment q target fuel visited sels).2 x)

structure RfStepSpec (q : Query) (target : Nat) (acc acc' : Bool × List Nat) (sel : Sel) : Prop where
  sub : ∀ n ∈ acc.2, n ∈ acc'.2
  ok : acc'.1 = false → acc.1 = false ∧ Covers q target acc'.2 [sel] ∧
    ∀ x ∈ acc'.2, x ∉ acc.2 → ClosedF q target acc'.2 x

theorem rfStep_spec (q : Query) (target D fuel : Nat)
    (hD : ∀ f ∈ q.fragments, selsDepth f.sels ≤ D) (ih : RfSpec q target D fuel)
    (acc : Bool × List Nat) (sel : Sel)
    (hfuel : remainingF q acc.2 * (D + 1) + selDepth sel ≤ fuel) :
    RfStepSpec q target acc (rfStep q target fuel acc sel) sel := by
  have triv : (acc.1 = false → Covers q target acc.2 [sel]) → RfStepSpec q target acc acc sel :=
    fun h => ⟨fun _ h => h, fun h1 => ⟨h1, h h1, fun x h2 h3 => absurd h2 h3⟩⟩
  unfold rfStep
  split
  · rename_i h1
    exact triv (fun h => by simp [h] at h1)
  · rename_i hacc0
    have hacc : acc.1 = false := by simpa using hacc0
    split
    · rename_i fid
      split
      · exact ⟨fun _ h => h, fun h => by simp at h⟩
      · rename_i hne
        have hne' : fid ≠ target := by simpa using hne
        split
        · rename_i hc
          refine triv (fun _ y hy => ?_)
          rw [spreadsIn_spread hy]
          exact ⟨hne', fun _ => by simpa using hc⟩
        · rename_i hc
          have hc' : fid ∉ acc.2 := by simpa using hc
          split
          · rename_i hnone
            refine triv (fun _ y hy => ?_)
            rw [spreadsIn_spread hy]
            refine ⟨hne', fun hl => ?_⟩
            rw [List.getElem?_eq_none_iff] at hnone
            omega
          · rename_i f hf
            have hlen : fid < q.fragments.length := (List.getElem?_eq_some_iff.mp hf).1
            have hdec := remainingF_decreases q acc.2 fid hlen hc'
            have hDf := hD f (List.mem_of_getElem? hf)
            have hfuel' : remainingF q (fid :: acc.2) * (D + 1) + selsDepth f.sels < fuel := by
              have h1 : (remainingF q (fid :: acc.2) + 1) * (D + 1) ≤ remainingF q acc.2 * (D + 1) :=
                Nat.mul_le_mul_right _ hdec
              rw [Nat.add_mul] at h1
              simp only [selDepth] at hfuel
              omega
            obtain ⟨h1, h2⟩ := ih (fid :: acc.2) f.sels hfuel'
            refine ⟨fun n hn => h1 n (by simp [hn]), fun hfalse => ?_⟩
            obtain ⟨hcov, hcl⟩ := h2 hfalse
            refine ⟨hacc, ?_, ?_⟩
            · intro y hy
              rw [spreadsIn_spread hy]
              exact ⟨hne', fun _ => h1 fid (by simp)⟩
            · intro x hx hnx
              by_cases hxf : x = fid
              · subst hxf
                intro y ⟨f', hf', hy⟩
                have : f' = f := by rw [hf] at hf'; injection hf' with h; exact h.symm
                subst this
                exact hcov y hy
              · exact hcl x hx (by simp [hxf, hnx])
    · rename_i al fi sub
      have hfuel' : remainingF q acc.2 * (D + 1) + selsDepth sub < fuel := by
        simp only [selDepth] at hfuel; omega
      obtain ⟨h1, h2⟩ := ih acc.2 sub hfuel'
      refine ⟨h1, fun hfalse => ?_⟩
      obtain ⟨hcov, hcl⟩ := h2 hfalse
      exact ⟨hacc, fun y hy => hcov y (spreadsIn_field hy), hcl⟩
    · rename_i t sub
      have hfuel' : remainingF q acc.2 * (D + 1) + selsDepth sub < fuel := by
        simp only [selDepth] at hfuel; omega
      obtain ⟨h1, h2⟩ := ih acc.2 sub hfuel'
      refine ⟨h1, fun hfalse => ?_⟩
      obtain ⟨hcov, hcl⟩ := h2 hfalse
      exact ⟨hacc, fun y hy => hcov y (spreadsIn_inline hy), hcl⟩
    · exact triv (fun _ y hy => (spreadsIn_typename hy).elim)

theorem rfFold_spec (q : Query) (target D fuel : Nat)
    (hD : ∀ f ∈ q.fragments, selsDepth f.sels ≤ D) (ih : RfSpec q target D fuel) (d : Nat) :
    ∀ (l : List Sel) (acc : Bool × List Nat), (∀ sel ∈ l, selDepth sel ≤ d) →
      remainingF q acc.2 * (D + 1) + d ≤ fuel →
      (∀ n ∈ acc.2, n ∈ (l.foldl (rfStep q target fuel) acc).2) ∧
      ((l.foldl (rfStep q target fuel) acc).1 = false → acc.1 = false ∧
        (∀ sel ∈ l, Covers q target (l.foldl (rfStep q target fuel) acc).2 [sel]) ∧
        (∀ x ∈ (l.foldl (rfStep q target fuel) acc).2, x ∉ acc.2 →
          ClosedF q target (l.foldl (rfStep q target fuel) acc).2 x)) := by
  intro l
  induction l with
  | nil =>
    intro acc _ _
    simp only [List.foldl_nil]
    exact ⟨fun _ h => h, fun h => ⟨h, by simp, fun x h2 h3 => absurd h2 h3⟩⟩
  | cons a l ihl =>
    intro acc hd hfuel
    simp only [List.foldl_cons]
    have hda := hd a (by simp)
    have hstep := rfStep_spec q target D fuel hD ih acc a (by omega)
    have hfuel' : remainingF q (rfStep q target fuel acc a).2 * (D + 1) + d ≤ fuel := by
      have := Nat.mul_le_mul_right (D + 1) (remainingF_mono q hstep.sub)
      omega
    obtain ⟨hsub, hrest⟩ := ihl (rfStep q target fuel acc a) (fun g hg => hd g (by simp [hg])) hfuel'
    refine ⟨fun n hn => hsub n (hstep.sub n hn), fun hfalse => ?_⟩
    obtain ⟨h1, h2, h3⟩ := hrest hfalse
    obtain ⟨s1, s2, s3⟩ := hstep.ok h1
    refine ⟨s1, ?_, ?_⟩
    · intro g hg
      rcases List.mem_cons.mp hg with rfl | hg
      · exact s2.mono hsub
      · exact h2 g hg
    · intro x hin hnot
      by_cases hmid : x ∈ (rfStep q target fuel acc a).2
      · exact (s3 x hmid hnot).mono hsub
      · exact h3 x hin hmid

theorem rf_spec (q : Query) (target D : Nat) (hD : ∀ f ∈ q.fragments, selsDepth f.sels ≤ D) :
    ∀ fuel, RfSpec q target D fuel := by
  intro fuel
  induction fuel with
  | zero => intro _ _ h; omega
  | succ n ih =>
    intro visited sels hfuel
    rw [rf_succ]
    obtain ⟨hsub, hrest⟩ := rfFold_spec q target D n hD ih (selsDepth sels) sels (false, visited)
      (fun sel hs => selDepth_le_selsDepth hs)
      (by show remainingF q visited * (D + 1) + selsDepth sels ≤ n; omega)
    refine ⟨hsub, fun hfalse => ?_⟩
    obtain ⟨_, h2, h3⟩ := hrest hfalse
    refine ⟨fun y hy => ?_, h3⟩
    obtain ⟨sel, hm, hs⟩ := hy.exists_mem
    exact h2 sel hm y hs

/-- completeness of the walk for **any** fuel above `#fragments * (D+1) + D`, `D` a bound on the
    nesting depth of every fragment body -/
theorem rf_complete_of_fuel (q : Query) (f D fuel : Nat) (fr : RFragment)
    (hD : ∀ g ∈ q.fragments, selsDepth g.sels ≤ D) (hfr : q.fragments[f]? = some fr)
    (hfuel : q.fragments.length * (D + 1) + D < fuel) (h : OnSpreadCycle q f) :
    (reachesFragment q f fuel [] fr.sels).1 = true := by
  cases hres : (reachesFragment q f fuel [] fr.sels).1
  · exfalso
    have hDf := hD fr (List.mem_of_getElem? hfr)
    obtain ⟨_, hok⟩ := rf_spec q f D hD fuel [] fr.sels (by rw [remainingF_nil]; omega)
    obtain ⟨hcov, hcl⟩ := hok hres
    have key : ∀ y, TransGen (spreadsTo q) f y → y ≠ f ∧ (y < q.fragments.length →
        y ∈ (reachesFragment q f fuel [] fr.sels).2) := by
      intro y hy
      induction hy with
      | single hd =>
        obtain ⟨fr', hfr', hs⟩ := hd
        have : fr' = fr := by rw [hfr] at hfr'; injection hfr' with h; exact h.symm
        subst this
        exact hcov _ hs
      | tail _ hd ihy =>
        have ⟨fb, hfb, _⟩ := hd
        have hlen := (List.getElem?_eq_some_iff.mp hfb).1
        exact hcl _ (ihy.2 hlen) (by simp) _ hd
    exact (key f h).1 rfl
  · rfl

/-- the depth bound used by `walkFuel` -/
def walkDepth (q : Query) : Nat :=
  (q.fragments.map (fun f => selsDepth f.sels) ++ q.operations.map (fun o => selsDepth o.sels)).foldl max 0

theorem walkFuel_eq (q : Query) : walkFuel q = (q.fragments.length + 1) * (walkDepth q + 2) + 1 := rfl

theorem le_foldl_max (l : List Nat) : ∀ (init : Nat), init ≤ l.foldl max init ∧ ∀ x ∈ l, x ≤ l.foldl max init := by
  induction l with
  | nil => intro init; simp
  | cons a l ih =>
    intro init
    simp only [List.foldl_cons]
    obtain ⟨h1, h2⟩ := ih (max init a)
    refine ⟨by omega, fun x hx => ?_⟩
    rcases List.mem_cons.mp hx with rfl | hx
    · omega
    · exact h2 x hx

theorem walkDepth_bound (q : Query) : ∀ f ∈ q.fragments, selsDepth f.sels ≤ walkDepth q := by
  intro f hf
  apply (le_foldl_max _ 0).2
  simp only [List.mem_append, List.mem_map]
  exact Or.inl ⟨f, hf, rfl⟩

/-- `walkFuel q` meets the bound of `rf_complete_of_fuel` -/
theorem walkFuel_sufficient (q : Query) :
    q.fragments.length * (walkDepth q + 1) + walkDepth q < walkFuel q := by
  rw [walkFuel_eq]
  generalize q.fragments.length = F
  generalize walkDepth q = d
  simp only [Nat.add_mul, Nat.mul_add]
  omega

/-- **6b.** the walk finds every spread cycle; fuel `walkFuel q` suffices.  (No range hypothesis on
    the spread indices is needed: a dangling spread cannot lie on a cycle.) -/
theorem fragmentIsRecursive_complete (q : Query) (f : Nat) (h : OnSpreadCycle q f) :
    fragmentIsRecursive q f = true := by
  unfold fragmentIsRecursive
  split
  · rename_i hnone
    obtain ⟨y, ⟨fr, hfr, _⟩, _⟩ := TransGen.head'_iff.mp h
    rw [hnone] at hfr; cases hfr
  · rename_i fr hfr
    exact rf_complete_of_fuel q f (walkDepth q) (walkFuel q) fr (walkDepth_bound q) hfr
      (walkFuel_sufficient q) h

theorem fragmentIsRecursive_iff (q : Query) (f : Nat) :
    fragmentIsRecursive q f = true ↔ OnSpreadCycle q f :=
  ⟨fragmentIsRecursive_sound q f, fragmentIsRecursive_complete q f⟩

/-- the spread edges that stay by-value after boxing -/
def byValueF (q : Query) (a b : Nat) : Prop := spreadsTo q a b ∧ fragmentIsRecursive q b = false

/-- **6c.** a spread edge `a → b` whose target is not flagged (hence not boxed) lies on no cycle -/
theorem fragment_boxed_acyclic (q : Query) (a b : Nat) (hab : spreadsTo q a b)
    (hb : fragmentIsRecursive q b = false) : ¬ (b = a ∨ TransGen (spreadsTo q) b a) := by
  intro h
  have : OnSpreadCycle q b := by
    rcases h with rfl | h
    · exact TransGen.single hab
    · exact TransGen.tail h hab
  rw [fragmentIsRecursive_complete q b this] at hb
  cases hb

/-- … in particular the by-value spread edges form an acyclic graph -/
theorem fragment_boxed_acyclic' (q : Query) : ¬ ∃ t, TransGen (byValueF q) t t := by
  rintro ⟨t, h⟩
  have hcyc : OnSpreadCycle q t := transGen_mono (fun _ _ h => h.1) h
  have hrec := fragmentIsRecursive_complete q t hcyc
  rcases TransGen.tail'_iff.mp h with ⟨c, _, hc⟩
  rw [hc.2] at hrec
  simp at hrec




/-- the rendered field type is a `Box` exactly when `renderField` is called with `boxed = true`
    (as `calcFields` / `calcVariantSels` do with `fragmentIsRecursive` for every spread) -/
theorem renderField_box_iff (c : Ctx) (g : Option String) (rn ft : String) (quals : List Qual)
    (fl boxed : Bool) (dep : Option (Option String)) (fld : RField)
    (h : renderField c g rn ft quals fl boxed dep = .ok (some fld)) : isBox fld.ty = boxed := by
  unfold renderField at h
  cases hd : decorateType (.path ft) quals with
  | error e => simp [hd, bind, Except.bind] at h
  | ok t =>
    have hnb := decorateType_not_box _ _ _ hd rfl
    simp only [hd, bind, Except.bind] at h
    split at h
    · simp [pure, Except.pure] at h
    · simp only [pure, Except.pure, Except.ok.injEq, Option.some.injEq] at h
      subst h
      cases boxed
      · simpa using hnb
      · simp [isBox]

/-- an alias to a fragment is a `Box` exactly when `aliasItem` is called with `boxed = true` -/
theorem aliasItem_box_iff (name target : String) (boxed : Bool) :
    aliasItem name target boxed = .alias name true (if boxed then .box (.path target) else .path target) := rfl

/-! ### examples (fragments) -/

/-- `F0 { f { ...F1 } }`, `F1 { ... on T { ...F0 } }`, `F2 { ...F0 }`, `F3 { __typename }` -/
def exQ : Query :=
  { fragments := [ { name := "F0", on := .object 0, sels := [.field none 0 [.spread 1]] },
                   { name := "F1", on := .object 0, sels := [.typename, .inline (.object 0) [.spread 0]] },
                   { name := "F2", on := .object 0, sels := [.spread 0] },
                   { name := "F3", on := .object 0, sels := [.typename] } ] }

example : fragmentIsRecursive exQ 0 = true ∧ fragmentIsRecursive exQ 1 = true ∧
    fragmentIsRecursive exQ 2 = false ∧ fragmentIsRecursive exQ 3 = false := by decide
example : OnSpreadCycle exQ 0 := fragmentIsRecursive_sound exQ 0 (by decide)
example : ¬ OnSpreadCycle exQ 2 := fun h => by
  have := fragmentIsRecursive_complete exQ 2 h
  revert this; decide

end C12Graph
end GqlVerif
