import GqlVerif.Proofs.C01NestedH
/-!
# C01 end to end (`NestedOp`), part I: the rank recursion for the round trip; `nested_lossless`, `nested_roundtrip`

* `centN c r g kvs` — the entries the struct of the fragment `g` writes for the object `kvs`: rank `0` `canonEntriesV` of its
  (spread-free) body, a fragment new at rank `r + 1` `canonEntriesN (centN c r)` of its body — own entries and, at the
  position of each spread of the body, the entries of that fragment;
* `rustSideN c r g` — decidable side condition: Rust field names pairwise distinct in the struct of the fragment `g` and
  below, recursively;
* **`fragRTN`** — by induction on the rank: `FragRT e c (exN c.q r') (centN c r) (KNn c r) g` for every `r' ≥ r`;
* `nestedRustOk`, **`top_losslessN`**, **`nested_lossless`**, **`nested_roundtrip`** —
  `Serde.roundtrip (moduleEnv c items) ResponseData j = .ok (normJson (canonSelN (centN c R) … j))` for every conforming `j`.
-/
set_option linter.unusedSimpArgs false
set_option linter.unusedVariables false
set_option linter.unusedSectionVars false
set_option linter.unnecessarySimpa false

namespace GqlVerif
namespace C01N
open Serde Spec C13 C03 Codegen C01 C01.E2E C01M

/-- **the entries the struct of the fragment `g` writes** -/
def centN (c : Ctx) : Nat → Nat → List (String × Json) → List (String × Json)
  | 0, g, kvs => canonEntriesV c.s c.o.skipNone (fragSels c.q g) kvs
  | r + 1, g, kvs =>
    if fragOkN c.s c.q c.o r (fragOn c.q g) g then centN c r g kvs
    else canonEntriesN (centN c r) c.s c.q c.o.skipNone (fragSels c.q g) kvs

/-- **Rust field names pairwise distinct in the struct of the fragment `g`** and in the structs below (decidable) -/
def rustSideN (c : Ctx) : Nat → Nat → Bool
  | 0, g => rustOkFrag c g
  | r + 1, g =>
    if fragOkN c.s c.q c.o r (fragOn c.q g) g then rustSideN c r g
    else rustOkSelsN c (fragSels c.q g) && EnumSpec.nodup (rustNamesF c (fragSels c.q g)) &&
      (objSpreadss c.s (fragSels c.q g)).all (rustSideN c r)

theorem FragRT.congr {e : Env} {c : Ctx} {ex : Nat → Sel} {cent cent' : Nat → List (String × Json) → List (String × Json)}
    {KN KN' : String → List String} {g : Nat} (fr : FragRT e c ex cent KN g) (hc : ∀ kvs, cent' g kvs = cent g kvs)
    (hk : KN' (fragName c g) = KN (fragName c g)) : FragRT e c ex cent' KN' g := by
  obtain ⟨N, h⟩ := fr.rt
  refine ⟨⟨N, fun fd fs hfd hfs b i kvs L v hfon hnd hL hcf hd => ?_⟩⟩
  rw [hc]
  exact h fd fs hfd hfs b i kvs L v hfon hnd (by rw [← hk]; exact hL) hcf hd

/-- **round trip of the struct of a fragment of rank `r`** (by induction on the rank) -/
theorem fragRTN (e : Env) (c : Ctx) (hnd : fragNamesOk c = true) : ∀ (r : Nat) (p : TypeId) (g : Nat),
    fragOkN c.s c.q c.o r p g = true → FragEnvN e c r g → fragSideN c r g = true → rustSideN c r g = true →
    ∀ r', r ≤ r' → FragRT e c (exN c.q r') (centN c r) (KNn c r) g
  | 0, p, g => by
    intro h henv _ hro r' _
    rw [fragOkN] at h
    obtain ⟨fr, hfr, hon, _, hv, hkeys⟩ := fragOk_parts h
    have hname : fragName c g = fr.name := by simp [fragName, hfr]
    have hsels : fragSels c.q g = fr.sels := by simp [fragSels, hfr]
    have hid : idOf c.q fr.name = g := idOf_name hnd hfr
    have hKN : KNn c 0 fr.name = fieldKeys c.s fr.sels := by rw [KNn, hid, hsels]
    have hfon0 : fragOn c.q g = fr.on := by simp [fragOn, hfr]
    rw [FragEnvN] at henv
    unfold FragEnv at henv
    rw [hfr] at henv
    obtain ⟨hs, henvV⟩ := henv
    rw [rustSideN] at hro
    simp only [rustOkFrag, hsels, Bool.and_eq_true] at hro
    obtain ⟨hp, hne, n, d, cr, hfind⟩ := hs
    refine ⟨⟨2 * selsDepth fr.sels + 2, fun fd fs hfd hfs b i kvs L v hfon hndk hL hcf hd => ?_⟩⟩
    rw [hname] at hL hd ⊢
    rw [hKN] at hL
    rw [exN_spreadfree c.q r' g fr hfr (noSpreads_of_vSels c.s c.o fr.sels false hv)] at hcf
    have hon' : fr.on = .object i := by rw [← hfon0]; exact hfon
    simp only [confSelV, hon', fragApplies, beq_self_eq_true, Bool.not_true, Bool.false_or] at hcf
    obtain ⟨fd', rfl⟩ : ∃ k, fd = k + 1 := ⟨fd - 1, by omega⟩
    have hpl := plain_fieldsOfV c (c.cs.camel fr.name) fr.sels
    have hd' : dePath e b (fd' + 1) fr.name (.obj kvs) = .ok v := by
      rw [dePath_struct e b fd' fr.name n d cr _ hp hfind, deStruct_obj, deStructMap_plain _ _ _ _ hpl] at hd ⊢
      rw [deOwn_filter_not _ L kvs _ (fun f hf _ hfL => hL _ hfL (by
        rw [← wire_fieldsOfV c _ false fr.sels hv]; exact List.mem_map_of_mem hf))] at hd
      exact hd
    simp only [centN, hsels]
    exact rtStructV e c _ _ fr.sels (fun x hx => (rtSelsV e c fr.sels _ x hx).1) false hv henvV hro.2 hro.1 hkeys
      ⟨hp, hne, n, d, cr, hfind⟩ b (fd' + 1) fs (by omega) (by omega) kvs ⟨hndk, strictAt_of_conf hcf⟩ _ hd'
  | r + 1, p, g => by
    intro h henv hside hro r' hr'
    have IH := fragRTN e c hnd r
    by_cases hold : fragOkN c.s c.q c.o r p g = true
    · obtain ⟨fr, hfr, hon, _, _⟩ := fragOkN_spec c.s c.q c.o r p g hold
      have hfon : fragOn c.q g = p := by simp [fragOn, hfr, hon]
      have hname : fragName c g = fr.name := by simp [fragName, hfr]
      have hid : idOf c.q fr.name = g := idOf_name hnd hfr
      rw [FragEnvN, hfon, if_pos hold] at henv
      rw [fragSideN, hfon, if_pos hold] at hside
      rw [rustSideN, hfon, if_pos hold] at hro
      refine (IH p g hold henv hside hro r' (by omega)).congr (fun kvs => ?_) ?_
      · rw [centN, hfon, if_pos hold]
      · rw [hname, KNn, hid, hfon, if_pos hold]
    · have holdf : fragOkN c.s c.q c.o r p g = false := by simpa using hold
      rw [fragOkN, holdf, Bool.false_or] at h
      obtain ⟨fr, hfr, hon, _, _, hnl, hb⟩ := fragNew_parts h
      have hfon : fragOn c.q g = p := by simp [fragOn, hfr, hon]
      have hname : fragName c g = fr.name := by simp [fragName, hfr]
      have hsels : fragSels c.q g = fr.sels := by simp [fragSels, hfr]
      have hid : idOf c.q fr.name = g := idOf_name hnd hfr
      have hKN : KNn c (r + 1) fr.name = expKeysN (KNn c r) c fr.sels := by
        rw [KNn, hid, hfon, if_neg hold, hsels]
      have hce : ∀ kvs, centN c (r + 1) g kvs = canonEntriesN (centN c r) c.s c.q c.o.skipNone fr.sels kvs := by
        intro kvs; rw [centN, hfon, if_neg hold, hsels]
      by_cases hpo : ∃ i, p = .object i
      · obtain ⟨i, rfl⟩ := hpo
        obtain ⟨r'', rfl⟩ : ∃ k, r' = k + 1 := ⟨r' - 1, by omega⟩
        have hex : exN c.q (r'' + 1) g = .inline fr.on (expandSelsW (exN c.q r'') fr.sels) := by simp [exN, hfr]
        rw [FragEnvN, hfon, if_neg hold] at henv
        simp only [hfr] at henv
        rw [fragSideN, hfon] at hside
        simp only [holdf, Bool.false_eq_true, ↓reduceIte, hsels, Bool.and_eq_true, List.all_eq_true] at hside
        rw [rustSideN, hfon] at hro
        simp only [holdf, Bool.false_eq_true, ↓reduceIte, hsels, Bool.and_eq_true, List.all_eq_true] at hro
        obtain ⟨⟨hko, hkeys⟩, hsub⟩ := hside
        obtain ⟨⟨hros, hrn⟩, hrsub⟩ := hro
        obtain ⟨hs, henvs⟩ := henv
        have hok := fragOkN_spec c.s c.q c.o r
        have hfa : ∀ p' g', fragOkN c.s c.q c.o r p' g' = true →
            (FragEnvN e c r g' ∧ (fragSideN c r g' = true ∧ rustSideN c r g' = true)) →
            FragAcc e c (wholeN c r) (KNn c r) g' :=
          fun p' g' h1 h2 => fragAccN e c hnd r p' g' h1 h2.1 h2.2.1
        have hfrt : ∀ p' g', fragOkN c.s c.q c.o r p' g' = true →
            (FragEnvN e c r g' ∧ (fragSideN c r g' = true ∧ rustSideN c r g' = true)) →
            FragRT e c (exN c.q r'') (centN c r) (KNn c r) g' :=
          fun p' g' h1 h2 => IH p' g' h1 h2.1 h2.2.1 h2.2.2 r'' (by omega)
        have hexA : ∀ g', FragOkAny c.s c.q c.o g' → exN c.q r'' g' = expandSel c.q (.spread g') :=
          fun g' hg' => exN_fragOkAny hg' r''
        have henvs' := envSelsN_and (P := fun g' => fragSideN c r g' = true ∧ rustSideN c r g' = true) fr.sels _ henvs
          (fun g' hg' => ⟨hsub g' hg', hrsub g' hg'⟩)
        rw [hon] at hb
        obtain ⟨N, hN⟩ := rtStructN e c _ (wholeN c r) (KNn c r) _ (exN c.q r'') (centN c r) hok hfa hfrt
          (c.cs.camel fr.name) fr.name i fr.sels
          (rtSelsN e c _ (wholeN c r) (KNn c r) _ (exN c.q r'') (centN c r) fr.sels _ hok hfa hfrt hexA) hb henvs' hko hkeys
          hros hrn hs
        refine ⟨⟨N, fun fd fs hfd hfs b i' kvs L v hfon' hndk hL hcf hd => ?_⟩⟩
        have hi : i' = i := by
          rw [hfon] at hfon'; injection hfon' with h; exact h.symm
        subst hi
        rw [hname] at hL hd ⊢
        rw [hKN] at hL
        rw [hex] at hcf
        simp only [confSelV, hon, fragApplies, beq_self_eq_true, Bool.not_true, Bool.false_or] at hcf
        rw [hce]
        exact hN b fd fs hfd hfs kvs L v hndk hL hcf hd
      · refine ⟨⟨0, fun fd fs _ _ b i kvs L v hfon' => ?_⟩⟩
        exact absurd ⟨i, hfon.symm.trans hfon'⟩ hpo

/-! ## top level -/

/-- Rust field names pairwise distinct in every struct at an object position of the operation and in the structs of the
    spread fragments, recursively (decidable) -/
def nestedRustOk (c : Ctx) (op : ROperation) : Bool :=
  rustOkSelsN c op.sels && EnumSpec.nodup (rustNamesF c op.sels) &&
  (objSpreadss c.s op.sels).all (rustSideN c c.q.fragments.length)

/-- **losslessness at the top level** (generic environment) -/
theorem top_losslessN (e : Env) (c : Ctx) (op : ROperation) (ht : NestedOp c op = true) (hnd : fragNamesOk c = true)
    (hk : nestedKeysOk c op = true) (hr : nestedRustOk c op = true) (he : TopEnvN e c op) (hS : SerdeFuel.EnvOKS e)
    (j : Json) (v : Val) (hc : conformsOpN c op j = true) (hd : Serde.de e (.path "ResponseData") j = .ok v) :
    Serde.ser e (.path "ResponseData") v =
      .ok (normJson (canonSelN (centN c c.q.fragments.length) c.s c.q c.o.skipNone op.sels j)) := by
  obtain ⟨_, _, hsels⟩ := nestedOp_parts ht
  simp only [nestedKeysOk, Bool.and_eq_true, List.all_eq_true] at hk
  simp only [nestedRustOk, Bool.and_eq_true, List.all_eq_true] at hr
  obtain ⟨⟨hko, hkeys⟩, hsub⟩ := hk
  obtain ⟨⟨hros, hrn⟩, hrsub⟩ := hr
  have hfa : ∀ p' g', fragOkN c.s c.q c.o c.q.fragments.length p' g' = true →
      (FragEnvN e c c.q.fragments.length g' ∧
        (fragSideN c c.q.fragments.length g' = true ∧ rustSideN c c.q.fragments.length g' = true)) →
      FragAcc e c (wholeN c c.q.fragments.length) (KNn c c.q.fragments.length) g' :=
    fun p' g' h1 h2 => fragAccN e c hnd _ p' g' h1 h2.1 h2.2.1
  have hfrt : ∀ p' g', fragOkN c.s c.q c.o c.q.fragments.length p' g' = true →
      (FragEnvN e c c.q.fragments.length g' ∧
        (fragSideN c c.q.fragments.length g' = true ∧ rustSideN c c.q.fragments.length g' = true)) →
      FragRT e c (exN c.q c.q.fragments.length) (centN c c.q.fragments.length) (KNn c c.q.fragments.length) g' :=
    fun p' g' h1 h2 => fragRTN e c hnd _ p' g' h1 h2.1 h2.2.1 h2.2.2 _ (Nat.le_refl _)
  obtain ⟨N, hN⟩ := bodyN_lossless e c _ (wholeN c c.q.fragments.length) (KNn c c.q.fragments.length) _
    (exN c.q c.q.fragments.length) (centN c c.q.fragments.length) (fragOkN_spec c.s c.q c.o _) hfa hfrt
    (fun g hg => exN_fragOkAny hg _) (c.cs.camel op.name) "ResponseData" op.objectId op.sels hsels
    (bodyEnvN_and (P := fun g' => fragSideN c c.q.fragments.length g' = true ∧
        rustSideN c c.q.fragments.length g' = true) he.root (fun g' hg' => ⟨hsub g' hg', hrsub g' hg'⟩))
    hko hkeys hros hrn
  rw [de_top, ← SerdeFuel.dePath_fuel_indep he.ok false "ResponseData" j (max N (deFuel e j))
    (Nat.le_max_right _ _)] at hd
  have hser := hN false _ (max N (SerdeFuel.serFuel e v)) (Nat.le_max_left _ _) (Nat.le_max_left _ _) j v hc hd
  rw [← SerdeFuel.ser_fuel_indep hS (.path "ResponseData") v (max N (SerdeFuel.serFuel e v)) (Nat.le_max_right _ _)]
  rw [show serTy e (max N (SerdeFuel.serFuel e v)) (.path "ResponseData") v =
    serPath e (max N (SerdeFuel.serFuel e v)) "ResponseData" v from rfl, hser]
  rfl

/-- **`nested_lossless`.**  A conforming response that was read is written back as `normJson (canonSelN … j)`. -/
theorem nested_lossless (c : Ctx) (opIdx : Nat) (op : ROperation) (items : List Item)
    (hop : c.q.operations[opIdx]? = some op) (ht : NestedOp c op = true) (hnd : fragNamesOk c = true)
    (hk : nestedKeysOk c op = true) (hr : nestedRustOk c op = true)
    (hgen : responseForQuery c opIdx = .ok items) (hok : moduleOk c items = true)
    (j : Json) (hc : conformsOpN c op j = true) (v : Val)
    (hd : Serde.de (moduleEnv c items) (.path "ResponseData") j = .ok v) :
    Serde.ser (moduleEnv c items) (.path "ResponseData") v =
      .ok (normJson (canonSelN (centN c c.q.fragments.length) c.s c.q c.o.skipNone op.sels j)) :=
  top_losslessN (moduleEnv c items) c op ht hnd hk hr
    (topEnvN_of_module hop ht hgen hok) (nested_module_envOK hop ht hgen hok).2 j v hc hd

/-- **`nested_roundtrip`**: both in one statement -/
theorem nested_roundtrip (c : Ctx) (opIdx : Nat) (op : ROperation) (items : List Item)
    (hop : c.q.operations[opIdx]? = some op) (ht : NestedOp c op = true) (hnd : fragNamesOk c = true)
    (hk : nestedKeysOk c op = true) (hr : nestedRustOk c op = true)
    (hgen : responseForQuery c opIdx = .ok items) (hok : moduleOk c items = true)
    (j : Json) (hc : conformsOpN c op j = true) :
    Serde.roundtrip (moduleEnv c items) (.path "ResponseData") j =
      .ok (normJson (canonSelN (centN c c.q.fragments.length) c.s c.q c.o.skipNone op.sels j)) := by
  obtain ⟨v, hv⟩ := nested_accepts c opIdx op items hop ht hnd hk hgen hok j hc
  unfold Serde.roundtrip
  rw [hv]
  exact nested_lossless c opIdx op items hop ht hnd hk hr hgen hok j hc v hv

end C01N
end GqlVerif
