import GqlVerif.Proofs.C01VariantSpreadA
/-!
# C01 / C03 end to end: fragment spreads at abstract positions (`VariantSpreadOp`), part B: exact acceptance

* `conformsLooseS s q o b sels j` / `conformsLooseAbsS s q o b ty sub j` — the exact acceptance predicates of the struct
  emitted for an object-level selection set and of the type(s) emitted at an abstract position.  As `conformsLooseV` /
  `conformsLooseAbs`; the payload of the variant `T` accepts the other entries iff the own fields of the inline fragment
  on `T` accept them (`loosePayS`) **and every fragment on `T` that is spread accepts them, read as buffered content**
  (`looseMemS`) — whether the payload is the alias of the fragment struct (a lone spread) or a struct with flattened
  members.
* `structS_accepts_iff`, `absS_accepts_iff` — acceptance is exactly these predicates (mutual induction `accSelS` /
  `accSelsS` / `accInlS` over the selection tree; `accVariantS` for one variant's payload, from `deStructMap_flat`).
* specification: `conformsV` on `expandSels c.q sels` (every spread replaced by the inline fragment
  `... on T { body }`); `conformsS_loose`: conforming ⇒ accepted.
-/
set_option linter.unusedSimpArgs false
set_option linter.unusedVariables false
set_option linter.unusedSectionVars false

namespace GqlVerif
namespace C01
namespace E2E
open Serde Spec C13 C03 Codegen

/-! ## the exact acceptance predicate -/

/-- the flattened members of the variant `vt`: every fragment on `vt` that is spread reads its fields from the other
    entries, as buffered content -/
def looseMemS (s : Schema) (q : Query) (o : Options) (vt : TypeId) : List Sel → List (String × Json) → Bool
  | [], _ => true
  | .spread g :: xs, rest =>
    (match q.fragments[g]? with
     | some f => f.on != vt || looseSelsV s o true f.sels rest
     | none => true) && looseMemS s q o vt xs rest
  | _ :: xs, rest => looseMemS s q o vt xs rest

mutual
  def looseFieldS (s : Schema) (q : Query) (o : Options) (b : Bool) : Sel → Json → Bool
    | .field _ fid sub, v =>
      match s.fields[fid]? with
      | none => false
      | some sf =>
        match sf.ty.id with
        | .scalar k => (match s.scalars[k]? with
          | some n => accepts (scalarOk n) (gtyOf sf.ty.quals) v
          | none => false)
        | .enum k => (match s.enums[k]? with
          | some _ => accepts stringOk (gtyOf sf.ty.quals) v
          | none => false)
        | .object i => (match s.objects[i]? with
          | some _ => accepts (fun j => match j with
              | .obj kvs' => looseSelsS s q o b sub kvs'
              | .arr xs => looseArrS s q o b sub xs
              | _ => false) (gtyOf sf.ty.quals) v
          | none => false)
        | .input _ => false
        | ty =>
          accepts (fun j => match j with
            | .obj kvs' =>
              looseSelsS s q o b sub kvs' &&
              tagOkV s o (sub.any isFieldSel || b) (vtsOfTy s ty)
                (fun vt rest => loosePayS s q o vt sub rest && looseMemS s q o vt sub rest)
                (if sub.any isFieldSel then kvs'.filter (fun kv => !(fieldKeys s sub).contains kv.1) else kvs')
            | _ => false) (gtyOf sf.ty.quals) v
    | _, _ => true
  def looseSelsS (s : Schema) (q : Query) (o : Options) (b : Bool) : List Sel → List (String × Json) → Bool
    | [], _ => true
    | .field a fid sub :: xs, kvs =>
      (match s.fields[fid]? with
       | none => false
       | some sf =>
         decide (countKey (a.getD sf.name) kvs ≤ 1) &&
         (match Json.lookup (a.getD sf.name) kvs with
          | none => nullableQ sf.ty.quals
          | some v => looseFieldS s q o b (.field a fid sub) v)) && looseSelsS s q o b xs kvs
    | _ :: xs, kvs => looseSelsS s q o b xs kvs
  def looseArrS (s : Schema) (q : Query) (o : Options) (b : Bool) : List Sel → List Json → Bool
    | [], _ => true
    | .field a fid sub :: xs, vs =>
      (match vs with
       | [] => false
       | v :: vs' => looseFieldS s q o b (.field a fid sub) v && looseArrS s q o b xs vs')
    | _ :: xs, vs => looseArrS s q o b xs vs
  /-- the own fields of the variant struct of `vt` (those of the inline fragment on `vt`), read from buffered content -/
  def loosePayS (s : Schema) (q : Query) (o : Options) (vt : TypeId) : List Sel → List (String × Json) → Bool
    | [], _ => true
    | .inline t isub :: xs, rest => (t != vt || looseSelsS s q o true isub rest) && loosePayS s q o vt xs rest
    | _ :: xs, rest => loosePayS s q o vt xs rest
end

/-- what the generated `ResponseData` (or any struct of an object-level selection set) of the class accepts -/
def conformsLooseS (s : Schema) (q : Query) (o : Options) (b : Bool) (sels : List Sel) : Json → Bool
  | .obj kvs => looseSelsS s q o b sels kvs
  | .arr xs => looseArrS s q o b sels xs
  | _ => false

/-- … and the type emitted at an abstract position -/
def conformsLooseAbsS (s : Schema) (q : Query) (o : Options) (b : Bool) (ty : TypeId) (sub : List Sel) : Json → Bool
  | .obj kvs' =>
    looseSelsS s q o b sub kvs' &&
    tagOkV s o (sub.any isFieldSel || b) (vtsOfTy s ty)
      (fun vt rest => loosePayS s q o vt sub rest && looseMemS s q o vt sub rest)
      (if sub.any isFieldSel then kvs'.filter (fun kv => !(fieldKeys s sub).contains kv.1) else kvs')
  | _ => false

theorem looseLambdaS (s : Schema) (q : Query) (o : Options) (b : Bool) (sub : List Sel) :
    (fun j => match j with
      | Json.obj kvs' => looseSelsS s q o b sub kvs'
      | Json.arr xs => looseArrS s q o b sub xs
      | _ => false) = conformsLooseS s q o b sub := by
  funext j; cases j <;> rfl

theorem looseLambdaAbsS (s : Schema) (q : Query) (o : Options) (b : Bool) (ty : TypeId) (sub : List Sel) :
    (fun j => match j with
      | Json.obj kvs' =>
        looseSelsS s q o b sub kvs' &&
        tagOkV s o (sub.any isFieldSel || b) (vtsOfTy s ty)
          (fun vt rest => loosePayS s q o vt sub rest && looseMemS s q o vt sub rest)
          (if sub.any isFieldSel then kvs'.filter (fun kv => !(fieldKeys s sub).contains kv.1) else kvs')
      | _ => false) = conformsLooseAbsS s q o b ty sub := by
  funext j; cases j <;> rfl

/-! ## what the theorems need of the environment -/

/-- the item of the variant `vt`: nothing, the alias of the fragment struct, or the variant struct -/
def VarEnv (e : Env) (c : Ctx) (pfx : String) (vt : TypeId) (sub : List Sel) : Prop :=
  match mineOf c.q vt sub with
  | [] => True
  | [.spread g] => AliasEnv e (pfx ++ "On" ++ objName c.s vt) (fragName c g)
  | _ => StructEnv e (pfx ++ "On" ++ objName c.s vt) (varFields c pfx vt sub)

mutual
  def envSelS (e : Env) (c : Ctx) (pfx : String) : Sel → Prop
    | .field a fid sub =>
      match c.s.fields[fid]? with
      | none => True
      | some sf =>
        match sf.ty.id with
        | .scalar k => (match c.s.scalars[k]? with | some sn => ScalarEnv e sn | none => True)
        | .enum k => (match c.s.enums[k]? with | some en => EnumEnv e en.name | none => True)
        | .object _ =>
          StructEnv e (pfx ++ c.cs.camel (a.getD sf.name)) (fieldsOfV c (pfx ++ c.cs.camel (a.getD sf.name)) sub) ∧
          envSelsS e c (pfx ++ c.cs.camel (a.getD sf.name)) sub
        | .input _ => True
        | ty =>
          AbsEnv e (pfx ++ c.cs.camel (a.getD sf.name)) (fieldsOfV c (pfx ++ c.cs.camel (a.getD sf.name)) sub)
            (variantsV c (pfx ++ c.cs.camel (a.getD sf.name)) ty (marks c.q sub)) ∧
          (∀ vt ∈ vtsOfTy c.s ty, VarEnv e c (pfx ++ c.cs.camel (a.getD sf.name)) vt sub) ∧
          envSelsS e c (pfx ++ c.cs.camel (a.getD sf.name)) sub
    | .inline t isub => envSelsS e c (pfx ++ "On" ++ c.cs.camel (objName c.s t)) isub
    | .spread g => FragEnv e c g
    | .typename => True
  def envSelsS (e : Env) (c : Ctx) (pfx : String) : List Sel → Prop
    | [] => True
    | x :: xs => envSelS e c pfx x ∧ envSelsS e c pfx xs
end

theorem envSelsS_mem {e : Env} {c : Ctx} {pfx : String} : ∀ {sels : List Sel}, envSelsS e c pfx sels →
    ∀ x ∈ sels, envSelS e c pfx x
  | [], _, _, hx => by simp at hx
  | y :: ys, h, x, hx => by
    rw [envSelsS] at h
    rcases List.mem_cons.mp hx with rfl | hx'
    · exact h.1
    · exact envSelsS_mem h.2 x hx'

/-! ## facts about the emitted fields of a selection set of the class -/

theorem fieldOfSelV_s (c : Ctx) (pfx : String) (abs : Bool) (a : Option String) (fid : Nat) (sub : List Sel)
    (ht : sSel c.s c.q c.o abs (.field a fid sub) = true) :
    ∃ sf ft, c.s.fields[fid]? = some sf ∧ leafNameV c pfx (a.getD sf.name) sf.ty.id = some ft ∧
      fieldOfSelV c pfx (.field a fid sub) = some (fieldOf c (a.getD sf.name) ft sf.ty.quals sf.deprecation) ∧
      wfQuals sf.ty.quals = true := by
  rw [sSel] at ht
  cases hsf : c.s.fields[fid]? with
  | none => simp [hsf] at ht
  | some sf =>
    simp only [hsf, Bool.and_eq_true] at ht
    obtain ⟨⟨hw, _⟩, hty⟩ := ht
    cases hid : sf.ty.id with
    | scalar k =>
      simp only [hid, Bool.and_eq_true] at hty
      cases hk : c.s.scalars[k]? with
      | none => simp [hk] at hty
      | some sn => exact ⟨sf, sn, rfl, by simp [leafNameV, hid, hk], by simp [fieldOfSelV, hsf, leafNameV, hid, hk], hw⟩
    | «enum» k =>
      simp only [hid, Bool.and_eq_true] at hty
      cases hk : c.s.enums[k]? with
      | none => simp [hk] at hty
      | some en => exact ⟨sf, en.name, rfl, by simp [leafNameV, hid, hk], by simp [fieldOfSelV, hsf, leafNameV, hid, hk], hw⟩
    | object i => exact ⟨sf, pfx ++ c.cs.camel (a.getD sf.name), rfl, by simp [leafNameV, hid], by simp [fieldOfSelV, hsf, leafNameV, hid], hw⟩
    | interface k => exact ⟨sf, pfx ++ c.cs.camel (a.getD sf.name), rfl, by simp [leafNameV, hid], by simp [fieldOfSelV, hsf, leafNameV, hid], hw⟩
    | union k => exact ⟨sf, pfx ++ c.cs.camel (a.getD sf.name), rfl, by simp [leafNameV, hid], by simp [fieldOfSelV, hsf, leafNameV, hid], hw⟩
    | input k => simp [hid] at hty

/-- the wire names of the emitted fields are the response keys of the `.field` selections -/
theorem wire_fieldsOfS (c : Ctx) (pfx : String) (abs : Bool) : ∀ (sels : List Sel), sSels c.s c.q c.o abs sels = true →
    (fieldsOfV c pfx sels).map (·.wire) = fieldKeys c.s sels
  | [], _ => rfl
  | x :: xs, ht => by
    obtain ⟨hx, hxs⟩ := sSels_cons ht
    have ih := wire_fieldsOfS c pfx abs xs hxs
    cases x with
    | field a fid sub =>
      obtain ⟨sf, ft, hsf, _, hf, _⟩ := fieldOfSelV_s c pfx abs a fid sub hx
      rw [fieldsOfV_cons_field c pfx _ xs _ hf, List.map_cons, ih, fieldOf_wire]
      simp [fieldKeys, fieldKey, hsf]
    | spread g => rw [fieldsOfV_cons_none c pfx _ xs rfl, ih]; simp [fieldKeys, fieldKey, List.filterMap_cons]
    | inline t sub => rw [fieldsOfV_cons_none c pfx _ xs rfl, ih]; simp [fieldKeys, fieldKey, List.filterMap_cons]
    | typename => rw [fieldsOfV_cons_none c pfx _ xs rfl, ih]; simp [fieldKeys, fieldKey, List.filterMap_cons]

theorem isEmpty_fieldsOfS (c : Ctx) (pfx : String) (abs : Bool) : ∀ (sels : List Sel), sSels c.s c.q c.o abs sels = true →
    (fieldsOfV c pfx sels).isEmpty = !sels.any isFieldSel
  | [], _ => rfl
  | x :: xs, ht => by
    obtain ⟨hx, hxs⟩ := sSels_cons ht
    have ih := isEmpty_fieldsOfS c pfx abs xs hxs
    cases x with
    | field a fid sub =>
      obtain ⟨sf, ft, hsf, _, hf, _⟩ := fieldOfSelV_s c pfx abs a fid sub hx
      rw [fieldsOfV_cons_field c pfx _ xs _ hf]; simp [isFieldSel]
    | spread g => rw [fieldsOfV_cons_none c pfx _ xs rfl, ih]; simp [isFieldSel]
    | inline t sub => rw [fieldsOfV_cons_none c pfx _ xs rfl, ih]; simp [isFieldSel]
    | typename => rw [fieldsOfV_cons_none c pfx _ xs rfl, ih]; simp [isFieldSel]

theorem looseSelsS_nofield (s : Schema) (q : Query) (o : Options) (b : Bool) (kvs : List (String × Json)) :
    ∀ (sels : List Sel), sels.any isFieldSel = false → looseSelsS s q o b sels kvs = true
  | [], _ => by simp [looseSelsS]
  | x :: xs, h => by
    simp only [List.any_cons, Bool.or_eq_false_iff] at h
    have ih := looseSelsS_nofield s q o b kvs xs h.2
    cases x with
    | field a fid sub => simp [isFieldSel] at h
    | spread g => simpa [looseSelsS] using ih
    | inline t sub => simpa [looseSelsS] using ih
    | typename => simpa [looseSelsS] using ih

theorem marks_fieldsOfV (c : Ctx) (pfx : String) : ∀ (sels : List Sel),
    fieldsOfV c pfx (marks c.q sels) = fieldsOfV c pfx sels
  | [] => rfl
  | x :: xs => by
    have ih := marks_fieldsOfV c pfx xs
    unfold marks fieldsOfV at ih ⊢
    rw [List.map_cons, List.filterMap_cons, List.filterMap_cons, ih]
    cases x with
    | spread g => cases hf : c.q.fragments[g]? <;> simp [markSel, hf, fieldOfSelV]
    | inline t sub => rfl
    | field a fid sub => rfl
    | typename => rfl


/-! ## the payload of one variant -/

theorem loosePayS_mineOf (s : Schema) (q : Query) (o : Options) (vt : TypeId) (rest : List (String × Json)) :
    ∀ (sub : List Sel), loosePayS s q o vt (mineOf q vt sub) rest = loosePayS s q o vt sub rest
  | [] => rfl
  | x :: xs => by
    have ih := loosePayS_mineOf s q o vt rest xs
    unfold mineOf at ih ⊢
    rw [List.filter_cons]
    cases x with
    | inline t isub =>
      by_cases htv : t = vt
      · subst htv; simp [onVt, selOn, loosePayS, ih]
      · have hne : (t != vt) = true := by simpa using htv
        simp [onVt, selOn, loosePayS, ih, htv, hne]
    | spread g =>
      by_cases hon : onVt q vt (.spread g) = true
      · simp [hon, loosePayS, ih]
      · simp [hon, loosePayS, ih]
    | field a fid sub => simp [onVt, selOn, loosePayS, ih]
    | typename => simp [onVt, selOn, loosePayS, ih]

theorem looseMemS_mineOf (s : Schema) (q : Query) (o : Options) (vt : TypeId) (rest : List (String × Json)) :
    ∀ (sub : List Sel), looseMemS s q o vt (mineOf q vt sub) rest = looseMemS s q o vt sub rest
  | [] => rfl
  | x :: xs => by
    have ih := looseMemS_mineOf s q o vt rest xs
    unfold mineOf at ih ⊢
    rw [List.filter_cons]
    cases x with
    | inline t isub =>
      by_cases hon : onVt q vt (.inline t isub) = true
      · simp [hon, looseMemS, ih]
      · simp [hon, looseMemS, ih]
    | spread g =>
      cases hf : q.fragments[g]? with
      | none => simp [onVt, selOn, looseMemS, ih, hf]
      | some f =>
        by_cases htv : f.on = vt
        · simp [onVt, selOn, looseMemS, ih, hf, htv]
        · have hne : (f.on != vt) = true := by simpa using htv
          simp [onVt, selOn, looseMemS, ih, hf, htv, hne]
    | field a fid sub => simp [onVt, selOn, looseMemS, ih]
    | typename => simp [onVt, selOn, looseMemS, ih]

/-- the own fields of the variant struct -/
def varOwn (c : Ctx) (pfx : String) (vt : TypeId) : List Sel → List RField
  | [] => []
  | .inline t isub :: xs =>
    (if t == vt then fieldsOfV c (pfx ++ "On" ++ c.cs.camel (objName c.s t)) isub else []) ++ varOwn c pfx vt xs
  | _ :: xs => varOwn c pfx vt xs

/-- its flattened members -/
def varMem (c : Ctx) (vt : TypeId) : List Sel → List RField
  | [] => []
  | .spread g :: xs =>
    (match c.q.fragments[g]? with
     | some f => if f.on == vt then [memberField c f] else []
     | none => []) ++ varMem c vt xs
  | _ :: xs => varMem c vt xs

theorem filter_not_flatten_plain {fs : List RField} (h : plain fs = true) : fs.filter (·.flatten) = [] := by
  rw [List.filter_eq_nil_iff]
  intro f hf
  have := List.all_eq_true.mp h f hf
  simpa using this

theorem varFields_own (c : Ctx) (pfx : String) (vt : TypeId) : ∀ (sub : List Sel),
    (varFields c pfx vt sub).filter (fun f => !f.flatten) = varOwn c pfx vt sub
  | [] => rfl
  | x :: xs => by
    have ih := varFields_own c pfx vt xs
    cases x with
    | inline t isub =>
      rw [varFields, varOwn, List.filter_append, ih]
      split
      · rw [filter_plain (plain_fieldsOfV c _ isub)]
      · rfl
    | spread g =>
      have e1 : varOwn c pfx vt (Sel.spread g :: xs) = varOwn c pfx vt xs := by simp [varOwn]
      rw [varFields, e1, List.filter_append, ih]
      cases hf : c.q.fragments[g]? with
      | none => rfl
      | some f => simp only []; split <;> simp [memberField]
    | field a fid sub => simpa [varFields, varOwn] using ih
    | typename => simpa [varFields, varOwn] using ih

theorem varFields_mem (c : Ctx) (pfx : String) (vt : TypeId) : ∀ (sub : List Sel),
    (varFields c pfx vt sub).filter (·.flatten) = varMem c vt sub
  | [] => rfl
  | x :: xs => by
    have ih := varFields_mem c pfx vt xs
    cases x with
    | inline t isub =>
      have e1 : varMem c vt (Sel.inline t isub :: xs) = varMem c vt xs := by simp [varMem]
      rw [varFields, e1, List.filter_append, ih]
      split
      · rw [filter_not_flatten_plain (plain_fieldsOfV c _ isub)]; rfl
      · rfl
    | spread g =>
      rw [varFields, varMem, List.filter_append, ih]
      cases hf : c.q.fragments[g]? with
      | none => rfl
      | some f => simp only []; split <;> simp [memberField]
    | field a fid sub => simpa [varFields, varMem] using ih
    | typename => simpa [varFields, varMem] using ih

theorem plain_varOwn (c : Ctx) (pfx : String) (vt : TypeId) (sub : List Sel) : plain (varOwn c pfx vt sub) = true := by
  rw [← varFields_own]
  simp only [plain, List.all_eq_true, List.mem_filter]
  intro f hf; exact hf.2

theorem memberFields_member (e : Env) (c : Ctx) (g : Nat) (f : RFragment) (hf : c.q.fragments[g]? = some f)
    (he : FragEnv e c g) :
    memberFields e (memberField c f) = fieldsOfV c (c.cs.camel f.name) f.sels ∧ MemberOk e (memberField c f) := by
  unfold FragEnv at he
  rw [hf] at he
  obtain ⟨⟨_, _, n, d, cr, hfind⟩, _⟩ := he
  have h1 : memberFields e (memberField c f) = fieldsOfV c (c.cs.camel f.name) f.sels := by
    simp [memberFields, memberField, hfind]
  exact ⟨h1, f.name, n, d, cr, rfl, by rw [h1]; exact hfind, by rw [h1]; exact plain_fieldsOfV _ _ _⟩

/-- a struct with own fields and flattened plain-struct members (or none), as acceptance -/
theorem okB_deStructMap_flat (e : Env) (fuel : Nat) (pathD : String → Json → D Val) (fields : List RField)
    (kvs : List (String × Json))
    (hok : ∀ g ∈ fields, g.flatten = true → MemberOk e g)
    (hown : ∀ g ∈ fields, g.flatten = true → ∀ k ∈ memberKeys e g,
      k ∉ (fields.filter (fun f => !f.flatten)).map (·.wire))
    (hpw : fields.Pairwise (fun g g' => g.flatten = true → g'.flatten = true →
      ∀ k ∈ memberKeys e g', k ∉ memberKeys e g)) :
    okB (deStructMapWith pathD (deFlat e (fuel + 1)) fields kvs) =
      (okB (deOwnWith pathD (fields.filter (fun f => !f.flatten)) kvs) &&
       (fields.filter (·.flatten)).all (fun g => okB (deOwnWith (dePath e true fuel) (memberFields e g) kvs))) := by
  cases hany : fields.any (·.flatten)
  · have hpl : plain fields = true := by
      simp only [plain, List.all_eq_true]
      intro f hf
      have := List.any_eq_false.mp hany f hf
      simpa using this
    rw [deStructMap_plain _ _ _ _ hpl, okB_map, filter_plain hpl, filter_not_flatten_plain hpl]
    simp
  · rw [deStructMap_flat e fuel pathD fields kvs hany hok hown hpw, okB_bind2, okB_flatVals]

/-- from "the field keys selected on the variant are pairwise distinct" to the hypotheses of `deStructMap_flat` -/
theorem var_flat_hyps (e : Env) (c : Ctx) (pfx : String) (ty vt : TypeId) : ∀ (sub : List Sel),
    sSels c.s c.q c.o true sub = true → SpreadsA c ty sub → envSelsS e c pfx sub → (varKeys c.s c.q vt sub).Nodup →
    (∀ g ∈ varFields c pfx vt sub, g.flatten = true → MemberOk e g ∧ ∀ k ∈ memberKeys e g, k ∈ varKeys c.s c.q vt sub) ∧
    (∀ f ∈ varFields c pfx vt sub, f.flatten = false → f.wire ∈ varKeys c.s c.q vt sub) ∧
    (∀ g ∈ varFields c pfx vt sub, g.flatten = true → ∀ k ∈ memberKeys e g,
      k ∉ ((varFields c pfx vt sub).filter (fun f => !f.flatten)).map (·.wire)) ∧
    (varFields c pfx vt sub).Pairwise (fun g g' => g.flatten = true → g'.flatten = true →
      ∀ k ∈ memberKeys e g', k ∉ memberKeys e g)
  | [], _, _, _, _ => by simp [varFields]
  | x :: xs, ht, hsp, henv, hnd => by
    obtain ⟨hx, hxs⟩ := sSels_cons ht
    rw [envSelsS] at henv
    cases x with
    | inline t isub =>
      rw [varKeys] at hnd
      rw [varFields, varKeys]
      by_cases htv : t = vt
      · subst htv
        simp only [beq_self_eq_true, ↓reduceIte] at hnd ⊢
        rw [List.nodup_append] at hnd
        obtain ⟨_, hnd2, hdisj⟩ := hnd
        obtain ⟨ih1, ih2, ih3, ih4⟩ := var_flat_hyps e c pfx ty t xs hxs hsp.tail henv.2 hnd2
        simp only [sSel, Bool.and_eq_true] at hx
        have hw := wire_fieldsOfS c (pfx ++ "On" ++ c.cs.camel (objName c.s t)) false isub hx.1.2
        have hpl := plain_fieldsOfV c (pfx ++ "On" ++ c.cs.camel (objName c.s t)) isub
        have hnf : ∀ f ∈ fieldsOfV c (pfx ++ "On" ++ c.cs.camel (objName c.s t)) isub, f.flatten = false := by
          intro f hf
          have := List.all_eq_true.mp hpl f hf
          simpa using this
        refine ⟨?_, ?_, ?_, ?_⟩
        · intro g hg hfl
          rcases List.mem_append.mp hg with hg' | hg'
          · rw [hnf g hg'] at hfl; cases hfl
          · exact ⟨(ih1 g hg' hfl).1, fun k hk => List.mem_append_right _ ((ih1 g hg' hfl).2 k hk)⟩
        · intro f hf hfl
          rcases List.mem_append.mp hf with hf' | hf'
          · exact List.mem_append_left _ (hw ▸ List.mem_map_of_mem hf')
          · exact List.mem_append_right _ (ih2 f hf' hfl)
        · intro g hg hfl k hk
          rcases List.mem_append.mp hg with hg' | hg'
          · rw [hnf g hg'] at hfl; cases hfl
          · rw [List.filter_append, List.map_append, List.mem_append, filter_plain hpl, hw]
            intro hmem
            rcases hmem with hmem | hmem
            · exact hdisj k hmem k ((ih1 g hg' hfl).2 k hk) rfl
            · exact ih3 g hg' hfl k hk hmem
        · rw [List.pairwise_append]
          refine ⟨?_, ih4, ?_⟩
          · exact List.Pairwise.imp_of_mem (R := fun _ _ => True)
              (fun {a b} ha _ _ hfl => by rw [hnf a ha] at hfl; cases hfl)
              (List.pairwise_of_forall (fun _ _ => trivial))
          · intro a ha b _ hfl
            rw [hnf a ha] at hfl; cases hfl
      · have hne : (t == vt) = false := by simpa using htv
        simp only [hne, Bool.false_eq_true, ↓reduceIte, List.nil_append] at hnd ⊢
        exact var_flat_hyps e c pfx ty vt xs hxs hsp.tail henv.2 hnd
    | spread g =>
      obtain ⟨vt', fr, hok, hfr, hon, _⟩ := hsp g (by simp)
      obtain ⟨fr', hfr', _, _, hv, _⟩ := fragOk_parts hok
      rw [hfr] at hfr'; cases hfr'
      rw [varKeys] at hnd
      rw [varFields, varKeys]
      simp only [hfr] at hnd ⊢
      by_cases htv : fr.on = vt
      · simp only [htv, beq_self_eq_true, ↓reduceIte] at hnd ⊢
        rw [List.nodup_append] at hnd
        obtain ⟨_, hnd2, hdisj⟩ := hnd
        obtain ⟨ih1, ih2, ih3, ih4⟩ := var_flat_hyps e c pfx ty vt xs hxs hsp.tail henv.2 hnd2
        have hfe : FragEnv e c g := henv.1
        obtain ⟨hmf, hmok⟩ := memberFields_member e c g fr hfr hfe
        have hmk : memberKeys e (memberField c fr) = fieldKeys c.s fr.sels := by
          unfold memberKeys; rw [hmf, wire_fieldsOfV c _ false fr.sels hv]
        have hfl' : (memberField c fr).flatten = true := rfl
        refine ⟨?_, ?_, ?_, ?_⟩
        · intro g' hg hfl
          rcases List.mem_append.mp hg with hg' | hg'
          · simp only [List.mem_singleton] at hg'
            subst hg'
            exact ⟨hmok, fun k hk => List.mem_append_left _ (hmk ▸ hk)⟩
          · exact ⟨(ih1 g' hg' hfl).1, fun k hk => List.mem_append_right _ ((ih1 g' hg' hfl).2 k hk)⟩
        · intro f hf hfl
          rcases List.mem_append.mp hf with hf' | hf'
          · simp only [List.mem_singleton] at hf'
            subst hf'
            rw [hfl'] at hfl; cases hfl
          · exact List.mem_append_right _ (ih2 f hf' hfl)
        · intro g' hg hfl k hk
          simp only [List.singleton_append, List.filter_cons, hfl', Bool.not_true, Bool.false_eq_true, ↓reduceIte]
          rcases List.mem_append.mp hg with hg' | hg'
          · simp only [List.mem_singleton] at hg'
            subst hg'
            rw [hmk] at hk
            intro hmem
            obtain ⟨f, hf', hfw⟩ := List.mem_map.mp hmem
            have hf'' := List.mem_filter.mp hf'
            have := ih2 f hf''.1 (by simpa using hf''.2)
            exact hdisj k hk k (hfw ▸ this) rfl
          · exact ih3 g' hg' hfl k hk
        · simp only [List.singleton_append, List.pairwise_cons]
          refine ⟨?_, ih4⟩
          intro g' hg' _ hfl k hk
          rw [hmk]
          intro hmem
          exact hdisj k hmem k ((ih1 g' hg' hfl).2 k hk) rfl
      · have hne : (fr.on == vt) = false := by simpa using htv
        simp only [hne, Bool.false_eq_true, ↓reduceIte, List.nil_append] at hnd ⊢
        exact var_flat_hyps e c pfx ty vt xs hxs hsp.tail henv.2 hnd
    | field a fid sub =>
      have e1 : varKeys c.s c.q vt (Sel.field a fid sub :: xs) = varKeys c.s c.q vt xs := by simp [varKeys]
      have e2 : varFields c pfx vt (Sel.field a fid sub :: xs) = varFields c pfx vt xs := by simp [varFields]
      rw [e1] at hnd ⊢
      rw [e2]
      exact var_flat_hyps e c pfx ty vt xs hxs hsp.tail henv.2 hnd
    | typename =>
      have e1 : varKeys c.s c.q vt (Sel.typename :: xs) = varKeys c.s c.q vt xs := by simp [varKeys]
      have e2 : varFields c pfx vt (Sel.typename :: xs) = varFields c pfx vt xs := by simp [varFields]
      rw [e1] at hnd ⊢
      rw [e2]
      exact var_flat_hyps e c pfx ty vt xs hxs hsp.tail henv.2 hnd


/-! ## acceptance, exactly -/

section AccS
variable (e : Env) (c : Ctx)

def AccSelS (pfx : String) (x : Sel) : Prop :=
  ∀ abs, sSel c.s c.q c.o abs x = true → envSelS e c pfx x → ∀ f, fieldOfSelV c pfx x = some f →
    ∀ b fd, 2 * depthF c.q x + 1 ≤ fd → ∀ v, okB (deFieldWith (dePath e b fd) f v) = looseFieldS c.s c.q c.o b x v

def AccSelsS (pfx : String) (sels : List Sel) : Prop :=
  ∀ abs, sSels c.s c.q c.o abs sels = true → envSelsS e c pfx sels → ∀ b fd, 2 * depthsF c.q sels + 1 ≤ fd →
    (∀ kvs, (fieldsOfV c pfx sels).all (fun f => decide (countKey f.wire kvs ≤ 1) &&
        okB (readField (dePath e b fd) f kvs)) = looseSelsS c.s c.q c.o b sels kvs) ∧
    (∀ xs, (decide ((fieldsOfV c pfx sels).length ≤ xs.length) &&
        ((fieldsOfV c pfx sels).zip xs).all (fun p => okB (deFieldWith (dePath e b fd) p.1 p.2))) =
          looseArrS c.s c.q c.o b sels xs)

/-- the struct of an object-level selection set accepts exactly `conformsLooseS` -/
theorem accStructS (pfx name : String) (sels : List Sel) (H : AccSelsS e c pfx sels) (abs : Bool)
    (ht : sSels c.s c.q c.o abs sels = true) (henv : envSelsS e c pfx sels)
    (hs : StructEnv e name (fieldsOfV c pfx sels)) (b : Bool) (fd : Nat) (hfd : 2 * depthsF c.q sels + 2 ≤ fd) (j : Json) :
    okB (dePath e b fd name j) = conformsLooseS c.s c.q c.o b sels j := by
  obtain ⟨hp, _, n, d, cr, hfind⟩ := hs
  obtain ⟨fd', rfl⟩ : ∃ k, fd = k + 1 := ⟨fd - 1, by omega⟩
  obtain ⟨H1, H2⟩ := H abs ht henv b fd' (by omega)
  rw [dePath_struct e b fd' name n d cr _ hp hfind]
  have hpl := plain_fieldsOfV c pfx sels
  cases j with
  | obj kvs =>
    rw [deStruct_obj, deStructMap_plain _ _ _ _ hpl, okB_map, okB_deOwn' _ _ _ hpl, H1]; rfl
  | arr xs =>
    simp only [deStructWith, any_flatten_of_plain hpl, Bool.false_eq_true, ↓reduceIte, conformsLooseS]
    rw [← H2 xs]
    by_cases hlen : xs.length < (fieldsOfV c pfx sels).length
    · have : ¬ ((fieldsOfV c pfx sels).length ≤ xs.length) := by omega
      simp [hlen, this, okB, bad]
    · have : (fieldsOfV c pfx sels).length ≤ xs.length := by omega
      simp only [hlen, ↓reduceIte, okB_map, okB_mapM, this, decide_true, Bool.true_and]
      congr 1; funext p
      cases deFieldWith (dePath e b fd') p.1 p.2 <;> rfl
  | null => rfl
  | bool _ => rfl
  | int _ => rfl
  | num _ => rfl
  | str _ => rfl

/-- the own fields of the variant struct accept exactly `loosePayS` -/
theorem accOwnS (pfx : String) (vt : TypeId) : ∀ (sub : List Sel),
    (∀ t isub, Sel.inline t isub ∈ sub → AccSelsS e c (pfx ++ "On" ++ c.cs.camel (objName c.s t)) isub) →
    sSels c.s c.q c.o true sub = true → envSelsS e c pfx sub → ∀ fd, 2 * depthsF c.q sub ≤ fd + 1 → ∀ rest,
    (varOwn c pfx vt sub).all (fun f => decide (countKey f.wire rest ≤ 1) &&
      okB (readField (dePath e true fd) f rest)) = loosePayS c.s c.q c.o vt sub rest
  | [], _, _, _, _, _, _ => rfl
  | x :: xs, HI, ht, henv, fd, hfd, rest => by
    obtain ⟨hx, hxs⟩ := sSels_cons ht
    rw [envSelsS] at henv
    rw [depthsF] at hfd
    have ih := accOwnS pfx vt xs (fun t isub hm => HI t isub (List.mem_cons_of_mem _ hm)) hxs henv.2 fd (by omega) rest
    cases x with
    | inline t isub =>
      rw [varOwn, loosePayS.eq_2, List.all_append, ih]
      by_cases htv : t = vt
      · subst htv
        simp only [sSel, Bool.and_eq_true] at hx
        rw [depthF] at hfd
        have := (HI t isub (by simp) false hx.1.2 henv.1 true fd (by omega)).1 rest
        simp [this]
      · have hne : (t == vt) = false := by simpa using htv
        have hne' : (t != vt) = true := by simpa using htv
        simp [hne, hne']
    | spread g => simpa [varOwn, loosePayS] using ih
    | field a fid sub => simpa [varOwn, loosePayS] using ih
    | typename => simpa [varOwn, loosePayS] using ih

/-- the flattened members of the variant struct accept exactly `looseMemS` -/
theorem accMemS (pfx : String) (ty vt : TypeId) : ∀ (sub : List Sel), SpreadsA c ty sub → envSelsS e c pfx sub →
    ∀ fuel, 2 * depthsF c.q sub ≤ fuel + 1 → ∀ rest,
    (varMem c vt sub).all (fun g => okB (deOwnWith (dePath e true fuel) (memberFields e g) rest)) =
      looseMemS c.s c.q c.o vt sub rest
  | [], _, _, _, _, _ => rfl
  | x :: xs, hsp, henv, fuel, hfuel, rest => by
    rw [envSelsS] at henv
    rw [depthsF] at hfuel
    have ih := accMemS pfx ty vt xs hsp.tail henv.2 fuel (by omega) rest
    cases x with
    | spread g =>
      obtain ⟨vt', fr, hok, hfr, hon, _⟩ := hsp g (by simp)
      obtain ⟨fr', hfr', _, _, hv, _⟩ := fragOk_parts hok
      rw [hfr] at hfr'; cases hfr'
      rw [varMem, looseMemS.eq_2, List.all_append, ih]
      simp only [hfr]
      by_cases htv : fr.on = vt
      · have hfe : FragEnv e c g := henv.1
        obtain ⟨hmf, _⟩ := memberFields_member e c g fr hfr hfe
        have henvV : envSelsV e c (c.cs.camel fr.name) fr.sels := by
          unfold FragEnv at hfe; rw [hfr] at hfe; exact hfe.2
        rw [depthF] at hfuel
        have hsels : fragSels c.q g = fr.sels := by simp [fragSels, hfr]
        rw [hsels] at hfuel
        have hacc := (accSelsV e c fr.sels (c.cs.camel fr.name) false hv henvV true fuel (by omega)).1 rest
        simp [htv, hmf, okB_deOwn' _ _ _ (plain_fieldsOfV c _ fr.sels), hacc]
      · have hne : (fr.on == vt) = false := by simpa using htv
        have hne' : (fr.on != vt) = true := by simpa using htv
        simp [hne, hne']
    | inline t isub => simpa [varMem, looseMemS] using ih
    | field a fid sub => simpa [varMem, looseMemS] using ih
    | typename => simpa [varMem, looseMemS] using ih

theorem depthsF_filter_le (q : Query) (p : Sel → Bool) : ∀ (sels : List Sel), depthsF q (sels.filter p) ≤ depthsF q sels
  | [] => by simp
  | x :: xs => by
    have ih := depthsF_filter_le q p xs
    rw [List.filter_cons]
    split
    · rw [depthsF, depthsF]; omega
    · rw [depthsF]; omega

/-- **the payload of the variant `vt` accepts exactly `loosePayS && looseMemS`** of the other entries -/
theorem accVariantS (pfx : String) (ty : TypeId) (sub : List Sel)
    (HI : ∀ t isub, Sel.inline t isub ∈ sub → AccSelsS e c (pfx ++ "On" ++ c.cs.camel (objName c.s t)) isub)
    (hty : absHyp c.s ty) (ht : sSels c.s c.q c.o true sub = true) (hok : absOkS c.s c.q c.o ty sub = true)
    (henv : envSelsS e c pfx sub) (vt : TypeId) (hvt : vt ∈ vtsOfTy c.s ty) (hve : VarEnv e c pfx vt sub)
    (fd : Nat) (hfd : 2 * depthsF c.q sub + 1 ≤ fd) (rest : List (String × Json)) :
    pickOk (dePath e true fd) (variantOf c pfx (marks c.q sub) vt) rest =
      (loosePayS c.s c.q c.o vt sub rest && looseMemS c.s c.q c.o vt sub rest) := by
  have hsp := spreadsA_abs hty hok
  obtain ⟨_, _, hvk⟩ := absOkS_parts hok
  have hmem : ∀ x ∈ mineOf c.q vt sub, x ∈ sub ∧ selOn c.q x = some vt := fun x hx => mem_mineOf hx
  have hcont : (List.filterMap inlineTy (marks c.q sub)).contains vt = !(mineOf c.q vt sub).isEmpty := by
    rw [marks_inlineTy]
    by_cases hm : mineOf c.q vt sub = []
    · have := (mineOf_nil_iff c.q _ sub).mp hm
      simp [hm, this]
    · have : vt ∈ sub.filterMap (selOn c.q) := by
        by_cases hcon : vt ∈ sub.filterMap (selOn c.q)
        · exact hcon
        · exact absurd ((mineOf_nil_iff c.q _ sub).mpr hcon) hm
      have h2 : (mineOf c.q vt sub).isEmpty = false := by simpa using hm
      simp [this, h2]
  rw [← loosePayS_mineOf, ← looseMemS_mineOf]
  unfold pickOk variantOf
  rw [hcont]
  unfold VarEnv at hve
  by_cases hm : mineOf c.q vt sub = []
  · simp [hm, loosePayS, looseMemS]
  · have hemp : (mineOf c.q vt sub).isEmpty = false := by simpa using hm
    simp only [hemp, Bool.not_false, ↓reduceIte, Bool.false_eq_true]
    rw [show deTyWith (dePath e true fd) (.path (pfx ++ "On" ++ objName c.s vt)) (.obj rest) =
      dePath e true fd (pfx ++ "On" ++ objName c.s vt) (.obj rest) from rfl]
    by_cases hs : ∃ g, mineOf c.q vt sub = [Sel.spread g]
    · -- the alias of the fragment struct
      obtain ⟨g, hg⟩ := hs
      have hgm := (hmem (.spread g) (by rw [hg]; simp))
      obtain ⟨vt', fr, hfok, hfr, hon, _⟩ := hsp g hgm.1
      have hvt' : vt' = vt := by
        have := hgm.2
        simp only [selOn, hfr, Option.map_some, Option.some.injEq] at this
        rw [← hon, this]
      subst hvt'
      rw [hg] at hve ⊢
      simp only at hve
      have hfe : FragEnv e c g := envSelsS_mem henv _ hgm.1
      have hdep := depthsF_mem c.q hgm.1
      rw [depthF] at hdep
      rw [accAliasF e c _ _ g hfok hve hfe true fd (by omega) (.obj rest)]
      have hsels : fragSels c.q g = fr.sels := by simp [fragSels, hfr]
      simp [loosePayS, looseMemS, hfr, hon, hsels, conformsLooseV]
    · -- the variant struct
      have hs' : ∀ g, mineOf c.q vt sub ≠ [Sel.spread g] := fun g hg => hs ⟨g, hg⟩
      have hstruct : StructEnv e (pfx ++ "On" ++ objName c.s vt) (varFields c pfx vt sub) := by
        revert hve
        split
        · rename_i h; exact absurd h hm
        · rename_i g h; exact absurd h (hs' g)
        · exact id
      obtain ⟨hp, _, n, d, cr, hfind⟩ := hstruct
      have hpos : 1 ≤ depthsF c.q sub := by
        cases hmm : mineOf c.q vt sub with
        | nil => exact absurd hmm hm
        | cons x xs =>
          have hx := (hmem x (by rw [hmm]; simp)).1
          have h1 := depthsF_mem c.q hx
          have h2 : 1 ≤ depthF c.q x := by cases x <;> simp [depthF]
          omega
      obtain ⟨fuel, rfl⟩ : ∃ k, fd = k + 2 := ⟨fd - 2, by omega⟩
      obtain ⟨h1, _, h3, h4⟩ := var_flat_hyps e c pfx ty vt sub ht hsp henv (hvk vt hvt)
      rw [dePath_struct e true (fuel + 1) _ n d cr _ hp hfind, deStruct_obj,
        okB_deStructMap_flat e fuel _ _ rest (fun g hg hf => (h1 g hg hf).1) h3 h4,
        varFields_own, varFields_mem, okB_deOwn' _ _ _ (plain_varOwn c pfx vt sub),
        accOwnS e c pfx vt sub HI ht henv (fuel + 1) (by omega) rest,
        accMemS e c pfx ty vt sub hsp henv fuel (by omega) rest, loosePayS_mineOf, looseMemS_mineOf]

/-- the type emitted at an abstract position accepts exactly `conformsLooseAbsS` -/
theorem accAbsS (pfx name : String) (ty : TypeId) (sub : List Sel) (H : AccSelsS e c pfx sub)
    (HI : ∀ t isub, Sel.inline t isub ∈ sub → AccSelsS e c (pfx ++ "On" ++ c.cs.camel (objName c.s t)) isub)
    (hty : absHyp c.s ty) (ht : sSels c.s c.q c.o true sub = true) (hok : absOkS c.s c.q c.o ty sub = true)
    (henv : envSelsS e c pfx sub) (hve : ∀ vt ∈ vtsOfTy c.s ty, VarEnv e c pfx vt sub)
    (hs : AbsEnv e name (fieldsOfV c pfx sub) (variantsV c pfx ty (marks c.q sub))) (b : Bool) (fd : Nat)
    (hfd : 2 * depthsF c.q sub + 3 ≤ fd) (j : Json) :
    okB (dePath e b fd name j) = conformsLooseAbsS c.s c.q c.o b ty sub j := by
  have hemp := isEmpty_fieldsOfS c pfx true sub ht
  unfold AbsEnv at hs
  cases hF : sub.any isFieldSel
  · -- the tagged enum alone
    rw [hF] at hemp
    simp only [hemp, Bool.not_false, ↓reduceIte] at hs
    obtain ⟨hp, _, n, d, cr, hfind⟩ := hs
    obtain ⟨fd', rfl⟩ : ∃ k, fd = k + 1 := ⟨fd - 1, by omega⟩
    cases j with
    | obj kvs =>
      rw [dePath_tagged e b fd' name n d cr _ _ hp hfind]
      simp only [conformsLooseAbsS, hF, Bool.false_or, Bool.false_eq_true, ↓reduceIte,
        looseSelsS_nofield c.s c.q c.o b kvs sub hF, Bool.true_and]
      exact okB_tagged c pfx ty (marks c.q sub) _ b _ kvs
        (fun vt hvt => accVariantS e c pfx ty sub HI hty ht hok henv vt hvt (hve vt hvt) fd' (by omega) _)
    | arr xs => unfold dePath; simp only [dePrim_none hp, hfind]; rfl
    | null => unfold dePath; simp only [dePrim_none hp, hfind]; rfl
    | bool _ => unfold dePath; simp only [dePrim_none hp, hfind]; rfl
    | int _ => unfold dePath; simp only [dePrim_none hp, hfind]; rfl
    | num _ => unfold dePath; simp only [dePrim_none hp, hfind]; rfl
    | str _ => unfold dePath; simp only [dePrim_none hp, hfind]; rfl
  · -- struct with the interface-level fields and the flattened `on`
    rw [hF] at hemp
    simp only [hemp, Bool.not_true, Bool.false_eq_true, ↓reduceIte] at hs
    obtain ⟨⟨hp, _, n, d, cr, hfind⟩, ⟨_, _, n', d', cr', hfind'⟩⟩ := hs
    obtain ⟨fd', rfl⟩ : ∃ k, fd = k + 2 := ⟨fd - 2, by omega⟩
    obtain ⟨H1, _⟩ := H true ht henv b (fd' + 1) (by omega)
    have hpl := plain_fieldsOfV c pfx sub
    rw [dePath_struct e b (fd' + 1) name n d cr _ hp hfind]
    cases j with
    | obj kvs =>
      rw [deStruct_obj, deStructMap_on e fd' _ _ (onField name) (name ++ "On") n' d' cr' "__typename" _ kvs hpl rfl rfl hfind',
        okB_bind2, okB_deOwn' _ _ _ hpl, H1 kvs, wire_fieldsOfS c pfx true sub ht]
      simp only [conformsLooseAbsS, hF, Bool.true_or, ↓reduceIte]
      congr 1
      exact okB_tagged c pfx ty (marks c.q sub) _ true _ _
        (fun vt hvt => accVariantS e c pfx ty sub HI hty ht hok henv vt hvt (hve vt hvt) fd' (by omega) _)
    | arr xs =>
      have : (fieldsOfV c pfx sub ++ [onField name]).any (·.flatten) = true := by simp [onField]
      simp only [deStructWith, this, ↓reduceIte]; rfl
    | null => rfl
    | bool _ => rfl
    | int _ => rfl
    | num _ => rfl
    | str _ => rfl

end AccS

section AccS2
variable (e : Env) (c : Ctx)

mutual
  theorem accSelS : ∀ (x : Sel) (pfx : String), AccSelS e c pfx x
    | .field a fid sub, pfx => by
      intro abs ht henv f hf b fd hfd v
      have IH := accSelsS sub
      have IHI := accInlS sub
      rw [depthF] at hfd
      obtain ⟨fd', rfl⟩ : ∃ k, fd = k + 3 := ⟨fd - 3, by omega⟩
      rw [sSel] at ht
      rw [envSelS] at henv
      rw [looseFieldS]
      cases hsf : c.s.fields[fid]? with
      | none => simp [hsf] at ht
      | some sf =>
        simp only [hsf, Bool.and_eq_true] at ht henv ⊢
        obtain ⟨⟨hw, _⟩, hty⟩ := ht
        have hwf : wf (gtyOf sf.ty.quals) = true := by rw [wf_gtyOf]; exact hw
        cases hid : sf.ty.id with
        | scalar k =>
          simp only [hid, Bool.and_eq_true] at hty henv ⊢
          cases hk : c.s.scalars[k]? with
          | none => simp [hk] at hty
          | some sn =>
            simp only [hk] at henv ⊢
            simp only [fieldOfSelV, hsf, leafNameV, hid, hk, Option.some.injEq] at hf
            subst hf
            by_cases hID : sn = "ID"
            · subst hID
              rw [deField_id, C16.id_field_iff _ hwf]
              simp [scalarOk]
            · rw [deField_plain _ _ _ _ hID]
              exact (ok_iff_accepts _ sn (scalarOk sn) (leaf_scalar e sn henv hID b fd') _ hwf).2 v
        | «enum» k =>
          simp only [hid, Bool.and_eq_true] at hty henv ⊢
          cases hk : c.s.enums[k]? with
          | none => simp [hk] at hty
          | some en =>
            simp only [hk] at henv ⊢
            simp only [fieldOfSelV, hsf, leafNameV, hid, hk, Option.some.injEq, Option.map_some] at hf
            subst hf
            obtain ⟨hp, hID, n', d, sp, vs, ser, de, hfind, _⟩ := henv
            rw [deField_plain _ _ _ _ hID]
            exact (ok_iff_accepts _ en.name stringOk
              (leaf_enum e b (fd' + 2) en.name n' d sp vs ser de hp hfind) _ hwf).2 v
        | object i =>
          simp only [hid, Bool.and_eq_true] at hty henv ⊢
          cases hk : c.s.objects[i]? with
          | none => simp [hk] at hty
          | some o =>
            simp only [hk]
            simp only [fieldOfSelV, hsf, leafNameV, hid, Option.some.injEq] at hf
            subst hf
            obtain ⟨hs, hesub⟩ := henv
            rw [deField_plain _ _ _ _ hs.2.1, looseLambdaS]
            exact (ok_iff_accepts _ _ (conformsLooseS c.s c.q c.o b sub)
              (accStructS e c _ _ sub (IH _) false hty.1.2 hesub hs b (fd' + 3) (by omega)) _ hwf).2 v
        | interface k =>
          simp only [hid, Bool.and_eq_true] at hty henv ⊢
          simp only [fieldOfSelV, hsf, leafNameV, hid, Option.some.injEq] at hf
          subst hf
          obtain ⟨hs, hve, hesub⟩ := henv
          have hID : pfx ++ c.cs.camel (a.getD sf.name) ≠ "ID" := by
            unfold AbsEnv at hs; split at hs
            · exact hs.2.1
            · exact hs.1.2.1
          rw [deField_plain _ _ _ _ hID, looseLambdaAbsS]
          exact (ok_iff_accepts _ _ (conformsLooseAbsS c.s c.q c.o b (.interface k) sub)
            (accAbsS e c _ _ _ sub (IH _) (fun t isub hm => IHI t isub hm _) hty.1.1 hty.1.2 hty.2 hesub hve hs b
              (fd' + 3) (by omega)) _ hwf).2 v
        | union k =>
          simp only [hid, Bool.and_eq_true] at hty henv ⊢
          simp only [fieldOfSelV, hsf, leafNameV, hid, Option.some.injEq] at hf
          subst hf
          obtain ⟨hs, hve, hesub⟩ := henv
          have hID : pfx ++ c.cs.camel (a.getD sf.name) ≠ "ID" := by
            unfold AbsEnv at hs; split at hs
            · exact hs.2.1
            · exact hs.1.2.1
          rw [deField_plain _ _ _ _ hID, looseLambdaAbsS]
          exact (ok_iff_accepts _ _ (conformsLooseAbsS c.s c.q c.o b (.union k) sub)
            (accAbsS e c _ _ _ sub (IH _) (fun t isub hm => IHI t isub hm _) hty.1.1 hty.1.2 hty.2 hesub hve hs b
              (fd' + 3) (by omega)) _ hwf).2 v
        | input k => simp [hid] at hty
    | .spread g, pfx => by intro _ _ _ f hf; cases hf
    | .inline t sub, pfx => by intro _ _ _ f hf; cases hf
    | .typename, pfx => by intro _ _ _ f hf; cases hf
  theorem accSelsS : ∀ (sels : List Sel) (pfx : String), AccSelsS e c pfx sels
    | [], pfx => by
      intro _ _ _ b fd _
      exact ⟨fun kvs => by simp [fieldsOfV, looseSelsS], fun xs => by simp [fieldsOfV, looseArrS]⟩
    | x :: xs, pfx => by
      intro abs ht henv b fd hfd
      obtain ⟨hx, hxs⟩ := sSels_cons ht
      rw [envSelsS] at henv
      rw [depthsF] at hfd
      obtain ⟨I1, I2⟩ := accSelsS xs pfx abs hxs henv.2 b fd (by omega)
      have IX := accSelS x pfx abs hx henv.1
      cases x with
      | field a fid sub =>
        obtain ⟨sf, ft, hsf, _, hf, hw⟩ := fieldOfSelV_s c pfx abs a fid sub hx
        have IXf := IX _ hf b fd (by omega)
        have hfs := fieldsOfV_cons_field c pfx _ xs _ hf
        refine ⟨fun kvs => ?_, fun vs => ?_⟩
        · rw [hfs, List.all_cons, I1 kvs, looseSelsS.eq_2]
          simp only [hsf, fieldOf_wire, readField]
          cases hl : Json.lookup (a.getD sf.name) kvs with
          | none => simp only [missing_fieldOf]
          | some v => simp only [IXf v]
        · rw [hfs]
          cases vs with
          | nil => rw [looseArrS.eq_2]; simp
          | cons v vs' =>
            rw [looseArrS.eq_3]
            simp only [List.length_cons, List.zip_cons_cons, List.all_cons, IXf v, ← I2 vs',
              Nat.add_le_add_iff_right]
            cases looseFieldS c.s c.q c.o b (.field a fid sub) v <;> simp
      | spread g =>
        have hfs := fieldsOfV_cons_none c pfx (.spread g) xs rfl
        refine ⟨fun kvs => ?_, fun vs => ?_⟩
        · rw [hfs, I1 kvs]; simp [looseSelsS]
        · rw [hfs, I2 vs]; simp [looseArrS]
      | inline t sub =>
        have hfs := fieldsOfV_cons_none c pfx (.inline t sub) xs rfl
        refine ⟨fun kvs => ?_, fun vs => ?_⟩
        · rw [hfs, I1 kvs]; simp [looseSelsS]
        · rw [hfs, I2 vs]; simp [looseArrS]
      | typename =>
        have hfs := fieldsOfV_cons_none c pfx .typename xs rfl
        refine ⟨fun kvs => ?_, fun vs => ?_⟩
        · rw [hfs, I1 kvs]; simp [looseSelsS]
        · rw [hfs, I2 vs]; simp [looseArrS]
  /-- the bodies of the inline fragments of a selection set -/
  theorem accInlS : ∀ (sels : List Sel) (t : TypeId) (isub : List Sel), Sel.inline t isub ∈ sels →
      ∀ pfx, AccSelsS e c pfx isub
    | [], _, _, h => by simp at h
    | x :: xs, t, isub, hm => by
      rcases List.mem_cons.mp hm with heq | hm'
      · cases x with
        | inline t' isub' =>
          cases heq
          exact fun pfx => accSelsS isub pfx
        | field a fid sub => cases heq
        | spread g => cases heq
        | typename => cases heq
      · exact accInlS xs t isub hm'
end

end AccS2

/-- the struct named `name` emitted for the object-level selection set `sels` accepts exactly `conformsLooseS` -/
theorem structS_accepts_iff (e : Env) (c : Ctx) (pfx name : String) (sels : List Sel) (abs : Bool)
    (ht : sSels c.s c.q c.o abs sels = true) (henv : envSelsS e c pfx sels)
    (hs : StructEnv e name (fieldsOfV c pfx sels)) (b : Bool) (fd : Nat) (hfd : 2 * depthsF c.q sels + 2 ≤ fd) (j : Json) :
    okB (dePath e b fd name j) = conformsLooseS c.s c.q c.o b sels j :=
  accStructS e c pfx name sels (accSelsS e c sels pfx) abs ht henv hs b fd hfd j

/-- the type emitted at an abstract position accepts exactly `conformsLooseAbsS` -/
theorem absS_accepts_iff (e : Env) (c : Ctx) (pfx name : String) (ty : TypeId) (sub : List Sel)
    (hty : absHyp c.s ty) (ht : sSels c.s c.q c.o true sub = true) (hok : absOkS c.s c.q c.o ty sub = true)
    (henv : envSelsS e c pfx sub) (hve : ∀ vt ∈ vtsOfTy c.s ty, VarEnv e c pfx vt sub)
    (hs : AbsEnv e name (fieldsOfV c pfx sub) (variantsV c pfx ty (marks c.q sub))) (b : Bool) (fd : Nat)
    (hfd : 2 * depthsF c.q sub + 3 ≤ fd) (j : Json) :
    okB (dePath e b fd name j) = conformsLooseAbsS c.s c.q c.o b ty sub j :=
  accAbsS e c pfx name ty sub (accSelsS e c sub pfx) (fun t isub hm => accInlS e c sub t isub hm _) hty ht hok henv hve
    hs b fd hfd j

end E2E
end C01
end GqlVerif
