import GqlVerif.Proofs.C01VariantSpreadA
/-!
# C01 / C03 end to end: fragment spreads at abstract positions (`VariantSpreadOp`), part B: exact acceptance

* `conformsLooseS s q o b sels j` / `conformsLooseAbsS s q o b ty sub j` — the exact acceptance predicates of the struct
  emitted for an object-level selection set and of the type(s) emitted at an abstract position.  As `conformsLooseV` /
  `conformsLooseAbs`, and:
  (a) the payload of the variant `T` accepts the other entries iff the own fields of the inline fragment on `T` accept
  them (`loosePayS`) **and every fragment on `T` that is spread accepts them, read as buffered content** (`looseMemS`) —
  whether the payload is the alias of the fragment struct (a lone spread) or a struct with flattened members;
  (b) every fragment on the abstract type itself that is spread accepts **all the entries the own fields left**
  (`looseMemB`: `conformsLooseAbs … true` of the fragment's body — its struct has a flattened member / it is an internally
  tagged enum, both *borrow*), the position is then a struct even without interface-level field (`hasStruct`), so its
  tagged enum is read from buffered content (integer tags accepted, known finding `C03-typename-index`).
* serde: `deStructMap_borrow` — the reader of a struct all of whose flattened members borrow, as one equation (no
  disjointness needed); `deStructMap_flat` of `C01AbstractG` is used for the variant structs (members that take).
* `structS_accepts_iff`, `absS_accepts_iff` — acceptance is exactly these predicates (mutual induction `accSelS` /
  `accSelsS` / `accInlS` over the selection tree; `accVariantS` for one variant's payload, `accMemB` for the members of
  part (b)).
* specification: `conformsV` on `expandSels c.q sels` (every spread replaced by the inline fragment
  `... on T { body }`); `conformsS_loose`: conforming ⇒ accepted (`strict_loose_abs_w`, `confSelsV_filter`, `slMemB` for
  part (b)).
-/
set_option linter.unusedSimpArgs false
set_option linter.unusedVariables false
set_option linter.unusedSectionVars false

namespace GqlVerif
namespace C01
namespace E2E
open Serde Spec C13 C03 Codegen

/-! ## the exact acceptance predicate -/

/-- the flattened members of the variant `vt`: every fragment on `vt` that is spread reads its fields from the other
    entries, as buffered content -/
def looseMemS (s : Schema) (q : Query) (o : Options) (vt : TypeId) : List Sel → List (String × Json) → Bool
  | [], _ => true
  | .spread g :: xs, rest =>
    (match q.fragments[g]? with
     | some f => f.on != vt || looseSelsV s o true f.sels rest
     | none => true) && looseMemS s q o vt xs rest
  | _ :: xs, rest => looseMemS s q o vt xs rest

/-- a spread of a fragment on the abstract type `ty` itself -/
def isBSpread (q : Query) (ty : TypeId) : Sel → Bool
  | .spread g => (match q.fragments[g]? with | some f => f.on == ty | none => false)
  | _ => false

/-- the type at the position is a struct (own fields or flattened fragment members, then `on`), not the tagged enum alone -/
def hasStruct (q : Query) (ty : TypeId) (sub : List Sel) : Bool :=
  sub.any isFieldSel || sub.any (isBSpread q ty)

/-- the entries the flattened members (fragments on `ty`, then the tagged enum `on`) see: those the own fields left -/
def absRest (s : Schema) (q : Query) (ty : TypeId) (sub : List Sel) (kvs : List (String × Json)) : List (String × Json) :=
  if hasStruct q ty sub then kvs.filter (fun kv => !(fieldKeys s sub).contains kv.1) else kvs

/-- the flattened members for spreads of fragments on the abstract type `ty` itself (part (b)): each reads **all** the
    entries the own fields left (a struct with a flattened member and an internally tagged enum *borrow*), as the
    type(s) of an abstract position of `VariantOp` do (`conformsLooseAbs`) -/
def looseMemB (s : Schema) (q : Query) (o : Options) (ty : TypeId) : List Sel → List (String × Json) → Bool
  | [], _ => true
  | .spread g :: xs, rest =>
    (match q.fragments[g]? with
     | some f => f.on != ty || conformsLooseAbs s o true ty f.sels (.obj rest)
     | none => true) && looseMemB s q o ty xs rest
  | _ :: xs, rest => looseMemB s q o ty xs rest

mutual
  def looseFieldS (s : Schema) (q : Query) (o : Options) (b : Bool) : Sel → Json → Bool
    | .field _ fid sub, v =>
      match s.fields[fid]? with
      | none => false
      | some sf =>
        match sf.ty.id with
        | .scalar k => (match s.scalars[k]? with
          | some n => accepts (scalarOk n) (gtyOf sf.ty.quals) v
          | none => false)
        | .enum k => (match s.enums[k]? with
          | some _ => accepts stringOk (gtyOf sf.ty.quals) v
          | none => false)
        | .object i => (match s.objects[i]? with
          | some _ => accepts (fun j => match j with
              | .obj kvs' => looseSelsS s q o b sub kvs'
              | .arr xs => looseArrS s q o b sub xs
              | _ => false) (gtyOf sf.ty.quals) v
          | none => false)
        | .input _ => false
        | ty =>
          match loneG sub with
          | some g =>
            -- a lone spread of a fragment on the abstract type itself: what the fragment's own type accepts
            (match q.fragments[g]? with
             | some f => accepts (conformsLooseAbs s o b ty f.sels) (gtyOf sf.ty.quals) v
             | none => false)
          | none =>
          accepts (fun j => match j with
            | .obj kvs' =>
              looseSelsS s q o b sub kvs' &&
              looseMemB s q o ty sub (absRest s q ty sub kvs') &&
              tagOkV s o (hasStruct q ty sub || b) (vtsOfTy s ty)
                (fun vt rest => loosePayS s q o vt sub rest && looseMemS s q o vt sub rest)
                (absRest s q ty sub kvs')
            | _ => false) (gtyOf sf.ty.quals) v
    | _, _ => true
  def looseSelsS (s : Schema) (q : Query) (o : Options) (b : Bool) : List Sel → List (String × Json) → Bool
    | [], _ => true
    | .field a fid sub :: xs, kvs =>
      (match s.fields[fid]? with
       | none => false
       | some sf =>
         decide (countKey (a.getD sf.name) kvs ≤ 1) &&
         (match Json.lookup (a.getD sf.name) kvs with
          | none => nullableQ sf.ty.quals
          | some v => looseFieldS s q o b (.field a fid sub) v)) && looseSelsS s q o b xs kvs
    | _ :: xs, kvs => looseSelsS s q o b xs kvs
  def looseArrS (s : Schema) (q : Query) (o : Options) (b : Bool) : List Sel → List Json → Bool
    | [], _ => true
    | .field a fid sub :: xs, vs =>
      (match vs with
       | [] => false
       | v :: vs' => looseFieldS s q o b (.field a fid sub) v && looseArrS s q o b xs vs')
    | _ :: xs, vs => looseArrS s q o b xs vs
  /-- the own fields of the variant struct of `vt` (those of the inline fragment on `vt`), read from buffered content -/
  def loosePayS (s : Schema) (q : Query) (o : Options) (vt : TypeId) : List Sel → List (String × Json) → Bool
    | [], _ => true
    | .inline t isub :: xs, rest => (t != vt || looseSelsS s q o true isub rest) && loosePayS s q o vt xs rest
    | _ :: xs, rest => loosePayS s q o vt xs rest
end

/-- what the generated `ResponseData` (or any struct of an object-level selection set) of the class accepts -/
def conformsLooseS (s : Schema) (q : Query) (o : Options) (b : Bool) (sels : List Sel) : Json → Bool
  | .obj kvs => looseSelsS s q o b sels kvs
  | .arr xs => looseArrS s q o b sels xs
  | _ => false

/-- … and the type emitted at an abstract position -/
def conformsLooseAbsS (s : Schema) (q : Query) (o : Options) (b : Bool) (ty : TypeId) (sub : List Sel) : Json → Bool
  | .obj kvs' =>
    looseSelsS s q o b sub kvs' &&
    looseMemB s q o ty sub (absRest s q ty sub kvs') &&
    tagOkV s o (hasStruct q ty sub || b) (vtsOfTy s ty)
      (fun vt rest => loosePayS s q o vt sub rest && looseMemS s q o vt sub rest)
      (absRest s q ty sub kvs')
  | _ => false

theorem looseLambdaS (s : Schema) (q : Query) (o : Options) (b : Bool) (sub : List Sel) :
    (fun j => match j with
      | Json.obj kvs' => looseSelsS s q o b sub kvs'
      | Json.arr xs => looseArrS s q o b sub xs
      | _ => false) = conformsLooseS s q o b sub := by
  funext j; cases j <;> rfl

theorem looseLambdaAbsS (s : Schema) (q : Query) (o : Options) (b : Bool) (ty : TypeId) (sub : List Sel) :
    (fun j => match j with
      | Json.obj kvs' =>
        looseSelsS s q o b sub kvs' &&
        looseMemB s q o ty sub (absRest s q ty sub kvs') &&
        tagOkV s o (hasStruct q ty sub || b) (vtsOfTy s ty)
          (fun vt rest => loosePayS s q o vt sub rest && looseMemS s q o vt sub rest)
          (absRest s q ty sub kvs')
      | _ => false) = conformsLooseAbsS s q o b ty sub := by
  funext j; cases j <;> rfl

/-! ## what the theorems need of the environment -/

/-- the item of the variant `vt`: nothing, the alias of the fragment struct, or the variant struct -/
def VarEnv (e : Env) (c : Ctx) (pfx : String) (vt : TypeId) (sub : List Sel) : Prop :=
  match mineOf c.q vt sub with
  | [] => True
  | [.spread g] => AliasEnv e (pfx ++ "On" ++ objName c.s vt) (fragName c g)
  | _ => StructEnv e (pfx ++ "On" ++ objName c.s vt) (varFields c pfx vt sub)

/-- the item(s) of the fragment `g` (struct for a fragment on an object type; struct with the flattened `on` + tagged
    enum, or the tagged enum alone, for a fragment on an abstract type) and its nested items are what its name resolves to -/
def FragEnvS (e : Env) (c : Ctx) (g : Nat) : Prop :=
  match c.q.fragments[g]? with
  | some f =>
    (if f.on.isAbstract then
       AbsEnv e f.name (fieldsOfV c (c.cs.camel f.name) f.sels) (variantsV c (c.cs.camel f.name) f.on f.sels)
     else StructEnv e f.name (fieldsOfV c (c.cs.camel f.name) f.sels)) ∧
    envSelsV e c (c.cs.camel f.name) f.sels
  | none => True

theorem fragEnv_of_S {e : Env} {c : Ctx} {g : Nat} {f : RFragment} {i : Nat} (h : FragEnvS e c g)
    (hf : c.q.fragments[g]? = some f) (hon : f.on = .object i) : FragEnv e c g := by
  unfold FragEnvS at h
  unfold FragEnv
  rw [hf] at h ⊢
  simpa [hon, TypeId.isAbstract] using h

mutual
  def envSelS (e : Env) (c : Ctx) (pfx : String) : Sel → Prop
    | .field a fid sub =>
      match c.s.fields[fid]? with
      | none => True
      | some sf =>
        match sf.ty.id with
        | .scalar k => (match c.s.scalars[k]? with | some sn => ScalarEnv e sn | none => True)
        | .enum k => (match c.s.enums[k]? with | some en => EnumEnv e en.name | none => True)
        | .object _ =>
          StructEnv e (pfx ++ c.cs.camel (a.getD sf.name)) (fieldsOfV c (pfx ++ c.cs.camel (a.getD sf.name)) sub) ∧
          envSelsS e c (pfx ++ c.cs.camel (a.getD sf.name)) sub
        | .input _ => True
        | ty =>
          match loneG sub with
          | some g => AliasEnv e (pfx ++ c.cs.camel (a.getD sf.name)) (fragName c g) ∧ FragEnvS e c g
          | none =>
          AbsEnv e (pfx ++ c.cs.camel (a.getD sf.name)) (fieldsB c (pfx ++ c.cs.camel (a.getD sf.name)) ty sub)
            (variantsV c (pfx ++ c.cs.camel (a.getD sf.name)) ty (marks c.q sub)) ∧
          (∀ vt ∈ vtsOfTy c.s ty, VarEnv e c (pfx ++ c.cs.camel (a.getD sf.name)) vt sub) ∧
          envSelsS e c (pfx ++ c.cs.camel (a.getD sf.name)) sub
    | .inline t isub => envSelsS e c (pfx ++ "On" ++ c.cs.camel (objName c.s t)) isub
    | .spread g => FragEnvS e c g
    | .typename => True
  def envSelsS (e : Env) (c : Ctx) (pfx : String) : List Sel → Prop
    | [] => True
    | x :: xs => envSelS e c pfx x ∧ envSelsS e c pfx xs
end

theorem envSelsS_mem {e : Env} {c : Ctx} {pfx : String} : ∀ {sels : List Sel}, envSelsS e c pfx sels →
    ∀ x ∈ sels, envSelS e c pfx x
  | [], _, _, hx => by simp at hx
  | y :: ys, h, x, hx => by
    rw [envSelsS] at h
    rcases List.mem_cons.mp hx with rfl | hx'
    · exact h.1
    · exact envSelsS_mem h.2 x hx'

/-! ## facts about the emitted fields of a selection set of the class -/

theorem fieldOfSelV_s (c : Ctx) (pfx : String) (abs : Bool) (a : Option String) (fid : Nat) (sub : List Sel)
    (ht : sSel c.s c.q c.o abs (.field a fid sub) = true) :
    ∃ sf ft, c.s.fields[fid]? = some sf ∧ leafNameV c pfx (a.getD sf.name) sf.ty.id = some ft ∧
      fieldOfSelV c pfx (.field a fid sub) = some (fieldOf c (a.getD sf.name) ft sf.ty.quals sf.deprecation) ∧
      wfQuals sf.ty.quals = true := by
  rw [sSel] at ht
  cases hsf : c.s.fields[fid]? with
  | none => simp [hsf] at ht
  | some sf =>
    simp only [hsf, Bool.and_eq_true] at ht
    obtain ⟨⟨hw, _⟩, hty⟩ := ht
    cases hid : sf.ty.id with
    | scalar k =>
      simp only [hid, Bool.and_eq_true] at hty
      cases hk : c.s.scalars[k]? with
      | none => simp [hk] at hty
      | some sn => exact ⟨sf, sn, rfl, by simp [leafNameV, hid, hk], by simp [fieldOfSelV, hsf, leafNameV, hid, hk], hw⟩
    | «enum» k =>
      simp only [hid, Bool.and_eq_true] at hty
      cases hk : c.s.enums[k]? with
      | none => simp [hk] at hty
      | some en => exact ⟨sf, en.name, rfl, by simp [leafNameV, hid, hk], by simp [fieldOfSelV, hsf, leafNameV, hid, hk], hw⟩
    | object i => exact ⟨sf, pfx ++ c.cs.camel (a.getD sf.name), rfl, by simp [leafNameV, hid], by simp [fieldOfSelV, hsf, leafNameV, hid], hw⟩
    | interface k => exact ⟨sf, pfx ++ c.cs.camel (a.getD sf.name), rfl, by simp [leafNameV, hid], by simp [fieldOfSelV, hsf, leafNameV, hid], hw⟩
    | union k => exact ⟨sf, pfx ++ c.cs.camel (a.getD sf.name), rfl, by simp [leafNameV, hid], by simp [fieldOfSelV, hsf, leafNameV, hid], hw⟩
    | input k => simp [hid] at hty

/-- the wire names of the emitted fields are the response keys of the `.field` selections -/
theorem wire_fieldsOfS (c : Ctx) (pfx : String) (abs : Bool) : ∀ (sels : List Sel), sSels c.s c.q c.o abs sels = true →
    (fieldsOfV c pfx sels).map (·.wire) = fieldKeys c.s sels
  | [], _ => rfl
  | x :: xs, ht => by
    obtain ⟨hx, hxs⟩ := sSels_cons ht
    have ih := wire_fieldsOfS c pfx abs xs hxs
    cases x with
    | field a fid sub =>
      obtain ⟨sf, ft, hsf, _, hf, _⟩ := fieldOfSelV_s c pfx abs a fid sub hx
      rw [fieldsOfV_cons_field c pfx _ xs _ hf, List.map_cons, ih, fieldOf_wire]
      simp [fieldKeys, fieldKey, hsf]
    | spread g => rw [fieldsOfV_cons_none c pfx _ xs rfl, ih]; simp [fieldKeys, fieldKey, List.filterMap_cons]
    | inline t sub => rw [fieldsOfV_cons_none c pfx _ xs rfl, ih]; simp [fieldKeys, fieldKey, List.filterMap_cons]
    | typename => rw [fieldsOfV_cons_none c pfx _ xs rfl, ih]; simp [fieldKeys, fieldKey, List.filterMap_cons]

theorem isEmpty_fieldsOfS (c : Ctx) (pfx : String) (abs : Bool) : ∀ (sels : List Sel), sSels c.s c.q c.o abs sels = true →
    (fieldsOfV c pfx sels).isEmpty = !sels.any isFieldSel
  | [], _ => rfl
  | x :: xs, ht => by
    obtain ⟨hx, hxs⟩ := sSels_cons ht
    have ih := isEmpty_fieldsOfS c pfx abs xs hxs
    cases x with
    | field a fid sub =>
      obtain ⟨sf, ft, hsf, _, hf, _⟩ := fieldOfSelV_s c pfx abs a fid sub hx
      rw [fieldsOfV_cons_field c pfx _ xs _ hf]; simp [isFieldSel]
    | spread g => rw [fieldsOfV_cons_none c pfx _ xs rfl, ih]; simp [isFieldSel]
    | inline t sub => rw [fieldsOfV_cons_none c pfx _ xs rfl, ih]; simp [isFieldSel]
    | typename => rw [fieldsOfV_cons_none c pfx _ xs rfl, ih]; simp [isFieldSel]

theorem looseSelsS_nofield (s : Schema) (q : Query) (o : Options) (b : Bool) (kvs : List (String × Json)) :
    ∀ (sels : List Sel), sels.any isFieldSel = false → looseSelsS s q o b sels kvs = true
  | [], _ => by simp [looseSelsS]
  | x :: xs, h => by
    simp only [List.any_cons, Bool.or_eq_false_iff] at h
    have ih := looseSelsS_nofield s q o b kvs xs h.2
    cases x with
    | field a fid sub => simp [isFieldSel] at h
    | spread g => simpa [looseSelsS] using ih
    | inline t sub => simpa [looseSelsS] using ih
    | typename => simpa [looseSelsS] using ih

theorem marks_fieldsOfV (c : Ctx) (pfx : String) : ∀ (sels : List Sel),
    fieldsOfV c pfx (marks c.q sels) = fieldsOfV c pfx sels
  | [] => rfl
  | x :: xs => by
    have ih := marks_fieldsOfV c pfx xs
    unfold marks fieldsOfV at ih ⊢
    rw [List.map_cons, List.filterMap_cons, List.filterMap_cons, ih]
    cases x with
    | spread g => cases hf : c.q.fragments[g]? <;> simp [markSel, hf, fieldOfSelV]
    | inline t sub => rfl
    | field a fid sub => rfl
    | typename => rfl


/-! ## the payload of one variant -/

theorem loosePayS_mineOf (s : Schema) (q : Query) (o : Options) (vt : TypeId) (rest : List (String × Json)) :
    ∀ (sub : List Sel), loosePayS s q o vt (mineOf q vt sub) rest = loosePayS s q o vt sub rest
  | [] => rfl
  | x :: xs => by
    have ih := loosePayS_mineOf s q o vt rest xs
    unfold mineOf at ih ⊢
    rw [List.filter_cons]
    cases x with
    | inline t isub =>
      by_cases htv : t = vt
      · subst htv; simp [onVt, selOn, loosePayS, ih]
      · have hne : (t != vt) = true := by simpa using htv
        simp [onVt, selOn, loosePayS, ih, htv, hne]
    | spread g =>
      by_cases hon : onVt q vt (.spread g) = true
      · simp [hon, loosePayS, ih]
      · simp [hon, loosePayS, ih]
    | field a fid sub => simp [onVt, selOn, loosePayS, ih]
    | typename => simp [onVt, selOn, loosePayS, ih]

theorem looseMemS_mineOf (s : Schema) (q : Query) (o : Options) (vt : TypeId) (rest : List (String × Json)) :
    ∀ (sub : List Sel), looseMemS s q o vt (mineOf q vt sub) rest = looseMemS s q o vt sub rest
  | [] => rfl
  | x :: xs => by
    have ih := looseMemS_mineOf s q o vt rest xs
    unfold mineOf at ih ⊢
    rw [List.filter_cons]
    cases x with
    | inline t isub =>
      by_cases hon : onVt q vt (.inline t isub) = true
      · simp [hon, looseMemS, ih]
      · simp [hon, looseMemS, ih]
    | spread g =>
      cases hf : q.fragments[g]? with
      | none => simp [onVt, selOn, looseMemS, ih, hf]
      | some f =>
        by_cases htv : f.on = vt
        · simp [onVt, selOn, looseMemS, ih, hf, htv]
        · have hne : (f.on != vt) = true := by simpa using htv
          simp [onVt, selOn, looseMemS, ih, hf, htv, hne]
    | field a fid sub => simp [onVt, selOn, looseMemS, ih]
    | typename => simp [onVt, selOn, looseMemS, ih]

/-- the own fields of the variant struct -/
def varOwn (c : Ctx) (pfx : String) (vt : TypeId) : List Sel → List RField
  | [] => []
  | .inline t isub :: xs =>
    (if t == vt then fieldsOfV c (pfx ++ "On" ++ c.cs.camel (objName c.s t)) isub else []) ++ varOwn c pfx vt xs
  | _ :: xs => varOwn c pfx vt xs

/-- its flattened members -/
def varMem (c : Ctx) (vt : TypeId) : List Sel → List RField
  | [] => []
  | .spread g :: xs =>
    (match c.q.fragments[g]? with
     | some f => if f.on == vt then [memberField c f] else []
     | none => []) ++ varMem c vt xs
  | _ :: xs => varMem c vt xs

theorem filter_not_flatten_plain {fs : List RField} (h : plain fs = true) : fs.filter (·.flatten) = [] := by
  rw [List.filter_eq_nil_iff]
  intro f hf
  have := List.all_eq_true.mp h f hf
  simpa using this

theorem varFields_own (c : Ctx) (pfx : String) (vt : TypeId) : ∀ (sub : List Sel),
    (varFields c pfx vt sub).filter (fun f => !f.flatten) = varOwn c pfx vt sub
  | [] => rfl
  | x :: xs => by
    have ih := varFields_own c pfx vt xs
    cases x with
    | inline t isub =>
      rw [varFields, varOwn, List.filter_append, ih]
      split
      · rw [filter_plain (plain_fieldsOfV c _ isub)]
      · rfl
    | spread g =>
      have e1 : varOwn c pfx vt (Sel.spread g :: xs) = varOwn c pfx vt xs := by simp [varOwn]
      rw [varFields, e1, List.filter_append, ih]
      cases hf : c.q.fragments[g]? with
      | none => rfl
      | some f => simp only []; split <;> simp [memberField]
    | field a fid sub => simpa [varFields, varOwn] using ih
    | typename => simpa [varFields, varOwn] using ih

theorem varFields_mem (c : Ctx) (pfx : String) (vt : TypeId) : ∀ (sub : List Sel),
    (varFields c pfx vt sub).filter (·.flatten) = varMem c vt sub
  | [] => rfl
  | x :: xs => by
    have ih := varFields_mem c pfx vt xs
    cases x with
    | inline t isub =>
      have e1 : varMem c vt (Sel.inline t isub :: xs) = varMem c vt xs := by simp [varMem]
      rw [varFields, e1, List.filter_append, ih]
      split
      · rw [filter_not_flatten_plain (plain_fieldsOfV c _ isub)]; rfl
      · rfl
    | spread g =>
      rw [varFields, varMem, List.filter_append, ih]
      cases hf : c.q.fragments[g]? with
      | none => rfl
      | some f => simp only []; split <;> simp [memberField]
    | field a fid sub => simpa [varFields, varMem] using ih
    | typename => simpa [varFields, varMem] using ih

theorem plain_varOwn (c : Ctx) (pfx : String) (vt : TypeId) (sub : List Sel) : plain (varOwn c pfx vt sub) = true := by
  rw [← varFields_own]
  simp only [plain, List.all_eq_true, List.mem_filter]
  intro f hf; exact hf.2

theorem memberFields_member (e : Env) (c : Ctx) (g : Nat) (f : RFragment) (hf : c.q.fragments[g]? = some f)
    (he : FragEnv e c g) :
    memberFields e (memberField c f) = fieldsOfV c (c.cs.camel f.name) f.sels ∧ MemberOk e (memberField c f) := by
  unfold FragEnv at he
  rw [hf] at he
  obtain ⟨⟨_, _, n, d, cr, hfind⟩, _⟩ := he
  have h1 : memberFields e (memberField c f) = fieldsOfV c (c.cs.camel f.name) f.sels := by
    simp [memberFields, memberField, hfind]
  exact ⟨h1, f.name, n, d, cr, rfl, by rw [h1]; exact hfind, by rw [h1]; exact plain_fieldsOfV _ _ _⟩

/-- a struct with own fields and flattened plain-struct members (or none), as acceptance -/
theorem okB_deStructMap_flat (e : Env) (fuel : Nat) (pathD : String → Json → D Val) (fields : List RField)
    (kvs : List (String × Json))
    (hok : ∀ g ∈ fields, g.flatten = true → MemberOk e g)
    (hown : ∀ g ∈ fields, g.flatten = true → ∀ k ∈ memberKeys e g,
      k ∉ (fields.filter (fun f => !f.flatten)).map (·.wire))
    (hpw : fields.Pairwise (fun g g' => g.flatten = true → g'.flatten = true →
      ∀ k ∈ memberKeys e g', k ∉ memberKeys e g)) :
    okB (deStructMapWith pathD (deFlat e (fuel + 1)) fields kvs) =
      (okB (deOwnWith pathD (fields.filter (fun f => !f.flatten)) kvs) &&
       (fields.filter (·.flatten)).all (fun g => okB (deOwnWith (dePath e true fuel) (memberFields e g) kvs))) := by
  cases hany : fields.any (·.flatten)
  · have hpl : plain fields = true := by
      simp only [plain, List.all_eq_true]
      intro f hf
      have := List.any_eq_false.mp hany f hf
      simpa using this
    rw [deStructMap_plain _ _ _ _ hpl, okB_map, filter_plain hpl, filter_not_flatten_plain hpl]
    simp
  · rw [deStructMap_flat e fuel pathD fields kvs hany hok hown hpw, okB_bind2, okB_flatVals]

/-- from "the field keys selected on the variant are pairwise distinct" to the hypotheses of `deStructMap_flat` -/
theorem var_flat_hyps (e : Env) (c : Ctx) (pfx : String) (ty vt : TypeId) (hvne : vt ≠ ty)
    (hobjvt : ∃ i, vt = .object i) : ∀ (sub : List Sel),
    sSels c.s c.q c.o true sub = true → SpreadsA c ty sub → envSelsS e c pfx sub → (varKeys c.s c.q vt sub).Nodup →
    (∀ g ∈ varFields c pfx vt sub, g.flatten = true → MemberOk e g ∧ ∀ k ∈ memberKeys e g, k ∈ varKeys c.s c.q vt sub) ∧
    (∀ f ∈ varFields c pfx vt sub, f.flatten = false → f.wire ∈ varKeys c.s c.q vt sub) ∧
    (∀ g ∈ varFields c pfx vt sub, g.flatten = true → ∀ k ∈ memberKeys e g,
      k ∉ ((varFields c pfx vt sub).filter (fun f => !f.flatten)).map (·.wire)) ∧
    (varFields c pfx vt sub).Pairwise (fun g g' => g.flatten = true → g'.flatten = true →
      ∀ k ∈ memberKeys e g', k ∉ memberKeys e g)
  | [], _, _, _, _ => by simp [varFields]
  | x :: xs, ht, hsp, henv, hnd => by
    obtain ⟨hx, hxs⟩ := sSels_cons ht
    rw [envSelsS] at henv
    cases x with
    | inline t isub =>
      rw [varKeys] at hnd
      rw [varFields, varKeys]
      by_cases htv : t = vt
      · subst htv
        simp only [beq_self_eq_true, ↓reduceIte] at hnd ⊢
        rw [List.nodup_append] at hnd
        obtain ⟨_, hnd2, hdisj⟩ := hnd
        obtain ⟨ih1, ih2, ih3, ih4⟩ := var_flat_hyps e c pfx ty t hvne hobjvt xs hxs hsp.tail henv.2 hnd2
        simp only [sSel, Bool.and_eq_true] at hx
        have hw := wire_fieldsOfS c (pfx ++ "On" ++ c.cs.camel (objName c.s t)) false isub hx.1.2
        have hpl := plain_fieldsOfV c (pfx ++ "On" ++ c.cs.camel (objName c.s t)) isub
        have hnf : ∀ f ∈ fieldsOfV c (pfx ++ "On" ++ c.cs.camel (objName c.s t)) isub, f.flatten = false := by
          intro f hf
          have := List.all_eq_true.mp hpl f hf
          simpa using this
        refine ⟨?_, ?_, ?_, ?_⟩
        · intro g hg hfl
          rcases List.mem_append.mp hg with hg' | hg'
          · rw [hnf g hg'] at hfl; cases hfl
          · exact ⟨(ih1 g hg' hfl).1, fun k hk => List.mem_append_right _ ((ih1 g hg' hfl).2 k hk)⟩
        · intro f hf hfl
          rcases List.mem_append.mp hf with hf' | hf'
          · exact List.mem_append_left _ (hw ▸ List.mem_map_of_mem hf')
          · exact List.mem_append_right _ (ih2 f hf' hfl)
        · intro g hg hfl k hk
          rcases List.mem_append.mp hg with hg' | hg'
          · rw [hnf g hg'] at hfl; cases hfl
          · rw [List.filter_append, List.map_append, List.mem_append, filter_plain hpl, hw]
            intro hmem
            rcases hmem with hmem | hmem
            · exact hdisj k hmem k ((ih1 g hg' hfl).2 k hk) rfl
            · exact ih3 g hg' hfl k hk hmem
        · rw [List.pairwise_append]
          refine ⟨?_, ih4, ?_⟩
          · exact List.Pairwise.imp_of_mem (R := fun _ _ => True)
              (fun {a b} ha _ _ hfl => by rw [hnf a ha] at hfl; cases hfl)
              (List.pairwise_of_forall (fun _ _ => trivial))
          · intro a ha b _ hfl
            rw [hnf a ha] at hfl; cases hfl
      · have hne : (t == vt) = false := by simpa using htv
        simp only [hne, Bool.false_eq_true, ↓reduceIte, List.nil_append] at hnd ⊢
        exact var_flat_hyps e c pfx ty vt hvne hobjvt xs hxs hsp.tail henv.2 hnd
    | spread g =>
      obtain ⟨fr, hfr⟩ := hsp.frag g (by simp)
      rw [varKeys] at hnd
      rw [varFields, varKeys]
      simp only [hfr] at hnd ⊢
      by_cases htv : fr.on = vt
      · obtain ⟨fr', hok, hfr', hon⟩ := hsp.onVt hvne (List.mem_cons_self) (by simp [selOn, hfr, htv])
        rw [hfr] at hfr'; cases hfr'
        obtain ⟨fr', hfr', _, _, hv, _⟩ := fragOk_parts hok
        rw [hfr] at hfr'; cases hfr'
        obtain ⟨i, hi'⟩ := id hobjvt
        have hi : fr.on = .object i := htv.trans hi'
        simp only [htv, beq_self_eq_true, ↓reduceIte] at hnd ⊢
        rw [List.nodup_append] at hnd
        obtain ⟨_, hnd2, hdisj⟩ := hnd
        obtain ⟨ih1, ih2, ih3, ih4⟩ := var_flat_hyps e c pfx ty vt hvne hobjvt xs hxs hsp.tail henv.2 hnd2
        have hfe : FragEnv e c g := fragEnv_of_S henv.1 hfr hi
        obtain ⟨hmf, hmok⟩ := memberFields_member e c g fr hfr hfe
        have hmk : memberKeys e (memberField c fr) = fieldKeys c.s fr.sels := by
          unfold memberKeys; rw [hmf, wire_fieldsOfV c _ false fr.sels hv]
        have hfl' : (memberField c fr).flatten = true := rfl
        refine ⟨?_, ?_, ?_, ?_⟩
        · intro g' hg hfl
          rcases List.mem_append.mp hg with hg' | hg'
          · simp only [List.mem_singleton] at hg'
            subst hg'
            exact ⟨hmok, fun k hk => List.mem_append_left _ (hmk ▸ hk)⟩
          · exact ⟨(ih1 g' hg' hfl).1, fun k hk => List.mem_append_right _ ((ih1 g' hg' hfl).2 k hk)⟩
        · intro f hf hfl
          rcases List.mem_append.mp hf with hf' | hf'
          · simp only [List.mem_singleton] at hf'
            subst hf'
            rw [hfl'] at hfl; cases hfl
          · exact List.mem_append_right _ (ih2 f hf' hfl)
        · intro g' hg hfl k hk
          simp only [List.singleton_append, List.filter_cons, hfl', Bool.not_true, Bool.false_eq_true, ↓reduceIte]
          rcases List.mem_append.mp hg with hg' | hg'
          · simp only [List.mem_singleton] at hg'
            subst hg'
            rw [hmk] at hk
            intro hmem
            obtain ⟨f, hf', hfw⟩ := List.mem_map.mp hmem
            have hf'' := List.mem_filter.mp hf'
            have := ih2 f hf''.1 (by simpa using hf''.2)
            exact hdisj k hk k (hfw ▸ this) rfl
          · exact ih3 g' hg' hfl k hk
        · simp only [List.singleton_append, List.pairwise_cons]
          refine ⟨?_, ih4⟩
          intro g' hg' _ hfl k hk
          rw [hmk]
          intro hmem
          exact hdisj k hmem k ((ih1 g' hg' hfl).2 k hk) rfl
      · have hne : (fr.on == vt) = false := by simpa using htv
        simp only [hne, Bool.false_eq_true, ↓reduceIte, List.nil_append] at hnd ⊢
        exact var_flat_hyps e c pfx ty vt hvne hobjvt xs hxs hsp.tail henv.2 hnd
    | field a fid sub =>
      have e1 : varKeys c.s c.q vt (Sel.field a fid sub :: xs) = varKeys c.s c.q vt xs := by simp [varKeys]
      have e2 : varFields c pfx vt (Sel.field a fid sub :: xs) = varFields c pfx vt xs := by simp [varFields]
      rw [e1] at hnd ⊢
      rw [e2]
      exact var_flat_hyps e c pfx ty vt hvne hobjvt xs hxs hsp.tail henv.2 hnd
    | typename =>
      have e1 : varKeys c.s c.q vt (Sel.typename :: xs) = varKeys c.s c.q vt xs := by simp [varKeys]
      have e2 : varFields c pfx vt (Sel.typename :: xs) = varFields c pfx vt xs := by simp [varFields]
      rw [e1] at hnd ⊢
      rw [e2]
      exact var_flat_hyps e c pfx ty vt hvne hobjvt xs hxs hsp.tail henv.2 hnd


/-! ## serde: flattened members that borrow (a struct with flattened members, an internally tagged enum) -/

/-- what a borrowing member reads of the entries the own fields left -/
def readB (e : Env) (fuel : Nat) (g : RField) (rest : List (String × Json)) : D Val :=
  match g.ty with
  | .path p => dePath e true (fuel + 1) p (.obj rest)
  | _ => unmodelled "flatten of a non-struct type"

/-- the member's type is an internally tagged enum or a struct that itself has a flattened member -/
def Borrows (e : Env) (g : RField) : Prop :=
  ∃ p, g.ty = .path p ∧ notPrim p ∧
    ((∃ n d c tag vs, e.find p = some (.tagged n d c tag vs)) ∨
     (∃ n d c fields, e.find p = some (.struct n d c fields) ∧ fields.any (·.flatten) = true))

/-- such a member sees every remaining entry and takes none: it reads what the type reads of the remaining object -/
theorem deFlat_borrow (e : Env) (fuel : Nat) (g : RField) (h : Borrows e g) (buf : Buf) :
    deFlat e (fuel + 1) g.ty buf = (do let v ← readB e fuel g (present buf); pure (v, buf)) := by
  obtain ⟨p, hty, hp, hcase⟩ := h
  rw [hty]
  unfold readB
  simp only [hty]
  rcases hcase with ⟨n, d, c, tag, vs, he⟩ | ⟨n, d, c, fields, he, hany⟩
  · rw [dePath_tagged e true fuel p n d c tag vs hp he]
    unfold deFlat
    simp only [he]
  · rw [dePath_struct e true fuel p n d c fields hp he, deStruct_obj]
    unfold deFlat
    simp only [he, hany, ↓reduceIte]

def borrowVals (e : Env) (fuel : Nat) (rest : List (String × Json)) : List RField → D (List (String × Val))
  | [] => pure []
  | g :: fs =>
    if !g.flatten then borrowVals e fuel rest fs else do
      let v ← readB e fuel g rest
      let r ← borrowVals e fuel rest fs
      pure ((g.rust, v) :: r)

theorem deFlats_borrow (e : Env) (fuel : Nat) : ∀ (fs : List RField) (buf : Buf),
    (∀ g ∈ fs, g.flatten = true → Borrows e g) →
    deFlatsWith (deFlat e (fuel + 1)) fs buf = borrowVals e fuel (present buf) fs
  | [], _, _ => rfl
  | g :: fs, buf, hb => by
    have ih := deFlats_borrow e fuel fs buf (fun g' h' => hb g' (List.mem_cons_of_mem _ h'))
    cases hg : g.flatten
    · simp only [deFlatsWith, borrowVals, hg, Bool.not_false, ↓reduceIte]; exact ih
    · simp only [deFlatsWith, borrowVals, hg, Bool.not_true, Bool.false_eq_true, ↓reduceIte,
        deFlat_borrow e fuel g (hb g (by simp) hg) buf]
      cases readB e fuel g (present buf) with
      | error err => rfl
      | ok v => simp only [bind, Except.bind, pure, Except.pure]; rw [ih]

theorem okB_borrowVals (e : Env) (fuel : Nat) (rest : List (String × Json)) : ∀ (fs : List RField),
    okB (borrowVals e fuel rest fs) = (fs.filter (·.flatten)).all (fun g => okB (readB e fuel g rest))
  | [] => rfl
  | g :: fs => by
    have ih := okB_borrowVals e fuel rest fs
    cases hg : g.flatten
    · simp only [borrowVals, hg, Bool.not_false, ↓reduceIte, List.filter_cons, Bool.false_eq_true]
      exact ih
    · simp only [borrowVals, hg, Bool.not_true, Bool.false_eq_true, ↓reduceIte, List.filter_cons, List.all_cons, ← ih]
      cases readB e fuel g rest <;> cases borrowVals e fuel rest fs <;> rfl

/-- **the reader of a struct all of whose flattened members borrow, as one equation**: no disjointness is needed, every
    member reads all the entries the own fields left -/
theorem deStructMap_borrow (e : Env) (fuel : Nat) (pathD : String → Json → D Val) (fields : List RField)
    (kvs : List (String × Json)) (hany : fields.any (·.flatten) = true)
    (hb : ∀ g ∈ fields, g.flatten = true → Borrows e g) :
    deStructMapWith pathD (deFlat e (fuel + 1)) fields kvs =
      (do let own ← deOwnWith pathD (fields.filter (fun f => !f.flatten)) kvs
          let fl ← borrowVals e fuel
            (kvs.filter (fun kv => !((fields.filter (fun f => !f.flatten)).map (·.wire)).contains kv.1)) fields
          pure (.record (fields.filterMap fun f => (own ++ fl).find? (·.1 == f.rust)))) := by
  unfold deStructMapWith
  simp only [hany, ↓reduceIte]
  rw [deOwn_filter_flatten pathD kvs fields, deFlats_borrow e fuel fields _ hb, present_map_some]

/-! ## acceptance, exactly -/

section AccS
variable (e : Env) (c : Ctx)

def AccSelS (pfx : String) (x : Sel) : Prop :=
  ∀ abs, sSel c.s c.q c.o abs x = true → envSelS e c pfx x → ∀ f, fieldOfSelV c pfx x = some f →
    ∀ b fd, 2 * depthF c.q x + 1 ≤ fd → ∀ v, okB (deFieldWith (dePath e b fd) f v) = looseFieldS c.s c.q c.o b x v

def AccSelsS (pfx : String) (sels : List Sel) : Prop :=
  ∀ abs, sSels c.s c.q c.o abs sels = true → envSelsS e c pfx sels → ∀ b fd, 2 * depthsF c.q sels + 1 ≤ fd →
    (∀ kvs, (fieldsOfV c pfx sels).all (fun f => decide (countKey f.wire kvs ≤ 1) &&
        okB (readField (dePath e b fd) f kvs)) = looseSelsS c.s c.q c.o b sels kvs) ∧
    (∀ xs, (decide ((fieldsOfV c pfx sels).length ≤ xs.length) &&
        ((fieldsOfV c pfx sels).zip xs).all (fun p => okB (deFieldWith (dePath e b fd) p.1 p.2))) =
          looseArrS c.s c.q c.o b sels xs)

/-- the struct of an object-level selection set accepts exactly `conformsLooseS` -/
theorem accStructS (pfx name : String) (sels : List Sel) (H : AccSelsS e c pfx sels) (abs : Bool)
    (ht : sSels c.s c.q c.o abs sels = true) (henv : envSelsS e c pfx sels)
    (hs : StructEnv e name (fieldsOfV c pfx sels)) (b : Bool) (fd : Nat) (hfd : 2 * depthsF c.q sels + 2 ≤ fd) (j : Json) :
    okB (dePath e b fd name j) = conformsLooseS c.s c.q c.o b sels j := by
  obtain ⟨hp, _, n, d, cr, hfind⟩ := hs
  obtain ⟨fd', rfl⟩ : ∃ k, fd = k + 1 := ⟨fd - 1, by omega⟩
  obtain ⟨H1, H2⟩ := H abs ht henv b fd' (by omega)
  rw [dePath_struct e b fd' name n d cr _ hp hfind]
  have hpl := plain_fieldsOfV c pfx sels
  cases j with
  | obj kvs =>
    rw [deStruct_obj, deStructMap_plain _ _ _ _ hpl, okB_map, okB_deOwn' _ _ _ hpl, H1]; rfl
  | arr xs =>
    simp only [deStructWith, any_flatten_of_plain hpl, Bool.false_eq_true, ↓reduceIte, conformsLooseS]
    rw [← H2 xs]
    by_cases hlen : xs.length < (fieldsOfV c pfx sels).length
    · have : ¬ ((fieldsOfV c pfx sels).length ≤ xs.length) := by omega
      simp [hlen, this, okB, bad]
    · have : (fieldsOfV c pfx sels).length ≤ xs.length := by omega
      simp only [hlen, ↓reduceIte, okB_map, okB_mapM, this, decide_true, Bool.true_and]
      congr 1; funext p
      cases deFieldWith (dePath e b fd') p.1 p.2 <;> rfl
  | null => rfl
  | bool _ => rfl
  | int _ => rfl
  | num _ => rfl
  | str _ => rfl

/-- the own fields of the variant struct accept exactly `loosePayS` -/
theorem accOwnS (pfx : String) (vt : TypeId) : ∀ (sub : List Sel),
    (∀ t isub, Sel.inline t isub ∈ sub → AccSelsS e c (pfx ++ "On" ++ c.cs.camel (objName c.s t)) isub) →
    sSels c.s c.q c.o true sub = true → envSelsS e c pfx sub → ∀ fd, 2 * depthsF c.q sub ≤ fd + 1 → ∀ rest,
    (varOwn c pfx vt sub).all (fun f => decide (countKey f.wire rest ≤ 1) &&
      okB (readField (dePath e true fd) f rest)) = loosePayS c.s c.q c.o vt sub rest
  | [], _, _, _, _, _, _ => rfl
  | x :: xs, HI, ht, henv, fd, hfd, rest => by
    obtain ⟨hx, hxs⟩ := sSels_cons ht
    rw [envSelsS] at henv
    rw [depthsF] at hfd
    have ih := accOwnS pfx vt xs (fun t isub hm => HI t isub (List.mem_cons_of_mem _ hm)) hxs henv.2 fd (by omega) rest
    cases x with
    | inline t isub =>
      rw [varOwn, loosePayS.eq_2, List.all_append, ih]
      by_cases htv : t = vt
      · subst htv
        simp only [sSel, Bool.and_eq_true] at hx
        rw [depthF] at hfd
        have := (HI t isub (by simp) false hx.1.2 henv.1 true fd (by omega)).1 rest
        simp [this]
      · have hne : (t == vt) = false := by simpa using htv
        have hne' : (t != vt) = true := by simpa using htv
        simp [hne, hne']
    | spread g => simpa [varOwn, loosePayS] using ih
    | field a fid sub => simpa [varOwn, loosePayS] using ih
    | typename => simpa [varOwn, loosePayS] using ih

/-- the flattened members of the variant struct accept exactly `looseMemS` -/
theorem accMemS (pfx : String) (ty vt : TypeId) (hvne : vt ≠ ty) (hobjvt : ∃ i, vt = .object i) :
    ∀ (sub : List Sel), SpreadsA c ty sub → envSelsS e c pfx sub →
    ∀ fuel, 2 * depthsF c.q sub ≤ fuel + 1 → ∀ rest,
    (varMem c vt sub).all (fun g => okB (deOwnWith (dePath e true fuel) (memberFields e g) rest)) =
      looseMemS c.s c.q c.o vt sub rest
  | [], _, _, _, _, _ => rfl
  | x :: xs, hsp, henv, fuel, hfuel, rest => by
    rw [envSelsS] at henv
    rw [depthsF] at hfuel
    have ih := accMemS pfx ty vt hvne hobjvt xs hsp.tail henv.2 fuel (by omega) rest
    cases x with
    | spread g =>
      obtain ⟨fr, hfr⟩ := hsp.frag g (by simp)
      rw [varMem, looseMemS.eq_2, List.all_append, ih]
      simp only [hfr]
      by_cases htv : fr.on = vt
      · obtain ⟨fr', hok, hfr', hon⟩ := hsp.onVt hvne (List.mem_cons_self) (by simp [selOn, hfr, htv])
        rw [hfr] at hfr'; cases hfr'
        obtain ⟨fr', hfr', _, _, hv, _⟩ := fragOk_parts hok
        rw [hfr] at hfr'; cases hfr'
        obtain ⟨i, hi'⟩ := id hobjvt
        have hfe : FragEnv e c g := fragEnv_of_S henv.1 hfr (htv.trans hi')
        obtain ⟨hmf, _⟩ := memberFields_member e c g fr hfr hfe
        have henvV : envSelsV e c (c.cs.camel fr.name) fr.sels := by
          unfold FragEnv at hfe; rw [hfr] at hfe; exact hfe.2
        rw [depthF] at hfuel
        have hsels : fragSels c.q g = fr.sels := by simp [fragSels, hfr]
        rw [hsels] at hfuel
        have hacc := (accSelsV e c fr.sels (c.cs.camel fr.name) false hv henvV true fuel (by omega)).1 rest
        simp [htv, hmf, okB_deOwn' _ _ _ (plain_fieldsOfV c _ fr.sels), hacc]
      · have hne : (fr.on == vt) = false := by simpa using htv
        have hne' : (fr.on != vt) = true := by simpa using htv
        simp [hne, hne']
    | inline t isub => simpa [varMem, looseMemS] using ih
    | field a fid sub => simpa [varMem, looseMemS] using ih
    | typename => simpa [varMem, looseMemS] using ih

theorem depthsF_filter_le (q : Query) (p : Sel → Bool) : ∀ (sels : List Sel), depthsF q (sels.filter p) ≤ depthsF q sels
  | [] => by simp
  | x :: xs => by
    have ih := depthsF_filter_le q p xs
    rw [List.filter_cons]
    split
    · rw [depthsF, depthsF]; omega
    · rw [depthsF]; omega

/-- **the payload of the variant `vt` accepts exactly `loosePayS && looseMemS`** of the other entries -/
theorem accVariantS (pfx : String) (ty : TypeId) (sub : List Sel)
    (HI : ∀ t isub, Sel.inline t isub ∈ sub → AccSelsS e c (pfx ++ "On" ++ c.cs.camel (objName c.s t)) isub)
    (hty : absHyp c.s ty) (ht : sSels c.s c.q c.o true sub = true) (hok : absOkS c.s c.q c.o ty sub = true)
    (henv : envSelsS e c pfx sub) (vt : TypeId) (hvt : vt ∈ vtsOfTy c.s ty) (hve : VarEnv e c pfx vt sub)
    (fd : Nat) (hfd : 2 * depthsF c.q sub + 1 ≤ fd) (rest : List (String × Json)) :
    pickOk (dePath e true fd) (variantOf c pfx (marks c.q sub) vt) rest =
      (loosePayS c.s c.q c.o vt sub rest && looseMemS c.s c.q c.o vt sub rest) := by
  have hsp := spreadsA_abs hty hok
  obtain ⟨hok1, _, hvk⟩ := absOkS_parts hok
  obtain ⟨_, _, hobj, _⟩ := absOk2_parts hok1
  obtain ⟨i, hvi, _⟩ := hobj vt hvt
  have hvne : vt ≠ ty := by rw [hvi]; exact obj_ne_abs hty i
  have hmem : ∀ x ∈ mineOf c.q vt sub, x ∈ sub ∧ selOn c.q x = some vt := fun x hx => mem_mineOf hx
  have hcont : (List.filterMap inlineTy (marks c.q sub)).contains vt = !(mineOf c.q vt sub).isEmpty := by
    rw [marks_inlineTy]
    by_cases hm : mineOf c.q vt sub = []
    · have := (mineOf_nil_iff c.q _ sub).mp hm
      simp [hm, this]
    · have : vt ∈ sub.filterMap (selOn c.q) := by
        by_cases hcon : vt ∈ sub.filterMap (selOn c.q)
        · exact hcon
        · exact absurd ((mineOf_nil_iff c.q _ sub).mpr hcon) hm
      have h2 : (mineOf c.q vt sub).isEmpty = false := by simpa using hm
      simp [this, h2]
  rw [← loosePayS_mineOf, ← looseMemS_mineOf]
  unfold pickOk variantOf
  rw [hcont]
  unfold VarEnv at hve
  by_cases hm : mineOf c.q vt sub = []
  · simp [hm, loosePayS, looseMemS]
  · have hemp : (mineOf c.q vt sub).isEmpty = false := by simpa using hm
    simp only [hemp, Bool.not_false, ↓reduceIte, Bool.false_eq_true]
    rw [show deTyWith (dePath e true fd) (.path (pfx ++ "On" ++ objName c.s vt)) (.obj rest) =
      dePath e true fd (pfx ++ "On" ++ objName c.s vt) (.obj rest) from rfl]
    by_cases hs : ∃ g, mineOf c.q vt sub = [Sel.spread g]
    · -- the alias of the fragment struct
      obtain ⟨g, hg⟩ := hs
      have hgm := (hmem (.spread g) (by rw [hg]; simp))
      obtain ⟨fr, hfok, hfr, hon⟩ := hsp.onVt hvne hgm.1 hgm.2
      rw [hg] at hve ⊢
      simp only at hve
      have hfe : FragEnv e c g := fragEnv_of_S (envSelsS_mem henv _ hgm.1) hfr (hon.trans hvi)
      have hdep := depthsF_mem c.q hgm.1
      rw [depthF] at hdep
      rw [accAliasF e c _ _ g hfok hve hfe true fd (by omega) (.obj rest)]
      have hsels : fragSels c.q g = fr.sels := by simp [fragSels, hfr]
      simp [loosePayS, looseMemS, hfr, hon, hsels, conformsLooseV]
    · -- the variant struct
      have hs' : ∀ g, mineOf c.q vt sub ≠ [Sel.spread g] := fun g hg => hs ⟨g, hg⟩
      have hstruct : StructEnv e (pfx ++ "On" ++ objName c.s vt) (varFields c pfx vt sub) := by
        revert hve
        split
        · rename_i h; exact absurd h hm
        · rename_i g h; exact absurd h (hs' g)
        · exact id
      obtain ⟨hp, _, n, d, cr, hfind⟩ := hstruct
      have hpos : 1 ≤ depthsF c.q sub := by
        cases hmm : mineOf c.q vt sub with
        | nil => exact absurd hmm hm
        | cons x xs =>
          have hx := (hmem x (by rw [hmm]; simp)).1
          have h1 := depthsF_mem c.q hx
          have h2 : 1 ≤ depthF c.q x := by cases x <;> simp [depthF]
          omega
      obtain ⟨fuel, rfl⟩ : ∃ k, fd = k + 2 := ⟨fd - 2, by omega⟩
      obtain ⟨h1, _, h3, h4⟩ := var_flat_hyps e c pfx ty vt hvne ⟨i, hvi⟩ sub ht hsp henv (hvk vt hvt)
      rw [dePath_struct e true (fuel + 1) _ n d cr _ hp hfind, deStruct_obj,
        okB_deStructMap_flat e fuel _ _ rest (fun g hg hf => (h1 g hg hf).1) h3 h4,
        varFields_own, varFields_mem, okB_deOwn' _ _ _ (plain_varOwn c pfx vt sub),
        accOwnS e c pfx vt sub HI ht henv (fuel + 1) (by omega) rest,
        accMemS e c pfx ty vt hvne ⟨i, hvi⟩ sub hsp henv fuel (by omega) rest, loosePayS_mineOf, looseMemS_mineOf]

theorem fieldsB_cons (c : Ctx) (pfx : String) (ty : TypeId) (x : Sel) (xs : List Sel) :
    fieldsB c pfx ty (x :: xs) = (fieldOfSelB c pfx ty x).toList ++ fieldsB c pfx ty xs := by
  unfold fieldsB
  rw [List.filterMap_cons]
  cases fieldOfSelB c pfx ty x <;> rfl

/-- the own (non-flattened) fields of the struct at an abstract position are `fieldsOfV` of the selection set -/
theorem own_fieldsB (c : Ctx) (pfx : String) (ty : TypeId) : ∀ (sub : List Sel), sSels c.s c.q c.o true sub = true →
    (fieldsB c pfx ty sub).filter (fun f => !f.flatten) = fieldsOfV c pfx sub
  | [], _ => rfl
  | x :: xs, ht => by
    obtain ⟨hx, hxs⟩ := sSels_cons ht
    have ih := own_fieldsB c pfx ty xs hxs
    rw [fieldsB_cons, List.filter_append, ih]
    cases x with
    | field a fid sub =>
      obtain ⟨sf, ft, _, _, hf, _⟩ := fieldOfSelV_s c pfx true a fid sub hx
      rw [fieldsOfV_cons_field c pfx _ xs _ hf]
      simp [fieldOfSelB, hf, fieldOf]
    | spread g =>
      rw [fieldsOfV_cons_none c pfx _ xs rfl]
      cases hf : c.q.fragments[g]? with
      | none => simp [fieldOfSelB, hf]
      | some f => simp only [fieldOfSelB, hf]; split <;> simp [spreadField]
    | inline t sub => rw [fieldsOfV_cons_none c pfx _ xs rfl]; simp [fieldOfSelB, fieldOfSelV]
    | typename => rw [fieldsOfV_cons_none c pfx _ xs rfl]; simp [fieldOfSelB, fieldOfSelV]

theorem isEmpty_fieldsB (c : Ctx) (pfx : String) (ty : TypeId) : ∀ (sub : List Sel), sSels c.s c.q c.o true sub = true →
    (fieldsB c pfx ty sub).isEmpty = !hasStruct c.q ty sub
  | [], _ => rfl
  | x :: xs, ht => by
    obtain ⟨hx, hxs⟩ := sSels_cons ht
    have ih := isEmpty_fieldsB c pfx ty xs hxs
    simp only [hasStruct] at ih ⊢
    rw [fieldsB_cons]
    cases x with
    | field a fid sub =>
      obtain ⟨sf, ft, _, _, hf, _⟩ := fieldOfSelV_s c pfx true a fid sub hx
      simp [fieldOfSelB, hf, isFieldSel]
    | spread g =>
      cases hf : c.q.fragments[g]? with
      | none => simpa [fieldOfSelB, hf, isFieldSel, isBSpread] using ih
      | some f =>
        by_cases hon : f.on = ty
        · simp [fieldOfSelB, hf, hon, isFieldSel, isBSpread]
        · have hne : (f.on == ty) = false := by simpa using hon
          simpa [fieldOfSelB, hf, hne, isFieldSel, isBSpread] using ih
    | inline t sub => simpa [fieldOfSelB, fieldOfSelV, isFieldSel, isBSpread] using ih
    | typename => simpa [fieldOfSelB, fieldOfSelV, isFieldSel, isBSpread] using ih

theorem looseMemB_noB (s : Schema) (q : Query) (o : Options) (ty : TypeId) (rest : List (String × Json)) :
    ∀ (sub : List Sel), sub.any (isBSpread q ty) = false → looseMemB s q o ty sub rest = true
  | [], _ => rfl
  | x :: xs, h => by
    simp only [List.any_cons, Bool.or_eq_false_iff] at h
    have ih := looseMemB_noB s q o ty rest xs h.2
    cases x with
    | spread g =>
      have h1 := h.1
      cases hf : q.fragments[g]? with
      | none => simp [looseMemB, hf, ih]
      | some f =>
        simp only [isBSpread, hf] at h1
        have : (f.on != ty) = true := by simp [bne, h1]
        simp [looseMemB, hf, this, ih]
    | field a fid sub => simpa [looseMemB] using ih
    | inline t sub => simpa [looseMemB] using ih
    | typename => simpa [looseMemB] using ih

theorem borrows_of_absEnv {e : Env} {name : String} {fields : List RField} {vs : List RVariant} {g : RField}
    (hty : g.ty = .path name) (h : AbsEnv e name fields vs) : Borrows e g := by
  unfold AbsEnv at h
  split at h
  · obtain ⟨hp, _, n, d, cr, hfind⟩ := h
    exact ⟨name, hty, hp, .inl ⟨n, d, cr, _, _, hfind⟩⟩
  · obtain ⟨⟨hp, _, n, d, cr, hfind⟩, _⟩ := h
    exact ⟨name, hty, hp, .inr ⟨n, d, cr, _, hfind, by simp [onField]⟩⟩

/-- the members for fragments on the abstract type itself: Borrowers that accept exactly `looseMemB` -/
theorem accMemB (pfx : String) (ty : TypeId) (hty : absHyp c.s ty) : ∀ (sub : List Sel), SpreadsA c ty sub →
    envSelsS e c pfx sub → ∀ fuel, 2 * depthsF c.q sub + 1 ≤ fuel → ∀ rest,
    (∀ g ∈ fieldsB c pfx ty sub, g.flatten = true → Borrows e g) ∧
    ((fieldsB c pfx ty sub).filter (·.flatten)).all (fun g => okB (readB e fuel g rest)) =
      looseMemB c.s c.q c.o ty sub rest
  | [], _, _, _, _, _ => ⟨by simp [fieldsB], rfl⟩
  | x :: xs, hsp, henv, fuel, hfuel, rest => by
    rw [envSelsS] at henv
    rw [depthsF] at hfuel
    obtain ⟨ihb, ih⟩ := accMemB pfx ty hty xs hsp.tail henv.2 fuel (by omega) rest
    rw [fieldsB_cons, List.filter_append, List.all_append, ih]
    have hb' : ∀ (l : List RField), (∀ g ∈ l, g.flatten = true → Borrows e g) →
        ∀ g ∈ l ++ fieldsB c pfx ty xs, g.flatten = true → Borrows e g := by
      intro l hl g hg hfl
      rcases List.mem_append.mp hg with hg | hg
      · exact hl g hg hfl
      · exact ihb g hg hfl
    cases x with
    | spread g =>
      obtain ⟨fr, hfr⟩ := hsp.frag g (by simp)
      rw [looseMemB.eq_2]
      simp only [fieldOfSelB, hfr]
      by_cases hon : fr.on = ty
      · rcases hsp g (by simp) with ⟨vt, fr', _, hfr', hon', hne⟩ | ⟨fr', hokB, hfr', _⟩
        · rw [hfr] at hfr'; cases hfr'
          exact absurd (hon'.symm.trans hon) hne
        · rw [hfr] at hfr'; cases hfr'
          obtain ⟨fr', hfr', _, _, hv, hokf⟩ := fragOkB_parts hokB
          rw [hfr] at hfr'; cases hfr'
          have hfe : FragEnvS e c g := henv.1
          unfold FragEnvS at hfe
          rw [hfr] at hfe
          have hisabs : fr.on.isAbstract = true := by
            rw [hon]; cases ty <;> simp_all [absHyp, TypeId.isAbstract]
          simp only [hisabs, ↓reduceIte] at hfe
          rw [hon] at hfe
          rw [depthF] at hfuel
          have hsels : fragSels c.q g = fr.sels := by simp [fragSels, hfr]
          rw [hsels] at hfuel
          have hacc := abs_accepts_iff e c (c.cs.camel fr.name) fr.name ty fr.sels hv hokf hfe.2 hfe.1 true (fuel + 1)
            (by omega) (.obj rest)
          constructor
          · apply hb'
            intro g' hg' _
            simp only [hon, beq_self_eq_true, ↓reduceIte, Option.toList, List.mem_singleton] at hg'
            subst hg'
            exact borrows_of_absEnv rfl hfe.1
          · simp [hon, spreadField, readB, hacc]
      · have hne : (fr.on == ty) = false := by simpa using hon
        have hne' : (fr.on != ty) = true := by simpa using hon
        exact ⟨hb' _ (by simp [hne]), by simp [hne, hne']⟩
    | field a fid sub =>
      constructor
      · apply hb'
        intro g hg hfl
        simp only [fieldOfSelB, fieldOfSelV] at hg
        split at hg
        · simp at hg
        · split at hg
          · simp at hg
          · simp only [Option.toList, List.mem_singleton] at hg; subst hg; simp [fieldOf] at hfl
      · have : ((fieldOfSelB c pfx ty (.field a fid sub)).toList.filter (·.flatten)) = [] := by
          simp only [fieldOfSelB, fieldOfSelV]
          split
          · rfl
          · split
            · rfl
            · simp [fieldOf]
        simp [this, looseMemB]
    | inline t sub => exact ⟨hb' _ (by simp [fieldOfSelB, fieldOfSelV]), by simp [fieldOfSelB, fieldOfSelV, looseMemB]⟩
    | typename => exact ⟨hb' _ (by simp [fieldOfSelB, fieldOfSelV]), by simp [fieldOfSelB, fieldOfSelV, looseMemB]⟩

/-- the type emitted at an abstract position accepts exactly `conformsLooseAbsS` -/
theorem accAbsS (pfx name : String) (ty : TypeId) (sub : List Sel) (H : AccSelsS e c pfx sub)
    (HI : ∀ t isub, Sel.inline t isub ∈ sub → AccSelsS e c (pfx ++ "On" ++ c.cs.camel (objName c.s t)) isub)
    (hty : absHyp c.s ty) (ht : sSels c.s c.q c.o true sub = true) (hok : absOkS c.s c.q c.o ty sub = true)
    (henv : envSelsS e c pfx sub) (hve : ∀ vt ∈ vtsOfTy c.s ty, VarEnv e c pfx vt sub)
    (hs : AbsEnv e name (fieldsB c pfx ty sub) (variantsV c pfx ty (marks c.q sub))) (b : Bool) (fd : Nat)
    (hfd : 2 * depthsF c.q sub + 3 ≤ fd) (j : Json) :
    okB (dePath e b fd name j) = conformsLooseAbsS c.s c.q c.o b ty sub j := by
  have hemp := isEmpty_fieldsB c pfx ty sub ht
  have hsp := spreadsA_abs hty hok
  unfold AbsEnv at hs
  cases hF : hasStruct c.q ty sub
  · -- the tagged enum alone
    rw [hF] at hemp
    simp only [hemp, Bool.not_false, ↓reduceIte] at hs
    obtain ⟨hp, _, n, d, cr, hfind⟩ := hs
    obtain ⟨fd', rfl⟩ : ∃ k, fd = k + 1 := ⟨fd - 1, by omega⟩
    have hF' := hF
    simp only [hasStruct, Bool.or_eq_false_iff] at hF'
    cases j with
    | obj kvs =>
      rw [dePath_tagged e b fd' name n d cr _ _ hp hfind]
      simp only [conformsLooseAbsS, absRest, hF, Bool.false_or, Bool.false_eq_true, ↓reduceIte,
        looseSelsS_nofield c.s c.q c.o b kvs sub hF'.1, looseMemB_noB c.s c.q c.o ty kvs sub hF'.2, Bool.true_and]
      exact okB_tagged c pfx ty (marks c.q sub) _ b _ kvs
        (fun vt hvt => accVariantS e c pfx ty sub HI hty ht hok henv vt hvt (hve vt hvt) fd' (by omega) _)
    | arr xs => unfold dePath; simp only [dePrim_none hp, hfind]; rfl
    | null => unfold dePath; simp only [dePrim_none hp, hfind]; rfl
    | bool _ => unfold dePath; simp only [dePrim_none hp, hfind]; rfl
    | int _ => unfold dePath; simp only [dePrim_none hp, hfind]; rfl
    | num _ => unfold dePath; simp only [dePrim_none hp, hfind]; rfl
    | str _ => unfold dePath; simp only [dePrim_none hp, hfind]; rfl
  · -- struct with the interface-level fields, the flattened fragment members and the flattened `on`
    rw [hF] at hemp
    simp only [hemp, Bool.not_true, Bool.false_eq_true, ↓reduceIte] at hs
    obtain ⟨⟨hp, _, n, d, cr, hfind⟩, hsT⟩ := hs
    obtain ⟨hpT, _, n', d', cr', hfind'⟩ := hsT
    obtain ⟨fd', rfl⟩ : ∃ k, fd = k + 2 := ⟨fd - 2, by omega⟩
    obtain ⟨H1, _⟩ := H true ht henv b (fd' + 1) (by omega)
    have hpl := plain_fieldsOfV c pfx sub
    have hany : (fieldsB c pfx ty sub ++ [onField name]).any (·.flatten) = true := by simp [onField]
    rw [dePath_struct e b (fd' + 1) name n d cr _ hp hfind]
    cases j with
    | obj kvs =>
      obtain ⟨hbm, hmem⟩ := accMemB e c pfx ty hty sub hsp henv fd' (by omega) (absRest c.s c.q ty sub kvs)
      have hb : ∀ g ∈ fieldsB c pfx ty sub ++ [onField name], g.flatten = true → Borrows e g := by
        intro g hg hfl
        rcases List.mem_append.mp hg with hg | hg
        · exact hbm g hg hfl
        · simp only [List.mem_singleton] at hg
          subst hg
          exact ⟨name ++ "On", rfl, hpT, .inl ⟨n', d', cr', _, _, hfind'⟩⟩
      have hown : (fieldsB c pfx ty sub ++ [onField name]).filter (fun f => !f.flatten) = fieldsOfV c pfx sub := by
        rw [List.filter_append, own_fieldsB c pfx ty sub ht]; simp [onField]
      have hfl : (fieldsB c pfx ty sub ++ [onField name]).filter (·.flatten) =
          (fieldsB c pfx ty sub).filter (·.flatten) ++ [onField name] := by
        rw [List.filter_append]; simp [onField]
      have hrest : kvs.filter (fun kv => !((fieldsOfV c pfx sub).map (·.wire)).contains kv.1) =
          absRest c.s c.q ty sub kvs := by
        rw [wire_fieldsOfS c pfx true sub ht]; simp [absRest, hF]
      rw [deStruct_obj, deStructMap_borrow e fd' _ _ kvs hany hb, okB_bind2, hown, okB_deOwn' _ _ _ hpl, H1 kvs,
        okB_borrowVals, hfl, List.all_append, hrest, hmem]
      simp only [conformsLooseAbsS, hF, Bool.true_or, List.all_cons, List.all_nil, Bool.and_true, Bool.and_assoc]
      congr 2
      rw [show readB e fd' (onField name) (absRest c.s c.q ty sub kvs) =
        dePath e true (fd' + 1) (name ++ "On") (.obj (absRest c.s c.q ty sub kvs)) from rfl,
        dePath_tagged e true fd' _ n' d' cr' _ _ hpT hfind']
      exact okB_tagged c pfx ty (marks c.q sub) _ true _ _
        (fun vt hvt => accVariantS e c pfx ty sub HI hty ht hok henv vt hvt (hve vt hvt) fd' (by omega) _)
    | arr xs => simp only [deStructWith, hany, ↓reduceIte]; rfl
    | null => rfl
    | bool _ => rfl
    | int _ => rfl
    | num _ => rfl
    | str _ => rfl

end AccS

section AccS2
variable (e : Env) (c : Ctx)

/-- a lone spread of a fragment on the abstract type itself: the type alias of the fragment's type accepts what that type
    accepts -/
theorem accAliasB (name : String) (ty : TypeId) (g : Nat) (fr : RFragment) (hfr : c.q.fragments[g]? = some fr)
    (hty : absHyp c.s ty) (hok : fragOkB c.s c.q c.o ty g = true)
    (ha : AliasEnv e name (fragName c g)) (hf : FragEnvS e c g) (b : Bool) (fd : Nat)
    (hfd : 2 * selsDepth fr.sels + 4 ≤ fd) (j : Json) :
    okB (dePath e b fd name j) = conformsLooseAbs c.s c.o b ty fr.sels j := by
  obtain ⟨fr', hfr', hon, _, hv, hokf⟩ := fragOkB_parts hok
  rw [hfr] at hfr'; cases hfr'
  obtain ⟨hp, _, n, pub, hfind⟩ := ha
  unfold FragEnvS at hf
  rw [hfr] at hf
  have hisabs : fr.on.isAbstract = true := by
    rw [hon]; cases ty <;> simp_all [absHyp, TypeId.isAbstract]
  rw [hon] at hisabs
  simp only [hon, hisabs, ↓reduceIte] at hf
  have hname : fragName c g = fr.name := by simp [fragName, hfr]
  rw [hname] at hfind
  obtain ⟨fd', rfl⟩ : ∃ k, fd = k + 1 := ⟨fd - 1, by omega⟩
  have : dePath e b (fd' + 1) name j = dePath e b fd' fr.name j := by
    rw [dePath]; simp only [dePrim_none hp, hfind, deTyWith]
  rw [this]
  exact abs_accepts_iff e c _ _ ty fr.sels hv hokf hf.2 hf.1 b fd' (by omega) j

mutual
  theorem accSelS : ∀ (x : Sel) (pfx : String), AccSelS e c pfx x
    | .field a fid sub, pfx => by
      intro abs ht henv f hf b fd hfd v
      have IH := accSelsS sub
      have IHI := accInlS sub
      rw [depthF] at hfd
      obtain ⟨fd', rfl⟩ : ∃ k, fd = k + 3 := ⟨fd - 3, by omega⟩
      rw [sSel] at ht
      rw [envSelS] at henv
      rw [looseFieldS]
      cases hsf : c.s.fields[fid]? with
      | none => simp [hsf] at ht
      | some sf =>
        simp only [hsf, Bool.and_eq_true] at ht henv ⊢
        obtain ⟨⟨hw, _⟩, hty⟩ := ht
        have hwf : wf (gtyOf sf.ty.quals) = true := by rw [wf_gtyOf]; exact hw
        cases hid : sf.ty.id with
        | scalar k =>
          simp only [hid, Bool.and_eq_true] at hty henv ⊢
          cases hk : c.s.scalars[k]? with
          | none => simp [hk] at hty
          | some sn =>
            simp only [hk] at henv ⊢
            simp only [fieldOfSelV, hsf, leafNameV, hid, hk, Option.some.injEq] at hf
            subst hf
            by_cases hID : sn = "ID"
            · subst hID
              rw [deField_id, C16.id_field_iff _ hwf]
              simp [scalarOk]
            · rw [deField_plain _ _ _ _ hID]
              exact (ok_iff_accepts _ sn (scalarOk sn) (leaf_scalar e sn henv hID b fd') _ hwf).2 v
        | «enum» k =>
          simp only [hid, Bool.and_eq_true] at hty henv ⊢
          cases hk : c.s.enums[k]? with
          | none => simp [hk] at hty
          | some en =>
            simp only [hk] at henv ⊢
            simp only [fieldOfSelV, hsf, leafNameV, hid, hk, Option.some.injEq, Option.map_some] at hf
            subst hf
            obtain ⟨hp, hID, n', d, sp, vs, ser, de, hfind, _⟩ := henv
            rw [deField_plain _ _ _ _ hID]
            exact (ok_iff_accepts _ en.name stringOk
              (leaf_enum e b (fd' + 2) en.name n' d sp vs ser de hp hfind) _ hwf).2 v
        | object i =>
          simp only [hid, Bool.and_eq_true] at hty henv ⊢
          cases hk : c.s.objects[i]? with
          | none => simp [hk] at hty
          | some o =>
            simp only [hk]
            simp only [fieldOfSelV, hsf, leafNameV, hid, Option.some.injEq] at hf
            subst hf
            obtain ⟨hs, hesub⟩ := henv
            rw [deField_plain _ _ _ _ hs.2.1, looseLambdaS]
            exact (ok_iff_accepts _ _ (conformsLooseS c.s c.q c.o b sub)
              (accStructS e c _ _ sub (IH _) false hty.1.2 hesub hs b (fd' + 3) (by omega)) _ hwf).2 v
        | interface k =>
          simp only [hid, Bool.and_eq_true] at hty henv ⊢
          simp only [fieldOfSelV, hsf, leafNameV, hid, Option.some.injEq] at hf
          subst hf
          rcases absOkL_cases hty.2 with ⟨hok, hlg⟩ | ⟨g, rfl, hokB⟩
          · simp only [hlg] at henv ⊢
            obtain ⟨hs, hve, hesub⟩ := henv
            have hID : pfx ++ c.cs.camel (a.getD sf.name) ≠ "ID" := by
              unfold AbsEnv at hs; split at hs
              · exact hs.2.1
              · exact hs.1.2.1
            rw [deField_plain _ _ _ _ hID, looseLambdaAbsS]
            exact (ok_iff_accepts _ _ (conformsLooseAbsS c.s c.q c.o b (.interface k) sub)
              (accAbsS e c _ _ (.interface k) sub (IH _) (fun t isub hm => IHI t isub hm _) hty.1.1 hty.1.2 hok hesub hve hs b
                (fd' + 3) (by omega)) _ hwf).2 v
          · simp only [loneG_lone] at henv ⊢
            obtain ⟨fr, hfr, _⟩ := fragOkB_parts hokB
            simp only [hfr]
            rw [deField_plain _ _ _ _ henv.1.2.1]
            have hdep : depthsF c.q [Sel.spread g] = selsDepth fr.sels + 1 := by simp [depthsF, depthF, fragSels, hfr]
            rw [hdep] at hfd
            exact (ok_iff_accepts _ _ (conformsLooseAbs c.s c.o b (.interface k) fr.sels)
              (accAliasB e c _ (.interface k) g fr hfr hty.1.1 hokB henv.1 henv.2 b (fd' + 3) (by omega)) _ hwf).2 v
        | union k =>
          simp only [hid, Bool.and_eq_true] at hty henv ⊢
          simp only [fieldOfSelV, hsf, leafNameV, hid, Option.some.injEq] at hf
          subst hf
          rcases absOkL_cases hty.2 with ⟨hok, hlg⟩ | ⟨g, rfl, hokB⟩
          · simp only [hlg] at henv ⊢
            obtain ⟨hs, hve, hesub⟩ := henv
            have hID : pfx ++ c.cs.camel (a.getD sf.name) ≠ "ID" := by
              unfold AbsEnv at hs; split at hs
              · exact hs.2.1
              · exact hs.1.2.1
            rw [deField_plain _ _ _ _ hID, looseLambdaAbsS]
            exact (ok_iff_accepts _ _ (conformsLooseAbsS c.s c.q c.o b (.union k) sub)
              (accAbsS e c _ _ (.union k) sub (IH _) (fun t isub hm => IHI t isub hm _) hty.1.1 hty.1.2 hok hesub hve hs b
                (fd' + 3) (by omega)) _ hwf).2 v
          · simp only [loneG_lone] at henv ⊢
            obtain ⟨fr, hfr, _⟩ := fragOkB_parts hokB
            simp only [hfr]
            rw [deField_plain _ _ _ _ henv.1.2.1]
            have hdep : depthsF c.q [Sel.spread g] = selsDepth fr.sels + 1 := by simp [depthsF, depthF, fragSels, hfr]
            rw [hdep] at hfd
            exact (ok_iff_accepts _ _ (conformsLooseAbs c.s c.o b (.union k) fr.sels)
              (accAliasB e c _ (.union k) g fr hfr hty.1.1 hokB henv.1 henv.2 b (fd' + 3) (by omega)) _ hwf).2 v
        | input k => simp [hid] at hty
    | .spread g, pfx => by intro _ _ _ f hf; cases hf
    | .inline t sub, pfx => by intro _ _ _ f hf; cases hf
    | .typename, pfx => by intro _ _ _ f hf; cases hf
  theorem accSelsS : ∀ (sels : List Sel) (pfx : String), AccSelsS e c pfx sels
    | [], pfx => by
      intro _ _ _ b fd _
      exact ⟨fun kvs => by simp [fieldsOfV, looseSelsS], fun xs => by simp [fieldsOfV, looseArrS]⟩
    | x :: xs, pfx => by
      intro abs ht henv b fd hfd
      obtain ⟨hx, hxs⟩ := sSels_cons ht
      rw [envSelsS] at henv
      rw [depthsF] at hfd
      obtain ⟨I1, I2⟩ := accSelsS xs pfx abs hxs henv.2 b fd (by omega)
      have IX := accSelS x pfx abs hx henv.1
      cases x with
      | field a fid sub =>
        obtain ⟨sf, ft, hsf, _, hf, hw⟩ := fieldOfSelV_s c pfx abs a fid sub hx
        have IXf := IX _ hf b fd (by omega)
        have hfs := fieldsOfV_cons_field c pfx _ xs _ hf
        refine ⟨fun kvs => ?_, fun vs => ?_⟩
        · rw [hfs, List.all_cons, I1 kvs, looseSelsS.eq_2]
          simp only [hsf, fieldOf_wire, readField]
          cases hl : Json.lookup (a.getD sf.name) kvs with
          | none => simp only [missing_fieldOf]
          | some v => simp only [IXf v]
        · rw [hfs]
          cases vs with
          | nil => rw [looseArrS.eq_2]; simp
          | cons v vs' =>
            rw [looseArrS.eq_3]
            simp only [List.length_cons, List.zip_cons_cons, List.all_cons, IXf v, ← I2 vs',
              Nat.add_le_add_iff_right]
            cases looseFieldS c.s c.q c.o b (.field a fid sub) v <;> simp
      | spread g =>
        have hfs := fieldsOfV_cons_none c pfx (.spread g) xs rfl
        refine ⟨fun kvs => ?_, fun vs => ?_⟩
        · rw [hfs, I1 kvs]; simp [looseSelsS]
        · rw [hfs, I2 vs]; simp [looseArrS]
      | inline t sub =>
        have hfs := fieldsOfV_cons_none c pfx (.inline t sub) xs rfl
        refine ⟨fun kvs => ?_, fun vs => ?_⟩
        · rw [hfs, I1 kvs]; simp [looseSelsS]
        · rw [hfs, I2 vs]; simp [looseArrS]
      | typename =>
        have hfs := fieldsOfV_cons_none c pfx .typename xs rfl
        refine ⟨fun kvs => ?_, fun vs => ?_⟩
        · rw [hfs, I1 kvs]; simp [looseSelsS]
        · rw [hfs, I2 vs]; simp [looseArrS]
  /-- the bodies of the inline fragments of a selection set -/
  theorem accInlS : ∀ (sels : List Sel) (t : TypeId) (isub : List Sel), Sel.inline t isub ∈ sels →
      ∀ pfx, AccSelsS e c pfx isub
    | [], _, _, h => by simp at h
    | x :: xs, t, isub, hm => by
      rcases List.mem_cons.mp hm with heq | hm'
      · cases x with
        | inline t' isub' =>
          cases heq
          exact fun pfx => accSelsS isub pfx
        | field a fid sub => cases heq
        | spread g => cases heq
        | typename => cases heq
      · exact accInlS xs t isub hm'
end

end AccS2

/-- the struct named `name` emitted for the object-level selection set `sels` accepts exactly `conformsLooseS` -/
theorem structS_accepts_iff (e : Env) (c : Ctx) (pfx name : String) (sels : List Sel) (abs : Bool)
    (ht : sSels c.s c.q c.o abs sels = true) (henv : envSelsS e c pfx sels)
    (hs : StructEnv e name (fieldsOfV c pfx sels)) (b : Bool) (fd : Nat) (hfd : 2 * depthsF c.q sels + 2 ≤ fd) (j : Json) :
    okB (dePath e b fd name j) = conformsLooseS c.s c.q c.o b sels j :=
  accStructS e c pfx name sels (accSelsS e c sels pfx) abs ht henv hs b fd hfd j

/-- the type emitted at an abstract position accepts exactly `conformsLooseAbsS` -/
theorem absS_accepts_iff (e : Env) (c : Ctx) (pfx name : String) (ty : TypeId) (sub : List Sel)
    (hty : absHyp c.s ty) (ht : sSels c.s c.q c.o true sub = true) (hok : absOkS c.s c.q c.o ty sub = true)
    (henv : envSelsS e c pfx sub) (hve : ∀ vt ∈ vtsOfTy c.s ty, VarEnv e c pfx vt sub)
    (hs : AbsEnv e name (fieldsB c pfx ty sub) (variantsV c pfx ty (marks c.q sub))) (b : Bool) (fd : Nat)
    (hfd : 2 * depthsF c.q sub + 3 ≤ fd) (j : Json) :
    okB (dePath e b fd name j) = conformsLooseAbsS c.s c.q c.o b ty sub j :=
  accAbsS e c pfx name ty sub (accSelsS e c sub pfx) (fun t isub hm => accInlS e c sub t isub hm _) hty ht hok henv hve
    hs b fd hfd j


/-! ## strict ⇒ loose (specification: `conformsV` on the selection set with every spread expanded) -/

/-- the own-field predicate only looks at the keys of the `.field` selections -/
theorem looseSelsS_filter (s : Schema) (q : Query) (o : Options) (b : Bool) (p : String × Json → Bool)
    (kvs : List (String × Json)) : ∀ (sels : List Sel), (∀ k ∈ fieldKeys s sels, ∀ v, p (k, v) = true) →
      looseSelsS s q o b sels (kvs.filter p) = looseSelsS s q o b sels kvs
  | [], _ => by simp [looseSelsS]
  | x :: xs, h => by
    cases x with
    | field a fid sub =>
      rw [looseSelsS.eq_2, looseSelsS.eq_2]
      cases hsf : s.fields[fid]? with
      | none => rfl
      | some sf =>
        have hk : ∀ v, p (a.getD sf.name, v) = true := h _ (by simp [fieldKeys, fieldKey, hsf, List.filterMap_cons])
        have ih := looseSelsS_filter s q o b p kvs xs (fun k hk' => h k (by
          simp only [fieldKeys, List.filterMap_cons, fieldKey, hsf, Option.map_some] at hk' ⊢
          exact List.mem_cons_of_mem _ hk'))
        simp only [countKey_filter p _ hk, lookup_filter p _ hk, ih]
    | spread g =>
      have ih := looseSelsS_filter s q o b p kvs xs (fun k hk' => h k (by simpa [fieldKeys, List.filterMap_cons, fieldKey] using hk'))
      simpa [looseSelsS] using ih
    | inline t sub =>
      have ih := looseSelsS_filter s q o b p kvs xs (fun k hk' => h k (by simpa [fieldKeys, List.filterMap_cons, fieldKey] using hk'))
      simpa [looseSelsS] using ih
    | typename =>
      have ih := looseSelsS_filter s q o b p kvs xs (fun k hk' => h k (by simpa [fieldKeys, List.filterMap_cons, fieldKey] using hk'))
      simpa [looseSelsS] using ih

theorem expandSels_typename (q : Query) {sub : List Sel} (h : sub.any isTypename = true) :
    Sel.typename ∈ expandSels q sub := by
  have := expandSels_mem q (typename_mem h)
  simpa [expandSel] using this

section SLS
variable (s : Schema) (q : Query) (o : Options)

def SLSelsS (sels : List Sel) : Prop :=
  ∀ abs b rt kvs, sSels s q o abs sels = true → (∀ k, countKey k kvs ≤ 1) →
    confSelsV s rt (expandSels q sels) kvs = true → looseSelsS s q o b sels kvs = true

def SLPayS (sels : List Sel) : Prop :=
  ∀ rt kvs rest, sSels s q o true sels = true → (∀ k, countKey k kvs ≤ 1) →
    confSelsV s rt (expandSels q sels) kvs = true →
    (∀ t isub, Sel.inline t isub ∈ sels → t = .object rt →
      looseSelsS s q o true isub rest = looseSelsS s q o true isub kvs) →
    loosePayS s q o (.object rt) sels rest = true

/-- the flattened members of the variant of the runtime type accept the entries of a conforming response object -/
theorem slMemS (rt : Nat) (kvs rest : List (String × Json)) (hc : ∀ k, countKey k kvs ≤ 1) : ∀ (sels : List Sel),
    (∀ g f, Sel.spread g ∈ sels → q.fragments[g]? = some f → f.on = .object rt → fragOk s q o (.object rt) g = true) →
    confSelsV s rt (expandSels q sels) kvs = true →
    (∀ g f, Sel.spread g ∈ sels → q.fragments[g]? = some f → f.on = .object rt →
      looseSelsV s o true f.sels rest = looseSelsV s o true f.sels kvs) →
    looseMemS s q o (.object rt) sels rest = true
  | [], _, _, _ => by simp [looseMemS]
  | x :: xs, hsp, h, heq => by
    rw [expandSels, confSelsV, Bool.and_eq_true] at h
    have ih := slMemS rt kvs rest hc xs (fun g f hg => hsp g f (List.mem_cons_of_mem _ hg)) h.2
      (fun g f hm => heq g f (List.mem_cons_of_mem _ hm))
    cases x with
    | spread g =>
      rw [looseMemS.eq_2, ih, Bool.and_true]
      cases hfr : q.fragments[g]? with
      | none => rfl
      | some fr =>
        simp only []
        by_cases htv : fr.on = .object rt
        · have hok := hsp g fr (by simp) hfr htv
          obtain ⟨fr', hfr', _, _, hv, _⟩ := fragOk_parts hok
          rw [hfr] at hfr'; cases hfr'
          have h1 := h.1
          simp only [expandSel, hfr, confSelV, htv, fragApplies, beq_self_eq_true, Bool.not_true, Bool.false_or] at h1
          rw [heq g fr (by simp) hfr htv, slSels s o fr.sels false true rt kvs hv hc h1]
          simp
        · have : (fr.on != TypeId.object rt) = true := by simpa using htv
          simp [this]
    | field a fid sub => simpa [looseMemS] using ih
    | inline t sub => simpa [looseMemS] using ih
    | typename => simpa [looseMemS] using ih

mutual
  /-- `confSelV` only looks at the entries under the field keys of the selection (those inside inline fragments
      included) and under `__typename` -/
  theorem confSelV_filter (rt : Nat) (p : String × Json → Bool) (kvs : List (String × Json))
      (hpt : ∀ v, p ("__typename", v) = true) : ∀ (x : Sel), (∀ k ∈ deepKey s x, ∀ v, p (k, v) = true) →
      confSelV s rt x (kvs.filter p) = confSelV s rt x kvs
    | .field a fid sub => by
      intro h
      rw [confSelV_field, confSelV_field]
      cases hsf : s.fields[fid]? with
      | none => rfl
      | some sf =>
        have hk : ∀ v, p (a.getD sf.name, v) = true := h _ (by simp [deepKey, hsf])
        simp only [lookup_filter p _ hk]
    | .typename => by
      intro _
      simp only [confSelV, lookup_filter p _ hpt]
    | .inline t isub => by
      intro h
      rw [deepKey] at h
      simp only [confSelV, confSelsV_filter rt p kvs hpt isub h]
    | .spread g => by intro _; simp [confSelV]
  theorem confSelsV_filter (rt : Nat) (p : String × Json → Bool) (kvs : List (String × Json))
      (hpt : ∀ v, p ("__typename", v) = true) : ∀ (sels : List Sel), (∀ k ∈ deepKeys s sels, ∀ v, p (k, v) = true) →
      confSelsV s rt sels (kvs.filter p) = confSelsV s rt sels kvs
    | [] => by intro _; simp [confSelsV]
    | x :: xs => by
      intro h
      rw [deepKeys] at h
      rw [confSelsV, confSelsV, confSelV_filter rt p kvs hpt x (fun k hk => h k (List.mem_append_left _ hk)),
        confSelsV_filter rt p kvs hpt xs (fun k hk => h k (List.mem_append_right _ hk))]
end

/-- `strict_loose_abs` of `C01AbstractB` from what its proof uses: pairwise distinct keys and `confSelsV` (not that every
    key is a selected one — a fragment on the abstract type reads an object that also carries its siblings' keys) -/
theorem strict_loose_abs_w (ty : TypeId) (sub : List Sel) (hty : absHyp s ty) (ht : vSels s o true sub = true)
    (hok : absOk s o ty sub = true) (b : Bool) (rt : Nat) (kvs : List (String × Json)) (hrt : rt < s.objects.length)
    (happ : fragApplies s rt ty = true) (hnd : (kvs.map (·.1)).Nodup) (hconf : confSelsV s rt sub kvs = true) :
    conformsLooseAbs s o b ty sub (.obj kvs) = true := by
  obtain ⟨htn, hrk, hobj, _, hvn, _, _, hexcl⟩ := absOk_parts hok
  have hcnt := countKey_le_one_of_nodup hnd
  have hown := slSels s o sub true b rt kvs ht hcnt hconf
  have htag : Json.lookup "__typename" kvs = some (.str (rtName s rt)) := by
    have := confSelsV_mem hconf _ (typename_mem htn)
    simp only [confSelV] at this
    split at this
    · rename_i n hl; rw [hl]; simp only [beq_iff_eq] at this; rw [this]
    · cases this
  have hnf := typename_not_fieldKey s sub htn hrk
  have hq : ∀ v : Json, (fun kv : String × Json => !(fieldKeys s sub).contains kv.1) ("__typename", v) = true := by
    intro v; simpa using hnf
  obtain ⟨kvs2, hkvs2, hq2⟩ : ∃ kvs2, kvs2 = (if sub.any isFieldSel then
      kvs.filter (fun kv => !(fieldKeys s sub).contains kv.1) else kvs) ∧
      ∃ p : String × Json → Bool, kvs2 = kvs.filter p ∧ (∀ v, p ("__typename", v) = true) ∧
        (∀ t isub, Sel.inline t isub ∈ sub → ∀ k ∈ fieldKeys s isub, ∀ v, p (k, v) = true) := by
    refine ⟨_, rfl, ?_⟩
    cases sub.any isFieldSel
    · exact ⟨fun _ => true, (List.filter_eq_self.mpr (fun _ _ => rfl)).symm, fun _ => rfl, fun _ _ _ _ _ _ => rfl⟩
    · refine ⟨_, rfl, hq, ?_⟩
      intro t isub hm k hk v
      have := hexcl t isub hm k hk
      have : k ∉ fieldKeys s sub := fun h' => this (fieldKeys_sub_respKeys s sub k h')
      simpa using this
  obtain ⟨p, rfl, hqt, hqi⟩ := hq2
  have hl2 : Json.lookup "__typename" (kvs.filter p) = some (.str (rtName s rt)) := by
    rw [lookup_filter p _ hqt]; exact htag
  have hc2 : countKey "__typename" (kvs.filter p) = 1 := by
    rw [countKey_filter p _ hqt]
    have := countKey_pos_of_lookup htag
    have := hcnt "__typename"
    omega
  have hmem := mem_vtsOfTy happ hrt hty
  have hfind : (vtsOfTy s ty).find? (fun vt => objName s vt == rtName s rt) = some (.object rt) := by
    have hnd' : ((vtsOfTy s ty).map (objName s)).Nodup := by
      unfold variantNames at hvn
      exact (List.nodup_append.mp hvn).1
    exact find_by_name s _ hnd' _ hmem
  simp only [conformsLooseAbs, hown, Bool.true_and, ← hkvs2]
  unfold tagOkV
  simp only [hc2, hl2, hfind]
  apply slPay s o sub rt kvs _ ht hcnt hconf
  intro t isub hm _
  rw [List.filter_filter]
  apply looseSelsV_filter
  intro k hk v
  have h1 := hqi t isub hm k hk v
  have h2 : k ≠ "__typename" := by
    intro heq
    have := hexcl t isub hm k hk
    rw [heq] at this
    exact this (List.mem_filterMap.mpr ⟨_, typename_mem htn, rfl⟩)
  simp [h1, h2]

/-- the members for fragments on the abstract type itself accept what the own fields left of a conforming response
    object (`p` keeps `__typename` and every key of such a fragment) -/
theorem slMemB (ty : TypeId) (hty : absHyp s ty) (rt : Nat) (hrt : rt < s.objects.length)
    (happ : fragApplies s rt ty = true) (kvs : List (String × Json)) (hnd : (kvs.map (·.1)).Nodup)
    (p : String × Json → Bool) (hpt : ∀ v, p ("__typename", v) = true) : ∀ (sels : List Sel),
    (∀ g f, Sel.spread g ∈ sels → q.fragments[g]? = some f → f.on = ty →
      fragOkB s q o ty g = true ∧ ∀ k ∈ deepKeys s f.sels, ∀ v, p (k, v) = true) →
    confSelsV s rt (expandSels q sels) kvs = true →
    looseMemB s q o ty sels (kvs.filter p) = true
  | [], _, _ => by simp [looseMemB]
  | x :: xs, hsp, h => by
    rw [expandSels, confSelsV, Bool.and_eq_true] at h
    have ih := slMemB ty hty rt hrt happ kvs hnd p hpt xs (fun g f hg => hsp g f (List.mem_cons_of_mem _ hg)) h.2
    cases x with
    | spread g =>
      rw [looseMemB.eq_2, ih, Bool.and_true]
      cases hfr : q.fragments[g]? with
      | none => rfl
      | some fr =>
        simp only []
        by_cases htv : fr.on = ty
        · obtain ⟨hokB, hkeep⟩ := hsp g fr (by simp) hfr htv
          obtain ⟨fr', hfr', _, _, hv, hokf⟩ := fragOkB_parts hokB
          rw [hfr] at hfr'; cases hfr'
          have h1 := h.1
          simp only [expandSel, hfr, confSelV, htv, happ, Bool.not_true, Bool.false_or] at h1
          have h2 : confSelsV s rt fr.sels (kvs.filter p) = true := by
            rw [confSelsV_filter s rt p kvs hpt fr.sels hkeep]; exact h1
          rw [strict_loose_abs_w s o ty fr.sels hty hv hokf true rt (kvs.filter p) hrt happ
            ((List.filter_sublist.map _).nodup hnd) h2]
          simp
        · have : (fr.on != ty) = true := by simpa using htv
          simp [this]
    | field a fid sub => simpa [looseMemB] using ih
    | inline t sub => simpa [looseMemB] using ih
    | typename => simpa [looseMemB] using ih

/-- a response object conforming at an abstract position (spreads expanded) is accepted there -/
theorem strict_loose_absS (ty : TypeId) (sub : List Sel) (IHs : SLSelsS s q o sub) (IHp : SLPayS s q o sub)
    (hty : absHyp s ty) (ht : sSels s q o true sub = true) (hok : absOkS s q o ty sub = true) (b : Bool) (j : Json)
    (h : conformsAt s ty (expandSels q sub) j = true) : conformsLooseAbsS s q o b ty sub j = true := by
  obtain ⟨hok1, hsp, _⟩ := absOkS_parts hok
  obtain ⟨htn, hrk, hobj, _, hvn, _, _, hexcl⟩ := absOk2_parts hok1
  simp only [conformsAt, List.any_eq_true, List.mem_range, Bool.and_eq_true] at h
  obtain ⟨rt, hrt, happ, hc⟩ := h
  cases j with
  | obj kvs =>
    simp only [conformsV, Bool.and_eq_true] at hc
    obtain ⟨⟨hnd, _⟩, hconf⟩ := hc
    have hnd' := nodup_iff'.mp hnd
    have hcnt := countKey_le_one_of_nodup hnd'
    have hown := IHs true b rt kvs ht hcnt hconf
    -- the tag entry
    have htag : Json.lookup "__typename" kvs = some (.str (rtName s rt)) := by
      have := confSelsV_mem hconf _ (expandSels_typename q htn)
      simp only [confSelV] at this
      split at this
      · rename_i n hl; rw [hl]; simp only [beq_iff_eq] at this; rw [this]
      · cases this
    have hnf := typename_not_fieldKey s sub htn hrk
    have hq : ∀ v : Json, (fun kv : String × Json => !(fieldKeys s sub).contains kv.1) ("__typename", v) = true := by
      intro v; simpa using hnf
    -- the entries the flattened members see
    obtain ⟨p, hp, hqt, hqi⟩ : ∃ p : String × Json → Bool, absRest s q ty sub kvs = kvs.filter p ∧
        (∀ v, p ("__typename", v) = true) ∧ (∀ k, k ∉ fieldKeys s sub → ∀ v, p (k, v) = true) := by
      unfold absRest
      cases hasStruct q ty sub
      · exact ⟨fun _ => true, (List.filter_eq_self.mpr (fun _ _ => rfl)).symm, fun _ => rfl, fun _ _ _ => rfl⟩
      · refine ⟨_, rfl, hq, ?_⟩
        intro k hk v
        simpa using hk
    have hl2 : Json.lookup "__typename" (kvs.filter p) = some (.str (rtName s rt)) := by
      rw [lookup_filter p _ hqt]; exact htag
    have hc2 : countKey "__typename" (kvs.filter p) = 1 := by
      rw [countKey_filter p _ hqt]
      have := countKey_pos_of_lookup htag
      have := hcnt "__typename"
      omega
    have hmem := mem_vtsOfTy happ hrt hty
    have hfind : (vtsOfTy s ty).find? (fun vt => objName s vt == rtName s rt) = some (.object rt) := by
      have hnd' : ((vtsOfTy s ty).map (objName s)).Nodup := by
        unfold variantNames at hvn
        exact (List.nodup_append.mp hvn).1
      exact find_by_name s _ hnd' _ hmem
    have htyn : "__typename" ∈ respKeys s sub := List.mem_filterMap.mpr ⟨_, typename_mem htn, rfl⟩
    have hnr : ∀ k, k ∉ respKeys s sub → k ∉ fieldKeys s sub :=
      fun k hk h' => hk (fieldKeys_sub_respKeys s sub k h')
    simp only [conformsLooseAbsS, hown, Bool.true_and, hp, Bool.and_eq_true]
    refine ⟨?_, ?_⟩
    · -- the members for fragments on the abstract type itself
      apply slMemB s q o ty hty rt hrt happ kvs hnd' p hqt sub _ hconf
      intro g f hg hf hon
      rcases hsp g hg with ⟨vt, f', hvt, _, hf', hon', _⟩ | ⟨f', hokB, hf', _, hkeys⟩
      · rw [hf] at hf'; cases hf'
        obtain ⟨i, rfl, _⟩ := hobj vt hvt
        exact absurd (hon'.symm.trans hon) (obj_ne_abs hty i)
      · rw [hf] at hf'; cases hf'
        exact ⟨hokB, fun k hk v => hqi k (hkeys k hk) v⟩
    · unfold tagOkV
      simp only [hc2, hl2, hfind, Bool.and_eq_true]
      constructor
      · apply IHp rt kvs _ ht hcnt hconf
        intro t isub hm _
        rw [List.filter_filter]
        apply looseSelsS_filter
        intro k hk v
        have hnk := hexcl t isub hm k hk
        have h1 := hqi k (hnr k hnk) v
        have h2 : k ≠ "__typename" := fun heq => hnk (heq ▸ htyn)
        simp [h1, h2]
      · apply slMemS s q o rt kvs _ hcnt sub _ hconf
        · intro g f hm hf hrtobj
          rcases hsp g hm with ⟨vt, f', _, _, hf', _, hkeys⟩ | ⟨f', _, hf', hon', _⟩
          · rw [hf] at hf'; cases hf'
            rw [List.filter_filter]
            apply looseSelsV_filter
            intro k hk v
            have hnk := hkeys k hk
            have h1 := hqi k (hnr k hnk) v
            have h2 : k ≠ "__typename" := fun heq => hnk (heq ▸ htyn)
            simp [h1, h2]
          · rw [hf] at hf'; cases hf'
            exact absurd (hrtobj.symm.trans hon') (obj_ne_abs hty rt)
        · intro g f hm hf hon
          rcases hsp g hm with ⟨vt, f', _, hfok, hf', hon', _⟩ | ⟨f', _, hf', hon', _⟩
          · rw [hf] at hf'; cases hf'
            rw [hon] at hon'; subst hon'
            exact hfok
          · rw [hf] at hf'; cases hf'
            exact absurd (hon.symm.trans hon') (obj_ne_abs hty rt)
  | null => simp [conformsV] at hc
  | bool _ => simp [conformsV] at hc
  | int _ => simp [conformsV] at hc
  | num _ => simp [conformsV] at hc
  | str _ => simp [conformsV] at hc
  | arr _ => simp [conformsV] at hc

/-- a response object conforming at an abstract position that is a lone spread of a fragment on the type itself is accepted
    by the fragment's own type -/
theorem slLoneB (ty : TypeId) (hty : absHyp s ty) (g : Nat) (fr : RFragment) (hfr : q.fragments[g]? = some fr)
    (hok : fragOkB s q o ty g = true) (b : Bool) (j : Json)
    (h : conformsAt s ty (expandSels q [Sel.spread g]) j = true) : conformsLooseAbs s o b ty fr.sels j = true := by
  obtain ⟨fr', hfr', hon, _, hv, hokf⟩ := fragOkB_parts hok
  rw [hfr] at hfr'; cases hfr'
  simp only [conformsAt, List.any_eq_true, List.mem_range, Bool.and_eq_true] at h
  obtain ⟨rt, hrt, happ, hc⟩ := h
  cases j with
  | obj kvs =>
    simp only [conformsV, Bool.and_eq_true] at hc
    obtain ⟨⟨hnd, _⟩, hconf⟩ := hc
    simp only [expandSels, expandSel, hfr, confSelsV, confSelV, hon, happ, Bool.not_true, Bool.false_or,
      Bool.and_true] at hconf
    exact strict_loose_abs_w s o ty fr.sels hty hv hokf b rt kvs hrt happ (nodup_iff'.mp hnd) hconf
  | null => simp [conformsV] at hc
  | bool _ => simp [conformsV] at hc
  | int _ => simp [conformsV] at hc
  | num _ => simp [conformsV] at hc
  | str _ => simp [conformsV] at hc
  | arr _ => simp [conformsV] at hc

mutual
  theorem slFieldS : ∀ (x : Sel) (abs b : Bool) (v : Json), sSel s q o abs x = true →
      strictFieldV s (expandSel q x) v = true → looseFieldS s q o b x v = true
    | .field a fid sub, abs, b, v => by
      intro ht h
      have IHs := slSelsS sub
      have IHp := slPayS sub
      rw [sSel] at ht
      simp only [expandSel, strictFieldV] at h
      rw [looseFieldS]
      cases hsf : s.fields[fid]? with
      | none => simp [hsf] at h
      | some sf =>
        simp only [hsf, Bool.and_eq_true] at h ht ⊢
        obtain ⟨_, hty⟩ := ht
        cases hid : sf.ty.id with
        | scalar k => simp only [hid] at h ⊢; exact h
        | «enum» k => simp only [hid] at h ⊢; exact h
        | input k => simp only [hid] at h; cases h
        | object i =>
          simp only [hid, Bool.and_eq_true] at h hty ⊢
          cases ho : s.objects[i]? with
          | none => simp [ho] at hty
          | some ob =>
            simp only []
            rw [looseLambdaS]
            refine (accepts_mono _ _ ?_ _).2 v h
            intro j hj
            simp only [conformsAt, List.any_eq_true, List.mem_range, Bool.and_eq_true] at hj
            obtain ⟨rt, _, _, hc⟩ := hj
            cases j with
            | obj kvs =>
              simp only [conformsV, Bool.and_eq_true] at hc
              exact IHs false b rt kvs hty.1.2 (countKey_le_one_of_nodup (nodup_iff'.mp hc.1.1)) hc.2
            | null => simp [conformsV] at hc
            | bool _ => simp [conformsV] at hc
            | int _ => simp [conformsV] at hc
            | num _ => simp [conformsV] at hc
            | str _ => simp [conformsV] at hc
            | arr _ => simp [conformsV] at hc
        | interface k =>
          simp only [hid, Bool.and_eq_true] at h hty ⊢
          rcases absOkL_cases hty.2 with ⟨hok, hlg⟩ | ⟨g, rfl, hokB⟩
          · simp only [hlg]
            rw [looseLambdaAbsS]
            exact (accepts_mono _ _ (fun j hj => strict_loose_absS s q o (.interface k) sub IHs IHp hty.1.1 hty.1.2 hok b j hj) _).2 v h
          · simp only [loneG_lone]
            obtain ⟨fr, hfr, _⟩ := fragOkB_parts hokB
            simp only [hfr]
            exact (accepts_mono _ _ (fun j hj => slLoneB s q o (.interface k) hty.1.1 g fr hfr hokB b j hj) _).2 v h
        | union k =>
          simp only [hid, Bool.and_eq_true] at h hty ⊢
          rcases absOkL_cases hty.2 with ⟨hok, hlg⟩ | ⟨g, rfl, hokB⟩
          · simp only [hlg]
            rw [looseLambdaAbsS]
            exact (accepts_mono _ _ (fun j hj => strict_loose_absS s q o (.union k) sub IHs IHp hty.1.1 hty.1.2 hok b j hj) _).2 v h
          · simp only [loneG_lone]
            obtain ⟨fr, hfr, _⟩ := fragOkB_parts hokB
            simp only [hfr]
            exact (accepts_mono _ _ (fun j hj => slLoneB s q o (.union k) hty.1.1 g fr hfr hokB b j hj) _).2 v h
    | .spread _, _, _, _ => by intro _ _; simp [looseFieldS]
    | .inline _ _, _, _, _ => by intro _ _; simp [looseFieldS]
    | .typename, _, _, _ => by intro _ _; simp [looseFieldS]
  theorem slSelsS : ∀ (sels : List Sel), SLSelsS s q o sels
    | [] => by intro _ _ _ _ _ _ _; simp [looseSelsS]
    | x :: xs => by
      intro abs b rt kvs ht hc h
      obtain ⟨hx, hxs⟩ := sSels_cons ht
      rw [expandSels, confSelsV, Bool.and_eq_true] at h
      have ih := slSelsS xs abs b rt kvs hxs hc h.2
      cases x with
      | field a fid sub =>
        have hcx := h.1
        rw [expandSel, confSelV_field] at hcx
        rw [looseSelsS.eq_2, ih, Bool.and_true]
        cases hsf : s.fields[fid]? with
        | none => simp [hsf] at hcx
        | some sf =>
          simp only [hsf] at hcx ⊢
          cases hl : Json.lookup (a.getD sf.name) kvs with
          | none => simp [hl] at hcx
          | some v =>
            simp only [hl] at hcx ⊢
            have := slFieldS (.field a fid sub) abs b v hx (by rw [expandSel]; exact hcx)
            simp [hc, this]
      | spread g => simpa [looseSelsS] using ih
      | inline t sub => simpa [looseSelsS] using ih
      | typename => simpa [looseSelsS] using ih
  theorem slPayS : ∀ (sels : List Sel), SLPayS s q o sels
    | [] => by intro _ _ _ _ _ _ _; simp [loosePayS]
    | x :: xs => by
      intro rt kvs rest ht hc h heq
      obtain ⟨hx, hxs⟩ := sSels_cons ht
      rw [expandSels, confSelsV, Bool.and_eq_true] at h
      have ih := slPayS xs rt kvs rest hxs hc h.2 (fun t isub hm => heq t isub (List.mem_cons_of_mem _ hm))
      cases x with
      | inline t isub =>
        rw [loosePayS.eq_2, ih, Bool.and_true]
        by_cases htv : t = .object rt
        · subst htv
          have hcx := h.1
          simp only [expandSel, confSelV, fragApplies, beq_self_eq_true, Bool.not_true, Bool.false_or] at hcx
          simp only [sSel, Bool.and_eq_true] at hx
          rw [heq _ isub (by simp) rfl, slSelsS isub false true rt kvs hx.1.2 hc hcx]
          simp
        · have : (t != TypeId.object rt) = true := by simpa using htv
          simp [this]
      | field a fid sub => simpa [loosePayS] using ih
      | spread g => simpa [loosePayS] using ih
      | typename => simpa [loosePayS] using ih
end

end SLS

/-- every response conforming to the specification (spreads expanded to inline fragments) is accepted -/
theorem conformsS_loose (s : Schema) (q : Query) (o : Options) (b : Bool) (rt : Nat) (sels : List Sel) (j : Json)
    (ht : sSels s q o false sels = true) (h : conformsV s rt (expandSels q sels) j = true) :
    conformsLooseS s q o b sels j = true := by
  cases j with
  | obj kvs =>
    simp only [conformsV, Bool.and_eq_true] at h
    exact slSelsS s q o sels false b rt kvs ht (countKey_le_one_of_nodup (nodup_iff'.mp h.1.1)) h.2
  | null => simp [conformsV] at h
  | bool _ => simp [conformsV] at h
  | int _ => simp [conformsV] at h
  | num _ => simp [conformsV] at h
  | str _ => simp [conformsV] at h
  | arr _ => simp [conformsV] at h

end E2E
end C01
end GqlVerif
