import GqlVerif.Proofs.C01AbstractA
/-!
# C01 / C03 end to end for abstract positions, part B: what the emitted types accept, exactly

Scope: the class `VariantOp` of part A.

* `conformsLooseV s o b sels j` / `conformsLooseAbs s o b ty sub j` — the exact acceptance predicates (C03 side)
  of the struct emitted for an object-level selection set and of the type(s) emitted at an abstract position.
  `b` is serde's "the content is buffered" flag: it is `false` at `ResponseData` and becomes `true` below the
  first `__typename`-tagged enum (variant payloads and the flattened `on` member are read from buffered
  content).  `tagOkV` is the tag dispatch: exactly one `__typename` entry; a string naming a possible type
  selects that type's variant; any other string is accepted iff `fragmentsOtherVariant` (`Unknown`); a missing
  / duplicate / non-string tag is rejected — **except an integer tag read from buffered content** (known
  finding `C03-typename-index`): that is, at every abstract position that has interface-level fields (the
  enum is the flattened `on`, always buffered), and at an abstract position without interface-level fields
  exactly when it lies below another abstract position (`b = true`).
* `structV_accepts_iff`, `abs_accepts_iff` — acceptance is exactly these predicates (mutual induction
  `accSelV` / `accSelsV` / `accPayV` over the selection tree).
* `conformsV_loose` — every response conforming to the specification `conformsV` is accepted
  (`slField` / `slSels` / `slPay`; at an abstract position `strict_loose_abs`, which is where the exclusion
  hypothesis of `absOk` is used).
-/
set_option linter.unusedSimpArgs false
set_option linter.unusedVariables false
namespace GqlVerif
namespace C01
namespace E2E
open Serde Spec C13 C03 Codegen

/-! ## the exact acceptance predicate -/

/-- what the `__typename`-tagged enum accepts: exactly one tag entry; a string naming a possible type
    selects that type's variant (`pay vt rest`: what the variant's payload accepts of the other entries),
    any other string is accepted iff there is an `Unknown` variant; an integer is accepted **only from
    buffered content** (`b`, known finding `C03-typename-index`) and then selects the variant by index -/
def tagOkV (s : Schema) (o : Options) (b : Bool) (vts : List TypeId)
    (pay : TypeId → List (String × Json) → Bool) (kvs : List (String × Json)) : Bool :=
  match countKey "__typename" kvs with
  | 1 =>
    match Json.lookup "__typename" kvs with
    | some (.str n) => (match vts.find? (fun vt => objName s vt == n) with
      | some vt => pay vt (kvs.filter (·.1 != "__typename"))
      | none => o.otherVariant)
    | some (.int n) => b && decide (0 ≤ n) && (match vts[n.toNat]? with
      | some vt => pay vt (kvs.filter (·.1 != "__typename"))
      | none => o.otherVariant)
    | _ => false
  | _ => false

mutual
  /-- the value under a selected field's key, read with buffered flag `b` -/
  def looseFieldV (s : Schema) (o : Options) (b : Bool) : Sel → Json → Bool
    | .field _ fid sub, v =>
      match s.fields[fid]? with
      | none => false
      | some sf =>
        match sf.ty.id with
        | .scalar k => (match s.scalars[k]? with
          | some n => accepts (scalarOk n) (gtyOf sf.ty.quals) v
          | none => false)
        | .enum k => (match s.enums[k]? with
          | some _ => accepts stringOk (gtyOf sf.ty.quals) v
          | none => false)
        | .object i => (match s.objects[i]? with
          | some _ => accepts (fun j => match j with
              | .obj kvs' => looseSelsV s o b sub kvs'
              | .arr xs => looseArrV s o b sub xs
              | _ => false) (gtyOf sf.ty.quals) v
          | none => false)
        | .input _ => false
        | ty =>
          -- abstract position: an object (never an array); the interface-level fields read their keys; the
          -- tagged enum sees the entries they left (all entries when there is no interface-level field)
          accepts (fun j => match j with
            | .obj kvs' =>
              looseSelsV s o b sub kvs' &&
              tagOkV s o (sub.any isFieldSel || b) (vtsOfTy s ty) (fun vt rest => loosePayV s o vt sub rest)
                (if sub.any isFieldSel then kvs'.filter (fun kv => !(fieldKeys s sub).contains kv.1) else kvs')
            | _ => false) (gtyOf sf.ty.quals) v
    | _, _ => true
  def looseSelsV (s : Schema) (o : Options) (b : Bool) : List Sel → List (String × Json) → Bool
    | [], _ => true
    | .field a fid sub :: xs, kvs =>
      (match s.fields[fid]? with
       | none => false
       | some sf =>
         decide (countKey (a.getD sf.name) kvs ≤ 1) &&
         (match Json.lookup (a.getD sf.name) kvs with
          | none => nullableQ sf.ty.quals
          | some v => looseFieldV s o b (.field a fid sub) v)) && looseSelsV s o b xs kvs
    | _ :: xs, kvs => looseSelsV s o b xs kvs
  def looseArrV (s : Schema) (o : Options) (b : Bool) : List Sel → List Json → Bool
    | [], _ => true
    | .field a fid sub :: xs, vs =>
      (match vs with
       | [] => false
       | v :: vs' => looseFieldV s o b (.field a fid sub) v && looseArrV s o b xs vs')
    | _ :: xs, vs => looseArrV s o b xs vs
  /-- what the payload of the variant `vt` accepts: the struct of the inline fragment on `vt` (read from
      buffered content), anything when there is none (unit variant) -/
  def loosePayV (s : Schema) (o : Options) (vt : TypeId) : List Sel → List (String × Json) → Bool
    | [], _ => true
    | .inline t isub :: xs, rest => (t != vt || looseSelsV s o true isub rest) && loosePayV s o vt xs rest
    | _ :: xs, rest => loosePayV s o vt xs rest
end

/-- what the generated `ResponseData` of an operation of the class accepts -/
def conformsLooseV (s : Schema) (o : Options) (b : Bool) (sels : List Sel) : Json → Bool
  | .obj kvs => looseSelsV s o b sels kvs
  | .arr xs => looseArrV s o b sels xs
  | _ => false

/-- … and the type emitted at an abstract position -/
def conformsLooseAbs (s : Schema) (o : Options) (b : Bool) (ty : TypeId) (sub : List Sel) : Json → Bool
  | .obj kvs' =>
    looseSelsV s o b sub kvs' &&
    tagOkV s o (sub.any isFieldSel || b) (vtsOfTy s ty) (fun vt rest => loosePayV s o vt sub rest)
      (if sub.any isFieldSel then kvs'.filter (fun kv => !(fieldKeys s sub).contains kv.1) else kvs')
  | _ => false


/-! ## what the theorems need of the environment -/

def TaggedEnv (e : Env) (name : String) (vs : List RVariant) : Prop :=
  notPrim name ∧ name ≠ "ID" ∧ ∃ n d cr, e.find name = some (.tagged n d cr "__typename" vs)

/-- the flattened member `renderType` adds -/
def onField (name : String) : RField := { rust := "on", ty := .path (name ++ "On"), flatten := true }

/-- the item(s) `renderType` emits for an abstract position are what the names resolve to -/
def AbsEnv (e : Env) (name : String) (fields : List RField) (vs : List RVariant) : Prop :=
  if fields.isEmpty then TaggedEnv e name vs
  else StructEnv e name (fields ++ [onField name]) ∧ TaggedEnv e (name ++ "On") vs

mutual
  def envSelV (e : Env) (c : Ctx) (pfx : String) : Sel → Prop
    | .field a fid sub =>
      match c.s.fields[fid]? with
      | none => True
      | some sf =>
        match sf.ty.id with
        | .scalar k => (match c.s.scalars[k]? with | some sn => ScalarEnv e sn | none => True)
        | .enum k => (match c.s.enums[k]? with | some en => EnumEnv e en.name | none => True)
        | .object _ =>
          StructEnv e (pfx ++ c.cs.camel (a.getD sf.name)) (fieldsOfV c (pfx ++ c.cs.camel (a.getD sf.name)) sub) ∧
          envSelsV e c (pfx ++ c.cs.camel (a.getD sf.name)) sub
        | .input _ => True
        | ty =>
          AbsEnv e (pfx ++ c.cs.camel (a.getD sf.name)) (fieldsOfV c (pfx ++ c.cs.camel (a.getD sf.name)) sub)
            (variantsV c (pfx ++ c.cs.camel (a.getD sf.name)) ty sub) ∧
          envSelsV e c (pfx ++ c.cs.camel (a.getD sf.name)) sub
    | .inline t isub =>
      StructEnv e (pfx ++ "On" ++ objName c.s t) (fieldsOfV c (pfx ++ "On" ++ c.cs.camel (objName c.s t)) isub) ∧
      envSelsV e c (pfx ++ "On" ++ c.cs.camel (objName c.s t)) isub
    | _ => True
  def envSelsV (e : Env) (c : Ctx) (pfx : String) : List Sel → Prop
    | [] => True
    | x :: xs => envSelV e c pfx x ∧ envSelsV e c pfx xs
end

/-! ## the tagged enum -/

theorem variantOf_wire (c : Ctx) (pfx : String) (sub : List Sel) (vt : TypeId) :
    (variantOf c pfx sub vt).wire = objName c.s vt ∧ (variantOf c pfx sub vt).name = objName c.s vt ∧
    (variantOf c pfx sub vt).other = false := by
  unfold variantOf; split <;> simp [RVariant.wire]

theorem find_wire_variantsV (c : Ctx) (pfx : String) (sub : List Sel) (n : String) (o : List RVariant)
    (ho : ∀ v ∈ o, v.other = true) : ∀ (vts : List TypeId),
    (vts.map (variantOf c pfx sub) ++ o).find? (fun v => !v.other && v.wire == n) =
      (vts.find? (fun vt => objName c.s vt == n)).map (variantOf c pfx sub)
  | [] => by
    simp only [List.map_nil, List.nil_append, List.find?_nil, Option.map_none]
    rw [List.find?_eq_none]
    intro v hv; simp [ho v hv]
  | vt :: rest => by
    obtain ⟨h1, _, h3⟩ := variantOf_wire c pfx sub vt
    simp only [List.map_cons, List.cons_append, List.find?_cons, h1, h3, Bool.not_false, Bool.true_and]
    cases objName c.s vt == n
    · exact find_wire_variantsV c pfx sub n o ho rest
    · rfl

theorem find_other_variantsV (c : Ctx) (pfx : String) (sub : List Sel) (o : List RVariant) : ∀ (vts : List TypeId),
    (vts.map (variantOf c pfx sub) ++ o).find? (·.other) = o.find? (·.other)
  | [] => rfl
  | vt :: rest => by
    obtain ⟨_, _, h3⟩ := variantOf_wire c pfx sub vt
    simp only [List.map_cons, List.cons_append, List.find?_cons, h3]
    exact find_other_variantsV c pfx sub o rest

theorem find_other_otherVariants (o : Options) :
    (otherVariants o).find? (·.other) = if o.otherVariant then some { name := "Unknown", other := true } else none := by
  unfold otherVariants; cases o.otherVariant <;> simp

/-- what one variant accepts of the other entries -/
def pickOk (pathB : String → Json → D Val) (v : RVariant) (rest : List (String × Json)) : Bool :=
  if v.other then true else
  match v.payload with
  | none => true
  | some t => okB (deTyWith pathB t (.obj rest))

/-- **the tagged enum of an abstract position accepts exactly `tagOkV`** -/
theorem okB_tagged (c : Ctx) (pfx : String) (ty : TypeId) (sub : List Sel) (pathB : String → Json → D Val) (b : Bool)
    (pay : TypeId → List (String × Json) → Bool) (kvs : List (String × Json))
    (hpay : ∀ vt ∈ vtsOfTy c.s ty, pickOk pathB (variantOf c pfx sub vt) (kvs.filter (·.1 != "__typename")) =
      pay vt (kvs.filter (·.1 != "__typename"))) :
    okB (deTaggedWith pathB b "__typename" (variantsV c pfx ty sub) kvs) = tagOkV c.s c.o b (vtsOfTy c.s ty) pay kvs := by
  unfold deTaggedWith tagOkV variantsV
  have hoth : ∀ v ∈ otherVariants c.o, v.other = true := by
    intro v hv; unfold otherVariants at hv; split at hv <;> simp at hv; subst hv; rfl
  -- the local `pick`
  have hpick : ∀ (v : RVariant),
      okB (if v.other then (pure (.variant v.name none) : D Val) else
        match v.payload with
        | none => pure (.variant v.name none)
        | some t => (fun x => Val.variant v.name (some x)) <$> deTyWith pathB t (.obj (kvs.filter (·.1 != "__typename")))) =
      pickOk pathB v (kvs.filter (·.1 != "__typename")) := by
    intro v
    unfold pickOk
    cases v.other
    · cases v.payload with
      | none => rfl
      | some t => simp only [Bool.false_eq_true, ↓reduceIte, okB_map]
    · rfl
  match hcnt : countKey "__typename" kvs with
  | 0 => rfl
  | 1 =>
    simp only []
    cases hl : Json.lookup "__typename" kvs with
    | none => rfl
    | some tv =>
      cases tv with
      | str n =>
        simp only [find_wire_variantsV c pfx sub n _ hoth, find_other_variantsV, find_other_otherVariants]
        cases hf : (vtsOfTy c.s ty).find? (fun vt => objName c.s vt == n) with
        | none =>
          simp only [Option.map_none]
          cases c.o.otherVariant <;> rfl
        | some vt =>
          simp only [Option.map_some]
          exact (hpick _).trans (hpay vt (List.mem_of_find?_eq_some hf))
      | int n =>
        simp only []
        cases b
        · rfl
        · simp only [Bool.not_true, Bool.false_eq_true, ↓reduceIte, Bool.true_and]
          by_cases hneg : n < 0
          · have : decide (0 ≤ n) = false := by simpa using hneg
            simp [hneg, this, okB, bad]
          · have : decide (0 ≤ n) = true := by simpa using hneg
            simp only [hneg, ↓reduceIte, this, Bool.true_and]
            by_cases hlt : n.toNat < (vtsOfTy c.s ty).length
            · have h1 : ((vtsOfTy c.s ty).map (variantOf c pfx sub) ++ otherVariants c.o)[n.toNat]? =
                  some (variantOf c pfx sub ((vtsOfTy c.s ty)[n.toNat])) := by
                rw [List.getElem?_append_left (by simpa using hlt)]
                simp [hlt]
              have h2 : (vtsOfTy c.s ty)[n.toNat]? = some ((vtsOfTy c.s ty)[n.toNat]) := by simp [hlt]
              rw [h1, h2]
              simp only []
              exact (hpick _).trans (hpay _ (List.getElem_mem _))
            · have h2 : (vtsOfTy c.s ty)[n.toNat]? = none := by simp; omega
              rw [h2]
              simp only [find_other_variantsV, find_other_otherVariants]
              cases hov : c.o.otherVariant
              · have h1 : ((vtsOfTy c.s ty).map (variantOf c pfx sub) ++ otherVariants c.o)[n.toNat]? = none := by
                  simp [otherVariants, hov]; omega
                rw [h1]; rfl
              · cases h1 : ((vtsOfTy c.s ty).map (variantOf c pfx sub) ++ otherVariants c.o)[n.toNat]? with
                | none => rfl
                | some v =>
                  have hv : v ∈ otherVariants c.o := by
                    rw [List.getElem?_append_right (by simpa using Nat.le_of_not_lt hlt)] at h1
                    exact List.mem_of_getElem? h1
                  simp only [hoth v hv, ↓reduceIte]; rfl
      | null => rfl
      | bool _ => rfl
      | num _ => rfl
      | arr _ => rfl
      | obj _ => rfl
  | k + 2 => rfl


/-! ## a struct with own fields and the flattened tagged enum `on` -/

theorem deFlat_tagged (e : Env) (fuel : Nat) (q n : String) (d : List String) (cr : Option String) (tag : String)
    (vs : List RVariant) (buf : Buf) (he : e.find q = some (.tagged n d cr tag vs)) :
    deFlat e (fuel + 1) (.path q) buf =
      (do let v ← deTaggedWith (dePath e true fuel) true tag vs (present buf); pure (v, buf)) := by
  unfold deFlat
  simp only [he]

/-- the reader of `pre ++ [on]`, as one equation: the own fields from `kvs`, the tagged enum from **the
    entries the own fields left**, read as buffered content -/
theorem deStructMap_on (e : Env) (fuel : Nat) (pathD : String → Json → D Val) (pre : List RField) (g : RField)
    (q n : String) (d : List String) (cr : Option String) (tag : String) (vs : List RVariant)
    (kvs : List (String × Json))
    (hpre : plain pre = true) (hg : g.flatten = true) (hty : g.ty = .path q)
    (he : e.find q = some (.tagged n d cr tag vs)) :
    deStructMapWith pathD (deFlat e (fuel + 1)) (pre ++ [g]) kvs =
      (do let own ← deOwnWith pathD pre kvs
          let v ← deTaggedWith (dePath e true fuel) true tag vs
            (kvs.filter (fun kv => !(pre.map (·.wire)).contains kv.1))
          pure (.record ((pre ++ [g]).filterMap fun f => ((own ++ [(g.rust, v)]).find? (·.1 == f.rust))))) := by
  unfold deStructMapWith
  have hany : (pre ++ [g]).any (·.flatten) = true := by simp [hg]
  have hown : ((pre ++ [g]).filter (fun f => !f.flatten)).map (·.wire) = pre.map (·.wire) := by
    simp [List.filter_append, hg, filter_plain hpre]
  have hskip := deOwn_skip pathD g [] kvs hg pre
  rw [List.append_nil] at hskip
  rw [hskip]
  simp only [hany, ↓reduceIte, hown, deFlats_one _ g [] hg rfl pre _ hpre, hty,
    deFlat_tagged e fuel q n d cr tag vs _ he, present_map_some]
  cases deOwnWith pathD pre kvs with
  | error err => rfl
  | ok own =>
    simp only [bind, Except.bind]
    cases deTaggedWith (dePath e true fuel) true tag vs _ <;> rfl

theorem okB_bind2 {α β γ} (x : D α) (y : D β) (f : α → β → γ) :
    okB (do let a ← x; let b ← y; pure (f a b) : D γ) = (okB x && okB y) := by
  cases x <;> cases y <;> rfl


/-! ## facts about the emitted fields of a selection set of the class -/

theorem fieldOfSelV_v (c : Ctx) (pfx : String) (abs : Bool) (a : Option String) (fid : Nat) (sub : List Sel)
    (ht : vSel c.s c.o abs (.field a fid sub) = true) :
    ∃ sf ft, c.s.fields[fid]? = some sf ∧ leafNameV c pfx (a.getD sf.name) sf.ty.id = some ft ∧
      fieldOfSelV c pfx (.field a fid sub) = some (fieldOf c (a.getD sf.name) ft sf.ty.quals sf.deprecation) ∧
      wfQuals sf.ty.quals = true := by
  rw [vSel] at ht
  cases hsf : c.s.fields[fid]? with
  | none => simp [hsf] at ht
  | some sf =>
    simp only [hsf, Bool.and_eq_true] at ht
    obtain ⟨⟨hw, _⟩, hty⟩ := ht
    cases hid : sf.ty.id with
    | scalar k =>
      simp only [hid, Bool.and_eq_true] at hty
      cases hk : c.s.scalars[k]? with
      | none => simp [hk] at hty
      | some sn => exact ⟨sf, sn, rfl, by simp [leafNameV, hid, hk], by simp [fieldOfSelV, hsf, leafNameV, hid, hk], hw⟩
    | «enum» k =>
      simp only [hid, Bool.and_eq_true] at hty
      cases hk : c.s.enums[k]? with
      | none => simp [hk] at hty
      | some en => exact ⟨sf, en.name, rfl, by simp [leafNameV, hid, hk], by simp [fieldOfSelV, hsf, leafNameV, hid, hk], hw⟩
    | object i => exact ⟨sf, pfx ++ c.cs.camel (a.getD sf.name), rfl, by simp [leafNameV, hid], by simp [fieldOfSelV, hsf, leafNameV, hid], hw⟩
    | interface k => exact ⟨sf, pfx ++ c.cs.camel (a.getD sf.name), rfl, by simp [leafNameV, hid], by simp [fieldOfSelV, hsf, leafNameV, hid], hw⟩
    | union k => exact ⟨sf, pfx ++ c.cs.camel (a.getD sf.name), rfl, by simp [leafNameV, hid], by simp [fieldOfSelV, hsf, leafNameV, hid], hw⟩
    | input k => simp [hid] at hty

theorem fieldsOfV_cons_field (c : Ctx) (pfx : String) (x : Sel) (xs : List Sel) (f : RField)
    (h : fieldOfSelV c pfx x = some f) : fieldsOfV c pfx (x :: xs) = f :: fieldsOfV c pfx xs := by
  simp [fieldsOfV, h]

theorem fieldsOfV_cons_none (c : Ctx) (pfx : String) (x : Sel) (xs : List Sel)
    (h : fieldOfSelV c pfx x = none) : fieldsOfV c pfx (x :: xs) = fieldsOfV c pfx xs := by
  simp [fieldsOfV, h]

theorem plain_fieldsOfV (c : Ctx) (pfx : String) : ∀ sels, plain (fieldsOfV c pfx sels) = true
  | [] => rfl
  | x :: xs => by
    have ih := plain_fieldsOfV c pfx xs
    cases hx : fieldOfSelV c pfx x with
    | none => rw [fieldsOfV_cons_none c pfx x xs hx]; exact ih
    | some f =>
      rw [fieldsOfV_cons_field c pfx x xs f hx]
      simp only [plain, List.all_cons, Bool.and_eq_true] at ih ⊢
      refine ⟨?_, ih⟩
      cases x with
      | field a fid sub =>
        simp only [fieldOfSelV] at hx
        split at hx
        · cases hx
        · split at hx
          · cases hx
          · cases hx; rfl
      | spread g => cases hx
      | inline t sub => cases hx
      | typename => cases hx

/-- the wire names of the emitted fields are the response keys of the `.field` selections -/
theorem wire_fieldsOfV (c : Ctx) (pfx : String) (abs : Bool) : ∀ (sels : List Sel), vSels c.s c.o abs sels = true →
    (fieldsOfV c pfx sels).map (·.wire) = fieldKeys c.s sels
  | [], _ => rfl
  | x :: xs, ht => by
    obtain ⟨hx, hxs⟩ := vSels_cons ht
    have ih := wire_fieldsOfV c pfx abs xs hxs
    cases x with
    | field a fid sub =>
      obtain ⟨sf, ft, hsf, _, hf, _⟩ := fieldOfSelV_v c pfx abs a fid sub hx
      rw [fieldsOfV_cons_field c pfx _ xs _ hf, List.map_cons, ih, fieldOf_wire]
      simp [fieldKeys, fieldKey, hsf]
    | spread g => simp [vSel] at hx
    | inline t sub => rw [fieldsOfV_cons_none c pfx _ xs rfl, ih]; simp [fieldKeys, fieldKey, List.filterMap_cons]
    | typename => rw [fieldsOfV_cons_none c pfx _ xs rfl, ih]; simp [fieldKeys, fieldKey, List.filterMap_cons]

theorem isEmpty_fieldsOfV (c : Ctx) (pfx : String) (abs : Bool) : ∀ (sels : List Sel), vSels c.s c.o abs sels = true →
    (fieldsOfV c pfx sels).isEmpty = !sels.any isFieldSel
  | [], _ => rfl
  | x :: xs, ht => by
    obtain ⟨hx, hxs⟩ := vSels_cons ht
    have ih := isEmpty_fieldsOfV c pfx abs xs hxs
    cases x with
    | field a fid sub =>
      obtain ⟨sf, ft, hsf, _, hf, _⟩ := fieldOfSelV_v c pfx abs a fid sub hx
      rw [fieldsOfV_cons_field c pfx _ xs _ hf]; simp [isFieldSel]
    | spread g => simp [vSel] at hx
    | inline t sub => rw [fieldsOfV_cons_none c pfx _ xs rfl, ih]; simp [isFieldSel]
    | typename => rw [fieldsOfV_cons_none c pfx _ xs rfl, ih]; simp [isFieldSel]

theorem looseSelsV_nofield (s : Schema) (o : Options) (b : Bool) (kvs : List (String × Json)) :
    ∀ (sels : List Sel), sels.any isFieldSel = false → looseSelsV s o b sels kvs = true
  | [], _ => by simp [looseSelsV]
  | x :: xs, h => by
    simp only [List.any_cons, Bool.or_eq_false_iff] at h
    have ih := looseSelsV_nofield s o b kvs xs h.2
    cases x with
    | field a fid sub => simp [isFieldSel] at h
    | spread g => simpa [looseSelsV] using ih
    | inline t sub => simpa [looseSelsV] using ih
    | typename => simpa [looseSelsV] using ih


/-! ## acceptance, exactly -/

section AccV
variable (e : Env) (c : Ctx)

def AccSelV (pfx : String) (x : Sel) : Prop :=
  ∀ abs, vSel c.s c.o abs x = true → envSelV e c pfx x → ∀ f, fieldOfSelV c pfx x = some f →
    ∀ b fd, 2 * selDepth x + 1 ≤ fd → ∀ v, okB (deFieldWith (dePath e b fd) f v) = looseFieldV c.s c.o b x v

def AccSelsV (pfx : String) (sels : List Sel) : Prop :=
  ∀ abs, vSels c.s c.o abs sels = true → envSelsV e c pfx sels → ∀ b fd, 2 * selsDepth sels + 1 ≤ fd →
    (∀ kvs, (fieldsOfV c pfx sels).all (fun f => decide (countKey f.wire kvs ≤ 1) &&
        okB (readField (dePath e b fd) f kvs)) = looseSelsV c.s c.o b sels kvs) ∧
    (∀ xs, (decide ((fieldsOfV c pfx sels).length ≤ xs.length) &&
        ((fieldsOfV c pfx sels).zip xs).all (fun p => okB (deFieldWith (dePath e b fd) p.1 p.2))) =
          looseArrV c.s c.o b sels xs)

/-- the variant struct of the inline fragment on `vt` accepts exactly `loosePayV` of the other entries -/
def AccPay (pfx : String) (sels : List Sel) : Prop :=
  vSels c.s c.o true sels = true → envSelsV e c pfx sels → (sels.filterMap inlineTy).Nodup →
    ∀ vt fd, 2 * selsDepth sels ≤ fd → ∀ rest,
      (vt ∈ sels.filterMap inlineTy →
        okB (dePath e true fd (pfx ++ "On" ++ objName c.s vt) (.obj rest)) = loosePayV c.s c.o vt sels rest) ∧
      (vt ∉ sels.filterMap inlineTy → loosePayV c.s c.o vt sels rest = true)

/-- the struct of an object-level selection set accepts exactly `conformsLooseV` -/
theorem accStructV (pfx name : String) (sels : List Sel) (H : AccSelsV e c pfx sels) (abs : Bool)
    (ht : vSels c.s c.o abs sels = true) (henv : envSelsV e c pfx sels)
    (hs : StructEnv e name (fieldsOfV c pfx sels)) (b : Bool) (fd : Nat) (hfd : 2 * selsDepth sels + 2 ≤ fd) (j : Json) :
    okB (dePath e b fd name j) = conformsLooseV c.s c.o b sels j := by
  obtain ⟨hp, _, n, d, cr, hfind⟩ := hs
  obtain ⟨fd', rfl⟩ : ∃ k, fd = k + 1 := ⟨fd - 1, by omega⟩
  obtain ⟨H1, H2⟩ := H abs ht henv b fd' (by omega)
  rw [dePath_struct e b fd' name n d cr _ hp hfind]
  have hpl := plain_fieldsOfV c pfx sels
  cases j with
  | obj kvs =>
    rw [deStruct_obj, deStructMap_plain _ _ _ _ hpl, okB_map, okB_deOwn' _ _ _ hpl, H1]; rfl
  | arr xs =>
    simp only [deStructWith, any_flatten_of_plain hpl, Bool.false_eq_true, ↓reduceIte, conformsLooseV]
    rw [← H2 xs]
    by_cases hlen : xs.length < (fieldsOfV c pfx sels).length
    · have : ¬ ((fieldsOfV c pfx sels).length ≤ xs.length) := by omega
      simp [hlen, this, okB, bad]
    · have : (fieldsOfV c pfx sels).length ≤ xs.length := by omega
      simp only [hlen, ↓reduceIte, okB_map, okB_mapM, this, decide_true, Bool.true_and]
      congr 1; funext p
      cases deFieldWith (dePath e b fd') p.1 p.2 <;> rfl
  | null => rfl
  | bool _ => rfl
  | int _ => rfl
  | num _ => rfl
  | str _ => rfl

theorem pickOk_variantOf (pfx : String) (sub : List Sel) (H : AccPay e c pfx sub)
    (ht : vSels c.s c.o true sub = true) (henv : envSelsV e c pfx sub) (hnd : (sub.filterMap inlineTy).Nodup)
    (vt : TypeId) (fd : Nat) (hfd : 2 * selsDepth sub ≤ fd) (rest : List (String × Json)) :
    pickOk (dePath e true fd) (variantOf c pfx sub vt) rest = loosePayV c.s c.o vt sub rest := by
  obtain ⟨h1, h2⟩ := H ht henv hnd vt fd hfd rest
  unfold pickOk variantOf
  by_cases hm : vt ∈ sub.filterMap inlineTy
  · have : (sub.filterMap inlineTy).contains vt = true := by simpa using hm
    simp only [this, ↓reduceIte, Bool.false_eq_true]
    rw [← h1 hm]; rfl
  · have : (sub.filterMap inlineTy).contains vt = false := by simpa using hm
    simp only [this, Bool.false_eq_true, ↓reduceIte]
    rw [h2 hm]

/-- the type emitted at an abstract position accepts exactly `conformsLooseAbs` -/
theorem accAbs (pfx name : String) (ty : TypeId) (sub : List Sel) (H : AccSelsV e c pfx sub) (HP : AccPay e c pfx sub)
    (ht : vSels c.s c.o true sub = true) (hok : absOk c.s c.o ty sub = true) (henv : envSelsV e c pfx sub)
    (hs : AbsEnv e name (fieldsOfV c pfx sub) (variantsV c pfx ty sub)) (b : Bool) (fd : Nat)
    (hfd : 2 * selsDepth sub + 3 ≤ fd) (j : Json) :
    okB (dePath e b fd name j) = conformsLooseAbs c.s c.o b ty sub j := by
  obtain ⟨_, _, _, _, _, _, hnd, _⟩ := absOk_parts hok
  have hemp := isEmpty_fieldsOfV c pfx true sub ht
  unfold AbsEnv at hs
  cases hF : sub.any isFieldSel
  · -- the tagged enum alone
    rw [hF] at hemp
    simp only [hemp, Bool.not_false, ↓reduceIte] at hs
    obtain ⟨hp, _, n, d, cr, hfind⟩ := hs
    obtain ⟨fd', rfl⟩ : ∃ k, fd = k + 1 := ⟨fd - 1, by omega⟩
    cases j with
    | obj kvs =>
      rw [dePath_tagged e b fd' name n d cr _ _ hp hfind]
      simp only [conformsLooseAbs, hF, Bool.false_or, Bool.false_eq_true, ↓reduceIte,
        looseSelsV_nofield c.s c.o b kvs sub hF, Bool.true_and]
      exact okB_tagged c pfx ty sub _ b _ kvs
        (fun vt _ => pickOk_variantOf e c pfx sub HP ht henv hnd vt fd' (by omega) _)
    | arr xs => unfold dePath; simp only [dePrim_none hp, hfind]; rfl
    | null => unfold dePath; simp only [dePrim_none hp, hfind]; rfl
    | bool _ => unfold dePath; simp only [dePrim_none hp, hfind]; rfl
    | int _ => unfold dePath; simp only [dePrim_none hp, hfind]; rfl
    | num _ => unfold dePath; simp only [dePrim_none hp, hfind]; rfl
    | str _ => unfold dePath; simp only [dePrim_none hp, hfind]; rfl
  · -- struct with the interface-level fields and the flattened `on`
    rw [hF] at hemp
    simp only [hemp, Bool.not_true, Bool.false_eq_true, ↓reduceIte] at hs
    obtain ⟨⟨hp, _, n, d, cr, hfind⟩, ⟨_, _, n', d', cr', hfind'⟩⟩ := hs
    obtain ⟨fd', rfl⟩ : ∃ k, fd = k + 2 := ⟨fd - 2, by omega⟩
    obtain ⟨H1, _⟩ := H true ht henv b (fd' + 1) (by omega)
    have hpl := plain_fieldsOfV c pfx sub
    rw [dePath_struct e b (fd' + 1) name n d cr _ hp hfind]
    cases j with
    | obj kvs =>
      rw [deStruct_obj, deStructMap_on e fd' _ _ (onField name) (name ++ "On") n' d' cr' "__typename" _ kvs hpl rfl rfl hfind',
        okB_bind2, okB_deOwn' _ _ _ hpl, H1 kvs, wire_fieldsOfV c pfx true sub ht]
      simp only [conformsLooseAbs, hF, Bool.true_or, ↓reduceIte]
      congr 1
      exact okB_tagged c pfx ty sub _ true _ _
        (fun vt _ => pickOk_variantOf e c pfx sub HP ht henv hnd vt fd' (by omega) _)
    | arr xs =>
      have : (fieldsOfV c pfx sub ++ [onField name]).any (·.flatten) = true := by simp [onField]
      simp only [deStructWith, this, ↓reduceIte]; rfl
    | null => rfl
    | bool _ => rfl
    | int _ => rfl
    | num _ => rfl
    | str _ => rfl

end AccV


theorem looseLambdaV (s : Schema) (o : Options) (b : Bool) (sub : List Sel) :
    (fun j => match j with
      | Json.obj kvs' => looseSelsV s o b sub kvs'
      | Json.arr xs => looseArrV s o b sub xs
      | _ => false) = conformsLooseV s o b sub := by
  funext j; cases j <;> rfl

theorem looseLambdaAbs (s : Schema) (o : Options) (b : Bool) (ty : TypeId) (sub : List Sel) :
    (fun j => match j with
      | Json.obj kvs' =>
        looseSelsV s o b sub kvs' &&
        tagOkV s o (sub.any isFieldSel || b) (vtsOfTy s ty) (fun vt rest => loosePayV s o vt sub rest)
          (if sub.any isFieldSel then kvs'.filter (fun kv => !(fieldKeys s sub).contains kv.1) else kvs')
      | _ => false) = conformsLooseAbs s o b ty sub := by
  funext j; cases j <;> rfl

section AccV2
variable (e : Env) (c : Ctx)

mutual
  theorem accSelV : ∀ (x : Sel) (pfx : String), AccSelV e c pfx x
    | .field a fid sub, pfx => by
      intro abs ht henv f hf b fd hfd v
      have IH := accSelsV sub
      have IHP := accPayV sub
      rw [selDepth] at hfd
      obtain ⟨fd', rfl⟩ : ∃ k, fd = k + 3 := ⟨fd - 3, by omega⟩
      rw [vSel] at ht
      rw [envSelV] at henv
      rw [looseFieldV]
      cases hsf : c.s.fields[fid]? with
      | none => simp [hsf] at ht
      | some sf =>
        simp only [hsf, Bool.and_eq_true] at ht henv ⊢
        obtain ⟨⟨hw, _⟩, hty⟩ := ht
        have hwf : wf (gtyOf sf.ty.quals) = true := by rw [wf_gtyOf]; exact hw
        cases hid : sf.ty.id with
        | scalar k =>
          simp only [hid, Bool.and_eq_true] at hty henv ⊢
          cases hk : c.s.scalars[k]? with
          | none => simp [hk] at hty
          | some sn =>
            simp only [hk] at henv ⊢
            simp only [fieldOfSelV, hsf, leafNameV, hid, hk, Option.some.injEq] at hf
            subst hf
            by_cases hID : sn = "ID"
            · subst hID
              rw [deField_id, C16.id_field_iff _ hwf]
              simp [scalarOk]
            · rw [deField_plain _ _ _ _ hID]
              exact (ok_iff_accepts _ sn (scalarOk sn) (leaf_scalar e sn henv hID b fd') _ hwf).2 v
        | «enum» k =>
          simp only [hid, Bool.and_eq_true] at hty henv ⊢
          cases hk : c.s.enums[k]? with
          | none => simp [hk] at hty
          | some en =>
            simp only [hk] at henv ⊢
            simp only [fieldOfSelV, hsf, leafNameV, hid, hk, Option.some.injEq, Option.map_some] at hf
            subst hf
            obtain ⟨hp, hID, n', d, sp, vs, ser, de, hfind, _⟩ := henv
            rw [deField_plain _ _ _ _ hID]
            exact (ok_iff_accepts _ en.name stringOk
              (leaf_enum e b (fd' + 2) en.name n' d sp vs ser de hp hfind) _ hwf).2 v
        | object i =>
          simp only [hid, Bool.and_eq_true] at hty henv ⊢
          cases hk : c.s.objects[i]? with
          | none => simp [hk] at hty
          | some o =>
            simp only [hk]
            simp only [fieldOfSelV, hsf, leafNameV, hid, Option.some.injEq] at hf
            subst hf
            obtain ⟨hs, hesub⟩ := henv
            rw [deField_plain _ _ _ _ hs.2.1, looseLambdaV]
            exact (ok_iff_accepts _ _ (conformsLooseV c.s c.o b sub)
              (accStructV e c _ _ sub (IH _) false hty.1.2 hesub hs b (fd' + 3) (by omega)) _ hwf).2 v
        | interface k =>
          simp only [hid, Bool.and_eq_true] at hty henv ⊢
          simp only [fieldOfSelV, hsf, leafNameV, hid, Option.some.injEq] at hf
          subst hf
          obtain ⟨hs, hesub⟩ := henv
          have hID : pfx ++ c.cs.camel (a.getD sf.name) ≠ "ID" := by
            unfold AbsEnv at hs; split at hs
            · exact hs.2.1
            · exact hs.1.2.1
          rw [deField_plain _ _ _ _ hID, looseLambdaAbs]
          exact (ok_iff_accepts _ _ (conformsLooseAbs c.s c.o b (.interface k) sub)
            (accAbs e c _ _ _ sub (IH _) (IHP _) hty.1.2 hty.2 hesub hs b (fd' + 3) (by omega)) _ hwf).2 v
        | union k =>
          simp only [hid, Bool.and_eq_true] at hty henv ⊢
          simp only [fieldOfSelV, hsf, leafNameV, hid, Option.some.injEq] at hf
          subst hf
          obtain ⟨hs, hesub⟩ := henv
          have hID : pfx ++ c.cs.camel (a.getD sf.name) ≠ "ID" := by
            unfold AbsEnv at hs; split at hs
            · exact hs.2.1
            · exact hs.1.2.1
          rw [deField_plain _ _ _ _ hID, looseLambdaAbs]
          exact (ok_iff_accepts _ _ (conformsLooseAbs c.s c.o b (.union k) sub)
            (accAbs e c _ _ _ sub (IH _) (IHP _) hty.1.2 hty.2 hesub hs b (fd' + 3) (by omega)) _ hwf).2 v
        | input k => simp [hid] at hty
    | .spread g, pfx => by intro abs ht; simp [vSel] at ht
    | .inline t sub, pfx => by intro _ _ _ f hf; cases hf
    | .typename, pfx => by intro _ _ _ f hf; cases hf
  theorem accSelsV : ∀ (sels : List Sel) (pfx : String), AccSelsV e c pfx sels
    | [], pfx => by
      intro _ _ _ b fd _
      exact ⟨fun kvs => by simp [fieldsOfV, looseSelsV], fun xs => by simp [fieldsOfV, looseArrV]⟩
    | x :: xs, pfx => by
      intro abs ht henv b fd hfd
      obtain ⟨hx, hxs⟩ := vSels_cons ht
      rw [envSelsV] at henv
      rw [selsDepth] at hfd
      obtain ⟨I1, I2⟩ := accSelsV xs pfx abs hxs henv.2 b fd (by omega)
      have IX := accSelV x pfx abs hx henv.1
      cases x with
      | field a fid sub =>
        obtain ⟨sf, ft, hsf, _, hf, hw⟩ := fieldOfSelV_v c pfx abs a fid sub hx
        have IXf := IX _ hf b fd (by omega)
        have hfs := fieldsOfV_cons_field c pfx _ xs _ hf
        refine ⟨fun kvs => ?_, fun vs => ?_⟩
        · rw [hfs, List.all_cons, I1 kvs, looseSelsV.eq_2]
          simp only [hsf, fieldOf_wire, readField]
          cases hl : Json.lookup (a.getD sf.name) kvs with
          | none => simp only [missing_fieldOf]
          | some v => simp only [IXf v]
        · rw [hfs]
          cases vs with
          | nil => rw [looseArrV.eq_2]; simp
          | cons v vs' =>
            rw [looseArrV.eq_3]
            simp only [List.length_cons, List.zip_cons_cons, List.all_cons, IXf v, ← I2 vs',
              Nat.add_le_add_iff_right]
            cases looseFieldV c.s c.o b (.field a fid sub) v <;> simp
      | spread g => simp [vSel] at hx
      | inline t sub =>
        have hfs := fieldsOfV_cons_none c pfx (.inline t sub) xs rfl
        refine ⟨fun kvs => ?_, fun vs => ?_⟩
        · rw [hfs, I1 kvs]; simp [looseSelsV]
        · rw [hfs, I2 vs]; simp [looseArrV]
      | typename =>
        have hfs := fieldsOfV_cons_none c pfx .typename xs rfl
        refine ⟨fun kvs => ?_, fun vs => ?_⟩
        · rw [hfs, I1 kvs]; simp [looseSelsV]
        · rw [hfs, I2 vs]; simp [looseArrV]
  theorem accPayV : ∀ (sels : List Sel) (pfx : String), AccPay e c pfx sels
    | [], pfx => by
      intro _ _ _ vt fd _ rest
      exact ⟨fun h => by simp at h, fun _ => by simp [loosePayV]⟩
    | x :: xs, pfx => by
      intro ht henv hnd vt fd hfd rest
      obtain ⟨hx, hxs⟩ := vSels_cons ht
      rw [envSelsV] at henv
      rw [selsDepth] at hfd
      cases x with
      | inline t isub =>
        simp only [List.filterMap_cons, inlineTy, List.nodup_cons] at hnd
        obtain ⟨I1, I2⟩ := accPayV xs pfx hxs henv.2 hnd.2 vt fd (by omega) rest
        have IS := accSelsV isub
        rw [envSelV] at henv
        simp only [vSel, Bool.and_eq_true] at hx
        rw [selDepth] at hfd
        rw [loosePayV.eq_2]
        by_cases htv : t = vt
        · subst htv
          have hstruct := accStructV e c _ _ isub (IS _) false hx.1.2 henv.1.2 henv.1.1 true fd (by omega) (.obj rest)
          refine ⟨fun _ => ?_, fun hn => absurd (by simp [List.filterMap_cons, inlineTy]) hn⟩
          rw [hstruct, I2 hnd.1]
          simp [conformsLooseV]
        · have hne : (t != vt) = true := by simpa using htv
          simp only [hne, Bool.true_or, Bool.true_and]
          refine ⟨fun hm => I1 ?_, fun hn => I2 (fun hm => hn (by simp [List.filterMap_cons, inlineTy, hm]))⟩
          simp only [List.filterMap_cons, inlineTy, List.mem_cons] at hm
          rcases hm with rfl | hm
          · exact absurd rfl htv
          · exact hm
      | field a fid sub =>
        have e1 : (Sel.field a fid sub :: xs).filterMap inlineTy = xs.filterMap inlineTy := by simp [List.filterMap_cons, inlineTy]
        rw [e1] at hnd ⊢
        have := accPayV xs pfx hxs henv.2 hnd vt fd (by omega) rest
        simpa [loosePayV] using this
      | spread g => simp [vSel] at hx
      | typename =>
        have e1 : (Sel.typename :: xs).filterMap inlineTy = xs.filterMap inlineTy := by simp [List.filterMap_cons, inlineTy]
        rw [e1] at hnd ⊢
        have := accPayV xs pfx hxs henv.2 hnd vt fd (by omega) rest
        simpa [loosePayV] using this
end

end AccV2

/-- the struct named `name` emitted for the object-level selection set `sels` accepts exactly `conformsLooseV` -/
theorem structV_accepts_iff (e : Env) (c : Ctx) (pfx name : String) (sels : List Sel) (abs : Bool)
    (ht : vSels c.s c.o abs sels = true) (henv : envSelsV e c pfx sels)
    (hs : StructEnv e name (fieldsOfV c pfx sels)) (b : Bool) (fd : Nat) (hfd : 2 * selsDepth sels + 2 ≤ fd) (j : Json) :
    okB (dePath e b fd name j) = conformsLooseV c.s c.o b sels j :=
  accStructV e c pfx name sels (accSelsV e c sels pfx) abs ht henv hs b fd hfd j

/-- the type emitted at an abstract position accepts exactly `conformsLooseAbs` -/
theorem abs_accepts_iff (e : Env) (c : Ctx) (pfx name : String) (ty : TypeId) (sub : List Sel)
    (ht : vSels c.s c.o true sub = true) (hok : absOk c.s c.o ty sub = true) (henv : envSelsV e c pfx sub)
    (hs : AbsEnv e name (fieldsOfV c pfx sub) (variantsV c pfx ty sub)) (b : Bool) (fd : Nat)
    (hfd : 2 * selsDepth sub + 3 ≤ fd) (j : Json) :
    okB (dePath e b fd name j) = conformsLooseAbs c.s c.o b ty sub j :=
  accAbs e c pfx name ty sub (accSelsV e c sub pfx) (accPayV e c sub pfx) ht hok henv hs b fd hfd j


/-! ## strict ⇒ loose -/

/-- possible types, spec side vs. generator side -/
theorem mem_vtsOfTy {s : Schema} {rt : Nat} {ty : TypeId} (ha : fragApplies s rt ty = true)
    (hrt : rt < s.objects.length) (hty : absHyp s ty) : TypeId.object rt ∈ vtsOfTy s ty := by
  cases ty with
  | interface k =>
    simp only [fragApplies] at ha
    cases ho : s.objects[rt]? with
    | none => simp [ho] at ha
    | some ob =>
      simp only [ho] at ha
      simp only [vtsOfTy, Schema.implementors, List.mem_map, List.mem_filter, TypeId.object.injEq]
      exact ⟨rt, ⟨(ob, rt), ⟨List.mk_mem_zipIdx_iff_getElem?.mpr ho, ha⟩, rfl⟩, rfl⟩
  | union u =>
    simp only [fragApplies] at ha
    cases hu : s.unions[u]? with
    | none => simp [hu] at ha
    | some un =>
      simp only [hu] at ha
      simpa [vtsOfTy, hu] using ha
  | object i => exact hty.elim
  | scalar i => exact hty.elim
  | «enum» i => exact hty.elim
  | input i => exact hty.elim

theorem find_by_name (s : Schema) : ∀ (vts : List TypeId), (vts.map (objName s)).Nodup → ∀ vt ∈ vts,
    vts.find? (fun t => objName s t == objName s vt) = some vt
  | [], _, vt, h => by simp at h
  | a :: as, hnd, vt, hv => by
    simp only [List.map_cons, List.nodup_cons] at hnd
    rcases List.mem_cons.mp hv with rfl | hv'
    · simp
    · have hne : objName s a ≠ objName s vt := fun heq => hnd.1 (by rw [heq]; exact List.mem_map_of_mem hv')
      have : (objName s a == objName s vt) = false := by simpa using hne
      rw [List.find?_cons, this]
      exact find_by_name s as hnd.2 vt hv'

/-- the own-field predicate only looks at the keys of the `.field` selections -/
theorem looseSelsV_filter (s : Schema) (o : Options) (b : Bool) (q : String × Json → Bool) (kvs : List (String × Json)) :
    ∀ (sels : List Sel), (∀ k ∈ fieldKeys s sels, ∀ v, q (k, v) = true) →
      looseSelsV s o b sels (kvs.filter q) = looseSelsV s o b sels kvs
  | [], _ => by simp [looseSelsV]
  | x :: xs, h => by
    cases x with
    | field a fid sub =>
      rw [looseSelsV.eq_2, looseSelsV.eq_2]
      cases hsf : s.fields[fid]? with
      | none => rfl
      | some sf =>
        have hk : ∀ v, q (a.getD sf.name, v) = true := h _ (by simp [fieldKeys, fieldKey, hsf, List.filterMap_cons])
        have ih := looseSelsV_filter s o b q kvs xs (fun k hk' => h k (by
          simp only [fieldKeys, List.filterMap_cons, fieldKey, hsf, Option.map_some] at hk' ⊢
          exact List.mem_cons_of_mem _ hk'))
        simp only [countKey_filter q _ hk, lookup_filter q _ hk, ih]
    | spread g =>
      have ih := looseSelsV_filter s o b q kvs xs (fun k hk' => h k (by simpa [fieldKeys, List.filterMap_cons, fieldKey] using hk'))
      simpa [looseSelsV] using ih
    | inline t sub =>
      have ih := looseSelsV_filter s o b q kvs xs (fun k hk' => h k (by simpa [fieldKeys, List.filterMap_cons, fieldKey] using hk'))
      simpa [looseSelsV] using ih
    | typename =>
      have ih := looseSelsV_filter s o b q kvs xs (fun k hk' => h k (by simpa [fieldKeys, List.filterMap_cons, fieldKey] using hk'))
      simpa [looseSelsV] using ih


/-- the value under a selected field's key, strict reading (the `accepts …` expression of `confSelV`) -/
def strictFieldV (s : Schema) : Sel → Json → Bool
  | .field _ fid sub, v =>
    match s.fields[fid]? with
    | none => false
    | some sf =>
      match sf.ty.id with
      | .scalar k => (match s.scalars[k]? with
        | some n => accepts (scalarOk n) (gtyOf sf.ty.quals) v
        | none => false)
      | .enum k => (match s.enums[k]? with
        | some _ => accepts stringOk (gtyOf sf.ty.quals) v
        | none => false)
      | .input _ => false
      | t => accepts (conformsAt s t sub) (gtyOf sf.ty.quals) v
  | _, _ => false

theorem strictLambdaV (s : Schema) (t : TypeId) (sub : List Sel) :
    (fun j => match j with
      | Json.obj kvs' => (List.range s.objects.length).any (fun rt' => fragApplies s rt' t &&
          EnumSpec.nodup (kvs'.map (·.1)) && kvs'.all (fun kv => (keysSelsV s rt' sub).contains kv.1) &&
          confSelsV s rt' sub kvs')
      | _ => false) = conformsAt s t sub := by
  funext j
  cases j <;> simp [conformsAt, conformsV, Bool.and_assoc]

theorem confSelV_field (s : Schema) (rt : Nat) (a : Option String) (fid : Nat) (sub : List Sel)
    (kvs : List (String × Json)) :
    confSelV s rt (.field a fid sub) kvs =
      (match s.fields[fid]? with
       | none => false
       | some sf =>
         match Json.lookup (a.getD sf.name) kvs with
         | none => false
         | some v => strictFieldV s (.field a fid sub) v) := by
  rw [confSelV]
  cases hsf : s.fields[fid]? with
  | none => rfl
  | some sf =>
    simp only []
    cases Json.lookup (a.getD sf.name) kvs with
    | none => rfl
    | some v =>
      simp only [strictFieldV, hsf]
      cases hid : sf.ty.id <;> first | rfl | exact congrFun (congrFun (congrArg accepts (strictLambdaV s _ sub)) _) _

theorem confSelsV_mem {s : Schema} {rt : Nat} {kvs : List (String × Json)} :
    ∀ {sels : List Sel}, confSelsV s rt sels kvs = true → ∀ x ∈ sels, confSelV s rt x kvs = true
  | [], _, _, hx => by simp at hx
  | y :: ys, h, x, hx => by
    rw [confSelsV, Bool.and_eq_true] at h
    rcases List.mem_cons.mp hx with rfl | hx'
    · exact h.1
    · exact confSelsV_mem h.2 x hx'

theorem countKey_pos_of_lookup {k : String} {v : Json} : ∀ {kvs : List (String × Json)},
    Json.lookup k kvs = some v → 1 ≤ countKey k kvs
  | [], h => by simp [Json.lookup] at h
  | (k', v') :: rest, h => by
    rw [countKey_cons]
    by_cases hk : k' = k
    · simp [hk]
    · have : (k' == k) = false := by simpa using hk
      simp only [Json.lookup, this, Bool.false_eq_true, ↓reduceIte] at h
      have := countKey_pos_of_lookup h
      omega

theorem fieldKeys_sub_respKeys (s : Schema) : ∀ (sels : List Sel), ∀ k ∈ fieldKeys s sels, k ∈ respKeys s sels
  | [], k, h => by simp [fieldKeys] at h
  | x :: xs, k, h => by
    have ih := fieldKeys_sub_respKeys s xs k
    cases x with
    | field a fid sub =>
      simp only [fieldKeys, respKeys, List.filterMap_cons, fieldKey, respKey] at h ih ⊢
      cases hsf : s.fields[fid]? with
      | none => simp only [hsf, Option.map_none] at h ⊢; exact ih h
      | some sf =>
        simp only [hsf, Option.map_some, List.mem_cons] at h ⊢
        exact h.imp id ih
    | spread g =>
      have h1 : respKey s (.spread g) = none := rfl
      simp only [fieldKeys, respKeys, List.filterMap_cons, fieldKey, h1] at h ih ⊢; exact ih h
    | inline t sub =>
      have h1 : respKey s (.inline t sub) = none := rfl
      simp only [fieldKeys, respKeys, List.filterMap_cons, fieldKey, h1] at h ih ⊢; exact ih h
    | typename =>
      have h1 : respKey s .typename = some "__typename" := rfl
      simp only [fieldKeys, respKeys, List.filterMap_cons, fieldKey, h1, List.mem_cons] at h ih ⊢
      exact .inr (ih h)

theorem typename_mem {sub : List Sel} (h : sub.any isTypename = true) : Sel.typename ∈ sub := by
  simp only [List.any_eq_true] at h
  obtain ⟨x, hx, hxt⟩ := h
  cases x <;> simp [isTypename] at hxt
  exact hx

/-- with `__typename` selected and pairwise distinct response keys, no field is keyed `__typename` -/
theorem typename_not_fieldKey (s : Schema) (sub : List Sel) (hty : sub.any isTypename = true)
    (hnd : EnumSpec.nodup (respKeys s sub) = true) : "__typename" ∉ fieldKeys s sub := by
  intro hm
  obtain ⟨x, hx, hk⟩ := List.mem_filterMap.mp hm
  have hnd' := nodup_iff'.mp hnd
  cases x with
  | field a fid sub' =>
    have h1 := find_respKey s "__typename" sub hnd' _ hx (by simpa [respKey, fieldKey] using hk)
    have h2 := find_respKey s "__typename" sub hnd' _ (typename_mem hty) rfl
    rw [h1] at h2; cases h2
  | spread g => cases hk
  | inline t sub' => cases hk
  | typename => cases hk


section SL
variable (s : Schema) (o : Options)

def SLSels (sels : List Sel) : Prop :=
  ∀ abs b rt kvs, vSels s o abs sels = true → (∀ k, countKey k kvs ≤ 1) → confSelsV s rt sels kvs = true →
    looseSelsV s o b sels kvs = true

def SLPay (sels : List Sel) : Prop :=
  ∀ rt kvs rest, vSels s o true sels = true → (∀ k, countKey k kvs ≤ 1) → confSelsV s rt sels kvs = true →
    (∀ t isub, Sel.inline t isub ∈ sels → t = .object rt →
      looseSelsV s o true isub rest = looseSelsV s o true isub kvs) →
    loosePayV s o (.object rt) sels rest = true

/-- a response object conforming at an abstract position is accepted there -/
theorem strict_loose_abs (ty : TypeId) (sub : List Sel) (IHs : SLSels s o sub) (IHp : SLPay s o sub)
    (hty : absHyp s ty) (ht : vSels s o true sub = true) (hok : absOk s o ty sub = true) (b : Bool) (j : Json)
    (h : conformsAt s ty sub j = true) : conformsLooseAbs s o b ty sub j = true := by
  obtain ⟨htn, hrk, hobj, _, hvn, _, _, hexcl⟩ := absOk_parts hok
  simp only [conformsAt, List.any_eq_true, List.mem_range, Bool.and_eq_true] at h
  obtain ⟨rt, hrt, happ, hc⟩ := h
  cases j with
  | obj kvs =>
    simp only [conformsV, Bool.and_eq_true] at hc
    obtain ⟨⟨hnd, _⟩, hconf⟩ := hc
    have hcnt := countKey_le_one_of_nodup (nodup_iff'.mp hnd)
    have hown := IHs true b rt kvs ht hcnt hconf
    -- the tag entry
    have htag : Json.lookup "__typename" kvs = some (.str (rtName s rt)) := by
      have := confSelsV_mem hconf _ (typename_mem htn)
      simp only [confSelV] at this
      split at this
      · rename_i n hl; rw [hl]; simp only [beq_iff_eq] at this; rw [this]
      · cases this
    have hnf := typename_not_fieldKey s sub htn hrk
    have hq : ∀ v : Json, (fun kv : String × Json => !(fieldKeys s sub).contains kv.1) ("__typename", v) = true := by
      intro v; simpa using hnf
    -- the entries the tagged enum sees
    obtain ⟨kvs2, hkvs2, hq2⟩ : ∃ kvs2, kvs2 = (if sub.any isFieldSel then
        kvs.filter (fun kv => !(fieldKeys s sub).contains kv.1) else kvs) ∧
        ∃ q : String × Json → Bool, kvs2 = kvs.filter q ∧ (∀ v, q ("__typename", v) = true) ∧
          (∀ t isub, Sel.inline t isub ∈ sub → ∀ k ∈ fieldKeys s isub, ∀ v, q (k, v) = true) := by
      refine ⟨_, rfl, ?_⟩
      cases sub.any isFieldSel
      · exact ⟨fun _ => true, (List.filter_eq_self.mpr (fun _ _ => rfl)).symm, fun _ => rfl, fun _ _ _ _ _ _ => rfl⟩
      · refine ⟨_, rfl, hq, ?_⟩
        intro t isub hm k hk v
        have := hexcl t isub hm k hk
        have : k ∉ fieldKeys s sub := fun h' => this (fieldKeys_sub_respKeys s sub k h')
        simpa using this
    obtain ⟨q, rfl, hqt, hqi⟩ := hq2
    have hl2 : Json.lookup "__typename" (kvs.filter q) = some (.str (rtName s rt)) := by
      rw [lookup_filter q _ hqt]; exact htag
    have hc2 : countKey "__typename" (kvs.filter q) = 1 := by
      rw [countKey_filter q _ hqt]
      have := countKey_pos_of_lookup htag
      have := hcnt "__typename"
      omega
    have hmem := mem_vtsOfTy happ hrt hty
    have hfind : (vtsOfTy s ty).find? (fun vt => objName s vt == rtName s rt) = some (.object rt) := by
      have hnd' : ((vtsOfTy s ty).map (objName s)).Nodup := by
        unfold variantNames at hvn
        exact (List.nodup_append.mp hvn).1
      exact find_by_name s _ hnd' _ hmem
    simp only [conformsLooseAbs, hown, Bool.true_and, ← hkvs2]
    unfold tagOkV
    simp only [hc2, hl2, hfind]
    apply IHp rt kvs _ ht hcnt hconf
    intro t isub hm _
    rw [List.filter_filter]
    apply looseSelsV_filter
    intro k hk v
    have h1 := hqi t isub hm k hk v
    have h2 : k ≠ "__typename" := by
      intro heq
      have := hexcl t isub hm k hk
      rw [heq] at this
      exact this (List.mem_filterMap.mpr ⟨_, typename_mem htn, rfl⟩)
    simp [h1, h2]
  | null => simp [conformsV] at hc
  | bool _ => simp [conformsV] at hc
  | int _ => simp [conformsV] at hc
  | num _ => simp [conformsV] at hc
  | str _ => simp [conformsV] at hc
  | arr _ => simp [conformsV] at hc

mutual
  theorem slField : ∀ (x : Sel) (abs b : Bool) (v : Json), vSel s o abs x = true → strictFieldV s x v = true →
      looseFieldV s o b x v = true
    | .field a fid sub, abs, b, v => by
      intro ht h
      have IHs := slSels sub
      have IHp := slPay sub
      rw [vSel] at ht
      simp only [strictFieldV] at h
      rw [looseFieldV]
      cases hsf : s.fields[fid]? with
      | none => simp [hsf] at h
      | some sf =>
        simp only [hsf, Bool.and_eq_true] at h ht ⊢
        obtain ⟨_, hty⟩ := ht
        cases hid : sf.ty.id with
        | scalar k => simp only [hid] at h ⊢; exact h
        | «enum» k => simp only [hid] at h ⊢; exact h
        | input k => simp only [hid] at h; cases h
        | object i =>
          simp only [hid, Bool.and_eq_true] at h hty ⊢
          cases ho : s.objects[i]? with
          | none => simp [ho] at hty
          | some ob =>
            simp only []
            rw [looseLambdaV]
            refine (accepts_mono _ _ ?_ _).2 v h
            intro j hj
            simp only [conformsAt, List.any_eq_true, List.mem_range, Bool.and_eq_true] at hj
            obtain ⟨rt, _, _, hc⟩ := hj
            cases j with
            | obj kvs =>
              simp only [conformsV, Bool.and_eq_true] at hc
              exact IHs false b rt kvs hty.1.2 (countKey_le_one_of_nodup (nodup_iff'.mp hc.1.1)) hc.2
            | null => simp [conformsV] at hc
            | bool _ => simp [conformsV] at hc
            | int _ => simp [conformsV] at hc
            | num _ => simp [conformsV] at hc
            | str _ => simp [conformsV] at hc
            | arr _ => simp [conformsV] at hc
        | interface k =>
          simp only [hid, Bool.and_eq_true] at h hty ⊢
          rw [looseLambdaAbs]
          exact (accepts_mono _ _ (fun j hj => strict_loose_abs s o (.interface k) sub IHs IHp hty.1.1 hty.1.2 hty.2 b j hj) _).2 v h
        | union k =>
          simp only [hid, Bool.and_eq_true] at h hty ⊢
          rw [looseLambdaAbs]
          exact (accepts_mono _ _ (fun j hj => strict_loose_abs s o (.union k) sub IHs IHp hty.1.1 hty.1.2 hty.2 b j hj) _).2 v h
    | .spread _, _, _, _ => by intro _ h; simp [strictFieldV] at h
    | .inline _ _, _, _, _ => by intro _ h; simp [strictFieldV] at h
    | .typename, _, _, _ => by intro _ h; simp [strictFieldV] at h
  theorem slSels : ∀ (sels : List Sel), SLSels s o sels
    | [] => by intro _ _ _ _ _ _ _; simp [looseSelsV]
    | x :: xs => by
      intro abs b rt kvs ht hc h
      obtain ⟨hx, hxs⟩ := vSels_cons ht
      rw [confSelsV, Bool.and_eq_true] at h
      have ih := slSels xs abs b rt kvs hxs hc h.2
      cases x with
      | field a fid sub =>
        have hcx := h.1
        rw [confSelV_field] at hcx
        rw [looseSelsV.eq_2, ih, Bool.and_true]
        cases hsf : s.fields[fid]? with
        | none => simp [hsf] at hcx
        | some sf =>
          simp only [hsf] at hcx ⊢
          cases hl : Json.lookup (a.getD sf.name) kvs with
          | none => simp [hl] at hcx
          | some v =>
            simp only [hl] at hcx ⊢
            simp [hc, slField _ abs b v hx hcx]
      | spread g => simpa [looseSelsV] using ih
      | inline t sub => simpa [looseSelsV] using ih
      | typename => simpa [looseSelsV] using ih
  theorem slPay : ∀ (sels : List Sel), SLPay s o sels
    | [] => by intro _ _ _ _ _ _ _; simp [loosePayV]
    | x :: xs => by
      intro rt kvs rest ht hc h heq
      obtain ⟨hx, hxs⟩ := vSels_cons ht
      rw [confSelsV, Bool.and_eq_true] at h
      have ih := slPay xs rt kvs rest hxs hc h.2 (fun t isub hm => heq t isub (List.mem_cons_of_mem _ hm))
      cases x with
      | inline t isub =>
        rw [loosePayV.eq_2, ih, Bool.and_true]
        by_cases htv : t = .object rt
        · subst htv
          have hcx := h.1
          simp only [confSelV, fragApplies, beq_self_eq_true, Bool.not_true, Bool.false_or] at hcx
          simp only [vSel, Bool.and_eq_true] at hx
          rw [heq _ isub (by simp) rfl, slSels isub false true rt kvs hx.1.2 hc hcx]
          simp
        · have : (t != TypeId.object rt) = true := by simpa using htv
          simp [this]
      | field a fid sub => simpa [loosePayV] using ih
      | spread g => simpa [loosePayV] using ih
      | typename => simpa [loosePayV] using ih
end

end SL

/-- every response conforming to the specification is accepted (`conformsV → conformsLooseV`) -/
theorem conformsV_loose (s : Schema) (o : Options) (b : Bool) (rt : Nat) (sels : List Sel) (j : Json)
    (ht : vSels s o false sels = true) (h : conformsV s rt sels j = true) : conformsLooseV s o b sels j = true := by
  cases j with
  | obj kvs =>
    simp only [conformsV, Bool.and_eq_true] at h
    exact slSels s o sels false b rt kvs ht (countKey_le_one_of_nodup (nodup_iff'.mp h.1.1)) h.2
  | null => simp [conformsV] at h
  | bool _ => simp [conformsV] at h
  | int _ => simp [conformsV] at h
  | num _ => simp [conformsV] at h
  | str _ => simp [conformsV] at h
  | arr _ => simp [conformsV] at h

end E2E
end C01
end GqlVerif
