import GqlVerif.Model.StrLit
import GqlVerif.Proofs.C05Body
/-!
# C05 — the `QUERY` constant survives `quote!`'s string-literal escaping and rustc's lexer (`Model/StrLit.lean`)

For every string `s` and every `p : Char → Bool` (the Unicode tables of `char::escape_debug`, a parameter):
* `isEscapeOf_escapeWith`, `isEscapeOf_escapeRustcWith` — what proc_macro2's fallback printer / rustc's own
  `proc_macro::Literal::string` emit satisfies the table-free relation `IsEscapeOf`;
* `unescape_of_isEscapeOf` — soundness of the relation: `IsEscapeOf lit s → unescape lit = some s` (whatever printer
  produced the literal);
* `unescape_escapeWith`, `unescape_escapeRustcWith`, `litValue_string_token`, `litValue_stringToken`,
  `litValue_stringTokenRustc` — the round trips;
* `run_append_of_isEscapeOf`, `bare_cr_rejected` — after a correctly spelled prefix a bare CR is rejected;
* `check_ok_iff`, `check_stringToken`, `check_stringTokenRustc` — the driver request `(strlit tok src)`;
* `query_constant_roundtrip`, `query_constant_roundtrip_rustc` — composed with `C05Body.body_of_generate`;
* kernel-evaluated instances and negative witnesses: `demo_*`, `other_spellings`, `rejected_literals`,
  `continuation_and_crlf`, `nul_before_digit`, `bare_cr_witness`.
-/

namespace GqlVerif
namespace C05L
open StrLit

/-! ## hex digits -/

theorem hexDigit_spec : ∀ d, d < 16 →
    hexVal? (hexDigit d) = some d ∧ hexDigit d ≠ '}' ∧ hexDigit d ≠ '_' := by decide

theorem arith (a d P m : Nat) : (a * 16 + d) * P + m = a * (P * 16) + (m + P * d) := by
  rw [Nat.add_mul, Nat.mul_assoc, Nat.mul_comm 16 P, Nat.mul_comm d P]
  ac_rfl

theorem scanU_hexFixed (k : Nat) : ∀ (n acc nd : Nat) (rest : List Char), nd + k ≤ 6 →
    scanU (hexFixed k n ++ '}' :: rest) acc nd = some (acc * 16 ^ k + n % 16 ^ k, rest) := by
  induction k with
  | zero => intro n acc nd rest _; simp [hexFixed, scanU, Nat.mod_one]
  | succ k ih =>
    intro n acc nd rest hle
    have hd : n / 16 ^ k % 16 < 16 := Nat.mod_lt _ (by decide)
    obtain ⟨h1, h2, h3⟩ := hexDigit_spec _ hd
    have hnd : nd < 6 := by omega
    simp only [hexFixed, List.cons_append, scanU, h1, h2, h3, if_false, hnd, if_true]
    rw [ih n _ _ rest (by omega), Nat.mod_pow_succ (x := n) (b := 16) (k := k), Nat.pow_succ]
    rw [arith]

theorem hexMore_spec (n : Nat) (h : n < 0x110000) : hexMore n + 1 ≤ 6 ∧ n < 16 ^ (hexMore n + 1) := by
  unfold hexMore
  split
  · exact ⟨by omega, by omega⟩
  · split
    · exact ⟨by omega, by omega⟩
    · split
      · exact ⟨by omega, by omega⟩
      · split
        · exact ⟨by omega, by omega⟩
        · split
          · exact ⟨by omega, by omega⟩
          · exact ⟨by omega, by omega⟩

theorem toNat_lt (c : Char) : c.toNat < 0x110000 := by
  have : c.toNat.isValidChar := c.valid
  unfold Nat.isValidChar at this
  omega

/-! ## the printers' output is accepted by the relation -/

theorem matchEscape_u_hexOf (c : Char) (rest : List Char) :
    matchEscape c 'u' ('{' :: (hexOf c.toNat ++ '}' :: rest)) = some rest := by
  obtain ⟨h6, hlt⟩ := hexMore_spec c.toNat (toNat_lt c)
  have hd : c.toNat / 16 ^ hexMore c.toNat % 16 < 16 := Nat.mod_lt _ (by decide)
  obtain ⟨h1, _, _⟩ := hexDigit_spec _ hd
  have hval : c.toNat / 16 ^ hexMore c.toNat % 16 * 16 ^ hexMore c.toNat + c.toNat % 16 ^ hexMore c.toNat
      = c.toNat := by
    generalize hexMore c.toNat = m at hlt
    have := Nat.mod_pow_succ (x := c.toNat) (b := 16) (k := m)
    rw [Nat.mod_eq_of_lt hlt] at this
    rw [Nat.mul_comm]; omega
  simp [matchEscape, hexOf, hexFixed, h1, scanU_hexFixed _ _ _ _ _ (by omega : 1 + hexMore c.toNat ≤ 6), hval]

theorem matchChar_escapeDebug (p : Char → Bool) (c : Char) (rest : List Char) :
    matchChar c (escapeDebug p c ++ rest) = some rest := by
  unfold escapeDebug
  split
  · subst c; simp [matchChar, matchEscape]
  split
  · subst c; simp [matchChar, matchEscape]
  split
  · subst c; simp [matchChar, matchEscape]
  split
  · subst c; simp [matchChar, matchEscape]
  split
  · subst c; simp [matchChar, matchEscape]
  split
  · subst c; simp [matchChar, matchEscape]
  split
  · subst c; simp [matchChar, matchEscape]
  split
  · have := matchEscape_u_hexOf c rest
    simpa [matchChar] using this
  · simp [matchChar, *]

theorem matchChar_escChar (p : Char → Bool) (c : Char) (oct : Bool) (rest : List Char) :
    matchChar c (escChar p c oct ++ rest) = some rest := by
  unfold escChar
  split
  · subst c
    cases oct
    · simp [matchChar, matchEscape]
    · simp [matchChar, matchEscape, hexVal?]
  split
  · subst c; simp [matchChar]
  · exact matchChar_escapeDebug p c rest

/-- **the fallback printer's output satisfies the table-free relation**, whatever the Unicode tables say -/
theorem isEscapeOf_escapeWith (p : Char → Bool) (s : List Char) : IsEscapeOf (escapeWith p s) s = true := by
  induction s with
  | nil => rfl
  | cons c cs ih => simp only [escapeWith, IsEscapeOf, matchChar_escChar, ih]

/-- … and so does rustc's own `proc_macro::Literal::string` (always `\0`) -/
theorem isEscapeOf_escapeRustcWith (p : Char → Bool) (s : List Char) :
    IsEscapeOf (escapeRustcWith p s) s = true := by
  induction s with
  | nil => rfl
  | cons c cs ih =>
    have h : matchChar c ((if c = '\'' then ['\''] else escapeDebug p c) ++ escapeRustcWith p cs)
        = some (escapeRustcWith p cs) := by
      split
      · subst c; simp [matchChar]
      · exact matchChar_escapeDebug p c _
    simp only [escapeRustcWith, IsEscapeOf, h, ih]

/-! ## soundness of the relation w.r.t. rustc's un-escaper -/

@[simp] theorem map_emit_none (x : Option (List Char)) : x.map (emit none) = x := by cases x <;> rfl
@[simp] theorem map_emit_some (c : Char) (x : Option (List Char)) :
    x.map (emit (some c)) = x.map (c :: ·) := by cases x <;> rfl

theorem run_step {st st' : St} {c : Char} {out : Option Char} (cs : List Char)
    (h : step st c = some (st', out)) : run st (c :: cs) = (run st' cs).map (emit out) := by
  simp only [run, h]

theorem run_reject {st : St} {c : Char} (cs : List Char) (h : step st c = none) : run st (c :: cs) = none := by
  simp only [run, h]

theorem run_un_close (acc nd : Nat) (cs : List Char) :
    run (.un acc nd) ('}' :: cs) =
      if acc.isValidChar then (run .normal cs).map (Char.ofNat acc :: ·) else none := by
  split
  · rename_i hv
    rw [run_step (st' := .normal) (out := some (Char.ofNat acc)) _ (by simp only [step, if_true, hv]), map_emit_some]
  · rename_i hv
    exact run_reject _ (by simp only [step, if_true, hv, if_false])

theorem run_un_underscore (acc nd : Nat) (cs : List Char) :
    run (.un acc nd) ('_' :: cs) = run (.un acc nd) cs := by
  rw [run_step (st' := .un acc nd) (out := none) _ (by simp [step]), map_emit_none]

theorem run_un_digit {c : Char} {h : Nat} (acc nd : Nat) (cs : List Char) (h1 : c ≠ '}') (h2 : c ≠ '_')
    (hh : hexVal? c = some h) (hnd : nd < 6) :
    run (.un acc nd) (c :: cs) = run (.un (acc * 16 + h) (nd + 1)) cs := by
  rw [run_step (st' := .un (acc * 16 + h) (nd + 1)) (out := none) _ (by simp [step, h1, h2, hh, hnd]), map_emit_none]

theorem scanU_run : ∀ (l : List Char) (acc nd v : Nat) (rest : List Char), scanU l acc nd = some (v, rest) →
    run (.un acc nd) l = if v.isValidChar then (run .normal rest).map (Char.ofNat v :: ·) else none := by
  intro l
  induction l with
  | nil => intro acc nd v rest h; simp [scanU] at h
  | cons c cs ih =>
    intro acc nd v rest h
    simp only [scanU] at h
    split at h
    · simp only [Option.some.injEq, Prod.mk.injEq] at h
      obtain ⟨rfl, rfl⟩ := h
      rename_i hc; subst hc
      exact run_un_close _ _ _
    · split at h
      · rename_i _ hc; subst hc
        rw [run_un_underscore]; exact ih _ _ _ _ h
      · split at h
        · split at h
          · rename_i h1 h2 _ hv hh hnd
            rw [run_un_digit _ _ _ h1 h2 hh hnd]; exact ih _ _ _ _ h
          · simp at h
        · simp at h

theorem ofNat_of_toNat_eq {c : Char} {n : Nat} (h : c.toNat = n) : Char.ofNat n = c := by
  rw [← h, Char.ofNat_toNat]

theorem run_bs_x {h l : Char} {hv lv : Nat} (r : List Char) (h1 : hexVal? h = some hv) (h2 : hexVal? l = some lv)
    (h7 : hv ≤ 7) :
    run .bs ('x' :: h :: l :: r) = (run .normal r).map (Char.ofNat (hv * 16 + lv) :: ·) := by
  rw [run_step (st' := .x1) (out := none) _ (by decide), map_emit_none,
    run_step (st' := .x2 hv) (out := none) _ (by simp only [step, h1, h7, if_true]), map_emit_none,
    run_step (st' := .normal) (out := some (Char.ofNat (hv * 16 + lv))) _ (by simp only [step, h2]), map_emit_some]

theorem run_bs_u {d : Char} {h : Nat} (r : List Char) (h1 : hexVal? d = some h) :
    run .bs ('u' :: '{' :: d :: r) = run (.un h 1) r := by
  rw [run_step (st' := .u0) (out := none) _ (by decide), map_emit_none,
    run_step (st' := .u1) (out := none) _ (by decide), map_emit_none,
    run_step (st' := .un h 1) (out := none) _ (by simp only [step, h1]), map_emit_none]

theorem run_bs_fixed {e v : Char} (r : List Char) (h : step .bs e = some (.normal, some v)) :
    run .bs (e :: r) = (run .normal r).map (v :: ·) := by
  rw [run_step _ h, map_emit_some]

theorem matchEscape_run {c e : Char} {r r' : List Char} (h : matchEscape c e r = some r') :
    run .bs (e :: r) = (run .normal r').map (c :: ·) := by
  unfold matchEscape at h
  split at h
  · split at h
    · rename_i h1 h2; subst h1 h2; cases h; exact run_bs_fixed _ (by decide)
    · simp at h
  split at h
  · split at h
    · rename_i h1 h2; subst h1 h2; cases h; exact run_bs_fixed _ (by decide)
    · simp at h
  split at h
  · split at h
    · rename_i h1 h2; subst h1 h2; cases h; exact run_bs_fixed _ (by decide)
    · simp at h
  split at h
  · split at h
    · rename_i h1 h2; subst h1 h2; cases h; exact run_bs_fixed _ (by decide)
    · simp at h
  split at h
  · split at h
    · rename_i h1 h2; subst h1 h2; cases h; exact run_bs_fixed _ (by decide)
    · simp at h
  split at h
  · split at h
    · rename_i h1 h2; subst h1 h2; cases h; exact run_bs_fixed _ (by decide)
    · simp at h
  split at h
  · split at h
    · rename_i h1 h2; subst h1 h2; cases h; exact run_bs_fixed _ (by decide)
    · simp at h
  split at h
  · -- `\\xHH`
    rename_i hx; subst hx
    split at h
    · split at h
      · split at h
        · rename_i hv lv h1 h2 hc
          cases h
          rw [run_bs_x _ h1 h2 hc.1, ofNat_of_toNat_eq hc.2]
        · simp at h
      · simp at h
    · simp at h
  split at h
  · -- `\\u{…}`
    rename_i hu; subst hu
    split at h
    · split at h
      · rename_i hb; subst hb
        split at h
        · split at h
          · split at h
            · rename_i hd _ v rest hs hv
              cases h
              have hvalid : v.isValidChar := hv ▸ (c.valid : c.toNat.isValidChar)
              rw [run_bs_u _ hd, scanU_run _ _ _ _ _ hs, if_pos hvalid, ofNat_of_toNat_eq hv.symm]
            · simp at h
          · simp at h
        · simp at h
      · simp at h
    · simp at h
  · simp at h

theorem matchChar_run {c : Char} {lit r : List Char} (h : matchChar c lit = some r) :
    run .normal lit = (run .normal r).map (c :: ·) := by
  cases lit with
  | nil => simp [matchChar] at h
  | cons d t =>
    simp only [matchChar] at h
    split at h
    · rename_i hd; subst hd
      cases t with
      | nil => simp at h
      | cons e t' =>
        rw [run_step (st' := .bs) (out := none) _ (by decide), map_emit_none]
        exact matchEscape_run h
    · split at h
      · simp at h
      · split at h
        · rename_i h1 h2 h3
          cases h; subst h3
          have hq : d ≠ '"' := fun e => h2 (Or.inl e)
          have hr : d ≠ '\r' := fun e => h2 (Or.inr e)
          rw [run_step (st' := .normal) (out := some d) _ (by simp [step, normalStep, h1, hq, hr]), map_emit_some]
        · simp at h

/-- **soundness of the relation**: whatever printer produced the literal, if `IsEscapeOf lit s` holds then rustc's
    value of the literal is `s` -/
theorem unescape_of_isEscapeOf {lit s : List Char} (h : IsEscapeOf lit s = true) : unescape lit = some s := by
  unfold unescape
  induction s generalizing lit with
  | nil =>
    simp only [IsEscapeOf, List.isEmpty_iff] at h
    subst h; rfl
  | cons c cs ih =>
    simp only [IsEscapeOf] at h
    split at h
    · rename_i r hm
      rw [matchChar_run hm, ih h]; rfl
    · simp at h

/-- **round trip of the fallback printer**, for every string and every Unicode table -/
theorem unescape_escapeWith (p : Char → Bool) (s : List Char) : unescape (escapeWith p s) = some s :=
  unescape_of_isEscapeOf (isEscapeOf_escapeWith p s)

/-- … and of rustc's own `proc_macro::Literal::string` (the derive path) -/
theorem unescape_escapeRustcWith (p : Char → Bool) (s : List Char) : unescape (escapeRustcWith p s) = some s :=
  unescape_of_isEscapeOf (isEscapeOf_escapeRustcWith p s)

/-! ## whole tokens -/

theorem litValue_quoted (lit : List Char) : litValue ('"' :: (lit ++ ['"'])) = unescape lit := by
  simp [litValue]

theorem cookedContent_quoted (lit : List Char) : cookedContent ('"' :: (lit ++ ['"'])) = some lit := by
  simp [cookedContent]

/-- the whole token `"…"` the fallback printer emits has the value `s` -/
theorem litValue_string_token (p : Char → Bool) (s : List Char) :
    litValue ('"' :: escapeWith p s ++ ['"']) = some s :=
  (litValue_quoted (escapeWith p s)).trans (unescape_escapeWith p s)

theorem litValue_stringToken (p : Char → Bool) (s : List Char) : litValue (stringToken p s) = some s :=
  litValue_string_token p s

theorem litValue_stringTokenRustc (p : Char → Bool) (s : List Char) : litValue (stringTokenRustc p s) = some s := by
  unfold stringTokenRustc; rw [litValue_quoted, unescape_escapeRustcWith]

/-! ## prefixes; a raw CR is rejected -/

theorem scanU_append (rest : List Char) : ∀ (l : List Char) (acc nd v : Nat) (r : List Char),
    scanU l acc nd = some (v, r) → scanU (l ++ rest) acc nd = some (v, r ++ rest) := by
  intro l
  induction l with
  | nil => intro acc nd v r h; simp [scanU] at h
  | cons c cs ih =>
    intro acc nd v r h
    simp only [scanU, List.cons_append] at h ⊢
    split at h
    · simp_all
    · split at h
      · simp only [*, if_true]; exact ih _ _ _ _ h
      · split at h
        · split at h
          · simp only [*, if_true, if_false]; exact ih _ _ _ _ h
          · simp at h
        · simp at h

theorem matchEscape_append {c e : Char} {r r' : List Char} (rest : List Char)
    (h : matchEscape c e r = some r') : matchEscape c e (r ++ rest) = some (r' ++ rest) := by
  unfold matchEscape at h ⊢
  split at h
  · split at h <;> simp_all
  split at h
  · split at h <;> simp_all
  split at h
  · split at h <;> simp_all
  split at h
  · split at h <;> simp_all
  split at h
  · split at h <;> simp_all
  split at h
  · split at h <;> simp_all
  split at h
  · split at h <;> simp_all
  split at h
  · split at h
    · split at h
      · split at h
        · simp_all
        · simp at h
      · simp at h
    · simp at h
  split at h
  · split at h
    · split at h
      · split at h
        · split at h
          · split at h
            · rename_i hs _
              simp_all [scanU_append rest _ _ _ _ _ hs]
            · simp at h
          · simp at h
        · simp at h
      · simp at h
    · simp at h
  · simp at h

theorem matchChar_append {c : Char} {lit r : List Char} (rest : List Char)
    (h : matchChar c lit = some r) : matchChar c (lit ++ rest) = some (r ++ rest) := by
  cases lit with
  | nil => simp [matchChar] at h
  | cons d t =>
    simp only [matchChar, List.cons_append] at h ⊢
    split at h
    · cases t with
      | nil => simp at h
      | cons e t' => simp only [*, if_true, List.cons_append] at h ⊢; exact matchEscape_append rest h
    · split at h
      · simp at h
      · split at h
        · simp_all
        · simp at h

/-- a correctly spelled prefix is un-escaped to what it spells, whatever follows -/
theorem run_append_of_isEscapeOf {pre s : List Char} (rest : List Char) (h : IsEscapeOf pre s = true) :
    run .normal (pre ++ rest) = (run .normal rest).map (s ++ ·) := by
  induction s generalizing pre with
  | nil =>
    simp only [IsEscapeOf, List.isEmpty_iff] at h
    subst h; simp
  | cons c cs ih =>
    simp only [IsEscapeOf] at h
    split at h
    · rename_i r hm
      rw [matchChar_run (matchChar_append rest hm), ih h, Option.map_map]; rfl
    · simp at h

theorem run_bare_cr (c : Char) (post : List Char) (hc : c ≠ '\n') : run .normal ('\r' :: c :: post) = none := by
  rw [run_step (st' := .cr) (out := none) _ (by decide), map_emit_none]
  exact run_reject _ (by simp [step, hc])

/-- **a bare CR inside a literal is rejected**: after any correctly spelled prefix, a raw CR that is not followed by
    LF (or ends the literal) makes rustc reject the literal — a printer that left CR raw would produce code that
    does not compile (it could not silently change the value) -/
theorem bare_cr_rejected {pre s : List Char} (h : IsEscapeOf pre s = true) :
    unescape (pre ++ ['\r']) = none ∧
    ∀ (c : Char) (post : List Char), c ≠ '\n' → unescape (pre ++ '\r' :: c :: post) = none := by
  unfold unescape
  refine ⟨?_, fun c post hc => ?_⟩
  · rw [run_append_of_isEscapeOf _ h]
    have : run .normal ['\r'] = none := by decide
    rw [this]; rfl
  · rw [run_append_of_isEscapeOf _ h, run_bare_cr c post hc]; rfl

/-! ## the driver's verdict -/

theorem isRawToken_quoted (l : List Char) : isRawToken ('"' :: l) = false := by
  simp [isRawToken]

/-- what `(ok)` of the driver request `(strlit tok src)` means -/
theorem check_ok_iff (tok src : List Char) :
    check tok src = .ok ↔
      litValue tok = some src ∧
        (isRawToken tok = true ∨ ∃ lit, cookedContent tok = some lit ∧ IsEscapeOf lit src = true) := by
  unfold check
  cases hv : litValue tok with
  | none => simp
  | some v =>
    by_cases hvs : v = src
    · subst hvs
      cases hr : isRawToken tok with
      | true => simp
      | false =>
        cases hc : cookedContent tok with
        | none => simp
        | some lit => cases hi : IsEscapeOf lit v <;> simp [hi]
    · simp [hvs]

/-- the fallback printer's token always gets `(ok)` -/
theorem check_stringToken (p : Char → Bool) (s : List Char) : check (stringToken p s) s = .ok := by
  rw [check_ok_iff]
  exact ⟨litValue_stringToken p s, Or.inr ⟨_, cookedContent_quoted _, isEscapeOf_escapeWith p s⟩⟩

theorem check_stringTokenRustc (p : Char → Bool) (s : List Char) : check (stringTokenRustc p s) s = .ok := by
  rw [check_ok_iff]
  exact ⟨litValue_stringTokenRustc p s, Or.inr ⟨_, cookedContent_quoted _, isEscapeOf_escapeRustcWith p s⟩⟩

/-! ## composed with C05: the request body's `query` after the literal round trip -/

/-- **`QUERY` (and `OPERATION_NAME`) survive `quote!`'s string-literal escaping and rustc's lexer**: for a module of
    `Codegen.generate`, the value rustc gives the emitted `pub const QUERY: &str = "…";` is the document text
    passed in, character for character; hence the body `build_query` serializes — built from the *compiled*
    constants `q`, `n` — carries the source text under `query` and the operation's name as written under
    `operationName`.  For every `p` (Unicode tables of `char::escape_debug`). -/
theorem query_constant_roundtrip (p : Char → Bool) (s : Schema) (cs : CaseFns) (o : Options) (text : String)
    (doc : QDoc) (ms : List Module) (M : Module) (v : Json)
    (h : Codegen.generate s cs o text doc = .ok ms) (hM : M ∈ ms) :
    litValue (stringToken p M.query.toList) = some text.toList ∧
    litValue (stringToken p M.operationName.toList) = some M.operationName.toList ∧
    ∀ q n : List Char,
      litValue (stringToken p M.query.toList) = some q →
      litValue (stringToken p M.operationName.toList) = some n →
      ∃ name, name ∈ Valid.opNames doc ∧ M.operationName = name ∧
        Envelope.serQueryBody { variables := v, query := String.ofList q, operationName := String.ofList n } =
          .obj [("variables", v), ("query", .str text), ("operationName", .str name)] := by
  obtain ⟨htext, _, i, _, _, _, _, hith, _⟩ := C05Body.body_of_generate s cs o text doc ms M h hM
  refine ⟨by rw [litValue_stringToken, htext], litValue_stringToken _ _, ?_⟩
  intro q n hq hn
  rw [litValue_stringToken] at hq hn
  cases hq; cases hn
  refine ⟨M.operationName, List.mem_of_getElem? hith, rfl, ?_⟩
  simp only [Envelope.serQueryBody, String.ofList_toList, htext]

/-- the same for the derive path (rustc's own `proc_macro::Literal::string`) -/
theorem query_constant_roundtrip_rustc (p : Char → Bool) (s : Schema) (cs : CaseFns) (o : Options) (text : String)
    (doc : QDoc) (ms : List Module) (M : Module)
    (h : Codegen.generate s cs o text doc = .ok ms) (hM : M ∈ ms) :
    litValue (stringTokenRustc p M.query.toList) = some text.toList := by
  obtain ⟨htext, _⟩ := C05Body.body_of_generate s cs o text doc ms M h hM
  rw [litValue_stringTokenRustc, htext]

/-! ## instances (kernel-evaluated) -/

/-- a stand-in for `escape_debug`'s tables on the characters used below: C0 controls, DEL, U+0301 (COMBINING ACUTE
    ACCENT, `Grapheme_Extend`), U+200B (ZERO WIDTH SPACE, `Cf`: not printable) -/
def pDemo (c : Char) : Bool := c.toNat < 0x20 || c.toNat == 0x7f || c.toNat == 0x301 || c.toNat == 0x200b

/-- `"`, `\`, CR LF, TAB, NUL before `7`, NUL before `8`, U+0301, U+200B, an emoji, braces, `'`, a `$variable` -/
def demo : List Char :=
  "query Q($a: String = \"x\\y\") {\r\n\tf(a: $a) # \x007 \x008 é ​ 😀 {'}\n}".toList

/-- the token text the fallback printer emits for `demo` -/
theorem demo_token :
    stringToken pDemo demo =
      ("\"query Q($a: String = \\\"x\\\\y\\\") {\\r\\n\\tf(a: $a) # \\x007 \\08 e\\u{301} \\u{200b} 😀 {'}\\n}\"").toList := by
  decide

theorem demo_unescape : unescape (escapeWith pDemo demo) = some demo := by decide
theorem demo_isEscapeOf : IsEscapeOf (escapeWith pDemo demo) demo = true := by decide
theorem demo_litValue : litValue (stringToken pDemo demo) = some demo := by decide
theorem demo_check : check (stringToken pDemo demo) demo = .ok := by decide
/-- rustc's own printer on the same string: `\0` also before `7` -/
theorem demo_token_rustc :
    stringTokenRustc pDemo demo =
      ("\"query Q($a: String = \\\"x\\\\y\\\") {\\r\\n\\tf(a: $a) # \\07 \\08 e\\u{301} \\u{200b} 😀 {'}\\n}\"").toList := by
  decide
theorem demo_litValue_rustc : litValue (stringTokenRustc pDemo demo) = some demo := by decide
/-- with empty tables (nothing written as `\u{…}`) the token differs, the value does not -/
theorem demo_litValue_noTables : litValue (stringToken (fun _ => false) demo) = some demo := by decide
set_option maxRecDepth 4096 in
/-- with tables that escape everything they are asked about -/
theorem demo_litValue_allTables : litValue (stringToken (fun _ => true) demo) = some demo := by decide

/-- other legal spellings are accepted by the relation (upper-case hex, leading zeros, `_`, `\x`), e.g. from another
    printer version; a raw string token is evaluated by its own rule -/
theorem other_spellings :
    IsEscapeOf "\\u{00_41}\\x42\\u{1F600}\\u{301}\\'".toList "AB😀́'".toList = true ∧
    litValue "r#\"a\"b\\n\"#".toList = some "a\"b\\n".toList ∧
    check "r#\"a\"b\\n\"#".toList "a\"b\\n".toList = .ok ∧
    litValue "r\"a\r\nb\"".toList = some "a\nb".toList := by decide

/-- what rustc rejects, `unescape` rejects: unknown escape, `\x80`, empty / leading-underscore / overlong /
    surrogate / out-of-range `\u{…}`, missing braces, a raw quote, a lone trailing backslash -/
theorem rejected_literals :
    unescape "\\a".toList = none ∧ unescape "\\x80".toList = none ∧ unescape "\\x7".toList = none ∧
    unescape "\\u{}".toList = none ∧ unescape "\\u{_41}".toList = none ∧ unescape "\\u{0000041}".toList = none ∧
    unescape "\\u{d800}".toList = none ∧ unescape "\\u{110000}".toList = none ∧ unescape "\\u41".toList = none ∧
    unescape "a\"b".toList = none ∧ unescape "abc\\".toList = none ∧ unescape "\\N".toList = none ∧
    unescape "\\u{10FFFF}\\u{00004_1__}\\x7F".toList = some [Char.ofNat 0x10FFFF, 'A', Char.ofNat 0x7f] := by decide

/-- line continuation and CRLF (accepted by rustc, hence by `unescape`; not by `IsEscapeOf`: the driver answers
    `spelling`) -/
theorem continuation_and_crlf :
    unescape "a\\\n   \t\n\n  b".toList = some "ab".toList ∧
    unescape "a\\\r\n   b".toList = some "ab".toList ∧
    unescape "a\\\n \r b".toList = some "ab".toList ∧
    unescape "a\\\n\\\n  \\x41".toList = some "aA".toList ∧
    unescape "a\\\rb".toList = none ∧
    unescape "a\r\nb".toList = some "a\nb".toList ∧
    IsEscapeOf "a\r\nb".toList "a\nb".toList = false ∧
    check "\"a\\\n  b\"".toList "ab".toList = .spelling ∧
    check "\"a\\nb\"".toList "a\nc".toList = .value "a\nb".toList := by decide

/-- **the `\0`-before-octal-digit rule is cosmetic.**  Rust has no octal escapes: `\07` is NUL followed by `7`, the
    same value as proc_macro2's `\x007`.  proc_macro2's own comment gives the reason for the rule — "circumvent
    clippy::octal_escapes lint" (the lint warns that `\07` *looks like* a C octal escape) — and rustc's
    `proc_macro::Literal::string` (`escapeRustcWith`) indeed writes `\0` there; both printers round-trip on every
    string (`unescape_escapeWith`, `unescape_escapeRustcWith`).  A printer without the rule would NOT change the
    value. -/
theorem nul_before_digit :
    unescape "\\07".toList = some ['\x00', '7'] ∧ unescape "\\x007".toList = some ['\x00', '7'] ∧
    IsEscapeOf "\\07".toList ['\x00', '7'] = true ∧ IsEscapeOf "\\x007".toList ['\x00', '7'] = true ∧
    escapeWith (fun _ => false) ['\x00', '7'] = "\\x007".toList ∧
    escapeRustcWith (fun _ => false) ['\x00', '7'] = "\\07".toList ∧
    escapeWith (fun _ => false) ['\x00', '8'] = "\\08".toList ∧
    escapeWith (fun _ => false) ['\x00'] = "\\0".toList := by decide

/-- concrete: `"a<CR>b"` is not a string literal; `"a<CR><LF>b"` is one — with the value `a<LF>b`: a printer that
    left CR LF raw WOULD silently change the value (the relation rejects that spelling, the driver reports it) -/
theorem bare_cr_witness :
    unescape ['a', '\r', 'b'] = none ∧ litValue ['"', 'a', '\r', 'b', '"'] = none ∧
    litValue ['"', 'a', '\r', '\n', 'b', '"'] = some ['a', '\n', 'b'] ∧
    check ['"', 'a', '\r', '\n', 'b', '"'] ['a', '\r', '\n', 'b'] = .value ['a', '\n', 'b'] ∧
    litValue ['r', '"', 'a', '\r', 'b', '"'] = none := by decide

end C05L
end GqlVerif
