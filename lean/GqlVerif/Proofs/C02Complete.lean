import GqlVerif.Proofs.C06Sound
/-!
# C02 (first half) — completeness of `Resolve.resolve`: valid documents of the supported subset are accepted

Main theorem (every schema, every document, no bound on sizes):

    resolve_complete : SchemaWf s = true → Valid.validDoc s true d = true → Supported s d = true →
                         ∃ q, Resolve.resolve s d = .ok q

the converse of `C06Sound.resolve_sound_partial`, with the *strict* specification: a valid document of the
supported subset is never rejected and never makes `resolve` panic.

* `SchemaWf s` (decidable `Bool`): every id stored in the schema points inside its table — field types, the
  field ids of objects and interfaces, the values of the name table, the three root ids.  Nothing else (no
  name-table consistency, no "union members are objects").  Needed: `schemaWf_needed`.
* `Supported s d` (decidable `Bool`): the restrictions under which the statement is true.  Each clause was
  found by a failing proof step and has a witness (`w_*` below: the specification accepts, the model rejects
  or panics):
  1. every inline fragment carries a type condition (`... { a }` makes `resolve` **panic**: `w_inline_untyped`);
  2. the base type of every variable is in the schema's name table (otherwise **panic**: `w_unknown_var_type`);
  3. a type condition (inline fragment or spread) whose parent type is abstract is either the parent type
     itself or an object type: the code's `conditionOk` has no arm for interface/union conditions under an
     interface/union parent (`w_iface_in_iface`, `w_iface_in_union`, `w_union_in_iface`: rejected);
  4. fragment definitions are on composite types (`fragment F on String { __typename }` is accepted by
     `validDoc` — a defect of the specification — and rejected by the code: `w_frag_on_scalar`);
  5. a subscription has exactly one written root selection and the specification's expansion
     `Valid.rootKeys` of it has exactly one entry *before* removing duplicates: the code counts root fields,
     GraphQL (and `validDoc`) count distinct response keys (`w_sub_two_same`, `w_sub_spread_two_same`:
     rejected).  This clause is sufficient, not necessary (`sub_clause_not_necessary`: a fragment spread
     twice is counted once by the code's shared visited set).

Layers: `objSel_ok`/`objSels_ok`/`unionSel_ok`/`unionSels_ok`/`body_ok` (a valid supported selection resolves;
mutual structural induction), `createRoots_total`, `resolveDef_total`/`fold_total` (the two phases),
`contains_of_hasTypename` (the specification's fuel-bounded `__typename` search implies the code's search
with a visited set: a shortest chain of spreads never re-enters a fragment — `ctV_split`, `ctV_avoid`),
`condition_complete` (`applicable` + `condSupp` ⇒ `conditionOk`), `checks_sel`/`checks_sels`
(`typeConditions` and `fieldsHaveTypename` succeed on the resolved tree), `qwalk_len`/`sub_count` (the
depth-first count with a shared visited set never exceeds the length of the specification's expansion).
-/
namespace GqlVerif
namespace C02Complete
open Resolve C06Sound

/-! ## schema well-formedness -/

/-- a type id points inside the table of its kind -/
def tyOk (s : Schema) : TypeId → Bool
  | .object i => i < s.objects.length
  | .scalar i => i < s.scalars.length
  | .interface i => i < s.interfaces.length
  | .union i => i < s.unions.length
  | .enum i => i < s.enums.length
  | .input i => i < s.inputs.length

def rootOk (s : Schema) : Option Nat → Bool
  | some i => i < s.objects.length
  | none => true

/-- what `resolve` needs of a schema never to panic on a valid document: ids in range -/
def SchemaWf (s : Schema) : Bool :=
  s.fields.all (fun f => tyOk s f.ty.id) &&
  s.objects.all (fun o => o.fields.all (· < s.fields.length)) &&
  s.interfaces.all (fun o => o.fields.all (· < s.fields.length)) &&
  s.names.all (fun p => tyOk s p.2) &&
  rootOk s s.queryType && rootOk s s.mutationType && rootOk s s.subscriptionType

structure Wf (s : Schema) : Prop where
  fieldTy : ∀ f ∈ s.fields, tyOk s f.ty.id = true
  objFields : ∀ o ∈ s.objects, ∀ id ∈ o.fields, id < s.fields.length
  ifaceFields : ∀ o ∈ s.interfaces, ∀ id ∈ o.fields, id < s.fields.length
  names : ∀ n t, s.findType n = some t → tyOk s t = true
  root : ∀ k r, Valid.rootOf s k = some r → r < s.objects.length

theorem namesGet_mem {k : String} {v : TypeId} : ∀ {l : List (String × TypeId)}, namesGet k l = some v → ∃ k', (k', v) ∈ l
  | [], h => by simp [namesGet] at h
  | (k', v') :: rest, h => by
    unfold namesGet at h
    split at h
    · simp only [Option.some.injEq] at h; subst h; exact ⟨k', List.mem_cons_self⟩
    · obtain ⟨k'', hk⟩ := namesGet_mem h
      exact ⟨k'', List.mem_cons_of_mem _ hk⟩

theorem wf_of_schemaWf {s : Schema} (h : SchemaWf s = true) : Wf s := by
  unfold SchemaWf at h
  simp only [Bool.and_eq_true, List.all_eq_true, decide_eq_true_eq] at h
  obtain ⟨⟨⟨⟨⟨⟨h1, h2⟩, h3⟩, h4⟩, h5⟩, h6⟩, h7⟩ := h
  refine ⟨h1, h2, h3, ?_, ?_⟩
  · intro n t ht
    obtain ⟨k, hk⟩ := namesGet_mem ht
    exact h4 _ hk
  · intro k r hr
    cases k <;> simp only [Valid.rootOf] at hr
    · rw [hr] at h5; simpa [rootOk] using h5
    · rw [hr] at h6; simpa [rootOk] using h6
    · rw [hr] at h7; simpa [rootOk] using h7

/-! ## the supported class (restrictions found while proving; each has a witness at the end of the file) -/

/-- the type-condition check of the code (`conditionOk`) is narrower than the specification's `applicable`
    exactly when both the parent and the condition are abstract and differ -/
def condSupp (p t : TypeId) : Bool := p == t || !(p.isAbstract && t.isAbstract)

mutual
  def suppSel (s : Schema) (ft : FT) (parent : TypeId) : QSel → Bool
    | .field _ name sub =>
      if name == "__typename" then true
      else match Valid.lookupField s parent name with
        | none => true
        | some f => suppSels s ft f.ty.id sub
    | .spread n => match Valid.findFrag ft n with
      | none => true
      | some (on, _) => match s.findType on with
        | none => true
        | some t => condSupp parent t
    | .inline none _ => false
    | .inline (some on) sub => match s.findType on with
      | none => true
      | some t => condSupp parent t && suppSels s ft t sub
  def suppSels (s : Schema) (ft : FT) (parent : TypeId) : List QSel → Bool
    | [] => true
    | x :: xs => suppSel s ft parent x && suppSels s ft parent xs
end

/-! ## phase 2 on one selection: a valid, supported selection resolves -/

theorem getField_some {s : Schema} {id : Nat} (h : id < s.fields.length) : s.getField id = .ok s.fields[id] := by
  unfold Schema.getField
  rw [List.getElem?_eq_getElem h]
  rfl

theorem mapM_getField_total (s : Schema) : ∀ (ids : List Nat), (∀ id ∈ ids, id < s.fields.length) →
    ∃ fs, (ids.mapM fun id => do pure (id, ← s.getField id) : Outcome _) = .ok fs
  | [], _ => ⟨[], rfl⟩
  | id :: ids, h => by
    obtain ⟨fs, hfs⟩ := mapM_getField_total s ids (fun i hi => h i (List.mem_cons_of_mem _ hi))
    refine ⟨(id, s.fields[id]'(h id List.mem_cons_self)) :: fs, ?_⟩
    rw [List.mapM_cons, getField_some (h id List.mem_cons_self), hfs]
    rfl

/-- `get_field_by_name` never panics when the ids are in range, and finds what `lookupField` finds -/
theorem getFieldByName_total {s : Schema} {ids : List Nat} (h : ∀ id ∈ ids, id < s.fields.length) (name : String) :
    (getFieldByName s ids name = .ok none ∧
      (ids.filterMap (fun id => s.fields[id]?)).find? (·.name == name) = none) ∨
    ∃ fid sf, getFieldByName s ids name = .ok (some (fid, sf)) ∧
      (ids.filterMap (fun id => s.fields[id]?)).find? (·.name == name) = some sf ∧ s.fields[fid]? = some sf := by
  obtain ⟨fs, hfs⟩ := mapM_getField_total s ids h
  have hg : getFieldByName s ids name = .ok (fs.find? (·.2.name == name)) := by
    show ((ids.mapM fun id => do pure (id, ← s.getField id)) >>= fun fs =>
      pure (fs.find? (·.2.name == name)) : Outcome _) = _
    rw [hfs]; rfl
  cases hf : fs.find? (·.2.name == name) with
  | none =>
    left
    refine ⟨by rw [hg, hf], ?_⟩
    rw [← (mapM_getField_ok s ids fs hfs).1, List.find?_map]
    simp [Function.comp_def, hf]
  | some p =>
    right
    have := getFieldByName_some (s := s) (ids := ids) (name := name) (fid := p.1) (sf := p.2) (by rw [hg, hf])
    exact ⟨p.1, p.2, by rw [hg, hf], this.1, this.2⟩

theorem fieldsOf_lt {s : Schema} (hw : Wf s) (p : TypeId) : ∀ id ∈ fieldsOf s p, id < s.fields.length := by
  intro id hid
  cases p with
  | object i =>
    unfold fieldsOf at hid
    cases ho : s.objects[i]? with
    | none => simp [ho] at hid
    | some o => simp only [ho] at hid; exact hw.objFields o (List.mem_of_getElem? ho) id hid
  | interface i =>
    unfold fieldsOf at hid
    cases ho : s.interfaces[i]? with
    | none => simp [ho] at hid
    | some o => simp only [ho] at hid; exact hw.ifaceFields o (List.mem_of_getElem? ho) id hid
  | scalar i => simp [fieldsOf] at hid
  | union i => simp [fieldsOf] at hid
  | enum i => simp [fieldsOf] at hid
  | input i => simp [fieldsOf] at hid

theorem getObject_some {s : Schema} {i : Nat} (h : i < s.objects.length) :
    s.getObject i = .ok s.objects[i] ∧ fieldsOf s (.object i) = s.objects[i].fields := by
  refine ⟨?_, by simp [fieldsOf, List.getElem?_eq_getElem h]⟩
  unfold Schema.getObject
  rw [List.getElem?_eq_getElem h]
  rfl

theorem getInterface_some {s : Schema} {i : Nat} (h : i < s.interfaces.length) :
    s.getInterface i = .ok s.interfaces[i] ∧ fieldsOf s (.interface i) = s.interfaces[i].fields := by
  refine ⟨?_, by simp [fieldsOf, List.getElem?_eq_getElem h]⟩
  unfold Schema.getInterface
  rw [List.getElem?_eq_getElem h]
  rfl

/-- every fragment name of the document is known to the query under construction -/
def FragsKnown (ft : FT) (q : Query) : Prop := ∀ n e, Valid.findFrag ft n = some e → ∃ fid, q.findFragment n = some fid

theorem map_ok_of {α β} {x : Outcome α} {f : α → β} {a : α} (h : x = .ok a) : Except.map f x = .ok (f a) := by
  rw [h]; rfl

/-- resolution of the body of a composite type `t` (the dispatch of `resolve_selection`, as it is written
    out three times in the model) -/
def bodyOk (s : Schema) (q : Query) (t : TypeId) (sub : List QSel) : Prop :=
  match t with
  | .object oid => ∃ o, s.getObject oid = .ok o ∧ ∃ rs, resolveObjectSels s q o.name o.fields sub = .ok rs
  | .interface iid => ∃ o, s.getInterface iid = .ok o ∧ ∃ rs, resolveObjectSels s q o.name o.fields sub = .ok rs
  | .union _ => ∃ rs, resolveUnionSels s q sub = .ok rs
  | _ => sub = []

mutual
  theorem objSel_ok {s : Schema} (hw : Wf s) {ft : FT} {q : Query} (hq : FragsKnown ft q) (strict : Bool) :
      ∀ (x : QSel) (p : TypeId) (pname : String), Valid.validSel s ft strict p x = true → suppSel s ft p x = true →
        ∃ r, resolveObjectSel s q pname (fieldsOf s p) x = .ok r
    | .field alias name sub, p, pname, hv, hsup => by
      unfold Valid.validSel at hv
      unfold resolveObjectSel
      by_cases hn : name = "__typename"
      · subst hn
        simp only [beq_self_eq_true, if_true] at hv
        simp [typenameField, hv, pure, Except.pure]
      · have hn' : (name == "__typename") = false := by simpa using hn
        simp only [hn', Bool.false_eq_true, if_false] at hv
        simp only [typenameField, hn', Bool.false_eq_true, if_false]
        rcases getFieldByName_total (fieldsOf_lt hw p) name with ⟨_, hnone⟩ | ⟨fid, sf, hg, hfind, hfid⟩
        · rw [lookupField_eq, hnone] at hv; simp at hv
        · rw [lookupField_eq, hfind] at hv
          unfold suppSel at hsup
          simp only [hn', Bool.false_eq_true, if_false, lookupField_eq, hfind] at hsup
          simp only [hg]
          have hty := hw.fieldTy sf (List.mem_of_getElem? hfid)
          have hb := body_ok hw hq strict sub sf.ty.id hty (by
            intro hc; simp only [hc, if_true, Bool.and_eq_true] at hv; exact hv.1.2) (by
            intro hc; simp only [hc, Bool.false_eq_true, if_false] at hv; exact isEmpty_nil hv) hsup
          cases hid : sf.ty.id with
          | object oid =>
            simp only [hid, bodyOk] at hb
            obtain ⟨o, ho, rs, hrs⟩ := hb
            simp only [ho, hrs]; exact ⟨_, rfl⟩
          | interface iid =>
            simp only [hid, bodyOk] at hb
            obtain ⟨o, ho, rs, hrs⟩ := hb
            simp only [ho, hrs]; exact ⟨_, rfl⟩
          | union uid =>
            simp only [hid, bodyOk] at hb
            obtain ⟨rs, hrs⟩ := hb
            simp only [hrs]; exact ⟨_, rfl⟩
          | scalar i => simp only [hid, bodyOk] at hb; subst hb; exact ⟨_, rfl⟩
          | enum i => simp only [hid, bodyOk] at hb; subst hb; exact ⟨_, rfl⟩
          | input i => simp only [hid, bodyOk] at hb; subst hb; exact ⟨_, rfl⟩
    | .inline none sub, p, pname, hv, hsup => by simp [suppSel] at hsup
    | .inline (some on) sub, p, pname, hv, hsup => by
      unfold Valid.validSel at hv
      unfold suppSel at hsup
      unfold resolveObjectSel
      cases ht : s.findType on with
      | none => simp [ht] at hv
      | some t =>
        simp only [ht, Bool.and_eq_true] at hv hsup
        simp only [ht]
        have hb := body_ok hw hq strict sub t (hw.names on t ht) (fun _ => hv.2) (fun hc => by simp [hc] at hv) hsup.2
        cases t with
        | object oid =>
          simp only [bodyOk] at hb
          obtain ⟨o, ho, rs, hrs⟩ := hb
          simp only [ho, hrs]; exact ⟨_, rfl⟩
        | interface iid =>
          simp only [bodyOk] at hb
          obtain ⟨o, ho, rs, hrs⟩ := hb
          simp only [ho, hrs]; exact ⟨_, rfl⟩
        | union uid =>
          simp only [bodyOk] at hb
          obtain ⟨rs, hrs⟩ := hb
          simp only [hrs]; exact ⟨_, rfl⟩
        | scalar i => simp [Valid.isComposite] at hv
        | enum i => simp [Valid.isComposite] at hv
        | input i => simp [Valid.isComposite] at hv
    | .spread n, p, pname, hv, hsup => by
      unfold Valid.validSel at hv
      unfold resolveObjectSel
      cases hf : Valid.findFrag ft n with
      | none => simp [hf] at hv
      | some e =>
        obtain ⟨fid, hfid⟩ := hq n e hf
        simp only [hfid]; exact ⟨_, rfl⟩
  theorem objSels_ok {s : Schema} (hw : Wf s) {ft : FT} {q : Query} (hq : FragsKnown ft q) (strict : Bool) :
      ∀ (xs : List QSel) (p : TypeId) (pname : String), Valid.validSels s ft strict p xs = true → suppSels s ft p xs = true →
        ∃ rs, resolveObjectSels s q pname (fieldsOf s p) xs = .ok rs
    | [], p, pname, _, _ => ⟨[], by unfold resolveObjectSels; rfl⟩
    | x :: xs, p, pname, hv, hsup => by
      unfold Valid.validSels at hv
      unfold suppSels at hsup
      simp only [Bool.and_eq_true] at hv hsup
      obtain ⟨r, hr⟩ := objSel_ok hw hq strict x p pname hv.1 hsup.1
      obtain ⟨rs, hrs⟩ := objSels_ok hw hq strict xs p pname hv.2 hsup.2
      unfold resolveObjectSels
      simp only [hr, hrs]; exact ⟨_, rfl⟩
  theorem unionSel_ok {s : Schema} (hw : Wf s) {ft : FT} {q : Query} (hq : FragsKnown ft q) (strict : Bool) :
      ∀ (x : QSel) (p : TypeId), fieldsOf s p = [] → Valid.validSel s ft strict p x = true → suppSel s ft p x = true →
        ∃ r, resolveUnionSel s q x = .ok r
    | .field alias name sub, p, hp, hv, hsup => by
      unfold Valid.validSel at hv
      unfold resolveUnionSel
      by_cases hn : name = "__typename"
      · subst hn
        simp only [beq_self_eq_true, if_true] at hv
        simp [typenameField, hv, pure, Except.pure]
      · have hn' : (name == "__typename") = false := by simpa using hn
        simp only [hn', Bool.false_eq_true, if_false, lookupField_eq, hp] at hv
        simp at hv
    | .inline none sub, p, hp, hv, hsup => by simp [suppSel] at hsup
    | .inline (some on) sub, p, hp, hv, hsup => by
      unfold Valid.validSel at hv
      unfold suppSel at hsup
      unfold resolveUnionSel
      cases ht : s.findType on with
      | none => simp [ht] at hv
      | some t =>
        simp only [ht, Bool.and_eq_true] at hv hsup
        simp only [ht]
        have hb := body_ok hw hq strict sub t (hw.names on t ht) (fun _ => hv.2) (fun hc => by simp [hc] at hv) hsup.2
        cases t with
        | object oid =>
          simp only [bodyOk] at hb
          obtain ⟨o, ho, rs, hrs⟩ := hb
          simp only [ho, hrs]; exact ⟨_, rfl⟩
        | interface iid =>
          simp only [bodyOk] at hb
          obtain ⟨o, ho, rs, hrs⟩ := hb
          simp only [ho, hrs]; exact ⟨_, rfl⟩
        | union uid =>
          simp only [bodyOk] at hb
          obtain ⟨rs, hrs⟩ := hb
          simp only [hrs]; exact ⟨_, rfl⟩
        | scalar i => simp [Valid.isComposite] at hv
        | enum i => simp [Valid.isComposite] at hv
        | input i => simp [Valid.isComposite] at hv
    | .spread n, p, hp, hv, hsup => by
      unfold Valid.validSel at hv
      unfold resolveUnionSel
      cases hf : Valid.findFrag ft n with
      | none => simp [hf] at hv
      | some e =>
        obtain ⟨fid, hfid⟩ := hq n e hf
        simp only [hfid]; exact ⟨_, rfl⟩
  theorem unionSels_ok {s : Schema} (hw : Wf s) {ft : FT} {q : Query} (hq : FragsKnown ft q) (strict : Bool) :
      ∀ (xs : List QSel) (p : TypeId), fieldsOf s p = [] → Valid.validSels s ft strict p xs = true → suppSels s ft p xs = true →
        ∃ rs, resolveUnionSels s q xs = .ok rs
    | [], p, _, _, _ => ⟨[], by unfold resolveUnionSels; rfl⟩
    | x :: xs, p, hp, hv, hsup => by
      unfold Valid.validSels at hv
      unfold suppSels at hsup
      simp only [Bool.and_eq_true] at hv hsup
      obtain ⟨r, hr⟩ := unionSel_ok hw hq strict x p hp hv.1 hsup.1
      obtain ⟨rs, hrs⟩ := unionSels_ok hw hq strict xs p hp hv.2 hsup.2
      unfold resolveUnionSels
      simp only [hr, hrs]; exact ⟨_, rfl⟩
  theorem body_ok {s : Schema} (hw : Wf s) {ft : FT} {q : Query} (hq : FragsKnown ft q) (strict : Bool) :
      ∀ (sub : List QSel) (t : TypeId), tyOk s t = true →
        (Valid.isComposite t = true → Valid.validSels s ft strict t sub = true) →
        (Valid.isComposite t = false → sub = []) → suppSels s ft t sub = true → bodyOk s q t sub
    | sub, .object oid, ht, hv, _, hsup => by
      have hlt : oid < s.objects.length := by simpa [tyOk] using ht
      obtain ⟨h1, h2⟩ := getObject_some hlt
      obtain ⟨rs, hrs⟩ := objSels_ok hw hq strict sub (.object oid) s.objects[oid].name (hv rfl) hsup
      rw [h2] at hrs
      exact ⟨_, h1, rs, hrs⟩
    | sub, .interface iid, ht, hv, _, hsup => by
      have hlt : iid < s.interfaces.length := by simpa [tyOk] using ht
      obtain ⟨h1, h2⟩ := getInterface_some hlt
      obtain ⟨rs, hrs⟩ := objSels_ok hw hq strict sub (.interface iid) s.interfaces[iid].name (hv rfl) hsup
      rw [h2] at hrs
      exact ⟨_, h1, rs, hrs⟩
    | sub, .union uid, ht, hv, _, hsup => unionSels_ok hw hq strict sub (.union uid) rfl (hv rfl) hsup
    | sub, .scalar _, _, _, hl, _ => hl rfl
    | sub, .enum _, _, _, hl, _ => hl rfl
    | sub, .input _, _, _, hl, _ => hl rfl
end


/-! ## the supported class, document level -/

def varsOk (s : Schema) (vars : List VarDef) : Bool := vars.all (fun v => (s.findType v.ty.base).isSome)

/-- the root selection of a subscription: the code wants exactly one written selection and counts root
    fields, the specification counts distinct response keys -/
def subOk (ft : FT) (depth : Nat) (kind : OpKind) (sels : List QSel) : Bool :=
  kind != .subscription ||
    (sels.length == 1 && (Valid.rootKeys ft ((ft.length + 1) * (depth + 1) + 1) sels).length == 1)

def suppDef (s : Schema) (ft : FT) (depth : Nat) : QDef → Bool
  | .op kind _ vars sels =>
    match Valid.rootOf s kind with
    | none => true
    | some root => suppSels s ft (.object root) sels && varsOk s vars && subOk ft depth kind sels
  | .frag _ on sels => match s.findType on with
    | none => true
    | some t => Valid.isComposite t && suppSels s ft t sels
  | .selset _ => true

/-- **the supported subset** of valid documents (decidable): see the witnesses at the end of the file for
    why each clause is there -/
def Supported (s : Schema) (d : QDoc) : Bool := d.all (suppDef s (Valid.fragTable d) (Valid.docDepth d))

/-! ## phase 1: `create_roots` -/

theorem ffOf_none_of {names : List String} {n : String} (h : n ∉ names) : ffOf names n = none := by
  unfold ffOf
  rw [List.findIdx?_eq_none_iff]
  intro x hx
  have : x ≠ n := by intro e; subst e; exact h hx
  simpa using this

theorem ffOf_some_of {names : List String} {n : String} (h : n ∈ names) : ∃ i, ffOf names n = some i ∧ i < names.length := by
  unfold ffOf
  cases hi : names.findIdx? (· == n) with
  | none =>
    rw [List.findIdx?_eq_none_iff] at hi
    simpa using hi n h
  | some i =>
    exact ⟨i, rfl, (List.findIdx?_eq_some_iff_getElem.mp hi).1⟩

/-- what `create_roots` needs of one definition -/
def Rootable (s : Schema) : QDef → Prop
  | .frag _ on _ => ∃ t, s.findType on = some t
  | .op kind name _ sels => (∃ n, name = some n) ∧ (∃ r, Valid.rootOf s kind = some r) ∧
      (kind = .subscription → sels.length = 1)
  | .selset _ => False

theorem createRoots_total (s : Schema) : ∀ (d : QDoc) (q : Query), (∀ x ∈ d, Rootable s x) →
    (Valid.fragNames d).Nodup → (Valid.opNames d).Nodup →
    (∀ n ∈ Valid.fragNames d, n ∉ fnames q) → (∀ n ∈ Valid.opNames d, n ∉ onames q) →
    ∃ q', createRoots s d q = .ok q'
  | [], q, _, _, _, _, _ => ⟨q, rfl⟩
  | x :: rest, q, hr, hfn, hon, hfq, hoq => by
    have hrest : ∀ x ∈ rest, Rootable s x := fun y hy => hr y (List.mem_cons_of_mem _ hy)
    have hx := hr x List.mem_cons_self
    cases x with
    | selset sels => exact hx.elim
    | frag n on sels =>
      obtain ⟨t, ht⟩ := hx
      have hfn' : n ∉ Valid.fragNames rest ∧ (Valid.fragNames rest).Nodup := by
        simpa [Valid.fragNames] using hfn
      have hon' : (Valid.opNames rest).Nodup := by simpa [Valid.opNames] using hon
      have hnq : n ∉ fnames q := hfq n (by simp [Valid.fragNames])
      have hnone : q.findFragment n = none := by rw [findFragment_eq]; exact ffOf_none_of hnq
      simp only [createRoots, hnone, ht, Option.isSome_none, Bool.false_eq_true, if_false]
      apply createRoots_total s rest _ hrest hfn'.2 hon'
      · intro m hm
        simp only [fnames, List.map_append, List.map_cons, List.map_nil, List.mem_append, List.mem_singleton, not_or]
        refine ⟨hfq m (by simp [Valid.fragNames] at hm ⊢; exact Or.inr hm), ?_⟩
        intro e; subst e; exact hfn'.1 hm
      · intro m hm
        exact hoq m (by simpa [Valid.opNames] using hm)
    | op kind name vars sels =>
      obtain ⟨⟨n, rfl⟩, ⟨r, hroot⟩, hsub⟩ := hx
      have hfn' : (Valid.fragNames rest).Nodup := by simpa [Valid.fragNames] using hfn
      have hon' : n ∉ Valid.opNames rest ∧ (Valid.opNames rest).Nodup := by
        simpa [Valid.opNames] using hon
      have hnq : n ∉ onames q := hoq n (by simp [Valid.opNames])
      have hnone : q.findOperation n = none := by rw [findOperation_eq]; exact ffOf_none_of hnq
      have hnext : ∀ q1 : Query, fnames q1 = fnames q → onames q1 = onames q ++ [n] →
          ∃ q', createRoots s rest q1 = .ok q' := by
        intro q1 h1 h2
        apply createRoots_total s rest _ hrest hfn' hon'.2
        · intro m hm
          rw [h1]; exact hfq m (by simpa [Valid.fragNames] using hm)
        · intro m hm
          rw [h2]
          simp only [List.mem_append, List.mem_singleton, not_or]
          refine ⟨hoq m (by simp [Valid.opNames] at hm ⊢; exact Or.inr hm), ?_⟩
          intro e; subst e; exact hon'.1 hm
      cases kind with
      | query =>
        have : s.queryType = some r := by simpa [Valid.rootOf] using hroot
        simp only [createRoots, Schema.queryTypeOrPanic, this, hnone, Option.isSome_none, Bool.false_eq_true,
          if_false, pure_bind]
        exact hnext _ rfl (by simp [onames])
      | mutation =>
        have : s.mutationType = some r := by simpa [Valid.rootOf] using hroot
        simp only [createRoots, this, hnone, Option.isSome_none, Bool.false_eq_true, if_false]
        exact hnext _ rfl (by simp [onames])
      | subscription =>
        have : s.subscriptionType = some r := by simpa [Valid.rootOf] using hroot
        have hl : (sels.length != 1) = false := by simp [hsub rfl]
        simp only [createRoots, this, hnone, hl, Option.isSome_none, Bool.false_eq_true, if_false]
        exact hnext _ rfl (by simp [onames])


/-! ## phase 2: the fold of `resolve_fragment` / `resolve_operation` -/

theorem resolveSelection_total {s : Schema} {q : Query} {t : TypeId} {sels : List QSel} (h : bodyOk s q t sels) :
    ∃ rs, resolveSelection s q t sels = .ok rs := by
  unfold resolveSelection
  cases t with
  | object oid =>
    obtain ⟨o, ho, rs, hrs⟩ := h
    exact ⟨rs, by simp only [ho, bind, Except.bind]; exact hrs⟩
  | interface iid =>
    obtain ⟨o, ho, rs, hrs⟩ := h
    exact ⟨rs, by simp only [ho, bind, Except.bind]; exact hrs⟩
  | union uid => exact h
  | scalar i => simp only [bodyOk] at h; subst h; exact ⟨[], rfl⟩
  | enum i => simp only [bodyOk] at h; subst h; exact ⟨[], rfl⟩
  | input i => simp only [bodyOk] at h; subst h; exact ⟨[], rfl⟩

theorem mapM_total {α β} (f : α → Outcome β) : ∀ (l : List α), (∀ a ∈ l, ∃ b, f a = .ok b) →
    ∃ bs, l.mapM f = .ok bs
  | [], _ => ⟨[], rfl⟩
  | a :: l, h => by
    obtain ⟨b, hb⟩ := h a List.mem_cons_self
    obtain ⟨bs, hbs⟩ := mapM_total f l (fun x hx => h x (List.mem_cons_of_mem _ hx))
    exact ⟨b :: bs, by rw [List.mapM_cons, hb, hbs]; rfl⟩

theorem resolveVariables_total (s : Schema) (op : Nat) (vars : List VarDef) (h : varsOk s vars = true) :
    ∃ vs, resolveVariables s op vars = .ok vs := by
  unfold resolveVariables
  apply mapM_total
  intro v hv
  unfold varsOk at h
  rw [List.all_eq_true] at h
  have := h v hv
  cases ht : s.findType v.ty.base with
  | none => simp [ht] at this
  | some t =>
    have : resolveFieldType s v.ty = .ok { id := t, quals := v.ty.quals } := by
      simp [resolveFieldType, Schema.findTypeId, ht, bind, Except.bind, pure, Except.pure]
    simp only [this, bind, Except.bind]
    exact ⟨_, rfl⟩

/-- what the second phase needs of one definition, for a query whose fragment names are `FN` and whose
    operation names are `ON` -/
def DefOk (s : Schema) (ft : FT) (strict : Bool) (FN ON : List String) : QDef → Prop
  | .frag n on sels => n ∈ FN ∧ ∃ t, s.findType on = some t ∧ Valid.isComposite t = true ∧
      Valid.validSels s ft strict t sels = true ∧ suppSels s ft t sels = true
  | .op kind name vars sels => ∃ n r, name = some n ∧ n ∈ ON ∧ Valid.rootOf s kind = some r ∧ varsOk s vars = true ∧
      Valid.validSels s ft strict (.object r) sels = true ∧ suppSels s ft (.object r) sels = true
  | .selset _ => False

theorem fragsKnown_of {ft : FT} {q : Query} (h : ∀ e ∈ ft, e.1 ∈ fnames q) : FragsKnown ft q := by
  intro n e he
  unfold Valid.findFrag at he
  cases hf : ft.find? (·.1 == n) with
  | none => simp [hf] at he
  | some e' =>
    have hm := List.mem_of_find?_eq_some hf
    have hn : e'.1 = n := by simpa using List.find?_some hf
    obtain ⟨i, hi, _⟩ := ffOf_some_of (hn ▸ h e' hm)
    exact ⟨i, by rw [findFragment_eq]; exact hi⟩

theorem resolveDef_total {s : Schema} (hw : Wf s) {ft : FT} {strict : Bool} {q : Query}
    (hft : ∀ e ∈ ft, e.1 ∈ fnames q) {x : QDef} (hx : DefOk s ft strict (fnames q) (onames q) x) :
    ∃ q', resolveDef s q x = .ok q' := by
  cases x with
  | selset sels => exact hx.elim
  | frag n on sels =>
    obtain ⟨hn, t, ht, hcomp, hv, hsup⟩ := hx
    obtain ⟨id, hid, hlt⟩ := ffOf_some_of hn
    have hb := body_ok hw (fragsKnown_of hft) strict sels t (hw.names on t ht) (fun _ => hv)
      (fun hc => by rw [hcomp] at hc; cases hc) hsup
    obtain ⟨rs, hrs⟩ := resolveSelection_total hb
    have hlt' : id < q.fragments.length := by simpa [fnames] using hlt
    simp only [resolveDef, ht, findFragment_eq, hid, hrs, bind, Except.bind, List.getElem?_eq_getElem hlt']
    exact ⟨_, rfl⟩
  | op kind name vars sels =>
    obtain ⟨n, r, rfl, hn, hroot, hvars, hv, hsup⟩ := hx
    obtain ⟨id, hid, hlt⟩ := ffOf_some_of hn
    have hlt' : id < q.operations.length := by simpa [onames] using hlt
    obtain ⟨vs, hvs⟩ := resolveVariables_total s id vars hvars
    have hr := hw.root kind r hroot
    obtain ⟨ho, hfo⟩ := getObject_some hr
    have hk : FragsKnown ft { q with variables := q.variables ++ vs } := fragsKnown_of hft
    obtain ⟨rs, hrs⟩ := objSels_ok hw hk strict sels (.object r) s.objects[r].name hv hsup
    rw [hfo] at hrs
    cases kind <;> simp only [Valid.rootOf] at hroot <;>
      simp only [resolveDef, Schema.queryTypeOrPanic, hroot, ho, findOperation_eq, hid, hvs, hrs, bind, Except.bind,
        pure, Except.pure, List.getElem?_eq_getElem hlt'] <;> exact ⟨_, rfl⟩

theorem resolveDef_names {s : Schema} {q q' : Query} {x : QDef} (h : resolveDef s q x = .ok q') :
    fnames q' = fnames q ∧ onames q' = onames q := by
  have hf : [x].foldlM (resolveDef s) q = .ok q' := by
    simp [List.foldlM, h, bind, Except.bind, pure, Except.pure]
  have := fold_ok s [x] q q' hf (by cases x <;> simp [Valid.fragNames]) (by
    cases x with
    | op k n v sels => cases n <;> simp [Valid.opNames]
    | _ => simp [Valid.opNames])
  exact ⟨this.fnames_eq, this.onames_eq⟩

theorem fold_total {s : Schema} (hw : Wf s) {ft : FT} {strict : Bool} {FN ON : List String} (hft : ∀ e ∈ ft, e.1 ∈ FN) :
    ∀ (rest : QDoc) (q : Query), fnames q = FN → onames q = ON → (∀ x ∈ rest, DefOk s ft strict FN ON x) →
      ∃ qF, rest.foldlM (resolveDef s) q = .ok qF
  | [], q, _, _, _ => ⟨q, rfl⟩
  | x :: rest, q, hF, hO, hd => by
    have hx := hd x List.mem_cons_self
    rw [← hF, ← hO] at hx
    obtain ⟨q1, hq1⟩ := resolveDef_total hw (by rw [hF]; exact hft) hx
    obtain ⟨e1, e2⟩ := resolveDef_names hq1
    obtain ⟨qF, hqF⟩ := fold_total hw hft rest q1 (e1.trans hF) (e2.trans hO)
      (fun y hy => hd y (List.mem_cons_of_mem _ hy))
    exact ⟨qF, by rw [List.foldlM_cons, hq1]; exact hqF⟩


/-! ## `__typename` presence: the specification's search (fuel, no visited set) implies the code's
    (visited set): a shortest chain of spreads never enters a fragment twice -/

/-- the search with a *fixed* set of forbidden fragments -/
def ctV (q : Query) (t : TypeId) (V : List Nat) : Nat → List Sel → Bool
  | 0, _ => false
  | n+1, sels => sels.any fun
    | .typename => true
    | .spread fid => !V.contains fid && (match q.fragments[fid]? with
      | none => false
      | some f => f.on == t && ctV q t V n f.sels)
    | _ => false

theorem ctV_succ_iff {q : Query} {t : TypeId} {V : List Nat} {n : Nat} {sels : List Sel} :
    ctV q t V (n + 1) sels = true ↔ Sel.typename ∈ sels ∨ ∃ fid f, Sel.spread fid ∈ sels ∧ fid ∉ V ∧
      q.fragments[fid]? = some f ∧ f.on = t ∧ ctV q t V n f.sels = true := by
  have e : ctV q t V (n + 1) sels = sels.any (fun
    | .typename => true
    | .spread fid => !V.contains fid && (match q.fragments[fid]? with
      | none => false
      | some f => f.on == t && ctV q t V n f.sels)
    | _ => false) := by
    conv => lhs; unfold ctV
  rw [e, List.any_eq_true]
  constructor
  · rintro ⟨x, hx, h⟩
    cases x with
    | typename => exact .inl hx
    | spread fid =>
      simp only [Bool.and_eq_true, Bool.not_eq_true', List.contains_eq_mem, decide_eq_false_iff_not] at h
      cases hf : q.fragments[fid]? with
      | none => simp [hf] at h
      | some f =>
        simp only [hf, Bool.and_eq_true, beq_iff_eq] at h
        exact .inr ⟨fid, f, hx, h.1, hf, h.2.1, h.2.2⟩
    | field a b c => simp at h
    | inline a b => simp at h
  · rintro (h | ⟨fid, f, hx, hV, hf, hon, hc⟩)
    · exact ⟨_, h, rfl⟩
    · refine ⟨_, hx, ?_⟩
      simp [hV, hf, hon, hc]

theorem ctV_mono {q : Query} {t : TypeId} {V : List Nat} : ∀ {n m : Nat} {sels : List Sel}, n ≤ m →
    ctV q t V n sels = true → ctV q t V m sels = true
  | 0, _, _, _, h => by simp [ctV] at h
  | n+1, 0, _, hle, _ => by omega
  | n+1, m+1, sels, hle, h => by
    rw [ctV_succ_iff] at h ⊢
    rcases h with h | ⟨fid, f, hx, hV, hf, hon, hc⟩
    · exact .inl h
    · exact .inr ⟨fid, f, hx, hV, hf, hon, ctV_mono (by omega) hc⟩

/-- a chain either avoids `g` altogether or contains a strictly shorter chain starting at `g`'s body -/
theorem ctV_split {q : Query} {t : TypeId} {V : List Nat} (g : Nat) {fg : RFragment} (hg : q.fragments[g]? = some fg) :
    ∀ (n : Nat) (sels : List Sel), ctV q t V n sels = true →
      ctV q t (g :: V) n sels = true ∨ ∃ m, m < n ∧ ctV q t V m fg.sels = true
  | 0, _, h => by simp [ctV] at h
  | n+1, sels, h => by
    rw [ctV_succ_iff] at h
    rcases h with h | ⟨fid, f, hx, hV, hf, hon, hc⟩
    · exact .inl (ctV_succ_iff.mpr (.inl h))
    · by_cases hfg : fid = g
      · subst hfg
        rw [hg] at hf; cases hf
        exact .inr ⟨n, by omega, hc⟩
      · rcases ctV_split g hg n f.sels hc with h' | ⟨m, hm, h'⟩
        · refine .inl (ctV_succ_iff.mpr (.inr ⟨fid, f, hx, ?_, hf, hon, h'⟩))
          simp only [List.mem_cons, not_or]; exact ⟨hfg, hV⟩
        · exact .inr ⟨m, by omega, h'⟩

/-- a chain from `g`'s body can be chosen not to come back to `g` -/
theorem ctV_avoid {q : Query} {t : TypeId} {V : List Nat} (g : Nat) {fg : RFragment} (hg : q.fragments[g]? = some fg) :
    ∀ (n : Nat), ctV q t V n fg.sels = true → ctV q t (g :: V) n fg.sels = true := by
  intro n
  induction n using Nat.strongRecOn with
  | _ n ih =>
    intro h
    rcases ctV_split g hg n fg.sels h with h' | ⟨m, hm, h'⟩
    · exact h'
    · exact ctV_mono (Nat.le_of_lt hm) (ih m hm h')

theorem contains_of_ctV {q : Query} {t : TypeId} : ∀ (fuel : Nat) (V : List Nat) (n : Nat) (sels : List Sel),
    ctV q t V n sels = true → unvisited q.fragments.length V + 1 ≤ fuel → containsTypenameAux q t fuel V sels = true
  | 0, _, _, _, _, hf => by omega
  | fuel+1, V, 0, sels, h, _ => by simp [ctV] at h
  | fuel+1, V, n+1, sels, h, hfuel => by
    rw [ctV_succ_iff] at h
    unfold containsTypenameAux
    rw [List.any_eq_true]
    rcases h with h | ⟨fid, f, hx, hV, hf, hon, hc⟩
    · exact ⟨_, h, rfl⟩
    · refine ⟨_, hx, ?_⟩
      have hlt : fid < q.fragments.length := (List.getElem?_eq_some_iff.mp hf).1
      have hu := unvisited_cons hlt hV
      have := contains_of_ctV fuel (fid :: V) n f.sels (ctV_avoid fid hf n hc) (by omega)
      simp only [hf, hon, this]
      simp [hV]

theorem corrL_mem_left {s ff p} : ∀ {xs rs}, CorrL s ff p xs rs → ∀ x ∈ xs, ∃ r ∈ rs, Corr s ff p x r
  | _, _, .nil, x, hx => by simp at hx
  | _, _, .cons hc hcs, x, hx => by
    rcases List.mem_cons.mp hx with rfl | hx
    · exact ⟨_, List.mem_cons_self, hc⟩
    · obtain ⟨r, hr, hc'⟩ := corrL_mem_left hcs x hx
      exact ⟨r, List.mem_cons_of_mem _ hr, hc'⟩

theorem ctV_of_hasTypename {s ff ft qF} (htab : TableOk s ff ft qF) (t : TypeId) :
    ∀ (fuel : Nat) (p : TypeId) (xs : List QSel) (rs : List Sel), CorrL s ff p xs rs →
      Valid.hasTypename s ft t fuel xs = true → ctV qF t [] fuel rs = true
  | 0, _, _, _, _, h => by simp [Valid.hasTypename] at h
  | n+1, p, xs, rs, hc, h => by
    unfold Valid.hasTypename at h
    rw [List.any_eq_true] at h
    obtain ⟨x, hx, hxv⟩ := h
    obtain ⟨r, hr, hxr⟩ := corrL_mem_left hc x hx
    rw [ctV_succ_iff]
    cases hxr with
    | typename hn => exact .inl hr
    | field hn => simp [hn] at hxv
    | inline => simp at hxv
    | spread hff =>
      rename_i nm fid
      obtain ⟨f, on, fsels, hf, hfind, hon, hcf⟩ := htab.find _ _ hff
      simp only [hfind, hon, Bool.and_eq_true, beq_iff_eq, Option.some.injEq] at hxv
      exact .inr ⟨fid, f, hr, by simp, hf, hxv.1, ctV_of_hasTypename htab t n _ _ _ hcf hxv.2⟩

/-- **`__typename` transfer, completeness direction** -/
theorem contains_of_hasTypename {s ff ft qF} (htab : TableOk s ff ft qF) (t : TypeId) {p : TypeId} {xs : List QSel}
    {rs : List Sel} (hc : CorrL s ff p xs rs) (h : Valid.hasTypename s ft t (ft.length + 1) xs = true) :
    containsTypename qF t rs = true := by
  unfold containsTypename
  have := ctV_of_hasTypename htab t _ _ _ _ hc h
  exact contains_of_ctV _ [] _ _ this (by have := unvisited_le qF.fragments.length []; omega)


/-! ## type conditions: `applicable` + `condSupp` ⇒ `conditionOk` -/

theorem getUnion_some {s : Schema} {i : Nat} (h : i < s.unions.length) :
    s.getUnion i = .ok s.unions[i] ∧ s.unions[i]? = some s.unions[i] := by
  refine ⟨?_, List.getElem?_eq_getElem h⟩
  unfold Schema.getUnion
  rw [List.getElem?_eq_getElem h]
  rfl

theorem condition_complete {s : Schema} {p t : TypeId} (hp : tyOk s p = true) (ht : tyOk s t = true)
    (happ : Valid.applicable s p t = true) (hsup : condSupp p t = true) : conditionOk s p t = .ok true := by
  unfold conditionOk
  by_cases heq : p = t
  · simp [heq, pure, Except.pure]
  · have hne : (p == t) = false := by simpa using heq
    simp only [hne, Bool.false_eq_true, if_false]
    unfold Valid.applicable at happ
    simp only [hne, Bool.false_or, List.any_eq_true, List.contains_iff_mem] at happ
    obtain ⟨o, hop, hot⟩ := happ
    unfold condSupp at hsup
    simp only [hne, Bool.false_or, Bool.not_eq_true', Bool.and_eq_false_iff] at hsup
    cases p with
    | union uid =>
      have hlt : uid < s.unions.length := by simpa [tyOk] using hp
      obtain ⟨hu, hu'⟩ := getUnion_some hlt
      simp only [hu, bind, Except.bind, pure, Except.pure]
      simp only [Valid.possibleTypes, hu', List.mem_filterMap] at hop
      obtain ⟨v, hv, hvo⟩ := hop
      have hv' : v = .object o := by cases v <;> simp_all [TypeId.asObject?]
      subst hv'
      cases t with
      | object o' =>
        simp only [Valid.possibleTypes, List.mem_singleton] at hot
        subst hot
        simp [hv]
      | interface i => simp [TypeId.isAbstract] at hsup
      | union i => simp [TypeId.isAbstract] at hsup
      | scalar i => simp [Valid.possibleTypes] at hot
      | enum i => simp [Valid.possibleTypes] at hot
      | input i => simp [Valid.possibleTypes] at hot
    | interface iid =>
      simp only [Valid.possibleTypes] at hop
      cases t with
      | object o' =>
        simp only [Valid.possibleTypes, List.mem_singleton] at hot
        subst hot
        simp only [pure, Except.pure, Except.ok.injEq, List.any_eq_true]
        exact ⟨o, hop, by simp⟩
      | interface i => simp [TypeId.isAbstract] at hsup
      | union i => simp [TypeId.isAbstract] at hsup
      | scalar i => simp [Valid.possibleTypes] at hot
      | enum i => simp [Valid.possibleTypes] at hot
      | input i => simp [Valid.possibleTypes] at hot
    | object oid =>
      have hlt : oid < s.objects.length := by simpa [tyOk] using hp
      obtain ⟨ho, _⟩ := getObject_some hlt
      simp only [Valid.possibleTypes, List.mem_singleton] at hop
      subst hop
      simp only [ho, bind, Except.bind]
      cases t with
      | object o' =>
        simp only [Valid.possibleTypes, List.mem_singleton] at hot
        subst hot; exact absurd rfl heq
      | interface i =>
        simp only [Valid.possibleTypes] at hot
        obtain ⟨ob, hob, hc⟩ := C06.mem_implementors.mp hot
        rw [List.getElem?_eq_getElem hlt] at hob
        cases hob
        have hc' : i ∈ s.objects[o].implements := by simpa using hc
        simp [pure, Except.pure, hc']
      | union uid =>
        have hlt' : uid < s.unions.length := by simpa [tyOk] using ht
        obtain ⟨hu, hu'⟩ := getUnion_some hlt'
        simp only [Valid.possibleTypes, hu', List.mem_filterMap] at hot
        obtain ⟨v, hv, hvo⟩ := hot
        have hv' : v = .object o := by cases v <;> simp_all [TypeId.asObject?]
        subst hv'
        simp [hu, pure, Except.pure, hv]
      | scalar i => simp [Valid.possibleTypes] at hot
      | enum i => simp [Valid.possibleTypes] at hot
      | input i => simp [Valid.possibleTypes] at hot
    | scalar i => simp [Valid.possibleTypes] at hop
    | enum i => simp [Valid.possibleTypes] at hop
    | input i => simp [Valid.possibleTypes] at hop


/-! ## the two tree validators succeed on the resolved form of a valid, supported selection -/

theorem abstract_composite {t : TypeId} (h : t.isAbstract = true) : Valid.isComposite t = true := by
  cases t <;> simp_all [TypeId.isAbstract, Valid.isComposite]

mutual
  theorem checks_sel {s : Schema} {ff ft qF} (hw : Wf s) (htab : TableOk s ff ft qF) (strict : Bool) :
      ∀ (x : QSel) (p : TypeId) (r : Sel), Corr s ff p x r → tyOk s p = true →
        Valid.validSel s ft strict p x = true → suppSel s ft p x = true →
        typeConditions s qF p r = .ok () ∧ fieldsHaveTypename s qF r = .ok ()
    | .field alias name sub, p, r, hc, hp, hv, hsup => by
      cases hc with
      | typename hn => exact ⟨by unfold typeConditions; rfl, by unfold fieldsHaveTypename; rfl⟩
      | field hn hl hfid hleaf hsub =>
        rename_i fid f rs
        unfold Valid.validSel at hv
        unfold suppSel at hsup
        have hn' : (name == "__typename") = false := by simpa using hn
        simp only [hn', Bool.false_eq_true, if_false, hl] at hv hsup
        obtain ⟨hlt, hfe⟩ := List.getElem?_eq_some_iff.mp hfid
        have hgf : s.getField fid = .ok f := by rw [getField_some hlt, hfe]
        have hty := hw.fieldTy f (List.mem_of_getElem? hfid)
        have hsubres : typeConditionsList s qF f.ty.id rs = .ok () ∧ fieldsHaveTypenameList s qF rs = .ok () := by
          cases hcomp : Valid.isComposite f.ty.id with
          | false =>
            have := hleaf hcomp
            subst this
            cases hsub
            exact ⟨by unfold typeConditionsList; rfl, by unfold fieldsHaveTypenameList; rfl⟩
          | true =>
            simp only [hcomp, if_true, Bool.and_eq_true] at hv
            exact checks_sels hw htab strict sub f.ty.id rs hsub hty hv.1.2 hsup
        constructor
        · unfold typeConditions
          simp only [hgf, bind, Except.bind]
          exact hsubres.1
        · unfold fieldsHaveTypename
          simp only [hgf, bind, Except.bind]
          have : (f.ty.id.isAbstract && !containsTypename qF f.ty.id rs) = false := by
            cases ha : f.ty.id.isAbstract with
            | false => rfl
            | true =>
              simp only [abstract_composite ha, if_true, ha, Bool.and_eq_true, Bool.not_true, Bool.false_or] at hv
              simp [contains_of_hasTypename htab _ hsub hv.2]
          simp only [this, Bool.false_eq_true, if_false]
          exact hsubres.2
    | .inline on sub, p, r, hc, hp, hv, hsup => by
      cases hc with
      | inline ht hleaf hsub =>
        rename_i on t rs
        unfold Valid.validSel at hv
        unfold suppSel at hsup
        simp only [ht, Bool.and_eq_true] at hv hsup
        have htok := hw.names _ _ ht
        have hcond := condition_complete hp htok hv.1.2 hsup.1
        have ih := checks_sels hw htab strict sub t rs hsub htok hv.2 hsup.2
        constructor
        · unfold typeConditions
          simp only [hcond, bind, Except.bind, Bool.not_true, Bool.false_eq_true, if_false]
          exact ih.1
        · unfold fieldsHaveTypename
          exact ih.2
    | .spread n, p, r, hc, hp, hv, hsup => by
      cases hc with
      | spread hff =>
        rename_i fid
        obtain ⟨f, on, fsels, hf, hfind, hon, _⟩ := htab.find _ _ hff
        unfold Valid.validSel at hv
        unfold suppSel at hsup
        simp only [hfind, hon] at hv hsup
        have hcond := condition_complete hp (hw.names _ _ hon) hv hsup
        constructor
        · unfold typeConditions
          simp [Query.getFragment, hf, hcond, bind, Except.bind, pure, Except.pure]
        · unfold fieldsHaveTypename; rfl
  theorem checks_sels {s : Schema} {ff ft qF} (hw : Wf s) (htab : TableOk s ff ft qF) (strict : Bool) :
      ∀ (xs : List QSel) (p : TypeId) (rs : List Sel), CorrL s ff p xs rs → tyOk s p = true →
        Valid.validSels s ft strict p xs = true → suppSels s ft p xs = true →
        typeConditionsList s qF p rs = .ok () ∧ fieldsHaveTypenameList s qF rs = .ok ()
    | [], p, rs, hc, _, _, _ => by
      cases hc
      exact ⟨by unfold typeConditionsList; rfl, by unfold fieldsHaveTypenameList; rfl⟩
    | x :: xs, p, rs, hc, hp, hv, hsup => by
      cases hc with
      | cons hx hxs =>
        rename_i r rs
        unfold Valid.validSels at hv
        unfold suppSels at hsup
        simp only [Bool.and_eq_true] at hv hsup
        have h1 := checks_sel hw htab strict x p r hx hp hv.1 hsup.1
        have h2 := checks_sels hw htab strict xs p rs hxs hp hv.2 hsup.2
        constructor
        · unfold typeConditionsList
          simp only [h1.1, h2.1, bind, Except.bind]
        · unfold fieldsHaveTypenameList
          simp only [h1.2, h2.2, bind, Except.bind]
end


/-! ## subscriptions: the depth-first count never exceeds the number of keys of the specification's expansion -/

theorem qfold_len {ft : FT} {K G : Nat} {rec : List Nat → List QSel → List String × List Nat}
    (hK : ∀ e ∈ ft, Valid.qselsDepth e.2.2 + 1 ≤ K)
    (hmono : ∀ V sels, ∀ v ∈ V, v ∈ (rec V sels).2)
    (hrec : ∀ V sels, unvisited ft.length V * K + Valid.qselsDepth sels + 1 ≤ G →
      (rec V sels).1.length ≤ (Valid.rootKeys ft G sels).length) :
    ∀ (xs : List QSel) (acc : List String × List Nat),
      (∀ x ∈ xs, unvisited ft.length acc.2 * K + Valid.qselDepth x ≤ G) →
      (xs.foldl (qstep ft rec) acc).1.length ≤ acc.1.length + (xs.flatMap (rkItem ft G)).length
  | [], acc, _ => by simp
  | x :: xs, acc, had => by
    rw [List.foldl_cons, List.flatMap_cons, List.length_append]
    have hx := had x List.mem_cons_self
    have hm1 := qstep_mono ft hmono acc x
    have ih := qfold_len hK hmono hrec xs (qstep ft rec acc x) (by
      intro y hy
      have := had y (List.mem_cons_of_mem _ hy)
      have hu := unvisited_mono (nf := ft.length) hm1.2
      have := Nat.mul_le_mul_right K hu
      omega)
    have hstep : (qstep ft rec acc x).1.length ≤ acc.1.length + (rkItem ft G x).length := by
      cases x with
      | field a n sub => simp [qstep, rkItem]
      | inline on sub =>
        simp only [qstep, rkItem, List.length_append]
        have := hrec acc.2 sub (by simp only [Valid.qselDepth] at hx; omega)
        omega
      | spread n =>
        simp only [qstep]
        split
        · omega
        · rename_i fid hfid
          split
          · omega
          · rename_i hvis
            have hvis' : fid ∉ acc.2 := by simpa using hvis
            obtain ⟨e, he, _, hfind⟩ := ftff_some hfid
            simp only [he, List.length_append]
            have hlt : fid < ft.length := (List.getElem?_eq_some_iff.mp he).1
            have hu := unvisited_cons hlt hvis'
            have hKe := hK e (List.mem_of_getElem? he)
            have hmul : (unvisited ft.length (fid :: acc.2) + 1) * K ≤ unvisited ft.length acc.2 * K :=
              Nat.mul_le_mul_right K hu
            rw [Nat.succ_mul] at hmul
            have := hrec (fid :: acc.2) e.2.2 (by simp only [Valid.qselDepth] at hx; omega)
            simp only [rkItem, hfind]
            exact Nat.add_le_add_left this _
    omega

theorem qwalk_len {ft : FT} {K : Nat} (hK : ∀ e ∈ ft, Valid.qselsDepth e.2.2 + 1 ≤ K) :
    ∀ (fuel G : Nat) (V : List Nat) (sels : List QSel),
      unvisited ft.length V * K + Valid.qselsDepth sels + 1 ≤ G →
      (qwalk ft fuel V sels).1.length ≤ (Valid.rootKeys ft G sels).length
  | 0, G, V, sels, _ => by simp [qwalk]
  | fuel+1, 0, V, sels, h => by omega
  | fuel+1, G+1, V, sels, h => by
    unfold qwalk
    have := qfold_len (G := G) hK (fun V' s' => qwalk_mono ft fuel V' s')
      (fun V' s' hh => qwalk_len hK fuel G V' s' hh) sels ([], V) (by
        intro x hx
        have := qselDepth_le_of_mem hx
        simp only
        omega)
    rw [rootKeys_succ]
    simpa using this

/-- the subscription clause, completeness direction: if the specification's expansion of the root
    selection has exactly one entry, the code counts exactly one root field -/
theorem sub_count {s : Schema} {ft : FT} {qF : Query} (htab : TableOk s (ftff ft) ft qF)
    {p : TypeId} {sels : List QSel} {rs : List Sel} (hc : CorrL s (ftff ft) p sels rs)
    {dq D : Nat}
    (hdq : ∀ e ∈ ft, Valid.qselsDepth e.2.2 ≤ dq) (hdq' : Valid.qselsDepth sels ≤ dq)
    (hD : ∀ e ∈ ft, Valid.qselsDepth e.2.2 ≤ D) (hD' : Valid.qselsDepth sels ≤ D)
    (hlen : (Valid.rootKeys ft ((ft.length + 1) * (D + 1) + 1) sels).length = 1) :
    (rootFieldCount qF ((ft.length + 1) * (dq + 2) + 1) [] rs).1 = 1 := by
  rw [walk_sim htab _ _ _ _ _ hc]
  simp only
  have hu := unvisited_le ft.length []
  have hpost := qwalk_post (ft := ft) (K := dq + 1) (fun e he => by have := hdq e he; omega)
    ((ft.length + 1) * (dq + 2) + 1) [] sels (by
      have := Nat.mul_le_mul_right (dq + 1) hu
      simp only [Nat.add_mul, Nat.mul_add] at this ⊢
      omega)
  have hle := qwalk_len (ft := ft) (K := D + 1) (fun e he => by have := hD e he; omega)
    ((ft.length + 1) * (dq + 2) + 1) ((ft.length + 1) * (D + 1) + 1) [] sels (by
      have := Nat.mul_le_mul_right (D + 1) hu
      simp only [Nat.add_mul, Nat.mul_add] at this ⊢
      omega)
  generalize qwalk ft ((ft.length + 1) * (dq + 2) + 1) [] sels = w at hpost hle ⊢
  obtain ⟨ks, C⟩ := w
  simp only at hpost hle ⊢
  have hsub := rootKeys_sub_of_closed (ft := ft) (ks := ks) (C := C)
    (fun g hg e he => hpost.2 g hg (by simp) e he) ((ft.length + 1) * (D + 1) + 1) sels hpost.1
  match hr : Valid.rootKeys ft ((ft.length + 1) * (D + 1) + 1) sels, hlen with
  | [k0], _ =>
    rw [hr] at hle hsub
    have : k0 ∈ ks := hsub k0 (by simp)
    have : 0 < ks.length := List.length_pos_of_mem this
    simp only [List.length_singleton] at hle
    omega


/-! ## assembly -/

theorem bind_intro {α β} {x : Outcome α} {f : α → Outcome β} {a : α} {b : β} (hx : x = .ok a) (hf : f a = .ok b) :
    (x >>= f) = .ok b := by
  rw [hx]; exact hf

theorem forIn_check_total {α} (g : α → Outcome Unit) : ∀ (l : List α), (∀ a ∈ l, g a = .ok ()) →
    forIn l PUnit.unit (fun a _ => do g a; pure (ForInStep.yield PUnit.unit)) = (.ok PUnit.unit : Outcome PUnit)
  | [], _ => rfl
  | a :: l, h => by
    rw [List.forIn_cons]
    simp only [h a List.mem_cons_self, bind, Except.bind, pure, Except.pure]
    exact forIn_check_total g l (fun x hx => h x (List.mem_cons_of_mem _ hx))

theorem forIn_cond_total {α} (c : α → Bool) (msg : α → String) : ∀ (l : List α), (∀ a ∈ l, c a = false) →
    forIn l PUnit.unit (fun a _ => if c a = true then do
        (fail' (msg a) : Outcome PUnit); pure (ForInStep.yield PUnit.unit)
      else pure (ForInStep.yield PUnit.unit)) = (.ok PUnit.unit : Outcome PUnit)
  | [], _ => rfl
  | a :: l, h => by
    rw [List.forIn_cons]
    simp only [h a List.mem_cons_self, Bool.false_eq_true, if_false, bind, Except.bind, pure, Except.pure]
    exact forIn_cond_total c msg l (fun x hx => h x (List.mem_cons_of_mem _ hx))

theorem frag_inv {s : Schema} {d : QDoc} {qF : Query} (hR : Resolved s d qF) : ∀ f ∈ qF.fragments,
    ∃ n on sels, QDef.frag n on sels ∈ d ∧ s.findType on = some f.on ∧
      CorrL s (ftff (Valid.fragTable d)) f.on sels f.sels := by
  intro f hf
  obtain ⟨i, hi⟩ := List.getElem?_of_mem hf
  have hlt : i < (Valid.fragTable d).length := by
    rw [← hR.table.len]; exact (List.getElem?_eq_some_iff.mp hi).1
  have he : (Valid.fragTable d)[i]? = some (Valid.fragTable d)[i] := List.getElem?_eq_getElem hlt
  generalize (Valid.fragTable d)[i] = e at he
  have hnd : ((Valid.fragTable d).map (·.1)).Nodup := by rw [fragTable_names]; exact hR.fnodup
  have hff : ftff (Valid.fragTable d) e.1 = some i := ffOf_of_nodup hnd (by rw [List.getElem?_map, he]; rfl)
  obtain ⟨f', e', hf', he', hon, hcf⟩ := table_frag hR.table hff
  rw [hi] at hf'; cases hf'
  rw [he] at he'; cases he'
  exact ⟨e.1, e.2.1, e.2.2, mem_fragTable (List.mem_of_getElem? he), hon, hcf⟩

theorem op_inv {s : Schema} {d : QDoc} {qF : Query} (hR : Resolved s d qF) (hon : onames qF = Valid.opNames d) :
    ∀ o ∈ qF.operations, ∃ vars sels, QDef.op o.kind (some o.name) vars sels ∈ d ∧
      Valid.rootOf s o.kind = some o.objectId ∧
      CorrL s (ftff (Valid.fragTable d)) (.object o.objectId) sels o.sels := by
  intro o ho
  obtain ⟨i, hi⟩ := List.getElem?_of_mem ho
  have hn : (onames qF)[i]? = some o.name := by simp [onames, hi]
  have hmem : o.name ∈ Valid.opNames d := by rw [← hon]; exact List.mem_of_getElem? hn
  unfold Valid.opNames at hmem
  rw [List.mem_filterMap] at hmem
  obtain ⟨x, hx, hxn⟩ := hmem
  cases x with
  | selset sels => simp at hxn
  | frag a b c => simp at hxn
  | op kind name vars sels =>
    cases name with
    | none => simp at hxn
    | some n =>
      simp only [Option.some.injEq] at hxn
      subst hxn
      obtain ⟨n', root, id, rs, hn', hroot, _, hoF, hcorr⟩ := hR.op kind _ vars sels hx
      cases hn'
      have hn2 : (onames qF)[id]? = some o.name := by simp [onames, hoF]
      have hnd : (onames qF).Nodup := hon ▸ hR.onodup
      have e1 := ffOf_of_nodup hnd hn
      have e2 := ffOf_of_nodup hnd hn2
      rw [e1] at e2
      cases e2
      rw [hi] at hoF
      have e := Option.some.inj hoF
      have ek : o.kind = kind := congrArg ROperation.kind e
      have er : o.objectId = root := congrArg ROperation.objectId e
      have es : o.sels = rs := congrArg ROperation.sels e
      rw [ek, er, es]
      exact ⟨vars, sels, hx, hroot, hcorr⟩

/-- **C02 (first half), `resolve`: a valid document of the supported subset is accepted** — `resolve` neither
    rejects it nor panics.  `SchemaWf` (decidable): ids in range. `Supported` (decidable): the restrictions
    found while proving, each with a witness below. -/
theorem resolve_complete {s : Schema} {d : QDoc} (hs : SchemaWf s = true)
    (hv : Valid.validDoc s true d = true) (hsup : Supported s d = true) : ∃ q, resolve s d = .ok q := by
  have hw := wf_of_schemaWf hs
  unfold Valid.validDoc at hv
  simp only [Bool.and_eq_true, List.all_eq_true] at hv
  obtain ⟨⟨hon, hfn⟩, hdefs⟩ := hv
  rw [nodupStrings_iff] at hon hfn
  unfold Supported at hsup
  rw [List.all_eq_true] at hsup
  -- phase 1
  have hroot : ∀ x ∈ d, Rootable s x := by
    intro x hx
    have h1 := hdefs x hx
    have h2 := hsup x hx
    cases x with
    | selset sels => simp [Valid.validDef] at h1
    | frag n on sels =>
      unfold Valid.validDef at h1
      cases ht : s.findType on with
      | none => simp [ht] at h1
      | some t => exact ⟨t, ht⟩
    | op kind name vars sels =>
      cases name with
      | none => simp [Valid.validDef] at h1
      | some n =>
        unfold Valid.validDef at h1
        unfold suppDef at h2
        cases hr : Valid.rootOf s kind with
        | none => simp [hr] at h1
        | some r =>
          refine ⟨⟨n, rfl⟩, ⟨r, hr⟩, ?_⟩
          intro hk
          simp only [hr, Bool.and_eq_true] at h2
          have := h2.2
          subst hk
          simp [subOk] at this
          exact this.1
  obtain ⟨q0, h0⟩ := createRoots_total s d {} hroot hfn hon (by simp [fnames]) (by simp [onames])
  have hr := createRoots_ok s d {} q0 h0
  have hfn0 : fnames q0 = Valid.fragNames d := by simpa [fnames] using hr.fnames
  have hon0 : onames q0 = Valid.opNames d := by simpa [onames] using hr.onames
  -- phase 2
  have hft : ∀ e ∈ Valid.fragTable d, e.1 ∈ Valid.fragNames d := by
    intro e he
    rw [← fragTable_names]
    exact List.mem_map.mpr ⟨e, he, rfl⟩
  have hdef : ∀ x ∈ d, DefOk s (Valid.fragTable d) true (Valid.fragNames d) (Valid.opNames d) x := by
    intro x hx
    have h1 := hdefs x hx
    have h2 := hsup x hx
    cases x with
    | selset sels => simp [Valid.validDef] at h1
    | frag n on sels =>
      unfold Valid.validDef at h1
      unfold suppDef at h2
      cases ht : s.findType on with
      | none => simp [ht] at h1
      | some t =>
        simp only [ht, Bool.and_eq_true] at h1 h2
        exact ⟨mem_fragNames hx, t, ht, h2.1, h1.1, h2.2⟩
    | op kind name vars sels =>
      cases name with
      | none => simp [Valid.validDef] at h1
      | some n =>
        unfold Valid.validDef at h1
        unfold suppDef at h2
        cases hr : Valid.rootOf s kind with
        | none => simp [hr] at h1
        | some r =>
          simp only [hr, Bool.and_eq_true] at h1 h2
          exact ⟨n, r, rfl, mem_opNames hx, hr, h2.1.2, h1.1, h2.1.1⟩
  obtain ⟨qF, h1⟩ := fold_total hw hft d q0 hfn0 hon0 hdef
  have hR := resolved_of_phases h0 h1
  have hfo := fold_ok s d q0 qF h1 hfn hon
  have honF : onames qF = Valid.opNames d := hfo.onames_eq.trans hon0
  -- the validators, per fragment and per operation
  have hfragC : ∀ f ∈ qF.fragments, (typeConditionsList s qF f.on f.sels = .ok () ∧
      fieldsHaveTypenameList s qF f.sels = .ok ()) ∧ (f.on.isAbstract = true → containsTypename qF f.on f.sels = true) := by
    intro f hf
    obtain ⟨n, on, sels, hm, hty, hc⟩ := frag_inv hR f hf
    obtain ⟨_, t, ht, hcomp, hvs, hss⟩ := hdef _ hm
    rw [hty] at ht; cases ht
    refine ⟨checks_sels hw hR.table true sels _ _ hc (hw.names _ _ hty) hvs hss, ?_⟩
    intro ha
    have := hdefs _ hm
    unfold Valid.validDef at this
    simp only [hty, ha, Bool.and_eq_true, Bool.not_true, Bool.false_or] at this
    exact contains_of_hasTypename hR.table _ hc this.2
  have hopC : ∀ o ∈ qF.operations, (typeConditionsList s qF (.object o.objectId) o.sels = .ok () ∧
      fieldsHaveTypenameList s qF o.sels = .ok ()) ∧
      (o.kind = .subscription → (rootFieldCount qF (depthFuel qF) [] o.sels).1 = 1) := by
    intro o ho
    obtain ⟨vars, sels, hm, hroot, hc⟩ := op_inv hR honF o ho
    obtain ⟨n, r, hn, _, hr', _, hvs, hss⟩ := hdef _ hm
    rw [hroot] at hr'; cases hr'
    refine ⟨checks_sels hw hR.table true sels _ _ hc (by simpa [tyOk] using hw.root _ _ hroot) hvs hss, ?_⟩
    intro hk
    have h2 := hsup _ hm
    unfold suppDef at h2
    simp only [hroot, Bool.and_eq_true] at h2
    have hlen : (Valid.rootKeys (Valid.fragTable d) (((Valid.fragTable d).length + 1) * (Valid.docDepth d + 1) + 1) sels).length = 1 := by
      have := h2.2
      simp [subOk, hk] at this
      exact this.2
    obtain ⟨dq, hfuel, hdf, hdo⟩ := depthFuel_eq qF
    rw [hfuel, hR.table.len]
    have hdq : ∀ e ∈ Valid.fragTable d, Valid.qselsDepth e.2.2 ≤ dq := by
      intro e he
      obtain ⟨i, hi⟩ := List.getElem?_of_mem he
      have hnd : ((Valid.fragTable d).map (·.1)).Nodup := by rw [fragTable_names]; exact hR.fnodup
      have hff : ftff (Valid.fragTable d) e.1 = some i :=
        ffOf_of_nodup hnd (by rw [List.getElem?_map, hi]; rfl)
      obtain ⟨f, e', hf, he', _, hcf⟩ := table_frag hR.table hff
      rw [hi] at he'; cases he'
      rw [← corrL_depth _ _ _ hcf]
      exact hdf f (List.mem_of_getElem? hf)
    have hdq' : Valid.qselsDepth sels ≤ dq := by
      rw [← corrL_depth _ _ _ hc]
      exact hdo _ ho
    have hD : ∀ e ∈ Valid.fragTable d, Valid.qselsDepth e.2.2 ≤ Valid.docDepth d :=
      fun e he => docDepth_ge _ (mem_fragTable he)
    have hD' : Valid.qselsDepth sels ≤ Valid.docDepth d := docDepth_ge _ hm
    exact sub_count hR.table hc hdq hdq' hD hD' hlen
  have hV1 : validateTypenamePresence s qF = .ok () := by
    unfold validateTypenamePresence
    refine bind_intro (forIn_cond_total (fun f : RFragment => f.on.isAbstract && !containsTypename qF f.on f.sels) _ _ ?_) ?_
    · intro f hf
      cases ha : f.on.isAbstract with
      | false => rfl
      | true => simp [(hfragC f hf).2 ha]
    refine bind_intro (forIn_check_total _ _ (fun f hf => (hfragC f hf).1.2)) ?_
    refine bind_intro (forIn_check_total _ _ (fun o ho => (hopC o ho).1.2)) ?_
    rfl
  have hV2 : validateSubscriptions qF = .ok () := by
    unfold validateSubscriptions
    refine bind_intro (forIn_cond_total (fun o : ROperation => o.kind == OpKind.subscription &&
      (rootFieldCount qF (depthFuel qF) [] o.sels).fst != 1) _ _ ?_) ?_
    · intro o ho
      cases hk : o.kind with
      | subscription => simp [(hopC o ho).2 hk]
      | query => rfl
      | mutation => rfl
    rfl
  have hV3 : validateTypeConditions s qF = .ok () := by
    unfold validateTypeConditions
    refine bind_intro (forIn_check_total _ _ (fun f hf => (hfragC f hf).1.1)) ?_
    refine bind_intro (forIn_check_total _ _ (fun o ho => (hopC o ho).1.1)) ?_
    rfl
  refine ⟨qF, ?_⟩
  unfold resolve
  simp only [h0, h1, hV1, hV2, hV3, bind, Except.bind]
  rfl


/-! ## non-vacuity, necessity of `SchemaWf`, and the witnesses behind `Supported` -/

/-- `SchemaWf`, `Supported` and strict validity hold of the C06 example (interface, union, all three roots,
    fragments on a union and on the subscription root, a subscription reached through a spread), and
    `resolve` accepts it -/
example : (match Sdl.fromSdl exampleSdl with
    | .ok s => SchemaWf s && Supported s exampleDoc && Valid.validDoc s true exampleDoc && isOk (resolve s exampleDoc)
    | .error _ => false) = true := by decide +kernel

/-- a hand-made schema whose object lists a field id out of range -/
def danglingSchema : Schema :=
  { objects := [{ name := "Q", fields := [0, 7], implements := [] }],
    fields := [{ name := "a", ty := { id := .scalar 0, quals := [] }, parent := .object 0, deprecation := none }],
    scalars := ["S"],
    names := [("Q", .object 0), ("S", .scalar 0)],
    queryType := some 0 }

/-- without `SchemaWf` the theorem is false: `query Q { a }` is valid and supported, `resolve` panics
    (`get_field_by_name` reads every field of the parent) -/
theorem schemaWf_needed :
    SchemaWf danglingSchema = false ∧
    Valid.validDoc danglingSchema true [.op .query (some "Q") [] [.field none "a" []]] = true ∧
    Supported danglingSchema [.op .query (some "Q") [] [.field none "a" []]] = true ∧
    (match resolve danglingSchema [.op .query (some "Q") [] [.field none "a" []]] with
      | .error e => e == .panic "get_field" | .ok _ => false) = true := by
  decide +kernel

def wSdl : SdlDoc :=
  [.interface "Node" [{ name := "id", ty := .nonNull (.named "ID"), directives := [] }],
   .interface "Named" [{ name := "name", ty := .named "String", directives := [] }],
   .object "Dog" ["Node", "Named"] [{ name := "id", ty := .nonNull (.named "ID"), directives := [] },
                                    { name := "name", ty := .named "String", directives := [] }],
   .object "Cat" ["Node"] [{ name := "id", ty := .nonNull (.named "ID"), directives := [] }],
   .union "Pet" ["Dog", "Cat"],
   .object "Query" [] [{ name := "pet", ty := .named "Pet", directives := [] },
                       { name := "node", ty := .named "Node", directives := [] },
                       { name := "a", ty := .named "String", directives := [] }],
   .object "Subscription" [] [{ name := "s", ty := .named "String", directives := [] }]]

/-- on the schema `wSdl` (which satisfies `SchemaWf`): the document is valid by the strict specification,
    is outside `Supported`, and `resolve` returns the error `e` -/
def gap (d : QDoc) (e : Err) : Bool :=
  match Sdl.fromSdl wSdl with
  | .ok s => SchemaWf s && Valid.validDoc s true d && !Supported s d &&
      (match resolve s d with | .error e' => e' == e | .ok _ => false)
  | .error _ => false

/-- `query Q { ... { a } }` — **panic** (also in the implementation: `.expect("missing type condition on inline fragment")`) -/
theorem w_inline_untyped :
    gap [.op .query (some "Q") [] [.inline none [.field none "a" []]]]
      (.panic "missing type condition on inline fragment") = true := by decide +kernel

/-- `query Q($x: Nope) { a }` — **panic** (`find_type_id`) -/
theorem w_unknown_var_type :
    gap [.op .query (some "Q") [{ name := "x", ty := .named "Nope", default := none }] [.field none "a" []]]
      (.panic "failed to resolve TypeId for `Nope`") = true := by decide +kernel

/-- `query Q { node { __typename ... on Named { name } } }` (`Dog` implements both `Node` and `Named`) — rejected -/
theorem w_iface_in_iface :
    gap [.op .query (some "Q") [] [.field none "node" [.field none "__typename" [],
      .inline (some "Named") [.field none "name" []]]]] (.error "The spread is not valid.") = true := by decide +kernel

/-- `query Q { pet { __typename ... on Named { name } } }` — rejected -/
theorem w_iface_in_union :
    gap [.op .query (some "Q") [] [.field none "pet" [.field none "__typename" [],
      .inline (some "Named") [.field none "name" []]]]] (.error "The spread is not valid.") = true := by decide +kernel

/-- `query Q { node { __typename ... on Pet { __typename } } }` — rejected -/
theorem w_union_in_iface :
    gap [.op .query (some "Q") [] [.field none "node" [.field none "__typename" [],
      .inline (some "Pet") [.field none "__typename" []]]]] (.error "The spread is not valid.") = true := by decide +kernel

/-- `fragment F on String { __typename }  query Q { a }` — valid by `validDoc` (specification defect: GraphQL
    §5.5.1.3 wants a composite type), rejected by the code -/
theorem w_frag_on_scalar :
    gap [.frag "F" "String" [.field none "__typename" []], .op .query (some "Q") [] [.field none "a" []]]
      (.error "Selection set on non-object, non-interface type.") = true := by decide +kernel

/-- `subscription S { s s }` — one response key, two written selections: rejected by `create_roots` -/
theorem w_sub_two_same :
    gap [.op .subscription (some "S") [] [.field none "s" [], .field none "s" []]]
      (.error "Multiple-field queries on the root subscription field are forbidden by the spec.") = true := by
  decide +kernel

/-- `fragment F on Subscription { s s }  subscription S { ...F }` — one response key, counted twice -/
theorem w_sub_spread_two_same :
    gap [.frag "F" "Subscription" [.field none "s" [], .field none "s" []],
         .op .subscription (some "S") [] [.spread "F"]]
      (.error "Multiple-field queries on the root subscription field are forbidden by the spec.") = true := by
  decide +kernel

/-- the subscription clause of `Supported` is not necessary: `fragment G on Subscription { s }
    fragment F on Subscription { ...G ...G }  subscription S { ...F }` is outside `Supported` (the expansion
    has two entries) and accepted (the shared visited set counts `G` once) -/
theorem sub_clause_not_necessary :
    (match Sdl.fromSdl wSdl with
    | .ok s =>
      let d : QDoc := [.frag "G" "Subscription" [.field none "s" []], .frag "F" "Subscription" [.spread "G", .spread "G"],
        .op .subscription (some "S") [] [.spread "F"]]
      Valid.validDoc s true d && !Supported s d && isOk (resolve s d)
    | .error _ => false) = true := by decide +kernel

/-- the statement without `Supported` is **false** (on the model as written): the unrestricted converse of
    `resolve_sound_partial` fails already for an inline fragment without type condition -/
theorem resolve_complete_unrestricted_false :
    ¬ (∀ (s : Schema) (d : QDoc), SchemaWf s = true → Valid.validDoc s true d = true → ∃ q, resolve s d = .ok q) := by
  intro h
  have hw := w_inline_untyped
  unfold gap at hw
  split at hw
  · rename_i s _
    simp only [Bool.and_eq_true] at hw
    obtain ⟨⟨⟨h1, h2⟩, _⟩, h4⟩ := hw
    obtain ⟨q, hq⟩ := h s _ h1 h2
    rw [hq] at h4
    cases h4
  · cases hw

end C02Complete
end GqlVerif
