import GqlVerif.Proofs.C14GeneratedFragLink
/-!
# P26 (3/4, part 6) — `FragOpD`, part C: the denied keys erased at every depth, through flattened fragment structs

* `collOk` / `FragKeysOkD c op` — decidable side condition: at every object-level selection set of the operation the
  **collected** kept keys (own kept keys and the kept keys of the bodies of the fragments spread there) are pairwise
  distinct — every key has at most one reader (otherwise the generated struct and a flattened fragment struct compete for
  the entry: the known finding `C01-overlap`);
* `dropKeysF c sels` — collected denied keys that are not collected kept keys;
  `eraseDeniedF c op j` — the payload with, in the object of every selection set reached through kept object-typed
  fields — fields of the selection set itself **or of a fragment spread in it** — every entry of a `dropKeysF` key
  removed (`eraseObjF`, `eraseInSelF`, `eraseEntryF`, `eraseFragEntry`; inside a fragment body the tree eraser `eraseEntry`
  of `C14GeneratedDeep`); schema / selection side only;
* **`denied_field_payload_same_frag`** — `Serde.de (moduleEnv c items) ResponseData j =
  Serde.de (moduleEnv c items) ResponseData (eraseDeniedF c op j)` for EVERY `j`, under `FragOpD`, `FragKeysOkD`,
  `responseForQuery = .ok items`, item names distinct, `EnvOK (moduleEnv c items)` (decidable check `acyclicCheck`);
  `…_dePath` for every fuel without `EnvOK`.  The descent into the value of an entry that a flattened fragment struct
  reads is `Sim.buffered` (`C14GeneratedSwap.swap_dePath`).
-/
set_option linter.unusedSimpArgs false
set_option linter.unusedSectionVars false
set_option linter.unusedVariables false

namespace GqlVerif
namespace C14G
open Serde Composed SerdeFuel Codegen C13 C01 C01.E2E

/-! ## the side condition and the eraser -/

mutual
  /-- below this selection: at every object-level selection set the collected kept keys are pairwise distinct -/
  def collOkSel (c : Ctx) : Sel → Bool
    | .field _ fid sub =>
      match c.s.fields[fid]? with
      | some sf => (match sf.ty.id with
        | .object _ => EnumSpec.nodup (collectedKept c sub) && collOkSels c sub
        | _ => true)
      | none => true
    | _ => true
  def collOkSels (c : Ctx) : List Sel → Bool
    | [] => true
    | x :: xs => collOkSel c x && collOkSels c xs
end

/-- **every key has at most one reader**, at every object-level selection set of the operation -/
def FragKeysOkD (c : Ctx) (op : ROperation) : Bool :=
  EnumSpec.nodup (collectedKept c op.sels) && collOkSels c op.sels

/-- the keys to erase in the object of the selection set `sels`: collected denied keys that no collected kept selection uses -/
def dropKeysF (c : Ctx) (sels : List Sel) : List String :=
  (collectedDenied c sels).filter (fun k => !(collectedKept c sels).contains k)

/-- the value of an entry read by a member of the struct of a spread fragment: the tree eraser of that fragment's body
    (every fragment in turn: with pairwise distinct collected keys at most one of them acts) -/
def eraseFragEntry (c : Ctx) : List RFragment → String → Json → Json
  | [], _, v => v
  | f :: fs, key, v => eraseFragEntry c fs key (eraseEntry c f.sels key v)

mutual
  def eraseInSelF (c : Ctx) : Sel → Json → Json
    | .field _ fid sub, v =>
      match c.s.fields[fid]? with
      | some sf => (match sf.ty.id with
        | .object _ => thruQuals (fun j => match j with
            | .obj kvs => .obj ((eraseKeys (dropKeysF c sub) kvs).map
                (fun kv => (kv.1, eraseEntryF c sub kv.1 (eraseFragEntry c (spreadFrags c sub) kv.1 kv.2))))
            | j => j) sf.ty.quals v
        | _ => v)
      | none => v
    | _, v => v
  def eraseEntryF (c : Ctx) : List Sel → String → Json → Json
    | [], _, v => v
    | x :: xs, key, v => if keptKey c x = some key then eraseInSelF c x v else eraseEntryF c xs key v
end

/-- the object of the selection set `sels` -/
def eraseObjF (c : Ctx) (sels : List Sel) : Json → Json
  | .obj kvs => .obj ((eraseKeys (dropKeysF c sels) kvs).map
      (fun kv => (kv.1, eraseEntryF c sels kv.1 (eraseFragEntry c (spreadFrags c sels) kv.1 kv.2))))
  | j => j

/-- **the payload with the denied keys erased at every depth** (class `FragOpD`) -/
def eraseDeniedF (c : Ctx) (op : ROperation) (j : Json) : Json := eraseObjF c op.sels j

theorem eraseInSelF_object {c : Ctx} {a : Option String} {fid : Nat} {sub : List Sel} {sf : StoredField} {i : Nat}
    (hsf : c.s.fields[fid]? = some sf) (hid : sf.ty.id = .object i) (v : Json) :
    eraseInSelF c (.field a fid sub) v = thruQuals (eraseObjF c sub) sf.ty.quals v := by
  rw [eraseInSelF]
  simp only [hsf, hid]
  congr 1

theorem eraseInSelF_leaf {c : Ctx} {a : Option String} {fid : Nat} {sub : List Sel} {sf : StoredField}
    (hsf : c.s.fields[fid]? = some sf) (hid : ∀ i, sf.ty.id ≠ .object i) (v : Json) :
    eraseInSelF c (.field a fid sub) v = v := by
  cases h : sf.ty.id with
  | object i => exact absurd h (hid i)
  | _ => simp [eraseInSelF, hsf, h]

/-- no kept selection with this key: the entry is left alone -/
theorem eraseEntry_not_kept (c : Ctx) : ∀ (xs : List Sel) (key : String) (v : Json), key ∉ keptKeys c xs →
    eraseEntry c xs key v = v
  | [], _, _, _ => by rw [eraseEntry]
  | x :: xs, key, v, h => by
    rw [eraseEntry]
    simp only [keptKeys, List.filterMap_cons] at h
    by_cases hk : keptKey c x = some key
    · simp [hk] at h
    · rw [if_neg hk]
      apply eraseEntry_not_kept c xs key v
      cases hx : keptKey c x with
      | none => simpa [hx, keptKeys] using h
      | some k' =>
        simp only [hx, List.mem_cons, not_or] at h
        exact h.2

theorem eraseEntryF_not_kept (c : Ctx) : ∀ (xs : List Sel) (key : String) (v : Json), key ∉ keptKeys c xs →
    eraseEntryF c xs key v = v
  | [], _, _, _ => by rw [eraseEntryF]
  | x :: xs, key, v, h => by
    rw [eraseEntryF]
    simp only [keptKeys, List.filterMap_cons] at h
    by_cases hk : keptKey c x = some key
    · simp [hk] at h
    · rw [if_neg hk]
      apply eraseEntryF_not_kept c xs key v
      cases hx : keptKey c x with
      | none => simpa [hx, keptKeys] using h
      | some k' =>
        simp only [hx, List.mem_cons, not_or] at h
        exact h.2

theorem eraseFragEntry_not_kept (c : Ctx) : ∀ (fs : List RFragment) (key : String) (v : Json),
    (∀ f ∈ fs, key ∉ keptKeys c f.sels) → eraseFragEntry c fs key v = v
  | [], _, _, _ => rfl
  | f :: fs, key, v, h => by
    rw [eraseFragEntry, eraseEntry_not_kept c f.sels key v (h f (by simp))]
    exact eraseFragEntry_not_kept c fs key v (fun f' hf' => h f' (by simp [hf']))

/-! ## the structure of `Reach` at a node -/

theorem reach_plain_struct {e : Env} {p n : String} {d : List String} {sc : Option String} {fs : List RField}
    (hfind : e.find p = some (.struct n d sc fs)) (hnf : ∀ f ∈ fs, f.flatten = false) {q : String}
    (h : Composed.Reach e p q) : q = p := by
  cases h with
  | refl => rfl
  | item hf hq _ =>
    rw [hfind] at hf
    cases hf
    simp only [sameLevel, List.mem_map, List.mem_filter] at hq
    obtain ⟨f, ⟨hm, hfl⟩, _⟩ := hq
    rw [hnf f hm] at hfl
    cases hfl
  | extern hn _ _ => rw [hfind] at hn; cases hn

/-- from the struct of a (non-lone) node one reaches the node itself and the structs of the fragments spread there -/
theorem reach_node {e : Env} {c : Ctx} {name pfx : String} {i : Nat} {sels : List Sel}
    (henv : NodeEnv e c name pfx i sels) (hnl : ∀ g, sels ≠ [Sel.spread g]) {q : String}
    (h : Composed.Reach e name q) : q = name ∨ ∃ fr ∈ spreadFrags c sels, q = fr.name := by
  have hfind := henv.self hnl
  cases h with
  | refl => exact .inl rfl
  | item hf hq hr =>
    rw [hfind] at hf
    cases hf
    simp only [sameLevel, List.mem_map, List.mem_filter] at hq
    obtain ⟨f, ⟨hm, hfl⟩, rfl⟩ := hq
    rcases mem_fieldsOfFD hm with ⟨h1, _⟩ | ⟨_, fr, hfr, hty⟩
    · rw [hfl] at h1; cases h1
    · right
      refine ⟨fr, hfr, ?_⟩
      obtain ⟨_, _, _, hfindF, _⟩ := henv.frag fr hfr
      rw [hty] at hr
      exact reach_plain_struct hfindF (fun m hm' => (wire_mem_keptKeys hm').2) hr
  | extern hn _ _ => rw [hfind] at hn; cases hn

/-! ## one fragment-read entry at a time -/

/-- entries replaced one after the other, left to right -/
theorem sim_map_entries {e : Env} {p : String} (h : String → Json → Json)
    (hstep : ∀ (key : String) (v : Json) (pre post : List (String × Json)),
      Sim e (.named p) (.obj (pre ++ (key, v) :: post)) (.obj (pre ++ (key, h key v) :: post))) :
    ∀ (done rest : List (String × Json)),
      Sim e (.named p) (.obj (done ++ rest)) (.obj (done ++ rest.map (fun kv => (kv.1, h kv.1 kv.2))))
  | done, [] => by simpa using Sim.refl _ _
  | done, (key, v) :: rest => by
    have h1 := hstep key v done rest
    have h2 := sim_map_entries h hstep (done ++ [(key, h key v)]) rest
    simp only [List.append_assoc, List.singleton_append] at h2
    simp only [List.map_cons]
    exact .trans h1 h2

/-! ## at most one reader per key -/

theorem flatMap_unique {α : Type} (K : α → List String) : ∀ {fs : List α}, (fs.flatMap K).Nodup → ∀ {a b : α} {key : String},
    a ∈ fs → b ∈ fs → key ∈ K a → key ∈ K b → a = b
  | [], _, _, _, _, ha, _, _, _ => by simp at ha
  | f :: rest, hnd, a, b, key, ha, hb, hka, hkb => by
    simp only [List.flatMap_cons, List.nodup_append] at hnd
    obtain ⟨_, hr, hdis⟩ := hnd
    rcases List.mem_cons.mp ha with rfl | ha' <;> rcases List.mem_cons.mp hb with rfl | hb'
    · rfl
    · exact absurd rfl (hdis key hka key (List.mem_flatMap.mpr ⟨b, hb', hkb⟩))
    · exact absurd rfl (hdis key hkb key (List.mem_flatMap.mpr ⟨a, ha', hka⟩))
    · exact flatMap_unique K hr ha' hb' hka hkb

theorem eraseFragEntry_unique (c : Ctx) : ∀ {fs : List RFragment}, (fs.flatMap (fun f => keptKeys c f.sels)).Nodup →
    ∀ {fr : RFragment} {key : String} (v : Json), fr ∈ fs → key ∈ keptKeys c fr.sels →
      eraseFragEntry c fs key v = eraseEntry c fr.sels key v
  | [], _, _, _, _, h, _ => by simp at h
  | f :: rest, hnd, fr, key, v, hfr, hk => by
    simp only [List.flatMap_cons, List.nodup_append] at hnd
    obtain ⟨_, hr, hdis⟩ := hnd
    rw [eraseFragEntry]
    by_cases hkf : key ∈ keptKeys c f.sels
    · have hrest : ∀ f' ∈ rest, key ∉ keptKeys c f'.sels :=
        fun f' hf' h' => hdis key hkf key (List.mem_flatMap.mpr ⟨f', hf', h'⟩) rfl
      rw [eraseFragEntry_not_kept c rest key _ hrest]
      rcases List.mem_cons.mp hfr with rfl | hfr'
      · rfl
      · exact absurd hk (hrest fr hfr')
    · rw [eraseEntry_not_kept c f.sels key v hkf]
      rcases List.mem_cons.mp hfr with rfl | hfr'
      · exact absurd hk hkf
      · exact eraseFragEntry_unique c hr v hfr' hk

theorem collected_nodup_parts {c : Ctx} {sels : List Sel} (h : EnumSpec.nodup (collectedKept c sels) = true) :
    (keptKeys c sels).Nodup ∧ ((spreadFrags c sels).flatMap (fun f => keptKeys c f.sels)).Nodup ∧
    ∀ k ∈ keptKeys c sels, ∀ f ∈ spreadFrags c sels, k ∉ keptKeys c f.sels := by
  have := nodup_iff'.mp h
  simp only [collectedKept, List.nodup_append] at this
  obtain ⟨h1, h2, h3⟩ := this
  exact ⟨h1, h2, fun k hk f hf hkf => h3 k hk k (List.mem_flatMap.mpr ⟨f, hf, hkf⟩) rfl⟩

/-! ## one node -/

section Node
variable {c : Ctx} {items : List Item} (hnd : (items.map (·.name)).Nodup) (hbi : ∀ it ∈ builtinAliases, it ∈ items)
include hnd hbi

/-- the body of a fragment spread at a node: the tree theorems apply to it -/
theorem frag_entryOK {name pfx : String} {i : Nat} {sels : List Sel} (henv : NodeEnv (moduleEnv c items) c name pfx i sels)
    {fr : RFragment} (hfr : fr ∈ spreadFrags c sels) : EntryOK (moduleEnv c items) c (c.cs.camel fr.name) fr.sels := by
  obtain ⟨_, hv, _, _, hsub⟩ := henv.frag fr hfr
  exact simSels fr.sels _ hv (envSelsD_of (c := c) hnd hbi fr.sels _ hsub)

/-- **one entry read by a flattened fragment struct**, its value erased inside -/
theorem sim_frag_step {name pfx : String} {i : Nat} {sels : List Sel} (henv : NodeEnv (moduleEnv c items) c name pfx i sels)
    (hnl : ∀ g, sels ≠ [Sel.spread g]) (hcoll : EnumSpec.nodup (collectedKept c sels) = true)
    (key : String) (v : Json) (pre post : List (String × Json)) :
    Sim (moduleEnv c items) (.named name) (.obj (pre ++ (key, v) :: post))
      (.obj (pre ++ (key, eraseFragEntry c (spreadFrags c sels) key v) :: post)) := by
  obtain ⟨hown, hfl, hdis⟩ := collected_nodup_parts hcoll
  by_cases hex : ∃ fr ∈ spreadFrags c sels, key ∈ keptKeys c fr.sels
  · obtain ⟨fr, hfr, hk⟩ := hex
    rw [eraseFragEntry_unique c hfl v hfr hk]
    obtain ⟨_, hv, hkn, hfindF, _⟩ := henv.frag fr hfr
    rcases frag_entryOK hnd hbi henv hfr key v with h | ⟨f, hf, hw, hdw, hs⟩
    · rw [h]; exact .refl _ _
    · have hwires : ((fieldsOfD c (c.cs.camel fr.name) fr.sels).map (·.wire)).Nodup := by
        rw [fieldsOfD_wires c _ fr.sels hv]; exact nodup_iff'.mp hkn
      -- the readers of `key` among the structs that read this object: only `f` of the fragment struct
      have readers : ∀ q n d sc fs f', Composed.Reach (moduleEnv c items) name q →
          (moduleEnv c items).find q = some (.struct n d sc fs) → f' ∈ fs → f'.flatten = false → f'.wire = key → f' = f := by
        intro q n d sc fs f' hq hfq hm hfl' hw'
        rcases reach_node henv hnl hq with rfl | ⟨fr', hfr', rfl⟩
        · rw [henv.self hnl] at hfq
          cases hfq
          rcases mem_fieldsOfFD hm with ⟨_, h2⟩ | ⟨h1, _⟩
          · exact absurd hk (hdis key (hw' ▸ h2) fr hfr)
          · rw [hfl'] at h1; cases h1
        · obtain ⟨_, _, _, hfindF', _⟩ := henv.frag fr' hfr'
          rw [hfindF'] at hfq
          cases hfq
          have hk' : key ∈ keptKeys c fr'.sels := hw' ▸ (wire_mem_keptKeys hm).1
          have : fr' = fr := flatMap_unique (fun f => keptKeys c f.sels) hfl hfr' hfr hk' hk
          subst this
          exact eq_of_wire_eq hwires hf hm (hw'.trans hw.symm)
      refine .buffered (Swap.at pre post) (fun q it hq hfq => ?_) (fun q n d sc fs f' hq hfq hm hfl' hw' => ?_)
        (fun q n d sc fs f' hq hfq hm hfl' hw' => ?_)
      · rcases reach_node henv hnl hq with rfl | ⟨fr', hfr', rfl⟩
        · rw [henv.self hnl] at hfq; cases hfq; rfl
        · obtain ⟨_, _, _, hfindF', _⟩ := henv.frag fr' hfr'
          rw [hfindF'] at hfq; cases hfq; rfl
      · rw [readers q n d sc fs f' hq hfq hm hfl' hw']; exact hdw
      · rw [readers q n d sc fs f' hq hfq hm hfl' hw']; exact hs
  · have : ∀ fr ∈ spreadFrags c sels, key ∉ keptKeys c fr.sels := fun fr hfr h => hex ⟨fr, hfr, h⟩
    rw [eraseFragEntry_not_kept c _ key v this]
    exact .refl _ _

/-- what the descent needs to know about an own entry of a node -/
def EntryOKF (e : Env) (c : Ctx) (pfx : String) (sels : List Sel) : Prop :=
  ∀ key v, eraseEntryF c sels key v = v ∨
    ∃ f ∈ fieldsOfFD c pfx sels, f.flatten = false ∧ f.wire = key ∧ f.deserWith = none ∧
      Sim e (.ty f.ty) v (eraseEntryF c sels key v)

omit hnd hbi in
theorem sim_entriesF {e : Env} {pfx : String} {sels : List Sel} (hown : (keptKeys c sels).Nodup) (H : EntryOKF e c pfx sels) :
    ∀ kvs : List (String × Json), Sim e (.entries (fieldsOfFD c pfx sels)) (.obj kvs)
      (.obj (kvs.map (fun kv => (kv.1, eraseEntryF c sels kv.1 kv.2))))
  | [] => .refl _ _
  | (key, v) :: rest => by
    have ih := sim_entriesF hown H rest
    simp only [List.map_cons]
    rcases H key v with h | ⟨f, hf, hfl, hw, hdw, hs⟩
    · rw [h]; exact .keep ih
    · subst hw
      refine .field hf hfl hdw (fun g hg hgfl hgw => ?_) hs ih
      -- two own members with the same wire name: the same selection (kept keys pairwise distinct)
      obtain ⟨x, hx, hfx⟩ := List.mem_filterMap.mp hf
      obtain ⟨y, hy, hgy⟩ := List.mem_filterMap.mp hg
      rcases fieldOfSelFD_cases hfx with ⟨_, hkx⟩ | ⟨_, fr, _, _, rfl⟩
      · rcases fieldOfSelFD_cases hgy with ⟨_, hky⟩ | ⟨_, fr, _, _, rfl⟩
        · rw [hgw] at hky
          have : x = y := by
            clear ih H hs
            induction sels with
            | nil => simp at hx
            | cons z zs ihz =>
              simp only [keptKeys, List.filterMap_cons] at hown
              rcases List.mem_cons.mp hx with rfl | hx' <;> rcases List.mem_cons.mp hy with rfl | hy'
              · rfl
              · rw [hkx, List.nodup_cons] at hown
                exact absurd (List.mem_filterMap.mpr ⟨y, hy', hky⟩) hown.1
              · rw [hky, List.nodup_cons] at hown
                exact absurd (List.mem_filterMap.mpr ⟨x, hx', hkx⟩) hown.1
              · have hz : (List.filterMap (keptKey c) zs).Nodup := by
                  cases hkz : keptKey c z with
                  | none => simpa [hkz] using hown
                  | some k' => rw [hkz, List.nodup_cons] at hown; exact hown.2
                exact ihz hz (List.mem_filterMap.mpr ⟨x, hx', hfx⟩) (List.mem_filterMap.mpr ⟨y, hy', hgy⟩) hx' hy'
          subst this
          rw [hfx] at hgy
          exact (Option.some.inj hgy).symm
        · simp [spreadField] at hgfl
      · simp [spreadField] at hfl

/-- **one node**: the object read at the node's name — a struct with flattened fragment structs, or an alias to a
    fragment struct — with the `dropKeysF` entries removed and the other entries erased inside -/
theorem sim_eraseObjF {name pfx : String} {i : Nat} {sels : List Sel} (henv : NodeEnv (moduleEnv c items) c name pfx i sels)
    (hcoll : EnumSpec.nodup (collectedKept c sels) = true) (H : EntryOKF (moduleEnv c items) c pfx sels) :
    ∀ j, Sim (moduleEnv c items) (.named name) j (eraseObjF c sels j) := by
  intro j
  obtain ⟨hown, _, _⟩ := collected_nodup_parts hcoll
  have hkf : ∀ k ∈ dropKeysF c sels, KeyFree (moduleEnv c items) k name := by
    intro k hk
    simp only [dropKeysF, List.mem_filter, Bool.not_eq_true', List.contains_eq_mem, decide_eq_false_iff_not] at hk
    exact nodeEnv_keyFree henv hk.2
  cases j with
  | obj kvs =>
    rw [eraseObjF]
    by_cases hl : ∃ g, sels = [Sel.spread g]
    · -- a type alias to the fragment struct: everything happens there
      obtain ⟨g, hg⟩ := hl
      obtain ⟨fr, hfr⟩ := henv.known g (by rw [hg]; simp)
      have hmem : fr ∈ spreadFrags c sels := mem_spreadFrags.mpr ⟨g, by rw [hg]; simp, hfr⟩
      obtain ⟨_, hv, hkn, hfindF, _⟩ := henv.frag fr hmem
      have hfrags : spreadFrags c sels = [fr] := by rw [hg]; simp [spreadFrags, hfr]
      have hmap : ∀ kv : String × Json, (kv.1, eraseEntryF c sels kv.1 (eraseFragEntry c (spreadFrags c sels) kv.1 kv.2)) =
          (kv.1, eraseEntry c fr.sels kv.1 kv.2) := by
        intro kv
        rw [hfrags, eraseEntryF_not_kept c sels _ _ (by rw [hg]; simp [keptKeys, keptKey])]
        rfl
      simp only [hmap]
      refine .trans (Sim.eraseKeys (dropKeysF c sels) kvs hkf) (.alias (henv.lone g hg) ?_)
      simp only [fragName, hfr]
      exact .path (.struct hfindF (sim_entries hv hkn (frag_entryOK hnd hbi henv hmem) _))
    · have hnl : ∀ g, sels ≠ [Sel.spread g] := fun g h => hl ⟨g, h⟩
      have e1 : (eraseKeys (dropKeysF c sels) kvs).map
            (fun kv => (kv.1, eraseEntryF c sels kv.1 (eraseFragEntry c (spreadFrags c sels) kv.1 kv.2))) =
          ((eraseKeys (dropKeysF c sels) kvs).map (fun kv => (kv.1, eraseFragEntry c (spreadFrags c sels) kv.1 kv.2))).map
            (fun kv => (kv.1, eraseEntryF c sels kv.1 kv.2)) := by
        rw [List.map_map]; rfl
      rw [e1]
      refine .trans (Sim.eraseKeys (dropKeysF c sels) kvs hkf) (.trans ?_ (.struct (henv.self hnl) (sim_entriesF hown H _)))
      have := sim_map_entries (e := moduleEnv c items) (p := name) (fun key v => eraseFragEntry c (spreadFrags c sels) key v)
        (sim_frag_step hnd hbi henv hnl hcoll) [] (eraseKeys (dropKeysF c sels) kvs)
      simpa using this
  | null => exact .refl _ _
  | bool _ => exact .refl _ _
  | int _ => exact .refl _ _
  | num _ => exact .refl _ _
  | str _ => exact .refl _ _
  | arr _ => exact .refl _ _

end Node

/-! ## the whole tree -/

theorem fSelsD_of_fBodyD {c : Ctx} {p : TypeId} {sels : List Sel} (h : fBodyD c p sels = true) : fSelsD c p sels = true := by
  by_cases hl : ∃ g, sels = [Sel.spread g]
  · obtain ⟨g, rfl⟩ := hl
    have : fragOkD c p g = true := h
    simp [fSelsD, fSelD, this]
  · rw [fBodyD_not_lone (fun g hg => hl ⟨g, hg⟩), Bool.and_eq_true] at h
    exact h.1

theorem alias_name_ne_ID (c : Ctx) {items : List Item} (hnd : (items.map (·.name)).Nodup)
    (hb : ∀ it ∈ builtinAliases, it ∈ items) {n t : String} (hmem : aliasItem n t false ∈ items) : n ≠ "ID" := by
  intro h
  have h1 := find_of_mem (customExterns c) hnd hmem
  have h2 := find_of_mem (customExterns c) hnd (hb (.alias "ID" false (.path "String")) (by simp [builtinAliases]))
  have h3 : (aliasItem n t false).name = "ID" := h
  have h4 : (Item.alias "ID" false (.path "String")).name = "ID" := rfl
  rw [h3] at h1
  rw [h4, h1] at h2
  simp [aliasItem] at h2

/-- the nodes below every object-typed field of a selection list resolve in the module -/
def ChildEnv (c : Ctx) (items : List Item) (pfx : String) (xs : List Sel) : Prop :=
  ∀ (a : Option String) (fid : Nat) (sub : List Sel) (sf : StoredField) (j : Nat), Sel.field a fid sub ∈ xs →
    c.s.fields[fid]? = some sf → sf.ty.id = .object j →
    ∀ n' p' i' s', NodeF c (pfx ++ c.cs.camel (a.getD sf.name)) (pfx ++ c.cs.camel (a.getD sf.name)) j sub n' p' i' s' →
      NodeEnv (moduleEnv c items) c n' p' i' s'

section TreeF
variable {c : Ctx} {items : List Item} (hnd : (items.map (·.name)).Nodup) (hbi : ∀ it ∈ builtinAliases, it ∈ items)
include hnd hbi

theorem node_name_ne_ID {name pfx : String} {i : Nat} {sels : List Sel}
    (henv : NodeEnv (moduleEnv c items) c name pfx i sels) : name ≠ "ID" := by
  by_cases hl : ∃ g, sels = [Sel.spread g]
  · obtain ⟨g, hg⟩ := hl
    have := List.mem_of_find?_eq_some (henv.lone g hg)
    exact alias_name_ne_ID c hnd hbi this
  · have := List.mem_of_find?_eq_some (henv.self (fun g h => hl ⟨g, h⟩))
    exact struct_name_ne_ID c hnd hbi this

mutual
  theorem simSelF : ∀ (x : Sel) (pfx : String) (p : TypeId), fSelD c p x = true → collOkSel c x = true →
      ChildEnv c items pfx [x] → ∀ f, fieldOfSelD c pfx x = some f → ∀ v, Sim (moduleEnv c items) (.ty f.ty) v (eraseInSelF c x v)
    | .field a fid sub, pfx, p => by
      intro ht hco hC f hf v
      have IH := simSelsF sub
      have hx := ht
      rw [fSelD] at ht
      rw [collOkSel] at hco
      simp only [fieldOfSelD] at hf
      cases hsf : c.s.fields[fid]? with
      | none => simp [hsf] at ht
      | some sf =>
        simp only [hsf, Bool.and_eq_true] at ht hco hf
        by_cases hd : isDenied c sf = true
        · simp [hd] at hf
        · simp only [hd, Bool.false_eq_true, ↓reduceIte] at hf
          cases hid : sf.ty.id with
          | object j =>
            simp only [hid, Bool.and_eq_true] at hco
            simp only [hid, leafName, Option.some.injEq] at hf
            subst hf
            have hbody := (fSelD_object hsf hid hx).2
            have henv' := hC a fid sub sf j (by simp) hsf hid _ _ _ _ (.here _ _ _ _)
            have hC' : ChildEnv c items (pfx ++ c.cs.camel (a.getD sf.name)) sub := by
              intro a' fid' sub' sf' j' hm' hsf' hid' n' p' i' s' hn'
              exact hC a fid sub sf j (by simp) hsf hid _ _ _ _ (.step hm' hsf' hid' hn')
            rw [eraseInSelF_object hsf hid]
            exact (sim_thruQuals (sim_eraseObjF hnd hbi henv' hco.1
              (IH _ (.object j) (fSelsD_of_fBodyD hbody) hco.2 hC')) sf.ty.quals v).1
          | scalar k => rw [eraseInSelF_leaf hsf (by simp [hid])]; exact .refl _ _
          | enum k => rw [eraseInSelF_leaf hsf (by simp [hid])]; exact .refl _ _
          | interface k => simp [hid] at ht
          | union k => simp [hid] at ht
          | input k => simp [hid] at ht
    | .spread _, _, _ => by intro _ _ _ f hf; simp [fieldOfSelD] at hf
    | .inline _ _, _, _ => by intro ht; simp [fSelD] at ht
    | .typename, _, _ => by intro _ _ _ f hf; simp [fieldOfSelD] at hf
  theorem simSelsF : ∀ (xs : List Sel) (pfx : String) (p : TypeId), fSelsD c p xs = true → collOkSels c xs = true →
      ChildEnv c items pfx xs → EntryOKF (moduleEnv c items) c pfx xs
    | [], _, _ => by intro _ _ _ key v; exact .inl (by rw [eraseEntryF])
    | x :: xs, pfx, p => by
      intro ht hco hC key v
      obtain ⟨hx, hxs⟩ := fSelsD_cons ht
      rw [collOkSels, Bool.and_eq_true] at hco
      have hCx : ChildEnv c items pfx [x] := by
        intro a fid sub sf j hm
        simp only [List.mem_singleton] at hm
        exact hC a fid sub sf j (by simp [hm])
      have hCxs : ChildEnv c items pfx xs := fun a fid sub sf j hm => hC a fid sub sf j (by simp [hm])
      rw [eraseEntryF]
      by_cases hk : keptKey c x = some key
      · rw [if_pos hk]
        cases x with
        | field a fid sub =>
          have hx' := hx
          rw [fSelD] at hx'
          simp only [keptKey] at hk
          cases hsf : c.s.fields[fid]? with
          | none => simp [hsf] at hx'
          | some sf =>
            simp only [hsf, Bool.and_eq_true] at hx' hk
            by_cases hd : isDenied c sf = true
            · simp [hd] at hk
            · simp only [hd, Bool.false_eq_true, ↓reduceIte, Option.some.injEq] at hk
              cases hid : sf.ty.id with
              | object j =>
                right
                have hfx : fieldOfSelD c pfx (.field a fid sub) =
                    some (fieldOf c (a.getD sf.name) (pfx ++ c.cs.camel (a.getD sf.name)) sf.ty.quals sf.deprecation) := by
                  simp [fieldOfSelD, hsf, hd, hid, leafName]
                have henv' := hC a fid sub sf j (by simp) hsf hid _ _ _ _ (.here _ _ _ _)
                have hne := node_name_ne_ID hnd hbi henv'
                refine ⟨_, ?_, rfl, ?_, ?_, simSelF _ pfx p hx hco.1 hCx _ hfx v⟩
                · simp only [fieldsOfFD, List.filterMap_cons]
                  have : fieldOfSelFD c pfx (.field a fid sub) = fieldOfSelD c pfx (.field a fid sub) := rfl
                  rw [this, hfx]
                  exact List.mem_cons_self
                · rw [fieldOf_wire]; exact hk
                · simp [fieldOf, hne]
              | scalar k => left; exact eraseInSelF_leaf hsf (by simp [hid]) v
              | enum k => left; exact eraseInSelF_leaf hsf (by simp [hid]) v
              | interface k => simp [hid] at hx'
              | union k => simp [hid] at hx'
              | input k => simp [hid] at hx'
        | spread g => simp [keptKey] at hk
        | inline t sub => simp [keptKey] at hk
        | typename => simp [keptKey] at hk
      · rw [if_neg hk]
        rcases simSelsF xs pfx p hxs hco.2 hCxs key v with h | ⟨f, hf, h⟩
        · exact .inl h
        · refine .inr ⟨f, ?_, h⟩
          simp only [fieldsOfFD, List.filterMap_cons] at hf ⊢
          cases fieldOfSelFD c pfx x with
          | none => exact hf
          | some f' => exact List.mem_cons_of_mem _ hf
end

end TreeF

/-! ## end to end -/

theorem fragKeysOkD_parts {c : Ctx} {op : ROperation} (h : FragKeysOkD c op = true) :
    EnumSpec.nodup (collectedKept c op.sels) = true ∧ collOkSels c op.sels = true := by
  simpa [FragKeysOkD] using h

/-- the relation behind the corollary -/
theorem eraseDeniedF_sim (c : Ctx) (opIdx : Nat) (op : ROperation) (items : List Item)
    (hop : c.q.operations[opIdx]? = some op) (ht : FragOpD c op = true) (hk : FragKeysOkD c op = true)
    (hgen : responseForQuery c opIdx = .ok items) (hnd : EnumSpec.nodup (items.map (·.name)) = true) (j : Json) :
    Sim (moduleEnv c items) (.named "ResponseData") j (eraseDeniedF c op j) := by
  obtain ⟨_, hbody⟩ := fragOpD_parts ht
  obtain ⟨hk1, hk2⟩ := fragKeysOkD_parts hk
  obtain ⟨u, pre, frags, o, resp, _, _, _, _, hitems⟩ := responseForQuery_partsF hgen
  have hnd' := nodup_iff'.mp hnd
  have hbi : ∀ it ∈ builtinAliases, it ∈ items := fun it h => by rw [hitems]; simp [h]
  have hroot := (nodeF_env c opIdx op items hop ht hgen hnd (.here _ _ _ _)).1
  have hC : ChildEnv c items (c.cs.camel op.name) op.sels := by
    intro a fid sub sf j' hm hsf hid n' p' i' s' hn'
    exact (nodeF_env c opIdx op items hop ht hgen hnd (.step hm hsf hid hn')).1
  exact sim_eraseObjF hnd' hbi hroot hk1 (simSelsF hnd' hbi op.sels _ _ (fSelsD_of_fBodyD hbody) hk2 hC) j

/-- `dePath` form: any fuel, buffered or not, no `EnvOK` -/
theorem denied_field_payload_same_frag_dePath (c : Ctx) (opIdx : Nat) (op : ROperation) (items : List Item)
    (hop : c.q.operations[opIdx]? = some op) (ht : FragOpD c op = true) (hk : FragKeysOkD c op = true)
    (hgen : responseForQuery c opIdx = .ok items) (hnd : EnumSpec.nodup (items.map (·.name)) = true)
    (b : Bool) (fuel : Nat) (j : Json) :
    dePath (moduleEnv c items) b fuel "ResponseData" j = dePath (moduleEnv c items) b fuel "ResponseData" (eraseDeniedF c op j) :=
  sim_sound (eraseDeniedF_sim c opIdx op items hop ht hk hgen hnd j) b fuel

/-- **C14 end to end with flattened fragment structs**: for an emitted module of the class `FragOpD`, EVERY payload
    deserializes at `ResponseData` exactly as the payload with the denied keys erased at every depth — in the objects of
    the selection sets themselves and through the fragments spread in them — same value or same error -/
theorem denied_field_payload_same_frag (c : Ctx) (opIdx : Nat) (op : ROperation) (items : List Item)
    (hop : c.q.operations[opIdx]? = some op) (ht : FragOpD c op = true) (hk : FragKeysOkD c op = true)
    (hgen : responseForQuery c opIdx = .ok items) (hnd : EnumSpec.nodup (items.map (·.name)) = true)
    (hOK : EnvOK (moduleEnv c items)) (j : Json) :
    Serde.de (moduleEnv c items) (.path "ResponseData") j =
      Serde.de (moduleEnv c items) (.path "ResponseData") (eraseDeniedF c op j) :=
  sim_de_named hOK (eraseDeniedF_sim c opIdx op items hop ht hk hgen hnd j)

end C14G
end GqlVerif
