import GqlVerif.Proofs.C01AbstractH
/-!
# C01 end to end, step 2 (`FragmentOp`), part D: losslessness

* serde, writing side: `ser_flat` (a struct with any number of flattened members writes its own entries and the
  members' entries in declaration order), `deStruct_flat_finds` (what such a struct read, found again by Rust
  field name), `find_filterMap_rust`, `flatVals_find`;
* `canonSelF s q skip sels j` — the allowed differences: as `canonSelV`, **the entries of a spread fragment come at
  the position of the spread** (a lone spread: the fragment's own canonical form);
* `rtMemberF`, `rtStructF`, `rtAliasF`, `rtBodyF`, mutual `rtSelF` / `rtSelsF`, `bodyF_lossless` — round trip of the
  emitted types; `norm_canonSelF` — the canonical form is a `serde_json::to_value` normal form;
* **`fragment_lossless`** / `fragment_roundtrip` — over `moduleEnv c items` for the module `responseForQuery` emits.

Additional decidable side condition: `fragRustOk` (Rust field names — own fields and flattened members — pairwise
distinct in every struct, and inside every spread fragment).
-/
set_option linter.unusedSimpArgs false
set_option linter.unusedVariables false
set_option linter.unnecessarySimpa false
namespace GqlVerif
namespace C01
namespace E2E
open Serde Spec C13 C03 Codegen

/-! ## serde: writing a struct with flattened members -/

/-- in a record assembled by rust name from `A`, every field finds what `A` holds for it -/
theorem find_filterMap_rust (A : List (String × Val)) : ∀ (fields : List RField), (fields.map (·.rust)).Nodup →
    ∀ f ∈ fields, (fields.filterMap (fun f => A.find? (·.1 == f.rust))).find? (·.1 == f.rust) =
      A.find? (·.1 == f.rust)
  | [], _, f, hf => by simp at hf
  | g :: gs, hnd, f, hf => by
    simp only [List.map_cons, List.nodup_cons] at hnd
    have ih := find_filterMap_rust A gs hnd.2
    rw [List.filterMap_cons]
    have hrest : ∀ n, n ∉ gs.map (·.rust) →
        (gs.filterMap (fun f => A.find? (·.1 == f.rust))).find? (·.1 == n) = none := by
      intro n hn
      rw [List.find?_eq_none]
      intro p hp
      obtain ⟨g', hg', hp'⟩ := List.mem_filterMap.mp hp
      have := List.find?_some hp'
      simp only [beq_iff_eq] at this
      intro heq
      simp only [beq_iff_eq] at heq
      exact hn (heq ▸ this ▸ List.mem_map_of_mem hg')
    rcases List.mem_cons.mp hf with rfl | hf'
    · cases hA : A.find? (·.1 == f.rust) with
      | none => simp only []; exact hrest _ hnd.1
      | some p =>
        have := List.find?_some hA
        simp only [List.find?_cons, this]
    · have hne : g.rust ≠ f.rust := fun heq => hnd.1 (heq ▸ List.mem_map_of_mem hf')
      cases hA : A.find? (·.1 == g.rust) with
      | none => simp only []; exact ih f hf'
      | some p =>
        have hp := List.find?_some hA
        simp only [beq_iff_eq] at hp
        have : (p.1 == f.rust) = false := by rw [hp]; simpa using hne
        simp only [List.find?_cons, this]
        exact ih f hf'

/-- what `flatVals` produced, found again by name -/
theorem flatVals_find (e : Env) (fuel : Nat) (kvs : List (String × Json)) : ∀ (fs : List RField) (fl : List (String × Val)),
    flatVals e fuel kvs fs = .ok fl → (fs.map (·.rust)).Nodup →
    (∀ n, n ∉ fs.map (·.rust) → fl.find? (·.1 == n) = none) ∧
    ∀ g ∈ fs, g.flatten = true → ∃ own, deOwnWith (dePath e true fuel) (memberFields e g) kvs = .ok own ∧
      fl.find? (·.1 == g.rust) = some (g.rust, .record own)
  | [], fl, h, _ => by
    simp only [flatVals, pure, Except.pure, Except.ok.injEq] at h
    subst h; simp
  | g :: gs, fl, h, hnd => by
    simp only [List.map_cons, List.nodup_cons] at hnd
    cases hg : g.flatten
    · simp only [flatVals, hg, Bool.not_false, ↓reduceIte] at h
      obtain ⟨ih1, ih2⟩ := flatVals_find e fuel kvs gs fl h hnd.2
      refine ⟨fun n hn => ih1 n (fun hm => hn (List.mem_cons_of_mem _ hm)), ?_⟩
      intro g' hg' hfl
      rcases List.mem_cons.mp hg' with rfl | hg''
      · rw [hg] at hfl; cases hfl
      · exact ih2 g' hg'' hfl
    · simp only [flatVals, hg, Bool.not_true, Bool.false_eq_true, ↓reduceIte] at h
      obtain ⟨own, hown, h⟩ := C02.bind_ok h
      obtain ⟨rest, hrest, h⟩ := C02.bind_ok h
      simp only [pure, Except.pure, Except.ok.injEq] at h
      subst h
      obtain ⟨ih1, ih2⟩ := flatVals_find e fuel kvs gs rest hrest hnd.2
      constructor
      · intro n hn
        simp only [List.map_cons, List.mem_cons, not_or] at hn
        have : (g.rust == n) = false := by simpa using fun h => hn.1 h.symm
        simp only [List.find?_cons, this]
        exact ih1 n hn.2
      · intro g' hg' hfl
        rcases List.mem_cons.mp hg' with rfl | hg''
        · exact ⟨own, hown, by simp⟩
        · obtain ⟨own', h1, h2⟩ := ih2 g' hg'' hfl
          have hne : g.rust ≠ g'.rust := fun heq => hnd.1 (heq ▸ List.mem_map_of_mem hg'')
          have : (g.rust == g'.rust) = false := by simpa using hne
          exact ⟨own', h1, by simp only [List.find?_cons, this]; exact h2⟩

/-- the entries one field contributes -/
def entriesF (fcanon : RField → Json → Json) (mcanon : RField → List (String × Json)) (kvs : List (String × Json))
    (f : RField) : List (String × Json) :=
  if f.flatten then mcanon f else expectOut fcanon [f] kvs

/-- **writing a struct with flattened members**: own entries and the members' entries, in declaration order -/
theorem ser_flat (pathD : String → Json → D Val) (pathS : String → Val → D Json)
    (fcanon : RField → Json → Json) (mcanon : RField → List (String × Json)) (kvs : List (String × Json))
    (vals : List (String × Val)) : ∀ (fs : List RField),
    (∀ f ∈ fs, f.flatten = false → ∃ x, vals.find? (·.1 == f.rust) = some (f.rust, x) ∧ readField pathD f kvs = .ok x) →
    (∀ f ∈ fs, f.flatten = false → ∀ j x, Json.lookup f.wire kvs = some j → deFieldWith pathD f j = .ok x →
      serTyWith pathS f.ty x = .ok (fcanon f j)) →
    (∀ f ∈ fs, f.flatten = false → f.skipNone = true → ∀ j x, Json.lookup f.wire kvs = some j →
      deFieldWith pathD f j = .ok x → x.isUnit = j.isNull) →
    (∀ f ∈ fs, f.flatten = false → f.default = true → isOption f.ty = true) →
    (∀ g ∈ fs, g.flatten = true → ∃ x, vals.find? (·.1 == g.rust) = some (g.rust, x) ∧
      serTyWith pathS g.ty x = .ok (.obj (mcanon g))) →
    serFieldsWith pathS fs vals = .ok (fs.flatMap (entriesF fcanon mcanon kvs))
  | [], _, _, _, _, _ => rfl
  | f :: fs, hread, hrt, hunit, hdef, hmem => by
    have ih := ser_flat pathD pathS fcanon mcanon kvs vals fs
      (fun g hg => hread g (by simp [hg])) (fun g hg => hrt g (by simp [hg]))
      (fun g hg => hunit g (by simp [hg])) (fun g hg => hdef g (by simp [hg])) (fun g hg => hmem g (by simp [hg]))
    rw [List.flatMap_cons]
    cases hf : f.flatten
    · have h1 := ser_of_read pathD pathS fcanon kvs vals [f] (by simp [plain, hf])
        (fun g hg => by simp only [List.mem_singleton] at hg; subst hg; exact hread g (by simp) hf)
        (fun g hg => by simp only [List.mem_singleton] at hg; subst hg; exact hrt g (by simp) hf)
        (fun g hg => by simp only [List.mem_singleton] at hg; subst hg; exact hunit g (by simp) hf)
        (fun g hg => by simp only [List.mem_singleton] at hg; subst hg; exact hdef g (by simp) hf)
      have := serFields_append pathS vals fs _ ih [f] _ (by simp [plain, hf]) h1
      simpa [entriesF, hf] using this
    · obtain ⟨x, hfind, hser⟩ := hmem f (by simp) hf
      simp only [serFieldsWith, ih, hfind, hf, ↓reduceIte, hser, entriesOf, bind, Except.bind, pure, Except.pure,
        entriesF]


theorem find_none_of_not_mem {L : List (String × Val)} {n : String} (h : n ∉ L.map (·.1)) :
    L.find? (·.1 == n) = none := by
  rw [List.find?_eq_none]
  intro p hp
  have : p.1 ≠ n := fun heq => h (heq ▸ List.mem_map_of_mem hp)
  simpa using this

theorem eq_of_nodup_rust : ∀ {fs : List RField}, (fs.map (·.rust)).Nodup → ∀ {f g : RField}, f ∈ fs → g ∈ fs →
    f.rust = g.rust → f = g
  | [], _, _, _, hf, _, _ => by simp at hf
  | a :: as, hnd, f, g, hf, hg, h => by
    simp only [List.map_cons, List.nodup_cons] at hnd
    rcases List.mem_cons.mp hf with rfl | hf' <;> rcases List.mem_cons.mp hg with rfl | hg'
    · rfl
    · exact absurd (h ▸ List.mem_map_of_mem hg') hnd.1
    · exact absurd (h ▸ List.mem_map_of_mem hf') hnd.1
    · exact eq_of_nodup_rust hnd.2 hf' hg' h

/-- **what a struct with (or without) flattened members reads, found again by name** -/
theorem deStruct_flat_finds (e : Env) (fuel : Nat) (pathD : String → Json → D Val) (fields : List RField)
    (kvs : List (String × Json)) (hcnt : ∀ k, countKey k kvs ≤ 1) (hrust : (fields.map (·.rust)).Nodup)
    (hok : ∀ g ∈ fields, g.flatten = true → MemberOk e g)
    (hown : ∀ g ∈ fields, g.flatten = true → ∀ k ∈ memberKeys e g,
      k ∉ (fields.filter (fun f => !f.flatten)).map (·.wire))
    (hpw : fields.Pairwise (fun g g' => g.flatten = true → g'.flatten = true →
      ∀ k ∈ memberKeys e g', k ∉ memberKeys e g))
    (v : Val) (hd : deStructMapWith pathD (deFlat e (fuel + 1)) fields kvs = .ok v) :
    ∃ vals, v = .record vals ∧
      (∀ f ∈ fields, f.flatten = false → ∃ x, vals.find? (·.1 == f.rust) = some (f.rust, x) ∧
        readField pathD f kvs = .ok x) ∧
      (∀ g ∈ fields, g.flatten = true → ∃ own, deOwnWith (dePath e true fuel) (memberFields e g) kvs = .ok own ∧
        vals.find? (·.1 == g.rust) = some (g.rust, .record own)) := by
  have hownpl : plain (fields.filter (fun f => !f.flatten)) = true := by
    simp only [plain, List.all_eq_true, List.mem_filter]
    intro f hf; exact hf.2
  have hsub : (fields.filter (fun f => !f.flatten)).Sublist fields := List.filter_sublist
  have hownnd : ((fields.filter (fun f => !f.flatten)).map (·.rust)).Nodup := (hsub.map _).nodup hrust
  cases hany : fields.any (·.flatten)
  · -- plain
    have hpl : plain fields = true := by
      simp only [plain, List.all_eq_true]
      intro f hf
      have := List.any_eq_false.mp hany f hf
      simpa using this
    rw [deStructMap_plain _ _ _ _ hpl, map_ok] at hd
    obtain ⟨own, hown', rfl⟩ := hd
    have hall := (deOwn_ok_iff pathD kvs hcnt fields own hpl).mp hown'
    refine ⟨own, rfl, fun f hf _ => find_of_all2 (R := fun f x => readField pathD f kvs = .ok x) hall hrust f hf, ?_⟩
    intro g hg hfl
    have := List.any_eq_false.mp hany g hg
    simp [hfl] at this
  · rw [deStructMap_flat e fuel pathD fields kvs hany hok hown hpw] at hd
    obtain ⟨own, hown', hd⟩ := C02.bind_ok hd
    obtain ⟨fl, hfl, hd⟩ := C02.bind_ok hd
    simp only [pure, Except.pure, Except.ok.injEq] at hd
    have hall := (deOwn_ok_iff pathD kvs hcnt _ own hownpl).mp hown'
    have hownnames : own.map (·.1) = (fields.filter (fun f => !f.flatten)).map (·.rust) :=
      All2.map_fst (fun _ _ hh => hh.1) hall
    obtain ⟨hfl1, hfl2⟩ := flatVals_find e fuel kvs fields fl hfl hrust
    refine ⟨_, hd.symm, ?_, ?_⟩
    · intro f hf hfl'
      rw [find_filterMap_rust _ fields hrust f hf]
      obtain ⟨x, hx, hR⟩ := find_of_all2 (R := fun f x => readField pathD f kvs = .ok x) hall hownnd f
        (List.mem_filter.mpr ⟨hf, by simp [hfl']⟩)
      exact ⟨x, by rw [List.find?_append, hx]; rfl, hR⟩
    · intro g hg hfl'
      rw [find_filterMap_rust _ fields hrust g hg]
      obtain ⟨owng, h1, h2⟩ := hfl2 g hg hfl'
      refine ⟨owng, h1, ?_⟩
      have hnone : own.find? (·.1 == g.rust) = none := by
        apply find_none_of_not_mem
        rw [hownnames]
        intro hm
        obtain ⟨f, hf, hfr⟩ := List.mem_map.mp hm
        have hf' := List.mem_filter.mp hf
        have : f = g := eq_of_nodup_rust hrust hf'.1 hg hfr
        subst this
        simp [hfl'] at hf'
      rw [List.find?_append, hnone]
      simpa using h2


/-! ## the allowed differences for `FragmentOp` -/

mutual
  def canonFieldF (s : Schema) (q : Query) (skip : Bool) : Sel → Json → Json
    | .field a fid sub, v =>
      match s.fields[fid]? with
      | none => v
      | some sf =>
        match sf.ty.id with
        | .object _ => canon (fun j =>
            match sub with
            | [.spread g] => canonSelV s skip (fragSels q g) j
            | _ => match j with
              | .obj kvs => .obj (canonEntriesF s q skip sub kvs)
              | j => j) (gtyOf sf.ty.quals) v
        | _ => canonFieldV s skip (.field a fid sub) v
    | _, v => v
  /-- own entries and, **at the position of each spread**, the entries of the fragment, in selection order -/
  def canonEntriesF (s : Schema) (q : Query) (skip : Bool) : List Sel → List (String × Json) → List (String × Json)
    | [], _ => []
    | .field a fid sub :: xs, kvs =>
      (match s.fields[fid]? with
       | none => []
       | some sf =>
         match Json.lookup (a.getD sf.name) kvs with
         | some v =>
           if skip && skipQ sf.ty.quals && v.isNull then []
           else [(a.getD sf.name, canonFieldF s q skip (.field a fid sub) v)]
         | none => if skip && skipQ sf.ty.quals then [] else [(a.getD sf.name, Json.null)]) ++
        canonEntriesF s q skip xs kvs
    | .spread g :: xs, kvs => canonEntriesV s skip (fragSels q g) kvs ++ canonEntriesF s q skip xs kvs
    | _ :: xs, kvs => canonEntriesF s q skip xs kvs
end

/-- **`canonSelF`**: as `canonSelV`; the entries of a spread fragment come at the position of the spread -/
def canonSelF (s : Schema) (q : Query) (skip : Bool) (sels : List Sel) (j : Json) : Json :=
  match sels with
  | [.spread g] => canonSelV s skip (fragSels q g) j
  | _ => match j with
    | .obj kvs => .obj (canonEntriesF s q skip sels kvs)
    | j => j

theorem canonLambdaF (s : Schema) (q : Query) (skip : Bool) (sub : List Sel) :
    (fun j =>
      match sub with
      | [.spread g] => canonSelV s skip (fragSels q g) j
      | _ => match j with
        | .obj kvs => .obj (canonEntriesF s q skip sub kvs)
        | j => j) = canonSelF s q skip sub := by
  funext j; unfold canonSelF; rfl

/-! ## Rust field names -/

def rustNameF (c : Ctx) : Sel → Option String
  | .spread g => some (keywordReplace (c.cs.snake (fragName c g)))
  | x => rustName c x

def rustNamesF (c : Ctx) (sels : List Sel) : List String := sels.filterMap (rustNameF c)

/-- the body of the fragment `g`: Rust field names pairwise distinct, at every level -/
def rustOkFrag (c : Ctx) (g : Nat) : Bool :=
  EnumSpec.nodup (rustNames c (fragSels c.q g)) && rustOkSelsV c (fragSels c.q g)

mutual
  def rustOkSelF (c : Ctx) : Sel → Bool
    | .field a fid sub =>
      (match (c.s.fields[fid]?).map (fun sf => sf.ty.id) with
       | some (TypeId.object _) =>
         (match sub with
          | [.spread g] => rustOkFrag c g
          | _ => EnumSpec.nodup (rustNamesF c sub) && rustOkSelsF c sub)
       | _ => rustOkSelV c (.field a fid sub))
    | .spread g => rustOkFrag c g
    | _ => true
  def rustOkSelsF (c : Ctx) : List Sel → Bool
    | [] => true
    | x :: xs => rustOkSelF c x && rustOkSelsF c xs
end

theorem rust_fieldsOfF (c : Ctx) (pfx : String) (p : TypeId) : ∀ (sels : List Sel), fSels c.s c.q c.o p sels = true →
    (fieldsOfF c pfx sels).map (·.rust) = rustNamesF c sels
  | [], _ => rfl
  | x :: xs, ht => by
    obtain ⟨hx, hxs⟩ := fSels_cons ht
    have ih := rust_fieldsOfF c pfx p xs hxs
    rw [fieldsOfF_cons, List.map_append, ih]
    cases x with
    | field a fid sub =>
      obtain ⟨sf, ft, hsf, _, hf, _⟩ := fieldOfSelV_f c pfx p a fid sub hx
      rw [fieldOfSelF_field, hf]
      simp [rustNamesF, List.filterMap_cons, rustNameF, rustName, hsf, fieldOf]
    | spread g =>
      have hok : fragOk c.s c.q c.o p g = true := by simpa [fSel] using hx
      obtain ⟨fr, hfr, _⟩ := fragOk_parts hok
      simp [fieldOfSelF, hfr, spreadField, rustNamesF, List.filterMap_cons, rustNameF, fragName]
    | inline t sub => simp [fSel] at hx
    | typename => simp [fieldOfSelF, fieldOfSelV, rustNamesF, List.filterMap_cons, rustNameF, rustName]

theorem rustOkSelsF_mem {c : Ctx} : ∀ {sels : List Sel}, rustOkSelsF c sels = true →
    ∀ x ∈ sels, rustOkSelF c x = true
  | [], _, _, hx => by simp at hx
  | y :: ys, h, x, hx => by
    rw [rustOkSelsF, Bool.and_eq_true] at h
    rcases List.mem_cons.mp hx with rfl | hx'
    · exact h.1
    · exact rustOkSelsF_mem h.2 x hx'

/-- the entries the struct writes are `canonEntriesF` -/
theorem flatMap_entriesF_canon (c : Ctx) (pfx : String) (p : TypeId) (fc : RField → Json → Json)
    (mc : RField → List (String × Json)) (kvs : List (String × Json)) : ∀ (sels : List Sel),
    fSels c.s c.q c.o p sels = true →
    (∀ a fid sub, Sel.field a fid sub ∈ sels → ∀ f, fieldOfSelV c pfx (.field a fid sub) = some f →
      ∀ v, fc f v = canonFieldF c.s c.q c.o.skipNone (.field a fid sub) v) →
    (∀ g fr, Sel.spread g ∈ sels → c.q.fragments[g]? = some fr →
      mc (spreadField c fr) = canonEntriesV c.s c.o.skipNone fr.sels kvs) →
    (fieldsOfF c pfx sels).flatMap (entriesF fc mc kvs) = canonEntriesF c.s c.q c.o.skipNone sels kvs
  | [], _, _, _ => by simp [fieldsOfF, canonEntriesF]
  | x :: xs, ht, hfc, hmc => by
    obtain ⟨hx, hxs⟩ := fSels_cons ht
    have ih := flatMap_entriesF_canon c pfx p fc mc kvs xs hxs
      (fun a fid sub hm => hfc a fid sub (List.mem_cons_of_mem _ hm))
      (fun g fr hm => hmc g fr (List.mem_cons_of_mem _ hm))
    rw [fieldsOfF_cons, List.flatMap_append, ih]
    cases x with
    | field a fid sub =>
      obtain ⟨sf, ft, hsf, _, hf, _⟩ := fieldOfSelV_f c pfx p a fid sub hx
      rw [fieldOfSelF_field, hf, canonEntriesF.eq_2]
      simp only [Option.toList, List.flatMap_cons, List.flatMap_nil, List.append_nil, entriesF, fieldOf,
        Bool.false_eq_true, ↓reduceIte]
      have := expectOut_cons fc (fieldOf c (a.getD sf.name) ft sf.ty.quals sf.deprecation) [] kvs
      simp only [fieldOf] at this
      rw [this]
      simp only [hsf, expectOut, List.filterMap_nil, List.append_nil]
      have hw := fieldOf_wire c (a.getD sf.name) ft sf.ty.quals sf.deprecation
      simp only [fieldOf] at hw
      simp only [hw, Bool.and_assoc]
      have hfc' := hfc a fid sub (by simp) _ hf
      simp only [fieldOf] at hfc'
      cases Json.lookup (a.getD sf.name) kvs with
      | none => rfl
      | some v => simp only [hfc' v]
    | spread g =>
      have hok : fragOk c.s c.q c.o p g = true := by simpa [fSel] using hx
      obtain ⟨fr, hfr, _⟩ := fragOk_parts hok
      have hsels : fragSels c.q g = fr.sels := by simp [fragSels, hfr]
      rw [canonEntriesF.eq_3, hsels]
      simp [fieldOfSelF, hfr, entriesF, spreadField, hmc g fr (by simp) hfr]
      rw [← hmc g fr (by simp) hfr]; rfl
    | inline t sub => simp [fSel] at hx
    | typename => simp [fieldOfSelF, fieldOfSelV, canonEntriesF]


/-! ## round trip of the struct of an object-level selection set with spreads -/

theorem depthsF_mem (q : Query) : ∀ {sels : List Sel} {x : Sel}, x ∈ sels → depthF q x ≤ depthsF q sels
  | [], _, h => by simp at h
  | y :: ys, x, h => by
    rw [depthsF]
    rcases List.mem_cons.mp h with rfl | h'
    · omega
    · have := depthsF_mem q h'; omega

theorem keysOksF_mem {s : Schema} {q : Query} : ∀ {sels : List Sel}, keysOksF s q sels = true →
    ∀ x ∈ sels, keysOkF s q x = true
  | [], _, _, hx => by simp at hx
  | y :: ys, h, x, hx => by
    rw [keysOksF, Bool.and_eq_true] at h
    rcases List.mem_cons.mp hx with rfl | hx'
    · exact h.1
    · exact keysOksF_mem h.2 x hx'

theorem find_fieldKey (s : Schema) (k : String) : ∀ (sels : List Sel), (fieldKeys s sels).Nodup →
    ∀ x ∈ sels, fieldKey s x = some k → sels.find? (fun y => fieldKey s y == some k) = some x
  | [], _, x, hx, _ => by simp at hx
  | y :: ys, hnd, x, hx, hk => by
    rw [List.find?_cons]
    rcases List.mem_cons.mp hx with rfl | hx'
    · simp [hk]
    · have hmem : k ∈ fieldKeys s ys := List.mem_filterMap.mpr ⟨x, hx', hk⟩
      cases hy : fieldKey s y with
      | none =>
        have : ((none : Option String) == some k) = false := rfl
        simp only [this]
        refine find_fieldKey s k ys ?_ x hx' hk
        simpa [fieldKeys, hy] using hnd
      | some k' =>
        have hnd' : k' ∉ fieldKeys s ys ∧ (fieldKeys s ys).Nodup := by
          simpa [fieldKeys, hy] using hnd
        have hne : k' ≠ k := fun h => hnd'.1 (h ▸ hmem)
        have : (some k' == some k) = false := by simpa using hne
        simp only [this]
        exact find_fieldKey s k ys hnd'.2 x hx' hk

theorem fieldKeys_sublist_expKeys (s : Schema) (q : Query) : ∀ (sels : List Sel),
    (fieldKeys s sels).Sublist (expKeys s q sels)
  | [] => by simp [fieldKeys, expKeys]
  | x :: xs => by
    have ih := fieldKeys_sublist_expKeys s q xs
    cases x with
    | field a fid sub =>
      simp only [fieldKeys, List.filterMap_cons, fieldKey, expKeys] at ih ⊢
      cases hsf : s.fields[fid]? with
      | none => simpa using ih
      | some sf => simp only [Option.map_some, List.singleton_append]; exact List.Sublist.cons_cons _ ih
    | spread g =>
      simp only [fieldKeys, List.filterMap_cons, fieldKey, expKeys] at ih ⊢
      exact List.Sublist.trans ih (List.sublist_append_right _ _)
    | inline t sub => simpa [fieldKeys, List.filterMap_cons, fieldKey, expKeys] using ih
    | typename => simpa [fieldKeys, List.filterMap_cons, fieldKey, expKeys] using ih

/-- the canonical form of the value of the own field whose wire name is `f.wire` -/
def fcanonOfF (s : Schema) (q : Query) (skip : Bool) (sels : List Sel) (f : RField) (v : Json) : Json :=
  match sels.find? (fun x => fieldKey s x == some f.wire) with
  | some x => canonFieldF s q skip x v
  | none => v

theorem mem_fieldsOfV_f {c : Ctx} {pfx : String} {p : TypeId} {sels : List Sel} {f : RField}
    (hf : f ∈ fieldsOfV c pfx sels) (ht : fSels c.s c.q c.o p sels = true) :
    ∃ a fid sub sf ft, Sel.field a fid sub ∈ sels ∧ c.s.fields[fid]? = some sf ∧
      fieldOfSelV c pfx (.field a fid sub) = some f ∧
      f = fieldOf c (a.getD sf.name) ft sf.ty.quals sf.deprecation ∧ wfQuals sf.ty.quals = true := by
  obtain ⟨x, hx, hfx⟩ := List.mem_filterMap.mp hf
  cases x with
  | field a fid sub =>
    obtain ⟨sf, ft, hsf, _, hf', hw⟩ := fieldOfSelV_f c pfx p a fid sub (fSels_mem ht _ hx)
    rw [hf'] at hfx
    exact ⟨a, fid, sub, sf, ft, hx, hsf, by rw [hf', hfx], (Option.some.inj hfx).symm, hw⟩
  | spread g => cases hfx
  | inline t sub => cases hfx
  | typename => cases hfx

theorem mem_fieldsOfF_flatten {c : Ctx} {pfx : String} {p : TypeId} : ∀ {sels : List Sel} {g : RField},
    g ∈ fieldsOfF c pfx sels → fSels c.s c.q c.o p sels = true → g.flatten = true →
    ∃ gid fr, Sel.spread gid ∈ sels ∧ c.q.fragments[gid]? = some fr ∧ g = spreadField c fr
  | [], g, hg, _, _ => by simp [fieldsOfF] at hg
  | x :: xs, g, hg, ht, hfl => by
    obtain ⟨hx, hxs⟩ := fSels_cons ht
    rw [fieldsOfF_cons, List.mem_append] at hg
    rcases hg with hg | hg
    · cases x with
      | field a fid sub =>
        obtain ⟨sf, ft, _, _, hf, _⟩ := fieldOfSelV_f c pfx p a fid sub hx
        rw [fieldOfSelF_field, hf] at hg
        simp only [Option.toList, List.mem_singleton] at hg
        subst hg; simp [fieldOf] at hfl
      | spread gid =>
        have hok : fragOk c.s c.q c.o p gid = true := by simpa [fSel] using hx
        obtain ⟨fr, hfr, _⟩ := fragOk_parts hok
        simp only [fieldOfSelF, hfr, Option.map_some, Option.toList, List.mem_singleton] at hg
        exact ⟨gid, fr, by simp, hfr, hg⟩
      | inline t sub => simp [fSel] at hx
      | typename => simp [fieldOfSelF, fieldOfSelV] at hg
    · obtain ⟨gid, fr, h1, h2, h3⟩ := mem_fieldsOfF_flatten hg hxs hfl
      exact ⟨gid, fr, List.mem_cons_of_mem _ h1, h2, h3⟩

theorem expandSels_mem (q : Query) : ∀ {sels : List Sel} {x : Sel}, x ∈ sels → expandSel q x ∈ expandSels q sels
  | [], _, h => by simp at h
  | y :: ys, x, h => by
    rw [expandSels]
    rcases List.mem_cons.mp h with rfl | h'
    · simp
    · exact List.mem_cons_of_mem _ (expandSels_mem q h')

section RTF
variable (e : Env) (c : Ctx)

def RTSelF (pfx : String) (x : Sel) : Prop :=
  ∀ p, fSel c.s c.q c.o p x = true → envSelF e c pfx x → keysOkF c.s c.q x = true → rustOkSelF c x = true →
    ∀ f, fieldOfSelV c pfx x = some f → ∀ b fd fs, 2 * depthF c.q x + 1 ≤ fd → 2 * depthF c.q x ≤ fs →
      ∀ v y, strictFieldV c.s (expandSel c.q x) v = true → deFieldWith (dePath e b fd) f v = .ok y →
        serTyWith (serPath e fs) f.ty y = .ok (canonFieldF c.s c.q c.o.skipNone x v)

/-- round trip of one flattened member (the struct of a spread fragment), read from the whole object -/
theorem rtMemberF (i : Nat) (gid : Nat) (fr : RFragment) (hfr : c.q.fragments[gid]? = some fr)
    (hok : fragOk c.s c.q c.o (.object i) gid = true) (henv : FragEnv e c gid) (hro : rustOkFrag c gid = true)
    (fuel fs : Nat) (hfuel : 2 * selsDepth fr.sels + 1 ≤ fuel) (hfs : 2 * selsDepth fr.sels ≤ fs)
    (kvs : List (String × Json)) (hnd : (kvs.map (·.1)).Nodup) (hconf : confSelsV c.s i fr.sels kvs = true)
    (own : List (String × Val))
    (hown : deOwnWith (dePath e true fuel) (fieldsOfV c (c.cs.camel fr.name) fr.sels) kvs = .ok own) :
    serPath e (fs + 1) fr.name (.record own) = .ok (.obj (canonEntriesV c.s c.o.skipNone fr.sels kvs)) := by
  obtain ⟨fr', hfr', _, _, hv, hkeys⟩ := fragOk_parts hok
  rw [hfr] at hfr'; cases hfr'
  unfold FragEnv at henv
  rw [hfr] at henv
  have hsels : fragSels c.q gid = fr.sels := by simp [fragSels, hfr]
  simp only [rustOkFrag, hsels, Bool.and_eq_true] at hro
  obtain ⟨hp, _, n, d, cr, hfind⟩ := henv.1
  have hd : dePath e true (fuel + 1) fr.name (.obj kvs) = .ok (.record own) := by
    rw [dePath_struct e true fuel fr.name n d cr _ hp hfind, deStruct_obj,
      deStructMap_plain _ _ _ _ (plain_fieldsOfV c _ fr.sels), hown]; rfl
  exact rtStructV e c _ _ fr.sels (fun x hx => (rtSelsV e c fr.sels _ x hx).1) false hv henv.2 hro.2 hro.1 hkeys henv.1
    true (fuel + 1) (fs + 1) (by omega) (by omega) kvs ⟨hnd, strictAt_of_conf hconf⟩ _ hd

/-- **round trip of the struct of an object-level selection set with spreads** -/
theorem rtStructF (pfx name : String) (i : Nat) (sels : List Sel) (H : ∀ x ∈ sels, RTSelF e c pfx x)
    (ht : fSels c.s c.q c.o (.object i) sels = true) (henv : envSelsF e c pfx sels)
    (hko : keysOksF c.s c.q sels = true) (hkeys : EnumSpec.nodup (expKeys c.s c.q sels) = true)
    (hro : rustOkSelsF c sels = true) (hrn : EnumSpec.nodup (rustNamesF c sels) = true)
    (hs : StructEnv e name (fieldsOfF c pfx sels)) (b : Bool) (fd fs : Nat)
    (hfd : 2 * depthsF c.q sels + 2 ≤ fd) (hfs : 2 * depthsF c.q sels + 2 ≤ fs) (kvs : List (String × Json))
    (hnd : (kvs.map (·.1)).Nodup) (hconf : confSelsV c.s i (expandSels c.q sels) kvs = true)
    (v : Val) (hd : dePath e b fd name (.obj kvs) = .ok v) :
    serPath e fs name v = .ok (.obj (canonEntriesF c.s c.q c.o.skipNone sels kvs)) := by
  obtain ⟨hp, _, n, d, cr, hfind⟩ := hs
  obtain ⟨fuel, rfl⟩ : ∃ k, fd = k + 2 := ⟨fd - 2, by omega⟩
  obtain ⟨fs', rfl⟩ : ∃ k, fs = k + 2 := ⟨fs - 2, by omega⟩
  have hcnt := countKey_le_one_of_nodup hnd
  obtain ⟨h1, _, h3, h4⟩ := flat_hyps e c pfx (.object i) sels ht henv (nodup_iff'.mp hkeys)
  have hrust : ((fieldsOfF c pfx sels).map (·.rust)).Nodup := by
    rw [rust_fieldsOfF c pfx _ sels ht]; exact nodup_iff'.mp hrn
  rw [dePath_struct e b (fuel + 1) name n d cr _ hp hfind, deStruct_obj] at hd
  obtain ⟨vals, rfl, hownf, hmemf⟩ := deStruct_flat_finds e fuel _ _ kvs hcnt hrust (fun g hg hf => (h1 g hg hf).1) h3 h4 v hd
  have hfk : (fieldKeys c.s sels).Nodup := (fieldKeys_sublist_expKeys c.s c.q sels).nodup (nodup_iff'.mp hkeys)
  -- the members
  have hmemrt : ∀ gid fr, Sel.spread gid ∈ sels → c.q.fragments[gid]? = some fr →
      ∃ x, vals.find? (·.1 == (spreadField c fr).rust) = some ((spreadField c fr).rust, x) ∧
        serTyWith (serPath e (fs' + 1)) (spreadField c fr).ty x =
          .ok (.obj (canonEntriesV c.s c.o.skipNone fr.sels kvs)) := by
    intro gid fr hm hfr
    have hx := fSels_mem ht _ hm
    have hokg : fragOk c.s c.q c.o (.object i) gid = true := by simpa [fSel] using hx
    obtain ⟨fr', hfr', hon, _, hv, _⟩ := fragOk_parts hokg
    rw [hfr] at hfr'; cases hfr'
    have henvg : FragEnv e c gid := by have := envSelsF_mem henv _ hm; simpa [envSelF] using this
    have hrog : rustOkFrag c gid = true := by have := rustOkSelsF_mem hro _ hm; simpa [rustOkSelF] using this
    have hgmem : spreadField c fr ∈ fieldsOfF c pfx sels :=
      List.mem_filterMap.mpr ⟨_, hm, by simp [fieldOfSelF, hfr]⟩
    obtain ⟨own, hown, hfindg⟩ := hmemf _ hgmem rfl
    rw [(memberFields_spread e c gid fr hfr henvg).1] at hown
    refine ⟨_, hfindg, ?_⟩
    have hdep := depthsF_mem c.q hm
    rw [depthF] at hdep
    have hsels : fragSels c.q gid = fr.sels := by simp [fragSels, hfr]
    rw [hsels] at hdep
    have hconfg : confSelsV c.s i fr.sels kvs = true := by
      have := confSelsV_mem hconf _ (expandSels_mem c.q hm)
      simpa [expandSel, hfr, confSelV, hon, fragApplies] using this
    exact rtMemberF e c i gid fr hfr hokg henvg hrog fuel fs' (by omega) (by omega) kvs hnd hconfg own hown
  -- the entries a member writes, as a function of the member
  let mc : RField → List (String × Json) := fun g =>
    match vals.find? (·.1 == g.rust) with
    | some (_, x) => (match serTyWith (serPath e (fs' + 1)) g.ty x with | .ok (.obj o) => o | _ => [])
    | none => []
  have hmc : ∀ gid fr, Sel.spread gid ∈ sels → c.q.fragments[gid]? = some fr →
      mc (spreadField c fr) = canonEntriesV c.s c.o.skipNone fr.sels kvs := by
    intro gid fr hm hfr
    obtain ⟨x, hf, hser⟩ := hmemrt gid fr hm hfr
    simp only [mc, hf, hser]
  rw [serPath_struct e (fs' + 1) name n d cr _ hfind,
    ser_flat (dePath e b (fuel + 1)) (serPath e (fs' + 1)) (fcanonOfF c.s c.q c.o.skipNone sels) mc kvs vals
      (fieldsOfF c pfx sels) hownf ?_ ?_ ?_ ?_]
  · rw [flatMap_entriesF_canon c pfx (.object i) _ mc kvs sels ht ?_ hmc]
    · rfl
    · intro a fid sub hx f hfx v
      obtain ⟨sf, ft, hsf, _, hf', _⟩ := fieldOfSelV_f c pfx _ a fid sub (fSels_mem ht _ hx)
      rw [hf'] at hfx
      cases hfx
      unfold fcanonOfF
      rw [fieldOf_wire, find_fieldKey c.s _ sels hfk _ hx (by simp [fieldKey, hsf])]
  · intro f hf hfl j x hl hdx
    have hfV : f ∈ fieldsOfV c pfx sels := by
      rw [← own_fieldsOfF c pfx _ sels ht]; exact List.mem_filter.mpr ⟨hf, by simp [hfl]⟩
    obtain ⟨a, fid, sub, sf, ft, hx, hsf, hfx, rfl, _⟩ := mem_fieldsOfV_f hfV ht
    rw [fieldOf_wire] at hl
    have hst : strictFieldV c.s (expandSel c.q (.field a fid sub)) j = true := by
      have := confSelsV_mem hconf _ (expandSels_mem c.q hx)
      rw [expandSel, confSelV_field] at this
      rw [expandSel]
      simpa [hsf, hl] using this
    have hfc : fcanonOfF c.s c.q c.o.skipNone sels (fieldOf c (a.getD sf.name) ft sf.ty.quals sf.deprecation) j =
        canonFieldF c.s c.q c.o.skipNone (.field a fid sub) j := by
      unfold fcanonOfF
      rw [fieldOf_wire, find_fieldKey c.s _ sels hfk _ hx (by simp [fieldKey, hsf])]
    rw [hfc]
    have hdep := depthsF_mem c.q hx
    exact H _ hx _ (fSels_mem ht _ hx) (envSelsF_mem henv _ hx) (keysOksF_mem hko _ hx) (rustOkSelsF_mem hro _ hx) _ hfx
      b (fuel + 1) (fs' + 1) (by omega) (by omega) j x hst hdx
  · intro f hf hfl hskip j x _ hdx
    have hfV : f ∈ fieldsOfV c pfx sels := by
      rw [← own_fieldsOfF c pfx _ sels ht]; exact List.mem_filter.mpr ⟨hf, by simp [hfl]⟩
    obtain ⟨a, fid, sub, sf, ft, _, _, _, rfl, _⟩ := mem_fieldsOfV_f hfV ht
    refine field_unit_iff _ _ (.inr ?_) j x hdx
    rw [fieldOf_skipNone, Bool.and_eq_true] at hskip
    exact (isOption_rustOf ft sf.ty.quals).trans (skipQ_nullable hskip.2)
  · intro f hf hfl hdef
    have hfV : f ∈ fieldsOfV c pfx sels := by
      rw [← own_fieldsOfF c pfx _ sels ht]; exact List.mem_filter.mpr ⟨hf, by simp [hfl]⟩
    obtain ⟨a, fid, sub, sf, ft, _, _, _, rfl, _⟩ := mem_fieldsOfV_f hfV ht
    have : (decide (ft = "ID") && nullableQ sf.ty.quals) = true := hdef
    rw [Bool.and_eq_true] at this
    exact (isOption_rustOf ft sf.ty.quals).trans this.2
  · intro g hg hfl
    obtain ⟨gid, fr, hm, hfr, rfl⟩ := mem_fieldsOfF_flatten hg ht hfl
    obtain ⟨x, hf, hser⟩ := hmemrt gid fr hm hfr
    exact ⟨x, hf, by rw [hser, hmc gid fr hm hfr]⟩

theorem serPath_alias (name target n : String) (pub : Bool) (hfind : e.find name = some (.alias n pub (.path target)))
    (fs : Nat) (v : Val) : serPath e (fs + 2) name v = serPath e (fs + 1) target v := by
  rw [serPath, serPath]
  cases hp : serPrim v with
  | some j => rfl
  | none => simp only [hfind, serTyWith]; rw [serPath]; simp only [hp]

/-- a conforming response object of a lone spread is one of the fragment's body -/
theorem conformsV_lone (i : Nat) (g : Nat) (fr : RFragment) (hfr : c.q.fragments[g]? = some fr)
    (hon : fr.on = .object i) (j : Json) (hc : conformsV c.s i (expandSels c.q [Sel.spread g]) j = true) :
    conformsV c.s i fr.sels j = true := by
  cases j with
  | obj kvs =>
    simp only [expandSels, expandSel, hfr, conformsV, keysSelsV, keysSelV, hon, fragApplies, beq_self_eq_true,
      ↓reduceIte, List.append_nil, confSelsV, confSelV, Bool.not_true, Bool.false_or, Bool.and_true] at hc ⊢
    exact hc
  | null => simp [conformsV] at hc
  | bool _ => simp [conformsV] at hc
  | int _ => simp [conformsV] at hc
  | num _ => simp [conformsV] at hc
  | str _ => simp [conformsV] at hc
  | arr _ => simp [conformsV] at hc

/-- round trip through the type alias of a lone spread -/
theorem rtAliasF (name : String) (i : Nat) (g : Nat) (hok : fragOk c.s c.q c.o (.object i) g = true)
    (ha : AliasEnv e name (fragName c g)) (hf : FragEnv e c g) (hro : rustOkFrag c g = true) (b : Bool) (fd fs : Nat)
    (hfd : 2 * selsDepth (fragSels c.q g) + 3 ≤ fd) (hfs : 2 * selsDepth (fragSels c.q g) + 3 ≤ fs) (j : Json) (v : Val)
    (hc : conformsV c.s i (expandSels c.q [Sel.spread g]) j = true) (hd : dePath e b fd name j = .ok v) :
    serPath e fs name v = .ok (canonSelV c.s c.o.skipNone (fragSels c.q g) j) := by
  obtain ⟨fr, hfr, hon, _, hv, hkeys⟩ := fragOk_parts hok
  obtain ⟨hp, _, n, pub, hfind⟩ := ha
  unfold FragEnv at hf
  rw [hfr] at hf
  have hsels : fragSels c.q g = fr.sels := by simp [fragSels, hfr]
  have hname : fragName c g = fr.name := by simp [fragName, hfr]
  simp only [rustOkFrag, hsels, Bool.and_eq_true] at hro
  rw [hsels] at hfd hfs ⊢
  rw [hname] at hfind
  obtain ⟨fd', rfl⟩ : ∃ k, fd = k + 1 := ⟨fd - 1, by omega⟩
  obtain ⟨fs', rfl⟩ : ∃ k, fs = k + 2 := ⟨fs - 2, by omega⟩
  have hd' : dePath e b fd' fr.name j = .ok v := by
    rw [dePath] at hd; simpa only [dePrim_none hp, hfind, deTyWith] using hd
  rw [serPath_alias e name fr.name n pub hfind]
  exact structV_lossless e c _ _ fr.sels hv hf.2 hro.2 hro.1 hkeys hf.1 b fd' (fs' + 1) (by omega) (by omega) i j v
    (conformsV_lone c i g fr hfr hon j hc) hd'

end RTF


theorem canonSelF_not_lone {s : Schema} {q : Query} {skip : Bool} {sels : List Sel}
    (h : ∀ g, sels ≠ [Sel.spread g]) (j : Json) :
    canonSelF s q skip sels j = (match j with | .obj kvs => .obj (canonEntriesF s q skip sels kvs) | j => j) := by
  unfold canonSelF
  split
  · exact absurd rfl (h _)
  · rfl

section RTF2
variable (e : Env) (c : Ctx)

/-- round trip of the type emitted for an object-level selection set, from the round trips of its fields -/
theorem rtBodyF (pfx name : String) (i : Nat) (sels : List Sel) (H : ∀ x ∈ sels, RTSelF e c pfx x)
    (ht : fBody c.s c.q c.o (.object i) sels = true) (henv : BodyEnv e c name pfx sels)
    (hko : keysOksF c.s c.q sels = true) (hkeys : EnumSpec.nodup (expKeys c.s c.q sels) = true)
    (hro : rustOkSelsF c sels = true) (hrn : EnumSpec.nodup (rustNamesF c sels) = true) (b : Bool) (fd fs : Nat)
    (hfd : 2 * depthsF c.q sels + 2 ≤ fd) (hfs : 2 * depthsF c.q sels + 2 ≤ fs) (j : Json) (v : Val)
    (hc : conformsV c.s i (expandSels c.q sels) j = true) (hd : dePath e b fd name j = .ok v) :
    serPath e fs name v = .ok (canonSelF c.s c.q c.o.skipNone sels j) := by
  unfold BodyEnv at henv
  by_cases hsp : ∃ g, sels = [Sel.spread g]
  · obtain ⟨g, rfl⟩ := hsp
    simp only at henv
    have hdep : depthsF c.q [Sel.spread g] = selsDepth (fragSels c.q g) + 1 := by simp [depthsF, depthF]
    rw [hdep] at hfd hfs
    have hrog : rustOkFrag c g = true := by simpa [rustOkSelsF, rustOkSelF] using hro
    exact rtAliasF e c name i g ht henv.1 henv.2 hrog b fd fs (by omega) (by omega) j v hc hd
  · have hnl : ∀ g, sels ≠ [Sel.spread g] := fun g hg => hsp ⟨g, hg⟩
    have henv' : StructEnv e name (fieldsOfF c pfx sels) ∧ envSelsF e c pfx sels := by
      revert henv
      split
      · exact fun _ => absurd rfl (hnl _)
      · exact id
    rw [fBody_not_lone hnl] at ht
    rw [canonSelF_not_lone hnl]
    cases j with
    | obj kvs =>
      simp only [conformsV, Bool.and_eq_true] at hc
      exact rtStructF e c pfx name i sels H ht henv'.2 hko hkeys hro hrn henv'.1 b fd fs hfd hfs kvs
        (nodup_iff'.mp hc.1.1) hc.2 v hd
    | null => simp [conformsV] at hc
    | bool _ => simp [conformsV] at hc
    | int _ => simp [conformsV] at hc
    | num _ => simp [conformsV] at hc
    | str _ => simp [conformsV] at hc
    | arr _ => simp [conformsV] at hc

mutual
  theorem rtSelF : ∀ (x : Sel) (pfx : String), RTSelF e c pfx x
    | .field a fid sub, pfx => by
      intro p ht henv hko hro f hf b fd fs hfd hfs v y hst hd
      have IH := rtSelsF sub
      obtain ⟨sf, ft, hsf, _, hf', hw⟩ := fieldOfSelV_f c pfx p a fid sub ht
      by_cases hobj : ∃ i, sf.ty.id = .object i
      · obtain ⟨i, hid⟩ := hobj
        rw [depthF] at hfd hfs
        have hwf : wf (gtyOf sf.ty.quals) = true := by rw [wf_gtyOf]; exact hw
        rw [fSel] at ht
        rw [envSelF] at henv
        rw [keysOkF, Bool.and_eq_true] at hko
        simp only [expandSel, strictFieldV] at hst
        rw [canonFieldF]
        simp only [hsf, hid, Bool.and_eq_true, Option.map_some] at ht henv hst ⊢
        simp only [fieldOfSelV, hsf, leafNameV, hid, Option.some.injEq] at hf
        subst hf
        rw [canonLambdaF]
        have hbody : fBody c.s c.q c.o (.object i) sub = true := ht.2.2
        have henvB : BodyEnv e c (pfx ++ c.cs.camel (a.getD sf.name)) (pfx ++ c.cs.camel (a.getD sf.name)) sub := henv
        have hID : pfx ++ c.cs.camel (a.getD sf.name) ≠ "ID" := by
          unfold BodyEnv at henvB
          split at henvB
          · exact henvB.1.2.1
          · exact henvB.1.2.1
        have hroB : rustOkSelsF c sub = true ∧ EnumSpec.nodup (rustNamesF c sub) = true := by
          by_cases hsp : ∃ g, sub = [Sel.spread g]
          · obtain ⟨g, rfl⟩ := hsp
            have hro' : rustOkFrag c g = true := by
              unfold rustOkSelF at hro; simpa only [hsf, hid, Option.map_some] using hro
            exact ⟨by simpa [rustOkSelsF, rustOkSelF] using hro', by simp [rustNamesF, rustNameF, EnumSpec.nodup]⟩
          · have hnl : ∀ g, sub ≠ [Sel.spread g] := fun g hg => hsp ⟨g, hg⟩
            unfold rustOkSelF at hro
            simp only [hsf, hid, Option.map_some] at hro
            have : (EnumSpec.nodup (rustNamesF c sub) && rustOkSelsF c sub) = true := hro
            rw [Bool.and_eq_true] at this
            exact ⟨this.2, this.1⟩
        rw [deField_plain _ _ _ _ hID] at hd
        refine (leaf_roundtrip_on (dePath e b fd) (serPath e fs) _
          (conformsAt c.s (.object i) (expandSels c.q sub)) (canonSelF c.s c.q c.o.skipNone sub) ?_ _ hwf).2 v y hst hd
        intro j w hc hdw
        simp only [conformsAt, List.any_eq_true, List.mem_range, Bool.and_eq_true, fragApplies, beq_iff_eq] at hc
        obtain ⟨rt, _, hrt, hcv⟩ := hc
        subst hrt
        exact rtBodyF e c _ _ i sub (IH _) hbody henvB hko.2 hko.1 hroB.1 hroB.2 b fd fs (by omega) (by omega) j w hcv hdw
      · have hno : ∀ i, sf.ty.id ≠ .object i := fun i h => hobj ⟨i, h⟩
        have hv := vSel_of_fSel_nonobj ht hsf hno
        have henv' : envSelV e c pfx (.field a fid sub) := by
          rw [envSelF] at henv
          simp only [hsf] at henv
          cases hid : sf.ty.id with
          | object i => exact absurd hid (hno i)
          | scalar k => simpa [hid] using henv
          | «enum» k => simpa [hid] using henv
          | interface k => simpa [hid] using henv
          | union k => simpa [hid] using henv
          | input k => simpa [hid] using henv
        have hro' : rustOkSelV c (.field a fid sub) = true := by
          unfold rustOkSelF at hro
          simp only [hsf, Option.map_some] at hro
          cases hid : sf.ty.id with
          | object i => exact absurd hid (hno i)
          | scalar k => simpa [hid] using hro
          | «enum» k => simpa [hid] using hro
          | interface k => simpa [hid] using hro
          | union k => simpa [hid] using hro
          | input k => simpa [hid] using hro
        have hl : canonFieldF c.s c.q c.o.skipNone (.field a fid sub) v = canonFieldV c.s c.o.skipNone (.field a fid sub) v := by
          rw [canonFieldF]
          simp only [hsf]
        rw [hl]
        have hns := noSpread_of_vSel c.s c.o _ false hv
        rw [depthF_noSpread c.q _ hns] at hfd hfs
        rw [expandSel_noSpread c.q _ hns] at hst
        exact (rtSelV e c _ pfx).1 false hv henv' hro' f hf b fd fs hfd hfs v y hst hd
    | .spread g, pfx => by intro _ _ _ _ _ f hf; cases hf
    | .inline t sub, pfx => by intro _ _ _ _ _ f hf; cases hf
    | .typename, pfx => by intro _ _ _ _ _ f hf; cases hf
  theorem rtSelsF : ∀ (sels : List Sel) (pfx : String), ∀ x ∈ sels, RTSelF e c pfx x
    | [], _, x, hx => by simp at hx
    | y :: ys, pfx, x, hx => by
      rcases List.mem_cons.mp hx with h | hx'
      · rw [h]; exact rtSelF y pfx
      · exact rtSelsF ys pfx x hx'
end

/-- **round trip of the type emitted for an object-level selection set of `FragmentOp`** -/
theorem bodyF_lossless (pfx name : String) (i : Nat) (sels : List Sel)
    (ht : fBody c.s c.q c.o (.object i) sels = true) (henv : BodyEnv e c name pfx sels)
    (hko : keysOksF c.s c.q sels = true) (hkeys : EnumSpec.nodup (expKeys c.s c.q sels) = true)
    (hro : rustOkSelsF c sels = true) (hrn : EnumSpec.nodup (rustNamesF c sels) = true) (b : Bool) (fd fs : Nat)
    (hfd : 2 * depthsF c.q sels + 2 ≤ fd) (hfs : 2 * depthsF c.q sels + 2 ≤ fs) (j : Json) (v : Val)
    (hc : conformsV c.s i (expandSels c.q sels) j = true) (hd : dePath e b fd name j = .ok v) :
    serPath e fs name v = .ok (canonSelF c.s c.q c.o.skipNone sels j) :=
  rtBodyF e c pfx name i sels (rtSelsF e c sels pfx) ht henv hko hkeys hro hrn b fd fs hfd hfs j v hc hd

end RTF2


/-! ## `serde_json::to_value` normalisation leaves the canonical form alone -/

theorem canonEntriesF_keys (s : Schema) (q : Query) (skip : Bool) (kvs : List (String × Json)) :
    ∀ sels : List Sel, ((canonEntriesF s q skip sels kvs).map (·.1)).Sublist (expKeys s q sels)
  | [] => by simp [canonEntriesF, expKeys]
  | x :: xs => by
    have ih := canonEntriesF_keys s q skip kvs xs
    cases x with
    | field a fid sub =>
      rw [canonEntriesF.eq_2]
      simp only [expKeys]
      cases hsf : s.fields[fid]? with
      | none => simpa using ih
      | some sf =>
        simp only [List.map_append]
        refine List.Sublist.append ?_ ih
        cases Json.lookup (a.getD sf.name) kvs with
        | none => simp only []; split <;> simp
        | some v => simp only []; split <;> simp
    | spread g =>
      rw [canonEntriesF.eq_3]
      simp only [expKeys, List.map_append]
      exact (canonEntriesV_keys s skip kvs (fragSels q g)).append ih
    | inline t sub => simpa [canonEntriesF, expKeys] using ih
    | typename => simpa [canonEntriesF, expKeys] using ih

section NormF
variable (s : Schema) (q : Query) (o : Options) (skip : Bool)

mutual
  theorem normFieldF : ∀ (x : Sel) (p : TypeId) (v : Json), fSel s q o p x = true → keysOkF s q x = true →
      strictFieldV s (expandSel q x) v = true → normJson (canonFieldF s q skip x v) = canonFieldF s q skip x v
    | .field a fid sub, p, v => by
      intro ht hko hst
      have IH := normEntriesF sub
      cases hsf : s.fields[fid]? with
      | none => rw [fSel] at ht; simp [hsf] at ht
      | some sf =>
        by_cases hobj : ∃ i, sf.ty.id = .object i
        · obtain ⟨i, hid⟩ := hobj
          rw [fSel] at ht
          rw [keysOkF, Bool.and_eq_true] at hko
          simp only [expandSel, strictFieldV] at hst
          rw [canonFieldF]
          simp only [hsf, hid, Bool.and_eq_true] at ht hst ⊢
          rw [canonLambdaF]
          refine (norm_canon (conformsAt s (.object i) (expandSels q sub)) (canonSelF s q skip sub) ?_ _).2 v hst
          intro j hj
          simp only [conformsAt, List.any_eq_true, List.mem_range, Bool.and_eq_true, fragApplies, beq_iff_eq] at hj
          obtain ⟨rt, _, hrt, hcv⟩ := hj
          subst hrt
          have hbody : fBody s q o (.object i) sub = true := ht.2.2
          by_cases hsp : ∃ g, sub = [Sel.spread g]
          · obtain ⟨g, rfl⟩ := hsp
            have hok : fragOk s q o (.object i) g = true := hbody
            obtain ⟨fr, hfr, hon, _, hv, hkeys⟩ := fragOk_parts hok
            have hsels : fragSels q g = fr.sels := by simp [fragSels, hfr]
            simp only [canonSelF, hsels]
            have hc' : conformsV s i fr.sels j = true := by
              cases j with
              | obj kvs =>
                simp only [expandSels, expandSel, hfr, conformsV, keysSelsV, keysSelV, hon, fragApplies, beq_self_eq_true,
                  ↓reduceIte, List.append_nil, confSelsV, confSelV, Bool.not_true, Bool.false_or, Bool.and_true] at hcv ⊢
                exact hcv
              | null => simp [conformsV] at hcv
              | bool _ => simp [conformsV] at hcv
              | int _ => simp [conformsV] at hcv
              | num _ => simp [conformsV] at hcv
              | str _ => simp [conformsV] at hcv
              | arr _ => simp [conformsV] at hcv
            exact norm_canonSelV s o skip i fr.sels j hv hkeys hc'
          · have hnl : ∀ g, sub ≠ [Sel.spread g] := fun g hg => hsp ⟨g, hg⟩
            rw [fBody_not_lone hnl] at hbody
            rw [canonSelF_not_lone hnl]
            cases j with
            | obj kvs =>
              simp only [conformsV, Bool.and_eq_true] at hcv
              exact normJson_obj_fixed _ ((canonEntriesF_keys s q skip kvs sub).nodup (nodup_iff'.mp hko.1))
                (IH i kvs hbody hko.2 hcv.2)
            | null => rfl
            | bool _ => rfl
            | int _ => rfl
            | num _ => rfl
            | str _ => rfl
            | arr _ => simp [conformsV] at hcv
        · have hno : ∀ i, sf.ty.id ≠ .object i := fun i h => hobj ⟨i, h⟩
          have hv := vSel_of_fSel_nonobj ht hsf hno
          have hl : canonFieldF s q skip (.field a fid sub) v = canonFieldV s skip (.field a fid sub) v := by
            rw [canonFieldF]
            simp only [hsf]
          rw [hl]
          rw [expandSel_noSpread q _ (noSpread_of_vSel s o _ false hv)] at hst
          exact normFieldV s o skip _ false v hv hst
    | .spread g, _, _ => by
      intro _ _ h
      rw [expandSel] at h
      cases hq : q.fragments[g]? <;> simp [hq, strictFieldV] at h
    | .inline _ _, _, _ => by intro ht; simp [fSel] at ht
    | .typename, _, _ => by intro _ _ h; simp [expandSel, strictFieldV] at h
  theorem normEntriesF : ∀ (sels : List Sel) (i : Nat) (kvs : List (String × Json)),
      fSels s q o (.object i) sels = true → keysOksF s q sels = true →
      confSelsV s i (expandSels q sels) kvs = true → ∀ kv ∈ canonEntriesF s q skip sels kvs, normJson kv.2 = kv.2
    | [], _, _, _, _, _ => by simp [canonEntriesF]
    | x :: xs, i, kvs, ht, hko, hc => by
      obtain ⟨hx, hxs⟩ := fSels_cons ht
      rw [keysOksF, Bool.and_eq_true] at hko
      rw [expandSels, confSelsV, Bool.and_eq_true] at hc
      have ih := normEntriesF xs i kvs hxs hko.2 hc.2
      cases x with
      | field a fid sub =>
        rw [canonEntriesF.eq_2]
        have hcx := hc.1
        rw [expandSel, confSelV_field] at hcx
        cases hsf : s.fields[fid]? with
        | none => simpa using ih
        | some sf =>
          simp only [hsf] at hcx ⊢
          cases hl : Json.lookup (a.getD sf.name) kvs with
          | none => simp [hl] at hcx
          | some v =>
            simp only [hl] at hcx ⊢
            intro kv hkv
            rw [List.mem_append] at hkv
            rcases hkv with hkv | hkv
            · split at hkv
              · simp at hkv
              · simp only [List.mem_singleton] at hkv
                subst hkv
                exact normFieldF _ _ v hx hko.1 (by rw [expandSel]; exact hcx)
            · exact ih kv hkv
      | spread g =>
        have hok : fragOk s q o (.object i) g = true := by simpa [fSel] using hx
        obtain ⟨fr, hfr, hon, _, hv, _⟩ := fragOk_parts hok
        have hsels : fragSels q g = fr.sels := by simp [fragSels, hfr]
        have hcg : confSelsV s i fr.sels kvs = true := by
          have := hc.1
          simpa [expandSel, hfr, confSelV, hon, fragApplies] using this
        rw [canonEntriesF.eq_3, hsels]
        intro kv hkv
        rw [List.mem_append] at hkv
        rcases hkv with hkv | hkv
        · exact normEntriesV s o skip fr.sels false kvs hv (strictAt_of_conf hcg) kv hkv
        · exact ih kv hkv
      | inline t sub => simp [fSel] at hx
      | typename => simpa [canonEntriesF] using ih
end

end NormF

/-- the canonical form of a conforming response is a `serde_json::to_value` normal form -/
theorem norm_canonSelF (s : Schema) (q : Query) (o : Options) (skip : Bool) (i : Nat) (sels : List Sel) (j : Json)
    (ht : fBody s q o (.object i) sels = true) (hko : keysOksF s q sels = true)
    (hkeys : EnumSpec.nodup (expKeys s q sels) = true)
    (hj : conformsV s i (expandSels q sels) j = true) : normJson (canonSelF s q skip sels j) = canonSelF s q skip sels j := by
  by_cases hsp : ∃ g, sels = [Sel.spread g]
  · obtain ⟨g, rfl⟩ := hsp
    have hok : fragOk s q o (.object i) g = true := ht
    obtain ⟨fr, hfr, hon, _, hv, hk⟩ := fragOk_parts hok
    have hsels : fragSels q g = fr.sels := by simp [fragSels, hfr]
    simp only [canonSelF, hsels]
    refine norm_canonSelV s o skip i fr.sels j hv hk ?_
    cases j with
    | obj kvs =>
      simp only [expandSels, expandSel, hfr, conformsV, keysSelsV, keysSelV, hon, fragApplies, beq_self_eq_true,
        ↓reduceIte, List.append_nil, confSelsV, confSelV, Bool.not_true, Bool.false_or, Bool.and_true] at hj ⊢
      exact hj
    | null => simp [conformsV] at hj
    | bool _ => simp [conformsV] at hj
    | int _ => simp [conformsV] at hj
    | num _ => simp [conformsV] at hj
    | str _ => simp [conformsV] at hj
    | arr _ => simp [conformsV] at hj
  · have hnl : ∀ g, sels ≠ [Sel.spread g] := fun g hg => hsp ⟨g, hg⟩
    rw [fBody_not_lone hnl] at ht
    rw [canonSelF_not_lone hnl]
    cases j with
    | obj kvs =>
      simp only [conformsV, Bool.and_eq_true] at hj
      exact normJson_obj_fixed _ ((canonEntriesF_keys s q skip kvs sels).nodup (nodup_iff'.mp hkeys))
        (normEntriesF s q o skip sels i kvs ht hko hj.2)
    | null => rfl
    | bool _ => rfl
    | int _ => rfl
    | num _ => rfl
    | str _ => rfl
    | arr _ => simp [conformsV] at hj

/-! ## top level -/

/-- Rust field names pairwise distinct in every struct (decidable) -/
def fragRustOk (c : Ctx) (op : ROperation) : Bool :=
  rustOkSelsF c op.sels && EnumSpec.nodup (rustNamesF c op.sels)

/-- **losslessness at the top level** (generic environment) -/
theorem top_losslessF (e : Env) (c : Ctx) (op : ROperation) (ht : FragmentOp c op = true)
    (hk : fragKeysOk c op = true) (hr : fragRustOk c op = true) (he : TopEnvF e c op)
    (j : Json) (v : Val) (hc : conformsOpF c op j = true) (hd : Serde.de e (.path "ResponseData") j = .ok v) :
    Serde.ser e (.path "ResponseData") v = .ok (canonSelF c.s c.q c.o.skipNone op.sels j) := by
  obtain ⟨_, _, hsels⟩ := fragmentOp_parts ht
  simp only [fragKeysOk, Bool.and_eq_true] at hk
  simp only [fragRustOk, Bool.and_eq_true] at hr
  rw [de_top] at hd
  have h1 := he.size
  have hfd : 2 * depthsF c.q op.sels + 2 ≤ deFuel e j := by
    unfold deFuel
    have hj := jsonSize_pos j
    have h2 : 3 * (e.items.length + e.externs.length + 2) ≤
        (jsonSize j + 2) * (e.items.length + e.externs.length + 2) := Nat.mul_le_mul_right _ (by omega)
    omega
  have hser := bodyF_lossless e c _ "ResponseData" op.objectId op.sels hsels he.root hk.1 hk.2 hr.1 hr.2 false _
    ((valSize v + 2) * (e.items.length + e.externs.length + 2)) hfd
    (by
      have h2 : 2 * (e.items.length + e.externs.length + 2) ≤
          (valSize v + 2) * (e.items.length + e.externs.length + 2) := Nat.mul_le_mul_right _ (by omega)
      omega)
    j v hc hd
  unfold Serde.ser serTy
  rw [show serTyWith (serPath e ((valSize v + 2) * (e.items.length + e.externs.length + 2))) (.path "ResponseData") v =
    serPath e ((valSize v + 2) * (e.items.length + e.externs.length + 2)) "ResponseData" v from rfl, hser]
  rw [show (normJson <$> (Except.ok (canonSelF c.s c.q c.o.skipNone op.sels j) : D Json)) =
    .ok (normJson (canonSelF c.s c.q c.o.skipNone op.sels j)) from rfl,
    norm_canonSelF c.s c.q c.o c.o.skipNone op.objectId op.sels j hsels hk.1 hk.2 hc]

/-- **`fragment_lossless`.**  A conforming response is written back as `canonSelF … j`: as for `VariantOp`, the
    entries of a spread fragment at the position of the spread. -/
theorem fragment_lossless (c : Ctx) (opIdx : Nat) (op : ROperation) (items : List Item)
    (hop : c.q.operations[opIdx]? = some op) (ht : FragmentOp c op = true) (hk : fragKeysOk c op = true)
    (hr : fragRustOk c op = true)
    (hgen : responseForQuery c opIdx = .ok items) (hok : moduleOk c items = true)
    (j : Json) (hc : conformsOpF c op j = true) (v : Val)
    (hd : Serde.de (moduleEnv c items) (.path "ResponseData") j = .ok v) :
    Serde.ser (moduleEnv c items) (.path "ResponseData") v = .ok (canonSelF c.s c.q c.o.skipNone op.sels j) :=
  top_losslessF (moduleEnv c items) c op ht hk hr (topEnvF_of_module hop ht hgen hok) j v hc hd

/-- both in one statement -/
theorem fragment_roundtrip (c : Ctx) (opIdx : Nat) (op : ROperation) (items : List Item)
    (hop : c.q.operations[opIdx]? = some op) (ht : FragmentOp c op = true) (hk : fragKeysOk c op = true)
    (hr : fragRustOk c op = true)
    (hgen : responseForQuery c opIdx = .ok items) (hok : moduleOk c items = true)
    (j : Json) (hc : conformsOpF c op j = true) :
    Serde.roundtrip (moduleEnv c items) (.path "ResponseData") j = .ok (canonSelF c.s c.q c.o.skipNone op.sels j) := by
  obtain ⟨v, hv⟩ := fragment_accepts c opIdx op items hop ht hk hgen hok j hc
  unfold Serde.roundtrip
  rw [hv]
  exact fragment_lossless c opIdx op items hop ht hk hr hgen hok j hc v hv

/-! ## the concrete module of `C01AbstractH` -/

theorem fx_rust : fragRustOk fxCtx fxOp = true := by decide +kernel

def fxCanon : Json :=
  .obj [("me", .obj [("name", .str "Luke"), ("friend", .obj [("height", .null)]), ("height", .num "1.7")])]

theorem fx_canon : canonSelF fxCtx.s fxCtx.q fxCtx.o.skipNone fxOp.sels fxJson = fxCanon := by
  simp [canonSelF, canonEntriesF, canonFieldF, canonSelV, canonEntriesV, canonFieldV, canon, canonNN, gtyOf, fragSels,
    fxCtx, fxSchema, fxOp, fxQuery, fxJson, fxCanon, Json.lookup, skipQ, Json.isNull]

/-- `fragment_accepts` + `fragment_lossless` on the concrete module: the fragments' entries come back at the
    position of their spreads (`name` from `...Basics` first, `height` from `...Size` last; `__typename`,
    selected inside `Basics` on an object type, is dropped) -/
example : Serde.roundtrip (moduleEnv fxCtx fxItems) (.path "ResponseData") fxJson = .ok fxCanon := by
  rw [← fx_canon]
  exact fragment_roundtrip fxCtx 0 fxOp fxItems rfl fx_fragment fx_keys fx_rust fx_gen fx_ok fxJson fx_conforms

end E2E
end C01
end GqlVerif
