import GqlVerif.Proofs.C01AliasFragF
import GqlVerif.Proofs.C01AliasFragG
import GqlVerif.Proofs.C01NestedH
/-!
# C01 end to end (`AliasFragOp`), part H: losslessness (generic environment, parametric)

`C01NestedH` with `FragAcc` replaced by `FragAccA` (part C): the allowed differences `canonSelN`, the round-trip
interface `FragRT` (stated through `dePath` / `serPath` at the fragment's name only — it never mentioned a struct), the
side condition `rustOkSelsN` and `rtMemN` are those of `C01NestedH`, unchanged.  Reading: `deStructA_finds` of part G.

* `rtStructA`, `rtBodyA`, mutual `rtSelA` / `rtSelsA`, **`bodyA_lossless`**.
-/
set_option linter.unusedSimpArgs false
set_option linter.unusedVariables false
set_option linter.unusedSectionVars false
set_option linter.unnecessarySimpa false

namespace GqlVerif
namespace C01AF
open Serde Spec C13 C03 Codegen C01 C01.E2E C01M C01N

section RTA
variable (e : Env) (c : Ctx) (ok : TypeId → Nat → Bool) (whole : Nat → Bool → Json → Bool) (KN : String → List String)
  (fenv : Nat → Prop) (ex : Nat → Sel) (cent : Nat → List (String × Json) → List (String × Json))

variable (hok : OkSpec c.q ok) (hfa : ∀ p g, ok p g = true → fenv g → FragAccA e c whole KN g)
  (hfr : ∀ p g, ok p g = true → fenv g → FragRT e c ex cent KN g)
  (hexA : ∀ g, FragOkAny c.s c.q c.o g → ex g = expandSel c.q (.spread g))

include hok hfa hfr in
/-- **round trip of the struct of an object-level selection set with spreads of fragments of the class** -/
theorem rtStructA (pfx name : String) (i : Nat) (sels : List Sel) (H : RTSelsN e c ok KN fenv ex cent pfx sels)
    (ht : nSels ok c.s c.q c.o (.object i) sels = true) (henv : envSelsN fenv e c pfx sels)
    (hko : keysOksN KN c sels = true) (hkeys : EnumSpec.nodup (expKeysN KN c sels) = true)
    (hro : rustOkSelsN c sels = true) (hrn : EnumSpec.nodup (rustNamesF c sels) = true)
    (hs : StructEnv e name (fieldsOfF c pfx sels)) :
    ∃ N, ∀ b fd fs, N ≤ fd → N ≤ fs → ∀ kvs (L0 : List String) v, (kvs.map (·.1)).Nodup →
      (∀ k ∈ L0, k ∉ expKeysN KN c sels) → confSelsV c.s i (expandSelsW ex sels) kvs = true →
      dePath e b fd name (.obj (kvs.filter (fun kv => !L0.contains kv.1))) = .ok v →
      serPath e fs name v = .ok (.obj (canonEntriesN cent c.s c.q c.o.skipNone sels kvs)) := by
  obtain ⟨hp, _, n, d, cr, hfind⟩ := hs
  obtain ⟨N0, H0⟩ := H (.object i) ht henv hko hro
  obtain ⟨N1, H1⟩ := accMemA e c ok whole KN fenv hok hfa pfx (.object i) sels ht henv
  obtain ⟨N2, H2⟩ := rtMemN e c ok KN fenv ex cent hok hfr pfx i sels ht henv
  refine ⟨max (max N0 N1) N2 + 2, fun b fd fs hfd hfs kvs L0 v hnd hL0 hconf hd => ?_⟩
  obtain ⟨fuel, rfl⟩ : ∃ k, fd = k + 2 := ⟨fd - 2, by omega⟩
  obtain ⟨fs', rfl⟩ : ∃ k, fs = k + 2 := ⟨fs - 2, by omega⟩
  have hnd' : ((kvs.filter (fun kv => !L0.contains kv.1)).map (·.1)).Nodup :=
    ((List.filter_sublist).map _).nodup hnd
  have hcnt := countKey_le_one_of_nodup hnd'
  obtain ⟨_, _, h3, h4⟩ := flat_hypsN hok KN pfx (.object i) sels ht (nodup_iff'.mp hkeys)
  have hrust : ((fieldsOfF c pfx sels).map (·.rust)).Nodup := by
    rw [rust_fieldsOfN hok pfx _ sels ht]; exact nodup_iff'.mp hrn
  obtain ⟨M1, _⟩ := H1 fuel (by omega)
  have hfk : (fieldKeys c.s sels).Nodup := (fieldKeys_sublist_expKeysN KN c sels).nodup (nodup_iff'.mp hkeys)
  have hlk : ∀ k ∈ fieldKeys c.s sels,
      Json.lookup k (kvs.filter (fun kv => !L0.contains kv.1)) = Json.lookup k kvs := by
    intro k hk
    exact lookup_filter (fun kv => !L0.contains kv.1) k
      (keep_notin L0 (fun hkL => hL0 k hkL (fieldKeys_sub_expKeysN KN c sels k hk))) kvs
  rw [dePath_struct e b (fuel + 1) name n d cr _ hp hfind, deStruct_obj] at hd
  obtain ⟨vals, rfl, hownf, hmemf⟩ := deStructA_finds e fuel _ _ _ (kOf KN) hcnt hrust
    (fun g hg hf => (M1 g hg hf).1) (fun g hg hf k hk hkK => h3 g hg hf k hkK hk) h4 v hd
  -- the members
  have hmemrt : ∀ gid fr, Sel.spread gid ∈ sels → c.q.fragments[gid]? = some fr →
      ∃ x, vals.find? (·.1 == (spreadField c fr).rust) = some ((spreadField c fr).rust, x) ∧
        serTyWith (serPath e (fs' + 1)) (spreadField c fr).ty x = .ok (.obj (cent gid kvs)) := by
    intro gid fr hm hfrg
    have hname : fragName c gid = fr.name := by simp [fragName, hfrg]
    have hgmem : spreadField c fr ∈ fieldsOfF c pfx sels :=
      List.mem_filterMap.mpr ⟨_, hm, by simp [fieldOfSelF, hfrg]⟩
    obtain ⟨L', x, hL', hval, hfindg⟩ := hmemf _ hgmem rfl
    have hval : dePath e true (fuel + 1) fr.name
        (.obj ((kvs.filter (fun kv => !L0.contains kv.1)).filter (fun kv => !L'.contains kv.1))) = .ok x := hval
    rw [filter_not_append] at hval
    refine ⟨x, hfindg, ?_⟩
    have hconfg : confSelV c.s i (ex gid) kvs = true := by
      have := confSelsV_mem hconf _ (expandSelsW_mem ex hm)
      simpa [expandSelW] using this
    have := H2 gid hm (fuel + 1) (fs' + 1) (by omega) (by omega) true kvs (L0 ++ L') x hnd
      (by
        intro k hk hkK
        rcases List.mem_append.mp hk with hk | hk
        · exact hL0 k hk (spreadKeys_sub_expKeysN KN c sels gid hm k hkK)
        · rw [hname] at hkK; exact hL' k hk hkK)
      hconfg (by rw [hname]; exact hval)
    rw [hname] at this
    exact this
  -- the entries a member writes, as a function of the member
  let mc : RField → List (String × Json) := fun g =>
    match vals.find? (·.1 == g.rust) with
    | some (_, x) => (match serTyWith (serPath e (fs' + 1)) g.ty x with | .ok (.obj o) => o | _ => [])
    | none => []
  have hmc : ∀ gid fr, Sel.spread gid ∈ sels → c.q.fragments[gid]? = some fr →
      mc (spreadField c fr) = cent gid kvs := by
    intro gid fr hm hfrg
    obtain ⟨x, hf, hser⟩ := hmemrt gid fr hm hfrg
    simp only [mc, hf, hser]
  rw [serPath_struct e (fs' + 1) name n d cr _ hfind,
    ser_flat (dePath e b (fuel + 1)) (serPath e (fs' + 1)) (fcanonOfN cent c.s c.q c.o.skipNone sels) mc _ vals
      (fieldsOfF c pfx sels) hownf ?_ ?_ ?_ ?_]
  · rw [flatMap_entriesN_canon hok cent pfx (.object i) _ mc _ kvs sels ht hlk ?_ hmc]
    · rfl
    · intro a fid sub hx f hfx v
      obtain ⟨sf, ft, hsf, _, hf', _⟩ := fieldOfSelV_n pfx _ a fid sub (nSels_mem ht _ hx)
      rw [hf'] at hfx
      cases hfx
      unfold fcanonOfN
      rw [fieldOf_wire, find_fieldKey c.s _ sels hfk _ hx (by simp [fieldKey, hsf])]
  · intro f hf hfl j x hl hdx
    have hfV : f ∈ fieldsOfV c pfx sels := by
      rw [← own_fieldsOfN hok pfx _ sels ht]; exact List.mem_filter.mpr ⟨hf, by simp [hfl]⟩
    obtain ⟨a, fid, sub, sf, ft, hx, hsf, hfx, rfl, _⟩ := mem_fieldsOfV_n hfV ht
    rw [fieldOf_wire] at hl
    rw [hlk _ (by
      have : fieldKey c.s (.field a fid sub) = some (a.getD sf.name) := by simp [fieldKey, hsf]
      exact List.mem_filterMap.mpr ⟨_, hx, this⟩)] at hl
    have hst : strictFieldV c.s (expandSelW ex (.field a fid sub)) j = true := by
      have := confSelsV_mem hconf _ (expandSelsW_mem ex hx)
      rw [expandSelW, confSelV_field] at this
      rw [expandSelW]
      simpa [hsf, hl] using this
    have hfc : fcanonOfN cent c.s c.q c.o.skipNone sels (fieldOf c (a.getD sf.name) ft sf.ty.quals sf.deprecation) j =
        canonFieldN cent c.s c.q c.o.skipNone (.field a fid sub) j := by
      unfold fcanonOfN
      rw [fieldOf_wire, find_fieldKey c.s _ sels hfk _ hx (by simp [fieldKey, hsf])]
    rw [hfc]
    exact H0 _ hx _ hfx b (fuel + 1) (fs' + 1) (by omega) (by omega) j x hst hdx
  · intro f hf hfl hskip j x _ hdx
    have hfV : f ∈ fieldsOfV c pfx sels := by
      rw [← own_fieldsOfN hok pfx _ sels ht]; exact List.mem_filter.mpr ⟨hf, by simp [hfl]⟩
    obtain ⟨a, fid, sub, sf, ft, _, _, _, rfl, _⟩ := mem_fieldsOfV_n hfV ht
    refine field_unit_iff _ _ (.inr ?_) j x hdx
    rw [fieldOf_skipNone, Bool.and_eq_true] at hskip
    exact (isOption_rustOf ft sf.ty.quals).trans (skipQ_nullable hskip.2)
  · intro f hf hfl hdef
    have hfV : f ∈ fieldsOfV c pfx sels := by
      rw [← own_fieldsOfN hok pfx _ sels ht]; exact List.mem_filter.mpr ⟨hf, by simp [hfl]⟩
    obtain ⟨a, fid, sub, sf, ft, _, _, _, rfl, _⟩ := mem_fieldsOfV_n hfV ht
    have : (decide (ft = "ID") && nullableQ sf.ty.quals) = true := hdef
    rw [Bool.and_eq_true] at this
    exact (isOption_rustOf ft sf.ty.quals).trans this.2
  · intro g hg hfl
    obtain ⟨gid, fr, hm, hfrg, rfl⟩ := mem_fieldsOfN_flatten hok hg ht hfl
    obtain ⟨x, hf, hser⟩ := hmemrt gid fr hm hfrg
    exact ⟨x, hf, by rw [hser, hmc gid fr hm hfrg]⟩

include hok hfa hfr in
/-- round trip of the type emitted for an object-level selection set, from the round trips of its fields -/
theorem rtBodyA (pfx name : String) (i : Nat) (sels : List Sel) (H : RTSelsN e c ok KN fenv ex cent pfx sels)
    (ht : nBody ok c.s c.q c.o (.object i) sels = true) (henv : BodyEnvN fenv e c name pfx sels)
    (hko : keysOksN KN c sels = true) (hkeys : EnumSpec.nodup (expKeysN KN c sels) = true)
    (hro : rustOkSelsN c sels = true) (hrn : EnumSpec.nodup (rustNamesF c sels) = true) :
    ∃ N, ∀ b fd fs, N ≤ fd → N ≤ fs → ∀ j v, conformsV c.s i (expandSelsW ex sels) j = true →
      dePath e b fd name j = .ok v → serPath e fs name v = .ok (canonSelN cent c.s c.q c.o.skipNone sels j) := by
  by_cases hsp : ∃ g, sels = [Sel.spread g]
  · obtain ⟨g, rfl⟩ := hsp
    unfold BodyEnvN at henv
    simp only at henv
    have hokg : ok (.object i) g = true := ht
    obtain ⟨fr, hfrg, hon, _, _⟩ := hok _ _ hokg
    have hfon : fragOn c.q g = .object i := by simp [fragOn, hfrg, hon]
    obtain ⟨Ng, hrt⟩ := (hfr _ g hokg henv.2).rt
    obtain ⟨hp, _, n, pub, hfind⟩ := henv.1
    refine ⟨Ng + 2, fun b fd fs hfd hfs j v hc hd => ?_⟩
    obtain ⟨fd', rfl⟩ : ∃ k, fd = k + 1 := ⟨fd - 1, by omega⟩
    obtain ⟨fs', rfl⟩ : ∃ k, fs = k + 2 := ⟨fs - 2, by omega⟩
    have hd' : dePath e b fd' (fragName c g) j = .ok v := by
      rw [dePath] at hd; simpa only [dePrim_none hp, hfind, deTyWith] using hd
    rw [serPath_alias e name (fragName c g) n pub hfind]
    cases j with
    | obj kvs =>
      simp only [expandSelsW, expandSelW, conformsV, confSelsV, Bool.and_true, Bool.and_eq_true] at hc
      rw [← filter_not_nil kvs] at hd'
      simp only [canonSelN, cwhole]
      exact hrt fd' (fs' + 1) (by omega) (by omega) b i kvs [] v hfon (nodup_iff'.mp hc.1.1) (by simp) hc.2 hd'
    | null => simp [conformsV] at hc
    | bool _ => simp [conformsV] at hc
    | int _ => simp [conformsV] at hc
    | num _ => simp [conformsV] at hc
    | str _ => simp [conformsV] at hc
    | arr _ => simp [conformsV] at hc
  · have hnl : ∀ g, sels ≠ [Sel.spread g] := fun g hg => hsp ⟨g, hg⟩
    have henv' := bodyEnvN_not_lone hnl henv
    rw [nBody_not_lone hnl] at ht
    obtain ⟨N, hN⟩ := rtStructA e c ok whole KN fenv ex cent hok hfa hfr pfx name i sels H ht henv'.2 hko hkeys hro hrn
      henv'.1
    refine ⟨N, fun b fd fs hfd hfs j v hc hd => ?_⟩
    rw [canonSelN_not_lone hnl]
    cases j with
    | obj kvs =>
      simp only [conformsV, Bool.and_eq_true] at hc
      rw [← filter_not_nil kvs] at hd
      exact hN b fd fs hfd hfs kvs [] v (nodup_iff'.mp hc.1.1) (by simp) hc.2 hd
    | null => simp [conformsV] at hc
    | bool _ => simp [conformsV] at hc
    | int _ => simp [conformsV] at hc
    | num _ => simp [conformsV] at hc
    | str _ => simp [conformsV] at hc
    | arr _ => simp [conformsV] at hc

mutual
  theorem rtSelA : ∀ (x : Sel) (pfx : String), OkSpec c.q ok →
      (∀ p g, ok p g = true → fenv g → FragAccA e c whole KN g) →
      (∀ p g, ok p g = true → fenv g → FragRT e c ex cent KN g) →
      (∀ g, FragOkAny c.s c.q c.o g → ex g = expandSel c.q (.spread g)) → RTSelN e c ok KN fenv ex cent pfx x
    | .field a fid sub, pfx => by
      intro hok hfa hfr hexA p ht henv hko hro f hf
      have IH := rtSelsA sub
      obtain ⟨sf, ft, hsf, _, hf', hw⟩ := fieldOfSelV_n pfx p a fid sub ht
      by_cases hobj : ∃ i, sf.ty.id = .object i
      · obtain ⟨i, hid⟩ := hobj
        have hwf : wf (gtyOf sf.ty.quals) = true := by rw [wf_gtyOf]; exact hw
        obtain ⟨_, _, _, hbody⟩ := nSel_obj hsf hid ht
        have henvB := envSelN_obj hsf hid henv
        have hko := keysOkN_obj hsf hid hko
        simp only [fieldOfSelV, hsf, leafNameV, hid, Option.some.injEq] at hf
        subst hf
        have hID : pfx ++ c.cs.camel (a.getD sf.name) ≠ "ID" := by
          unfold BodyEnvN at henvB
          split at henvB
          · exact henvB.1.2.1
          · exact henvB.1.2.1
        have hleaf : ∃ N, ∀ b fd fs, N ≤ fd → N ≤ fs → ∀ j w,
            conformsV c.s i (expandSelsW ex sub) j = true →
            dePath e b fd (pfx ++ c.cs.camel (a.getD sf.name)) j = .ok w →
            serPath e fs (pfx ++ c.cs.camel (a.getD sf.name)) w =
              .ok (canonSelN cent c.s c.q c.o.skipNone sub j) := by
          by_cases hsp : ∃ g, sub = [Sel.spread g]
          · obtain ⟨g, rfl⟩ := hsp
            exact rtBodyA e c ok whole KN fenv ex cent hok hfa hfr _ _ i [Sel.spread g]
              (fun _ _ _ _ _ => ⟨0, fun x hx f hf => by
                simp only [List.mem_singleton] at hx; subst hx; cases hf⟩)
              hbody henvB (by simp [keysOksN, keysOkN]) (by
                have : expKeysN KN c [Sel.spread g] = KN (fragName c g) := by simp [expKeysN]
                rw [this]; exact hko.1 ▸ (by simp [expKeysN])) (by simp [rustOkSelsN, rustOkSelN])
              (by simp [rustNamesF, rustNameF, EnumSpec.nodup])
          · have hnl : ∀ g, sub ≠ [Sel.spread g] := fun g hg => hsp ⟨g, hg⟩
            have hroB := rustOkSelN_obj hsf hid hnl hro
            exact rtBodyA e c ok whole KN fenv ex cent hok hfa hfr _ _ i sub (IH _ hok hfa hfr hexA) hbody henvB hko.2
              hko.1 hroB.1 hroB.2
        obtain ⟨N, hN⟩ := hleaf
        refine ⟨N, fun b fd fs hfd hfs v y hst hd => ?_⟩
        simp only [expandSelW, strictFieldV] at hst
        rw [canonFieldN]
        simp only [hsf, hid] at hst ⊢
        rw [canonLambdaN]
        rw [deField_plain _ _ _ _ hID] at hd
        refine (leaf_roundtrip_on (dePath e b fd) (serPath e fs) _
          (conformsAt c.s (.object i) (expandSelsW ex sub)) (canonSelN cent c.s c.q c.o.skipNone sub) ?_ _ hwf).2 v y hst hd
        intro j w hc hdw
        simp only [conformsAt, List.any_eq_true, List.mem_range, Bool.and_eq_true, fragApplies, beq_iff_eq] at hc
        obtain ⟨rt, _, hrt, hcv⟩ := hc
        subst hrt
        exact hN b fd fs hfd hfs j w hcv hdw
      · have hno : ∀ i, sf.ty.id ≠ .object i := fun i h => hobj ⟨i, h⟩
        have hs := nSel_nonobj hsf hno ht
        refine ⟨2 * depthF c.q (.field a fid sub) + 1, fun b fd fs hfd hfs v y hst hd => ?_⟩
        rw [canonFieldN_nonobj hsf hno]
        have hexp : expandSelW ex (.field a fid sub) = expandSel c.q (.field a fid sub) :=
          expandSelW_congr c.q ex _ (fun g hg => hexA g (fragOk_of_spreadIdS c.s c.q c.o _ false hs g hg (by simp)))
        rw [hexp] at hst
        exact rtSelD e c _ pfx false hs (envSelN_nonobj hsf hno henv)
          (rustOkSelN_nonobj hsf hno hro) f hf b fd fs hfd (by omega) v y hst hd
    | .spread g, pfx => by intro _ _ _ _ _ _ _ _ _ f hf; cases hf
    | .inline t sub, pfx => by intro _ _ _ _ _ _ _ _ _ f hf; cases hf
    | .typename, pfx => by intro _ _ _ _ _ _ _ _ _ f hf; cases hf
  theorem rtSelsA : ∀ (sels : List Sel) (pfx : String), OkSpec c.q ok →
      (∀ p g, ok p g = true → fenv g → FragAccA e c whole KN g) →
      (∀ p g, ok p g = true → fenv g → FragRT e c ex cent KN g) →
      (∀ g, FragOkAny c.s c.q c.o g → ex g = expandSel c.q (.spread g)) → RTSelsN e c ok KN fenv ex cent pfx sels
    | [], _ => by
      intro _ _ _ _ _ _ _ _ _
      exact ⟨0, fun x hx => by simp at hx⟩
    | y :: ys, pfx => by
      intro hok hfa hfr hexA p ht henv hko hro
      obtain ⟨hy, hys⟩ := nSels_cons ht
      rw [envSelsN] at henv
      rw [keysOksN, Bool.and_eq_true] at hko
      rw [rustOkSelsN, Bool.and_eq_true] at hro
      obtain ⟨N2, I2⟩ := rtSelsA ys pfx hok hfa hfr hexA p hys henv.2 hko.2 hro.2
      have IY := rtSelA y pfx hok hfa hfr hexA p hy henv.1 hko.1 hro.1
      cases hfy : fieldOfSelV c pfx y with
      | none =>
        refine ⟨N2, fun x hx f hf => ?_⟩
        rcases List.mem_cons.mp hx with heq | hx'
        · rw [heq, hfy] at hf; cases hf
        · exact I2 x hx' f hf
      | some fy =>
        obtain ⟨N1, I1⟩ := IY fy hfy
        refine ⟨max N1 N2, fun x hx f hf b fd fs hfd hfs => ?_⟩
        rcases List.mem_cons.mp hx with heq | hx'
        · subst heq
          rw [hfy] at hf; cases hf
          exact I1 b fd fs (by omega) (by omega)
        · exact I2 x hx' f hf b fd fs (by omega) (by omega)
end

include hok hfa hfr hexA in
/-- **round trip of the type emitted for an object-level selection set of `AliasFragOp`** (from some fuel on) -/
theorem bodyA_lossless (pfx name : String) (i : Nat) (sels : List Sel)
    (ht : nBody ok c.s c.q c.o (.object i) sels = true) (henv : BodyEnvN fenv e c name pfx sels)
    (hko : keysOksN KN c sels = true) (hkeys : EnumSpec.nodup (expKeysN KN c sels) = true)
    (hro : rustOkSelsN c sels = true) (hrn : EnumSpec.nodup (rustNamesF c sels) = true) :
    ∃ N, ∀ b fd fs, N ≤ fd → N ≤ fs → ∀ j v, conformsV c.s i (expandSelsW ex sels) j = true →
      dePath e b fd name j = .ok v → serPath e fs name v = .ok (canonSelN cent c.s c.q c.o.skipNone sels j) :=
  rtBodyA e c ok whole KN fenv ex cent hok hfa hfr pfx name i sels
    (rtSelsA e c ok whole KN fenv ex cent sels pfx hok hfa hfr hexA) ht henv hko hkeys hro hrn

end RTA

end C01AF
end GqlVerif
