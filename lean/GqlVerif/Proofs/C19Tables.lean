import GqlVerif.Model.Cli
import GqlVerif.Model.Gen.Consts

/-! ## the CLI's parser (`Model/Cli.lean`, property C19): the same table, without lower-casing (docs/REVIEW_4.md finding 2) -/
namespace GqlVerif
namespace C19T

def depStrategyOfName : String → Option DepStrategy
  | "Allow" => some .allow | "Deny" => some .deny | "Warn" => some .warn | _ => none

/-- `--deprecation-strategy` is parsed by `DeprecationStrategy::from_str` directly: the look-up of the TRIMMED text among the
    arms regenerated from `deprecation.rs` -/
theorem cli_parseDeprecation_is_table (s : String) :
    Cli.parseDeprecation s =
      (Gen.deprecationFromStr.2.find? (fun p => p.1.toList == Cli.trim s.toList)).bind (fun p => depStrategyOfName p.2) := by
  unfold Cli.parseDeprecation
  simp only [Gen.deprecationFromStr, List.find?, Cli.allowWord, Cli.denyWord, Cli.warnWord]
  have h1 : "allow".toList = ['a','l','l','o','w'] := by decide
  have h2 : "deny".toList = ['d','e','n','y'] := by decide
  have h3 : "warn".toList = ['w','a','r','n'] := by decide
  rw [h1, h2, h3]
  by_cases a : Cli.trim s.toList = ['a','l','l','o','w']
  · simp [a, depStrategyOfName]
  · by_cases b : Cli.trim s.toList = ['d','e','n','y']
    · simp [b, depStrategyOfName]
    · by_cases c : Cli.trim s.toList = ['w','a','r','n']
      · simp [c, depStrategyOfName]
      · have a' : (['a','l','l','o','w'] == Cli.trim s.toList) = false := by rw [beq_eq_false_iff_ne]; exact fun h => a h.symm
        have b' : (['d','e','n','y'] == Cli.trim s.toList) = false := by rw [beq_eq_false_iff_ne]; exact fun h => b h.symm
        have c' : (['w','a','r','n'] == Cli.trim s.toList) = false := by rw [beq_eq_false_iff_ne]; exact fun h => c h.symm
        simp [a, b, c, a', b', c']

end C19T
end GqlVerif
