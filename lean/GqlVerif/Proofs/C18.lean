import GqlVerif.Model.Attr
/-!
Helper lemmas for property C18: how the three scanners of `attributes.rs` move over the token list
of a rendered attribute (`Attr.render`).  The invariant of every induction is that the scanner is
at an *item boundary* (the remaining tokens are `render st rest` for a suffix `rest` of the items).
-/
namespace GqlVerif
namespace C18
open Attr

def resOfOpt {α : Type} : Option α → Res α
  | some v => .ok v
  | none => .error .notFound

def isIdent : Tok → Bool
  | .ident _ => true
  | _ => false

def isLit : Tok → Bool
  | .lit _ => true
  | .litOther _ => true
  | _ => false

theorem scanAttr_skip (k : String) (t : Tok) (T : List Tok) (h : isIdent t = false) :
    scanAttr k (t :: T) = scanAttr k T := by
  rw [scanAttr.eq_def]; cases t <;> simp_all [isIdent]

@[simp] theorem scanAttr_punct (k : String) (c : Char) (T : List Tok) :
    scanAttr k (.punct c :: T) = scanAttr k T := scanAttr_skip k _ T rfl
@[simp] theorem scanAttr_lit (k v : String) (T : List Tok) :
    scanAttr k (.lit v :: T) = scanAttr k T := scanAttr_skip k _ T rfl
@[simp] theorem scanAttr_litOther (k v : String) (T : List Tok) :
    scanAttr k (.litOther v :: T) = scanAttr k T := scanAttr_skip k _ T rfl
@[simp] theorem scanAttr_group (k : String) (d : Delim) (ts T : List Tok) :
    scanAttr k (.group d ts :: T) = scanAttr k T := scanAttr_skip k _ T rfl

theorem scanAttr_ident_ne (k s : String) (T : List Tok) (h : s ≠ k) :
    scanAttr k (.ident s :: T) = scanAttr k T := by
  rw [scanAttr.eq_def]; simp only [h, if_false]

@[simp] theorem scanAttr_key_nil (k : String) : scanAttr k [.ident k] = .error .notFound := by
  rw [scanAttr.eq_def]; simp

@[simp] theorem scanAttr_key_one (k : String) (t : Tok) : scanAttr k [.ident k, t] = .error .notFound := by
  rw [scanAttr.eq_def]; simp

@[simp] theorem scanAttr_key_lit (k v : String) (t : Tok) (T : List Tok) :
    scanAttr k (.ident k :: t :: .lit v :: T) = .ok v := by
  rw [scanAttr.eq_def]; simp

@[simp] theorem scanAttr_key_litOther (k v : String) (t : Tok) (T : List Tok) :
    scanAttr k (.ident k :: t :: .litOther v :: T) = .error .badLiteral := by
  rw [scanAttr.eq_def]; simp

theorem scanAttr_key_other (k : String) (t u : Tok) (T : List Tok) (h : isLit u = false) :
    scanAttr k (.ident k :: t :: u :: T) = scanAttr k T := by
  rw [scanAttr.eq_def]; cases u <;> simp_all [isLit]

@[simp] theorem scanAttr_key_punct (k : String) (t : Tok) (c : Char) (T : List Tok) :
    scanAttr k (.ident k :: t :: .punct c :: T) = scanAttr k T := scanAttr_key_other k t _ T rfl
@[simp] theorem scanAttr_key_ident (k s : String) (t : Tok) (T : List Tok) :
    scanAttr k (.ident k :: t :: .ident s :: T) = scanAttr k T := scanAttr_key_other k t _ T rfl
@[simp] theorem scanAttr_key_group (k : String) (t : Tok) (d : Delim) (ts T : List Tok) :
    scanAttr k (.ident k :: t :: .group d ts :: T) = scanAttr k T := scanAttr_key_other k t _ T rfl

theorem scanAttr_body (k : String) (st : Style) (i : Item) (T : List Tok) :
    scanAttr k (i.body st ++ T) = scanAttr k T := by
  cases i <;> simp [Item.body]

theorem scanAttr_sep (k : String) (st : Style) (rest : List Item) (T : List Tok) :
    scanAttr k (sep st rest ++ T) = scanAttr k T := by
  cases rest with
  | nil => cases ht : st.trailing <;> simp [sep, comma, ht]
  | cons j r => simp [sep, comma]

theorem lookupKv_head_ne (k : String) (i : Item) (rest : List Item) (h : i.head ≠ k) :
    lookupKv k (i :: rest) = lookupKv k rest := by
  cases i <;> simp_all [lookupKv, Item.head]

theorem noFlagThenKv_tail (k : String) (i : Item) (rest : List Item) (h : NoFlagThenKv k (i :: rest) = true) :
    NoFlagThenKv k rest = true := by
  cases rest with
  | nil => simp [NoFlagThenKv]
  | cons j r => cases i <;> cases j <;> simp_all [NoFlagThenKv]

theorem scanAttr_render (st : Style) (k : String) :
    ∀ items, NoFlagThenKv k items = true → scanAttr k (render st items) = resOfOpt (lookupKv k items)
  | [], _ => rfl
  | i :: rest, h => by
    have ht := noFlagThenKv_tail k i rest h
    by_cases hk : i.head = k
    · cases i with
      | kv k' v =>
        simp only [Item.head] at hk
        subst hk
        simp [render, renderItem, Item.head, Item.body, lookupKv, resOfOpt]
      | flag f =>
        simp only [Item.head] at hk
        subst hk
        cases rest with
        | nil => cases ht : st.trailing <;> simp [render, renderItem, Item.head, Item.body, sep, comma, lookupKv, resOfOpt, ht]
        | cons j rest' =>
          have ht' := noFlagThenKv_tail f j rest' ht
          have ih := scanAttr_render st f rest' ht'
          have hj : lookupKv f (j :: rest') = lookupKv f rest' := by
            cases j <;> simp_all [lookupKv, NoFlagThenKv]
          have e : render st (Item.flag f :: j :: rest') =
              .ident f :: comma :: .ident j.head :: (j.body st ++ (sep st rest' ++ render st rest')) := by
            simp [render, renderItem, Item.head, Item.body, sep]
          rw [e, comma, scanAttr_key_ident, scanAttr_body, scanAttr_sep, ih]
          simp [lookupKv, hj]
      | listAttr k' vs =>
        simp only [Item.head] at hk
        subst hk
        have ih := scanAttr_render st k' rest ht
        cases rest with
        | nil => cases ht : st.trailing <;> simp [render, renderItem, Item.head, Item.body, sep, comma, lookupKv, resOfOpt, ht, scanAttr]
        | cons j rest' =>
          have e : render st (Item.listAttr k' vs :: j :: rest') =
              .ident k' :: .group st.delim (renderVals st.listTrailing vs) :: .punct ',' :: render st (j :: rest') := by
            simp [render, renderItem, Item.head, Item.body, sep, comma]
          rw [e, scanAttr_key_punct, ih]
          simp [lookupKv]
    · have ih := scanAttr_render st k rest ht
      simp only [render, renderItem, List.cons_append]
      rw [scanAttr_ident_ne _ _ _ hk, scanAttr_body, scanAttr_sep, ih, lookupKv_head_ne _ _ _ hk]

/-! ### `ident_exists` and `extract_attr_list` on rendered attributes -/

theorem identExistsToks_append (f : String) (A B : List Tok) :
    identExistsToks f (A ++ B) = (identExistsToks f A || identExistsToks f B) := by
  induction A with
  | nil => simp [identExistsToks]
  | cons t A ih =>
    cases t <;> simp [identExistsToks, ih, Bool.or_assoc]

theorem identExistsToks_body (f : String) (st : Style) (i : Item) : identExistsToks f (i.body st) = false := by
  cases i <;> simp [Item.body, identExistsToks]

theorem identExistsToks_sep (f : String) (st : Style) (rest : List Item) : identExistsToks f (sep st rest) = false := by
  cases rest with
  | nil => cases ht : st.trailing <;> simp [sep, comma, identExistsToks, ht]
  | cons j r => simp [sep, comma, identExistsToks]

theorem identExistsToks_render (st : Style) (f : String) (items : List Item) :
    identExistsToks f (render st items) = (items.map Item.head).contains f := by
  induction items with
  | nil => simp [render, identExistsToks]
  | cons i rest ih =>
    simp only [render, renderItem, List.cons_append, identExistsToks, identExistsToks_append,
      identExistsToks_body, identExistsToks_sep, ih, List.map_cons, List.contains_cons, Bool.false_or]
    by_cases h : i.head = f
    · simp [h]
    · have h' : ¬ f = i.head := fun e => h e.symm
      simp [h, h']

theorem groupLits_renderVals (lt : Bool) (vs : List String) : groupLits (renderVals lt vs) = .ok vs := by
  induction vs with
  | nil => simp [renderVals, groupLits]
  | cons v rest ih =>
    cases rest with
    | nil => cases lt <;> simp [renderVals, groupLits, comma]
    | cons w r => simp only [renderVals, groupLits, comma] at ih ⊢; simp [ih]

theorem scanAttrList_skip (k : String) (t : Tok) (T : List Tok) (h : isIdent t = false) :
    scanAttrList k (t :: T) = scanAttrList k T := by
  rw [scanAttrList.eq_def]; cases t <;> simp_all [isIdent]

@[simp] theorem scanAttrList_punct (k : String) (c : Char) (T : List Tok) :
    scanAttrList k (.punct c :: T) = scanAttrList k T := scanAttrList_skip k _ T rfl
@[simp] theorem scanAttrList_lit (k v : String) (T : List Tok) :
    scanAttrList k (.lit v :: T) = scanAttrList k T := scanAttrList_skip k _ T rfl
@[simp] theorem scanAttrList_group (k : String) (d : Delim) (ts T : List Tok) :
    scanAttrList k (.group d ts :: T) = scanAttrList k T := scanAttrList_skip k _ T rfl

theorem scanAttrList_ident_ne (k s : String) (T : List Tok) (h : s ≠ k) :
    scanAttrList k (.ident s :: T) = scanAttrList k T := by
  rw [scanAttrList.eq_def]; simp only [h, if_false]

@[simp] theorem scanAttrList_nil (k : String) : scanAttrList k [] = .error .notFound := by
  rw [scanAttrList.eq_def]; simp [finishList]

@[simp] theorem scanAttrList_key_nil (k : String) : scanAttrList k [.ident k] = .error .notFound := by
  rw [scanAttrList.eq_def]; simp [finishList]

@[simp] theorem scanAttrList_key_group (k : String) (d : Delim) (ts T : List Tok) :
    scanAttrList k (.ident k :: .group d ts :: T) = groupLits ts := by
  rw [scanAttrList.eq_def]; simp

@[simp] theorem scanAttrList_key_punct (k : String) (c : Char) (T : List Tok) :
    scanAttrList k (.ident k :: .punct c :: T) = scanAttrList k T := by
  rw [scanAttrList.eq_def]; simp

theorem scanAttrList_body (k : String) (st : Style) (i : Item) (T : List Tok) :
    scanAttrList k (i.body st ++ T) = scanAttrList k T := by
  cases i <;> simp [Item.body]

theorem scanAttrList_sep (k : String) (st : Style) (rest : List Item) (T : List Tok) :
    scanAttrList k (sep st rest ++ T) = scanAttrList k T := by
  cases rest with
  | nil => cases ht : st.trailing <;> simp [sep, comma, ht]
  | cons j r => simp [sep, comma]

theorem lookupList_head_ne (k : String) (i : Item) (rest : List Item) (h : i.head ≠ k) :
    lookupList k (i :: rest) = lookupList k rest := by
  cases i <;> simp_all [lookupList, Item.head]

/-- the list scanner stays on item boundaries for *every* item list (no side condition) -/
theorem scanAttrList_render (st : Style) (k : String) (items : List Item) :
    scanAttrList k (render st items) = resOfOpt (lookupList k items) := by
  induction items with
  | nil => simp [render, lookupList, resOfOpt]
  | cons i rest ih =>
    by_cases hk : i.head = k
    · cases i with
      | kv k' v =>
        simp only [Item.head] at hk
        subst hk
        simp only [render, renderItem, Item.head, Item.body, List.cons_append, List.nil_append,
          scanAttrList_key_punct, scanAttrList_lit, scanAttrList_sep, ih, lookupList]
      | flag f =>
        simp only [Item.head] at hk
        subst hk
        cases rest with
        | nil => cases ht : st.trailing <;> simp [render, renderItem, Item.head, Item.body, sep, comma, lookupList, resOfOpt, ht]
        | cons j rest' =>
          have e : render st (Item.flag f :: j :: rest') = .ident f :: .punct ',' :: render st (j :: rest') := by
            simp [render, renderItem, Item.head, Item.body, sep, comma]
          rw [e, scanAttrList_key_punct, ih]; simp [lookupList]
      | listAttr k' vs =>
        simp only [Item.head] at hk
        subst hk
        simp [render, renderItem, Item.head, Item.body, groupLits_renderVals, lookupList, resOfOpt]
    · simp only [render, renderItem, List.cons_append]
      rw [scanAttrList_ident_ne _ _ _ hk, scanAttrList_body, scanAttrList_sep, ih, lookupList_head_ne _ _ _ hk]

/-! ### lookups versus membership -/

theorem lookupKv_mem (k v : String) (items : List Item) (h : lookupKv k items = some v) : Item.kv k v ∈ items := by
  induction items with
  | nil => simp [lookupKv] at h
  | cons i rest ih =>
    cases i with
    | kv k' v' =>
      by_cases hk : k' = k
      · subst hk; simp [lookupKv] at h; simp [h]
      · simp [lookupKv, hk] at h; simp [ih h]
    | flag f => simp [lookupKv] at h; simp [ih h]
    | listAttr k' vs => simp [lookupKv] at h; simp [ih h]

theorem mem_head (i : Item) (items : List Item) (h : i ∈ items) : i.head ∈ items.map Item.head :=
  List.mem_map_of_mem h

theorem lookupKv_of_mem (k v : String) (items : List Item) (wf : WfItems items) (h : Item.kv k v ∈ items) :
    lookupKv k items = some v := by
  induction items with
  | nil => simp at h
  | cons i rest ih =>
    have wf' : WfItems rest := by unfold WfItems at wf ⊢; exact (List.nodup_cons.mp wf).2
    have hn : i.head ∉ rest.map Item.head := by unfold WfItems at wf; exact (List.nodup_cons.mp wf).1
    rcases List.mem_cons.mp h with e | hr
    · subst e; simp [lookupKv]
    · have hk : i.head ≠ k := fun e => hn (e ▸ mem_head _ _ hr)
      rw [lookupKv_head_ne _ _ _ hk]; exact ih wf' hr

theorem lookupList_mem (k : String) (vs : List String) (items : List Item) (h : lookupList k items = some vs) :
    Item.listAttr k vs ∈ items := by
  induction items with
  | nil => simp [lookupList] at h
  | cons i rest ih =>
    cases i with
    | listAttr k' vs' =>
      by_cases hk : k' = k
      · subst hk; simp [lookupList] at h; simp [h]
      · simp [lookupList, hk] at h; simp [ih h]
    | flag f => simp [lookupList] at h; simp [ih h]
    | kv k' v => simp [lookupList] at h; simp [ih h]

theorem lookupList_of_mem (k : String) (vs : List String) (items : List Item) (wf : WfItems items)
    (h : Item.listAttr k vs ∈ items) : lookupList k items = some vs := by
  induction items with
  | nil => simp at h
  | cons i rest ih =>
    have wf' : WfItems rest := by unfold WfItems at wf ⊢; exact (List.nodup_cons.mp wf).2
    have hn : i.head ∉ rest.map Item.head := by unfold WfItems at wf; exact (List.nodup_cons.mp wf).1
    rcases List.mem_cons.mp h with e | hr
    · subst e; simp [lookupList]
    · have hk : i.head ≠ k := fun e => hn (e ▸ mem_head _ _ hr)
      rw [lookupList_head_ne _ _ _ hk]; exact ih wf' hr

theorem noFlagThenKv_of_wf (k : String) : ∀ items, WfItems items → NoFlagThenKv k items = true
  | [], _ => rfl
  | [i], _ => by cases i <;> simp [NoFlagThenKv]
  | i :: j :: rest, wf => by
    have wf' : WfItems (j :: rest) := by unfold WfItems at wf ⊢; exact (List.nodup_cons.mp wf).2
    have hne : i.head ≠ j.head := by
      unfold WfItems at wf
      have := (List.nodup_cons.mp wf).1
      intro e; apply this; simp [e]
    have ih := noFlagThenKv_of_wf k (j :: rest) wf'
    cases i <;> cases j <;> simp_all [NoFlagThenKv, Item.head]
    rename_i f k' v
    by_cases e1 : f = k
    · right; intro e2; exact hne (e1.trans e2.symm)
    · left; exact e1

theorem noFlagThenKv_of_absent (k : String) : ∀ items, (∀ v, Item.kv k v ∉ items) → NoFlagThenKv k items = true
  | [], _ => rfl
  | [i], _ => by cases i <;> simp [NoFlagThenKv]
  | i :: j :: rest, h => by
    have ih := noFlagThenKv_of_absent k (j :: rest) (fun v hm => h v (List.mem_cons_of_mem _ hm))
    cases i <;> cases j <;> simp_all [NoFlagThenKv]
    rename_i f k' v
    right; intro e; exact (h v).1 e.symm rfl

theorem lookupKv_none_of_absent (k : String) (items : List Item) (h : ∀ v, Item.kv k v ∉ items) :
    lookupKv k items = none := by
  cases e : lookupKv k items with
  | none => rfl
  | some v => exact absurd (lookupKv_mem k v items e) (h v)

/-! ### the `DeriveInput` level -/

theorem findGraphql_first (pre post : List Attribute) (a : Attribute) (ha : a.path = "graphql")
    (hpre : ∀ b ∈ pre, b.path ≠ "graphql") : findGraphql (pre ++ a :: post) = some a := by
  induction pre with
  | nil => simp [findGraphql, ha]
  | cons b pre ih =>
    have hb : b.path ≠ "graphql" := hpre b (by simp)
    have := ih (fun c hc => hpre c (by simp [hc]))
    simp only [List.cons_append, findGraphql, hb, if_false]
    exact this

theorem findGraphql_mkInput (pre post : List Attribute) (st : Style) (items : List Item)
    (hpre : ∀ a ∈ pre, a.path ≠ "graphql") :
    findGraphql (mkInput pre st items post) = some { path := "graphql", tokens := some (render st items) } := by
  induction pre with
  | nil => simp [mkInput, findGraphql]
  | cons a pre ih =>
    have ha : a.path ≠ "graphql" := hpre a (by simp)
    have := ih (fun b hb => hpre b (by simp [hb]))
    simp only [mkInput, List.cons_append, findGraphql, ha, if_false] at this ⊢
    exact this

/-! ### side conditions and field lemmas of the option building -/

def NoGraphql (pre : List Attribute) : Prop := ∀ a ∈ pre, a.path ≠ "graphql"

instance (pre : List Attribute) : Decidable (NoGraphql pre) := by unfold NoGraphql; infer_instance

def NotKey (f : String) (items : List Item) : Prop := ∀ i ∈ items, i.head = f → i = Item.flag f

instance (f : String) (items : List Item) : Decidable (NotKey f items) := by unfold NotKey; infer_instance

theorem derive_congr (dir : Option String) (pathOk : String → Bool) (a b : Input)
    (h1 : ∀ k, extractAttr a k = extractAttr b k) (h2 : ∀ f, identExists a f = identExists b f)
    (h3 : ∀ k, extractAttrList a k = extractAttrList b k) : derive dir pathOk a = derive dir pathOk b := by
  simp only [derive, buildPaths, buildOptions, extractDeprecationStrategy, extractNormalization,
    extractFragmentsOtherVariant, extractSkipSerializingNone, h1, h2, h3]

@[simp] theorem toOption_resOfOpt {α : Type} (o : Option α) : toOption (resOfOpt o) = o := by
  cases o <;> rfl

theorem parseDeprecation_eq_spec (s : String) : parseDeprecation s = specDeprecation s := by
  simp only [parseDeprecation, specDeprecation, List.lookup]
  repeat' split
  all_goals simp_all

theorem parseNormalization_eq_spec (s : String) : parseNormalization s = specNormalization s := by
  simp only [parseNormalization, specNormalization, List.lookup]
  repeat' split
  all_goals simp_all

theorem pathJoin_relative (dir p : List Char) (hd : dir ≠ []) (hs : dir.getLast? ≠ some '/')
    (hp : p.head? ≠ some '/') : pathJoin dir p = dir ++ '/' :: p := by
  unfold pathJoin
  split
  · simp at hp
  · cases h : dir.getLast? with
    | none => simp [List.getLast?_eq_none_iff] at h; exact absurd h hd
    | some c =>
      have : c ≠ '/' := fun e => hs (by rw [h, e])
      simp [this]

def DirOk (d : String) : Prop := d.toList ≠ [] ∧ d.toList.getLast? ≠ some '/'
def Relative (p : String) : Prop := p.toList.head? ≠ some '/'
instance (d : String) : Decidable (DirOk d) := by unfold DirOk; infer_instance
instance (p : String) : Decidable (Relative p) := by unfold Relative; infer_instance

theorem buildOptions_defaults (pathOk : String → Bool) (input : Input) (q : List Char) (o : Options)
    (e1 : extractAttr input "deprecated" = .error .notFound)
    (e2 : extractAttr input "normalization" = .error .notFound)
    (e3 : extractAttr input "fragments_other_variant" = .error .notFound)
    (e4 : identExists input "skip_serializing_none" = .error .notFound)
    (h : buildOptions pathOk input q = .ok o) :
    o.effectiveDeprecation = .warn ∧ o.normalization = .none ∧
    o.fragmentsOtherVariant = false ∧ o.skipSerializingNone = false := by
  simp only [buildOptions, extractDeprecationStrategy, extractNormalization,
    extractFragmentsOtherVariant, extractSkipSerializingNone, e1, e2, e3, e4, toOption] at h
  cases hc : extractAttr input "custom_scalars_module" with
  | error e =>
    simp only [hc] at h
    injection h with h; subst h; simp [Options.effectiveDeprecation, Options.new]
  | ok m =>
    simp only [hc] at h
    cases hp : pathOk m
    · simp [hp] at h
    · simp only [hp, if_true] at h
      injection h with h; subst h; simp [Options.effectiveDeprecation, Options.new]

@[simp] theorem resOfOpt_some {α : Type} (v : α) : resOfOpt (some v) = .ok v := rfl
@[simp] theorem resOfOpt_none {α : Type} : (resOfOpt (none : Option α)) = .error .notFound := rfl

theorem fov_eq (input : Input) (o : Option String)
    (h : extractAttr input "fragments_other_variant" = resOfOpt o) :
    extractFragmentsOtherVariant input = decide (o = some "true") := by
  unfold extractFragmentsOtherVariant; rw [h]
  cases o with
  | none => simp
  | some v =>
    by_cases h1 : v = "true"
    · simp [parseBool, h1]
    · by_cases h2 : v = "false" <;> simp [parseBool, h1, h2]

theorem skip_eq (input : Input) (b : Bool)
    (h : identExists input "skip_serializing_none" = if b then .ok () else .error .notFound) :
    extractSkipSerializingNone input = b := by
  unfold extractSkipSerializingNone; rw [h]; cases b <;> simp

theorem depr_eq (input : Input) (o : Option String) (h : extractAttr input "deprecated" = resOfOpt o) :
    toOption (extractDeprecationStrategy input) = o.bind specDeprecation := by
  unfold extractDeprecationStrategy; rw [h]
  cases o with
  | none => simp [toOption]
  | some v => simp only [resOfOpt_some, parseDeprecation_eq_spec, Option.bind_some]; cases specDeprecation v <;> simp [toOption]

theorem norm_eq (input : Input) (o : Option String) (h : extractAttr input "normalization" = resOfOpt o) :
    toOption (extractNormalization input) = o.bind specNormalization := by
  unfold extractNormalization; rw [h]
  cases o with
  | none => simp [toOption]
  | some v => simp only [resOfOpt_some, parseNormalization_eq_spec, Option.bind_some]; cases specNormalization v <;> simp [toOption]

theorem hasFlag_eq_head (f : String) (items : List Item) (nk : NotKey f items) :
    (items.map Item.head).contains f = hasFlag f items := by
  unfold hasFlag
  rw [Bool.eq_iff_iff]
  simp only [List.contains_iff_mem, List.mem_map]
  constructor
  · rintro ⟨i, hi, e⟩; exact nk i hi e ▸ hi
  · intro h; exact ⟨_, h, rfl⟩


end C18
end GqlVerif
