import GqlVerif.Proofs.C01DenyFrag
/-!
# P33 (4/4, continued) — `FragOpD`: acceptance and losslessness for payloads conforming to the operation AS WRITTEN

`C01DenyFrag` reduces acceptance / losslessness to: *the erasure `eraseDeniedF c op j` (P26) of a payload conforming to
the operation as written conforms to the pruned operation in the pruned document*.  This file proves it:

* `conformsV_eq_conformsSel` — on object trees the specification with runtime types (`conformsV`, `C01AbstractA`) and
  the tree specification (`conformsSel`, `C01EndToEndA`) coincide;
* `strict_erase_sels_gen` — the tree lemma of part 2 for any entry list with the right lookups;
* `conformsV_eraseF` (mutual induction `eraseF_field` / `eraseF_sels`) — one object-level selection set: own kept
  fields, the kept fields of the bodies of the fragments spread in it, `__typename`;
* **`conformsOpF_erase`**, and with it **`fragD_accepts`**, **`fragD_lossless`** (erased form), **`fragD_roundtrip`**.

New side condition: `tnOkOpF c op` (decidable) — the analogue of `tnOkOp` (part 2): where `__typename` is selected in a
kept selection set (directly or through a fragment spread in it), no denied selection collected there is aliased
`__typename`.
-/
set_option linter.unusedSimpArgs false
set_option linter.unusedSectionVars false
set_option linter.unusedVariables false

namespace GqlVerif
namespace C01
namespace Deny
open Serde Spec C13 C03 Codegen C01.E2E C14G

/-! ## the two specifications coincide on object trees -/

mutual
  /-- fields of scalar / enum / existing object types and `__typename`, at every depth -/
  def objTree (s : Schema) : Sel → Bool
    | .field _ fid sub =>
      match s.fields[fid]? with
      | none => false
      | some sf =>
        match sf.ty.id with
        | .scalar _ => true
        | .enum _ => true
        | .object i => (s.objects[i]?).isSome && objTrees s sub
        | _ => false
    | .typename => true
    | _ => false
  def objTrees (s : Schema) : List Sel → Bool
    | [] => true
    | x :: xs => objTree s x && objTrees s xs
end

theorem objTrees_append {s : Schema} : ∀ {xs ys : List Sel},
    objTrees s (xs ++ ys) = true ↔ objTrees s xs = true ∧ objTrees s ys = true
  | [], ys => by simp [objTrees]
  | x :: xs, ys => by
    rw [List.cons_append, objTrees, objTrees, Bool.and_eq_true, Bool.and_eq_true, objTrees_append (xs := xs), and_assoc]

mutual
  theorem objTree_of_treeSelD (c : Ctx) : ∀ x : Sel, treeSelD c x = true →
      objTree c.s x = true ∧ objTrees c.s (pruneSel c x) = true
    | .field a fid sub => by
      intro h
      have IH := objTrees_of_treeSelsD c sub
      rw [treeSelD] at h
      rw [objTree]
      cases hsf : c.s.fields[fid]? with
      | none => simp [hsf] at h
      | some sf =>
        simp only [hsf, Bool.and_eq_true] at h ⊢
        cases hid : sf.ty.id with
        | scalar k =>
          refine ⟨rfl, ?_⟩
          by_cases hd : isDenied c sf = true
          · rw [pruneSel_denied hsf hd]; simp [objTrees]
          · rw [pruneSel_kept hsf (by simpa using hd)]; simp [objTrees, objTree, hsf, hid]
        | «enum» k =>
          refine ⟨rfl, ?_⟩
          by_cases hd : isDenied c sf = true
          · rw [pruneSel_denied hsf hd]; simp [objTrees]
          · rw [pruneSel_kept hsf (by simpa using hd)]; simp [objTrees, objTree, hsf, hid]
        | object i =>
          simp only [hid, Bool.and_eq_true] at h ⊢
          obtain ⟨h1, h2⟩ := IH h.2.1.2
          refine ⟨⟨h.2.1.1, h1⟩, ?_⟩
          by_cases hd : isDenied c sf = true
          · rw [pruneSel_denied hsf hd]; simp [objTrees]
          · rw [pruneSel_kept hsf (by simpa using hd)]; simp [objTrees, objTree, hsf, hid, h.2.1.1, h2]
        | interface k => simp [hid] at h
        | union k => simp [hid] at h
        | input k => simp [hid] at h
    | .spread _ => by intro h; simp [treeSelD] at h
    | .inline _ _ => by intro h; simp [treeSelD] at h
    | .typename => by intro _; rw [pruneSel_typename]; simp [objTree, objTrees]
  theorem objTrees_of_treeSelsD (c : Ctx) : ∀ xs : List Sel, treeSelsD c xs = true →
      objTrees c.s xs = true ∧ objTrees c.s (pruneSels c xs) = true
    | [] => by intro _; rw [pruneSels]; simp [objTrees]
    | x :: xs => by
      intro h
      obtain ⟨hx, hxs⟩ := treeSelsD_cons h
      obtain ⟨a1, a2⟩ := objTree_of_treeSelD c x hx
      obtain ⟨b1, b2⟩ := objTrees_of_treeSelsD c xs hxs
      rw [objTrees, pruneSels, a1, b1]
      exact ⟨rfl, objTrees_append.mpr ⟨a2, b2⟩⟩
end

theorem any_range_eq (P : Nat → Bool) (i : Nat) : ∀ n : Nat,
    (List.range n).any (fun r => (i == r) && P r) = (decide (i < n) && P i)
  | 0 => by simp
  | n + 1 => by
    rw [List.range_succ, List.any_append, any_range_eq P i n]
    by_cases h1 : i < n
    · have : i < n + 1 := by omega
      have hne : (i == n) = false := by simp; omega
      simp [h1, this, hne]
    · by_cases h2 : i = n
      · subst h2; simp
      · have : ¬ i < n + 1 := by omega
        have hne : (i == n) = false := by simpa using h2
        simp [h1, this, hne]

theorem conformsAt_object (s : Schema) (i : Nat) (sub : List Sel) (j : Json) :
    conformsAt s (.object i) sub j = (decide (i < s.objects.length) && conformsV s i sub j) := by
  unfold conformsAt
  have : (fun rt' => fragApplies s rt' (.object i) && conformsV s rt' sub j) =
      (fun r => (i == r) && conformsV s r sub j) := by
    funext r; simp [fragApplies]
  rw [this, any_range_eq]

theorem keysSelsV_objTrees (s : Schema) (rt : Nat) : ∀ xs : List Sel, objTrees s xs = true →
    keysSelsV s rt xs = respKeys s xs
  | [], _ => by simp [keysSelsV, respKeys]
  | x :: xs, h => by
    rw [objTrees, Bool.and_eq_true] at h
    rw [keysSelsV, keysSelsV_objTrees s rt xs h.2, respKeys_cons]
    congr 1
    cases x with
    | field a fid sub =>
      simp only [keysSelV, respKey]
      cases s.fields[fid]? <;> rfl
    | typename => rfl
    | inline t sub => simp [objTree] at h
    | spread g => simp [objTree] at h

theorem rtName_of {s : Schema} {i : Nat} {o : StoredObject} (h : s.objects[i]? = some o) : rtName s i = o.name := by
  simp [rtName, h]

theorem lt_of_getElem?_some {α} {l : List α} {i : Nat} {x : α} (h : l[i]? = some x) : i < l.length := by
  rcases Nat.lt_or_ge i l.length with h' | h'
  · exact h'
  · rw [List.getElem?_eq_none h'] at h; cases h

mutual
  theorem strictV_eq (s : Schema) : ∀ (a : Option String) (fid : Nat) (sub : List Sel) (v : Json),
      objTree s (.field a fid sub) = true → strictFieldV s (.field a fid sub) v = strictField s (.field a fid sub) v
    | a, fid, sub, v => by
      intro h
      have IH := conformsV_eq s sub
      rw [objTree] at h
      simp only [strictFieldV, strictField]
      cases hsf : s.fields[fid]? with
      | none => rfl
      | some sf =>
        simp only [hsf] at h ⊢
        cases hid : sf.ty.id with
        | scalar k => rfl
        | «enum» k => rfl
        | object i =>
          simp only [hid, Bool.and_eq_true] at h ⊢
          cases ho : s.objects[i]? with
          | none => simp [ho] at h
          | some o =>
            simp only []
            have hfun : conformsAt s (.object i) sub = conformsSel s o.name sub := by
              funext j
              rw [conformsAt_object, IH i j h.2, rtName_of ho]
              simp [lt_of_getElem?_some ho]
            rw [hfun]
        | interface k => simp [hid] at h
        | union k => simp [hid] at h
        | input k => simp [hid] at h
  theorem confSelsV_eq (s : Schema) : ∀ (xs : List Sel) (rt : Nat) (kvs : List (String × Json)),
      objTrees s xs = true → confSelsV s rt xs kvs = confSels s (rtName s rt) xs kvs
    | [], _, _, _ => by simp [confSelsV, confSels]
    | x :: xs, rt, kvs, h => by
      rw [objTrees, Bool.and_eq_true] at h
      rw [confSelsV, confSels, confSelsV_eq s xs rt kvs h.2]
      congr 1
      cases x with
      | field a fid sub =>
        rw [confSelV_field, confSel_field]
        cases hsf : s.fields[fid]? with
        | none => rfl
        | some sf =>
          simp only []
          cases Json.lookup (a.getD sf.name) kvs with
          | none => rfl
          | some v => exact strictV_eq s a fid sub v h.1
      | typename =>
        simp only [confSelV, confSel]
        cases Json.lookup "__typename" kvs with
        | none => rfl
        | some v => cases v <;> rfl
      | inline t sub => simp [objTree] at h
      | spread g => simp [objTree] at h
  /-- **on object trees the specification with runtime types is the tree specification** -/
  theorem conformsV_eq (s : Schema) : ∀ (xs : List Sel) (rt : Nat) (j : Json),
      objTrees s xs = true → conformsV s rt xs j = conformsSel s (rtName s rt) xs j
    | xs, rt, j, h => by
      cases j with
      | obj kvs =>
        simp only [conformsV, conformsSel]
        rw [keysSelsV_objTrees s rt xs h, confSelsV_eq s xs rt kvs h]
      | null => rfl
      | bool _ => rfl
      | int _ => rfl
      | num _ => rfl
      | str _ => rfl
      | arr _ => rfl
end

/-! ## the tree lemma of part 2, for any entry list with the right lookups -/

theorem strict_erase_sels_gen (c : Ctx) (tn : String) (kvs kvs' : List (String × Json)) : ∀ (xs : List Sel),
    treeSelsD c xs = true → tnOkSels c xs = true →
    (∀ x ∈ xs, ∀ k, keptKey c x = some k → Json.lookup k kvs' = (Json.lookup k kvs).map (eraseInSel c x)) →
    (hasTypename xs = true → ∀ n, Json.lookup "__typename" kvs = some (.str n) →
      Json.lookup "__typename" kvs' = some (.str n)) →
    confSels c.s tn xs kvs = true → confSels c.s tn (pruneSels c xs) kvs' = true
  | [], _, _, _, _, _ => by rw [pruneSels]; simp [confSels]
  | x :: xs, ht, htn, hlk, htk, h => by
    rw [confSels, Bool.and_eq_true] at h
    obtain ⟨hx, hxs⟩ := treeSelsD_cons ht
    rw [tnOkSels, Bool.and_eq_true] at htn
    have ih := strict_erase_sels_gen c tn kvs kvs' xs hxs htn.2 (fun y hy => hlk y (by simp [hy]))
      (fun hh => htk (by
        simp only [hasTypename, List.any_cons, Bool.or_eq_true] at hh ⊢
        exact .inr hh)) h.2
    rw [pruneSels, confSels_append, ih, Bool.and_true]
    cases x with
    | field a fid sub =>
      have hcx := h.1
      rw [confSel_field] at hcx
      cases hsf : c.s.fields[fid]? with
      | none => simp [hsf] at hcx
      | some sf =>
        by_cases hd : isDenied c sf = true
        · rw [pruneSel_denied hsf hd]; simp [confSels]
        · have hd' : isDenied c sf = false := by simpa using hd
          rw [pruneSel_kept hsf hd', confSels, confSels, Bool.and_true, confSel_field]
          simp only [hsf] at hcx ⊢
          rw [hlk (.field a fid sub) (by simp) _ (keptKey_of hsf hd')]
          cases hl : Json.lookup (a.getD sf.name) kvs with
          | none => simp [hl] at hcx
          | some v =>
            simp only [hl] at hcx
            simp only [Option.map_some]
            exact strict_erase_field c a fid sub v hx htn.1
              (fun sf' hsf' => by rw [hsf] at hsf'; cases hsf'; exact hd') hcx
    | spread g => simp [confSel] at h
    | inline t sub => simp [confSel] at h
    | typename =>
      rw [pruneSel_typename, confSels, confSels, Bool.and_true]
      have hcx := h.1
      simp only [confSel] at hcx ⊢
      cases hl : Json.lookup "__typename" kvs with
      | none => simp [hl] at hcx
      | some v =>
        simp only [hl] at hcx
        cases v with
        | str n =>
          rw [htk (by simp [hasTypename]) n hl]
          exact hcx
        | null => simp at hcx
        | bool _ => simp at hcx
        | int _ => simp at hcx
        | num _ => simp at hcx
        | arr _ => simp at hcx
        | obj _ => simp at hcx

/-! ## the eraser of the fragment class: entries, lookups -/

/-- the entries of the erased object (fragment class) -/
def erasedKvsF (c : Ctx) (sels : List Sel) (kvs : List (String × Json)) : List (String × Json) :=
  (eraseKeys (dropKeysF c sels) kvs).map
    (fun kv => (kv.1, eraseEntryF c sels kv.1 (eraseFragEntry c (spreadFrags c sels) kv.1 kv.2)))

theorem eraseObjF_obj (c : Ctx) (sels : List Sel) (kvs : List (String × Json)) :
    eraseObjF c sels (.obj kvs) = .obj (erasedKvsF c sels kvs) := rfl

theorem objOnly_eraseObjF (c : Ctx) (sels : List Sel) : ObjOnly (eraseObjF c sels) :=
  ⟨rfl, fun j => by cases j <;> rfl, fun _ => rfl⟩

theorem erasedKvsF_keys (c : Ctx) (sels : List Sel) (kvs : List (String × Json)) :
    (erasedKvsF c sels kvs).map (·.1) = (kvs.map (·.1)).filter (fun k => !(dropKeysF c sels).contains k) := by
  simp only [erasedKvsF, eraseKeys, List.map_map]
  rw [List.filter_map]
  rfl

theorem eraseInSelF_str (c : Ctx) (x : Sel) (s : String) : eraseInSelF c x (.str s) = .str s := by
  cases x with
  | field a fid sub =>
    cases hsf : c.s.fields[fid]? with
    | none => simp [eraseInSelF, hsf]
    | some sf =>
      by_cases hobj : ∃ i, sf.ty.id = .object i
      · obtain ⟨i, hid⟩ := hobj
        rw [eraseInSelF_object hsf hid]
        exact thruQuals_str (objOnly_eraseObjF c sub) _ _
      · rw [eraseInSelF_leaf hsf (fun i h => hobj ⟨i, h⟩)]
  | inline t sub => simp [eraseInSelF]
  | spread g => simp [eraseInSelF]
  | typename => simp [eraseInSelF]

theorem eraseEntryF_str (c : Ctx) (k s : String) : ∀ sels : List Sel, eraseEntryF c sels k (.str s) = .str s
  | [] => by rw [eraseEntryF]
  | x :: xs => by
    rw [eraseEntryF]
    split
    · exact eraseInSelF_str c x s
    · exact eraseEntryF_str c k s xs

theorem eraseFragEntry_str (c : Ctx) (k s : String) : ∀ fs : List RFragment, eraseFragEntry c fs k (.str s) = .str s
  | [] => rfl
  | f :: fs => by rw [eraseFragEntry, eraseEntry_str, eraseFragEntry_str c k s fs]

theorem eraseEntryF_of_mem (c : Ctx) {x : Sel} {k : String} (hk : keptKey c x = some k) (v : Json) :
    ∀ {sels : List Sel}, x ∈ sels → (keptKeys c sels).Nodup → eraseEntryF c sels k v = eraseInSelF c x v
  | [], h, _ => by simp at h
  | y :: ys, h, hnd => by
    rw [eraseEntryF]
    simp only [keptKeys, List.filterMap_cons] at hnd
    by_cases hy : keptKey c y = some k
    · rw [if_pos hy]
      rcases List.mem_cons.mp h with rfl | h'
      · rfl
      · exfalso
        rw [hy, List.nodup_cons] at hnd
        exact hnd.1 (List.mem_filterMap.mpr ⟨x, h', hk⟩)
    · rw [if_neg hy]
      rcases List.mem_cons.mp h with rfl | h'
      · exact absurd hk hy
      · refine eraseEntryF_of_mem c hk v h' ?_
        unfold keptKeys
        cases hky : keptKey c y with
        | none => simpa [hky] using hnd
        | some k' => rw [hky, List.nodup_cons] at hnd; exact hnd.2

/-! ## the side condition on `__typename` (fragment class) -/

/-- a selection set that selects `__typename` — directly or through a fragment spread in it — does not erase that key -/
def tnHereF (c : Ctx) (sels : List Sel) : Bool :=
  !(hasTypename sels || (spreadFrags c sels).any (fun f => hasTypename f.sels)) ||
    !(dropKeysF c sels).contains "__typename"

/-- the bodies of the fragments spread here satisfy the tree condition of part 2 below their top level -/
def fragsTnOk (c : Ctx) (sels : List Sel) : Bool := (spreadFrags c sels).all (fun f => tnOkSels c f.sels)

mutual
  def tnOkSelF (c : Ctx) : Sel → Bool
    | .field _ fid sub =>
      match c.s.fields[fid]? with
      | some sf => isDenied c sf || (tnHereF c sub && fragsTnOk c sub && tnOkSelsF c sub)
      | none => true
    | _ => true
  def tnOkSelsF (c : Ctx) : List Sel → Bool
    | [] => true
    | x :: xs => tnOkSelF c x && tnOkSelsF c xs
end

/-- **side condition** (decidable) -/
def tnOkOpF (c : Ctx) (op : ROperation) : Bool := tnHereF c op.sels && fragsTnOk c op.sels && tnOkSelsF c op.sels

/-- what the descent needs at one object-level selection set on the object type `rt` -/
structure LevelF (c : Ctx) (rt : Nat) (sels : List Sel) : Prop where
  coll : EnumSpec.nodup (collectedKept c sels) = true
  tn : (hasTypename sels = true ∨ ∃ f ∈ spreadFrags c sels, hasTypename f.sels = true) → "__typename" ∉ dropKeysF c sels
  frag : ∀ g, Sel.spread g ∈ sels → ∃ f, c.q.fragments[g]? = some f ∧ f.on = .object rt ∧ treeSelsD c f.sels = true ∧
    EnumSpec.nodup (keptKeys c f.sels) = true ∧ tnOkSels c f.sels = true
  noInline : ∀ t sub, Sel.inline t sub ∉ sels

theorem levelF_of {c : Ctx} {rt : Nat} {sels : List Sel} (hfs : fSelsD c (.object rt) sels = true)
    (hcoll : EnumSpec.nodup (collectedKept c sels) = true) (htn : tnHereF c sels = true)
    (hfr : fragsTnOk c sels = true) : LevelF c rt sels := by
  refine ⟨hcoll, fun h => ?_, fun g hg => ?_, fun t sub hm => ?_⟩
  · simp only [tnHereF, Bool.or_eq_true, Bool.not_eq_true', Bool.or_eq_false_iff, List.any_eq_false,
      List.contains_eq_mem, decide_eq_false_iff_not] at htn
    rcases htn with htn | htn
    · rcases h with h | ⟨f, hf, h⟩
      · rw [htn.1] at h; cases h
      · have := htn.2 f hf
        rw [h] at this; exact absurd rfl this
    · exact htn
  · have hx := fSelD_of_mem hfs hg
    have hok : fragOkD c (.object rt) g = true := by simpa [fSelD] using hx
    obtain ⟨f, hf, hon, _, hv, hk⟩ := fragOkD_parts hok
    refine ⟨f, hf, hon, hv, hk, ?_⟩
    simp only [fragsTnOk, List.all_eq_true] at hfr
    exact hfr f (mem_spreadFrags.mpr ⟨g, hg, hf⟩)
  · have := fSelD_of_mem hfs hm
    simp [fSelD] at this

section Lookups
variable {c : Ctx} {rt : Nat} {sels : List Sel} (L : LevelF c rt sels)
include L

theorem collected_not_drop {k : String} (h : k ∈ collectedKept c sels) : k ∉ dropKeysF c sels := by
  simp only [dropKeysF, List.mem_filter, Bool.not_eq_true', List.contains_eq_mem, decide_eq_false_iff_not, not_and,
    Decidable.not_not]
  exact fun _ => h

/-- the lookup of an own kept key in the erased object -/
theorem lookupF_own {x : Sel} {k : String} (hx : x ∈ sels) (hk : keptKey c x = some k) (kvs : List (String × Json)) :
    Json.lookup k (erasedKvsF c sels kvs) = (Json.lookup k kvs).map (eraseInSelF c x) := by
  obtain ⟨h1, _, h3⟩ := collected_nodup_parts L.coll
  have hkept : k ∈ keptKeys c sels := List.mem_filterMap.mpr ⟨x, hx, hk⟩
  unfold erasedKvsF
  refine Eq.trans (lookup_erased (dropKeysF c sels) (fun key v => eraseEntryF c sels key (eraseFragEntry c (spreadFrags c sels) key v)) k
    (collected_not_drop L (by simp [collectedKept, hkept])) kvs) ?_
  cases Json.lookup k kvs with
  | none => rfl
  | some v =>
    simp only [Option.map_some]
    rw [eraseFragEntry_not_kept c _ k v (fun f hf => h3 k hkept f hf), eraseEntryF_of_mem c hk v hx h1]

/-- the lookup of a kept key of the body of a fragment spread here -/
theorem lookupF_frag {f : RFragment} (hf : f ∈ spreadFrags c sels) (hfk : (keptKeys c f.sels).Nodup)
    {y : Sel} {k : String} (hy : y ∈ f.sels) (hk : keptKey c y = some k) (kvs : List (String × Json)) :
    Json.lookup k (erasedKvsF c sels kvs) = (Json.lookup k kvs).map (eraseInSel c y) := by
  obtain ⟨_, h2, h3⟩ := collected_nodup_parts L.coll
  have hkf : k ∈ keptKeys c f.sels := List.mem_filterMap.mpr ⟨y, hy, hk⟩
  have hcoll : k ∈ collectedKept c sels := by
    simp only [collectedKept, List.mem_append, List.mem_flatMap]
    exact .inr ⟨f, hf, hkf⟩
  have hnot : k ∉ keptKeys c sels := fun h => h3 k h f hf hkf
  unfold erasedKvsF
  refine Eq.trans (lookup_erased (dropKeysF c sels) (fun key v => eraseEntryF c sels key (eraseFragEntry c (spreadFrags c sels) key v)) k (collected_not_drop L hcoll) kvs) ?_
  cases Json.lookup k kvs with
  | none => rfl
  | some v =>
    simp only [Option.map_some]
    rw [eraseFragEntry_unique c h2 v hf hkf, eraseEntry_of_mem c hk v hy hfk, eraseEntryF_not_kept c sels k _ hnot]

/-- `__typename`, where it is selected, survives -/
theorem lookupF_tn (h : hasTypename sels = true ∨ ∃ f ∈ spreadFrags c sels, hasTypename f.sels = true)
    (kvs : List (String × Json)) (n : String) (hl : Json.lookup "__typename" kvs = some (.str n)) :
    Json.lookup "__typename" (erasedKvsF c sels kvs) = some (.str n) := by
  unfold erasedKvsF
  refine Eq.trans (lookup_erased (dropKeysF c sels) (fun key v => eraseEntryF c sels key (eraseFragEntry c (spreadFrags c sels) key v)) "__typename" (L.tn h) kvs) ?_
  rw [hl]
  simp only [Option.map_some, eraseFragEntry_str, eraseEntryF_str]

end Lookups

/-! ## the response keys of the expanded selection set -/

theorem expandSels_eq_map (q : Query) : ∀ sels : List Sel, expandSels q sels = sels.map (expandSel q)
  | [] => by rw [expandSels]; rfl
  | x :: xs => by rw [expandSels, expandSels_eq_map q xs]; rfl

theorem expandSels_append (q : Query) (xs ys : List Sel) :
    expandSels q (xs ++ ys) = expandSels q xs ++ expandSels q ys := by
  simp [expandSels_eq_map]

theorem keysSelsV_eq_flatMap (s : Schema) (rt : Nat) : ∀ sels : List Sel,
    keysSelsV s rt sels = sels.flatMap (keysSelV s rt)
  | [] => by rw [keysSelsV]; rfl
  | x :: xs => by rw [keysSelsV, keysSelsV_eq_flatMap s rt xs, List.flatMap_cons]

theorem confSelsV_append (s : Schema) (rt : Nat) (kvs : List (String × Json)) : ∀ xs ys : List Sel,
    confSelsV s rt (xs ++ ys) kvs = (confSelsV s rt xs kvs && confSelsV s rt ys kvs)
  | [], ys => by simp [confSelsV]
  | x :: xs, ys => by
    rw [List.cons_append, confSelsV, confSelsV, confSelsV_append s rt kvs xs ys, Bool.and_assoc]

theorem mem_keysV_expand {s : Schema} {q : Query} {rt : Nat} {sels : List Sel} {k : String} :
    k ∈ keysSelsV s rt (expandSels q sels) ↔ ∃ x ∈ sels, k ∈ keysSelV s rt (expandSel q x) := by
  rw [keysSelsV_eq_flatMap, expandSels_eq_map, List.mem_flatMap]
  constructor
  · rintro ⟨y, hy, hk⟩
    obtain ⟨x, hx, rfl⟩ := List.mem_map.mp hy
    exact ⟨x, hx, hk⟩
  · rintro ⟨x, hx, hk⟩
    exact ⟨_, List.mem_map_of_mem hx, hk⟩

theorem keysSelV_of_respKey {s : Schema} {q : Query} {rt : Nat} {x : Sel} {k : String} (h : respKey s x = some k) :
    k ∈ keysSelV s rt (expandSel q x) := by
  cases x with
  | field a fid sub =>
    simp only [respKey] at h
    simp only [expandSel, keysSelV]
    cases hsf : s.fields[fid]? with
    | none => simp [hsf] at h
    | some sf => simp only [hsf, Option.map_some, Option.some.injEq] at h; simp [h]
  | typename => simp only [respKey, Option.some.injEq] at h; simp [expandSel, keysSelV, h]
  | inline t sub => simp [respKey] at h
  | spread g => simp [respKey] at h

theorem keysV_expand_own {s : Schema} {q : Query} {rt : Nat} {sels : List Sel} {k : String}
    (h : k ∈ respKeys s sels) : k ∈ keysSelsV s rt (expandSels q sels) := by
  obtain ⟨x, hx, hkx⟩ := List.mem_filterMap.mp h
  exact mem_keysV_expand.mpr ⟨x, hx, keysSelV_of_respKey hkx⟩

theorem keysV_expand_frag {s : Schema} {q : Query} {rt : Nat} {sels : List Sel} {k : String} {g : Nat} {f : RFragment}
    (hg : Sel.spread g ∈ sels) (hf : q.fragments[g]? = some f) (ha : fragApplies s rt f.on = true)
    (hk : k ∈ keysSelsV s rt f.sels) : k ∈ keysSelsV s rt (expandSels q sels) :=
  mem_keysV_expand.mpr ⟨_, hg, by simp [expandSel, hf, keysSelV, ha, hk]⟩

theorem keysV_expand_elim {s : Schema} {q : Query} {rt : Nat} {sels : List Sel} {k : String}
    (hni : ∀ t sub, Sel.inline t sub ∉ sels) (h : k ∈ keysSelsV s rt (expandSels q sels)) :
    k ∈ respKeys s sels ∨ ∃ g f, Sel.spread g ∈ sels ∧ q.fragments[g]? = some f ∧ k ∈ keysSelsV s rt f.sels := by
  obtain ⟨x, hx, hk⟩ := mem_keysV_expand.mp h
  cases x with
  | field a fid sub =>
    left
    refine List.mem_filterMap.mpr ⟨_, hx, ?_⟩
    simp only [expandSel, keysSelV] at hk
    simp only [respKey]
    cases hsf : s.fields[fid]? with
    | none => simp [hsf] at hk
    | some sf => simp only [hsf, List.mem_singleton] at hk; simp [hk]
  | typename =>
    left
    refine List.mem_filterMap.mpr ⟨_, hx, ?_⟩
    simp only [expandSel, keysSelV, List.mem_singleton] at hk
    simp [respKey, hk]
  | inline t sub => exact absurd hx (hni t sub)
  | spread g =>
    right
    cases hf : q.fragments[g]? with
    | none => simp [expandSel, hf, keysSelV] at hk
    | some f =>
      simp only [expandSel, hf, keysSelV] at hk
      split at hk
      · exact ⟨g, f, hx, hf, hk⟩
      · simp at hk

theorem kept_in_prune {c : Ctx} {sels : List Sel} {k : String} (h : k ∈ keptKeys c sels) :
    k ∈ respKeys c.s (pruneSels c sels) := by
  obtain ⟨x, hx, hkx⟩ := List.mem_filterMap.mp h
  obtain ⟨a, fid, sub, sf, rfl, hsf, hden, rfl⟩ := keptKey_some hkx
  refine List.mem_filterMap.mpr ⟨.field a fid (pruneSels c sub), ?_, by simp [respKey, hsf]⟩
  exact mem_pruneSels.mpr ⟨_, hx, by rw [pruneSel_kept hsf hden]; simp⟩

theorem typename_in_prune {c : Ctx} {sels : List Sel} (h : Sel.typename ∈ sels) : Sel.typename ∈ pruneSels c sels :=
  mem_pruneSels.mpr ⟨_, h, by rw [pruneSel_typename]; simp⟩

theorem fragApplies_self (s : Schema) (rt : Nat) : fragApplies s rt (.object rt) = true := by simp [fragApplies]

/-- **a key of the payload that is not erased is a response key of the pruned (expanded) selection set** -/
theorem key_survives {c : Ctx} {rt : Nat} {sels : List Sel} (L : LevelF c rt sels) {k : String}
    (hk : k ∈ keysSelsV c.s rt (expandSels c.q sels)) (hnd : k ∉ dropKeysF c sels) :
    k ∈ keysSelsV c.s rt (expandSels (pruneCtx c).q (pruneSels c sels)) := by
  have viaFragKept : ∀ g f, Sel.spread g ∈ sels → c.q.fragments[g]? = some f → f.on = .object rt →
      treeSelsD c f.sels = true → ∀ k', k' ∈ respKeys c.s (pruneSels c f.sels) →
      k' ∈ keysSelsV c.s rt (expandSels (pruneCtx c).q (pruneSels c sels)) := by
    intro g f hg hf hon hv k' hk'
    refine keysV_expand_frag (f := pruneFrag c f) (mem_pruneSels_spread.mpr hg) (by rw [pruneCtx_frag, hf]; rfl)
      (by simp [pruneFrag, hon, fragApplies_self]) ?_
    simp only [pruneFrag]
    rw [keysSelsV_objTrees _ _ _ (objTrees_of_treeSelsD c _ hv).2]
    exact hk'
  have viaKept : k ∈ collectedKept c sels → k ∈ keysSelsV c.s rt (expandSels (pruneCtx c).q (pruneSels c sels)) := by
    intro h
    simp only [collectedKept, List.mem_append, List.mem_flatMap] at h
    rcases h with h | ⟨f, hf, h⟩
    · exact keysV_expand_own (kept_in_prune h)
    · obtain ⟨g, hg, hfr⟩ := mem_spreadFrags.mp hf
      obtain ⟨f0, hf0, hon, hv, _, _⟩ := L.frag g hg
      rw [hfr] at hf0; cases hf0
      exact viaFragKept g f hg hfr hon hv k (kept_in_prune h)
  have viaDenied : k ∈ collectedDenied c sels → k ∈ keysSelsV c.s rt (expandSels (pruneCtx c).q (pruneSels c sels)) := by
    intro h
    apply viaKept
    apply Classical.byContradiction
    intro hnk
    apply hnd
    simp only [dropKeysF, List.mem_filter, Bool.not_eq_true', List.contains_eq_mem, decide_eq_false_iff_not]
    exact ⟨h, hnk⟩
  -- a response key of a tree-shaped selection set: kept, denied or `__typename`
  have classify : ∀ (xs : List Sel), k ∈ respKeys c.s xs →
      k ∈ keptKeys c xs ∨ k ∈ deniedKeys c xs ∨ (k = "__typename" ∧ Sel.typename ∈ xs) := by
    intro xs h
    obtain ⟨x, hx, hkx⟩ := List.mem_filterMap.mp h
    cases x with
    | field a fid sub =>
      simp only [respKey] at hkx
      cases hsf : c.s.fields[fid]? with
      | none => simp [hsf] at hkx
      | some sf =>
        simp only [hsf, Option.map_some, Option.some.injEq] at hkx
        by_cases hden : isDenied c sf = true
        · exact .inr (.inl (List.mem_filterMap.mpr ⟨_, hx, by simp [deniedKey, hsf, hden, hkx]⟩))
        · exact .inl (List.mem_filterMap.mpr ⟨_, hx, by rw [keptKey_of hsf (by simpa using hden), hkx]⟩)
    | typename =>
      simp only [respKey, Option.some.injEq] at hkx
      exact .inr (.inr ⟨hkx.symm, hx⟩)
    | inline t sub => simp [respKey] at hkx
    | spread g => simp [respKey] at hkx
  rcases keysV_expand_elim L.noInline hk with h | ⟨g, f, hg, hf, h⟩
  · rcases classify sels h with h' | h' | ⟨hkeq, htn⟩
    · exact viaKept (by simp [collectedKept, h'])
    · exact viaDenied (by simp [collectedDenied, h'])
    · rw [hkeq]
      exact keysV_expand_own (List.mem_filterMap.mpr ⟨.typename, typename_in_prune htn, rfl⟩)
  · obtain ⟨f0, hf0, hon, hv, _, _⟩ := L.frag g hg
    rw [hf] at hf0; cases hf0
    rw [keysSelsV_objTrees _ _ _ (objTrees_of_treeSelsD c _ hv).1] at h
    have hfm : f ∈ spreadFrags c sels := mem_spreadFrags.mpr ⟨g, hg, hf⟩
    rcases classify f.sels h with h' | h' | ⟨hkeq, htn⟩
    · exact viaFragKept g f hg hf hon hv k (kept_in_prune h')
    · refine viaDenied ?_
      simp only [collectedDenied, List.mem_append, List.mem_flatMap]
      exact .inr ⟨f, hfm, h'⟩
    · rw [hkeq]
      exact viaFragKept g f hg hf hon hv _ (List.mem_filterMap.mpr ⟨.typename, typename_in_prune htn, rfl⟩)

/-! ## one object-level selection set -/

/-- the object level, from the entry level -/
theorem body_erase {c : Ctx} {rt : Nat} {sels : List Sel} (L : LevelF c rt sels)
    (H : ∀ kvs, confSelsV c.s rt (expandSels c.q sels) kvs = true →
      confSelsV c.s rt (expandSels (pruneCtx c).q (pruneSels c sels)) (erasedKvsF c sels kvs) = true)
    (w : Json) (hw : conformsV c.s rt (expandSels c.q sels) w = true) :
    conformsV c.s rt (expandSels (pruneCtx c).q (pruneSels c sels)) (eraseObjF c sels w) = true := by
  cases w with
  | obj kvs =>
    simp only [conformsV, Bool.and_eq_true] at hw
    obtain ⟨⟨hnd, hall⟩, hconf⟩ := hw
    rw [eraseObjF_obj]
    simp only [conformsV, Bool.and_eq_true]
    have hkeys := erasedKvsF_keys c sels kvs
    refine ⟨⟨?_, ?_⟩, H kvs hconf⟩
    · rw [hkeys]
      exact nodup_iff'.mpr ((nodup_iff'.mp hnd).filter _)
    · simp only [List.all_eq_true, List.contains_eq_mem, decide_eq_true_eq] at hall ⊢
      intro kv hkv
      have hk1 : kv.1 ∈ (erasedKvsF c sels kvs).map (·.1) := List.mem_map_of_mem hkv
      rw [hkeys, List.mem_filter] at hk1
      obtain ⟨hin, hnd'⟩ := hk1
      obtain ⟨kv0, hkv0, hkv0e⟩ := List.mem_map.mp hin
      have := hall kv0 hkv0
      rw [hkv0e] at this
      exact key_survives L this (by simpa using hnd')
  | null => simp [conformsV] at hw
  | bool _ => simp [conformsV] at hw
  | int _ => simp [conformsV] at hw
  | num _ => simp [conformsV] at hw
  | str _ => simp [conformsV] at hw
  | arr _ => simp [conformsV] at hw

mutual
  theorem eraseF_field (c : Ctx) : ∀ (a : Option String) (fid : Nat) (sub : List Sel) (v : Json) (p : TypeId),
      fSelD c p (.field a fid sub) = true → collOkSel c (.field a fid sub) = true →
      tnOkSelF c (.field a fid sub) = true → (∀ sf, c.s.fields[fid]? = some sf → isDenied c sf = false) →
      strictFieldV c.s (.field a fid (expandSels c.q sub)) v = true →
      strictFieldV c.s (.field a fid (expandSels (pruneCtx c).q (pruneSels c sub)))
        (eraseInSelF c (.field a fid sub) v) = true
    | a, fid, sub, v, p => by
      intro ht hco htn hden h
      have IH := eraseF_sels c sub
      cases hsf : c.s.fields[fid]? with
      | none => rw [fSelD] at ht; simp [hsf] at ht
      | some sf =>
        rcases fSelD_ty ht hsf with ⟨k, hid⟩ | ⟨k, hid⟩ | ⟨j, hid⟩
        · rw [eraseInSelF_leaf hsf (by simp [hid])]
          simp only [strictFieldV, hsf, hid] at h ⊢
          exact h
        · rw [eraseInSelF_leaf hsf (by simp [hid])]
          simp only [strictFieldV, hsf, hid] at h ⊢
          exact h
        · have hbody := (fSelD_object hsf hid ht).2
          have hfs := fSelsD_of_fBodyD hbody
          rw [collOkSel] at hco
          simp only [hsf, hid, Bool.and_eq_true] at hco
          rw [tnOkSelF] at htn
          simp only [hsf, hden sf hsf, Bool.false_or, Bool.and_eq_true] at htn
          have L := levelF_of hfs hco.1 htn.1.1 htn.1.2
          simp only [strictFieldV, hsf, hid] at h ⊢
          rw [eraseInSelF_object hsf hid]
          refine (accepts_thruQuals (objOnly_eraseObjF c sub) ?_ sf.ty.quals).2 v h
          intro w hw
          rw [conformsAt_object, Bool.and_eq_true] at hw ⊢
          exact ⟨hw.1, body_erase L (fun kvs hk => IH sub j kvs (fun x hx => hx) hfs hco.2 htn.2 L hk) w hw.2⟩
  theorem eraseF_sels (c : Ctx) : ∀ (xs sels : List Sel) (rt : Nat) (kvs : List (String × Json)),
      (∀ x ∈ xs, x ∈ sels) → fSelsD c (.object rt) xs = true → collOkSels c xs = true → tnOkSelsF c xs = true →
      LevelF c rt sels → confSelsV c.s rt (expandSels c.q xs) kvs = true →
      confSelsV c.s rt (expandSels (pruneCtx c).q (pruneSels c xs)) (erasedKvsF c sels kvs) = true
    | [], _, _, _, _, _, _, _, _, _ => by rw [pruneSels, expandSels]; simp [confSelsV]
    | x :: xs, sels, rt, kvs, hsub, ht, hco, htn, L, h => by
      rw [expandSels, confSelsV, Bool.and_eq_true] at h
      obtain ⟨hx, hxs⟩ := fSelsD_cons ht
      rw [collOkSels, Bool.and_eq_true] at hco
      rw [tnOkSelsF, Bool.and_eq_true] at htn
      have ih := eraseF_sels c xs sels rt kvs (fun y hy => hsub y (by simp [hy])) hxs hco.2 htn.2 L h.2
      have hxmem : x ∈ sels := hsub x (by simp)
      rw [pruneSels, expandSels_append, confSelsV_append, ih, Bool.and_true]
      cases x with
      | field a fid sub =>
        have hcx := h.1
        rw [expandSel, confSelV_field] at hcx
        cases hsf : c.s.fields[fid]? with
        | none => simp [hsf] at hcx
        | some sf =>
          by_cases hd : isDenied c sf = true
          · rw [pruneSel_denied hsf hd, expandSels]; simp [confSelsV]
          · have hd' : isDenied c sf = false := by simpa using hd
            rw [pruneSel_kept hsf hd', expandSels, expandSels, expandSel, confSelsV, confSelsV, Bool.and_true,
              confSelV_field]
            simp only [hsf] at hcx ⊢
            rw [lookupF_own L hxmem (keptKey_of hsf hd')]
            cases hl : Json.lookup (a.getD sf.name) kvs with
            | none => simp [hl] at hcx
            | some v =>
              simp only [hl] at hcx
              simp only [Option.map_some]
              exact eraseF_field c a fid sub v _ hx hco.1 htn.1
                (fun sf' hsf' => by rw [hsf] at hsf'; cases hsf'; exact hd') hcx
      | spread g =>
        obtain ⟨f, hf, hon, hv, hk, hft⟩ := L.frag g hxmem
        have hfm : f ∈ spreadFrags c sels := mem_spreadFrags.mpr ⟨g, hxmem, hf⟩
        have hcx := h.1
        simp only [expandSel, hf, confSelV, hon, fragApplies_self, Bool.not_true, Bool.false_or] at hcx
        rw [confSelsV_eq c.s f.sels rt kvs (objTrees_of_treeSelsD c _ hv).1] at hcx
        have hgen := strict_erase_sels_gen c (rtName c.s rt) kvs (erasedKvsF c sels kvs) f.sels hv hft
          (fun y hy k hky => lookupF_frag L hfm (nodup_iff'.mp hk) hy hky kvs)
          (fun hh n hl => lookupF_tn L (.inr ⟨f, hfm, hh⟩) kvs n hl) hcx
        rw [← confSelsV_eq c.s _ rt _ (objTrees_of_treeSelsD c _ hv).2] at hgen
        have hf' : (pruneCtx c).q.fragments[g]? = some (pruneFrag c f) := by rw [pruneCtx_frag, hf]; rfl
        rw [pruneSel_spread, expandSels, expandSels, confSelsV, confSelsV, Bool.and_true]
        simp only [expandSel, hf', confSelV, pruneFrag, hon, fragApplies_self, Bool.not_true, Bool.false_or]
        exact hgen
      | inline t sub => simp [fSelD] at hx
      | typename =>
        rw [pruneSel_typename, expandSels, expandSels, expandSel, confSelsV, confSelsV, Bool.and_true]
        have hcx := h.1
        simp only [expandSel, confSelV] at hcx ⊢
        cases hl : Json.lookup "__typename" kvs with
        | none => simp [hl] at hcx
        | some v =>
          simp only [hl] at hcx
          cases v with
          | str n =>
            rw [lookupF_tn L (.inl (hasTypename_of_mem hxmem)) kvs n hl]
            exact hcx
          | null => simp at hcx
          | bool _ => simp at hcx
          | int _ => simp at hcx
          | num _ => simp at hcx
          | arr _ => simp at hcx
          | obj _ => simp at hcx
end

/-! ## end to end -/

/-- **the erasure of a payload conforming to the operation as written conforms to the pruned operation in the pruned
    document** -/
theorem conformsOpF_erase (c : Ctx) (op : ROperation) (ht : FragOpD c op = true) (hkD : FragKeysOkD c op = true)
    (htn : tnOkOpF c op = true) (j : Json) (hc : conformsOpF c op j = true) :
    conformsOpF (pruneCtx c) (pruneOp c op) (eraseDeniedF c op j) = true := by
  obtain ⟨_, hbody⟩ := fragOpD_parts ht
  obtain ⟨hcoll, hco⟩ := fragKeysOkD_parts hkD
  simp only [tnOkOpF, Bool.and_eq_true] at htn
  have hfs := fSelsD_of_fBodyD hbody
  have L := levelF_of hfs hcoll htn.1.1 htn.1.2
  exact body_erase L (fun kvs hk => eraseF_sels c op.sels op.sels op.objectId kvs (fun x hx => hx) hfs hco htn.2 L hk) j hc

/-- **`fragD_accepts` (C01 under `deny`, with fragment spreads).**  Every response that conforms to the operation AS
    WRITTEN (`conformsOpF`: spreads read as inline fragments, the denied fields' entries present) is accepted. -/
theorem fragD_accepts (c : Ctx) (opIdx : Nat) (op : ROperation) (items : List Item)
    (hop : c.q.operations[opIdx]? = some op) (ht : FragOpD c op = true) (hkD : FragKeysOkD c op = true)
    (hp : FragmentOp (pruneCtx c) (pruneOp c op) = true) (hk : fragKeysOk (pruneCtx c) (pruneOp c op) = true)
    (hl : loneOkOp c op = true) (htn : tnOkOpF c op = true)
    (hgen : responseForQuery c opIdx = .ok items) (hok : moduleOk c items = true)
    (j : Json) (hc : conformsOpF c op j = true) :
    ∃ v, Serde.de (moduleEnv c items) (.path "ResponseData") j = .ok v :=
  fragD_accepts_of_erased c opIdx op items hop ht hkD hp hk hl hgen hok j (conformsOpF_erase c op ht hkD htn j hc)

/-- **`fragD_lossless` (C01 under `deny`, with fragment spreads).**  … and written back as the canonical form
    (`canonSelF` of `fragment_lossless`, for the pruned operation in the pruned document) of the payload with the denied
    keys erased at every depth. -/
theorem fragD_lossless (c : Ctx) (opIdx : Nat) (op : ROperation) (items : List Item)
    (hop : c.q.operations[opIdx]? = some op) (ht : FragOpD c op = true) (hkD : FragKeysOkD c op = true)
    (hp : FragmentOp (pruneCtx c) (pruneOp c op) = true) (hk : fragKeysOk (pruneCtx c) (pruneOp c op) = true)
    (hr : fragRustOk (pruneCtx c) (pruneOp c op) = true) (hl : loneOkOp c op = true) (htn : tnOkOpF c op = true)
    (hgen : responseForQuery c opIdx = .ok items) (hok : moduleOk c items = true)
    (j : Json) (hc : conformsOpF c op j = true) (v : Val)
    (hd : Serde.de (moduleEnv c items) (.path "ResponseData") j = .ok v) :
    Serde.ser (moduleEnv c items) (.path "ResponseData") v =
      .ok (canonSelF c.s (pruneCtx c).q c.o.skipNone (pruneSels c op.sels) (eraseDeniedF c op j)) :=
  fragD_lossless_of_erased c opIdx op items hop ht hkD hp hk hr hl hgen hok j
    (conformsOpF_erase c op ht hkD htn j hc) v hd

/-- both in one statement -/
theorem fragD_roundtrip (c : Ctx) (opIdx : Nat) (op : ROperation) (items : List Item)
    (hop : c.q.operations[opIdx]? = some op) (ht : FragOpD c op = true) (hkD : FragKeysOkD c op = true)
    (hp : FragmentOp (pruneCtx c) (pruneOp c op) = true) (hk : fragKeysOk (pruneCtx c) (pruneOp c op) = true)
    (hr : fragRustOk (pruneCtx c) (pruneOp c op) = true) (hl : loneOkOp c op = true) (htn : tnOkOpF c op = true)
    (hgen : responseForQuery c opIdx = .ok items) (hok : moduleOk c items = true)
    (j : Json) (hc : conformsOpF c op j = true) :
    Serde.roundtrip (moduleEnv c items) (.path "ResponseData") j =
      .ok (canonSelF c.s (pruneCtx c).q c.o.skipNone (pruneSels c op.sels) (eraseDeniedF c op j)) := by
  obtain ⟨v, hv⟩ := fragD_accepts c opIdx op items hop ht hkD hp hk hl htn hgen hok j hc
  unfold Serde.roundtrip
  rw [hv]
  exact fragD_lossless c opIdx op items hop ht hkD hp hk hr hl htn hgen hok j hc v hv

end Deny
end C01
end GqlVerif
