import GqlVerif.Props.C04
import GqlVerif.Proofs.C02Response
/-!
# Composed C11 — the wire names of what the generator emits (reviewer finding 7)

`Props/C11.lean` proves `wire = GraphQL name` for a record literal / for one call of `renderField`.  Here the
same fact is stated on the model's own generator functions, for all contexts (schema, query, options, case
functions), no bound on sizes:

* `inputItem_struct_wires`, `inputItem_oneOf_wires`, `inputItem_wires`, `inputItems_wires` — `Codegen.inputItem`
  / `inputItems`: the wire names of the members of an emitted input struct / `@oneOf` enum are the schema's
  field names, in order;
* `variablesItems_wires` (no `≠ []` hypothesis), `variablesItems_shape` — `Codegen.variablesItems`: the
  `Variables` struct has one member per declared variable, wire name = variable name, in order; the
  `default_*` functions are named `default_<variable name>`, one per variable with a default, with the Rust
  type of that variable;
* `calcFields_wires` — the field loop of `calculate_selection` (`Codegen.calcFields`, which calls
  `renderField`): the wire names of the non-flatten members it emits are exactly the alias-or-field names of
  the field selections at hand that are not omitted by `deny`, in order (`ownWires`);
* `calcSelection_root_wires`, `responseData_wires`, `fragment_struct_wires` — composed through `renderType` /
  `calcSelection` / `responseItems` / `fragmentItems`: the struct named after the selection set (`ResponseData`,
  the fragment struct, every nested field struct) has exactly these wire names;
* `calc_wires_mem`, `responseItems_wires_mem`, `fragmentItems_wires_mem` — for EVERY struct item of the
  response side (including the per-variant structs, which merge several inline fragments): every non-flatten
  member's wire name is the alias-or-field name of a field selection occurring in the selection tree
  (`selsWires`);
* `calcVariantSels_wires`, `calcVariants_step_wires` — the per-variant structs, exactly: one iteration of the per-variant
  loop emits nothing, an alias, or the struct `<pfx>On<Variant>` whose own keys are those of the inline fragments on that
  variant, concatenated in order; `calcVariants_variant_wires` — the variants of a tagged enum carry the schema's type
  names on the wire, one per possible type, in order.
-/
namespace GqlVerif
namespace Composed
open Codegen C02

/-! ## generic `mapM` facts -/

theorem mapM_map_of {ε α β γ : Type} (f : α → Except ε β) (g : β → γ) (h : α → γ)
    (hf : ∀ a b, f a = .ok b → g b = h a) : ∀ (l : List α) (r : List β), l.mapM f = .ok r → r.map g = l.map h := by
  intro l
  induction l with
  | nil => intro r hr; simp [List.mapM_nil, pure, Except.pure] at hr; subst hr; rfl
  | cons a l ih =>
    intro r hr
    rw [List.mapM_cons] at hr
    obtain ⟨b, hb, hr⟩ := bind_ok hr
    obtain ⟨bs, hbs, hr⟩ := bind_ok hr
    simp only [pure, Except.pure, Except.ok.injEq] at hr
    subst hr
    simp [hf a b hb, ih bs hbs]

/-! ## 1. input objects -/

/-- wire names of the members of an item (struct fields, enum variants) -/
def memberWires : Item → List String
  | .struct _ _ _ fs => fs.map (·.wire)
  | .oneOf _ _ _ vs => vs.map (·.wire)
  | .tagged _ _ _ _ vs => vs.map (·.wire)
  | _ => []

/-- **input struct**: the members' wire names are the schema's input-field names, in order -/
theorem inputItem_struct_wires (c : Ctx) (i : StoredInput) (n : String) (d : List String) (sc : Option String)
    (fs : List RField) (h : inputItem c i = .ok (.struct n d sc fs)) :
    fs.map (·.wire) = i.fields.map (·.1) := by
  unfold inputItem at h
  split at h
  · obtain ⟨vs, _, h⟩ := bind_ok h
    simp [pure, Except.pure] at h
  · obtain ⟨fs', hfs, h⟩ := bind_ok h
    simp only [pure, Except.pure, Except.ok.injEq, Item.struct.injEq] at h
    obtain ⟨-, -, -, rfl⟩ := h
    refine mapM_map_of _ _ _ ?_ _ _ hfs
    rintro ⟨fname, ty⟩ b hb
    obtain ⟨t, _, hb⟩ := bind_ok hb
    simp only [pure, Except.pure, Except.ok.injEq] at hb
    subst hb
    exact C11.input_wire_is_graphql_name _ _ _ _

/-- **`@oneOf` enum**: the variants' wire names are the schema's input-field names, in order -/
theorem inputItem_oneOf_wires (c : Ctx) (i : StoredInput) (n : String) (d : List String) (sc : Option String)
    (vs : List RVariant) (h : inputItem c i = .ok (.oneOf n d sc vs)) :
    vs.map (·.wire) = i.fields.map (·.1) := by
  unfold inputItem at h
  split at h
  · obtain ⟨vs', hvs, h⟩ := bind_ok h
    simp only [pure, Except.pure, Except.ok.injEq, Item.oneOf.injEq] at h
    obtain ⟨-, -, -, rfl⟩ := h
    refine mapM_map_of _ _ _ ?_ _ _ hvs
    rintro ⟨fname, ty⟩ b hb
    obtain ⟨t, _, hb⟩ := bind_ok hb
    simp only [pure, Except.pure, Except.ok.injEq] at hb
    subst hb
    exact C11.oneof_wire_is_graphql_name _ _ _
  · obtain ⟨fs, _, h⟩ := bind_ok h
    simp [pure, Except.pure] at h

/-- what `inputItem` returns is a struct (not `@oneOf`) or a `oneOf` enum (`@oneOf`), and in both cases the
    members' wire names are the schema's field names -/
theorem inputItem_wires (c : Ctx) (i : StoredInput) (it : Item) (h : inputItem c i = .ok it) :
    memberWires it = i.fields.map (·.1) ∧
    ((i.isOneOf = true ∧ ∃ n d sc vs, it = .oneOf n d sc vs) ∨ (i.isOneOf = false ∧ ∃ n d sc fs, it = .struct n d sc fs)) := by
  have hshape : (i.isOneOf = true ∧ ∃ n d sc vs, it = .oneOf n d sc vs) ∨
      (i.isOneOf = false ∧ ∃ n d sc fs, it = .struct n d sc fs) := by
    unfold inputItem at h
    split at h
    · rename_i ho
      obtain ⟨vs, _, h⟩ := bind_ok h
      simp only [pure, Except.pure, Except.ok.injEq] at h
      exact .inl ⟨ho, _, _, _, vs, h.symm⟩
    · rename_i ho
      obtain ⟨fs, _, h⟩ := bind_ok h
      simp only [pure, Except.pure, Except.ok.injEq] at h
      exact .inr ⟨by simpa using ho, _, _, _, fs, h.symm⟩
  refine ⟨?_, hshape⟩
  rcases hshape with ⟨_, n, d, sc, vs, rfl⟩ | ⟨_, n, d, sc, fs, rfl⟩
  · exact inputItem_oneOf_wires c i n d sc vs h
  · exact inputItem_struct_wires c i n d sc fs h

/-- the input items of a module: each one is the item of a schema input object whose id is in the used set,
    with that input's field names on the wire -/
theorem inputItems_wires (c : Ctx) (u : UsedTypes) (items : List Item) (h : inputItems c u = .ok items) :
    ∀ it ∈ items, ∃ i k, c.s.inputs[k]? = some i ∧ (TypeId.input k) ∈ u.types ∧ inputItem c i = .ok it ∧
      memberWires it = i.fields.map (·.1) := by
  intro it hit
  unfold inputItems at h
  obtain ⟨⟨i, k⟩, hx, hfx⟩ := mapM_ok_mem h it hit
  simp only [List.mem_filter] at hx
  obtain ⟨hz, hu⟩ := hx
  have hk : c.s.inputs[k]? = some i := by
    have := List.mem_zipIdx hz
    simp only [Nat.zero_add] at this
    obtain ⟨_, _, h3⟩ := this
    simp only [Nat.sub_zero] at h3
    rw [h3]
    simp
  exact ⟨i, k, hk, by simpa using hu, hfx, (inputItem_wires c i it hfx).1⟩

/-! ## 2. variables -/

theorem filterMapM_spec {ε α β γ : Type} (f : α → Except ε (Option β)) (p : α → Bool) (g : β → γ) (h : α → γ)
    (hnone : ∀ a, f a = .ok none → p a = false)
    (hsome : ∀ a b, f a = .ok (some b) → p a = true ∧ g b = h a) :
    ∀ (l : List α) (r : List β), l.filterMapM f = .ok r → r.map g = (l.filter p).map h := by
  intro l
  induction l with
  | nil => intro r hr; simp [pure, Except.pure] at hr; subst hr; rfl
  | cons a l ih =>
    intro r hr
    rw [List.filterMapM_cons] at hr
    obtain ⟨o, ho, hr⟩ := bind_ok hr
    cases o with
    | none =>
      simp only [] at hr
      rw [List.filter_cons, hnone a ho]
      exact ih r hr
    | some b =>
      simp only [] at hr
      obtain ⟨bs, hbs, hr⟩ := bind_ok hr
      simp only [pure, Except.pure, Except.ok.injEq] at hr
      subst hr
      obtain ⟨hp, hg⟩ := hsome a b ho
      rw [List.filter_cons, hp]
      simp [hg, ih bs hbs]

theorem mapM_mapM_of {ε α β γ : Type} (f : α → Except ε β) (g : β → γ) (k : α → Except ε γ)
    (hf : ∀ a b, f a = .ok b → k a = .ok (g b)) :
    ∀ (l : List α) (r : List β), l.mapM f = .ok r → l.mapM k = .ok (r.map g) := by
  intro l
  induction l with
  | nil => intro r hr; simp [List.mapM_nil, pure, Except.pure] at hr; subst hr; rfl
  | cons a l ih =>
    intro r hr
    rw [List.mapM_cons] at hr
    obtain ⟨b, hb, hr⟩ := bind_ok hr
    obtain ⟨bs, hbs, hr⟩ := bind_ok hr
    simp only [pure, Except.pure, Except.ok.injEq] at hr
    subst hr
    rw [List.mapM_cons, hf a b hb, ih bs hbs]
    rfl

theorem filterMapM_mapM_of {ε α β γ : Type} (f : α → Except ε (Option β)) (p : α → Bool) (g : β → γ)
    (k : α → Except ε γ)
    (hnone : ∀ a, f a = .ok none → p a = false)
    (hsome : ∀ a b, f a = .ok (some b) → p a = true ∧ k a = .ok (g b)) :
    ∀ (l : List α) (r : List β), l.filterMapM f = .ok r → (l.filter p).mapM k = .ok (r.map g) := by
  intro l
  induction l with
  | nil => intro r hr; simp [pure, Except.pure] at hr; subst hr; rfl
  | cons a l ih =>
    intro r hr
    rw [List.filterMapM_cons] at hr
    obtain ⟨o, ho, hr⟩ := bind_ok hr
    cases o with
    | none =>
      simp only [] at hr
      rw [List.filter_cons, hnone a ho]
      exact ih r hr
    | some b =>
      simp only [] at hr
      obtain ⟨bs, hbs, hr⟩ := bind_ok hr
      simp only [pure, Except.pure, Except.ok.injEq] at hr
      subst hr
      obtain ⟨hp, hk⟩ := hsome a b ho
      rw [List.filter_cons, hp]
      simp only [↓reduceIte]
      rw [List.mapM_cons, hk, ih bs hbs]
      rfl

/-- the two shapes of `variablesItems`, completely: the unit struct when nothing is declared; otherwise the
    `Variables` struct — one member per declared variable, in order, the variable's GraphQL name on the wire, the
    Rust type `variableType` — followed by the `default_*` functions, one per variable that has a default value,
    in order, named `default_<GraphQL name>`, returning the variable's Rust type -/
theorem variablesItems_shape (c : Ctx) (op : Nat) (items : List Item) (h : variablesItems c op = .ok items) :
    (c.q.opVariables op = [] ∧ items = [.unitStruct "Variables" (allVariableDerives c.o) c.serdeCrate]) ∨
    (c.q.opVariables op ≠ [] ∧ ∃ fs dfl,
      items = [.struct "Variables" (allVariableDerives c.o) c.serdeCrate fs, .defaults dfl] ∧
      fs.map (·.wire) = (c.q.opVariables op).map (·.name) ∧
      (c.q.opVariables op).mapM (variableType c) = .ok (fs.map (·.ty)) ∧
      dfl.map (·.1) = ((c.q.opVariables op).filter (·.default.isSome)).map (fun v => "default_" ++ v.name) ∧
      ((c.q.opVariables op).filter (·.default.isSome)).mapM (variableType c) = .ok (dfl.map (·.2))) := by
  unfold variablesItems at h
  simp only [] at h
  split at h
  · rename_i hemp
    simp only [pure, Except.pure, Except.ok.injEq] at h
    exact .inl ⟨by simpa using hemp, h.symm⟩
  · rename_i hemp
    obtain ⟨fs, hfs, h⟩ := bind_ok h
    obtain ⟨dfl, hdfl, h⟩ := bind_ok h
    simp only [pure, Except.pure, Except.ok.injEq] at h
    refine .inr ⟨by simpa using hemp, fs, dfl, h.symm, ?_, ?_, ?_, ?_⟩
    · refine mapM_map_of _ _ _ ?_ _ _ hfs
      intro v b hb
      obtain ⟨t, _, hb⟩ := bind_ok hb
      simp only [pure, Except.pure, Except.ok.injEq] at hb
      subst hb
      exact C11.input_wire_is_graphql_name _ _ _ _
    · refine mapM_mapM_of _ _ _ ?_ _ _ hfs
      intro v b hb
      obtain ⟨t, ht, hb⟩ := bind_ok hb
      simp only [pure, Except.pure, Except.ok.injEq] at hb
      subst hb
      exact ht
    · refine filterMapM_spec _ _ _ _ ?_ ?_ _ _ hdfl
      · intro v hv
        cases hd : v.default with
        | none => rfl
        | some d =>
          simp only [hd] at hv
          obtain ⟨t, _, hv⟩ := bind_ok hv
          obtain ⟨_, _, hv⟩ := bind_ok hv
          simp [pure, Except.pure] at hv
      · intro v b hv
        cases hd : v.default with
        | none => simp [hd, pure, Except.pure] at hv
        | some d =>
          simp only [hd] at hv
          obtain ⟨t, _, hv⟩ := bind_ok hv
          obtain ⟨_, _, hv⟩ := bind_ok hv
          simp only [pure, Except.pure, Except.ok.injEq, Option.some.injEq] at hv
          subst hv
          exact ⟨rfl, rfl⟩
    · refine filterMapM_mapM_of _ _ _ _ ?_ ?_ _ _ hdfl
      · intro v hv
        cases hd : v.default with
        | none => rfl
        | some d =>
          simp only [hd] at hv
          obtain ⟨t, _, hv⟩ := bind_ok hv
          obtain ⟨_, _, hv⟩ := bind_ok hv
          simp [pure, Except.pure] at hv
      · intro v b hv
        cases hd : v.default with
        | none => simp [hd, pure, Except.pure] at hv
        | some d =>
          simp only [hd] at hv
          obtain ⟨t, ht, hv⟩ := bind_ok hv
          obtain ⟨_, _, hv⟩ := bind_ok hv
          simp only [pure, Except.pure, Except.ok.injEq, Option.some.injEq] at hv
          subst hv
          exact ⟨rfl, ht⟩

/-- **`Variables`**: one member per declared variable, in order, the GraphQL name on the wire
    (`C04.variables_fields_are_declared` without its `≠ []` hypothesis: when no variable is declared the item is the
    unit struct, which has no members) -/
theorem variablesItems_wires (c : Ctx) (op : Nat) (fs : List RField) (d : List String) (sc : Option String)
    (rest : List Item) (h : variablesItems c op = .ok (.struct "Variables" d sc fs :: rest)) :
    fs.map (·.wire) = (c.q.opVariables op).map (·.name) := by
  rcases variablesItems_shape c op _ h with ⟨_, h'⟩ | ⟨_, fs', dfl, h', hw, _⟩
  · simp at h'
  · simp only [List.cons.injEq, Item.struct.injEq] at h'
    obtain ⟨⟨-, -, -, rfl⟩, -⟩ := h'
    exact hw

/-- the `default_*` helper functions: named after the GraphQL variable names (not the Rust identifiers), one per
    variable that declares a default, in declaration order -/
theorem variablesItems_default_names (c : Ctx) (op : Nat) (first : Item) (dfl : List (String × RTy)) (rest : List Item)
    (h : variablesItems c op = .ok (first :: .defaults dfl :: rest)) :
    dfl.map (·.1) = ((c.q.opVariables op).filter (·.default.isSome)).map (fun v => "default_" ++ v.name) := by
  rcases variablesItems_shape c op _ h with ⟨_, h'⟩ | ⟨_, fs', dfl', h', _, _, hn, _⟩
  · simp at h'
  · simp only [List.cons.injEq, Item.defaults.injEq] at h'
    obtain ⟨-, rfl, -⟩ := h'
    exact hn

/-! ## 3. response structs -/

/-- everything `renderField` decides, in one statement: the result is `none` exactly for a deprecated field under
    `deny`; otherwise a member with the given Rust identifier and flatten flag whose wire name is the GraphQL
    name it was given (when it was given one) -/
theorem renderField_ok {c : Ctx} {g : Option String} {r ft : String} {quals : List Qual} {fl bx : Bool}
    {dep : Option (Option String)} {o : Option RField}
    (h : renderField c g r ft quals fl bx dep = .ok o) :
    (o = none ∧ dep.isSome = true ∧ c.o.deprecation = .deny) ∨
    (∃ f, o = some f ∧ ¬ (dep.isSome = true ∧ c.o.deprecation = .deny) ∧ f.rust = r ∧ f.flatten = fl ∧
      f.rename = g.bind (fun g => fieldRename g r)) := by
  unfold renderField at h
  obtain ⟨ty, _, h⟩ := bind_ok h
  simp only [] at h
  cases dep with
  | none =>
    cases hs : c.o.deprecation <;> simp only [pure, Except.pure, Except.ok.injEq] at h <;>
      exact .inr ⟨_, h.symm, by simp, rfl, rfl, rfl⟩
  | some m =>
    cases hs : c.o.deprecation <;> simp only [hs, pure, Except.pure, Except.ok.injEq] at h
    · exact .inr ⟨_, h.symm, by simp, rfl, rfl, rfl⟩
    · exact .inl ⟨h.symm, rfl, rfl⟩
    · exact .inr ⟨_, h.symm, by simp, rfl, rfl, rfl⟩

theorem wire_of_rename (g r : String) (f : RField) (hr : f.rust = r) (hn : f.rename = fieldRename g r) : f.wire = g := by
  unfold RField.wire fieldRename at *
  rw [hn, hr]
  by_cases hg : g = r <;> simp [hg]

/-- the non-flatten members of a member list, by wire name -/
def ownWiresOf (fs : List RField) : List String := (fs.filter (fun f => !f.flatten)).map (·.wire)

theorem ownWiresOf_append (a b : List RField) : ownWiresOf (a ++ b) = ownWiresOf a ++ ownWiresOf b := by
  simp [ownWiresOf, List.filter_append]

/-- is the field emitted?  (`deny` omits deprecated fields) -/
def emitted (c : Ctx) (sf : StoredField) : Bool := !(sf.deprecation.isSome && decide (c.o.deprecation = .deny))

/-- the response keys a selection list asks for at its own level and that the generated struct keeps:
    alias (or field name) of every field selection that `deny` does not omit, in order -/
def ownWires (c : Ctx) : List Sel → List String
  | [] => []
  | .field a fid _ :: rest =>
    (match c.s.fields[fid]? with
     | some sf => if emitted c sf then [a.getD sf.name] else []
     | none => []) ++ ownWires c rest
  | _ :: rest => ownWires c rest

/-- one call of `renderField` as made by the field loop: non-flatten, with a GraphQL name -/
theorem renderField_named_wires {c : Ctx} {g r ft : String} {quals : List Qual} {bx : Bool} {sf : StoredField}
    {o : Option RField} (h : renderField c (some g) r ft quals false bx sf.deprecation = .ok o) :
    ownWiresOf o.toList = if emitted c sf then [g] else [] := by
  rcases renderField_ok h with ⟨rfl, h1, h2⟩ | ⟨f, rfl, hn, hr, hfl, hren⟩
  · simp [ownWiresOf, emitted, h1, h2]
  · have he : emitted c sf = true := by
      unfold emitted
      cases h1 : sf.deprecation.isSome
      · rfl
      · by_cases h2 : c.o.deprecation = .deny
        · exact absurd ⟨h1, h2⟩ hn
        · simp [h2]
    simp only [he, ↓reduceIte, ownWiresOf, Option.toList_some, List.filter_cons, hfl, Bool.not_false, List.filter_nil,
      List.map_cons, List.map_nil, List.cons.injEq, and_true]
    exact wire_of_rename g r f hr (by simpa using hren)

/-- a flattened member (fragment spread) contributes no own key -/
theorem renderField_flat_wires {c : Ctx} {g : Option String} {r ft : String} {quals : List Qual} {bx : Bool}
    {dep : Option (Option String)} {o : Option RField}
    (h : renderField c g r ft quals true bx dep = .ok o) : ownWiresOf o.toList = [] := by
  rcases renderField_ok h with ⟨rfl, _, _⟩ | ⟨f, rfl, _, _, hfl, _⟩
  · rfl
  · simp [ownWiresOf, hfl]

/-- **the field loop of `calculate_selection`**: the wire names of the non-flatten members `calcFields` emits
    (through `renderField`) are exactly the aliases / field names of the emitted field selections, in order —
    for every context, fuel, prefix, parent type and selection list -/
theorem calcFields_wires (c : Ctx) : ∀ (sels : List Sel) (fuel : Nat) (pfx : String) (ty : TypeId)
    (fs : List RField) (items : List Item),
    calcFields c fuel pfx ty sels = .ok (fs, items) → ownWiresOf fs = ownWires c sels := by
  intro sels
  induction sels with
  | nil =>
    intro fuel pfx ty fs items h
    cases fuel with
    | zero => rw [calcFields.eq_1] at h; cases h
    | succ f =>
      rw [calcFields.eq_2 _ _ _ _ (by omega)] at h
      simp only [pure, Except.pure, Except.ok.injEq, Prod.mk.injEq] at h
      obtain ⟨rfl, -⟩ := h
      rfl
  | cons x rest ih =>
    intro fuel pfx ty fs items h
    cases fuel with
    | zero => rw [calcFields.eq_1] at h; cases h
    | succ f =>
      cases x with
      | field a fid sub =>
        obtain ⟨sf, fld, its, fs', items', hsf, hr, rfl, rfl, hstep⟩ := calcFields_field_ok h
        rw [ownWiresOf_append, ih _ _ _ _ _ hr]
        simp only [ownWires, hsf]
        congr 1
        rcases hstep with ⟨_, _, _, _, _, hrf⟩ | ⟨_, _, _, _, _, hrf⟩ | ⟨_, _, _, hrf, _⟩ <;>
          exact renderField_named_wires hrf
      | spread g =>
        obtain ⟨fr, fs', _, hr, hcase⟩ := calcFields_spread_ok h
        rcases hcase with ⟨_, rfl⟩ | ⟨_, fld, hfld, rfl⟩
        · simpa [ownWires] using ih _ _ _ _ _ hr
        · rw [ownWiresOf_append, renderField_flat_wires hfld, ih _ _ _ _ _ hr]
          simp [ownWires]
      | inline t sub =>
        rw [calcFields.eq_5 _ _ _ _ _ _ (by simp) (by simp)] at h
        simpa [ownWires] using ih _ _ _ _ _ h
      | typename =>
        rw [calcFields.eq_5 _ _ _ _ _ _ (by simp) (by simp)] at h
        simpa [ownWires] using ih _ _ _ _ _ h

/-- `renderType` adds at most the flattened `on` member: a struct it emits is named `name` and has the own
    keys of the member list it was given -/
theorem renderType_struct {c : Ctx} {name : String} {fs : List RField} {vs : List RVariant} {n : String}
    {d : List String} {sc : Option String} {fs' : List RField}
    (h : Item.struct n d sc fs' ∈ renderType c name fs vs) : n = name ∧ ownWiresOf fs' = ownWiresOf fs := by
  unfold renderType at h
  split at h
  · simp at h
  · split at h
    · simp only [List.mem_singleton, Item.struct.injEq] at h
      obtain ⟨rfl, -, -, rfl⟩ := h
      exact ⟨rfl, rfl⟩
    · simp only [List.mem_cons, Item.struct.injEq, List.not_mem_nil, or_false, reduceCtorEq] at h
      obtain ⟨rfl, -, -, rfl⟩ := h
      exact ⟨rfl, by simp [ownWiresOf]⟩

/-- **the struct of a selection set** (`calcSelection`, composed through `calcFields` and `renderType`): unless
    the selection set is a lone fragment spread (then the item is a type alias), the items start with the
    rendering of the type `name`; every struct in it is named `name` and its non-flatten members have exactly
    the wire names `ownWires c sels`.  This covers `ResponseData`, the fragment structs and the struct of
    every composite field. -/
theorem calcSelection_root_wires (c : Ctx) (fuel : Nat) (name pfx : String) (ty : TypeId) (sels : List Sel)
    (items : List Item) (hsp : ∀ g, sels ≠ [Sel.spread g])
    (h : calcSelection c fuel name pfx ty sels = .ok items) :
    ∃ rfields rvariants tail, items = renderType c name rfields rvariants ++ tail ∧
      ownWiresOf rfields = ownWires c sels ∧
      ∀ n d sc fs, Item.struct n d sc fs ∈ renderType c name rfields rvariants →
        n = name ∧ ownWiresOf fs = ownWires c sels := by
  cases fuel with
  | zero => rw [calcSelection.eq_1] at h; cases h
  | succ f =>
    obtain ⟨rv, vi, rf, fi, _, hfl, rfl⟩ := calcSelection_ok hsp h
    have hw := calcFields_wires c _ _ _ _ _ _ hfl
    refine ⟨rf, rv, vi ++ fi, by simp, hw, ?_⟩
    intro n d sc fs hm
    obtain ⟨h1, h2⟩ := renderType_struct hm
    exact ⟨h1, h2.trans hw⟩

/-- **`ResponseData`**: `responseItems` starts with the struct `ResponseData`, whose non-flatten members carry
    exactly the aliases / names of the operation's top-level field selections (minus those `deny` omits), in
    order; flattened members (fragment spreads on the root type) follow the same order -/
theorem responseData_wires (c : Ctx) (op : ROperation) (items : List Item)
    (hsp : ∀ g, op.sels ≠ [Sel.spread g]) (h : responseItems c op = .ok items) :
    ∃ fs tail, items = .struct "ResponseData" c.respDerives c.serdeCrate fs :: tail ∧
      ownWiresOf fs = ownWires c op.sels := by
  unfold responseItems at h
  cases hf : calcFuel c.s c.q with
  | zero => rw [hf, calcSelection.eq_1] at h; cases h
  | succ f =>
    rw [hf] at h
    obtain ⟨rv, vi, rf, fi, hvp, hfl, rfl⟩ := calcSelection_ok hsp h
    have hw := calcFields_wires c _ _ _ _ _ _ hfl
    rcases hvp with ⟨_, rfl, rfl⟩ | ⟨vts, _, _, hv, _⟩
    · refine ⟨rf, fi, ?_, hw⟩
      simp [renderType]
    · simp [variantsOf, pure, Except.pure] at hv

/-- lone spread at the root: `ResponseData` is a type alias of the fragment struct (no members of its own) -/
theorem responseData_alias (c : Ctx) (op : ROperation) (g : Nat) (items : List Item)
    (hsp : op.sels = [Sel.spread g]) (h : responseItems c op = .ok items) :
    ∃ fr, c.q.fragments[g]? = some fr ∧ items = [aliasItem "ResponseData" fr.name (fragmentIsRecursive c.q g)] := by
  unfold responseItems at h
  rw [hsp] at h
  cases hf : calcFuel c.s c.q with
  | zero => rw [hf, calcSelection.eq_1] at h; cases h
  | succ f => rw [hf] at h; exact calcSelection_single_ok h

/-- **fragment structs**: the items of fragment `g` start with the rendering of the type named after the fragment;
    every struct in it has that name and exactly the own keys of the fragment's selection list -/
theorem fragment_struct_wires (c : Ctx) (g : Nat) (fr : RFragment) (items : List Item)
    (hfr : c.q.fragments[g]? = some fr) (hsp : ∀ g', fr.sels ≠ [Sel.spread g'])
    (h : fragmentItems c g = .ok items) :
    ∃ rfields rvariants tail, items = renderType c fr.name rfields rvariants ++ tail ∧
      ownWiresOf rfields = ownWires c fr.sels ∧
      ∀ n d sc fs, Item.struct n d sc fs ∈ renderType c fr.name rfields rvariants →
        n = fr.name ∧ ownWiresOf fs = ownWires c fr.sels := by
  unfold fragmentItems at h
  obtain ⟨fr', hfr', h⟩ := bind_ok h
  have := getFragment_ok hfr'
  rw [hfr] at this
  cases this
  exact calcSelection_root_wires c _ _ _ _ _ _ hsp h

/-! ## 4. every struct of the response side: no foreign key -/

mutual
  /-- alias-or-field names of all field selections of a selection tree (through sub-selections and inline
      fragments; a fragment spread contributes nothing: its struct is emitted by `fragmentItems`) -/
  def selWires (c : Ctx) : Sel → List String
    | .field a fid sub => (match c.s.fields[fid]? with | some sf => [a.getD sf.name] | none => []) ++ selsWires c sub
    | .inline _ sub => selsWires c sub
    | _ => []
  def selsWires (c : Ctx) : List Sel → List String
    | [] => []
    | x :: xs => selWires c x ++ selsWires c xs
end

def vselWires (c : Ctx) : VariantSel → List String
  | .inline _ sub => selsWires c sub
  | .spread _ _ => []

def vselsWires (c : Ctx) (vs : List VariantSel) : List String := vs.flatMap (vselWires c)

/-- every non-flatten member of the item (if it is a struct) has its wire name in `W` -/
def WiresIn (W : List String) (it : Item) : Prop :=
  ∀ n d sc fs, it = .struct n d sc fs → ∀ f ∈ fs, f.flatten = false → f.wire ∈ W

theorem WiresIn.mono {W W' : List String} {it : Item} (h : WiresIn W it) (hs : ∀ w ∈ W, w ∈ W') : WiresIn W' it :=
  fun n d sc fs e f hf hfl => hs _ (h n d sc fs e f hf hfl)

theorem WiresIn.alias (W : List String) (n t : String) (b : Bool) : WiresIn W (aliasItem n t b) := by
  intro _ _ _ _ e; cases b <;> cases e

theorem mem_ownWiresOf {fs : List RField} {f : RField} (hf : f ∈ fs) (hfl : f.flatten = false) :
    f.wire ∈ ownWiresOf fs := by
  simp only [ownWiresOf, List.mem_map, List.mem_filter]
  exact ⟨f, ⟨hf, by simp [hfl]⟩, rfl⟩

theorem selWires_mem_of_mem (c : Ctx) {x : Sel} {sels : List Sel} (hx : x ∈ sels) :
    ∀ w ∈ selWires c x, w ∈ selsWires c sels := by
  induction sels with
  | nil => cases hx
  | cons y ys ih =>
    intro w hw
    simp only [selsWires, List.mem_append]
    rcases List.mem_cons.mp hx with rfl | hx
    · exact .inl hw
    · exact .inr (ih hx w hw)

theorem ownWires_sub_selsWires (c : Ctx) (sels : List Sel) : ∀ w ∈ ownWires c sels, w ∈ selsWires c sels := by
  induction sels with
  | nil => intro w hw; cases hw
  | cons x xs ih =>
    intro w hw
    cases x with
    | field a fid sub =>
      simp only [ownWires, List.mem_append] at hw
      simp only [selsWires, selWires, List.mem_append]
      rcases hw with hw | hw
      · refine .inl (.inl ?_)
        cases hf : c.s.fields[fid]? with
        | none => simp [hf] at hw
        | some sf =>
          simp only [hf] at hw ⊢
          split at hw
          · exact hw
          · cases hw
      · exact .inr (ih w hw)
    | inline t sub => simp only [ownWires] at hw; simp only [selsWires, List.mem_append]; exact .inr (ih w hw)
    | spread g => simp only [ownWires] at hw; simp only [selsWires, List.mem_append]; exact .inr (ih w hw)
    | typename => simp only [ownWires] at hw; simp only [selsWires, List.mem_append]; exact .inr (ih w hw)

theorem vselWires_mem_of_mem (c : Ctx) {x : VariantSel} {vs : List VariantSel} (hx : x ∈ vs) :
    ∀ w ∈ vselWires c x, w ∈ vselsWires c vs := by
  intro w hw
  simp only [vselsWires, List.mem_flatMap]
  exact ⟨x, hx, hw⟩

theorem vselsWires_cons (c : Ctx) (x : VariantSel) (vs : List VariantSel) :
    vselsWires c (x :: vs) = vselWires c x ++ vselsWires c vs := by
  simp [vselsWires]

/-- members made from aliased fragments are all flattened -/
theorem aliasMember_flat {c : Ctx} {n t : String} {b : Bool} {fs : List RField}
    (h : aliasMember c (aliasItem n t b) = .ok fs) : ∀ f ∈ fs, f.flatten = true := by
  rw [aliasMember_aliasItem] at h
  obtain ⟨fld, hfld, h⟩ := bind_ok h
  simp only [pure, Except.pure, Except.ok.injEq] at h
  subst h
  intro f hf
  rcases renderField_ok hfld with ⟨rfl, _, _⟩ | ⟨f', rfl, _, _, hfl, _⟩
  · cases hf
  · simp only [Option.toList_some, List.mem_singleton] at hf
    subst hf; exact hfl

theorem renderType_wiresIn {c : Ctx} {name : String} {fs : List RField} {vs : List RVariant} {W : List String}
    (h : ∀ f ∈ fs, f.flatten = false → f.wire ∈ W) : ∀ it ∈ renderType c name fs vs, WiresIn W it := by
  intro it hit n d sc fs' e f hf hfl
  subst e
  have := (renderType_struct hit).2
  have hm := mem_ownWiresOf hf hfl
  rw [this] at hm
  simp only [ownWiresOf, List.mem_map, List.mem_filter] at hm
  obtain ⟨f0, ⟨hf0, hfl0⟩, hw⟩ := hm
  rw [← hw]
  exact h f0 hf0 (by simpa using hfl0)

section Mem
variable (c : Ctx)

def WStmt1 (fuel : Nat) : Prop := ∀ name pfx ty sels items,
  calcSelection c fuel name pfx ty sels = .ok items → ∀ it ∈ items, WiresIn (selsWires c sels) it
def WStmt2 (fuel : Nat) : Prop := ∀ name pfx vsels vts vs items,
  calcVariants c fuel name pfx vsels vts = .ok (vs, items) → ∀ it ∈ items, WiresIn (vselsWires c vsels) it
def WStmt3 (fuel : Nat) : Prop := ∀ sname pfx vt mine fs items al,
  calcVariantSels c fuel sname pfx vt mine = .ok (fs, items, al) →
    (∀ f ∈ fs, f.flatten = false → f.wire ∈ vselsWires c mine) ∧
    (∀ it ∈ items, WiresIn (vselsWires c mine) it) ∧
    (∀ a ∈ al, ∃ n t b, a = aliasItem n t b)
def WStmt4 (fuel : Nat) : Prop := ∀ pfx ty sels fs items,
  calcFields c fuel pfx ty sels = .ok (fs, items) →
    (∀ f ∈ fs, f.flatten = false → f.wire ∈ selsWires c sels) ∧ ∀ it ∈ items, WiresIn (selsWires c sels) it

variable {c}

/-- **no foreign key in any response struct** — simultaneous induction over the four `calc*` functions: every
    non-flatten member of every struct item they emit has, as wire name, the alias-or-field name of a field
    selection occurring in the selection tree at hand -/
theorem calc_wires_mem : ∀ fuel, WStmt1 c fuel ∧ WStmt2 c fuel ∧ WStmt3 c fuel ∧ WStmt4 c fuel := by
  intro fuel
  induction fuel with
  | zero =>
    refine ⟨?_, ?_, ?_, ?_⟩
    · intro _ _ _ _ _ h; rw [calcSelection.eq_1] at h; cases h
    · intro _ _ _ _ _ _ h; rw [calcVariants.eq_1] at h; cases h
    · intro _ _ _ _ _ _ _ h; rw [calcVariantSels.eq_1] at h; cases h
    · intro _ _ _ _ _ h; rw [calcFields.eq_1] at h; cases h
  | succ f ih =>
    obtain ⟨H1, H2, H3, H4⟩ := ih
    refine ⟨?_, ?_, ?_, ?_⟩
    · intro name pfx ty sels items h
      by_cases hsp : ∃ g, sels = [Sel.spread g]
      · obtain ⟨g, rfl⟩ := hsp
        obtain ⟨fr, _, rfl⟩ := calcSelection_single_ok h
        intro it hit
        simp only [List.mem_singleton] at hit
        subst hit; exact WiresIn.alias _ _ _ _
      · obtain ⟨rv, vi, rf, fi, hvp, hfl, rfl⟩ := calcSelection_ok (fun g hg => hsp ⟨g, hg⟩) h
        obtain ⟨h4a, h4b⟩ := H4 _ _ _ _ _ hfl
        intro it hit
        simp only [List.mem_append] at hit
        rcases hit with (hit | hit) | hit
        · exact renderType_wiresIn h4a it hit
        · rcases hvp with ⟨_, _, rfl⟩ | ⟨vts, vsels, r, _, hvs, hr, _, rfl⟩
          · cases hit
          · refine (H2 _ _ _ _ r.1 r.2 hr it hit).mono ?_
            intro w hw
            simp only [vselsWires, List.mem_flatMap] at hw
            obtain ⟨x, hx, hw⟩ := hw
            cases x with
            | inline t sub =>
              exact selWires_mem_of_mem c ((variantSels_origin hvs).1 t sub hx) w (by simpa [selWires, vselWires] using hw)
            | spread g fr => cases hw
        · exact h4b it hit
    · intro name pfx vsels vts vs items h
      cases vts with
      | nil =>
        rw [calcVariants.eq_2 _ _ _ _ _ (by omega)] at h
        simp only [pure, Except.pure, Except.ok.injEq, Prod.mk.injEq] at h
        obtain ⟨_, rfl⟩ := h
        intro it hit; cases hit
      | cons vt rest =>
        obtain ⟨vname, thisV, thisItems, vs', items', _, hr, rfl, rfl, hstep⟩ := calcVariants_ok h
        intro it hit
        rcases List.mem_append.mp hit with hit | hit
        · have hsub : ∀ w ∈ vselsWires c (vsels.filter (fun v => v.typeId == vt)), w ∈ vselsWires c vsels := by
            intro w hw
            simp only [vselsWires, List.mem_flatMap, List.mem_filter] at hw ⊢
            obtain ⟨x, ⟨hx, _⟩, hw⟩ := hw
            exact ⟨x, hx, hw⟩
          rcases hstep with ⟨_, _, rfl⟩ | ⟨_, _, hstep⟩
          · cases hit
          · rcases hstep with ⟨g, fr, _, rfl⟩ | ⟨r, hr0, hstep⟩
            · simp only [List.mem_singleton] at hit
              subst hit; exact WiresIn.alias _ _ _ _
            · obtain ⟨r0, r1, r2⟩ := H3 _ _ _ _ r.1 r.2.1 r.2.2 hr0
              rcases hstep with ⟨a, _, hal, rfl⟩ | ⟨_, extra, hex, rfl⟩
              · rcases List.mem_cons.mp hit with rfl | hit
                · obtain ⟨n, t, b, rfl⟩ := r2 _ (by rw [hal]; exact List.mem_cons_self)
                  exact WiresIn.alias _ _ _ _
                · exact (r1 it hit).mono hsub
              · rcases List.mem_append.mp hit with hit | hit
                · refine (renderType_wiresIn ?_ it hit).mono hsub
                  intro f0 hf0 hfl0
                  rcases List.mem_append.mp hf0 with hf0 | hf0
                  · exact r0 f0 hf0 hfl0
                  · exfalso
                    obtain ⟨l, hl, hf0⟩ := List.mem_flatten.mp hf0
                    obtain ⟨a, ha, hfa⟩ := mapM_ok_mem hex l hl
                    obtain ⟨n, t, b, rfl⟩ := r2 a ha
                    have := aliasMember_flat hfa f0 hf0
                    rw [this] at hfl0; cases hfl0
                · exact (r1 it hit).mono hsub
        · exact H2 _ _ _ _ _ _ hr it hit
    · intro sname pfx vt mine fs items al h
      cases mine with
      | nil =>
        rw [calcVariantSels.eq_2 _ _ _ _ _ (by omega)] at h
        simp only [pure, Except.pure, Except.ok.injEq, Prod.mk.injEq] at h
        obtain ⟨rfl, rfl, rfl⟩ := h
        exact ⟨fun f hf => (by cases hf), fun it hit => (by cases hit), fun it hit => (by cases hit)⟩
      | cons x rest =>
        cases x with
        | inline t sub =>
          obtain ⟨tn, fs0, items0, al0, fs', items', al', _, hr, rfl, rfl, rfl, hstep⟩ := calcVariantSels_inline_ok h
          obtain ⟨ih0, ih1, ih2⟩ := H3 _ _ _ _ _ _ _ hr
          have hR : ∀ w ∈ vselsWires c rest, w ∈ vselsWires c (VariantSel.inline t sub :: rest) := by
            intro w hw; rw [vselsWires_cons]; exact List.mem_append_right _ hw
          have hL : ∀ w ∈ selsWires c sub, w ∈ vselsWires c (VariantSel.inline t sub :: rest) := by
            intro w hw; rw [vselsWires_cons]; exact List.mem_append_left _ hw
          rcases hstep with ⟨g, fr, _, _, rfl, rfl, rfl⟩ | ⟨_, hfl, rfl⟩
          · refine ⟨fun f0 hf0 hfl0 => hR _ (ih0 f0 (by simpa using hf0) hfl0),
              fun it hit => (ih1 it (by simpa using hit)).mono hR, fun a ha => ?_⟩
            rcases List.mem_append.mp ha with ha | ha
            · simp only [List.mem_singleton] at ha
              exact ⟨_, _, _, ha⟩
            · exact ih2 a ha
          · obtain ⟨h4a, h4b⟩ := H4 _ _ _ _ _ hfl
            refine ⟨fun f0 hf0 hfl0 => ?_, fun it hit => ?_, fun a ha => ih2 a (by simpa using ha)⟩
            · rcases List.mem_append.mp hf0 with hf0 | hf0
              · exact hL _ (h4a f0 hf0 hfl0)
              · exact hR _ (ih0 f0 hf0 hfl0)
            · rcases List.mem_append.mp hit with hit | hit
              · exact (h4b it hit).mono hL
              · exact (ih1 it hit).mono hR
        | spread g fr =>
          obtain ⟨fld, fs', hfld, hr, rfl⟩ := calcVariantSels_spread_ok h
          obtain ⟨ih0, ih1, ih2⟩ := H3 _ _ _ _ _ _ _ hr
          have hR : ∀ w ∈ vselsWires c rest, w ∈ vselsWires c (VariantSel.spread g fr :: rest) := by
            intro w hw; rw [vselsWires_cons]; exact List.mem_append_right _ hw
          refine ⟨fun f0 hf0 hfl0 => ?_, fun it hit => (ih1 it hit).mono hR, ih2⟩
          rcases List.mem_append.mp hf0 with hf0 | hf0
          · exfalso
            rcases renderField_ok hfld with ⟨rfl, _, _⟩ | ⟨f', rfl, _, _, hfl', _⟩
            · cases hf0
            · simp only [Option.toList_some, List.mem_singleton] at hf0
              subst hf0; rw [hfl'] at hfl0; cases hfl0
          · exact hR _ (ih0 f0 hf0 hfl0)
    · intro pfx ty sels fs items h
      refine ⟨fun f0 hf0 hfl0 => ?_, ?_⟩
      · have := calcFields_wires c _ _ _ _ _ _ h
        exact ownWires_sub_selsWires c sels _ (this ▸ mem_ownWiresOf hf0 hfl0)
      · cases sels with
        | nil =>
          rw [calcFields.eq_2 _ _ _ _ (by omega)] at h
          simp only [pure, Except.pure, Except.ok.injEq, Prod.mk.injEq] at h
          obtain ⟨_, rfl⟩ := h
          intro it hit; cases hit
        | cons x rest =>
          have hR : ∀ w ∈ selsWires c rest, w ∈ selsWires c (x :: rest) := by
            intro w hw; simp only [selsWires, List.mem_append]; exact .inr hw
          cases x with
          | field a fid sub =>
            obtain ⟨sf, fld, its, fs', items', _, hr, rfl, rfl, hstep⟩ := calcFields_field_ok h
            intro it hit
            rcases List.mem_append.mp hit with hit | hit
            · rcases hstep with ⟨_, _, _, _, rfl, _⟩ | ⟨_, _, _, _, rfl, _⟩ | ⟨_, _, _, _, hits⟩
              · cases hit
              · cases hit
              · refine (H1 _ _ _ _ _ hits it hit).mono ?_
                intro w hw
                simp only [selsWires, selWires, List.mem_append]
                exact .inl (.inr hw)
            · exact ((H4 _ _ _ _ _ hr).2 it hit).mono hR
          | spread g =>
            obtain ⟨fr, fs', _, hr, _⟩ := calcFields_spread_ok h
            exact fun it hit => ((H4 _ _ _ _ _ hr).2 it hit).mono hR
          | inline t sub =>
            rw [calcFields.eq_5 _ _ _ _ _ _ (by simp) (by simp)] at h
            exact fun it hit => ((H4 _ _ _ _ _ h).2 it hit).mono hR
          | typename =>
            rw [calcFields.eq_5 _ _ _ _ _ _ (by simp) (by simp)] at h
            exact fun it hit => ((H4 _ _ _ _ _ h).2 it hit).mono hR

end Mem

/-- every struct among the response items of an operation: each non-flatten member's wire name is the
    alias-or-field name of a field selection of the operation's selection tree -/
theorem responseItems_wires_mem (c : Ctx) (op : ROperation) (items : List Item) (h : responseItems c op = .ok items) :
    ∀ it ∈ items, WiresIn (selsWires c op.sels) it :=
  (calc_wires_mem (c := c) _).1 _ _ _ _ _ h

/-- the same for the items of a fragment -/
theorem fragmentItems_wires_mem (c : Ctx) (g : Nat) (fr : RFragment) (items : List Item)
    (hfr : c.q.fragments[g]? = some fr) (h : fragmentItems c g = .ok items) :
    ∀ it ∈ items, WiresIn (selsWires c fr.sels) it := by
  unfold fragmentItems at h
  obtain ⟨fr', hfr', h⟩ := bind_ok h
  have := getFragment_ok hfr'
  rw [hfr] at this
  cases this
  exact (calc_wires_mem (c := c) _).1 _ _ _ _ _ h

/-! ## 4b. the per-variant structs, exactly -/

/-- own keys asked for by the selections on one variant: those of every inline fragment's selection list (a spread
    of a fragment on the variant contributes a flattened member, no own key) -/
def vselsOwnWires (c : Ctx) (vs : List VariantSel) : List String :=
  vs.flatMap (fun | .inline _ sub => ownWires c sub | .spread _ _ => [])

/-- the members contributed to a variant struct by its selections: their own keys, exactly and in order -/
theorem calcVariantSels_wires (c : Ctx) : ∀ (mine : List VariantSel) (fuel : Nat) (sname pfx : String) (vt : TypeId)
    (fs : List RField) (items al : List Item),
    calcVariantSels c fuel sname pfx vt mine = .ok (fs, items, al) → ownWiresOf fs = vselsOwnWires c mine := by
  intro mine
  induction mine with
  | nil =>
    intro fuel sname pfx vt fs items al h
    cases fuel with
    | zero => rw [calcVariantSels.eq_1] at h; cases h
    | succ f =>
      rw [calcVariantSels.eq_2 _ _ _ _ _ (by omega)] at h
      simp only [pure, Except.pure, Except.ok.injEq, Prod.mk.injEq] at h
      obtain ⟨rfl, -, -⟩ := h
      rfl
  | cons x rest ih =>
    intro fuel sname pfx vt fs items al h
    cases fuel with
    | zero => rw [calcVariantSels.eq_1] at h; cases h
    | succ f =>
      cases x with
      | inline t sub =>
        obtain ⟨tn, fs0, items0, al0, fs', items', al', _, hr, rfl, rfl, rfl, hstep⟩ := calcVariantSels_inline_ok h
        rw [ownWiresOf_append, ih _ _ _ _ _ _ _ hr]
        simp only [vselsOwnWires, List.flatMap_cons]
        congr 1
        rcases hstep with ⟨g, fr, rfl, _, rfl, _, _⟩ | ⟨_, hfl, _⟩
        · rfl
        · exact calcFields_wires c _ _ _ _ _ _ hfl
      | spread g fr =>
        obtain ⟨fld, fs', hfld, hr, rfl⟩ := calcVariantSels_spread_ok h
        rw [ownWiresOf_append, renderField_flat_wires hfld, ih _ _ _ _ _ _ _ hr]
        simp [vselsOwnWires]

theorem ownWiresOf_flat {fs : List RField} (h : ∀ f ∈ fs, f.flatten = true) : ownWiresOf fs = [] := by
  simp only [ownWiresOf, List.map_eq_nil_iff, List.filter_eq_nil_iff]
  intro f hf
  simp [h f hf]

/-- **one iteration of the per-variant loop** (`calcVariants`): for the variant `vt` (named `vname`), with `mine` the
    selections on it, the items it contributes are: nothing (no selection); a type alias `<pfx>On<vname>` of a fragment
    struct (one spread, or nothing but one aliased fragment); or the rendering of the struct `<pfx>On<vname>` whose
    non-flatten members have exactly the own keys of the inline fragments on `vt`, in order — followed by nested items -/
theorem calcVariants_step_wires (c : Ctx) (f : Nat) (name pfx : String) (vsels : List VariantSel) (vt : TypeId)
    (rest : List TypeId) (vs : List RVariant) (items : List Item)
    (h : calcVariants c (f + 1) name pfx vsels (vt :: rest) = .ok (vs, items)) :
    ∃ vname thisItems items' vs', c.s.typeName vt = .ok vname ∧ items = thisItems ++ items' ∧
      calcVariants c f name pfx vsels rest = .ok (vs', items') ∧
      (thisItems = [] ∨
       (∃ t b tail, thisItems = aliasItem (pfx ++ "On" ++ vname) t b :: tail) ∨
       (∃ fields tail, thisItems = renderType c (pfx ++ "On" ++ vname) fields [] ++ tail ∧
          ownWiresOf fields = vselsOwnWires c (vsels.filter (fun v => v.typeId == vt)) ∧
          ∀ n d sc fs', Item.struct n d sc fs' ∈ renderType c (pfx ++ "On" ++ vname) fields [] →
            n = pfx ++ "On" ++ vname ∧ ownWiresOf fs' = vselsOwnWires c (vsels.filter (fun v => v.typeId == vt)))) := by
  obtain ⟨vname, thisV, thisItems, vs', items', hvn, hr, _, rfl, hstep⟩ := calcVariants_ok h
  refine ⟨vname, thisItems, items', vs', hvn, rfl, hr, ?_⟩
  rcases hstep with ⟨_, _, rfl⟩ | ⟨_, _, hstep⟩
  · exact .inl rfl
  · rcases hstep with ⟨g, fr, _, rfl⟩ | ⟨r, hr0, hstep⟩
    · exact .inr (.inl ⟨_, _, [], rfl⟩)
    · have hw := calcVariantSels_wires c _ _ _ _ _ _ _ _ hr0
      have hal := ((calc_wires_mem (c := c) f).2.2.1 _ _ _ _ _ _ _ hr0).2.2
      rcases hstep with ⟨a, _, hal1, rfl⟩ | ⟨_, extra, hex, rfl⟩
      · obtain ⟨n, t, b, rfl⟩ := hal a (by rw [hal1]; exact List.mem_cons_self)
        -- the alias emitted by an inline fragment that is a lone spread is named after the variant struct
        have hname : n = pfx ++ "On" ++ vname := by
          have key : ∀ (mine : List VariantSel) (fuel : Nat) (fs : List RField) (its al : List Item),
              calcVariantSels c fuel (pfx ++ "On" ++ vname) pfx vt mine = .ok (fs, its, al) →
              ∀ a ∈ al, ∃ t b, a = aliasItem (pfx ++ "On" ++ vname) t b := by
            intro mine
            induction mine with
            | nil =>
              intro fuel fs its al h a ha
              cases fuel with
              | zero => rw [calcVariantSels.eq_1] at h; cases h
              | succ f' =>
                rw [calcVariantSels.eq_2 _ _ _ _ _ (by omega)] at h
                simp only [pure, Except.pure, Except.ok.injEq, Prod.mk.injEq] at h
                obtain ⟨-, -, rfl⟩ := h
                cases ha
            | cons x rest ih =>
              intro fuel fs its al h a ha
              cases fuel with
              | zero => rw [calcVariantSels.eq_1] at h; cases h
              | succ f' =>
                cases x with
                | inline t sub =>
                  obtain ⟨tn, fs0, items0, al0, fs', items', al', _, hr', rfl, rfl, rfl, hstep'⟩ := calcVariantSels_inline_ok h
                  rcases List.mem_append.mp ha with ha | ha
                  · rcases hstep' with ⟨g, fr, _, _, _, _, rfl⟩ | ⟨_, _, rfl⟩
                    · simp only [List.mem_singleton] at ha
                      exact ⟨_, _, ha⟩
                    · cases ha
                  · exact ih _ _ _ _ hr' a ha
                | spread g fr =>
                  obtain ⟨fld, fs', _, hr', _⟩ := calcVariantSels_spread_ok h
                  exact ih _ _ _ _ hr' a ha
          obtain ⟨t', b', he⟩ := key _ _ _ _ _ hr0 (aliasItem n t b) (by rw [hal1]; exact List.mem_cons_self)
          cases b <;> cases b' <;> simp [aliasItem] at he <;> exact he.1
        subst hname
        exact .inr (.inl ⟨t, b, _, rfl⟩)
      · have hflat : ownWiresOf extra.flatten = [] := by
          apply ownWiresOf_flat
          intro f0 hf0
          obtain ⟨l, hl, hf0⟩ := List.mem_flatten.mp hf0
          obtain ⟨a, ha, hfa⟩ := mapM_ok_mem hex l hl
          obtain ⟨n, t, b, rfl⟩ := hal a ha
          exact aliasMember_flat hfa f0 hf0
        have hfields : ownWiresOf (r.1 ++ extra.flatten) = vselsOwnWires c (vsels.filter (fun v => v.typeId == vt)) := by
          rw [ownWiresOf_append, hflat, List.append_nil, hw]
        refine .inr (.inr ⟨r.1 ++ extra.flatten, r.2.1, rfl, hfields, ?_⟩)
        intro n d sc fs' hm
        obtain ⟨h1, h2⟩ := renderType_struct hm
        exact ⟨h1, h2.trans hfields⟩

/-- the variants of a `__typename`-tagged enum: one per possible type, in order, the schema's type name on the wire
    (before the optional `Unknown` catch-all that `calcSelection` appends) -/
theorem calcVariants_variant_wires (c : Ctx) : ∀ (vts : List TypeId) (fuel : Nat) (name pfx : String)
    (vsels : List VariantSel) (vs : List RVariant) (items : List Item),
    calcVariants c fuel name pfx vsels vts = .ok (vs, items) →
      vts.mapM c.s.typeName = .ok (vs.map (·.wire)) ∧ ∀ v ∈ vs, v.other = false := by
  intro vts
  induction vts with
  | nil =>
    intro fuel name pfx vsels vs items h
    cases fuel with
    | zero => rw [calcVariants.eq_1] at h; cases h
    | succ f =>
      rw [calcVariants.eq_2 _ _ _ _ _ (by omega)] at h
      simp only [pure, Except.pure, Except.ok.injEq, Prod.mk.injEq] at h
      obtain ⟨rfl, -⟩ := h
      exact ⟨rfl, fun v hv => by cases hv⟩
  | cons vt rest ih =>
    intro fuel name pfx vsels vs items h
    cases fuel with
    | zero => rw [calcVariants.eq_1] at h; cases h
    | succ f =>
      obtain ⟨vname, thisV, thisItems, vs', items', hvn, hr, rfl, rfl, hstep⟩ := calcVariants_ok h
      obtain ⟨ih1, ih2⟩ := ih _ _ _ _ _ _ hr
      have hv : thisV.wire = vname ∧ thisV.other = false := by
        rcases hstep with ⟨_, rfl, _⟩ | ⟨_, rfl, _⟩ <;> exact ⟨rfl, rfl⟩
      refine ⟨?_, fun v hv' => ?_⟩
      · rw [List.mapM_cons, hvn, ih1]
        simp only [bind, Except.bind, pure, Except.pure, List.map_cons, hv.1]
      · rcases List.mem_cons.mp hv' with rfl | hv'
        · exact hv.2
        · exact ih2 v hv'

/-! ## 5. non-vacuity: the hypotheses hold on concrete, non-trivial contexts -/

/-- keyword-named input object with keyword-named / camel-case fields, a `@oneOf` input, variables named by
    keywords, two with defaults; `rust` normalization with case functions that really change names -/
def kwSchema : Schema :=
  { scalars := Schema.defaultScalars,
    inputs := [{ name := "type", fields := [("Type", { id := .scalar 2, quals := [] }), ("fooBar", { id := .scalar 2, quals := [.required] }),
                                            ("self", { id := .input 1, quals := [.list] })], isOneOf := false },
               { name := "Pick", fields := [("self", { id := .scalar 2, quals := [] }), ("b", { id := .input 0, quals := [] })],
                 isOneOf := true }] }

def kwQuery : Query :=
  { operations := [{ name := "Q", kind := .query, objectId := 0, sels := [] }],
    variables := [{ opIdx := 0, name := "type", default := some (.int 1), ty := { id := .scalar 2, quals := [] } },
                  { opIdx := 0, name := "inArg", default := none, ty := { id := .input 0, quals := [.required] } },
                  { opIdx := 0, name := "Loop", default := some (.obj [("self", .int 3)]), ty := { id := .input 1, quals := [] } }] }

def kwCtx : Ctx :=
  { s := kwSchema, q := kwQuery, o := { normalization := .rust }, cs := ⟨fun s => s.toLower, fun s => "C" ++ s⟩ }

def structParts : Outcome Item → Option (String × List RField)
  | .ok (.struct n _ _ fs) => some (n, fs)
  | _ => none

theorem structParts_some {r : Outcome Item} {n : String} {fs : List RField} (h : structParts r = some (n, fs)) :
    ∃ d sc, r = .ok (.struct n d sc fs) := by
  unfold structParts at h
  split at h
  · simp only [Option.some.injEq, Prod.mk.injEq] at h
    obtain ⟨rfl, rfl⟩ := h
    exact ⟨_, _, rfl⟩
  · cases h

def oneOfParts : Outcome Item → Option (String × List RVariant)
  | .ok (.oneOf n _ _ vs) => some (n, vs)
  | _ => none

theorem oneOfParts_some {r : Outcome Item} {n : String} {vs : List RVariant} (h : oneOfParts r = some (n, vs)) :
    ∃ d sc, r = .ok (.oneOf n d sc vs) := by
  unfold oneOfParts at h
  split at h
  · simp only [Option.some.injEq, Prod.mk.injEq] at h
    obtain ⟨rfl, rfl⟩ := h
    exact ⟨_, _, rfl⟩
  · cases h

/-- the hypothesis of `inputItem_struct_wires` holds on `kwCtx` (Rust identifiers `type_`, `foobar`, `self_` all differ
    from the GraphQL names), and the theorem gives the wire names -/
example : ∃ n d sc fs, inputItem kwCtx { name := "type", fields := [("Type", { id := .scalar 2, quals := [] }),
      ("fooBar", { id := .scalar 2, quals := [.required] }), ("self", { id := .input 1, quals := [.list] })], isOneOf := false }
      = .ok (.struct n d sc fs) ∧ n = "Ctype" ∧ fs.map (·.rust) = ["type_", "foobar", "self_"] ∧
      fs.map (·.wire) = ["Type", "fooBar", "self"] := by
  have h : (structParts (inputItem kwCtx { name := "type", fields := [("Type", { id := .scalar 2, quals := [] }),
      ("fooBar", { id := .scalar 2, quals := [.required] }), ("self", { id := .input 1, quals := [.list] })], isOneOf := false })).map
      (fun p => (p.1, p.2.map (·.rust))) = some ("Ctype", ["type_", "foobar", "self_"]) := by decide +kernel
  cases hp : structParts (inputItem kwCtx { name := "type", fields := [("Type", { id := .scalar 2, quals := [] }),
      ("fooBar", { id := .scalar 2, quals := [.required] }), ("self", { id := .input 1, quals := [.list] })], isOneOf := false }) with
  | none => rw [hp] at h; cases h
  | some p =>
    obtain ⟨n, fs⟩ := p
    rw [hp] at h
    simp only [Option.map_some, Option.some.injEq, Prod.mk.injEq] at h
    obtain ⟨d, sc, hi⟩ := structParts_some hp
    exact ⟨n, d, sc, fs, hi, h.1, h.2, inputItem_struct_wires _ _ _ _ _ _ hi⟩

/-- … and of `inputItem_oneOf_wires` (variants `Cself`, `Cb`) -/
example : ∃ n d sc vs, inputItem kwCtx { name := "Pick", fields := [("self", { id := .scalar 2, quals := [] }),
      ("b", { id := .input 0, quals := [] })], isOneOf := true } = .ok (.oneOf n d sc vs) ∧
      vs.map (·.name) = ["Cself", "Cb"] ∧ vs.map (·.wire) = ["self", "b"] := by
  have h : (oneOfParts (inputItem kwCtx { name := "Pick", fields := [("self", { id := .scalar 2, quals := [] }),
      ("b", { id := .input 0, quals := [] })], isOneOf := true })).map (fun p => p.2.map (·.name)) = some ["Cself", "Cb"] := by
    decide +kernel
  cases hp : oneOfParts (inputItem kwCtx { name := "Pick", fields := [("self", { id := .scalar 2, quals := [] }),
      ("b", { id := .input 0, quals := [] })], isOneOf := true }) with
  | none => rw [hp] at h; cases h
  | some p =>
    obtain ⟨n, vs⟩ := p
    rw [hp] at h
    simp only [Option.map_some, Option.some.injEq] at h
    obtain ⟨d, sc, hi⟩ := oneOfParts_some hp
    exact ⟨n, d, sc, vs, hi, h, inputItem_oneOf_wires _ _ _ _ _ _ hi⟩

/-- `variablesItems` succeeds on `kwCtx` (three variables, Rust identifiers `type_`, `inarg`, `loop_`; two
    `default_*` functions) and `variablesItems_shape` gives wire names and function names -/
example : ∃ fs dfl, variablesItems kwCtx 0 = .ok [.struct "Variables" (allVariableDerives kwCtx.o) kwCtx.serdeCrate fs, .defaults dfl] ∧
    fs.map (·.rust) = ["type_", "inarg", "loop_"] ∧ fs.map (·.wire) = ["type", "inArg", "Loop"] ∧
    dfl.map (·.1) = ["default_type", "default_Loop"] := by
  have hok : (variablesItems kwCtx 0).toOption.map (fun its => its.map memberWires) = some [["type", "inArg", "Loop"], []] := by
    decide +kernel
  cases hv : variablesItems kwCtx 0 with
  | error e => rw [hv] at hok; cases hok
  | ok items =>
    rcases variablesItems_shape kwCtx 0 items hv with ⟨he, _⟩ | ⟨_, fs, dfl, rfl, hw, _, hn, _⟩
    · exact absurd he (by decide +kernel)
    · refine ⟨fs, dfl, rfl, ?_, hw.trans (by decide +kernel), hn.trans (by decide +kernel)⟩
      have : ((variablesItems kwCtx 0).toOption.bind List.head?).map
          (fun it => match it with | .struct _ _ _ fs => fs.map (·.rust) | _ => []) = some ["type_", "inarg", "loop_"] := by
        decide +kernel
      rw [hv] at this
      simpa [Except.toOption] using this

/-- `responseItems` on the rich context of `C02Response` (interface, union, fragments spread in every position,
    aliases, a deprecated field) under `deny`: the hypotheses of `responseData_wires` hold; the aliases `pets`,
    `animal2` are on the wire and the deprecated `when` is gone -/
def denyCtx : Ctx := { richCtx with o := { richCtx.o with deprecation := .deny } }

example : (∀ g, richQuery.operations[0].sels ≠ [Sel.spread g]) ∧
    (responseItems denyCtx richQuery.operations[0]).toOption.isSome = true ∧
    ownWires denyCtx richQuery.operations[0].sels = ["animal", "pets", "animal2", "kind", "ext"] ∧
    ownWires richCtx richQuery.operations[0].sels = ["animal", "pets", "animal2", "kind", "when", "ext"] := by
  refine ⟨fun g h => by simp [richQuery] at h, by decide +kernel, by decide +kernel, by decide +kernel⟩

example : ∃ fs tail, responseItems denyCtx richQuery.operations[0] =
      .ok (.struct "ResponseData" denyCtx.respDerives denyCtx.serdeCrate fs :: tail) ∧
    ownWiresOf fs = ["animal", "pets", "animal2", "kind", "ext"] := by
  cases h : responseItems denyCtx richQuery.operations[0] with
  | error e =>
    have : (responseItems denyCtx richQuery.operations[0]).toOption.isSome = true := by decide +kernel
    rw [h] at this; cases this
  | ok items =>
    obtain ⟨fs, tail, rfl, hw⟩ := responseData_wires denyCtx _ items (fun g h => by simp [richQuery] at h) h
    exact ⟨fs, tail, rfl, hw.trans (by decide +kernel)⟩

end Composed
end GqlVerif
