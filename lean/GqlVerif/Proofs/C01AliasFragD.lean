import GqlVerif.Proofs.C01AliasFragC
import GqlVerif.Proofs.C01NestedD
import GqlVerif.Proofs.AcyclicModulesClasses
/-!
# C01 / C03 end to end (`AliasFragOp`), part D: the rank recursion; `ResponseData` accepts exactly `conformsLooseN`

As `C01NestedD`, with the ranks of `fragOkA`:

* `wholeA c r g b j` — what the type of the fragment `g` accepts: rank `0` `conformsLooseV` of its (spread-free) body, a
  fragment new at rank `r + 1` `conformsLooseN (wholeA c r)` of its body — for a lone-spread body `...G` that is
  `wholeA c r G`: **the alias accepts what its target accepts**;
* `KNa c r name` — the response keys read at the object level of the type named `name` (alias: those of its target);
* `FragEnvA e c r g` — the fragment's name resolves to the items of `aliasfrag_fragment_shape` (`BodyEnvN`: an alias item
  for a lone-spread body, a struct item otherwise), and so on below;
* `fragSideA c r g` — decidable side condition, the formula of `fragSideN`;
* **`fragAccA`** — by induction on the rank: `FragAccA e c (wholeA c r) (KNa c r) g`;
* `aliasKeysOk`, `TopEnvA`, **`top_accepts_iffA`**.
-/
set_option linter.unusedSimpArgs false
set_option linter.unusedVariables false
set_option linter.unusedSectionVars false
set_option linter.unnecessarySimpa false

namespace GqlVerif
namespace C01AF
open Serde Spec C13 C03 Codegen C01 C01.E2E C01M C01N

/-- **what the type of the fragment `g` accepts** -/
def wholeA (c : Ctx) : Nat → Nat → Bool → Json → Bool
  | 0, g, b, j => conformsLooseV c.s c.o b (fragSels c.q g) j
  | r + 1, g, b, j =>
    if fragOkA c.s c.q c.o r (fragOn c.q g) g then wholeA c r g b j
    else conformsLooseN (wholeA c r) c.s c.q c.o b (fragSels c.q g) j

/-- the response keys the type named `name` reads at its own object level -/
def KNa (c : Ctx) : Nat → String → List String
  | 0, name => fieldKeys c.s (fragSels c.q (idOf c.q name))
  | r + 1, name =>
    if fragOkA c.s c.q c.o r (fragOn c.q (idOf c.q name)) (idOf c.q name) then KNa c r name
    else expKeysN (KNa c r) c (fragSels c.q (idOf c.q name))

/-- the environment of the fragment `g` -/
def FragEnvA (e : Env) (c : Ctx) : Nat → Nat → Prop
  | 0, g => FragEnv e c g
  | r + 1, g =>
    if fragOkA c.s c.q c.o r (fragOn c.q g) g = true then FragEnvA e c r g
    else match c.q.fragments[g]? with
      | some f => BodyEnvN (FragEnvA e c r) e c f.name (c.cs.camel f.name) f.sels
      | none => True

/-- keys disjoint between a spread and its siblings, inside the body of the fragment `g` and of the fragments spread there -/
def fragSideA (c : Ctx) : Nat → Nat → Bool
  | 0, _ => true
  | r + 1, g =>
    if fragOkA c.s c.q c.o r (fragOn c.q g) g then fragSideA c r g
    else keysOksN (KNa c r) c (fragSels c.q g) && EnumSpec.nodup (expKeysN (KNa c r) c (fragSels c.q g)) &&
      (objSpreadss c.s (fragSels c.q g)).all (fragSideA c r)

theorem FragAccA.congr {e : Env} {c : Ctx} {whole whole' : Nat → Bool → Json → Bool} {KN KN' : String → List String}
    {g : Nat} (fa : FragAccA e c whole KN g) (hw : ∀ b j, whole' g b j = whole g b j)
    (hk : KN' (fragName c g) = KN (fragName c g)) : FragAccA e c whole' KN' g := by
  obtain ⟨Nm, hmem⟩ := fa.mem
  obtain ⟨N, hacc⟩ := fa.acc
  refine ⟨⟨Nm, fun fuel hf => by rw [hk]; exact hmem fuel hf⟩, ⟨N, fun fd hfd b j => by rw [hw]; exact hacc fd hfd b j⟩, ?_⟩
  intro L hL b kvs
  rw [hw, hw]
  exact fa.irr L (by rw [← hk]; exact hL) b kvs

theorem wholeA_zero (c : Ctx) : wholeA c 0 = wholeN c 0 := by
  funext g b j; rw [wholeA, wholeN]

theorem KNa_zero (c : Ctx) : KNa c 0 = KNn c 0 := by
  funext name; rw [KNa, KNn]

/-- **what the type of a fragment of rank `r` accepts, exactly** (by induction on the rank) -/
theorem fragAccA (e : Env) (c : Ctx) (hnd : fragNamesOk c = true) : ∀ (r : Nat) (p : TypeId) (g : Nat),
    fragOkA c.s c.q c.o r p g = true → FragEnvA e c r g → fragSideA c r g = true →
    FragAccA e c (wholeA c r) (KNa c r) g
  | 0, p, g => by
    intro h henv _
    rw [fragOkA] at h
    rw [FragEnvA] at henv
    rw [wholeA_zero, KNa_zero]
    exact FragAccA.of_fragAcc (fragAccN e c hnd 0 p g (by rw [fragOkN]; exact h) (by rw [FragEnvN]; exact henv)
      (by rw [fragSideN]))
  | r + 1, p, g => by
    intro h henv hside
    have IH := fragAccA e c hnd r
    by_cases hold : fragOkA c.s c.q c.o r p g = true
    · -- already of rank `r`
      obtain ⟨fr, hfr, hon, _, _⟩ := fragOkA_spec c.s c.q c.o r p g hold
      have hfon : fragOn c.q g = p := by simp [fragOn, hfr, hon]
      have hname : fragName c g = fr.name := by simp [fragName, hfr]
      have hid : idOf c.q fr.name = g := idOf_name hnd hfr
      rw [FragEnvA, hfon, if_pos hold] at henv
      rw [fragSideA, hfon, if_pos hold] at hside
      refine (IH p g hold henv hside).congr (fun b j => ?_) ?_
      · rw [wholeA, hfon, if_pos hold]
      · rw [hname, KNa, hid, hfon, if_pos hold]
    · -- new at rank `r + 1`
      have holdf : fragOkA c.s c.q c.o r p g = false := by simpa using hold
      rw [fragOkA, holdf, Bool.false_or] at h
      obtain ⟨fr, hfr, hon, _, _, hb⟩ := fragNewA_parts h
      have hfon : fragOn c.q g = p := by simp [fragOn, hfr, hon]
      have hname : fragName c g = fr.name := by simp [fragName, hfr]
      have hsels : fragSels c.q g = fr.sels := by simp [fragSels, hfr]
      have hid : idOf c.q fr.name = g := idOf_name hnd hfr
      have hKN : KNa c (r + 1) fr.name = expKeysN (KNa c r) c fr.sels := by
        rw [KNa, hid, hfon, if_neg hold, hsels]
      have hwh : ∀ b j, wholeA c (r + 1) g b j = conformsLooseN (wholeA c r) c.s c.q c.o b fr.sels j := by
        intro b j; rw [wholeA, hfon, if_neg hold, hsels]
      rw [FragEnvA, hfon, if_neg hold] at henv
      simp only [hfr] at henv
      rw [fragSideA, hfon] at hside
      simp only [holdf, Bool.false_eq_true, ↓reduceIte, hsels, Bool.and_eq_true, List.all_eq_true] at hside
      obtain ⟨⟨hko, hkeys⟩, hsub⟩ := hside
      have hok := fragOkA_spec c.s c.q c.o r
      have hfa : ∀ p' g', fragOkA c.s c.q c.o r p' g' = true →
          (FragEnvA e c r g' ∧ fragSideA c r g' = true) → FragAccA e c (wholeA c r) (KNa c r) g' :=
        fun p' g' h1 h2 => IH p' g' h1 h2.1 h2.2
      by_cases hsp : ∃ g', fr.sels = [Sel.spread g']
      · -- **a lone spread: the fragment is a type alias of the fragment `g'`**
        obtain ⟨g', hg'⟩ := hsp
        rw [hg'] at hb henv hsub hKN hwh
        have hokg' : fragOkA c.s c.q c.o r fr.on g' = true := hb
        unfold BodyEnvN at henv
        simp only at henv
        obtain ⟨ha, henv'⟩ := henv
        have hside' : fragSideA c r g' = true := hsub g' (by simp [objSpreadss, objSpreads])
        have fa' := IH fr.on g' hokg' henv' hside'
        have hKN' : KNa c (r + 1) fr.name = KNa c r (fragName c g') := by
          rw [hKN]; simp [expKeysN]
        have hwh' : ∀ b j, wholeA c (r + 1) g b j = wholeA c r g' b j := by
          intro b j; rw [hwh]; rfl
        obtain ⟨Nm, hmem⟩ := fa'.mem
        obtain ⟨hp, _, n, pub, hfind⟩ := ha
        refine ⟨⟨Nm + 1, fun fuel hf => ?_⟩, ?_, ?_⟩
        · obtain ⟨fuel', rfl⟩ : ∃ k, fuel = k + 1 := ⟨fuel - 1, by omega⟩
          rw [hname, hKN']
          exact memSpec_chain e 1 fr.name (fragName c g') fuel' _ (chain_one hp hfind) (hmem fuel' (by omega))
        · obtain ⟨N, hN⟩ := accAliasA e c _ (wholeA c r) (KNa c r) _ hfa fr.name fr.on g' hokg'
            ⟨hp, ‹_›, n, pub, hfind⟩ ⟨henv', hside'⟩
          refine ⟨N, fun fd hfd b j => ?_⟩
          rw [hname, hwh']
          exact hN b fd hfd j
        · intro L hL b kvs
          rw [hname, hKN'] at hL
          rw [hwh', hwh']
          exact fa'.irr L hL b kvs
      · have hnl : ∀ g', fr.sels ≠ [Sel.spread g'] := fun g' hg' => hsp ⟨g', hg'⟩
        rw [nBody_not_lone hnl] at hb
        obtain ⟨hs, henvs⟩ := bodyEnvN_not_lone hnl henv
        have henvs' := envSelsN_and (P := fun g' => fragSideA c r g' = true) fr.sels _ henvs hsub
        obtain ⟨N, hN⟩ := accStructA e c _ (wholeA c r) (KNa c r) _ hok hfa (c.cs.camel fr.name) fr.name fr.on fr.sels
          (accSelsA e c _ (wholeA c r) (KNa c r) _ fr.sels _ hok hfa) hnl hb henvs' hko hkeys hs
        obtain ⟨_, h2, _, _⟩ := flat_hypsN hok (KNa c r) (c.cs.camel fr.name) fr.on fr.sels hb (nodup_iff'.mp hkeys)
        obtain ⟨hp, _, n, d, cr, hfind⟩ := hs
        refine ⟨⟨0, fun fuel _ => ?_⟩, ⟨N, ?_⟩, ?_⟩
        · rw [hname, hKN]
          exact memSpec_struct e fuel fr.name n d cr _ _ hp hfind h2
        · intro fd hfd b j
          rw [hname, hwh]
          exact hN b fd hfd j
        · intro L hL b kvs
          rw [hname, hKN] at hL
          rw [hwh, hwh, conformsLooseN_not_lone hnl, conformsLooseN_not_lone hnl]
          simp only
          rw [looseOwnN_filter _ _ _ _ _ L kvs fr.sels
              (fun k hk hkL => hL k hkL (fieldKeys_sub_expKeysN (KNa c r) c fr.sels k hk)),
            looseMemN_filter _ L kvs fr.sels (fun g' hg' => by
              have hokg' : fragOkA c.s c.q c.o r fr.on g' = true := by
                simpa [nSel] using nSels_mem hb _ hg'
              have hfg' := envSelsN_mem henvs' _ hg'
              rw [envSelN] at hfg'
              exact (hfa _ g' hokg' hfg').irr L
                (fun k hkL hk => hL k hkL (spreadKeys_sub_expKeysN (KNa c r) c fr.sels g' hg' k hk)) true kvs)]

/-! ## top level (generic environment) -/

/-- keys disjoint between a spread at an object position and its siblings: at every object level of the operation, and
    inside the bodies of the spread fragments (decidable) -/
def aliasKeysOk (c : Ctx) (op : ROperation) : Bool :=
  keysOksN (KNa c c.q.fragments.length) c op.sels &&
  EnumSpec.nodup (expKeysN (KNa c c.q.fragments.length) c op.sels) &&
  (objSpreadss c.s op.sels).all (fragSideA c c.q.fragments.length)

structure TopEnvA (e : Env) (c : Ctx) (op : ROperation) : Prop where
  root : BodyEnvN (FragEnvA e c c.q.fragments.length) e c "ResponseData" (c.cs.camel op.name) op.sels
  ok : SerdeFuel.EnvOK e

/-- **`ResponseData` accepts exactly `conformsLooseN … false`** (generic environment) -/
theorem top_accepts_iffA (e : Env) (c : Ctx) (op : ROperation) (ht : AliasFragOp c op = true) (hnd : fragNamesOk c = true)
    (hk : aliasKeysOk c op = true) (he : TopEnvA e c op) (j : Json) :
    okB (Serde.de e (.path "ResponseData") j) =
      conformsLooseN (wholeA c c.q.fragments.length) c.s c.q c.o false op.sels j := by
  obtain ⟨_, _, hsels⟩ := aliasFragOp_parts ht
  simp only [aliasKeysOk, Bool.and_eq_true, List.all_eq_true] at hk
  obtain ⟨⟨hko, hkeys⟩, hsub⟩ := hk
  have hfa : ∀ p' g', fragOkA c.s c.q c.o c.q.fragments.length p' g' = true →
      (FragEnvA e c c.q.fragments.length g' ∧ fragSideA c c.q.fragments.length g' = true) →
      FragAccA e c (wholeA c c.q.fragments.length) (KNa c c.q.fragments.length) g' :=
    fun p' g' h1 h2 => fragAccA e c hnd _ p' g' h1 h2.1 h2.2
  obtain ⟨N, hN⟩ := bodyA_accepts_iff e c _ (wholeA c c.q.fragments.length) (KNa c c.q.fragments.length) _
    (fragOkA_spec c.s c.q c.o _) hfa (c.cs.camel op.name) "ResponseData" _ op.sels hsels
    (bodyEnvN_and (P := fun g' => fragSideA c c.q.fragments.length g' = true) he.root hsub) hko hkeys
  rw [de_top, ← SerdeFuel.dePath_fuel_indep he.ok false "ResponseData" j (max N (deFuel e j)) (Nat.le_max_right _ _)]
  exact hN false _ (Nat.le_max_left _ _) j

end C01AF
end GqlVerif
