import GqlVerif.Proofs.SerdeFuelCodegen
import GqlVerif.Proofs.C01RecursiveE
import GqlVerif.Proofs.C01VariantSpread
import GqlVerif.Proofs.C01AbstractH
/-!
# P25 — witnesses: why `deFuel` was doubled, and why the hypotheses `EnvOK` / `BoxBound` / `Acyclic` are needed

`dePath` / `deFlat` spend one unit of fuel per jump to a named type **and per `Box` around a flattened member**
(`deFlat e (fuel+1) (.box t) buf = deFlat e fuel t buf`).  Before P25, `deFuel e j` was
`(jsonSize j + 2) * (#items + #externs + 2)` (`oldDeFuel`): `#items + #externs + 2` jumps per JSON nesting level.  A struct
whose flattened member is `Box<F>` costs two units (`Box` hop, then `F`), so a chain of `n` structs, each flattening the
`Box` of the next, costs `2n` units on one JSON object — more than that allowance once the chain is long enough, and
the deficit accumulates with the nesting depth of the payload.  `deFuel` is now twice that.

* `chain_fuel_exhausted` — only single `Box`es: 5 structs + 1 alias, payload nested 8 deep: the old fuel is exhausted,
  the present `de` reads it;
* **`generated_module_fuel_exhausted`** — a module `Codegen.responseForQuery` emits (16 mutually recursive fragments
  `F1 { height ...F2 } … F16 { friend { ...F1 } }`, `query Q { me { ...F1 } }`; it satisfies `moduleOk`), payload nested
  12 deep: `deTy` with the OLD fuel expression answers `unmodelled "fuel"`, fuel 2000 reads it;
  **`generated_module_read`** — with the present `Serde.de` that payload, and one nested 60 deep, is read; the module
  satisfies `rankCheck`, hence no payload whatsoever exhausts the fuel; `generated_chain_threshold` (old width: 10
  fragments fit, 11 do not);
* `box_fuel_matters` — 24 `Box`es under one flattened member: `de` returns the fuel error, fuel 40 succeeds (so
  `deTy_fuel_indep` is false without a hypothesis on the environment: `BoxBound` is needed);
* `alias_cycle_always_out_of_fuel` — `type A = B; type B = A` (rejected by rustc, E0391): the fuel error at every fuel —
  acyclicity is needed for `de_never_out_of_fuel` (not for fuel independence);
  `spread_cycle_module_not_acyclic` — a module the generator emits for two fragments spreading each other at the same
  level (`F { height ...G }`, `G { height ...F }`: invalid GraphQL, valid Rust thanks to the `Box`es): serde recurses
  forever, the model answers the fuel error — `Acyclic` is not a property of every emitted module;
* `denied_key_not_ignored_without_rank` — `denied_key_ignored_de` fails without `EnvOK`;
* positive: `rankCheck` holds on the generated modules of the end-to-end theorems, and the theorems apply to them.
-/
namespace GqlVerif
namespace SerdeFuel
open Serde Composed Codegen

def isFuelErr {α : Type} : D α → Bool
  | .error (.unmodelled w) => w == "fuel"
  | _ => false

theorem isFuelErr_iff {α : Type} {r : D α} : isFuelErr r = true ↔ r = .error (.unmodelled "fuel") := by
  unfold isFuelErr
  split
  · rename_i w
    constructor
    · intro h; rw [eq_of_beq h]
    · intro h; cases h; exact beq_self_eq_true _
  · rename_i hne
    constructor
    · intro h; cases h
    · intro h; exact (hne "fuel" h).elim

theorem not_envOK_of_de {e : Env} {t : RTy} {j : Json} (h : isFuelErr (de e t j) = true) : ¬ EnvOK e :=
  fun hok => de_never_out_of_fuel hok t j (isFuelErr_iff.mp h)

/-- the fuel `Serde.de` passed before P25 (half of `deFuel`) -/
def oldDeFuel (e : Env) (j : Json) : Nat := (jsonSize j + 2) * (e.items.length + e.externs.length + 2)

theorem deFuel_eq_old (e : Env) (j : Json) : deFuel e j = 2 * oldDeFuel e j := rfl

/-! ## 1. single `Box`es, hand-written -/

/-- `struct F1 { x1: Option<String>, #[serde(flatten)] next: Box<F2> }` … `struct F5 { a: Option<A> }`, `type A = Box<F1>` -/
def chainEnv : Env :=
  { items := [.struct "F1" [] none [{ rust := "x1", ty := .opt (.path "String") }, { rust := "next", ty := .box (.path "F2"), flatten := true }],
              .struct "F2" [] none [{ rust := "x2", ty := .opt (.path "String") }, { rust := "next", ty := .box (.path "F3"), flatten := true }],
              .struct "F3" [] none [{ rust := "x3", ty := .opt (.path "String") }, { rust := "next", ty := .box (.path "F4"), flatten := true }],
              .struct "F4" [] none [{ rust := "x4", ty := .opt (.path "String") }, { rust := "next", ty := .box (.path "F5"), flatten := true }],
              .struct "F5" [] none [{ rust := "a", ty := .opt (.path "A") }],
              .alias "A" true (.box (.path "F1"))] }

def nestA : Nat → Json
  | 0 => .obj []
  | d+1 => .obj [("a", nestA d)]

/-- every level of the payload costs 10 jumps (`F1`, four times `Box` + struct, `A`); the old allowance was 8 per
    level: exhausted at depth 8.  The present `de` reads it, and every other payload (`rankCheck`). -/
theorem chain_fuel_exhausted :
    (deTy chainEnv false ((jsonSize (nestA 7) + 2) * (chainEnv.items.length + chainEnv.externs.length + 2))
      (.path "F1") (nestA 7)).toOption.isSome = true ∧
    isFuelErr (deTy chainEnv false ((jsonSize (nestA 8) + 2) * (chainEnv.items.length + chainEnv.externs.length + 2))
      (.path "F1") (nestA 8)) = true ∧
    (deTy chainEnv false 200 (.path "F1") (nestA 8)).toOption.isSome = true ∧
    (de chainEnv (.path "F1") (nestA 8)).toOption.isSome = true ∧
    rankCheck chainEnv = true ∧ rankCheckS chainEnv = false := by
  decide +kernel

/-! ## 2. a module the generator emits -/

/-- `type Query { me: Human }`, `type Human { name: String!, height: Float, friend: Human }` (the schema of `C01RecursiveE`) -/
def gSchema : Schema := C01.E2E.rxSchema

/-- `fragment F1 on Human { height ...F2 }` … `fragment F(n-1) on Human { height ...Fn }`,
    `fragment Fn on Human { friend { ...F1 } }`: every fragment is on the cycle, so every spread is `Box`ed -/
def gFrags (n : Nat) : List RFragment :=
  (List.range (n-1)).map (fun i => { name := s!"F{i+1}", on := .object 1, sels := [.field none 2 [], .spread (i+1)] }) ++
  [{ name := s!"F{n}", on := .object 1, sels := [.field none 3 [.spread 0]] }]

/-- `query Q { me { ...F1 } }` -/
def gOp : ROperation := { name := "Q", kind := .query, objectId := 0, sels := [.field none 0 [.spread 0]] }

def gCtx (n : Nat) : Ctx := { s := gSchema, q := { operations := [gOp], fragments := gFrags n }, o := {}, cs := ⟨id, id⟩ }

def gItems (n : Nat) : List Item := (responseForQuery (gCtx n) 0).toOption.getD []

def gEnv (n : Nat) : Env := { items := gItems n }

def nestFriend : Nat → Json
  | 0 => .obj []
  | d+1 => .obj [("friend", nestFriend d)]

/-- `{"me": {"friend": {"friend": … {} … }}}` -/
def gPayload (d : Nat) : Json := .obj [("me", nestFriend d)]

/-- **the reason for doubling `deFuel`**: a generated module on which the former fuel
    `(jsonSize j + 2) * (#items + #externs + 2)` is exhausted.  `responseForQuery` succeeds (24 items: the four built-in
    aliases, `Variables`, 16 fragment structs, `F16friend = Box<F1>`, `ResponseData`, `Qme = Box<F1>`), the module
    passes `moduleOk`; with that fuel the payload nested 11 deep is read, the one nested 12 deep gets
    `unmodelled "fuel"`, although a larger fuel reads it (as the real serde does: every `friend` level is an ordinary
    struct) -/
theorem generated_module_fuel_exhausted :
    (responseForQuery (gCtx 16) 0).toOption.isSome = true ∧ (gItems 16).length = 24 ∧
    C01.E2E.moduleOk (gCtx 16) (gItems 16) = true ∧
    (deTy (gEnv 16) false ((jsonSize (gPayload 11) + 2) * ((gEnv 16).items.length + (gEnv 16).externs.length + 2))
      (.path "ResponseData") (gPayload 11)).toOption.isSome = true ∧
    isFuelErr (deTy (gEnv 16) false ((jsonSize (gPayload 12) + 2) * ((gEnv 16).items.length + (gEnv 16).externs.length + 2))
      (.path "ResponseData") (gPayload 12)) = true ∧
    (deTy (gEnv 16) false 2000 (.path "ResponseData") (gPayload 12)).toOption.isSome = true ∧
    rankCheckS (gEnv 16) = false := by
  decide +kernel

/-- **the positive instance, with the present `Serde.de`**: that payload — and one nested 60 deep — is read, and the
    module passes `rankCheck` -/
theorem generated_module_read :
    (de (gEnv 16) (.path "ResponseData") (gPayload 12)).toOption.isSome = true ∧
    (de (gEnv 16) (.path "ResponseData") (gPayload 60)).toOption.isSome = true ∧
    rankCheck (gEnv 16) = true := by
  refine ⟨by decide +kernel, by decide +kernel, by decide +kernel⟩

/-- … hence no payload at all exhausts the fuel on it, and the fuel never matters -/
theorem generated_module_never_out_of_fuel (t : RTy) (j : Json) :
    de (gEnv 16) t j ≠ .error (.unmodelled "fuel") ∧
    ∀ fuel, deFuel (gEnv 16) j ≤ fuel → deTy (gEnv 16) false fuel t j = de (gEnv 16) t j :=
  ⟨de_never_out_of_fuel (envOK_of_check generated_module_read.2.2) t j,
   fun fuel h => de_fuel_indep (envOK_of_check generated_module_read.2.2) t j fuel h⟩

/-- the old width was tight on this family: with 10 fragments on the cycle the generated module fits it, with 11 it
    does not — and a payload nested 80 deep did exhaust the old fuel; the present width takes 40 fragments too -/
theorem generated_chain_threshold :
    rankCheckS (gEnv 10) = true ∧ rankCheckS (gEnv 11) = false ∧
    isFuelErr (deTy (gEnv 11) false ((jsonSize (gPayload 80) + 2) * ((gEnv 11).items.length + (gEnv 11).externs.length + 2))
      (.path "ResponseData") (gPayload 80)) = true ∧
    (de (gEnv 11) (.path "ResponseData") (gPayload 80)).toOption.isSome = true ∧
    rankCheck (gEnv 40) = true := by decide +kernel

/-! ## 3. many `Box`es under a flattened member: `BoxBound` is needed -/

def boxes : Nat → RTy → RTy
  | 0, t => t
  | n+1, t => .box (boxes n t)

/-- `struct A { #[serde(flatten)] f: Box<…Box<F>…> }` (24 `Box`es), `struct F { w: Option<String> }`: valid Rust, and
    serde reads `{}` at `A` (`Box<T>: Deserialize` delegates to `T`); never emitted by the generator -/
def boxEnv : Env :=
  { items := [.struct "A" [] none [{ rust := "f", ty := boxes 24 (.path "F"), flatten := true }],
              .struct "F" [] none [{ rust := "w", ty := .opt (.path "String") }]] }

/-- **the fuel matters at and above `deFuel`** on an environment that is acyclic but not `BoxBound _ 1`: `de` runs
    out of fuel, a larger fuel reads the payload -/
theorem box_fuel_matters :
    deFuel boxEnv (.obj []) = 24 ∧
    de boxEnv (.path "A") (.obj []) = .error (.unmodelled "fuel") ∧
    deTy boxEnv false 40 (.path "A") (.obj []) = .ok (.record [("f", .record [("w", .unit)])]) ∧
    boxBoundCheck boxEnv 1 = false ∧ boxBoundCheck boxEnv 24 = true ∧
    ¬ EnvOK boxEnv := by
  refine ⟨rfl, by rfl, by rfl, by decide +kernel, by decide +kernel,
    not_envOK_of_de (t := .path "A") (j := .obj []) (by decide +kernel)⟩

/-! ## 4. cycles: `Acyclic` is needed -/

/-- `type A = B; type B = A` -/
def cycEnv : Env := { items := [.alias "A" true (.path "B"), .alias "B" true (.path "A")] }

theorem alias_cycle_aux (b : Bool) (j : Json) : ∀ fuel,
    dePath cycEnv b fuel "A" j = .error (.unmodelled "fuel") ∧ dePath cycEnv b fuel "B" j = .error (.unmodelled "fuel") := by
  intro fuel
  induction fuel with
  | zero => exact ⟨by rw [dePath]; rfl, by rw [dePath]; rfl⟩
  | succ n ih =>
    have hA : dePrim "A" j = none := by simp [dePrim]
    have hB : dePrim "B" j = none := by simp [dePrim]
    have fA : cycEnv.find "A" = some (.alias "A" true (.path "B")) := by rfl
    have fB : cycEnv.find "B" = some (.alias "B" true (.path "A")) := by rfl
    refine ⟨?_, ?_⟩
    · rw [dePath, hA]; simp only [fA, deTyWith]; exact ih.2
    · rw [dePath, hB]; simp only [fB, deTyWith]; exact ih.1

/-- on a cycle of aliases the model answers the fuel error at EVERY fuel: fuel independence holds trivially, but
    `de_never_out_of_fuel` needs the rank hypothesis (rustc rejects such a module: E0391) -/
theorem alias_cycle_always_out_of_fuel (b : Bool) (fuel : Nat) (j : Json) :
    dePath cycEnv b fuel "A" j = .error (.unmodelled "fuel") ∧ de cycEnv (.path "A") j = .error (.unmodelled "fuel") ∧
    ¬ EnvOK cycEnv := by
  have h : de cycEnv (.path "A") j = .error (.unmodelled "fuel") := (alias_cycle_aux false j _).1
  exact ⟨(alias_cycle_aux b j fuel).1, h, fun hok => de_never_out_of_fuel hok _ j h⟩

/-- `fragment F on Human { height ...G }`, `fragment G on Human { height ...F }`, `query Q { me { ...F } }`: two
    fragments spreading each other at the same level -/
def spreadCycleCtx : Ctx :=
  { s := gSchema,
    q := { operations := [gOp],
           fragments := [{ name := "F", on := .object 1, sels := [.field none 2 [], .spread 1] },
                         { name := "G", on := .object 1, sels := [.field none 2 [], .spread 0] }] },
    o := {}, cs := ⟨id, id⟩ }

def spreadCycleEnv : Env := { items := (responseForQuery spreadCycleCtx 0).toOption.getD [] }

/-- **`Acyclic` does not hold of every emitted module**: for this (GraphQL-invalid) document the generator succeeds,
    the module passes `moduleOk` and compiles (`struct F { height, #[serde(flatten)] g: Box<G> }`,
    `struct G { height, #[serde(flatten)] f: Box<F> }`), serde recurses forever on `{"me": {}}` — the model answers the
    fuel error (here at the fuel `de` passes and at 1000) -/
theorem spread_cycle_module_not_acyclic :
    (responseForQuery spreadCycleCtx 0).toOption.isSome = true ∧
    C01.E2E.moduleOk spreadCycleCtx spreadCycleEnv.items = true ∧
    boxBoundCheck spreadCycleEnv 1 = true ∧
    isFuelErr (de spreadCycleEnv (.path "ResponseData") (.obj [("me", .obj [])])) = true ∧
    isFuelErr (deTy spreadCycleEnv false 1000 (.path "ResponseData") (.obj [("me", .obj [])])) = true ∧
    ¬ EnvOK spreadCycleEnv ∧ ∀ d, ¬ Acyclic spreadCycleEnv d := by
  have h1 : isFuelErr (de spreadCycleEnv (.path "ResponseData") (.obj [("me", .obj [])])) = true := by decide +kernel
  have h2 : boxBoundCheck spreadCycleEnv 1 = true := by decide +kernel
  refine ⟨by decide +kernel, by decide +kernel, h2, h1, by decide +kernel, not_envOK_of_de h1, fun d ha => ?_⟩
  exact not_envOK_of_de h1 (envOK_of_acyclic ha (boxBound_of_check h2))

/-! ## 5. `denied_key_ignored_de` needs the hypothesis -/

/-- on `boxEnv` nothing names the key `zzz`, yet the payload with it is read (it is larger: more fuel) and the one
    without it runs out of fuel -/
theorem denied_key_not_ignored_without_rank :
    KeyFree boxEnv "zzz" "A" ∧
    (de boxEnv (.path "A") (.obj [("zzz", .null)])).toOption.isSome = true ∧
    de boxEnv (.path "A") (.obj (eraseKey "zzz" [("zzz", .null)])) = .error (.unmodelled "fuel") :=
  ⟨keyFree_of_all _ _ _ (by decide +kernel), by decide +kernel, by rfl⟩

/-! ## 6. the check on generated modules; the theorems applied -/

/-- the 25-item module of `ComposedC14` (flatten members, tagged enums, aliases, extern scalars) -/
theorem denyEnv_ok : rankCheckS denyEnv = true := by decide +kernel

/-- the recursive-fragment module of `C01RecursiveE` (`Box` on a flattened member and on an alias) -/
theorem rxEnv_ok : rankCheckS { items := C01.E2E.rxItems } = true := by decide +kernel

/-- the concrete modules of the end-to-end theorems (`C01EndToEnd`, `C01Abstract`, `C01AbstractH`, `C01RecursiveE`,
    `C01VariantSpread`), in the environment those theorems use (`moduleEnv`: items + the consumer's scalars), and the
    25-item module of `C02Response`: all fit even the single width (`rankCheckS`: `EnvOK` and `EnvOKS`) -/
theorem e2e_example_modules_ok :
    rankCheckS (C01.E2E.moduleEnv C01.E2E.exCtx C01.E2E.exItems) = true ∧
    rankCheckS (C01.E2E.moduleEnv C01.E2E.vxCtx C01.E2E.vxItems) = true ∧
    rankCheckS (C01.E2E.moduleEnv C01.E2E.fxCtx C01.E2E.fxItems) = true ∧
    rankCheckS (C01.E2E.moduleEnv C01.E2E.rxCtx C01.E2E.rxItems) = true ∧
    rankCheckS (C01.E2E.moduleEnv (C01.E2E.wsCtx C01.E2E.wsSels) C01.E2E.wsItems) = true ∧
    rankCheckS (C01.E2E.moduleEnv (C01.E2E.bsCtx C01.E2E.bsSels) C01.E2E.bsItems) = true ∧
    rankCheckS { items := (responseForQuery C02.richCtx 0).toOption.getD [],
                 externs := [("Ext", .path "String"), ("super::Date", .path "String")] } = true := by
  decide +kernel

/-- the same modules pass the executable `acyclicCheck` (with `responseForQuery_boxBound` this is all `EnvOK` needs of
    an emitted module: `module_envOK_of_check`); so does the 16-fragment module, while the spread-cycle module fails -/
theorem e2e_example_modules_acyclic :
    acyclicCheck (C01.E2E.moduleEnv C01.E2E.exCtx C01.E2E.exItems) = true ∧
    acyclicCheck (C01.E2E.moduleEnv C01.E2E.vxCtx C01.E2E.vxItems) = true ∧
    acyclicCheck (C01.E2E.moduleEnv C01.E2E.fxCtx C01.E2E.fxItems) = true ∧
    acyclicCheck (C01.E2E.moduleEnv C01.E2E.rxCtx C01.E2E.rxItems) = true ∧
    acyclicCheck (C01.E2E.moduleEnv (C01.E2E.wsCtx C01.E2E.wsSels) C01.E2E.wsItems) = true ∧
    acyclicCheck (C01.E2E.moduleEnv (C01.E2E.bsCtx C01.E2E.bsSels) C01.E2E.bsItems) = true ∧
    acyclicCheck (gEnv 16) = true ∧ acyclicCheck spreadCycleEnv = false := by
  decide +kernel

/-- `module_envOK_of_check` applied: the recursive-fragment module of `C01RecursiveE`, in the environment of the
    end-to-end theorems -/
theorem rx_module_envOK : EnvOK (C01.E2E.moduleEnv C01.E2E.rxCtx C01.E2E.rxItems) ∧
    EnvOKS (C01.E2E.moduleEnv C01.E2E.rxCtx C01.E2E.rxItems) :=
  module_envOK_of_check C01.E2E.rx_gen e2e_example_modules_acyclic.2.2.2.1

/-- **target 4 on the generated module of `ComposedC14`**: the denied key `when` is ignored by `Serde.de`, for every
    payload object, at every named type -/
theorem denyEnv_denied_key_ignored (p : String) (kvs : List (String × Json)) :
    de denyEnv (.path p) (.obj kvs) = de denyEnv (.path p) (.obj (eraseKey "when" kvs)) :=
  denied_key_ignored_de (envOK_of_checkS denyEnv_ok).1 "when" p kvs (denyEnv_keyFree p)

/-- fuel independence on the recursive-fragment module, every payload and type -/
example (t : RTy) (j : Json) (fuel : Nat) (h : deFuel { items := C01.E2E.rxItems } j ≤ fuel) :
    deTy { items := C01.E2E.rxItems } false fuel t j = de { items := C01.E2E.rxItems } t j :=
  de_fuel_indep (envOK_of_checkS rxEnv_ok).1 t j fuel h

/-- … and the round trip never runs out of fuel on it -/
example (t : RTy) (j : Json) : roundtrip { items := C01.E2E.rxItems } t j ≠ .error (.unmodelled "fuel") :=
  roundtrip_never_out_of_fuel (envOK_of_checkS rxEnv_ok).1 (envOK_of_checkS rxEnv_ok).2 t j

end SerdeFuel
end GqlVerif
