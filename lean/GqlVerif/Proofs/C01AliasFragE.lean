import GqlVerif.Proofs.C01AliasFragK
import GqlVerif.Proofs.C01NestedE
/-!
# C01 / C03 end to end (`AliasFragOp`), part E: the emitted module; `aliasfrag_precise_iff`

* `fragEnvA_of` — the environment hypotheses of parts C / D hold for the module `responseForQuery` emits: the items of
  every reachable spread fragment of any rank are in the module (`aliasfrag_fragment_shape`: **the alias item
  `type F = G;` for a lone-spread body**), by induction on the rank;
* `topEnvA_of_module`; **`aliasfrag_precise_iff`** (C03): `Serde.de (moduleEnv c items) ResponseData j` succeeds **iff**
  `conformsLooseN (wholeA c R) … false op.sels j`; `aliasfrag_precise`.
-/
set_option linter.unusedSimpArgs false
set_option linter.unusedVariables false
set_option linter.unusedSectionVars false
set_option linter.unnecessarySimpa false

namespace GqlVerif
namespace C01AF
open Serde Spec C13 C03 Codegen C01 C01.E2E C01M C01N

section EnvOfA
variable {c : Ctx} {items : List Item} {u : UsedTypes} {root : List Sel} (M : ModFacts c items u root)
  (hfr : FragsIn c items root) (hfrB : FragsInB c items root)
include M hfr hfrB

/-- the environment of a reachable spread fragment of rank `r`, by induction on the rank -/
theorem fragEnvA_of
    (hmemN : ∀ g i r, C02.Reach c.q root (.spread g) → fragOkA c.s c.q c.o r (.object i) g = true →
      ∀ f, c.q.fragments[g]? = some f → ∀ it ∈ bodyItemsM c f.name (c.cs.camel f.name) f.sels, it ∈ items) :
    ∀ (r : Nat) (i g : Nat), fragOkA c.s c.q c.o r (.object i) g = true → C02.Reach c.q root (.spread g) →
      FragEnvA (moduleEnv c items) c r g
  | 0, i, g => by
    intro h hr
    rw [FragEnvA]
    rw [fragOkA] at h
    exact fragEnv_of M hfr g i hr h
  | r + 1, i, g => by
    intro h hr
    by_cases hold : fragOkA c.s c.q c.o r (.object i) g = true
    · obtain ⟨f, hf, hon, _, _⟩ := fragOkA_spec c.s c.q c.o r _ g hold
      have hfon : fragOn c.q g = .object i := by simp [fragOn, hf, hon]
      rw [FragEnvA, hfon, if_pos hold]
      exact fragEnvA_of hmemN r i g hold hr
    · have holdf : fragOkA c.s c.q c.o r (.object i) g = false := by simpa using hold
      have hnew := h
      rw [fragOkA, holdf, Bool.false_or] at hnew
      obtain ⟨f, hf, hon, _, _, hb⟩ := fragNewA_parts hnew
      have hfon : fragOn c.q g = .object i := by simp [fragOn, hf, hon]
      rw [FragEnvA, hfon, if_neg hold]
      simp only [hf]
      have hin := hmemN g i (r + 1) hr h f hf
      rw [hon] at hb
      by_cases hsp : ∃ g', f.sels = [Sel.spread g']
      · -- a lone spread: the alias item `type F = G;`
        obtain ⟨g', hg'⟩ := hsp
        rw [hg'] at hb hin ⊢
        have hokg' : fragOkA c.s c.q c.o r (.object i) g' = true := hb
        unfold BodyEnvN
        simp only
        exact ⟨aliasEnv_of M hfr _ _ (hin _ (by simp [bodyItemsM])),
          fragEnvA_of hmemN r i g' hokg' (reach_step_spread hr hf (by rw [hg']; simp))⟩
      · have hnl : ∀ g', f.sels ≠ [Sel.spread g'] := fun g' hg' => hsp ⟨g', hg'⟩
        rw [bodyItemsM_not_lone c _ _ hnl] at hin
        rw [nBody_not_lone hnl] at hb
        exact bodyEnvN_mk hnl ⟨structEnv_of M _ _ (hin _ (by simp)),
          envSelsN_of M hfr hfrB (fun p g' h' hr' => fragEnvA_of hmemN r p g' h' hr') f.sels _ i hb
            (fun x hx it h => hin it (by simp [mem_itemsMs hx h])) (fun x hx => reach_step_spread hr hf hx)⟩

end EnvOfA

/-! ## top level -/

theorem topEnvA_of_module {c : Ctx} {opIdx : Nat} {op : ROperation} {items : List Item}
    (hop : c.q.operations[opIdx]? = some op) (ht : AliasFragOp c op = true)
    (hgen : responseForQuery c opIdx = .ok items) (hok : moduleOk c items = true) :
    TopEnvA (moduleEnv c items) c op := by
  obtain ⟨hn, _, hsels⟩ := aliasFragOp_parts ht
  refine ⟨?_, (aliasfrag_module_envOK hop ht hgen hok).1⟩
  have hshape := aliasfrag_items_shape c op (List.mem_of_getElem? hop) ht
  obtain ⟨u, S, E, F, I, V, o, resp, hu, hS, hE, hF, ho, hresp, hitems⟩ := responseForQuery_parts_full hgen
  rw [hop] at ho; cases ho
  rw [hshape] at hresp
  cases hresp
  have hok' := hok
  simp only [moduleOk, Bool.and_eq_true, List.all_eq_true, decide_eq_true_eq, List.isEmpty_iff] at hok'
  obtain ⟨⟨⟨⟨hnd, hnp⟩, hext⟩, htab⟩, hnoext⟩ := hok'
  have hsub : ∀ it ∈ bodyItemsM c "ResponseData" (c.cs.camel op.name) op.sels, it ∈ items := by
    intro it h; rw [hitems]; simp [h]
  have M : ModFacts c items u op.sels := {
    hn := hn
    nodup := nodup_iff'.mp hnd
    np := hnp
    ext := fun x hx => ⟨(hext x hx).1, fun it hit => by simpa using (hext x hx).2 it hit⟩
    tables := fun n d sp vs ser de hm => by simpa using htab _ hm
    builtin := fun it h => by rw [hitems]; simp [h]
    scalars := fun k n hk hn' hnd' => by
      have := scalarItems_mem hS hk hn' hnd'
      simp only [hn, Normalization.scalarName, Normalization.camelCase] at this
      rw [hitems]; simp [this]
    enums := fun k en hk hen => by
      have := enumItems_mem hE hk hen (by simp [hnoext])
      rw [hitems]; simp [this]
    used := C02.selected_types_used c.s c.q opIdx u hu op hop }
  -- the items of every spread fragment are in the module
  have hfragmem : ∀ g i, C02.Reach c.q op.sels (.spread g) → fragOk c.s c.q c.o (.object i) g = true →
      ∀ f, c.q.fragments[g]? = some f → structItemsV c f.name (c.cs.camel f.name) f.sels ∈ F := by
    intro g i hr hokg f hf
    have hused : g ∈ u.fragments := M.used _ hr
    obtain ⟨its, hits, hfi⟩ := C02.mapM_ok_of_mem hF g ((C02.mem_sortNat _ _).mpr hused)
    obtain ⟨f', hf', hshape⟩ := fragment_struct_shape c hn (.object i) g i rfl hokg
    rw [hf] at hf'; cases hf'
    rw [hshape] at hfi; cases hfi
    exact hits
  have hfragmemB : ∀ g ty, C02.Reach c.q op.sels (.spread g) → absHyp c.s ty → fragOkB c.s c.q c.o ty g = true →
      ∀ f, c.q.fragments[g]? = some f → absItemsV c f.name (c.cs.camel f.name) ty f.sels ∈ F := by
    intro g ty hr hty hokg f hf
    have hused : g ∈ u.fragments := M.used _ hr
    obtain ⟨its, hits, hfi⟩ := C02.mapM_ok_of_mem hF g ((C02.mem_sortNat _ _).mpr hused)
    obtain ⟨f', hf', hshape⟩ := fragment_abs_shape c hn ty g hty hokg
    rw [hf] at hf'; cases hf'
    rw [hshape] at hfi; cases hfi
    exact hits
  have hfr : FragsIn c items op.sels := by
    intro g i hr hokg f hf it hit
    rw [hitems]
    have : it ∈ F.flatten := List.mem_flatten.mpr ⟨_, hfragmem g i hr hokg f hf, hit⟩
    simp [this]
  have hfrB : FragsInB c items op.sels := by
    intro g ty hr hty hokg f hf it hit
    rw [hitems]
    have : it ∈ F.flatten := List.mem_flatten.mpr ⟨_, hfragmemB g ty hr hty hokg f hf, hit⟩
    simp [this]
  have hmemN : ∀ g i r, C02.Reach c.q op.sels (.spread g) → fragOkA c.s c.q c.o r (.object i) g = true →
      ∀ f, c.q.fragments[g]? = some f → ∀ it ∈ bodyItemsM c f.name (c.cs.camel f.name) f.sels, it ∈ items := by
    intro g i r hr hokg f hf it hit
    have hused : g ∈ u.fragments := M.used _ hr
    obtain ⟨its, hits, hfi⟩ := C02.mapM_ok_of_mem hF g ((C02.mem_sortNat _ _).mpr hused)
    obtain ⟨f', hf', _, hshape⟩ := aliasfrag_fragment_shape c hn r i g hokg
    rw [hf] at hf'; cases hf'
    rw [hshape] at hfi; cases hfi
    rw [hitems]
    have : it ∈ F.flatten := List.mem_flatten.mpr ⟨_, hits, hit⟩
    simp [this]
  have hfenv : ∀ p g, fragOkA c.s c.q c.o c.q.fragments.length (.object p) g = true →
      C02.Reach c.q op.sels (.spread g) → FragEnvA (moduleEnv c items) c c.q.fragments.length g :=
    fun p g h hr => fragEnvA_of M hfr hfrB hmemN _ p g h hr
  by_cases hsp : ∃ g, op.sels = [Sel.spread g]
  · obtain ⟨g, hg⟩ := hsp
    have hokg : fragOkA c.s c.q c.o c.q.fragments.length (.object op.objectId) g = true := by
      rw [hg] at hsels; exact hsels
    have hr : C02.Reach c.q op.sels (.spread g) := .here (by rw [hg]; simp)
    unfold BodyEnvN
    rw [hg]
    simp only
    exact ⟨aliasEnv_of M hfr _ _ (hsub _ (by rw [hg]; simp [bodyItemsM])), hfenv _ g hokg hr⟩
  · have hnl : ∀ g, op.sels ≠ [Sel.spread g] := fun g hg => hsp ⟨g, hg⟩
    have hsels' := hsels
    rw [nBody_not_lone hnl] at hsels'
    have hbody := bodyItemsM_not_lone c "ResponseData" (c.cs.camel op.name) hnl
    rw [hbody] at hsub
    exact bodyEnvN_mk hnl ⟨structEnv_of M _ _ (hsub _ (by simp)),
        envSelsN_of M hfr hfrB hfenv op.sels _ op.objectId hsels'
          (fun x hx it h => hsub it (by simp [mem_itemsMs hx h])) (fun x hx => .here hx)⟩

/-- **`aliasfrag_precise_iff` (C03), as an equivalence**: on the module `responseForQuery` emits for an operation of
    `AliasFragOp`, `ResponseData` accepts exactly `conformsLooseN (wholeA c R)`, `R` the number of fragments -/
theorem aliasfrag_precise_iff (c : Ctx) (opIdx : Nat) (op : ROperation) (items : List Item)
    (hop : c.q.operations[opIdx]? = some op) (ht : AliasFragOp c op = true) (hnd : fragNamesOk c = true)
    (hk : aliasKeysOk c op = true)
    (hgen : responseForQuery c opIdx = .ok items) (hok : moduleOk c items = true) (j : Json) :
    okB (Serde.de (moduleEnv c items) (.path "ResponseData") j) =
      conformsLooseN (wholeA c c.q.fragments.length) c.s c.q c.o false op.sels j :=
  top_accepts_iffA (moduleEnv c items) c op ht hnd hk
    (topEnvA_of_module hop ht hgen hok) j

theorem aliasfrag_precise (c : Ctx) (opIdx : Nat) (op : ROperation) (items : List Item)
    (hop : c.q.operations[opIdx]? = some op) (ht : AliasFragOp c op = true) (hnd : fragNamesOk c = true)
    (hk : aliasKeysOk c op = true)
    (hgen : responseForQuery c opIdx = .ok items) (hok : moduleOk c items = true) (j : Json) (v : Val)
    (hd : Serde.de (moduleEnv c items) (.path "ResponseData") j = .ok v) :
    conformsLooseN (wholeA c c.q.fragments.length) c.s c.q c.o false op.sels j = true := by
  rw [← aliasfrag_precise_iff c opIdx op items hop ht hnd hk hgen hok j, hd]; rfl

end C01AF
end GqlVerif
