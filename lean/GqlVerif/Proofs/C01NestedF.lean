import GqlVerif.Proofs.C01NestedE
/-!
# C01 end to end (`NestedOp`), part F: the specification side; `nested_accepts`

* `expandSelsW ex` — every spread `...g` replaced by `ex g`; `exN q r g` — the inline fragment `... on T { body }` with the
  spreads of the body expanded again, `r` levels deep (GraphQL §6.4.3 CollectFields treats a spread like an inline
  fragment with the fragment's type condition and selection set); rank `0` is `expandSel` of `C01AbstractG`;
* `conformsOpN c op j` — the specification `conformsV` on the root selection set with every spread expanded
  (`c.q.fragments.length` levels: all of them, for an operation of the class);
* `slBodyN_of`, `slFieldN` / `slOwnN`, `slMemN` — conforming ⇒ accepted, parametric as part C;
* `specN` — by induction on the rank: a response that conforms to the expanded fragment is accepted by the fragment struct;
* **`nested_accepts`** — every conforming response is accepted by the emitted `ResponseData`.
-/
set_option linter.unusedSimpArgs false
set_option linter.unusedVariables false
set_option linter.unusedSectionVars false
set_option linter.unnecessarySimpa false

namespace GqlVerif
namespace C01N
open Serde Spec C13 C03 Codegen C01 C01.E2E C01M

mutual
  /-- every spread `...g` replaced by `ex g` -/
  def expandSelW (ex : Nat → Sel) : Sel → Sel
    | .field a fid sub => .field a fid (expandSelsW ex sub)
    | .inline t sub => .inline t (expandSelsW ex sub)
    | .spread g => ex g
    | .typename => .typename
  def expandSelsW (ex : Nat → Sel) : List Sel → List Sel
    | [] => []
    | x :: xs => expandSelW ex x :: expandSelsW ex xs
end

/-- the inline fragment a spread of `g` stands for, the spreads of its body expanded `r` levels deep -/
def exN (q : Query) : Nat → Nat → Sel
  | 0, g => expandSel q (.spread g)
  | r + 1, g =>
    match q.fragments[g]? with
    | some f => .inline f.on (expandSelsW (exN q r) f.sels)
    | none => .spread g

/-- **a response conforms to the operation**: the response object of the root selection set, every spread read as the
    inline fragment `... on T { body }`, recursively, executed on the root object type -/
def conformsOpN (c : Ctx) (op : ROperation) (j : Json) : Bool :=
  conformsV c.s op.objectId (expandSelsW (exN c.q c.q.fragments.length) op.sels) j

mutual
  theorem expandSelW_noSpread (ex : Nat → Sel) : ∀ (x : Sel), noSpread x = true → expandSelW ex x = x
    | .field a fid sub => by intro h; rw [noSpread] at h; rw [expandSelW, expandSelsW_noSpreads ex sub h]
    | .inline t sub => by intro h; rw [noSpread] at h; rw [expandSelW, expandSelsW_noSpreads ex sub h]
    | .spread g => by intro h; simp [noSpread] at h
    | .typename => by intro _; rfl
  theorem expandSelsW_noSpreads (ex : Nat → Sel) : ∀ (sels : List Sel), noSpreads sels = true → expandSelsW ex sels = sels
    | [] => by intro _; rfl
    | x :: xs => by
      intro h
      rw [noSpreads, Bool.and_eq_true] at h
      rw [expandSelsW, expandSelW_noSpread ex x h.1, expandSelsW_noSpreads ex xs h.2]
end

mutual
  theorem expandSelW_congr (q : Query) (ex : Nat → Sel) : ∀ (x : Sel),
      (∀ g ∈ spreadIds x, ex g = expandSel q (.spread g)) → expandSelW ex x = expandSel q x
    | .field a fid sub => by
      intro h; rw [spreadIds] at h; rw [expandSelW, expandSel, expandSelsW_congr q ex sub h]
    | .inline t sub => by
      intro h; rw [spreadIds] at h; rw [expandSelW, expandSel, expandSelsW_congr q ex sub h]
    | .spread g => by intro h; rw [expandSelW]; exact h g (by simp [spreadIds])
    | .typename => by intro _; rfl
  theorem expandSelsW_congr (q : Query) (ex : Nat → Sel) : ∀ (sels : List Sel),
      (∀ g ∈ spreadIdss sels, ex g = expandSel q (.spread g)) → expandSelsW ex sels = expandSels q sels
    | [] => by intro _; rfl
    | x :: xs => by
      intro h
      rw [spreadIdss] at h
      rw [expandSelsW, expandSels, expandSelW_congr q ex x (fun g hg => h g (List.mem_append_left _ hg)),
        expandSelsW_congr q ex xs (fun g hg => h g (List.mem_append_right _ hg))]
end

theorem exN_spreadfree (q : Query) (r g : Nat) (f : RFragment) (hf : q.fragments[g]? = some f)
    (hns : noSpreads f.sels = true) : exN q r g = .inline f.on f.sels := by
  cases r with
  | zero => simp [exN, expandSel, hf]
  | succ r => simp [exN, hf, expandSelsW_noSpreads _ _ hns]

theorem exN_fragOkAny {s : Schema} {q : Query} {o : Options} {g : Nat} (h : FragOkAny s q o g) (r : Nat) :
    exN q r g = expandSel q (.spread g) := by
  rcases h with ⟨i, h⟩ | ⟨ty, _, h⟩
  · obtain ⟨f, hf, _, _, hv, _⟩ := fragOk_parts h
    rw [exN_spreadfree q r g f hf (noSpreads_of_vSels s o f.sels false hv)]
    simp [expandSel, hf]
  · obtain ⟨f, hf, _, _, hv, _⟩ := fragOkB_parts h
    rw [exN_spreadfree q r g f hf (noSpreads_of_vSels s o f.sels true hv)]
    simp [expandSel, hf]

/-! ## conforming ⇒ accepted, parametric -/

section SLN
variable (s : Schema) (q : Query) (o : Options) (ok : TypeId → Nat → Bool) (whole : Nat → Bool → Json → Bool)
  (ex : Nat → Sel)
  (hexA : ∀ g, FragOkAny s q o g → ex g = expandSel q (.spread g))
  (hmem : ∀ i g, ok (.object i) g = true → ∀ kvs, (∀ k, countKey k kvs ≤ 1) → confSelV s i (ex g) kvs = true →
    whole g true (.obj kvs) = true)
  (hali : ∀ i g, ok (.object i) g = true → ∀ b j, conformsV s i [ex g] j = true → whole g b j = true)

include hmem in
theorem slMemN (i : Nat) (kvs : List (String × Json)) (hc : ∀ k, countKey k kvs ≤ 1) : ∀ (sels : List Sel),
    nSels ok s q o (.object i) sels = true → confSelsV s i (expandSelsW ex sels) kvs = true →
    looseMemN whole sels kvs = true
  | [], _, _ => by simp [looseMemN]
  | x :: xs, ht, h => by
    obtain ⟨hx, hxs⟩ := nSels_cons ht
    rw [expandSelsW, confSelsV, Bool.and_eq_true] at h
    have ih := slMemN i kvs hc xs hxs h.2
    cases x with
    | spread g =>
      have hokg : ok (.object i) g = true := by simpa [nSel] using hx
      rw [looseMemN, ih, Bool.and_true]
      exact hmem i g hokg kvs hc (by simpa [expandSelW] using h.1)
    | field a fid sub => simpa [looseMemN] using ih
    | inline t sub => simpa [looseMemN] using ih
    | typename => simpa [looseMemN] using ih

include hmem hali in
theorem slBodyN_of (sels : List Sel)
    (IHown : ∀ b i kvs, nSels ok s q o (.object i) sels = true → (∀ k, countKey k kvs ≤ 1) →
      confSelsV s i (expandSelsW ex sels) kvs = true → looseOwnN whole s q o b sels kvs = true) :
    ∀ b i j, nBody ok s q o (.object i) sels = true → conformsV s i (expandSelsW ex sels) j = true →
      conformsLooseN whole s q o b sels j = true := by
  intro b i j ht hc
  by_cases hsp : ∃ g, sels = [Sel.spread g]
  · obtain ⟨g, rfl⟩ := hsp
    have hokg : ok (.object i) g = true := ht
    simp only [conformsLooseN]
    exact hali i g hokg b j (by simpa [expandSelsW, expandSelW] using hc)
  · have hnl : ∀ g, sels ≠ [Sel.spread g] := fun g hg => hsp ⟨g, hg⟩
    rw [nBody_not_lone hnl] at ht
    rw [conformsLooseN_not_lone hnl]
    cases j with
    | obj kvs =>
      simp only [conformsV, Bool.and_eq_true] at hc
      have hcnt := countKey_le_one_of_nodup (nodup_iff'.mp hc.1.1)
      simp only [IHown b i kvs ht hcnt hc.2, slMemN s q o ok whole ex hmem i kvs hcnt sels ht hc.2, Bool.and_self]
    | null => simp [conformsV] at hc
    | bool _ => simp [conformsV] at hc
    | int _ => simp [conformsV] at hc
    | num _ => simp [conformsV] at hc
    | str _ => simp [conformsV] at hc
    | arr _ => simp [conformsV] at hc

mutual
  theorem slFieldN : ∀ (x : Sel) (p : TypeId) (b : Bool) (v : Json),
      (∀ g, FragOkAny s q o g → ex g = expandSel q (.spread g)) →
      (∀ i g, ok (.object i) g = true → ∀ kvs, (∀ k, countKey k kvs ≤ 1) → confSelV s i (ex g) kvs = true →
        whole g true (.obj kvs) = true) →
      (∀ i g, ok (.object i) g = true → ∀ b j, conformsV s i [ex g] j = true → whole g b j = true) →
      nSel ok s q o p x = true →
      strictFieldV s (expandSelW ex x) v = true → looseFieldN whole s q o b x v = true
    | .field a fid sub, p, b, v => by
      intro hexA hmem hali ht h
      have IH := slOwnN sub
      obtain ⟨sf, hsf⟩ := nSel_field_some ht
      by_cases hobj : ∃ i, sf.ty.id = .object i
      · obtain ⟨i, hid⟩ := hobj
        obtain ⟨_, _, hobjs, hbody⟩ := nSel_obj hsf hid ht
        simp only [expandSelW, strictFieldV] at h
        rw [looseFieldN]
        simp only [hsf, hid, Bool.and_eq_true] at h ⊢
        cases ho : s.objects[i]? with
        | none => simp [ho] at hobjs
        | some ob =>
          simp only []
          rw [looseLambdaN]
          refine (accepts_mono _ _ ?_ _).2 v h
          intro j hj
          simp only [conformsAt, List.any_eq_true, List.mem_range, Bool.and_eq_true, fragApplies, beq_iff_eq] at hj
          obtain ⟨rt, _, hrt, hc⟩ := hj
          subst hrt
          exact slBodyN_of s q o ok whole ex hmem hali sub
            (fun b' i' kvs h1 h2 h3 => IH (.object i') b' i' kvs hexA hmem hali h1 h2 h3) b i j hbody hc
      · have hno : ∀ i, sf.ty.id ≠ .object i := fun i h => hobj ⟨i, h⟩
        have hs := nSel_nonobj hsf hno ht
        rw [looseFieldN_nonobj hsf hno]
        have hexp : expandSelW ex (.field a fid sub) = expandSel q (.field a fid sub) :=
          expandSelW_congr q ex _ (fun g hg => hexA g (fragOk_of_spreadIdS s q o _ false hs g hg (by simp)))
        rw [hexp] at h
        exact slFieldS s q o _ false b v hs h
    | .spread _, _, _, _ => by intro _ _ _ _ _; simp [looseFieldN]
    | .inline _ _, _, _, _ => by intro _ _ _ ht; simp [nSel] at ht
    | .typename, _, _, _ => by intro _ _ _ _ _; simp [looseFieldN]
  theorem slOwnN : ∀ (sels : List Sel) (p : TypeId) (b : Bool) (i : Nat) (kvs : List (String × Json)),
      (∀ g, FragOkAny s q o g → ex g = expandSel q (.spread g)) →
      (∀ i g, ok (.object i) g = true → ∀ kvs, (∀ k, countKey k kvs ≤ 1) → confSelV s i (ex g) kvs = true →
        whole g true (.obj kvs) = true) →
      (∀ i g, ok (.object i) g = true → ∀ b j, conformsV s i [ex g] j = true → whole g b j = true) →
      nSels ok s q o p sels = true → (∀ k, countKey k kvs ≤ 1) →
      confSelsV s i (expandSelsW ex sels) kvs = true → looseOwnN whole s q o b sels kvs = true
    | [], _, _, _, _, _, _, _, _, _, _ => by simp [looseOwnN]
    | x :: xs, p, b, i, kvs, hexA, hmem, hali, ht, hc, h => by
      obtain ⟨hx, hxs⟩ := nSels_cons ht
      rw [expandSelsW, confSelsV, Bool.and_eq_true] at h
      have ih := slOwnN xs p b i kvs hexA hmem hali hxs hc h.2
      cases x with
      | field a fid sub =>
        have hcx := h.1
        rw [expandSelW, confSelV_field] at hcx
        rw [looseOwnN.eq_2, ih, Bool.and_true]
        cases hsf : s.fields[fid]? with
        | none => simp [hsf] at hcx
        | some sf =>
          simp only [hsf] at hcx ⊢
          cases hl : Json.lookup (a.getD sf.name) kvs with
          | none => simp [hl] at hcx
          | some v =>
            simp only [hl] at hcx ⊢
            have := slFieldN (.field a fid sub) p b v hexA hmem hali hx (by rw [expandSelW]; exact hcx)
            simp [hc, this]
      | spread g => simpa [looseOwnN] using ih
      | inline t sub => simp [nSel] at hx
      | typename => simpa [looseOwnN] using ih
end

include hexA hmem hali in
/-- every response conforming to the specification (on the expanded selection set) is accepted -/
theorem conformsN_loose (b : Bool) (i : Nat) (sels : List Sel) (j : Json)
    (ht : nBody ok s q o (.object i) sels = true) (h : conformsV s i (expandSelsW ex sels) j = true) :
    conformsLooseN whole s q o b sels j = true :=
  slBodyN_of s q o ok whole ex hmem hali sels
    (fun b' i' kvs h1 h2 h3 => slOwnN s q o ok whole ex sels (.object i') b' i' kvs hexA hmem hali h1 h2 h3) b i j ht h

end SLN

/-! ## the rank recursion -/

/-- **a response conforming to the expanded fragment is accepted by the fragment struct** (by induction on the rank) -/
theorem specN (c : Ctx) : ∀ (r i g : Nat), fragOkN c.s c.q c.o r (.object i) g = true → ∀ r', r ≤ r' →
    (∀ kvs, (∀ k, countKey k kvs ≤ 1) → confSelV c.s i (exN c.q r' g) kvs = true →
      wholeN c r g true (.obj kvs) = true) ∧
    (∀ b j, conformsV c.s i [exN c.q r' g] j = true → wholeN c r g b j = true)
  | 0, i, g => by
    intro h r' _
    rw [fragOkN] at h
    obtain ⟨fr, hfr, hon, _, hv, _⟩ := fragOk_parts h
    have hsels : fragSels c.q g = fr.sels := by simp [fragSels, hfr]
    rw [exN_spreadfree c.q r' g fr hfr (noSpreads_of_vSels c.s c.o fr.sels false hv)]
    refine ⟨fun kvs hc h1 => ?_, fun b j hc => ?_⟩
    · simp only [confSelV, hon, fragApplies, beq_self_eq_true, Bool.not_true, Bool.false_or] at h1
      simp only [wholeN, hsels, conformsLooseV]
      exact slSels c.s c.o fr.sels false true i kvs hv hc h1
    · simp only [wholeN, hsels]
      apply conformsV_loose c.s c.o b i fr.sels j hv
      cases j with
      | obj kvs =>
        simp only [conformsV, keysSelsV, keysSelV, hon, fragApplies, beq_self_eq_true,
          ↓reduceIte, List.append_nil, confSelsV, confSelV, Bool.not_true, Bool.false_or, Bool.and_true] at hc ⊢
        exact hc
      | null => simp [conformsV] at hc
      | bool _ => simp [conformsV] at hc
      | int _ => simp [conformsV] at hc
      | num _ => simp [conformsV] at hc
      | str _ => simp [conformsV] at hc
      | arr _ => simp [conformsV] at hc
  | r + 1, i, g => by
    intro h r' hr'
    have IH := specN c r
    by_cases hold : fragOkN c.s c.q c.o r (.object i) g = true
    · obtain ⟨fr, hfr, hon, _, _⟩ := fragOkN_spec c.s c.q c.o r _ g hold
      have hfon : fragOn c.q g = .object i := by simp [fragOn, hfr, hon]
      have hw : ∀ b j, wholeN c (r + 1) g b j = wholeN c r g b j := by
        intro b j; rw [wholeN, hfon, if_pos hold]
      obtain ⟨h1, h2⟩ := IH i g hold r' (by omega)
      exact ⟨fun kvs hc hh => by rw [hw]; exact h1 kvs hc hh, fun b j hh => by rw [hw]; exact h2 b j hh⟩
    · have holdf : fragOkN c.s c.q c.o r (.object i) g = false := by simpa using hold
      rw [fragOkN, holdf, Bool.false_or] at h
      obtain ⟨fr, hfr, hon, _, _, hnl, hb⟩ := fragNew_parts h
      have hfon : fragOn c.q g = .object i := by simp [fragOn, hfr, hon]
      have hsels : fragSels c.q g = fr.sels := by simp [fragSels, hfr]
      have hw : ∀ b j, wholeN c (r + 1) g b j = conformsLooseN (wholeN c r) c.s c.q c.o b fr.sels j := by
        intro b j; rw [wholeN, hfon, if_neg hold, hsels]
      obtain ⟨r'', rfl⟩ : ∃ k, r' = k + 1 := ⟨r' - 1, by omega⟩
      have hex : exN c.q (r'' + 1) g = .inline fr.on (expandSelsW (exN c.q r'') fr.sels) := by simp [exN, hfr]
      rw [hon] at hb
      have hexA : ∀ g', FragOkAny c.s c.q c.o g' → exN c.q r'' g' = expandSel c.q (.spread g') :=
        fun g' hg' => exN_fragOkAny hg' r''
      have hmem := fun i' g' (hg' : fragOkN c.s c.q c.o r (.object i') g' = true) => (IH i' g' hg' r'' (by omega)).1
      have hali := fun i' g' (hg' : fragOkN c.s c.q c.o r (.object i') g' = true) => (IH i' g' hg' r'' (by omega)).2
      have key : ∀ b kvs, (∀ k, countKey k kvs ≤ 1) → confSelsV c.s i (expandSelsW (exN c.q r'') fr.sels) kvs = true →
          conformsLooseN (wholeN c r) c.s c.q c.o b fr.sels (.obj kvs) = true := by
        intro b kvs hc hh
        rw [conformsLooseN_not_lone hnl]
        simp only [Bool.and_eq_true]
        exact ⟨slOwnN c.s c.q c.o _ (wholeN c r) (exN c.q r'') fr.sels _ b i kvs hexA hmem hali hb hc hh,
          slMemN c.s c.q c.o _ (wholeN c r) (exN c.q r'') hmem i kvs hc fr.sels hb hh⟩
      rw [hex]
      refine ⟨fun kvs hc h1 => ?_, fun b j hc => ?_⟩
      · simp only [confSelV, hon, fragApplies, beq_self_eq_true, Bool.not_true, Bool.false_or] at h1
        rw [hw]
        exact key true kvs hc h1
      · rw [hw]
        cases j with
        | obj kvs =>
          simp only [conformsV, keysSelsV, keysSelV, hon, fragApplies, beq_self_eq_true,
            ↓reduceIte, List.append_nil, confSelsV, confSelV, Bool.not_true, Bool.false_or, Bool.and_true,
            Bool.and_eq_true] at hc
          exact key b kvs (countKey_le_one_of_nodup (nodup_iff'.mp hc.1.1)) hc.2
        | null => simp [conformsV] at hc
        | bool _ => simp [conformsV] at hc
        | int _ => simp [conformsV] at hc
        | num _ => simp [conformsV] at hc
        | str _ => simp [conformsV] at hc
        | arr _ => simp [conformsV] at hc

/-- conforming ⇒ `conformsLooseN`, at the top level -/
theorem conformsOpN_loose (c : Ctx) (op : ROperation) (ht : NestedOp c op = true) (b : Bool) (j : Json)
    (h : conformsOpN c op j = true) :
    conformsLooseN (wholeN c c.q.fragments.length) c.s c.q c.o b op.sels j = true := by
  obtain ⟨_, _, hsels⟩ := nestedOp_parts ht
  exact conformsN_loose c.s c.q c.o _ (wholeN c c.q.fragments.length) (exN c.q c.q.fragments.length)
    (fun g hg => exN_fragOkAny hg _)
    (fun i g hg => (specN c _ i g hg _ (Nat.le_refl _)).1)
    (fun i g hg => (specN c _ i g hg _ (Nat.le_refl _)).2) b op.objectId op.sels j hsels h

/-- **`nested_accepts`.**  Every conforming response is accepted by the emitted `ResponseData`. -/
theorem nested_accepts (c : Ctx) (opIdx : Nat) (op : ROperation) (items : List Item)
    (hop : c.q.operations[opIdx]? = some op) (ht : NestedOp c op = true) (hnd : fragNamesOk c = true)
    (hk : nestedKeysOk c op = true)
    (hgen : responseForQuery c opIdx = .ok items) (hok : moduleOk c items = true)
    (j : Json) (hc : conformsOpN c op j = true) :
    ∃ v, Serde.de (moduleEnv c items) (.path "ResponseData") j = .ok v := by
  have := nested_precise_iff c opIdx op items hop ht hnd hk hgen hok j
  rw [conformsOpN_loose c op ht false j hc] at this
  exact (okB_iff _).mp this

end C01N
end GqlVerif
