import GqlVerif.Proofs.C12Graph
import GqlVerif.Proofs.C02Response
import GqlVerif.Model.Sdl
import GqlVerif.Model.Valid
/-!
# C12 — every generated type has finite size, stated on the emitted items

`Props/C12.lean` proves acyclicity of two abstract edge relations of the model (`byValue s` on input
ids, `byValueF q` on fragment ids).  This file states the property on what is **emitted**: the `Item`s
(`Model/Rust.lean`) returned by `Codegen.inputItems`, `Codegen.fragmentItems`, `Codegen.responseItems`.

`containsByValue items a b` — the item named `a` has a member (struct field, enum-variant payload, alias
target) whose type holds the item named `b` **by value**: `T` and `Option<T>` are by-value, `Vec<T>` and
`Box<T>` are indirections (`byValueLeaf`).  A Rust type has finite size iff this relation has no cycle.

* **(i)** `input_items_acyclic` — for `inputItems c u = .ok items` (any used set `u`), under `InputsWf c.s`
  (distinct input names, ids in range: `dfs_complete` needs it) and `MentionsFaithful c` (a field type
  whose rendered name is the item name of an input type *is* that input type: name resolution in the
  emitted module agrees with the schema; executable), `¬ ∃ a, TransGen (containsByValue items) a a`.
  `responseForQuery_input_items_acyclic`: the same for the input part of an emitted module.
  `mentionsFaithful_needed`: without it the relation on the emitted items is cyclic (keyword escaping
  merges `type` and `type_`).
* **(ii)** `calc_fwd` — in the item list of any `calc*` call every by-value reference goes to an item
  *later* in the list, to a scalar / enum leaf, or to the struct of a non-recursive fragment spread below.
  `response_items_acyclic` — for any list of blocks, each `fragmentItems c g` or `responseItems c o`,
  closed under spreads, with pairwise distinct item names and no item named like a scalar / enum leaf:
  no by-value cycle (cross-block edges project onto `C12Graph.byValueF`, `fragment_boxed_acyclic'`).
  `module_response_items_acyclic` (shape `F.flatten ++ R`), `module_response_items_acyclic_of_check`
  (hypotheses as one executable `respCheck`), `responseForQuery_response_items_acyclic` (closure discharged
  by `allUsedTypes`).
  Necessity: `fragment_named_String_cyclic` — a fragment called `String` gives `struct String { name: String }`,
  a by-value cycle on the emitted items of a *valid* document with no name defined twice (`hleaf` excludes it);
  `distinct_names_needed` (path collision `type Qx = Qx;`), `closure_needed`.
-/
namespace GqlVerif
namespace C12I
open Codegen C12Graph
open Relation (TransGen ReflTransGen)

/-! ## 0. by-value containment on items -/

/-- the type name an `RTy` holds **by value** (`T`, `Option<T>`); `Vec<_>` and `Box<_>` are indirections -/
def byValueLeaf : RTy → Option String
  | .path p => some p
  | .opt t => byValueLeaf t
  | .vec _ => none
  | .box _ => none

/-- the type names an item holds by value (unit structs, C-like enums and the `default_*` functions hold none) -/
def byValueRefs : Item → List String
  | .struct _ _ _ fs => fs.filterMap (fun f => byValueLeaf f.ty)
  | .tagged _ _ _ _ vs => vs.filterMap (fun v => v.payload.bind byValueLeaf)
  | .oneOf _ _ _ vs => vs.filterMap (fun v => v.payload.bind byValueLeaf)
  | .alias _ _ t => (byValueLeaf t).toList
  | _ => []

/-- item `a` of `items` has a member whose type holds item `b` of `items` by value -/
def containsByValue (items : List Item) (a b : String) : Prop :=
  ∃ it ∈ items, it.name = a ∧ b ∈ byValueRefs it ∧ b ∈ items.map Item.name

/-- the larger relation that does not ask `b` to be an item: it has the same cycles -/
def mentionsByValue (items : List Item) (a b : String) : Prop :=
  ∃ it ∈ items, it.name = a ∧ b ∈ byValueRefs it

theorem mentionsByValue_cycle {items : List Item} {a b : String} (h : TransGen (mentionsByValue items) a b)
    (hb : b ∈ items.map Item.name) : TransGen (containsByValue items) a b := by
  induction h with
  | single h =>
    obtain ⟨it, hit, hn, hr⟩ := h
    exact .single ⟨it, hit, hn, hr, hb⟩
  | tail h1 h2 ih =>
    obtain ⟨it, hit, hn, hr⟩ := h2
    exact .tail (ih (List.mem_map.mpr ⟨it, hit, hn⟩)) ⟨it, hit, hn, hr, hb⟩

/-- acyclicity of `containsByValue` is acyclicity of `mentionsByValue` -/
theorem acyclic_iff (items : List Item) :
    (¬ ∃ a, TransGen (containsByValue items) a a) ↔ ¬ ∃ a, TransGen (mentionsByValue items) a a := by
  constructor
  · rintro h ⟨a, ha⟩
    obtain ⟨b, ⟨it, hit, hn, _⟩, _⟩ := TransGen.head'_iff.mp ha
    exact h ⟨a, mentionsByValue_cycle ha (List.mem_map.mpr ⟨it, hit, hn⟩)⟩
  · rintro h ⟨a, ha⟩
    exact h ⟨a, C12Graph.transGen_mono (fun _ _ ⟨it, hit, hn, hr, _⟩ => ⟨it, hit, hn, hr⟩) ha⟩

/-! ### `decorateType`: the by-value leaf -/

def hasList (quals : List Qual) : Bool := quals.any (· == .list)

theorem decorateFold_byValue : ∀ (l : List Qual) (st st' : RTy × Bool),
    l.foldlM decorateStep st = .ok st' →
    byValueLeaf st'.1 = if hasList l then none else byValueLeaf st.1 := by
  intro l
  induction l with
  | nil =>
    intro st st' h
    simp only [List.foldlM_nil, pure, Except.pure, Except.ok.injEq] at h
    subst h; simp [hasList]
  | cons q l ih =>
    intro st st' h
    rw [List.foldlM_cons] at h
    obtain ⟨st1, hq, h⟩ := C02.bind_ok h
    have := ih st1 st' h
    rw [this]
    obtain ⟨t, nn⟩ := st
    cases nn <;> cases q <;>
      simp only [decorateStep, pure, Except.pure, Except.ok.injEq, panic'] at hq <;>
      first
        | (subst hq; simp [hasList, byValueLeaf])
        | cases hq

theorem decorateType_byValue {p : String} {quals : List Qual} {t : RTy}
    (h : decorateType (.path p) quals = .ok t) :
    byValueLeaf t = if hasList quals then none else some p := by
  unfold decorateType at h
  obtain ⟨st, hst, h⟩ := C02.bind_ok h
  have := decorateFold_byValue _ _ _ hst
  simp only [pure, Except.pure, Except.ok.injEq] at h
  subst h
  have hl : hasList quals.reverse = hasList quals := by simp [hasList]
  rw [hl] at this
  simp only [byValueLeaf] at this
  split <;> simpa [byValueLeaf] using this

/-! ## (i) input items -/

/-- the name of the item emitted for an input type -/
def itemName (c : Ctx) (i : StoredInput) : String :=
  keywordReplace (c.o.normalization.inputName c.cs i.name)

/-- the name under which a field type is mentioned -/
def mention (c : Ctx) (tn : String) : String := c.o.normalization.fieldType c.cs tn

/-- name resolution in the emitted module agrees with the schema: if the rendered type name of a field
    of an input type is the item name of the input type `j`, the field's type *is* input `j`.
    (Executable; implied by "distinct schema types get distinct Rust names and `keywordReplace` does
    not move an input name onto another type's name".) -/
def mentionsFaithful (c : Ctx) : Bool :=
  c.s.inputs.all fun i => i.fields.all fun f =>
    match c.s.typeName f.2.id with
    | .ok tn => c.s.inputs.zipIdx.all fun p => mention c tn != itemName c p.1 || decide (f.2.id = .input p.2)
    | .error _ => true

def MentionsFaithful (c : Ctx) : Prop := mentionsFaithful c = true
instance (c : Ctx) : Decidable (MentionsFaithful c) := inferInstanceAs (Decidable (_ = true))

theorem MentionsFaithful.spec {c : Ctx} (h : MentionsFaithful c) {i : StoredInput} (hi : i ∈ c.s.inputs)
    {f : String × FieldType} (hf : f ∈ i.fields) {tn : String} (htn : c.s.typeName f.2.id = .ok tn)
    {j : Nat} {ij : StoredInput} (hj : c.s.inputs[j]? = some ij) (hm : mention c tn = itemName c ij) :
    f.2.id = .input j := by
  unfold MentionsFaithful mentionsFaithful at h
  simp only [List.all_eq_true] at h
  have h1 := h i hi f hf
  rw [htn] at h1
  simp only [List.all_eq_true] at h1
  have h2 := h1 (ij, j) (by rw [List.mem_zipIdx_iff_getElem?]; simpa using hj)
  simpa [hm] using h2

theorem inputFieldType_byValue {c : Ctx} {ty : FieldType} {quals : List Qual} {t : RTy} {n : String}
    (h : inputFieldType c ty quals = .ok t) (hn : byValueLeaf t = some n) :
    ∃ tn, c.s.typeName ty.id = .ok tn ∧ n = mention c tn ∧ hasList quals = false ∧
      targetRecursive c.s ty = false := by
  obtain ⟨tn, t0, htn, hdec, _, hr⟩ := inputFieldType_shape c ty quals t h
  have hbv := decorateType_byValue hdec
  cases hrec : targetRecursive c.s ty with
  | true => rw [hrec] at hr; simp only [↓reduceIte] at hr; subst hr; simp [byValueLeaf] at hn
  | false =>
    rw [hrec] at hr; simp only [Bool.false_eq_true, ↓reduceIte] at hr; subst hr
    rw [hbv] at hn
    cases hl : hasList quals with
    | true => simp [hl] at hn
    | false =>
      simp only [hl, Bool.false_eq_true, ↓reduceIte, Option.some.injEq] at hn
      exact ⟨tn, htn, hn.symm, rfl, rfl⟩

/-- the by-value references of the item emitted for an input type come from its non-list fields whose
    target is not a recursive input -/
theorem inputItem_byValueRefs {c : Ctx} {i : StoredInput} {item : Item} (h : inputItem c i = .ok item) :
    ∀ n ∈ byValueRefs item, ∃ p ∈ i.fields, ∃ tn, c.s.typeName p.2.id = .ok tn ∧ n = mention c tn ∧
      p.2.isIndirected = false ∧ targetRecursive c.s p.2 = false := by
  rw [inputItem.eq_1] at h
  split at h
  · obtain ⟨vs, hvs, h⟩ := C02.bind_ok h
    simp only [pure, Except.pure, Except.ok.injEq] at h
    subst h
    intro n hn
    simp only [byValueRefs, List.mem_filterMap] at hn
    obtain ⟨v, hv, hvn⟩ := hn
    obtain ⟨⟨fname, ty⟩, hp, hfp⟩ := C02.mapM_ok_mem hvs v hv
    simp only at hfp
    obtain ⟨t, ht, hfp⟩ := C02.bind_ok hfp
    simp only [pure, Except.pure, Except.ok.injEq] at hfp
    subst hfp
    simp only [Option.bind_some] at hvn
    obtain ⟨tn, htn, hm, hl, hrec⟩ := inputFieldType_byValue ht hvn
    refine ⟨(fname, ty), hp, tn, htn, hm, ?_, hrec⟩
    simpa [hasList, FieldType.isIndirected] using hl
  · obtain ⟨fs, hfs, h⟩ := C02.bind_ok h
    simp only [pure, Except.pure, Except.ok.injEq] at h
    subst h
    intro n hn
    simp only [byValueRefs, List.mem_filterMap] at hn
    obtain ⟨f, hf, hfn⟩ := hn
    obtain ⟨⟨fname, ty⟩, hp, hfp⟩ := C02.mapM_ok_mem hfs f hf
    simp only at hfp
    obtain ⟨t, ht, hfp⟩ := C02.bind_ok hfp
    simp only [pure, Except.pure, Except.ok.injEq] at hfp
    subst hfp
    obtain ⟨tn, htn, hm, hl, hrec⟩ := inputFieldType_byValue ht hfn
    refine ⟨(fname, ty), hp, tn, htn, hm, ?_, hrec⟩
    simpa [hasList, FieldType.isIndirected] using hl

/-- the source of a by-value edge between emitted input items -/
theorem edge_src {c : Ctx} {u : UsedTypes} {items : List Item} (h : inputItems c u = .ok items)
    {a b : String} (hab : mentionsByValue items a b) :
    ∃ (ja : Nat) (ia : StoredInput), c.s.inputs[ja]? = some ia ∧ itemName c ia = a ∧
      ∃ f ∈ ia.fields, ∃ tn, c.s.typeName f.2.id = .ok tn ∧ b = mention c tn ∧
        f.2.isIndirected = false ∧ targetRecursive c.s f.2 = false := by
  obtain ⟨it, hit, hn, hb⟩ := hab
  obtain ⟨k, i, _, hi, hf⟩ := C02.inputItems_origin h it hit
  refine ⟨k, i, hi, ?_, inputItem_byValueRefs hf b hb⟩
  rw [← hn, C02.inputItem_name hf]; rfl

/-- a by-value edge between emitted input items into the item of input `jb` is a `byValue` edge of the
    model's graph -/
theorem edge_lift {c : Ctx} (hf : MentionsFaithful c) {u : UsedTypes} {items : List Item}
    (h : inputItems c u = .ok items) {a b : String} (hab : mentionsByValue items a b)
    {jb : Nat} {ib : StoredInput} (hjb : c.s.inputs[jb]? = some ib) (hb : itemName c ib = b) :
    ∃ (ja : Nat) (ia : StoredInput), c.s.inputs[ja]? = some ia ∧ itemName c ia = a ∧ byValue c.s ja jb := by
  obtain ⟨ja, ia, hja, hna, f, hfm, tn, htn, hm, hind, hrec⟩ := edge_src h hab
  have hid : f.2.id = .input jb :=
    hf.spec (List.mem_of_getElem? hja) hfm htn hjb (by rw [← hm, hb])
  refine ⟨ja, ia, hja, hna, ⟨ia, hja, f, hfm, hid, hind⟩, ?_⟩
  have : targetRecursive c.s f.2 = inputIsRecursive c.s jb := by
    unfold targetRecursive
    rw [asInput?_eq_some.mpr hid]
  rw [← this]; exact hrec

theorem path_lift {c : Ctx} (hf : MentionsFaithful c) {u : UsedTypes} {items : List Item}
    (h : inputItems c u = .ok items) {a b : String} (hab : TransGen (mentionsByValue items) a b) :
    ∀ {jb : Nat} {ib : StoredInput}, c.s.inputs[jb]? = some ib → itemName c ib = b →
      ∃ (ja : Nat) (ia : StoredInput), c.s.inputs[ja]? = some ia ∧ itemName c ia = a ∧
        TransGen (byValue c.s) ja jb := by
  induction hab with
  | single hab =>
    intro jb ib hjb hb
    obtain ⟨ja, ia, hja, hna, hbv⟩ := edge_lift hf h hab hjb hb
    exact ⟨ja, ia, hja, hna, .single hbv⟩
  | tail _ hmb ih =>
    intro jb ib hjb hb
    obtain ⟨jm, im, hjm, hnm, hbv⟩ := edge_lift hf h hmb hjb hb
    obtain ⟨ja, ia, hja, hna, hp⟩ := ih hjm hnm
    exact ⟨ja, ia, hja, hna, .tail hp hbv⟩

/-- **(i)** the input items the generator emits contain each other by value without cycle: every
    emitted input struct / `@oneOf` enum has finite size.
    Hypotheses: `InputsWf c.s` — input names pairwise distinct and input ids in range (the generator's DFS
    is keyed by name: `C12.dfs_complete`); `MentionsFaithful c` — Rust name resolution agrees with the schema. -/
theorem input_items_acyclic (c : Ctx) (u : UsedTypes) (items : List Item)
    (hwf : InputsWf c.s) (hf : MentionsFaithful c) (h : inputItems c u = .ok items) :
    ¬ ∃ a, TransGen (containsByValue items) a a := by
  rw [acyclic_iff]
  rintro ⟨a, ha⟩
  -- `a` is the item of some input `j0` (first edge) …
  obtain ⟨b, hab, _⟩ := TransGen.head'_iff.mp ha
  obtain ⟨j0, i0, hj0, hn0, _⟩ := edge_src h hab
  -- … the cycle lifts to a `byValue` path `ja →⁺ j0` with `ja` also named `a` …
  obtain ⟨ja, ia, hja, hna, hp⟩ := path_lift hf h ha hj0 hn0
  -- … and the last edge mentions `a`, so faithfulness identifies `ja` and `j0`
  obtain ⟨m, _, hma⟩ := TransGen.tail'_iff.mp ha
  obtain ⟨jm, im, hjm, _, f, hfm, tn, htn, hmn, _, _⟩ := edge_src h hma
  have e1 : f.2.id = .input j0 := hf.spec (List.mem_of_getElem? hjm) hfm htn hj0 (by rw [← hmn, hn0])
  have e2 : f.2.id = .input ja := hf.spec (List.mem_of_getElem? hjm) hfm htn hja (by rw [← hmn, hna])
  have : ja = j0 := by rw [e1] at e2; injection e2 with e2; exact e2.symm
  subst this
  exact C12Graph.boxed_acyclic c.s hwf ⟨ja, hp⟩

/-- **(i), on the module `responseForQuery` emits**: its input items are `inputItems c u` for the used set
    `u = allUsedTypes …`, and they contain each other by value without cycle -/
theorem responseForQuery_input_items_acyclic (c : Ctx) (op : Nat) (items : List Item)
    (hwf : InputsWf c.s) (hf : MentionsFaithful c) (h : responseForQuery c op = .ok items) :
    ∃ (u : UsedTypes) (pre I post : List Item), allUsedTypes c.s c.q op = .ok u ∧ inputItems c u = .ok I ∧
      items = pre ++ I ++ post ∧ ¬ ∃ a, TransGen (containsByValue I) a a := by
  obtain ⟨u, S, E, F, I, V, o, R, hu, _, _, _, hI, _, _, _, rfl⟩ := C02.responseForQuery_ok_full h
  exact ⟨u, builtinAliases ++ S ++ E, I, V ++ F.flatten ++ R, hu, hI, by simp only [List.append_assoc],
    input_items_acyclic c u I hwf hf hI⟩

/-! ## (ii) fragment and response items -/

/-- the names under which scalar and enum types are mentioned by response fields -/
def LeafNames (c : Ctx) : List String :=
  (c.s.scalars ++ c.s.enums.map (·.name)).map (mention c)

theorem byValueLeaf_eq_leaf {t : RTy} {n : String} (h : byValueLeaf t = some n) : Scope.leaf t = n := by
  induction t with
  | path p => simpa [byValueLeaf, Scope.leaf] using h
  | opt t ih => exact ih (by simpa [byValueLeaf] using h)
  | vec t _ => simp [byValueLeaf] at h
  | box t _ => simp [byValueLeaf] at h

/-- a rendered field holds its type by value only if it was not boxed -/
theorem renderField_byValue {c : Ctx} {g : Option String} {r ft : String} {quals : List Qual} {fl bx : Bool}
    {dep : Option (Option String)} {o : Option RField}
    (h : renderField c g r ft quals fl bx dep = .ok o) :
    ∀ f ∈ o.toList, ∀ n, byValueLeaf f.ty = some n → n = ft ∧ bx = false := by
  intro f hf n hn
  have hl := C02.renderField_leaf h f hf
  refine ⟨by rw [← byValueLeaf_eq_leaf hn, hl], ?_⟩
  cases bx with
  | false => rfl
  | true =>
    cases o with
    | none => simp at hf
    | some fld =>
      simp only [Option.toList_some, List.mem_singleton] at hf
      subst hf
      have := renderField_box_iff c g r ft quals fl true dep f h
      cases hty : f.ty <;> simp [hty, isBox] at this
      simp [hty, byValueLeaf] at hn

theorem aliasItem_byValueRefs (n t : String) (b : Bool) :
    byValueRefs (aliasItem n t b) = if b then [] else [t] := by
  cases b <;> rfl

theorem aliasItem_name (n t : String) (b : Bool) : (aliasItem n t b).name = n := by
  cases b <;> rfl

theorem mem_names_of_defines {items : List Item} {n : String} (h : n ∈ Scope.defines items) :
    n ∈ items.map Item.name := by
  simp only [Scope.defines, List.mem_filterMap] at h
  obtain ⟨it, hit, hd⟩ := h
  refine List.mem_map.mpr ⟨it, hit, ?_⟩
  cases it <;> simp [Scope.itemDefines] at hd <;> exact hd

section Calc
variable (c : Ctx) (P : Nat → Prop)

/-- by-value references that leave the block: a scalar / enum leaf, or the struct of a fragment that is
    spread here (`P`) and is not recursive (a recursive one is only ever mentioned under `Box`) -/
def Ext (n : String) : Prop :=
  n ∈ LeafNames c ∨
  ∃ g fr, c.q.fragments[g]? = some fr ∧ fr.name = n ∧ fragmentIsRecursive c.q g = false ∧ P g

/-- every by-value reference of an item goes to an item **later** in the list, or leaves the block -/
def Fwd : List Item → Prop
  | [] => True
  | it :: post => (∀ n ∈ byValueRefs it, n ∈ post.map Item.name ∨ Ext c P n) ∧ Fwd post

variable {c P}

theorem Fwd.append_right {a : List Item} (b : List Item) (ha : Fwd c P a) (hb : Fwd c P b) : Fwd c P (a ++ b) := by
  induction a with
  | nil => exact hb
  | cons it a ih =>
    refine ⟨fun n hn => ?_, ih ha.2⟩
    rcases ha.1 n hn with h | h
    · obtain ⟨x, hx, rfl⟩ := List.mem_map.mp h
      exact .inl (List.mem_map.mpr ⟨x, List.mem_append_left _ hx, rfl⟩)
    · exact .inr h

theorem Fwd.split {pre : List Item} {it : Item} {post : List Item} (h : Fwd c P (pre ++ it :: post)) :
    ∀ n ∈ byValueRefs it, n ∈ post.map Item.name ∨ Ext c P n := by
  induction pre with
  | nil => exact h.1
  | cons x pre ih => exact ih h.2

variable (c P)

/-- the spreads below these selections are in `P` -/
def Sp (sels : List Sel) : Prop := ∀ g, SpreadsIn sels g → P g

structure VSp (vsels : List VariantSel) : Prop where
  inl : ∀ t sub, VariantSel.inline t sub ∈ vsels → Sp P sub
  spr : ∀ g fr, VariantSel.spread g fr ∈ vsels → P g ∧ c.q.fragments[g]? = some fr

variable {c P}

theorem Sp.tail {x : Sel} {rest : List Sel} (h : Sp P (x :: rest)) : Sp P rest := by
  intro g hg
  obtain ⟨sel, hm, hs⟩ := hg.exists_mem
  exact h g (SpreadsIn.of_mem (List.mem_cons_of_mem _ hm) hs)

theorem Sp.field {sels : List Sel} {a : Option String} {fid : Nat} {sub : List Sel} (h : Sp P sels)
    (hm : .field a fid sub ∈ sels) : Sp P sub := fun g hg => h g (.field hm hg)

theorem Sp.inline {sels : List Sel} {t : TypeId} {sub : List Sel} (h : Sp P sels)
    (hm : .inline t sub ∈ sels) : Sp P sub := fun g hg => h g (.inline hm hg)

theorem Sp.spread {sels : List Sel} {g : Nat} (h : Sp P sels) (hm : .spread g ∈ sels) : P g := h g (.here hm)

theorem Sp.vsp {sels : List Sel} {ty : TypeId} {vsels : List VariantSel} (h : Sp P sels)
    (hv : sels.filterMapM (variantSelOf c.q ty) = .ok vsels) : VSp c P vsels := by
  have ⟨h1, h2⟩ := C02.variantSels_origin hv
  exact ⟨fun t sub hm => h.inline (h1 t sub hm), fun g fr hm => ⟨h.spread (h2 g fr hm).1, (h2 g fr hm).2.1⟩⟩

theorem VSp.tail {x : VariantSel} {rest : List VariantSel} (h : VSp c P (x :: rest)) : VSp c P rest :=
  ⟨fun t sub hm => h.inl t sub (List.mem_cons_of_mem _ hm), fun g fr hm => h.spr g fr (List.mem_cons_of_mem _ hm)⟩

theorem VSp.filter {l : List VariantSel} (p : VariantSel → Bool) (h : VSp c P l) : VSp c P (l.filter p) :=
  ⟨fun t sub hm => h.inl t sub (List.mem_filter.mp hm).1, fun g fr hm => h.spr g fr (List.mem_filter.mp hm).1⟩

/-- by-value reference of a member resolved by the items `ctx` that follow, or externally -/
def RefOK (c : Ctx) (P : Nat → Prop) (ctx : List Item) (t : RTy) : Prop :=
  ∀ n, byValueLeaf t = some n → n ∈ ctx.map Item.name ∨ Ext c P n

theorem RefOK.mono {ctx ctx' : List Item} {t : RTy} (h : RefOK c P ctx t)
    (hsub : ∀ n ∈ ctx.map Item.name, n ∈ ctx'.map Item.name) : RefOK c P ctx' t :=
  fun n hn => (h n hn).elim (fun x => .inl (hsub n x)) .inr

theorem names_left {a b : List Item} : ∀ n ∈ a.map Item.name, n ∈ (a ++ b).map Item.name := by
  intro n hn; simp only [List.map_append, List.mem_append]; exact .inl hn
theorem names_right {a b : List Item} : ∀ n ∈ b.map Item.name, n ∈ (a ++ b).map Item.name := by
  intro n hn; simp only [List.map_append, List.mem_append]; exact .inr hn

theorem renderType_names (c : Ctx) (name : String) (fs : List RField) (vs : List RVariant) :
    name ∈ (renderType c name fs vs).map Item.name :=
  mem_names_of_defines (C02.renderType_defines c name fs vs)

/-- the items of one rendered type, followed by the items `ctx` its members refer to -/
theorem renderType_fwd (name : String) (fs : List RField) (vs : List RVariant) (ctx : List Item)
    (hf : ∀ f ∈ fs, RefOK c P ctx f.ty)
    (hv : ∀ v ∈ vs, ∀ t, v.payload = some t → RefOK c P ctx t)
    (hctx : Fwd c P ctx) : Fwd c P (renderType c name fs vs ++ ctx) := by
  have htag : ∀ nm, ∀ n ∈ byValueRefs (.tagged nm c.respDerives c.serdeCrate "__typename" vs),
      n ∈ ctx.map Item.name ∨ Ext c P n := by
    intro nm n hn
    simp only [byValueRefs, List.mem_filterMap] at hn
    obtain ⟨v, hv', hvn⟩ := hn
    cases hp : v.payload with
    | none => simp [hp] at hvn
    | some t =>
      simp only [hp, Option.bind_some] at hvn
      exact hv v hv' t hp n hvn
  have hstruct : ∀ nm, ∀ n ∈ byValueRefs (.struct nm c.respDerives c.serdeCrate fs),
      n ∈ ctx.map Item.name ∨ Ext c P n := by
    intro nm n hn
    simp only [byValueRefs, List.mem_filterMap] at hn
    obtain ⟨f, hf', hfn⟩ := hn
    exact hf f hf' n hfn
  unfold renderType
  split
  · exact ⟨htag name, hctx⟩
  · split
    · exact ⟨hstruct name, hctx⟩
    · refine ⟨fun n hn => ?_, htag _, hctx⟩
      simp only [byValueRefs, List.filterMap_append, List.mem_append, List.mem_filterMap] at hn
      rcases hn with ⟨f, hf', hfn⟩ | ⟨f, hf', hfn⟩
      · rcases hf f hf' n hfn with h | h
        · exact .inl (List.mem_cons_of_mem _ h)
        · exact .inr h
      · simp only [List.mem_singleton] at hf'
        subst hf'
        simp only [byValueLeaf, Option.some.injEq] at hfn
        subst hfn
        exact .inl (by simp [Item.name])

variable (c P)

def FStmt1 (fuel : Nat) : Prop := ∀ name pfx ty sels items, Sp P sels →
  calcSelection c fuel name pfx ty sels = .ok items → Fwd c P items
def FStmt2 (fuel : Nat) : Prop := ∀ name pfx vsels vts vs items, VSp c P vsels →
  calcVariants c fuel name pfx vsels vts = .ok (vs, items) →
  (∀ v ∈ vs, ∀ t, v.payload = some t → RefOK c P items t) ∧ Fwd c P items
def FStmt3 (fuel : Nat) : Prop := ∀ sname pfx vt mine fs items al, VSp c P mine →
  calcVariantSels c fuel sname pfx vt mine = .ok (fs, items, al) →
  (∀ f ∈ fs, RefOK c P items f.ty) ∧ Fwd c P items ∧
  ∀ a ∈ al, ∃ tgt b, a = aliasItem sname tgt b ∧ (b = false → Ext c P tgt)
def FStmt4 (fuel : Nat) : Prop := ∀ pfx ty sels fs items, Sp P sels →
  calcFields c fuel pfx ty sels = .ok (fs, items) →
  (∀ f ∈ fs, RefOK c P items f.ty) ∧ Fwd c P items

variable {c P}

theorem ext_frag {g : Nat} {fr : RFragment} (hfr : c.q.fragments[g]? = some fr) (hp : P g)
    (hrec : fragmentIsRecursive c.q g = false) : Ext c P fr.name :=
  .inr ⟨g, fr, hfr, rfl, hrec, hp⟩

theorem fstep4 (f : Nat) (H1 : FStmt1 c P f) (H4 : FStmt4 c P f) : FStmt4 c P (f + 1) := by
  intro pfx ty sels fs items hsp h
  cases sels with
  | nil =>
    rw [calcFields.eq_2 _ _ _ _ (by omega)] at h
    simp only [pure, Except.pure, Except.ok.injEq, Prod.mk.injEq] at h
    obtain ⟨rfl, rfl⟩ := h
    exact ⟨fun f hf => (by cases hf), trivial⟩
  | cons x rest =>
    cases x with
    | field a fid sub =>
      obtain ⟨sf, fld, its, fs', items', hsf, hr, rfl, rfl, hstep⟩ := C02.calcFields_field_ok h
      have ⟨ih1, ih2⟩ := H4 pfx ty rest fs' items' hsp.tail hr
      have key : (∀ f ∈ fld.toList, RefOK c P its f.ty) ∧ Fwd c P its := by
        rcases hstep with ⟨e, en, he, hen, rfl, hfld⟩ | ⟨k, sn, hk, hsn, rfl, hfld⟩ | ⟨_, _, _, hfld, hits⟩
        · refine ⟨fun f hf n hn => .inr (.inl ?_), trivial⟩
          rw [(renderField_byValue hfld f hf n hn).1]
          simp only [LeafNames, List.map_append, List.map_map, List.mem_append, List.mem_map]
          exact .inr ⟨en, List.mem_of_getElem? hen, rfl⟩
        · refine ⟨fun f hf n hn => .inr (.inl ?_), trivial⟩
          rw [(renderField_byValue hfld f hf n hn).1]
          simp only [LeafNames, List.map_append, List.map_map, List.mem_append, List.mem_map]
          exact .inl ⟨sn, List.mem_of_getElem? hsn, rfl⟩
        · refine ⟨fun f hf n hn => .inl ?_, H1 _ _ _ _ _ (hsp.field List.mem_cons_self) hits⟩
          rw [(renderField_byValue hfld f hf n hn).1]
          exact mem_names_of_defines (C02.calcSelection_defines_name hits)
      refine ⟨fun f hf => ?_, key.2.append_right _ ih2⟩
      rcases List.mem_append.mp hf with hf | hf
      · exact (key.1 f hf).mono names_left
      · exact (ih1 f hf).mono names_right
    | spread g =>
      obtain ⟨fr, fs', hfr, hr, hfs⟩ := C02.calcFields_spread_ok h
      have ⟨ih1, ih2⟩ := H4 pfx ty rest fs' items hsp.tail hr
      refine ⟨fun f hf => ?_, ih2⟩
      rcases hfs with ⟨_, rfl⟩ | ⟨_, fld, hfld, rfl⟩
      · exact ih1 f hf
      · rcases List.mem_append.mp hf with hf | hf
        · intro n hn
          have ⟨e1, e2⟩ := renderField_byValue hfld f hf n hn
          rw [e1]
          exact .inr (ext_frag hfr (hsp.spread List.mem_cons_self) e2)
        · exact ih1 f hf
    | inline t sub =>
      rw [calcFields.eq_5 _ _ _ _ _ _ (by simp) (by simp)] at h
      exact H4 pfx ty rest fs items hsp.tail h
    | typename =>
      rw [calcFields.eq_5 _ _ _ _ _ _ (by simp) (by simp)] at h
      exact H4 pfx ty rest fs items hsp.tail h

theorem fstep3 (f : Nat) (H3 : FStmt3 c P f) (H4 : FStmt4 c P f) : FStmt3 c P (f + 1) := by
  intro sname pfx vt mine fs items al hv h
  cases mine with
  | nil =>
    rw [calcVariantSels.eq_2 _ _ _ _ _ (by omega)] at h
    simp only [pure, Except.pure, Except.ok.injEq, Prod.mk.injEq] at h
    obtain ⟨rfl, rfl, rfl⟩ := h
    exact ⟨fun f hf => (by cases hf), trivial, fun a ha => (by cases ha)⟩
  | cons x rest =>
    cases x with
    | inline t sub =>
      obtain ⟨tn, fs0, items0, al0, fs', items', al', _, hr, rfl, rfl, rfl, hstep⟩ := C02.calcVariantSels_inline_ok h
      have ⟨ih1, ih2, ih3⟩ := H3 sname pfx vt rest fs' items' al' hv.tail hr
      have hsp : Sp P sub := hv.inl t sub List.mem_cons_self
      have key : (∀ f ∈ fs0, RefOK c P items0 f.ty) ∧ Fwd c P items0 ∧
          ∀ a ∈ al0, ∃ tgt b, a = aliasItem sname tgt b ∧ (b = false → Ext c P tgt) := by
        rcases hstep with ⟨g, fr, rfl, hfr, rfl, rfl, rfl⟩ | ⟨_, hfl, rfl⟩
        · refine ⟨fun f hf => (by cases hf), trivial, fun a ha => ?_⟩
          simp only [List.mem_singleton] at ha
          exact ⟨fr.name, _, ha, fun hb => ext_frag hfr (hsp.spread List.mem_cons_self) hb⟩
        · have ⟨k1, k2⟩ := H4 _ _ _ _ _ hsp hfl
          exact ⟨k1, k2, fun a ha => (by cases ha)⟩
      refine ⟨fun f hf => ?_, key.2.1.append_right _ ih2, fun a ha => ?_⟩
      · rcases List.mem_append.mp hf with hf | hf
        · exact (key.1 f hf).mono names_left
        · exact (ih1 f hf).mono names_right
      · rcases List.mem_append.mp ha with ha | ha
        · exact key.2.2 a ha
        · exact ih3 a ha
    | spread g fr =>
      obtain ⟨fld, fs', hfld, hr, rfl⟩ := C02.calcVariantSels_spread_ok h
      have ⟨ih1, ih2, ih3⟩ := H3 sname pfx vt rest fs' items al hv.tail hr
      refine ⟨fun f hf => ?_, ih2, ih3⟩
      rcases List.mem_append.mp hf with hf | hf
      · intro n hn
        have ⟨e1, e2⟩ := renderField_byValue hfld f hf n hn
        have ⟨hg, hfr⟩ := hv.spr g fr List.mem_cons_self
        rw [e1]
        exact .inr (ext_frag hfr hg e2)
      · exact ih1 f hf

/-- the flattened members made from aliased fragments hold a fragment by value only if it is external -/
theorem aliasMembers_byValue {al : List Item} {extra : List (List RField)} {sname : String}
    (h : al.mapM (aliasMember c) = .ok extra) (ctx : List Item)
    (hal : ∀ a ∈ al, ∃ tgt b, a = aliasItem sname tgt b ∧ (b = false → Ext c P tgt)) :
    ∀ f ∈ extra.flatten, RefOK c P ctx f.ty := by
  intro f hf n hn
  obtain ⟨fs, hfs, hf⟩ := List.mem_flatten.mp hf
  obtain ⟨a, ha, hfa⟩ := C02.mapM_ok_mem h fs hfs
  obtain ⟨tgt, b, rfl, ht⟩ := hal a ha
  rw [C02.aliasMember_aliasItem] at hfa
  obtain ⟨fld, hfld, hfa⟩ := C02.bind_ok hfa
  simp only [pure, Except.pure, Except.ok.injEq] at hfa
  subst hfa
  have ⟨e1, e2⟩ := renderField_byValue hfld f hf n hn
  rw [e1]
  exact .inr (ht e2)

theorem fstep2 (f : Nat) (H2 : FStmt2 c P f) (H3 : FStmt3 c P f) : FStmt2 c P (f + 1) := by
  intro name pfx vsels vts vs items hv h
  cases vts with
  | nil =>
    rw [calcVariants.eq_2 _ _ _ _ _ (by omega)] at h
    simp only [pure, Except.pure, Except.ok.injEq, Prod.mk.injEq] at h
    obtain ⟨rfl, rfl⟩ := h
    exact ⟨fun v hv => (by cases hv), trivial⟩
  | cons vt rest =>
    obtain ⟨vname, thisV, thisItems, vs', items', _, hr, rfl, rfl, hstep⟩ := C02.calcVariants_ok h
    have ⟨ih1, ih2⟩ := H2 name pfx vsels rest vs' items' hv hr
    have hmine : VSp c P (vsels.filter (fun v => v.typeId == vt)) := hv.filter _
    have key : (∀ t, thisV.payload = some t → RefOK c P thisItems t) ∧ Fwd c P thisItems := by
      rcases hstep with ⟨_, rfl, rfl⟩ | ⟨_, rfl, hstep⟩
      · exact ⟨fun t ht => (by cases ht), trivial⟩
      · simp only [Option.some.injEq]
        rcases hstep with ⟨g, fr, hm, rfl⟩ | ⟨r, hr0, hstep⟩
        · have ⟨hg, hfr⟩ := hmine.spr g fr (by rw [hm]; exact List.mem_cons_self)
          refine ⟨fun t ht n hn => ?_, ⟨fun n hn => ?_, trivial⟩⟩
          · subst ht
            simp only [byValueLeaf, Option.some.injEq] at hn
            subst hn
            exact .inl (by simp [aliasItem_name])
          · rw [aliasItem_byValueRefs] at hn
            split at hn
            · cases hn
            · rename_i hb
              simp only [List.mem_singleton] at hn
              subst hn
              exact .inr (ext_frag hfr hg (by simpa using hb))
        · obtain ⟨r1, r2, r3⟩ := H3 _ _ _ _ r.1 r.2.1 r.2.2 hmine hr0
          rcases hstep with ⟨a, _, hal, rfl⟩ | ⟨hal, extra, hex, rfl⟩
          · obtain ⟨tgt, b, rfl, htgt⟩ := r3 a (by rw [hal]; exact List.mem_cons_self)
            refine ⟨fun t ht n hn => ?_, ⟨fun n hn => ?_, r2⟩⟩
            · subst ht
              simp only [byValueLeaf, Option.some.injEq] at hn
              subst hn
              exact .inl (by simp [aliasItem_name])
            · rw [aliasItem_byValueRefs] at hn
              split at hn
              · cases hn
              · rename_i hb
                simp only [List.mem_singleton] at hn
                subst hn
                exact .inr (htgt (by simpa using hb))
          · refine ⟨fun t ht n hn => ?_, ?_⟩
            · subst ht
              simp only [byValueLeaf, Option.some.injEq] at hn
              subst hn
              exact .inl (names_left _ (renderType_names c _ _ _))
            · have hextra := aliasMembers_byValue (P := P) hex r.2.1 r3
              exact renderType_fwd _ (r.1 ++ extra.flatten) [] r.2.1
                (fun f hf => (List.mem_append.mp hf).elim (r1 f) (hextra f))
                (fun v hv => (by cases hv)) r2
    refine ⟨fun v hv t ht => ?_, key.2.append_right _ ih2⟩
    rcases List.mem_cons.mp hv with rfl | hv
    · exact (key.1 t ht).mono names_left
    · exact (ih1 v hv t ht).mono names_right

theorem fstep1 (f : Nat) (H2 : FStmt2 c P f) (H4 : FStmt4 c P f) : FStmt1 c P (f + 1) := by
  intro name pfx ty sels items hsp h
  by_cases hs : ∃ g, sels = [Sel.spread g]
  · obtain ⟨g, rfl⟩ := hs
    obtain ⟨fr, hfr, rfl⟩ := C02.calcSelection_single_ok h
    refine ⟨fun n hn => ?_, trivial⟩
    rw [aliasItem_byValueRefs] at hn
    split at hn
    · cases hn
    · rename_i hb
      simp only [List.mem_singleton] at hn
      subst hn
      exact .inr (ext_frag hfr (hsp.spread List.mem_cons_self) (by simpa using hb))
  · obtain ⟨rv, vi, rf, fi, hvp, hfl, rfl⟩ := C02.calcSelection_ok (fun g hg => hs ⟨g, hg⟩) h
    have ⟨f1, f2⟩ := H4 _ _ _ _ _ hsp hfl
    have hv : (∀ v ∈ rv, ∀ t, v.payload = some t → RefOK c P vi t) ∧ Fwd c P vi := by
      rcases hvp with ⟨_, rfl, rfl⟩ | ⟨vts, vsels, r, _, hvs, hr, rfl, rfl⟩
      · exact ⟨fun v hv => (by cases hv), trivial⟩
      · have ⟨v1, v2⟩ := H2 _ _ _ _ r.1 r.2 (hsp.vsp hvs) hr
        refine ⟨fun v hv t ht => ?_, v2⟩
        rcases List.mem_append.mp hv with hv | hv
        · exact v1 v hv t ht
        · split at hv
          · simp only [List.mem_singleton] at hv
            subst hv; cases ht
          · cases hv
    rw [List.append_assoc]
    exact renderType_fwd name rf rv (vi ++ fi)
      (fun f hf => (f1 f hf).mono names_right)
      (fun v hv' t ht => (hv.1 v hv' t ht).mono names_left)
      (hv.2.append_right _ f2)

/-- **order of the emitted items**: in the item list of any `calc*` call every by-value reference goes to
    an item later in the same list, to a scalar / enum leaf, or to a non-recursive fragment spread below
    the selections at hand -/
theorem calc_fwd : ∀ fuel, FStmt1 c P fuel ∧ FStmt2 c P fuel ∧ FStmt3 c P fuel ∧ FStmt4 c P fuel := by
  intro fuel
  induction fuel with
  | zero =>
    refine ⟨?_, ?_, ?_, ?_⟩
    · intro _ _ _ _ _ _ h; rw [calcSelection.eq_1] at h; cases h
    · intro _ _ _ _ _ _ _ h; rw [calcVariants.eq_1] at h; cases h
    · intro _ _ _ _ _ _ _ _ h; rw [calcVariantSels.eq_1] at h; cases h
    · intro _ _ _ _ _ _ h; rw [calcFields.eq_1] at h; cases h
  | succ f ih =>
    obtain ⟨H1, H2, H3, H4⟩ := ih
    exact ⟨fstep1 f H2 H4, fstep2 f H2 H3, fstep3 f H3 H4, fstep4 f H1 H4⟩

end Calc

/-! ### blocks: the items of one fragment / one operation -/

/-- a relation whose edges either stay inside a block and increase a measure, or follow an acyclic
    relation between blocks, is acyclic -/
theorem acyclic_of_projection {α β : Type} (R : α → α → Prop) (S : β → β → Prop) (π : α → β) (m : α → Nat)
    (hedge : ∀ a b, R a b → (π a = π b ∧ m a < m b) ∨ S (π a) (π b))
    (hS : ¬ ∃ t, TransGen S t t) : ¬ ∃ a, TransGen R a a := by
  have key : ∀ a b, TransGen R a b → (π a = π b ∧ m a < m b) ∨ TransGen S (π a) (π b) := by
    intro a b h
    induction h with
    | single h => exact (hedge _ _ h).imp id .single
    | tail _ h2 ih =>
      rcases ih with ⟨e1, l1⟩ | t1
      · rcases hedge _ _ h2 with ⟨e2, l2⟩ | s2
        · exact .inl ⟨e1.trans e2, Nat.lt_trans l1 l2⟩
        · exact .inr (.single (e1 ▸ s2))
      · rcases hedge _ _ h2 with ⟨e2, _⟩ | s2
        · exact .inr (e2 ▸ t1)
        · exact .inr (.tail t1 s2)
  rintro ⟨a, ha⟩
  rcases key a a ha with ⟨_, l⟩ | t
  · exact Nat.lt_irrefl _ l
  · exact hS ⟨_, t⟩

/-- the root of a block of response items -/
inductive Root where
  | frag (g : Nat)
  | op (o : ROperation)

namespace Root
/-- the model function that emits the block -/
def items (c : Ctx) : Root → Outcome (List Item)
  | .frag g => fragmentItems c g
  | .op o => responseItems c o
def sels (c : Ctx) : Root → List Sel
  | .frag g => match c.q.fragments[g]? with | some f => f.sels | none => []
  | .op o => o.sels
def tag : Root → Option Nat
  | .frag g => some g
  | .op _ => none
end Root

/-- by-value edges between blocks: a fragment's struct holds a non-recursive fragment it spreads; the
    response holds fragments; nothing holds the response -/
def blockEdge (q : Query) : Option Nat → Option Nat → Prop
  | some r, some g => byValueF q r g
  | none, some _ => True
  | _, none => False

theorem blockEdge_acyclic (q : Query) : ¬ ∃ t, TransGen (blockEdge q) t t := by
  have key : ∀ x y, TransGen (blockEdge q) x y → ∀ r g, x = some r → y = some g → TransGen (byValueF q) r g := by
    intro x y h
    induction h with
    | single h =>
      intro r g hx hy; subst hx hy
      exact .single h
    | @tail m y' h1 h2 ih =>
      intro r g hx hy; subst hy
      cases m with
      | none =>
        -- a path into `none` is impossible
        exfalso
        rcases TransGen.tail'_iff.mp h1 with ⟨z, _, hz⟩
        cases z <;> exact hz
      | some m' => exact .tail (ih r m' hx rfl) h2
  rintro ⟨t, ht⟩
  cases t with
  | none =>
    rcases TransGen.tail'_iff.mp ht with ⟨z, _, hz⟩
    cases z <;> exact hz
  | some r => exact fragment_boxed_acyclic' q ⟨r, key _ _ ht r r rfl rfl⟩

/-- the items of one block are ordered: by-value references go forward, to a leaf, or to a
    non-recursive fragment spread (at any depth) in the block's root selection set -/
theorem block_fwd {c : Ctx} {r : Root} {its : List Item} (h : r.items c = .ok its) :
    Fwd c (fun g => SpreadsIn (r.sels c) g) its := by
  cases r with
  | frag g =>
    obtain ⟨fr, hfr, hc⟩ := C02.fragmentItems_ok h
    have : Root.sels c (.frag g) = fr.sels := by simp [Root.sels, hfr]
    rw [this]
    exact (calc_fwd (c := c) (P := fun g => SpreadsIn fr.sels g) _).1 _ _ _ _ _ (fun _ h => h) hc
  | op o =>
    exact (calc_fwd (c := c) (P := fun g => SpreadsIn o.sels g) _).1 _ _ _ _ _ (fun _ h => h) h

/-- the block of fragment `g` defines the fragment's name -/
theorem block_frag_name {c : Ctx} {g : Nat} {its : List Item} (h : fragmentItems c g = .ok its)
    {fr : RFragment} (hfr : c.q.fragments[g]? = some fr) : fr.name ∈ its.map Item.name := by
  obtain ⟨fr', hfr', hc⟩ := C02.fragmentItems_ok h
  rw [hfr] at hfr'; cases hfr'
  exact mem_names_of_defines (C02.calcSelection_defines_name hc)

/-! ### position of a name in a list of blocks with pairwise distinct names -/

abbrev Block := Root × List Item

def allItems (bl : List Block) : List Item := bl.flatMap (·.2)

def blockOf (bl : List Block) (a : String) : Option Nat :=
  match bl.find? (fun b => (b.2.map Item.name).contains a) with
  | some b => b.1.tag
  | none => none

def posOf (bl : List Block) (a : String) : Nat := ((allItems bl).map Item.name).idxOf a

theorem find_block {bl : List Block} (hnd : ((allItems bl).map Item.name).Nodup) {B : Block} (hB : B ∈ bl)
    {a : String} (ha : a ∈ B.2.map Item.name) :
    bl.find? (fun b => (b.2.map Item.name).contains a) = some B := by
  induction bl with
  | nil => cases hB
  | cons b0 rest ih =>
    simp only [allItems, List.flatMap_cons, List.map_append] at hnd
    have hnd' := List.nodup_append.mp hnd
    rw [List.find?_cons]
    cases hc : (b0.2.map Item.name).contains a with
    | true =>
      simp only
      rcases List.mem_cons.mp hB with rfl | hB'
      · rfl
      · exfalso
        have h1 : a ∈ b0.2.map Item.name := by simpa using hc
        have h2 : a ∈ (rest.flatMap (·.2)).map Item.name := by
          obtain ⟨it, hit, rfl⟩ := List.mem_map.mp ha
          exact List.mem_map.mpr ⟨it, List.mem_flatMap.mpr ⟨B, hB', hit⟩, rfl⟩
        exact hnd'.2.2 a h1 a h2 rfl
    | false =>
      simp only
      rcases List.mem_cons.mp hB with rfl | hB'
      · exfalso
        have : a ∉ B.2.map Item.name := by simpa using hc
        exact this ha
      · exact ih hnd'.2.1 hB'

theorem idxOf_lt_of_split {L1 L2 : List String} {a b : String} (hnd : (L1 ++ a :: L2).Nodup) (hb : b ∈ L2) :
    (L1 ++ a :: L2).idxOf a < (L1 ++ a :: L2).idxOf b := by
  induction L1 with
  | nil =>
    simp only [List.nil_append] at hnd ⊢
    have hne : a ≠ b := fun e => (List.nodup_cons.mp hnd).1 (e ▸ hb)
    rw [List.idxOf_cons_self, List.idxOf_cons]
    simp only [beq_eq_false_iff_ne.mpr hne, cond_false]
    omega
  | cons x L1 ih =>
    simp only [List.cons_append] at hnd ⊢
    have ⟨hx, hnd'⟩ := List.nodup_cons.mp hnd
    have hxa : x ≠ a := fun e => hx (by simp [e])
    have hxb : x ≠ b := fun e => hx (by subst e; exact List.mem_append_right _ (List.mem_cons_of_mem _ hb))
    rw [List.idxOf_cons, List.idxOf_cons]
    simp only [beq_eq_false_iff_ne.mpr hxa, beq_eq_false_iff_ne.mpr hxb, cond_false]
    have := ih hnd'
    omega

/-- **(ii), general form.**  `bl` is any list of blocks, each the output of `fragmentItems c g` or
    `responseItems c o`.  Hypotheses:
    * `hnd` — item names pairwise distinct (no type defined twice; `C02.defines_nodup_iff`);
    * `hclosed` — every fragment spread (at any depth) in the root selection set of a block has its own
      block (what `allUsedTypes` guarantees for `u.fragments`);
    * `hleaf` — no item is named like a scalar / enum leaf (`String`, `Int`, an enum name, …).
    Then the emitted items contain each other by value without cycle. -/
theorem response_items_acyclic (c : Ctx) (bl : List Block)
    (hbl : ∀ B ∈ bl, B.1.items c = .ok B.2)
    (hnd : ((allItems bl).map Item.name).Nodup)
    (hclosed : ∀ B ∈ bl, ∀ g, SpreadsIn (B.1.sels c) g → ∃ B' ∈ bl, B'.1 = .frag g)
    (hleaf : ∀ it ∈ allItems bl, it.name ∉ LeafNames c) :
    ¬ ∃ a, TransGen (containsByValue (allItems bl)) a a := by
  refine acyclic_of_projection _ (blockEdge c.q) (blockOf bl) (posOf bl) ?_ (blockEdge_acyclic c.q)
  rintro a b ⟨it, hit, hna, hb, hbn⟩
  obtain ⟨B, hB, hitB⟩ := List.mem_flatMap.mp hit
  obtain ⟨pre, post, hsplit⟩ := List.append_of_mem hitB
  have hfwd := block_fwd (hbl B hB)
  rw [hsplit] at hfwd
  have haB : a ∈ B.2.map Item.name := List.mem_map.mpr ⟨it, hitB, hna⟩
  have hπa : blockOf bl a = B.1.tag := by
    unfold blockOf; rw [find_block hnd hB haB]
  rcases hfwd.split b hb with hpost | hleafb | ⟨g, fr, hfr, hname, hrec, hsp⟩
  · -- the reference stays in the block and goes forward
    left
    have hbB : b ∈ B.2.map Item.name := by
      rw [hsplit]; simp only [List.map_append, List.map_cons, List.mem_append, List.mem_cons]
      exact .inr (.inr hpost)
    have hπb : blockOf bl b = B.1.tag := by
      unfold blockOf; rw [find_block hnd hB hbB]
    refine ⟨hπa.trans hπb.symm, ?_⟩
    obtain ⟨bl1, bl2, hbl12⟩ := List.append_of_mem hB
    have hnames : (allItems bl).map Item.name =
        ((allItems bl1).map Item.name ++ pre.map Item.name) ++ a ::
          (post.map Item.name ++ (allItems bl2).map Item.name) := by
      rw [hbl12]
      simp only [allItems, List.flatMap_append, List.flatMap_cons, List.map_append, hsplit, List.map_cons, hna,
        List.append_assoc, List.cons_append]
    unfold posOf
    rw [hnames] at hnd ⊢
    exact idxOf_lt_of_split hnd (List.mem_append_left _ hpost)
  · -- a leaf name is not an item name
    exfalso
    obtain ⟨it', hit', hn'⟩ := List.mem_map.mp hbn
    exact hleaf it' hit' (hn' ▸ hleafb)
  · -- the struct of a non-recursive fragment spread in this block
    right
    obtain ⟨B', hB', htag⟩ := hclosed B hB g hsp
    have hitems : fragmentItems c g = .ok B'.2 := by
      have := hbl B' hB'
      rw [htag] at this; exact this
    have hbB' : b ∈ B'.2.map Item.name := hname ▸ block_frag_name hitems hfr
    have hπb : blockOf bl b = some g := by
      unfold blockOf; rw [find_block hnd hB' hbB']
      show B'.1.tag = some g
      rw [htag]; rfl
    rw [hπa, hπb]
    cases hr : B.1 with
    | op o => trivial
    | frag r =>
      refine ⟨?_, hrec⟩
      rw [hr] at hsp
      simp only [Root.sels] at hsp
      cases hq : c.q.fragments[r]? with
      | none =>
        rw [hq] at hsp
        obtain ⟨sel, hm, _⟩ := hsp.exists_mem
        cases hm
      | some f => rw [hq] at hsp; exact ⟨f, hq, hsp⟩

/-! ### the shape `responseForQuery` emits: `F.flatten ++ R` -/

theorem frag_blocks {c : Ctx} : ∀ (fids : List Nat) (F : List (List Item)),
    fids.mapM (fragmentItems c) = .ok F →
    ∃ bl : List Block, allItems bl = F.flatten ∧ (∀ B ∈ bl, B.1.items c = .ok B.2) ∧
      (∀ B ∈ bl, ∃ g ∈ fids, B.1 = .frag g) ∧ (∀ g ∈ fids, ∃ B ∈ bl, B.1 = .frag g)
  | [], F, h => by
    simp only [List.mapM_nil, pure, Except.pure, Except.ok.injEq] at h
    subst h
    exact ⟨[], rfl, fun _ h => (by cases h), fun _ h => (by cases h), fun _ h => (by cases h)⟩
  | g :: gs, F, h => by
    rw [List.mapM_cons] at h
    obtain ⟨its, hits, h⟩ := C02.bind_ok h
    obtain ⟨F', hF', h⟩ := C02.bind_ok h
    simp only [pure, Except.pure, Except.ok.injEq] at h
    subst h
    obtain ⟨bl, h1, h2, h3, h4⟩ := frag_blocks gs F' hF'
    refine ⟨(.frag g, its) :: bl, ?_, ?_, ?_, ?_⟩
    · simp only [allItems, List.flatMap_cons, List.flatten_cons] at h1 ⊢
      rw [h1]
    · intro B hB
      rcases List.mem_cons.mp hB with rfl | hB
      · exact hits
      · exact h2 B hB
    · intro B hB
      rcases List.mem_cons.mp hB with rfl | hB
      · exact ⟨g, List.mem_cons_self, rfl⟩
      · obtain ⟨g', hg', e⟩ := h3 B hB
        exact ⟨g', List.mem_cons_of_mem _ hg', e⟩
    · intro g' hg'
      rcases List.mem_cons.mp hg' with rfl | hg'
      · exact ⟨_, List.mem_cons_self, rfl⟩
      · obtain ⟨B, hB, e⟩ := h4 g' hg'
        exact ⟨B, List.mem_cons_of_mem _ hB, e⟩

/-- **(ii), module shape**: the fragment items of the fragments `fids` followed by the response items of
    an operation — what `responseForQuery` emits with `fids = sortNat u.fragments` -/
theorem module_response_items_acyclic (c : Ctx) (fids : List Nat) (F : List (List Item)) (o : ROperation)
    (R : List Item)
    (hF : fids.mapM (fragmentItems c) = .ok F) (hR : responseItems c o = .ok R)
    (hnd : ((F.flatten ++ R).map Item.name).Nodup)
    (hclosedF : ∀ g ∈ fids, ∀ f, c.q.fragments[g]? = some f → ∀ h, SpreadsIn f.sels h → h ∈ fids)
    (hclosedO : ∀ h, SpreadsIn o.sels h → h ∈ fids)
    (hleaf : ∀ it ∈ F.flatten ++ R, it.name ∉ LeafNames c) :
    ¬ ∃ a, TransGen (containsByValue (F.flatten ++ R)) a a := by
  obtain ⟨bl, h1, h2, h3, h4⟩ := frag_blocks fids F hF
  have hall : allItems (bl ++ [(Root.op o, R)]) = F.flatten ++ R := by
    simp only [allItems, List.flatMap_append, List.flatMap_cons, List.flatMap_nil, List.append_nil] at h1 ⊢
    rw [h1]
  rw [← hall] at hnd hleaf ⊢
  refine response_items_acyclic c _ ?_ hnd ?_ hleaf
  · intro B hB
    rcases List.mem_append.mp hB with hB | hB
    · exact h2 B hB
    · simp only [List.mem_singleton] at hB
      subst hB; exact hR
  · intro B hB g hsp
    have : g ∈ fids := by
      rcases List.mem_append.mp hB with hB | hB
      · obtain ⟨r, hr, e⟩ := h3 B hB
        rw [e] at hsp
        simp only [Root.sels] at hsp
        cases hq : c.q.fragments[r]? with
        | none =>
          rw [hq] at hsp
          obtain ⟨sel, hm, _⟩ := hsp.exists_mem
          cases hm
        | some f => rw [hq] at hsp; exact hclosedF r hr f hq g hsp
      · simp only [List.mem_singleton] at hB
        subst hB
        exact hclosedO g hsp
    obtain ⟨B', hB', e⟩ := h4 g this
    exact ⟨B', List.mem_append_left _ hB', e⟩

theorem spreadsIn_sub {sels : List Sel} {g : Nat} (h : SpreadsIn sels g) :
    ∃ x ∈ sels, C02.Sub x (.spread g) := by
  induction h with
  | here h => exact ⟨_, h, .refl _⟩
  | field hm _ ih =>
    obtain ⟨x, hx, hs⟩ := ih
    exact ⟨_, hm, .field hx hs⟩
  | inline hm _ ih =>
    obtain ⟨x, hx, hs⟩ := ih
    exact ⟨_, hm, .inline hx hs⟩

/-- **(ii), on the module `responseForQuery` emits**: the module ends with the fragment items of the used
    fragments and the response items of the operation; the closure hypothesis is discharged by
    `allUsedTypes` (`C02.used_covered`); what remains are the two naming hypotheses -/
theorem responseForQuery_response_items_acyclic (c : Ctx) (op : Nat) (items : List Item)
    (h : responseForQuery c op = .ok items) :
    ∃ (u : UsedTypes) (o : ROperation) (pre : List Item) (F : List (List Item)) (R : List Item),
      allUsedTypes c.s c.q op = .ok u ∧ c.q.operations[op]? = some o ∧
      (sortNat u.fragments).mapM (fragmentItems c) = .ok F ∧ responseItems c o = .ok R ∧
      items = pre ++ (F.flatten ++ R) ∧
      (((F.flatten ++ R).map Item.name).Nodup → (∀ it ∈ F.flatten ++ R, it.name ∉ LeafNames c) →
        ¬ ∃ a, TransGen (containsByValue (F.flatten ++ R)) a a) := by
  obtain ⟨u, S, E, F, I, V, o, R, hu, _, _, hF, _, _, ho, hR, rfl⟩ := C02.responseForQuery_ok_full h
  refine ⟨u, o, builtinAliases ++ S ++ E ++ I ++ V, F, R, hu, ho, hF, hR, by simp only [List.append_assoc],
    fun hnd hleaf => ?_⟩
  have ⟨hroot, hfr⟩ := C02.used_covered hu ho
  refine module_response_items_acyclic c _ F o R hF hR hnd ?_ ?_ hleaf
  · intro g hg f hf k hk
    rw [C02.mem_sortNat] at hg ⊢
    obtain ⟨x, hx, hs⟩ := spreadsIn_sub hk
    exact hfr g hg f hf x hx _ hs
  · intro k hk
    rw [C02.mem_sortNat]
    obtain ⟨x, hx, hs⟩ := spreadsIn_sub hk
    exact hroot x hx _ hs

/-! ### the hypotheses of (ii) in executable form -/

mutual
  /-- the fragments spread below a selection (any depth, under fields and inline fragments) -/
  def selSpreads : Sel → List Nat
    | .field _ _ sub => selsSpreads sub
    | .inline _ sub => selsSpreads sub
    | .spread g => [g]
    | .typename => []
  def selsSpreads : List Sel → List Nat
    | [] => []
    | x :: xs => selSpreads x ++ selsSpreads xs
end

theorem mem_selsSpreads_of_mem {x : Sel} {g : Nat} : ∀ {l : List Sel}, x ∈ l → g ∈ selSpreads x → g ∈ selsSpreads l
  | [], h, _ => by cases h
  | y :: ys, h, hg => by
    rw [selsSpreads]
    rcases List.mem_cons.mp h with rfl | h
    · exact List.mem_append_left _ hg
    · exact List.mem_append_right _ (mem_selsSpreads_of_mem h hg)

theorem mem_selsSpreads {sels : List Sel} {g : Nat} (h : SpreadsIn sels g) : g ∈ selsSpreads sels := by
  induction h with
  | here hm => exact mem_selsSpreads_of_mem hm (by simp [selSpreads])
  | field hm _ ih => exact mem_selsSpreads_of_mem hm (by rw [selSpreads]; exact ih)
  | inline hm _ ih => exact mem_selsSpreads_of_mem hm (by rw [selSpreads]; exact ih)

/-- the three hypotheses of `module_response_items_acyclic`, decided on the emitted items -/
def respCheck (c : Ctx) (fids : List Nat) (o : ROperation) : Bool :=
  (match fids.mapM (fragmentItems c), responseItems c o with
    | .ok F, .ok R =>
      decide (((F.flatten ++ R).map Item.name).Nodup) &&
      (F.flatten ++ R).all (fun it => !(LeafNames c).contains it.name)
    | _, _ => false) &&
  fids.all (fun g => match c.q.fragments[g]? with
    | some f => (selsSpreads f.sels).all (fun h => fids.contains h)
    | none => true) &&
  (selsSpreads o.sels).all (fun h => fids.contains h)

/-- **(ii), decidable hypotheses** -/
theorem module_response_items_acyclic_of_check (c : Ctx) (fids : List Nat) (F : List (List Item)) (o : ROperation)
    (R : List Item) (hF : fids.mapM (fragmentItems c) = .ok F) (hR : responseItems c o = .ok R)
    (hchk : respCheck c fids o = true) :
    ¬ ∃ a, TransGen (containsByValue (F.flatten ++ R)) a a := by
  unfold respCheck at hchk
  rw [hF, hR] at hchk
  simp only [Bool.and_eq_true, decide_eq_true_eq, List.all_eq_true, Bool.not_eq_true',
    List.contains_eq_mem, decide_eq_false_iff_not] at hchk
  obtain ⟨⟨⟨hnd, hleaf⟩, hcf⟩, hco⟩ := hchk
  refine module_response_items_acyclic c fids F o R hF hR hnd ?_ ?_ hleaf
  · intro g hg f hf h hsp
    have := hcf g hg
    rw [hf] at this
    simp only [List.all_eq_true, decide_eq_true_eq] at this
    exact this h (mem_selsSpreads hsp)
  · intro h hsp
    simpa using hco h (mem_selsSpreads hsp)

/-! ## examples and necessity witnesses -/

/-- `input A { a: A, b: [A!], c: B!, n: Int }  input B { a: A }  input W @oneOf { a: A, w: L }  input L { l: [L] }`
    — `A` and `B` are genuinely recursive (`A → A`, `A → B → A`), `W` is a wrapper onto the cycle (lasso),
    `L` recurses only through a list -/
def exAB : Schema :=
  { scalars := Schema.defaultScalars,
    inputs := [ { name := "A", fields := [("a", { id := .input 0, quals := [] }),
                                          ("b", { id := .input 0, quals := [.list, .required] }),
                                          ("c", { id := .input 1, quals := [.required] }),
                                          ("n", { id := .scalar 2, quals := [] })], isOneOf := false },
                { name := "B", fields := [("a", { id := .input 0, quals := [] })], isOneOf := false },
                { name := "W", fields := [("a", { id := .input 0, quals := [] }),
                                          ("w", { id := .input 3, quals := [] })], isOneOf := true },
                { name := "L", fields := [("l", { id := .input 3, quals := [.list] })], isOneOf := false } ] }

def uAll : UsedTypes := { types := [.input 0, .input 1, .input 2, .input 3] }

example : InputsWf exAB := by decide
example : MentionsFaithful (exCtx exAB) := by decide +kernel
example : inputIsRecursive exAB 0 = true ∧ inputIsRecursive exAB 1 = true ∧
    inputIsRecursive exAB 2 = false ∧ inputIsRecursive exAB 3 = false := by decide

/-- the emitted items: names and by-value references (`A` holds nothing by value but `Int`: all three
    input-typed fields are boxed or behind `Vec`; the wrapper `W` holds `L` but not `A`) -/
example : (inputItems (exCtx exAB) uAll).toOption.map (fun its => its.map fun it => (it.name, byValueRefs it)) =
    some [("A", ["Int"]), ("B", []), ("W", ["L"]), ("L", [])] := by decide +kernel

/-- (i) applied to a genuinely recursive schema -/
example : ∀ items, inputItems (exCtx exAB) uAll = .ok items →
    ¬ ∃ a, TransGen (containsByValue items) a a :=
  fun items h => input_items_acyclic _ _ _ (by decide) (by decide +kernel) h

/-- a self loop, decidably -/
def hasSelfLoop (items : List Item) (a : String) : Bool :=
  items.any (fun it => it.name == a && (byValueRefs it).contains a)

theorem selfLoop_cycle {items : List Item} {a : String} (h : hasSelfLoop items a = true) :
    TransGen (containsByValue items) a a := by
  simp only [hasSelfLoop, List.any_eq_true, Bool.and_eq_true, beq_iff_eq, List.contains_eq_mem,
    decide_eq_true_eq] at h
  obtain ⟨it, hit, hn, hr⟩ := h
  exact .single ⟨it, hit, hn, hr, List.mem_map.mpr ⟨it, hit, hn⟩⟩

/-- a two-cycle, decidably -/
def hasTwoCycle (items : List Item) (a b : String) : Bool :=
  items.any (fun it => it.name == a && (byValueRefs it).contains b) &&
  items.any (fun it => it.name == b && (byValueRefs it).contains a)

theorem twoCycle_cycle {items : List Item} {a b : String} (h : hasTwoCycle items a b = true) :
    TransGen (containsByValue items) a a := by
  simp only [hasTwoCycle, List.any_eq_true, Bool.and_eq_true, beq_iff_eq, List.contains_eq_mem,
    decide_eq_true_eq] at h
  obtain ⟨⟨it, hit, hn, hr⟩, ⟨it', hit', hn', hr'⟩⟩ := h
  exact .tail (.single ⟨it, hit, hn, hr, List.mem_map.mpr ⟨it', hit', hn'⟩⟩)
    ⟨it', hit', hn', hr', List.mem_map.mpr ⟨it, hit, hn⟩⟩

/-- `input type { a: A! }  input type_ { }  input A { t: type_! }`: no cycle in the schema (nothing is
    boxed), but `keyword_replace` renames the struct of `type` to `type_` -/
def kwSchema : Schema :=
  { inputs := [ { name := "type", fields := [("a", { id := .input 2, quals := [.required] })], isOneOf := false },
                { name := "type_", fields := [], isOneOf := false },
                { name := "A", fields := [("t", { id := .input 1, quals := [.required] })], isOneOf := false } ] }

/-- **`MentionsFaithful` is needed for (i)**: a well-formed, cycle-free schema whose emitted input items
    contain each other by value in a cycle (`struct type_ { a: A }`, `struct type_ {}`, `struct A { t: type_ }`;
    the module does not compile either: `type_` is defined twice) -/
theorem mentionsFaithful_needed :
    InputsWf kwSchema ∧ ¬ MentionsFaithful (exCtx kwSchema) ∧
    (∀ i, inputIsRecursive kwSchema i = false) ∧
    ∃ items, inputItems (exCtx kwSchema) { types := [.input 0, .input 1, .input 2] } = .ok items ∧
      TransGen (containsByValue items) "type_" "type_" := by
  refine ⟨by decide, by decide +kernel, ?_, ?_⟩
  · intro i
    match i with
    | 0 | 1 | 2 => decide
    | n + 3 => rfl
  · have h : (match inputItems (exCtx kwSchema) { types := [.input 0, .input 1, .input 2] } with
        | .ok items => hasTwoCycle items "type_" "A"
        | .error _ => false) = true := by decide +kernel
    split at h
    · rename_i items hi
      exact ⟨items, hi, twoCycle_cycle h⟩
    · cases h

/-- `type Query { node: Node, name: String }  type Node { id: ID!, child: Node, kind: Kind }  enum Kind { A }` -/
def sT : Schema :=
  { objects := [{ name := "Query", fields := [0, 1], implements := [] },
                { name := "Node", fields := [2, 3, 4], implements := [] }],
    fields := [{ name := "node", ty := { id := .object 1, quals := [] }, parent := .object 0, deprecation := none },
               { name := "name", ty := { id := .scalar 1, quals := [] }, parent := .object 0, deprecation := none },
               { name := "id", ty := { id := .scalar 0, quals := [.required] }, parent := .object 1, deprecation := none },
               { name := "child", ty := { id := .object 1, quals := [] }, parent := .object 1, deprecation := none },
               { name := "kind", ty := { id := .enum 0, quals := [] }, parent := .object 1, deprecation := none }],
    scalars := Schema.defaultScalars,
    enums := [{ name := "Kind", variants := ["A"] }],
    queryType := some 0 }

/-- `fragment Tree on Node { id child { ...Tree } }` (recursive), `fragment Wrap on Node { kind ...Tree }`
    (wrapper onto the cycle: lasso), `fragment Leaf on Node { id }`;
    `query Q { node { ...Wrap child { ...Leaf id } } name }` -/
def qT : Query :=
  { fragments := [ { name := "Tree", on := .object 1, sels := [.field none 2 [], .field none 3 [.spread 0]] },
                   { name := "Wrap", on := .object 1, sels := [.field none 4 [], .spread 0] },
                   { name := "Leaf", on := .object 1, sels := [.field none 2 []] } ],
    operations := [ { name := "Q", kind := .query, objectId := 0,
                      sels := [.field none 0 [.spread 1, .field none 3 [.spread 2, .field none 2 []]],
                               .field none 1 []] } ] }

def cT : Ctx := { s := sT, q := qT, o := {}, cs := ⟨id, id⟩ }
def opT : ROperation :=
  { name := "Q", kind := .query, objectId := 0,
    sels := [.field none 0 [.spread 1, .field none 3 [.spread 2, .field none 2 []]], .field none 1 []] }

example : fragmentIsRecursive qT 0 = true ∧ fragmentIsRecursive qT 1 = false ∧ fragmentIsRecursive qT 2 = false := by
  decide

/-- the emitted items: names and by-value references (`Treechild = Box<Tree>` and the flattened `tree`
    member of `Wrap` hold nothing by value) -/
example : (do let F ← [0, 1, 2].mapM (fragmentItems cT)
              let R ← responseItems cT opT
              pure ((F.flatten ++ R).map fun (it : Item) => (it.name, byValueRefs it))).toOption =
    some [("Tree", ["ID", "Treechild"]), ("Treechild", []), ("Wrap", ["Kind"]), ("Leaf", ["ID"]),
          ("ResponseData", ["Qnode", "String"]), ("Qnode", ["Wrap", "Qnodechild"]),
          ("Qnodechild", ["Leaf", "ID"])] := by decide +kernel

/-- (ii) applied to a document with a recursive fragment and a wrapper around it -/
example : ∀ F R, [0, 1, 2].mapM (fragmentItems cT) = .ok F → responseItems cT opT = .ok R →
    ¬ ∃ a, TransGen (containsByValue (F.flatten ++ R)) a a :=
  fun F R hF hR => module_response_items_acyclic_of_check cT [0, 1, 2] F opT R hF hR (by decide +kernel)

/-- `type Query { name: String! }`;  `fragment String on Query { name }  query Q { ...String }` -/
def strSdl : SdlDoc := [.object "Query" [] [{ name := "name", ty := .nonNull (.named "String"), directives := [] }]]
def strDoc : QDoc := [.frag "String" "Query" [.field none "name" []], .op .query (some "Q") [] [.spread "String"]]

/-- **a valid document whose emitted items are cyclic by value** (`hleaf` is needed, and it is not
    implied by "no name defined twice": the module defines no `String`).  A fragment named `String`
    is accepted by the validator and by `Codegen.generate`; the module contains
    `struct String { name: String }` — in Rust a type of infinite size (rustc E0072). -/
theorem fragment_named_String_cyclic :
    ∃ s ms, Sdl.fromSdl strSdl = .ok s ∧ Valid.validDoc s true strDoc = true ∧
      generate s ⟨id, id⟩ {} "" strDoc = .ok ms ∧
      ∀ m ∈ ms, (Scope.defines m.items).Nodup ∧ TransGen (containsByValue m.items) "String" "String" := by
  have h : (match Sdl.fromSdl strSdl with
      | .ok s => Valid.validDoc s true strDoc &&
        (match generate s ⟨id, id⟩ {} "" strDoc with
          | .ok ms => ms.all (fun m => decide (Scope.defines m.items).Nodup && hasSelfLoop m.items "String")
          | .error _ => false)
      | .error _ => false) = true := by decide +kernel
  split at h
  · rename_i s hs
    rw [Bool.and_eq_true] at h
    obtain ⟨h1, h2⟩ := h
    split at h2
    · rename_i ms hms
      refine ⟨s, ms, hs, h1, hms, fun m hm => ?_⟩
      have := List.all_eq_true.mp h2 m hm
      rw [Bool.and_eq_true, decide_eq_true_eq] at this
      exact ⟨this.1, selfLoop_cycle this.2⟩
    · cases h2
  · cases h

/-- `fragment Qx on Node { id }`;  `query Q { x: node { ...Qx } }` -/
def qClash : Query :=
  { fragments := [ { name := "Qx", on := .object 1, sels := [.field none 2 []] } ],
    operations := [ { name := "Q", kind := .query, objectId := 0, sels := [.field (some "x") 0 [.spread 0]] } ] }

/-- **distinct item names are needed for (ii)**: the selection `x { ...Qx }` of operation `Q` is rendered
    as the alias `type Qx = Qx;` next to the fragment's `struct Qx` (all other hypotheses hold) -/
theorem distinct_names_needed :
    let c : Ctx := { s := sT, q := qClash, o := {}, cs := ⟨id, id⟩ }
    let o : ROperation := { name := "Q", kind := .query, objectId := 0, sels := [.field (some "x") 0 [.spread 0]] }
    ∃ F R, [0].mapM (fragmentItems c) = .ok F ∧ responseItems c o = .ok R ∧
      ¬ ((F.flatten ++ R).map Item.name).Nodup ∧
      (∀ it ∈ F.flatten ++ R, it.name ∉ LeafNames c) ∧
      TransGen (containsByValue (F.flatten ++ R)) "Qx" "Qx" := by
  intro c o
  have h : (match [0].mapM (fragmentItems c), responseItems c o with
      | .ok F, .ok R =>
        !decide (((F.flatten ++ R).map Item.name).Nodup) &&
        (F.flatten ++ R).all (fun it => !(LeafNames c).contains it.name) &&
        hasSelfLoop (F.flatten ++ R) "Qx"
      | _, _ => false) = true := by decide +kernel
  split at h
  · rename_i F R hF hR
    simp only [Bool.and_eq_true, Bool.not_eq_true', decide_eq_false_iff_not, List.all_eq_true,
      List.contains_eq_mem] at h
    exact ⟨F, R, hF, hR, h.1.1, fun it hit => h.1.2 it hit, selfLoop_cycle h.2⟩
  · cases h

/-- `fragment Qx on Node { id }`;  `query Q { x: node { id ...Qx } }`, with the fragment's own items left out -/
def qOpen : Query :=
  { fragments := [ { name := "Qx", on := .object 1, sels := [.field none 2 []] } ],
    operations := [ { name := "Q", kind := .query, objectId := 0,
                      sels := [.field (some "x") 0 [.field none 2 [], .spread 0]] } ] }

/-- **closure under spreads is needed for (ii)**: if the block of a spread fragment is missing, its name
    can resolve to another item — here `struct Qx { id, qx: Qx }` (names distinct, no leaf name) -/
theorem closure_needed :
    let c : Ctx := { s := sT, q := qOpen, o := {}, cs := ⟨id, id⟩ }
    let o : ROperation := { name := "Q", kind := .query, objectId := 0,
                            sels := [.field (some "x") 0 [.field none 2 [], .spread 0]] }
    ∃ R, responseItems c o = .ok R ∧ (R.map Item.name).Nodup ∧ (∀ it ∈ R, it.name ∉ LeafNames c) ∧
      TransGen (containsByValue R) "Qx" "Qx" := by
  intro c o
  have h : (match responseItems c o with
      | .ok R => decide ((R.map Item.name).Nodup) && R.all (fun it => !(LeafNames c).contains it.name) &&
                 hasSelfLoop R "Qx"
      | _ => false) = true := by decide +kernel
  split at h
  · rename_i R hR
    simp only [Bool.and_eq_true, decide_eq_true_eq, List.all_eq_true, Bool.not_eq_true',
      List.contains_eq_mem, decide_eq_false_iff_not] at h
    exact ⟨R, hR, h.1.1, fun it hit => h.1.2 it hit, selfLoop_cycle h.2⟩
  · cases h

end C12I
end GqlVerif
